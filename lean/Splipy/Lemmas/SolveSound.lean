import Splipy.Model.LinAlg
import Mathlib.Algebra.BigOperators.Intervals
import Mathlib.Algebra.BigOperators.Ring.Finset
import Mathlib.Algebra.BigOperators.Fin
import Mathlib.Algebra.BigOperators.Field
import Mathlib.LinearAlgebra.Matrix.NonsingularInverse
import Mathlib.Tactic.Ring
/-!
# Soundness (and completeness) of the model's Gauss–Jordan elimination `Mat.solve` / `Mat.inv`

* `Mat.solveFn` : the same algorithm written with pure folds (`findPiv`, `swapScale`, `elimStep`,
  `colStep`, `colLoop`);  `Mat.solve_eq_solveFn : Mat.solve A B = Mat.solveFn A B` is the bridge to
  the `do`-notation model.
* `Mat.solve_sound` : `solve A B = .ok X`  ⇒  `X` is `n×m` and `A·X = B`.
* `Mat.inv_sound`, `Mat.inv_left` : `inv A = .ok Ai` ⇒ `A·Ai = I` and `Ai·A = I`.
* `Mat.solve_complete`, `Mat.solve_complete_det`, `Mat.solve_ne_error` : an invertible `A` is never
  rejected;  `Mat.solve_error` : the only possible error is `LinAlgError`.

Proof: every row operation is reversible, so any augmented vector `v` annihilated by all rows of the
current `[A'|B']` is annihilated by all rows of `[A|B]` (`IsAnnih`); after column `c` the first `c+1`
columns of `A'` are unit vectors (`UnitCols`).  At the end `A' = I`, and `v = (X e_j, -e_j)` is
annihilated.  If the pivot search fails at column `c`, `v = (e_c - Σ_{j<c} A'[j][c] e_j, 0)` is a
non-zero kernel vector of `A`.
-/

namespace Splipy
variable {K : Type} [Field K] [DecidableEq K]
set_option linter.unusedSectionVars false
set_option linter.unusedSimpArgs false
open Finset
namespace Mat

/-- one step of the pivot search -/
def pivStep (M : Mat K) (n c : ℕ) (piv r : ℕ) : ℕ :=
  if piv = n ∧ (M.getD r #[]).getD c 0 ≠ 0 then r else piv

def findPiv (M : Mat K) (n c : ℕ) : ℕ := (List.range' c (n - c)).foldl (pivStep M n c) n

def elimStep (c : ℕ) (rowN : Array K) (M : Mat K) (r : ℕ) : Mat K :=
  if r ≠ c then
    if (M.getD r #[]).getD c 0 ≠ 0 then
      M.set! r (Array.ofFn (n := (M.getD r #[]).size) (fun j =>
        (M.getD r #[]).getD j.val 0 - (M.getD r #[]).getD c 0 * rowN.getD j.val 0))
    else M
  else M

def rowNorm (M : Mat K) (c piv : ℕ) : Array K :=
  Array.map (fun x => x / (M.getD piv #[]).getD c 0) (M.getD piv #[])

def swapScale (M : Mat K) (c piv : ℕ) : Mat K :=
  ((M.set! piv (M.getD c #[])).set! c (M.getD piv #[])).set! c (rowNorm M c piv)

def colStep (n c : ℕ) (M : Mat K) : Option (Mat K) :=
  if findPiv M n c = n then none
  else some ((List.range' 0 n).foldl (elimStep c (rowNorm M c (findPiv M n c))) (swapScale M c (findPiv M n c)))

def colLoop (n : ℕ) : List ℕ → Mat K → Option (Mat K)
  | [], M => some M
  | c :: cs, M => match colStep n c M with
    | none => none
    | some M' => colLoop n cs M'

def augment (A B : Mat K) : Mat K :=
  Array.ofFn (n := A.nrows) (fun i => A.getD i.val #[] ++ B.getD i.val #[])

def solveFn (A B : Mat K) : PyM (Mat K) :=
  match colLoop A.nrows (List.range' 0 A.nrows) (augment A B) with
  | none => .error .linalg
  | some M => .ok (M.map (fun row => row.extract A.nrows row.size))


/-- literal body of the outer `for c in [0:n]` loop of `Mat.solve` -/
def solveBody (n : ℕ) (c : ℕ) (s : Option (PyM (Mat K)) × Array (Array K)) :
    Id (ForInStep (Option (PyM (Mat K)) × Array (Array K))) := do
  let __s_1 ←
    forIn (List.range' c ((n - c + 1 - 1) / 1)) n fun r __s_1 =>
        if __s_1 = n ∧ (s.2.getD r #[]).getD c 0 ≠ 0 then pure (ForInStep.yield r)
        else pure (ForInStep.yield __s_1)
  if __s_1 = n then pure (ForInStep.done (some (Except.error PyErr.linalg), s.2))
    else do
      let __s ←
        forIn (List.range' 0 ((n - 0 + 1 - 1) / 1))
            (((s.2.set! __s_1 (s.2.getD c #[])).set! c (s.2.getD __s_1 #[])).set! c
              (Array.map (fun x => x / (s.2.getD __s_1 #[]).getD c 0) (s.2.getD __s_1 #[])))
            fun r __s_2 =>
            if r ≠ c then
              if (__s_2.getD r #[]).getD c 0 ≠ 0 then
                pure
                  (ForInStep.yield
                    (__s_2.set! r
                      (Array.ofFn (n := (__s_2.getD r #[]).size) fun j =>
                        (__s_2.getD r #[]).getD (↑j) 0 -
                          (__s_2.getD r #[]).getD c 0 *
                            (Array.map (fun x => x / (s.2.getD __s_1 #[]).getD c 0)
                                  (s.2.getD __s_1 #[])).getD
                              (↑j) 0)))
              else pure (ForInStep.yield __s_2)
            else pure (ForInStep.yield __s_2)
      pure (ForInStep.yield (none, __s))

theorem findPiv_forIn (M : Mat K) (n c k : ℕ) :
    forIn (m := Id) (List.range' c k) n (fun r s =>
      if s = n ∧ (M.getD r #[]).getD c 0 ≠ 0 then pure (ForInStep.yield r)
      else pure (ForInStep.yield s)) = pure ((List.range' c k).foldl (pivStep M n c) n) := by
  have : (fun (r s : ℕ) => if s = n ∧ (M.getD r #[]).getD c 0 ≠ 0 then
        (pure (ForInStep.yield r) : Id (ForInStep ℕ)) else pure (ForInStep.yield s))
      = fun r s => pure (ForInStep.yield (pivStep M n c s r)) := by
    funext r s; unfold pivStep; split <;> rfl
  rw [this, List.forIn_pure_yield_eq_foldl]

theorem elim_forIn (c : ℕ) (rowN : Array K) (l : List ℕ) (M : Mat K) :
    forIn (m := Id) l M (fun r s =>
      if r ≠ c then
        if (s.getD r #[]).getD c 0 ≠ 0 then
          pure (ForInStep.yield (s.set! r (Array.ofFn (n := (s.getD r #[]).size) fun j =>
            (s.getD r #[]).getD (↑j) 0 - (s.getD r #[]).getD c 0 * rowN.getD (↑j) 0)))
        else pure (ForInStep.yield s)
      else pure (ForInStep.yield s)) = pure (l.foldl (elimStep c rowN) M) := by
  have : (fun (r : ℕ) (s : Mat K) => if r ≠ c then
        if (s.getD r #[]).getD c 0 ≠ 0 then
          (pure (ForInStep.yield (s.set! r (Array.ofFn (n := (s.getD r #[]).size) fun j =>
            (s.getD r #[]).getD (↑j) 0 - (s.getD r #[]).getD c 0 * rowN.getD (↑j) 0))) : Id (ForInStep (Mat K)))
        else pure (ForInStep.yield s)
      else pure (ForInStep.yield s))
      = fun r s => pure (ForInStep.yield (elimStep c rowN s r)) := by
    funext r s; unfold elimStep; split
    · split <;> rfl
    · rfl
  rw [this, List.forIn_pure_yield_eq_foldl]

theorem solveBody_eq (n c : ℕ) (M : Mat K) :
    solveBody n c (none, M) = match colStep n c M with
      | none => pure (ForInStep.done (some (Except.error PyErr.linalg), M))
      | some M' => pure (ForInStep.yield (none, M')) := by
  unfold solveBody colStep
  simp only [findPiv_forIn, elim_forIn]
  have e1 : (n - c + 1 - 1) / 1 = n - c := by simp
  have e2 : (n - 0 + 1 - 1) / 1 = n := by simp
  rw [e1, e2]
  simp only [pure_bind]
  show (if findPiv M n c = n then _ else _) = _
  split
  · rfl
  · rfl

theorem solveLoop_none (n : ℕ) (cs : List ℕ) (M : Mat K) (h : colLoop n cs M = none) :
    (forIn (m := Id) cs ((none : Option (PyM (Mat K))), M) (solveBody n)).1
      = some (Except.error PyErr.linalg) := by
  induction cs generalizing M with
  | nil => simp [colLoop] at h
  | cons c cs ih =>
    rw [List.forIn_cons, solveBody_eq]
    unfold colLoop at h
    cases hc : colStep n c M with
    | none => rfl
    | some M' =>
      rw [hc] at h
      simp only [pure_bind]
      exact ih M' h

theorem solveLoop_some (n : ℕ) (cs : List ℕ) (M M' : Mat K) (h : colLoop n cs M = some M') :
    forIn (m := Id) cs ((none : Option (PyM (Mat K))), M) (solveBody n) = pure (none, M') := by
  induction cs generalizing M with
  | nil => simp [colLoop] at h; simp [h]
  | cons c cs ih =>
    rw [List.forIn_cons, solveBody_eq]
    unfold colLoop at h
    cases hc : colStep n c M with
    | none => rw [hc] at h; simp at h
    | some M1 =>
      rw [hc] at h
      simp only [pure_bind]
      exact ih M1 h


theorem id_bind_run {α β : Type} (x : Id α) (k : α → Id β) : (x >>= k).run = (k x.run).run := rfl

theorem solve_eq_solveFn (A B : Mat K) : Mat.solve A B = solveFn A B := by
  unfold Mat.solve
  simp only [Std.Legacy.Range.forIn_eq_forIn_range', Std.Legacy.Range.size]
  rw [id_bind_run]
  have hb : forIn (m := Id) (List.range' 0 ((A.nrows - 0 + 1 - 1) / 1)) ((none : Option (PyM (Mat K))), augment A B) (solveBody A.nrows) = 
    (forIn (m := Id) (List.range' 0 ((A.nrows - 0 + 1 - 1) / 1))
              (none, Array.ofFn fun i => Array.getD A ↑i #[] ++ Array.getD B ↑i #[]) fun c __s => do
              let __s_1 ←
                forIn (List.range' c ((A.nrows - c + 1 - 1) / 1)) A.nrows fun r __s_1 =>
                    if __s_1 = A.nrows ∧ (__s.2.getD r #[]).getD c 0 ≠ 0 then pure (ForInStep.yield r)
                    else pure (ForInStep.yield __s_1)
              if __s_1 = A.nrows then pure (ForInStep.done (some (Except.error PyErr.linalg), __s.2))
                else do
                  let __s ←
                    forIn (List.range' 0 ((A.nrows - 0 + 1 - 1) / 1))
                        (((__s.2.set! __s_1 (__s.2.getD c #[])).set! c (__s.2.getD __s_1 #[])).set! c
                          (Array.map (fun x => x / (__s.2.getD __s_1 #[]).getD c 0) (__s.2.getD __s_1 #[])))
                        fun r __s_2 =>
                        if r ≠ c then
                          if (__s_2.getD r #[]).getD c 0 ≠ 0 then
                            pure
                              (ForInStep.yield
                                (__s_2.set! r
                                  (Array.ofFn (n := (__s_2.getD r #[]).size) fun j =>
                                    (__s_2.getD r #[]).getD (↑j) 0 -
                                      (__s_2.getD r #[]).getD c 0 *
                                        (Array.map (fun x => x / (__s.2.getD __s_1 #[]).getD c 0)
                                              (__s.2.getD __s_1 #[])).getD
                                          (↑j) 0)))
                          else pure (ForInStep.yield __s_2)
                        else pure (ForInStep.yield __s_2)
                  pure (ForInStep.yield (none, __s))) := rfl
  rw [← hb]
  have e2 : (A.nrows - 0 + 1 - 1) / 1 = A.nrows := by simp
  rw [e2]
  unfold solveFn
  cases hc : colLoop A.nrows (List.range' 0 A.nrows) (augment A B) with
  | none =>
    have h1 := solveLoop_none _ _ _ hc
    simp only [Id.run] at h1 ⊢
    rw [h1]; rfl
  | some M' =>
    have h1 := solveLoop_some _ _ _ _ hc
    rw [h1]; rfl

/-! ## Array-level facts -/

theorem getD_set!_eq (M : Mat K) (r : ℕ) (x : Array K) (h : r < M.size) :
    (M.set! r x).getD r #[] = x := by
  simp [Array.getD_eq_getD_getElem?, Array.getElem?_setIfInBounds, h]

theorem getD_set!_ne (M : Mat K) (r i : ℕ) (x : Array K) (h : i ≠ r) :
    (M.set! r x).getD i #[] = M.getD i #[] := by
  simp [Array.getD_eq_getD_getElem?, Array.getElem?_setIfInBounds, Ne.symm h]

theorem size_set! (M : Mat K) (r : ℕ) (x : Array K) : (M.set! r x).size = M.size := by
  simp

/-- shape predicate: `n` rows of length `N` -/
def IsShape (n N : ℕ) (M : Mat K) : Prop := M.size = n ∧ ∀ i, i < n → (M.getD i #[]).size = N

theorem IsShape.set! {n N : ℕ} {M : Mat K} (h : IsShape n N M) (r : ℕ) (x : Array K) (hx : x.size = N) :
    IsShape n N (M.set! r x) := by
  refine ⟨by rw [size_set!]; exact h.1, fun i hi => ?_⟩
  by_cases hir : i = r
  · subst hir; rw [getD_set!_eq _ _ _ (by rw [h.1]; exact hi)]; exact hx
  · rw [getD_set!_ne _ _ _ _ hir]; exact h.2 i hi

theorem get_set! (M : Mat K) (r i j : ℕ) (x : Array K) (hr : r < M.size) :
    Mat.get (M.set! r x) i j = if i = r then x.getD j 0 else M.get i j := by
  unfold Mat.get
  by_cases hir : i = r
  · subst hir; rw [getD_set!_eq _ _ _ hr]; simp
  · rw [getD_set!_ne _ _ _ _ hir]; simp [hir]

theorem getD_map_div (row : Array K) (pv : K) (j : ℕ) :
    (row.map (fun x => x / pv)).getD j 0 = row.getD j 0 / pv := by
  simp only [Array.getD_eq_getD_getElem?, Array.getElem?_map]
  cases row[j]? <;> simp

theorem getD_ofFn_lt {α : Type} (n : ℕ) (f : Fin n → α) (d : α) (i : ℕ) (h : i < n) :
    (Array.ofFn f).getD i d = f ⟨i, h⟩ := by
  simp [Array.getD, h]

/-! ## Pivot search -/

theorem foldl_pivStep_spec (M : Mat K) (n c : ℕ) (l : List ℕ) (hl : ∀ r ∈ l, c ≤ r ∧ r < n)
    (p0 : ℕ) (hp0 : p0 = n ∨ (c ≤ p0 ∧ p0 < n ∧ Mat.get M p0 c ≠ 0)) :
    l.foldl (pivStep M n c) p0 = n ∨
      (c ≤ l.foldl (pivStep M n c) p0 ∧ l.foldl (pivStep M n c) p0 < n ∧
        Mat.get M (l.foldl (pivStep M n c) p0) c ≠ 0) := by
  induction l generalizing p0 with
  | nil => simpa using hp0
  | cons r l ih =>
    rw [List.foldl_cons]
    apply ih (fun r' hr' => hl r' (List.mem_cons_of_mem _ hr'))
    unfold pivStep
    split
    · rename_i hh
      right
      exact ⟨(hl r List.mem_cons_self).1, (hl r List.mem_cons_self).2, hh.2⟩
    · exact hp0

theorem foldl_pivStep_eq_n (M : Mat K) (n c : ℕ) (l : List ℕ) (hl : ∀ r ∈ l, r < n)
    (p0 : ℕ) (h : l.foldl (pivStep M n c) p0 = n) :
    p0 = n ∧ ∀ r ∈ l, Mat.get M r c = 0 := by
  induction l generalizing p0 with
  | nil => exact ⟨by simpa using h, by simp⟩
  | cons r l ih =>
    rw [List.foldl_cons] at h
    obtain ⟨h1, h2⟩ := ih (fun r' hr' => hl r' (List.mem_cons_of_mem _ hr')) _ h
    unfold pivStep at h1
    split at h1
    · exact absurd h1 (Nat.ne_of_lt (hl r List.mem_cons_self))
    · rename_i hh
      refine ⟨h1, fun r' hr' => ?_⟩
      rcases List.mem_cons.mp hr' with rfl | hr'
      · by_contra hne
        exact hh ⟨h1, hne⟩
      · exact h2 r' hr'

theorem findPiv_spec (M : Mat K) (n c : ℕ) :
    findPiv M n c = n ∨ (c ≤ findPiv M n c ∧ findPiv M n c < n ∧ Mat.get M (findPiv M n c) c ≠ 0) := by
  unfold findPiv
  apply foldl_pivStep_spec
  · intro r hr
    rw [List.mem_range'_1] at hr
    omega
  · left; rfl

theorem findPiv_eq_n (M : Mat K) (n c : ℕ) (h : findPiv M n c = n) :
    ∀ r, c ≤ r → r < n → Mat.get M r c = 0 := by
  unfold findPiv at h
  intro r h1 h2
  refine (foldl_pivStep_eq_n M n c _ ?_ n h).2 r ?_
  · intro r hr
    rw [List.mem_range'_1] at hr
    omega
  · rw [List.mem_range'_1]; omega

/-! ## Swap + scale -/

theorem swapScale_WF {n N : ℕ} {M : Mat K} (h : IsShape n N M) (c p : ℕ) (hc : c < n) (hp : p < n) :
    IsShape n N (swapScale M c p) := by
  unfold swapScale
  refine ((h.set! p _ (h.2 c hc)).set! c _ (h.2 p hp)).set! c _ ?_
  unfold rowNorm
  rw [Array.size_map]; exact h.2 p hp

theorem rowNorm_getD (M : Mat K) (c p j : ℕ) :
    (rowNorm M c p).getD j 0 = Mat.get M p j / Mat.get M p c := by
  unfold rowNorm
  rw [getD_map_div]; rfl

theorem swapScale_get {n N : ℕ} {M : Mat K} (h : IsShape n N M) (c p : ℕ) (hc : c < n) (hp : p < n)
    (i j : ℕ) :
    Mat.get (swapScale M c p) i j =
      if i = c then Mat.get M p j / Mat.get M p c
      else if i = p then Mat.get M c j else Mat.get M i j := by
  unfold swapScale
  rw [get_set! _ _ _ _ _ (by simp [h.1, hc]), get_set! _ _ _ _ _ (by simp [h.1, hc]),
    get_set! _ _ _ _ _ (by simp [h.1, hp]), rowNorm_getD]
  have e1 : ∀ x, (M.getD x #[]).getD j 0 = Mat.get M x j := fun _ => rfl
  rw [e1, e1]
  by_cases h1 : i = c
  · rw [if_pos h1, if_pos h1]
  · rw [if_neg h1, if_neg h1, if_neg h1]

/-! ## Elimination -/

/-- annihilation of the augmented vector `v` by the first `n` rows -/
def IsAnnih (n N : ℕ) (M : Mat K) (v : ℕ → K) : Prop :=
  ∀ i, i < n → ∑ l ∈ range N, Mat.get M i l * v l = 0

theorem elimStep_WF {n N : ℕ} {M : Mat K} (h : IsShape n N M) (c : ℕ) (rowN : Array K) (r : ℕ)
    (hr : r < n) : IsShape n N (elimStep c rowN M r) := by
  unfold elimStep
  split
  · split
    · exact h.set! r _ (by rw [Array.size_ofFn]; exact h.2 r hr)
    · exact h
  · exact h

theorem elimStep_get {n N : ℕ} {M : Mat K} (h : IsShape n N M) (c : ℕ) (rowN : Array K) (r : ℕ)
    (hr : r < n) (i j : ℕ) (hj : j < N) :
    Mat.get (elimStep c rowN M r) i j =
      if i = r ∧ r ≠ c then Mat.get M r j - Mat.get M r c * rowN.getD j 0 else Mat.get M i j := by
  unfold elimStep
  by_cases hrc : r = c
  · simp [hrc]
  · by_cases hf : (M.getD r #[]).getD c 0 = 0
    · have hf' : Mat.get M r c = 0 := hf
      simp only [ne_eq, hrc, not_false_eq_true, hf, not_true_eq_false, if_true, if_false, and_true]
      split
      · rename_i hir; subst hir; rw [hf']; ring
      · rfl
    · simp only [ne_eq, hrc, not_false_eq_true, hf, if_true, and_true]
      rw [get_set! _ _ _ _ _ (by rw [h.1]; exact hr)]
      split
      · rw [getD_ofFn_lt _ _ _ _ (by rw [h.2 r hr]; exact hj)]
        rfl
      · rfl

theorem elimStep_sol {n N : ℕ} {M : Mat K} (h : IsShape n N M) (c : ℕ) (hc : c < n) (rowN : Array K)
    (hrow : ∀ j, j < N → Mat.get M c j = rowN.getD j 0) (r : ℕ) (hr : r < n) (v : ℕ → K)
    (hs : IsAnnih n N (elimStep c rowN M r) v) : IsAnnih n N M v := by
  have hcrow : ∑ l ∈ range N, Mat.get M c l * v l = 0 := by
    rw [← hs c hc]
    apply sum_congr rfl
    intro l hl
    rw [elimStep_get h c rowN r hr c l (mem_range.mp hl)]
    split
    · rename_i hh; exact absurd hh.1.symm hh.2
    · rfl
  intro i hi
  by_cases hir : i = r ∧ r ≠ c
  · have := hs i hi
    have e : ∑ l ∈ range N, Mat.get (elimStep c rowN M r) i l * v l
        = ∑ l ∈ range N, Mat.get M i l * v l
          - Mat.get M r c * ∑ l ∈ range N, Mat.get M c l * v l := by
      rw [mul_sum, ← sum_sub_distrib]
      apply sum_congr rfl
      intro l hl
      rw [elimStep_get h c rowN r hr i l (mem_range.mp hl), if_pos hir,
        hrow l (mem_range.mp hl), hir.1]
      ring
    rw [e, hcrow] at this
    simpa using this
  · rw [← hs i hi]
    apply sum_congr rfl
    intro l hl
    rw [elimStep_get h c rowN r hr i l (mem_range.mp hl), if_neg hir]

theorem elimFold_spec {n N c : ℕ} (hc : c < n) (rowN : Array K) (l : List ℕ)
    (hl : ∀ r ∈ l, r < n) (M : Mat K) (h : IsShape n N M)
    (hrow : ∀ j, j < N → Mat.get M c j = rowN.getD j 0) :
    IsShape n N (l.foldl (elimStep c rowN) M) ∧
    (∀ j, j < N → Mat.get (l.foldl (elimStep c rowN) M) c j = Mat.get M c j) ∧
    (∀ v, IsAnnih n N (l.foldl (elimStep c rowN) M) v → IsAnnih n N M v) ∧
    (∀ j, j < N → rowN.getD j 0 = 0 → ∀ i, i < n →
      Mat.get (l.foldl (elimStep c rowN) M) i j = Mat.get M i j) ∧
    (rowN.getD c 0 = 1 → c < N → ∀ i, i < n → i ≠ c → (Mat.get M i c = 0 ∨ i ∈ l) →
      Mat.get (l.foldl (elimStep c rowN) M) i c = 0) := by
  induction l generalizing M with
  | nil =>
    refine ⟨h, fun _ _ => rfl, fun _ hv => hv, fun _ _ _ _ _ => rfl, ?_⟩
    intro _ _ i _ _ hh
    rcases hh with hh | hh
    · exact hh
    · simp at hh
  | cons r l ih =>
    have hr : r < n := hl r List.mem_cons_self
    have h1 : IsShape n N (elimStep c rowN M r) := elimStep_WF h c rowN r hr
    have hc1 : ∀ j, j < N → Mat.get (elimStep c rowN M r) c j = Mat.get M c j := by
      intro j hj
      rw [elimStep_get h c rowN r hr c j hj]
      split
      · rename_i hh; exact absurd hh.1.symm hh.2
      · rfl
    have hrow1 : ∀ j, j < N → Mat.get (elimStep c rowN M r) c j = rowN.getD j 0 :=
      fun j hj => by rw [hc1 j hj, hrow j hj]
    obtain ⟨i1, i2, i3, i4, i5⟩ :=
      ih (fun r' hr' => hl r' (List.mem_cons_of_mem _ hr')) (elimStep c rowN M r) h1 hrow1
    rw [List.foldl_cons]
    refine ⟨i1, fun j hj => by rw [i2 j hj, hc1 j hj],
      fun v hv => elimStep_sol h c hc rowN hrow r hr v (i3 v hv), ?_, ?_⟩
    · intro j hj h0 i hi
      rw [i4 j hj h0 i hi, elimStep_get h c rowN r hr i j hj]
      split
      · rename_i hh; rw [h0, hh.1]; ring
      · rfl
    · intro hone hcN i hi hic hh
      apply i5 hone hcN i hi hic
      rw [elimStep_get h c rowN r hr i c hcN]
      rcases hh with hh | hh
      · left
        split
        · rename_i h2; rw [hone]; ring
        · exact hh
      · rcases List.mem_cons.mp hh with hh | hh
        · left
          rw [if_pos ⟨hh, by rw [← hh]; exact hic⟩, hone]; ring
        · right; exact hh

/-! ## One column step and the column loop -/

/-- the first `c` columns are unit vectors -/
def UnitCols (n c : ℕ) (M : Mat K) : Prop :=
  ∀ i, i < n → ∀ j, j < c → Mat.get M i j = if i = j then 1 else 0

theorem swapScale_sol {n N : ℕ} {M : Mat K} (h : IsShape n N M) (c p : ℕ) (hc : c < n) (hp : p < n)
    (hpv : Mat.get M p c ≠ 0) (v : ℕ → K) (hs : IsAnnih n N (swapScale M c p) v) : IsAnnih n N M v := by
  have hprow : ∑ l ∈ range N, Mat.get M p l * v l = 0 := by
    have := hs c hc
    simp only [swapScale_get h c p hc hp, if_true] at this
    have e : ∑ l ∈ range N, Mat.get M p l / Mat.get M p c * v l
        = (∑ l ∈ range N, Mat.get M p l * v l) / Mat.get M p c := by
      rw [Finset.sum_div]; apply sum_congr rfl; intro l _; ring
    rw [e, div_eq_zero_iff] at this
    rcases this with h0 | h0
    · exact h0
    · exact absurd h0 hpv
  intro i hi
  by_cases hip : i = p
  · rw [hip]; exact hprow
  · by_cases hic : i = c
    · have := hs p hp
      have hpc : p ≠ c := fun e => hip (by rw [hic, e])
      simp only [swapScale_get h c p hc hp, if_neg hpc, if_true] at this
      rw [hic]; exact this
    · have := hs i hi
      simp only [swapScale_get h c p hc hp, if_neg hic, if_neg hip] at this
      exact this

theorem colStep_spec {n N c : ℕ} (hc : c < n) (hnN : n ≤ N) (M M' : Mat K) (h : IsShape n N M)
    (hid : UnitCols n c M) (hs : colStep n c M = some M') :
    IsShape n N M' ∧ UnitCols n (c + 1) M' ∧ (∀ v, IsAnnih n N M' v → IsAnnih n N M v) := by
  unfold colStep at hs
  split at hs
  · exact absurd hs (by simp)
  · rename_i hne
    rcases findPiv_spec M n c with hp | ⟨hp1, hp2, hp3⟩
    · exact absurd hp hne
    · generalize findPiv M n c = p at *
      have hM' : M' = (List.range' 0 n).foldl (elimStep c (rowNorm M c p)) (swapScale M c p) := by
        simpa using hs.symm
      have h2 : IsShape n N (swapScale M c p) := swapScale_WF h c p hc hp2
      have hrow : ∀ j, j < N → Mat.get (swapScale M c p) c j = (rowNorm M c p).getD j 0 := by
        intro j _
        rw [swapScale_get h c p hc hp2, if_pos rfl, rowNorm_getD]
      have hl : ∀ r ∈ List.range' 0 n, r < n := by
        intro r hr; rw [List.mem_range'_1] at hr; omega
      obtain ⟨i1, i2, i3, i4, i5⟩ := elimFold_spec hc (rowNorm M c p) (List.range' 0 n) hl
        (swapScale M c p) h2 hrow
      rw [← hM'] at i1 i2 i3 i4 i5
      have hcN : c < N := by omega
      have hone : (rowNorm M c p).getD c 0 = 1 := by
        rw [rowNorm_getD]; exact div_self hp3
      have hzero : ∀ j, j < c → (rowNorm M c p).getD j 0 = 0 := by
        intro j hj
        rw [rowNorm_getD, hid p hp2 j hj, if_neg (by omega)]; simp
      refine ⟨i1, ?_, fun v hv => swapScale_sol h c p hc hp2 hp3 v (i3 v hv)⟩
      intro i hi j hj
      by_cases hjc : j = c
      · subst hjc
        by_cases hij : i = j
        · subst hij
          rw [i2 i hcN, hrow i hcN, hone, if_pos rfl]
        · rw [if_neg hij]
          apply i5 hone hcN i hi hij
          right; rw [List.mem_range'_1]; omega
      · have hj' : j < c := by omega
        rw [i4 j (by omega) (hzero j hj') i hi, swapScale_get h c p hc hp2]
        by_cases hic : i = c
        · rw [if_pos hic, hid p hp2 j hj', if_neg (by omega), if_neg (by omega)]; simp
        · rw [if_neg hic]
          by_cases hip : i = p
          · rw [if_pos hip, hid c hc j hj', if_neg (by omega), if_neg (by omega)]
          · rw [if_neg hip, hid i hi j hj']

theorem colLoop_spec {n N : ℕ} (hnN : n ≤ N) (M0 : Mat K) (k : ℕ) :
    ∀ (c : ℕ) (M M' : Mat K), c + k = n → IsShape n N M → UnitCols n c M →
      (∀ v, IsAnnih n N M v → IsAnnih n N M0 v) → colLoop n (List.range' c k) M = some M' →
      IsShape n N M' ∧ UnitCols n n M' ∧ (∀ v, IsAnnih n N M' v → IsAnnih n N M0 v) := by
  induction k with
  | zero =>
    intro c M M' hck h hid hsol hs
    simp [colLoop] at hs
    subst hs
    have : c = n := by omega
    subst this
    exact ⟨h, hid, hsol⟩
  | succ k ih =>
    intro c M M' hck h hid hsol hs
    rw [List.range'_succ] at hs
    unfold colLoop at hs
    cases hcs : colStep n c M with
    | none => rw [hcs] at hs; exact absurd hs (by simp)
    | some M1 =>
      rw [hcs] at hs
      obtain ⟨j1, j2, j3⟩ := colStep_spec (by omega) hnN M M1 h hid hcs
      exact ih (c + 1) M1 M' (by omega) j1 j2 (fun v hv => hsol v (j3 v hv)) hs

/-! ## Augmentation and extraction -/

theorem augment_WF (A B : Mat K) (n m : ℕ)
    (hA : A.size = n ∧ ∀ i, i < n → (A.getD i #[]).size = n)
    (hB : B.size = n ∧ ∀ i, i < n → (B.getD i #[]).size = m) : IsShape n (n + m) (augment A B) := by
  unfold augment Mat.nrows
  rw [hA.1]
  refine ⟨by simp, fun i hi => ?_⟩
  rw [getD_ofFn_lt _ _ _ _ hi, Array.size_append, hA.2 i hi, hB.2 i hi]

theorem augment_get (A B : Mat K) (n : ℕ)
    (hA : A.size = n ∧ ∀ i, i < n → (A.getD i #[]).size = n) (i l : ℕ) (hi : i < n) :
    Mat.get (augment A B) i l = if l < n then Mat.get A i l else Mat.get B i (l - n) := by
  unfold augment Mat.nrows Mat.get
  have : (Array.ofFn (n := A.size) fun i => A.getD i.val #[] ++ B.getD i.val #[]).getD i #[]
      = A.getD i #[] ++ B.getD i #[] := getD_ofFn_lt _ _ _ _ (by rw [hA.1]; exact hi)
  rw [this]
  simp only [Array.getD_eq_getD_getElem?, Array.getElem?_append]
  have := hA.2 i hi
  simp only [Array.getD_eq_getD_getElem?] at this
  rw [this]
  split <;> rfl

theorem extract_spec {n m : ℕ} (M : Mat K) (h : IsShape n (n + m) M) :
    (M.map (fun row => row.extract n row.size)).size = n ∧
    (∀ i, i < n → ((M.map (fun row => row.extract n row.size)).getD i #[]).size = m) ∧
    (∀ i j, i < n → j < m →
      Mat.get (M.map (fun row => row.extract n row.size)) i j = Mat.get M i (n + j)) := by
  have hrow : ∀ i, i < n → (M.map (fun row => row.extract n row.size)).getD i #[]
      = (M.getD i #[]).extract n (M.getD i #[]).size := by
    intro i hi
    have hi' : i < M.size := by rw [h.1]; exact hi
    simp [Array.getD, hi']
  refine ⟨by rw [Array.size_map]; exact h.1, fun i hi => ?_, fun i j hi hj => ?_⟩
  · rw [hrow i hi, Array.size_extract, h.2 i hi]; omega
  · unfold Mat.get
    rw [hrow i hi]
    have hs := h.2 i hi
    simp only [Array.getD_eq_getD_getElem?, Array.getElem?_extract] at hs ⊢
    rw [hs, if_pos (by omega)]

/-! ## Soundness of the functional version -/

theorem solveFn_sound (A B X : Mat K) (n m : ℕ)
    (hA : A.size = n ∧ ∀ i, i < n → (A.getD i #[]).size = n)
    (hB : B.size = n ∧ ∀ i, i < n → (B.getD i #[]).size = m)
    (h : solveFn A B = .ok X) :
    X.size = n ∧ (∀ i, i < n → (X.getD i #[]).size = m) ∧
    ∀ i j, i < n → j < m → (Finset.range n).sum (fun l => A.get i l * X.get l j) = B.get i j := by
  unfold solveFn at h
  have hn : A.nrows = n := hA.1
  rw [hn] at h
  cases hc : colLoop n (List.range' 0 n) (augment A B) with
  | none => rw [hc] at h; exact absurd h (by simp)
  | some M' =>
    rw [hc] at h
    have hX : X = M'.map (fun row => row.extract n row.size) := by
      simpa using h.symm
    have h0 : IsShape n (n + m) (augment A B) := augment_WF A B n m hA hB
    obtain ⟨j1, j2, j3⟩ := colLoop_spec (Nat.le_add_right n m) (augment A B) n 0 (augment A B) M'
      (by omega) h0 (fun i _ j hj => absurd hj (Nat.not_lt_zero j)) (fun v hv => hv) hc
    obtain ⟨x1, x2, x3⟩ := extract_spec M' j1
    rw [← hX] at x1 x2 x3
    refine ⟨x1, x2, fun i j hi hj => ?_⟩
    -- the augmented vector of column `j`
    let v : ℕ → K := fun l => if l < n then X.get l j else if l = n + j then -1 else 0
    have hv : IsAnnih n (n + m) M' v := by
      intro i' hi'
      rw [sum_range_add]
      have e1 : ∑ l ∈ range n, Mat.get M' i' l * v l = X.get i' j := by
        rw [sum_congr rfl (g := fun l => if i' = l then X.get l j else 0)]
        · rw [sum_ite_eq]; simp [hi']
        · intro l hl
          have hl' := mem_range.mp hl
          rw [j2 i' hi' l hl']
          simp only [v, if_pos hl']
          split <;> simp
      have e2 : ∑ l ∈ range m, Mat.get M' i' (n + l) * v (n + l) = - X.get i' j := by
        rw [sum_congr rfl (g := fun l => if j = l then - Mat.get M' i' (n + l) else 0)]
        · rw [sum_ite_eq]; simp [hj, x3 i' j hi' hj]
        · intro l _
          simp only [v, if_neg (show ¬ n + l < n by omega)]
          by_cases hjl : j = l
          · subst hjl; simp
          · rw [if_neg (by omega), if_neg hjl]; simp
      rw [e1, e2]; ring
    have := j3 v hv i hi
    rw [sum_range_add] at this
    have e1 : ∑ l ∈ range n, Mat.get (augment A B) i l * v l
        = ∑ l ∈ range n, A.get i l * X.get l j := by
      apply sum_congr rfl
      intro l hl
      have hl' := mem_range.mp hl
      rw [augment_get A B n hA i l hi, if_pos hl']
      simp only [v, if_pos hl']
    have e2 : ∑ l ∈ range m, Mat.get (augment A B) i (n + l) * v (n + l) = - B.get i j := by
      rw [sum_congr rfl (g := fun l => if j = l then - B.get i l else 0)]
      · rw [sum_ite_eq]; simp [hj]
      · intro l _
        rw [augment_get A B n hA i (n + l) hi, if_neg (by omega), Nat.add_sub_cancel_left]
        simp only [v, if_neg (show ¬ n + l < n by omega)]
        by_cases hjl : j = l
        · subst hjl; simp
        · rw [if_neg (by omega), if_neg hjl]; simp
    rw [e1, e2] at this
    rw [← sub_eq_add_neg, sub_eq_zero] at this
    exact this

/-- **Soundness** of the model's Gauss–Jordan elimination. -/
theorem solve_sound (A B : Mat K) (X : Mat K) (n m : ℕ)
    (hA : A.size = n ∧ ∀ i, i < n → (A.getD i #[]).size = n)
    (hB : B.size = n ∧ ∀ i, i < n → (B.getD i #[]).size = m)
    (h : Mat.solve A B = .ok X) :
    X.size = n ∧ (∀ i, i < n → (X.getD i #[]).size = m) ∧
    ∀ i j, i < n → j < m → (Finset.range n).sum (fun l => A.get i l * X.get l j) = B.get i j := by
  rw [solve_eq_solveFn] at h
  exact solveFn_sound A B X n m hA hB h

/-! ## Inverse -/

theorem identity_shape (n : ℕ) :
    (Mat.identity n : Mat K).size = n ∧ ∀ i, i < n → ((Mat.identity n : Mat K).getD i #[]).size = n := by
  unfold Mat.identity
  refine ⟨by simp, fun i hi => ?_⟩
  rw [getD_ofFn_lt _ _ _ _ hi]; simp

theorem identity_get (n i j : ℕ) (hi : i < n) (hj : j < n) :
    (Mat.identity n : Mat K).get i j = if i = j then 1 else 0 := by
  unfold Mat.identity Mat.get
  rw [getD_ofFn_lt _ _ _ _ hi, getD_ofFn_lt _ _ _ _ hj]

/-- **Right inverse**: a successful `Mat.inv` returns `Ai` with `A · Ai = I`. -/
theorem inv_sound (A Ai : Mat K) (n : ℕ)
    (hA : A.size = n ∧ ∀ i, i < n → (A.getD i #[]).size = n)
    (h : Mat.inv A = .ok Ai) :
    Ai.size = n ∧ (∀ i, i < n → (Ai.getD i #[]).size = n) ∧
    ∀ i j, i < n → j < n →
      (Finset.range n).sum (fun l => A.get i l * Ai.get l j) = if i = j then 1 else 0 := by
  unfold Mat.inv at h
  have hn : A.nrows = n := hA.1
  rw [hn] at h
  obtain ⟨h1, h2, h3⟩ := solve_sound A (Mat.identity n) Ai n n hA (identity_shape n) h
  refine ⟨h1, h2, fun i j hi hj => ?_⟩
  rw [h3 i j hi hj, identity_get n i j hi hj]

/-- entrywise right inverse ⇒ entrywise left inverse (via `Matrix.mul_eq_one_comm`). -/
theorem left_of_right_inverse (n : ℕ) (a x : ℕ → ℕ → K)
    (h : ∀ i j, i < n → j < n → ∑ l ∈ range n, a i l * x l j = if i = j then 1 else 0) :
    ∀ i j, i < n → j < n → ∑ l ∈ range n, x i l * a l j = if i = j then 1 else 0 := by
  let Am : Matrix (Fin n) (Fin n) K := Matrix.of fun i j => a i.val j.val
  let Xm : Matrix (Fin n) (Fin n) K := Matrix.of fun i j => x i.val j.val
  have hAX : Am * Xm = 1 := by
    ext i j
    rw [Matrix.mul_apply, Matrix.one_apply]
    have := h i.val j.val i.isLt j.isLt
    rw [Finset.sum_range] at this
    simp only [Am, Xm, Matrix.of_apply]
    rw [this]
    simp only [Fin.ext_iff]
  have hXA : Xm * Am = 1 := mul_eq_one_comm.mp hAX
  intro i j hi hj
  have := congrFun (congrFun hXA ⟨i, hi⟩) ⟨j, hj⟩
  rw [Matrix.mul_apply, Matrix.one_apply] at this
  simp only [Am, Xm, Matrix.of_apply, Fin.ext_iff] at this
  rw [Finset.sum_range]
  exact this

/-- **Left inverse**: a successful `Mat.inv` returns `Ai` with `Ai · A = I`. -/
theorem inv_left (A Ai : Mat K) (n : ℕ)
    (hA : A.size = n ∧ ∀ i, i < n → (A.getD i #[]).size = n)
    (h : Mat.inv A = .ok Ai) :
    Ai.size = n ∧ (∀ i, i < n → (Ai.getD i #[]).size = n) ∧
    ∀ i j, i < n → j < n →
      (Finset.range n).sum (fun l => Ai.get i l * A.get l j) = if i = j then 1 else 0 := by
  obtain ⟨h1, h2, h3⟩ := inv_sound A Ai n hA h
  exact ⟨h1, h2, left_of_right_inverse n (fun i j => A.get i j) (fun i j => Ai.get i j) h3⟩

/-! ## Completeness -/

theorem colStep_none_kernel {n N c : ℕ} (hc : c < n) (hnN : n ≤ N) (M : Mat K)
    (hid : UnitCols n c M) (hs : colStep n c M = none) :
    ∃ v : ℕ → K, v c = 1 ∧ (∀ l, n ≤ l → v l = 0) ∧ IsAnnih n N M v := by
  unfold colStep at hs
  split at hs
  · rename_i hp
    have hz := findPiv_eq_n M n c hp
    refine ⟨fun l => if l < c then - Mat.get M l c else if l = c then 1 else 0, by simp,
      fun l hl => by beta_reduce; rw [if_neg (by omega), if_neg (by omega)], ?_⟩
    intro i hi
    beta_reduce
    have hN : N = c + (N - c) := by omega
    rw [hN, sum_range_add]
    have e1 : ∑ l ∈ range c, Mat.get M i l * (if l < c then - Mat.get M l c else if l = c then 1 else 0)
        = if i < c then - Mat.get M i c else 0 := by
      rw [sum_congr rfl (g := fun l => if i = l then - Mat.get M l c else 0)]
      · rw [sum_ite_eq]; simp
      · intro l hl
        have hl' := mem_range.mp hl
        rw [hid i hi l hl', if_pos hl']
        split <;> simp
    have e2 : ∑ l ∈ range (N - c), Mat.get M i (c + l) *
          (if c + l < c then - Mat.get M (c + l) c else if c + l = c then 1 else 0)
        = Mat.get M i c := by
      rw [sum_congr rfl (g := fun l => if 0 = l then Mat.get M i (c + l) else 0)]
      · rw [sum_ite_eq]; simp; omega
      · intro l _
        rw [if_neg (by omega)]
        by_cases hl : l = 0
        · subst hl; simp
        · rw [if_neg (by omega), if_neg (by omega)]; simp
    rw [e1, e2]
    by_cases hic : i < c
    · rw [if_pos hic]; ring
    · rw [if_neg hic, hz i (by omega) hi]; ring
  · exact absurd hs (by simp)

theorem colLoop_none_kernel {n N : ℕ} (hnN : n ≤ N) (k : ℕ) :
    ∀ (c : ℕ) (M : Mat K), c + k = n → IsShape n N M → UnitCols n c M →
      colLoop n (List.range' c k) M = none →
      ∃ (v : ℕ → K) (c' : ℕ), c' < n ∧ v c' = 1 ∧ (∀ l, n ≤ l → v l = 0) ∧ IsAnnih n N M v := by
  induction k with
  | zero =>
    intro c M _ _ _ hs
    simp [colLoop] at hs
  | succ k ih =>
    intro c M hck h hid hs
    rw [List.range'_succ] at hs
    unfold colLoop at hs
    cases hcs : colStep n c M with
    | none =>
      obtain ⟨v, v1, v2, v3⟩ := colStep_none_kernel (N := N) (by omega) hnN M hid hcs
      exact ⟨v, c, by omega, v1, v2, v3⟩
    | some M1 =>
      rw [hcs] at hs
      obtain ⟨j1, j2, j3⟩ := colStep_spec (by omega) hnN M M1 h hid hcs
      obtain ⟨v, c', w1, w2, w3, w4⟩ := ih (c + 1) M1 (by omega) j1 j2 hs
      exact ⟨v, c', w1, w2, w3, j3 v w4⟩

/-- **Completeness**: if `A` has an (entrywise) left inverse, the elimination does not fail. -/
theorem solve_complete (A B : Mat K) (n m : ℕ)
    (hA : A.size = n ∧ ∀ i, i < n → (A.getD i #[]).size = n)
    (hB : B.size = n ∧ ∀ i, i < n → (B.getD i #[]).size = m)
    (L : ℕ → ℕ → K)
    (hL : ∀ i j, i < n → j < n → ∑ l ∈ range n, L i l * A.get l j = if i = j then 1 else 0) :
    ∃ X, Mat.solve A B = .ok X := by
  rw [solve_eq_solveFn]
  unfold solveFn
  have hn : A.nrows = n := hA.1
  rw [hn]
  cases hc : colLoop n (List.range' 0 n) (augment A B) with
  | some M' => exact ⟨_, rfl⟩
  | none =>
    exfalso
    have h0 : IsShape n (n + m) (augment A B) := augment_WF A B n m hA hB
    obtain ⟨v, c, hc1, hv1, hv2, hv3⟩ := colLoop_none_kernel (Nat.le_add_right n m) n 0
      (augment A B) (by omega) h0 (fun i _ j hj => absurd hj (Nat.not_lt_zero j)) hc
    -- `A · v = 0`
    have hAv : ∀ i, i < n → ∑ l ∈ range n, A.get i l * v l = 0 := by
      intro i hi
      have := hv3 i hi
      rw [sum_range_add] at this
      have e2 : ∑ l ∈ range m, Mat.get (augment A B) i (n + l) * v (n + l) = 0 := by
        apply sum_eq_zero; intro l _; rw [hv2 (n + l) (by omega)]; ring
      rw [e2, add_zero] at this
      rw [← this]
      apply sum_congr rfl
      intro l hl
      rw [augment_get A B n hA i l hi, if_pos (mem_range.mp hl)]
    -- `v c = (L A v) c = 0`
    have : v c = 0 := by
      calc v c = ∑ j ∈ range n, (if c = j then 1 else 0) * v j := by
            simp [sum_ite_eq, hc1]
        _ = ∑ j ∈ range n, (∑ i ∈ range n, L c i * A.get i j) * v j := by
            apply sum_congr rfl; intro j hj; rw [hL c j hc1 (mem_range.mp hj)]
        _ = ∑ i ∈ range n, L c i * ∑ j ∈ range n, A.get i j * v j := by
            simp only [sum_mul, mul_sum]
            rw [sum_comm]
            apply sum_congr rfl; intro i _; apply sum_congr rfl; intro j _; ring
        _ = 0 := by
            apply sum_eq_zero; intro i hi; rw [hAv i (mem_range.mp hi)]; ring
    rw [hv1] at this
    exact one_ne_zero this

/-- Completeness of `Mat.inv`: an `A` with a left inverse is inverted. -/
theorem inv_complete (A : Mat K) (n : ℕ)
    (hA : A.size = n ∧ ∀ i, i < n → (A.getD i #[]).size = n)
    (L : ℕ → ℕ → K)
    (hL : ∀ i j, i < n → j < n → ∑ l ∈ range n, L i l * A.get l j = if i = j then 1 else 0) :
    ∃ Ai, Mat.inv A = .ok Ai := by
  unfold Mat.inv
  have hn : A.nrows = n := hA.1
  rw [hn]
  exact solve_complete A (Mat.identity n) n n hA (identity_shape n) L hL

/-- Completeness, determinant form. -/
theorem solve_complete_det (A B : Mat K) (n m : ℕ)
    (hA : A.size = n ∧ ∀ i, i < n → (A.getD i #[]).size = n)
    (hB : B.size = n ∧ ∀ i, i < n → (B.getD i #[]).size = m)
    (hdet : (Matrix.of fun (i j : Fin n) => A.get i.val j.val).det ≠ 0) :
    ∃ X, Mat.solve A B = .ok X := by
  set Am : Matrix (Fin n) (Fin n) K := Matrix.of fun (i j : Fin n) => A.get i.val j.val with hAm
  have hu : IsUnit Am.det := isUnit_iff_ne_zero.mpr hdet
  have hinv : Am⁻¹ * Am = 1 := Matrix.nonsing_inv_mul Am hu
  refine solve_complete A B n m hA hB
    (fun i j => if h : i < n ∧ j < n then Am⁻¹ ⟨i, h.1⟩ ⟨j, h.2⟩ else 0) ?_
  intro i j hi hj
  have := congrFun (congrFun hinv ⟨i, hi⟩) ⟨j, hj⟩
  rw [Matrix.mul_apply, Matrix.one_apply] at this
  simp only [Fin.ext_iff] at this
  rw [← this, Finset.sum_range]
  apply sum_congr rfl
  intro l _
  rw [dif_pos ⟨hi, l.isLt⟩]
  rfl

/-- Completeness in the form "no `LinAlgError`". -/
theorem solve_ne_error (A B : Mat K) (n m : ℕ)
    (hA : A.size = n ∧ ∀ i, i < n → (A.getD i #[]).size = n)
    (hB : B.size = n ∧ ∀ i, i < n → (B.getD i #[]).size = m)
    (hdet : IsUnit (Matrix.of fun (i j : Fin n) => A.get i.val j.val).det) :
    Mat.solve A B ≠ .error .linalg := by
  obtain ⟨X, hX⟩ := solve_complete_det A B n m hA hB (IsUnit.ne_zero hdet)
  rw [hX]; simp

/-- `Mat.solve` fails only with `LinAlgError`. -/
theorem solve_error (A B : Mat K) (e : PyErr) (h : Mat.solve A B = .error e) : e = .linalg := by
  rw [solve_eq_solveFn] at h
  unfold solveFn at h
  split at h
  · cases h; rfl
  · cases h

end Mat
end Splipy
