import Splipy.Lemmas.C10Cummax
import Mathlib.Tactic.Ring
import Mathlib.Tactic.Linarith
import Mathlib.Data.List.Sort
import Mathlib.Algebra.Order.Floor.Ring
import Splipy.Model.Order
import Splipy.Model.Valid
import Splipy.Lemmas.Triangle

/-!
# C05, knot-vector bookkeeping of `raise_order` / `lower_order`

A knot vector is written as `expand u m`: the distinct knots `u` (increasing, neighbours more than
`tol` apart — the *separation hypothesis* under which the tolerance-based `knot_spans` and
`continuity` see exactly the distinct knots) repeated with multiplicities `m`.
-/

namespace Splipy

set_option linter.unusedSectionVars false

variable {K : Type} [Field K] [LinearOrder K] [IsStrictOrderedRing K]

/-- The knot vector with distinct knots `u` and multiplicities `m`. -/
def expand : List K → List ℕ → List K
  | x :: xs, k :: ks => List.replicate k x ++ expand xs ks
  | _, _ => []

/-- Separation hypothesis: distinct knots are increasing and differ by more than `tol`. -/
def Separated (tol : K) (u : List K) : Prop := u.Pairwise (fun x y => x + tol < y)

@[simp] theorem expand_nil_left (m : List ℕ) : expand ([] : List K) m = [] := by
  cases m <;> rfl

@[simp] theorem expand_nil_right (u : List K) : expand u [] = [] := by
  cases u <;> rfl

@[simp] theorem expand_cons (x : K) (u : List K) (k : ℕ) (m : List ℕ) :
    expand (x :: u) (k :: m) = List.replicate k x ++ expand u m := rfl

/-- One step of the `knot_spans` loop. -/
def spanStep (tol : K) (acc : Array K) (k : K) : Array K :=
  if |k - acc.getD (acc.size - 1) 0| > tol then acc.push k else acc

theorem spanStep_same (tol : K) (h0 : 0 ≤ tol) (pre : Array K) (x : K) :
    spanStep tol (pre.push x) x = pre.push x := by
  unfold spanStep
  have : (pre.push x).getD ((pre.push x).size - 1) 0 = x := by simp
  rw [this]; simp [not_lt.mpr h0]

theorem spanStep_far (tol : K) (h0 : 0 ≤ tol) (pre : Array K) (x y : K) (h : x + tol < y) :
    spanStep tol (pre.push x) y = (pre.push x).push y := by
  unfold spanStep
  have : (pre.push x).getD ((pre.push x).size - 1) 0 = x := by simp
  rw [this]
  have : tol < |y - x| := by
    rw [abs_of_nonneg (by linarith)]; linarith
  simp [this]

theorem foldl_spanStep_replicate (tol : K) (h0 : 0 ≤ tol) (pre : Array K) (x : K) (k : ℕ) :
    (List.replicate k x).foldl (spanStep tol) (pre.push x) = pre.push x := by
  induction k with
  | zero => rfl
  | succ k ih => rw [List.replicate_succ, List.foldl_cons, spanStep_same tol h0, ih]

theorem spans_fold (tol : K) (h0 : 0 ≤ tol) :
    ∀ (u : List K) (m : List ℕ) (pre : Array K) (x : K) (k : ℕ),
      u.length = m.length → Separated tol (x :: u) → (∀ j ∈ m, 1 ≤ j) →
      (List.replicate k x ++ expand u m).foldl (spanStep tol) (pre.push x) = pre.push x ++ u.toArray := by
  intro u
  induction u with
  | nil =>
    intro m pre x k _ _ _
    simp [foldl_spanStep_replicate tol h0]
  | cons y u ih =>
    intro m pre x k hlen hsep hm
    cases m with
    | nil => simp at hlen
    | cons j m =>
      have hj : 1 ≤ j := hm j (by simp)
      obtain ⟨j', rfl⟩ : ∃ j', j = j' + 1 := ⟨j - 1, by omega⟩
      have hxy : x + tol < y := by
        have := List.rel_of_pairwise_cons hsep (a' := y) (by simp)
        exact this
      have hsep' : Separated tol (y :: u) := (List.pairwise_cons.mp hsep).2
      rw [List.foldl_append, foldl_spanStep_replicate tol h0, expand_cons, List.replicate_succ,
        List.cons_append, List.foldl_cons, spanStep_far tol h0 pre x y hxy,
        ih m (pre.push x) y j' (by simpa using hlen) hsep' (fun i hi => hm i (by simp [hi]))]
      simp

theorem kn_zero_expand (p : ℕ) (per : Int) (x : K) (u : List K) (k : ℕ) (m : List ℕ) (hk : 1 ≤ k) :
    ({ order := p, knots := (expand (x :: u) (k :: m)).toArray, periodic := per } : Basis K).kn 0 = x := by
  obtain ⟨k', rfl⟩ : ∃ k', k = k' + 1 := ⟨k - 1, by omega⟩
  simp [Basis.kn, List.replicate_succ]

theorem knotSpans_expand (tol : K) (h0 : 0 ≤ tol) (p : ℕ) (per : Int) (x : K) (u : List K) (k : ℕ)
    (m : List ℕ) (hk : 1 ≤ k) (hlen : u.length = m.length) (hsep : Separated tol (x :: u))
    (hm : ∀ j ∈ m, 1 ≤ j) :
    ({ order := p, knots := (expand (x :: u) (k :: m)).toArray, periodic := per } : Basis K).knotSpans tol true
      = (x :: u).toArray := by
  unfold Basis.knotSpans
  simp only [if_true]
  rw [kn_zero_expand p per x u k m hk]
  have := spans_fold tol h0 u m #[] x k hlen hsep hm
  simp only [expand_cons] 
  change List.foldl (spanStep tol) (#[].push x) _ = _
  rw [this]
  simp

/-! ## Sorting the augmented knot list -/

theorem mem_expand : ∀ (u : List K) (m : List ℕ) (y : K), y ∈ expand u m → y ∈ u := by
  intro u
  induction u with
  | nil => intro m y h; simp at h
  | cons x u ih =>
    intro m y h
    cases m with
    | nil => simp at h
    | cons k m =>
      rw [expand_cons, List.mem_append] at h
      rcases h with h | h
      · rw [List.mem_replicate] at h; simp [h.2]
      · exact List.mem_cons_of_mem _ (ih m y h)

theorem expand_sorted (tol : K) (h0 : 0 ≤ tol) :
    ∀ (u : List K) (m : List ℕ), Separated tol u → (expand u m).Pairwise (· ≤ ·) := by
  intro u
  induction u with
  | nil => intro m _; simp
  | cons x u ih =>
    intro m hsep
    cases m with
    | nil => simp
    | cons k m =>
      rw [expand_cons, List.pairwise_append]
      refine ⟨?_, ih m (List.pairwise_cons.mp hsep).2, ?_⟩
      · rw [List.pairwise_replicate]; right; exact le_rfl
      · intro a ha b hb
        rw [List.mem_replicate] at ha
        have := List.rel_of_pairwise_cons hsep (mem_expand u m b hb)
        rw [ha.2]; linarith

theorem expand_append_perm : ∀ (u : List K) (m : List ℕ), u.length = m.length →
    (expand u m ++ u).Perm (expand u (m.map (· + 1))) := by
  intro u
  induction u with
  | nil => intro m _; simp
  | cons x u ih =>
    intro m hlen
    cases m with
    | nil => simp at hlen
    | cons k m =>
      simp only [expand_cons, List.map_cons, List.replicate_succ, List.append_assoc, List.cons_append]
      refine List.Perm.trans ?_ (List.Perm.cons x (List.Perm.append_left _ (ih m (by simpa using hlen))))
      rw [← List.append_assoc]
      refine List.perm_middle.trans ?_
      rw [List.append_assoc]

theorem expand_raise_perm (u : List K) (m : List ℕ) (hlen : u.length = m.length) (a : ℕ) :
    (expand u m ++ (List.range a).flatMap (fun _ => u)).Perm (expand u (m.map (· + a))) := by
  induction a with
  | zero => simp
  | succ a ih =>
    rw [List.range_succ, List.flatMap_append, ← List.append_assoc]
    simp only [List.flatMap_cons, List.flatMap_nil, List.append_nil]
    refine (List.Perm.append_right u ih).trans ?_
    have := expand_append_perm u (m.map (· + a)) (by simpa using hlen)
    rw [List.map_map] at this
    have hf : ((fun x => x + 1) ∘ fun x => x + a) = fun x => x + (a + 1) := by
      funext x; simp [Nat.add_assoc]
    rw [hf] at this
    exact this

theorem mergeSort_raise (tol : K) (h0 : 0 ≤ tol) (u : List K) (m : List ℕ) (hlen : u.length = m.length)
    (hsep : Separated tol u) (a : ℕ) :
    (expand u m ++ (List.range a).flatMap (fun _ => u)).mergeSort (fun x y => decide (x ≤ y))
      = expand u (m.map (· + a)) := by
  have hs : ((expand u m ++ (List.range a).flatMap (fun _ => u)).mergeSort
      (fun x y => decide (x ≤ y))).Pairwise (· ≤ ·) := by
    have := List.pairwise_mergeSort (le := fun (x y : K) => decide (x ≤ y))
      (fun a b c hab hbc => by simp at *; exact le_trans hab hbc)
      (fun a b => by simp; exact le_total a b)
      (expand u m ++ (List.range a).flatMap (fun _ => u))
    exact this.imp (fun h => by simpa using h)
  exact List.Perm.eq_of_pairwise' hs (expand_sorted tol h0 u _ hsep)
    ((List.mergeSort_perm _ _).trans (expand_raise_perm u m hlen a))

/-! ## The constructor accepts a sorted non-periodic knot vector -/

theorem mk?_ok_of_sorted (p : ℕ) (l : List K) (tol : K) (h0 : 0 ≤ tol) (hp : 1 ≤ p)
    (hsize : 2 * p ≤ l.length) (hs : l.Pairwise (· ≤ ·)) :
    Basis.mk? p l.toArray (-1) tol = .ok { order := p, knots := l.toArray, periodic := -1 } := by
  unfold Basis.mk?
  have h1 : ¬ p < 1 := by omega
  have h2 : ¬ l.toArray.size < 2 * p := by simp; omega
  have h3 : (List.range (l.toArray.size - 1)).any
      (fun i => decide (l.toArray.getD (i+1) 0 - l.toArray.getD i 0 < -tol)) = false := by
    rw [List.any_eq_false]
    intro i hi
    rw [List.mem_range] at hi
    simp only [List.size_toArray] at hi
    have hi1 : i < l.length := by omega
    have hi2 : i + 1 < l.length := by omega
    have hle : l[i] ≤ l[i+1] := (List.pairwise_iff_getElem.mp hs) i (i+1) hi1 hi2 (by omega)
    simp only [decide_eq_true_eq, not_lt]
    have e1 : l.toArray.getD i 0 = l[i] := by simp [Array.getD, hi1]
    have e2 : l.toArray.getD (i+1) 0 = l[i+1] := by simp [Array.getD, hi2]
    rw [e1, e2]; linarith
  simp only [h1, h2, h3, if_false]
  simp [Basis.cummax_of_pairwise l hs]

/-! ## `BSplineBasis.raise_order` on a non-periodic basis -/

theorem length_expand_add (a : ℕ) : ∀ (u : List K) (m : List ℕ), u.length = m.length →
    (expand u (m.map (· + a))).length = (expand u m).length + a * u.length := by
  intro u
  induction u with
  | nil => intro m _; simp
  | cons x u ih =>
    intro m hlen
    cases m with
    | nil => simp at hlen
    | cons k m =>
      simp only [List.map_cons, expand_cons, List.length_append, List.length_replicate, List.length_cons]
      rw [ih m (by simpa using hlen), Nat.mul_succ]; omega

/-- The open basis with distinct knots `x :: u` and multiplicities `k :: m`. -/
def openBasis (p : ℕ) (u : List K) (m : List ℕ) : Basis K :=
  { order := p, knots := (expand u m).toArray, periodic := -1 }

theorem raiseOrder_open (tol : K) (h0 : 0 ≤ tol) (p a : ℕ) (hp : 1 ≤ p) (x : K) (u : List K) (k : ℕ)
    (m : List ℕ) (hk : 1 ≤ k) (hlen : u.length = m.length) (hu : 1 ≤ u.length)
    (hsep : Separated tol (x :: u)) (hm : ∀ j ∈ m, 1 ≤ j)
    (hsize : 2 * p ≤ (expand (x :: u) (k :: m)).length) :
    (openBasis p (x :: u) (k :: m)).raiseOrder tol a
      = .ok (openBasis (p + a) (x :: u) ((k :: m).map (· + a))) := by
  by_cases ha : a = 0
  · subst ha; simp [Basis.raiseOrder, openBasis]
  unfold Basis.raiseOrder
  simp only [ha, if_false]
  have hsp := knotSpans_expand tol h0 p (-1) x u k m hk hlen hsep hm
  unfold openBasis
  simp only [hsp]
  have hper : ¬ ((-1 : Int) > -1) := by decide
  simp only [hper, if_false]
  have hms := mergeSort_raise tol h0 (x :: u) (k :: m) (by simpa using hlen) hsep a
  rw [hms]
  apply mk?_ok_of_sorted (p + a) _ tol h0 (by omega)
  · rw [length_expand_add a (x :: u) (k :: m) (by simpa using hlen)]
    simp only [List.length_cons]
    have : a * (u.length + 1) ≥ a * 2 := Nat.mul_le_mul_left a (by omega)
    omega
  · exact expand_sorted tol h0 _ _ hsep

/-! ## Binary search in a sorted knot array split at a threshold -/

theorem kn_of_lt_list (B : Basis K) (l : List K) (hk : B.knots = l.toArray) {i : ℕ} (h : i < l.length) :
    B.kn i = l[i] := by
  simp [Basis.kn, hk, Array.getD, h]

theorem kn_mono_of_sorted (B : Basis K) (l : List K) (hk : B.knots = l.toArray)
    (hs : l.Pairwise (· ≤ ·)) : Monotone B.kn := by
  apply monotone_nat_of_le_succ
  intro n
  by_cases h : n + 1 < l.length
  · rw [kn_of_lt_list B l hk h, kn_of_lt_list B l hk (by omega : n < l.length)]
    exact (List.pairwise_iff_getElem.mp hs) n (n+1) (by omega) h (by omega)
  · have hsz : B.knots.size = l.length := by simp [hk]
    by_cases h' : n < l.length
    · have : n = l.length - 1 := by omega
      have h1 : ¬ (n + 1 < B.knots.size) := by omega
      simp only [Basis.kn, Array.getD, h1, dite_false]
      have h2 : n < B.knots.size := by omega
      have h3 : B.knots.size - 1 < B.knots.size := by omega
      simp only [h2, h3, dite_true]
      have : B.knots.size - 1 = n := by omega
      simp [this]
    · have h1 : ¬ (n + 1 < B.knots.size) := by omega
      have h2 : ¬ (n < B.knots.size) := by omega
      simp [Basis.kn, Array.getD, h1, h2]

theorem bisectL_split (B : Basis K) (A C : List K) (v : K)
    (hk : B.knots = (A ++ C).toArray) (hs : (A ++ C).Pairwise (· ≤ ·))
    (hA : ∀ y ∈ A, y < v) (hC : ∀ y ∈ C, v ≤ y) : B.bisectL v = A.length := by
  have hmono := kn_mono_of_sorted B _ hk hs
  have hsz : B.knots.size = A.length + C.length := by simp [hk]
  obtain ⟨h1, h2, h3⟩ := bisectLeft_spec B.kn hmono v B.knots.size
  unfold Basis.bisectL
  set mm := bisectLeft B.kn v B.knots.size with hmm
  by_contra hne
  rcases Nat.lt_or_gt_of_ne hne with hlt | hgt
  · -- index mm lies in A
    have hi : mm < (A ++ C).length := by simp; omega
    have e := kn_of_lt_list B _ hk hi
    rw [List.getElem_append_left hlt] at e
    have := h3 mm le_rfl (by omega)
    have := hA _ (List.getElem_mem hlt)
    rw [← e] at this
    exact absurd ‹v ≤ B.kn mm› (not_le.mpr this)
  · -- index |A| lies in C
    have hi : A.length < (A ++ C).length := by simp; omega
    have e := kn_of_lt_list B _ hk hi
    rw [List.getElem_append_right (le_refl _)] at e
    have h := h2 A.length hgt
    have hc : 0 < C.length := by omega
    have := hC _ (List.getElem_mem (l := C) (n := A.length - A.length) (by omega))
    rw [← e] at this
    exact absurd h (not_lt.mpr this)

/-! ## `continuity` at a knot of a separated knot vector -/

theorem expand_append : ∀ (u1 : List K) (m1 : List ℕ) (u2 : List K) (m2 : List ℕ),
    u1.length = m1.length → expand (u1 ++ u2) (m1 ++ m2) = expand u1 m1 ++ expand u2 m2 := by
  intro u1
  induction u1 with
  | nil => intro m1 u2 m2 h; cases m1 with
    | nil => simp
    | cons _ _ => simp at h
  | cons x u1 ih =>
    intro m1 u2 m2 h
    cases m1 with
    | nil => simp at h
    | cons k m1 =>
      simp only [List.cons_append, expand_cons, List.append_assoc]
      rw [ih m1 u2 m2 (by simpa using h)]

section Continuity
variable [FloorRing K]

theorem continuity_split (B : Basis K) (tol : K) (htol : 0 < tol) (A C : List K) (x : K) (k : ℕ)
    (hk1 : 1 ≤ k)
    (hk : B.knots = (A ++ List.replicate k x ++ C).toArray)
    (hs : (A ++ List.replicate k x ++ C).Pairwise (· ≤ ·))
    (hA : ∀ y ∈ A, y + tol < x) (hC : ∀ y ∈ C, x + tol < y)
    (hper : B.periodic = -1) (hin : B.start ≤ x ∧ x ≤ B.stop) :
    B.continuity tol x = .ok (some ((B.order : Int) - (k : Int) - 1)) := by
  have hhi : B.bisectL (x + tol) = A.length + k := by
    have := bisectL_split B (A ++ List.replicate k x) C (x + tol) hk hs
      (fun y hy => by
        rcases List.mem_append.mp hy with h | h
        · have := hA y h; linarith
        · rw [List.mem_replicate] at h; rw [h.2]; linarith)
      (fun y hy => le_of_lt (hC y hy))
    simpa using this
  have hlo : B.bisectL (x - tol) = A.length := by
    refine bisectL_split B A (List.replicate k x ++ C) (x - tol) (by rw [hk, List.append_assoc])
      (by rw [← List.append_assoc]; exact hs) (fun y hy => by have := hA y hy; linarith) ?_
    intro y hy
    rcases List.mem_append.mp hy with h | h
    · rw [List.mem_replicate] at h; rw [h.2]; linarith
    · have := hC y h; linarith
  unfold Basis.continuity
  have h1 : ¬ (B.periodic ≥ 0) := by rw [hper]; decide
  have h2 : ¬ (x < B.start - tol ∨ B.stop + tol < x) := by
    rintro (h | h)
    · exact absurd hin.1 (not_le.mpr (by linarith))
    · exact absurd hin.2 (not_le.mpr (by linarith))
  simp only [h1, h2, if_false, hhi, hlo]
  have h3 : ¬ (A.length + k = A.length) := by omega
  simp only [h3, if_false]
  congr 2
  push_cast; ring

end Continuity

/-! ## Clamped (open) knot vectors: `x0` and `xl` with multiplicity = order, interior `umid`/`mmid` -/

/-- Distinct knots / multiplicities of a clamped knot vector of order `q`. -/
def clampedU (x0 xl : K) (umid : List K) : List K := x0 :: (umid ++ [xl])
def clampedM (q : ℕ) (mmid : List ℕ) : List ℕ := q :: (mmid ++ [q])

theorem expand_clamped (q : ℕ) (x0 xl : K) (umid : List K) (mmid : List ℕ) (hlen : umid.length = mmid.length) :
    expand (clampedU x0 xl umid) (clampedM q mmid)
      = (List.replicate q x0 ++ expand umid mmid) ++ List.replicate q xl := by
  unfold clampedU clampedM
  rw [expand_cons, expand_append umid mmid [xl] [q] hlen]
  simp

theorem start_of_knots (B : Basis K) (x0 : K) (rest : List K) (hq : 1 ≤ B.order)
    (hk : B.knots = (List.replicate B.order x0 ++ rest).toArray) : B.start = x0 := by
  unfold Basis.start
  rw [kn_of_lt_list B _ hk (by simp; omega)]
  rw [List.getElem_append_left (by simp; omega)]
  simp

theorem stop_of_knots (B : Basis K) (xl : K) (front : List K) (hq : 1 ≤ B.order)
    (hk : B.knots = (front ++ List.replicate B.order xl).toArray) : B.stop = xl := by
  unfold Basis.stop
  have hsz : B.knots.size = front.length + B.order := by simp [hk]
  rw [hsz, Nat.add_sub_cancel, kn_of_lt_list B _ hk (by simp; omega)]
  rw [List.getElem_append_right (le_refl _)]
  simp

theorem clamped_start (q : ℕ) (hq : 1 ≤ q) (x0 xl : K) (umid : List K) (mmid : List ℕ) :
    (openBasis q (clampedU x0 xl umid) (clampedM q mmid)).start = x0 :=
  start_of_knots _ x0 (expand (umid ++ [xl]) (mmid ++ [q])) hq rfl

theorem clamped_stop (q : ℕ) (hq : 1 ≤ q) (x0 xl : K) (umid : List K) (mmid : List ℕ)
    (hlen : umid.length = mmid.length) :
    (openBasis q (clampedU x0 xl umid) (clampedM q mmid)).stop = xl :=
  stop_of_knots _ xl (List.replicate q x0 ++ expand umid mmid) hq
    (by show (expand _ _).toArray = _; rw [expand_clamped q x0 xl umid mmid hlen]; rfl)

theorem clamped_range (tol : K) (h0 : 0 ≤ tol) (x0 xl : K) (umid : List K)
    (hsep : Separated tol (clampedU x0 xl umid)) :
    ∀ y ∈ clampedU x0 xl umid, x0 ≤ y ∧ y ≤ xl := by
  intro y hy
  unfold clampedU at hsep hy
  have h1 := List.pairwise_cons.mp hsep
  have h2 : Separated tol ((x0 :: umid) ++ [xl]) := by simpa using hsep
  have h3 := (List.pairwise_append.mp h2).2.2
  constructor
  · rcases List.mem_cons.mp hy with rfl | h
    · exact le_rfl
    · have := h1.1 y h; linarith
  · have hy' : y ∈ (x0 :: umid) ++ [xl] := by simpa using hy
    rcases List.mem_append.mp hy' with h | h
    · have := h3 y h xl (by simp); linarith
    · simp at h; rw [h]

section Continuity2
variable [FloorRing K]

/-- `continuity` at the distinct knot `x` of multiplicity `k` (split form). -/
theorem continuity_expand_split (tol : K) (htol : 0 < tol) (B : Basis K)
    (u1 u2 : List K) (x : K) (m1 m2 : List ℕ) (k : ℕ) (hl1 : u1.length = m1.length)
    (hsep : Separated tol (u1 ++ x :: u2)) (hk1 : 1 ≤ k)
    (hk : B.knots = (expand (u1 ++ x :: u2) (m1 ++ k :: m2)).toArray)
    (hper : B.periodic = -1) (hin : B.start ≤ x ∧ x ≤ B.stop) :
    B.continuity tol x = .ok (some ((B.order : Int) - (k : Int) - 1)) := by
  have hE : expand (u1 ++ x :: u2) (m1 ++ k :: m2)
      = expand u1 m1 ++ List.replicate k x ++ expand u2 m2 := by
    rw [expand_append u1 m1 _ _ hl1, expand_cons, List.append_assoc]
  have hp := List.pairwise_append.mp hsep
  refine continuity_split B tol htol (expand u1 m1) (expand u2 m2) x k hk1 (by rw [hk, hE]) ?_ ?_ ?_ hper hin
  · rw [← hE]; exact expand_sorted tol (le_of_lt htol) _ _ hsep
  · intro y hy
    exact hp.2.2 y (mem_expand u1 m1 y hy) x (by simp)
  · intro y hy
    exact List.rel_of_pairwise_cons hp.2.1 (mem_expand u2 m2 y hy)

/-- Index form: the `i`-th distinct knot. -/
theorem continuity_expand (tol : K) (htol : 0 < tol) (B : Basis K) (u : List K) (m : List ℕ)
    (hlen : u.length = m.length) (hsep : Separated tol u)
    (hk : B.knots = (expand u m).toArray) (hper : B.periodic = -1)
    (i : ℕ) (hi : i < u.length) (hi' : i < m.length) (hmi : 1 ≤ m[i])
    (hin : B.start ≤ u[i] ∧ u[i] ≤ B.stop) :
    B.continuity tol u[i] = .ok (some ((B.order : Int) - (m[i] : Int) - 1)) := by
  have hu : u = u.take i ++ u[i] :: u.drop (i+1) := by
    rw [← List.drop_eq_getElem_cons hi, List.take_append_drop]
  have hm : m = m.take i ++ m[i] :: m.drop (i+1) := by
    rw [← List.drop_eq_getElem_cons hi', List.take_append_drop]
  refine continuity_expand_split tol htol B (u.take i) (u.drop (i+1)) u[i] (m.take i) (m.drop (i+1)) m[i]
    (by simp [List.length_take]; omega) (by rw [← hu]; exact hsep) hmi (by rw [← hu, ← hm]; exact hk) hper hin

end Continuity2

/-! ## `BSplineBasis.lower_order` undoes `raise_order` (non-periodic) -/

section Lower
variable [FloorRing K]

theorem lowerKnots_forall₂ (B : Basis K) (tol : K) (p : ℕ) (xs : List K) (ks : List ℕ)
    (h : List.Forall₂ (fun x k => ∃ c, B.continuity tol x = .ok c ∧ Basis.lowerMult p c = k) xs ks) :
    Basis.lowerKnots B tol p xs = .ok (expand xs ks) := by
  induction h with
  | nil => rfl
  | cons hxk _ ih =>
    obtain ⟨c, hc, hk⟩ := hxk
    simp only [Basis.lowerKnots, hc, ih, hk, expand_cons]

theorem clampedM_map (q a : ℕ) (mmid : List ℕ) :
    (clampedM q mmid).map (· + a) = clampedM (q + a) (mmid.map (· + a)) := by
  simp [clampedM]

theorem clamped_lengths (q : ℕ) (x0 xl : K) (umid : List K) (mmid : List ℕ) (hlen : umid.length = mmid.length) :
    (clampedU x0 xl umid).length = (clampedM q mmid).length := by
  simp [clampedU, clampedM, hlen]

theorem clampedM_pos (q : ℕ) (hq : 1 ≤ q) (mmid : List ℕ) (hm : ∀ j ∈ mmid, 1 ≤ j) :
    ∀ j ∈ clampedM q mmid, 1 ≤ j := by
  intro j hj
  simp only [clampedM, List.mem_cons, List.mem_append, List.not_mem_nil, or_false] at hj
  rcases hj with rfl | hj | rfl
  · exact hq
  · exact hm j hj
  · exact hq

/-- `continuity` at every distinct knot of a clamped basis: `order - multiplicity - 1`. -/
theorem continuity_clamped (tol : K) (htol : 0 < tol) (q : ℕ) (hq : 1 ≤ q) (x0 xl : K) (umid : List K)
    (mmid : List ℕ) (hlen : umid.length = mmid.length) (hsep : Separated tol (clampedU x0 xl umid))
    (hm : ∀ j ∈ mmid, 1 ≤ j) (i : ℕ) (hi : i < (clampedU x0 xl umid).length)
    (hi' : i < (clampedM q mmid).length) :
    (openBasis q (clampedU x0 xl umid) (clampedM q mmid)).continuity tol (clampedU x0 xl umid)[i]
      = .ok (some ((q : Int) - ((clampedM q mmid)[i] : Int) - 1)) := by
  have hr := clamped_range tol (le_of_lt htol) x0 xl umid hsep _ (List.getElem_mem hi)
  exact continuity_expand tol htol (openBasis q (clampedU x0 xl umid) (clampedM q mmid)) _ _
    (clamped_lengths q x0 xl umid mmid hlen) hsep rfl rfl i hi hi'
    (clampedM_pos q hq mmid hm _ (List.getElem_mem hi'))
    (by rw [clamped_start q hq, clamped_stop q hq x0 xl umid mmid hlen]; exact hr)

theorem lowerOrder_raised (tol : K) (htol : 0 < tol) (p a : ℕ) (hp : 2 ≤ p) (x0 xl : K) (umid : List K)
    (mmid : List ℕ) (hlen : umid.length = mmid.length) (hsep : Separated tol (clampedU x0 xl umid))
    (hm : ∀ j ∈ mmid, 1 ≤ j) :
    (openBasis (p + a) (clampedU x0 xl umid) (clampedM (p + a) (mmid.map (· + a)))).lowerOrder tol (a : Int)
      = .ok (openBasis p (clampedU x0 xl umid) (clampedM p mmid)) := by
  have h0 : 0 ≤ tol := le_of_lt htol
  have hlen' : umid.length = (mmid.map (· + a)).length := by simpa using hlen
  have hm' : ∀ j ∈ mmid.map (· + a), 1 ≤ j := by
    intro j hj; rw [List.mem_map] at hj; obtain ⟨j0, hj0, rfl⟩ := hj; have := hm j0 hj0; omega
  unfold Basis.lowerOrder
  have h1 : ¬ ((a : Int) < 0) := by omega
  have h2 : ¬ ((((openBasis (p + a) (clampedU x0 xl umid) (clampedM (p + a) (mmid.map (· + a)))).order : ℕ) : Int)
      - (a : Int) < 2) := by
    show ¬ (((p + a : ℕ) : Int) - (a : Int) < 2); omega
  simp only [h1, h2, if_false]
  have hord : (openBasis (p + a) (clampedU x0 xl umid) (clampedM (p + a) (mmid.map (· + a)))).order
      - (a : Int).toNat = p := by
    show p + a - (a : Int).toNat = p; simp
  rw [hord]
  have hsp : (openBasis (p + a) (clampedU x0 xl umid) (clampedM (p + a) (mmid.map (· + a)))).knotSpans tol true
      = (clampedU x0 xl umid).toArray := by
    refine knotSpans_expand tol h0 (p + a) (-1) x0 (umid ++ [xl]) (p + a) (mmid.map (· + a) ++ [p + a])
      (by omega) (by simp [hlen]) hsep ?_
    intro j hj
    rcases List.mem_append.mp hj with h | h
    · exact hm' j h
    · simp at h; omega
  rw [hsp]
  have hF : List.Forall₂ (fun x k => ∃ c,
      (openBasis (p + a) (clampedU x0 xl umid) (clampedM (p + a) (mmid.map (· + a)))).continuity tol x = .ok c
        ∧ Basis.lowerMult p c = k) (clampedU x0 xl umid) (clampedM p mmid) := by
    rw [List.forall₂_iff_get]
    refine ⟨clamped_lengths p x0 xl umid mmid hlen, ?_⟩
    intro i hi1 hi2
    have hi3 : i < (clampedM (p + a) (mmid.map (· + a))).length := by
      rw [← clamped_lengths (p + a) x0 xl umid _ hlen']; exact hi1
    refine ⟨_, continuity_clamped tol htol (p + a) (by omega) x0 xl umid _ hlen' hsep hm' i hi1 hi3, ?_⟩
    have hget : (clampedM (p + a) (mmid.map (· + a)))[i] = (clampedM p mmid)[i] + a := by
      have := clampedM_map p a mmid
      simp only [← this, List.getElem_map]
    have hpos : 1 ≤ (clampedM p mmid)[i] := clampedM_pos p (by omega) mmid hm _ (List.getElem_mem hi2)
    simp only [List.get_eq_getElem, Basis.lowerMult, hget]
    push_cast
    omega
  simp only [lowerKnots_forall₂ _ tol p _ _ hF]
  have hper : ¬ ((openBasis (p + a) (clampedU x0 xl umid) (clampedM (p + a) (mmid.map (· + a)))).periodic > -1) := by
    show ¬ ((-1 : Int) > -1); decide
  simp only [hper, if_false]
  refine mk?_ok_of_sorted p _ tol h0 (by omega) ?_ (expand_sorted tol h0 _ _ hsep)
  rw [expand_clamped p x0 xl umid mmid hlen]
  simp; omega

end Lower

/-! ## Every separated sorted knot list has the form `expand u m` -/

/-- Run-length encoding exists: a knot list in which neighbours are either exactly equal or more
    than `tol` apart is `expand u m` with `u` separated and all multiplicities positive. -/
theorem exists_expand (tol : K) (h0 : 0 ≤ tol) : ∀ (l : List K),
    (∀ i (h : i + 1 < l.length), l[i] = l[i+1] ∨ l[i] + tol < l[i+1]) →
    ∃ (u : List K) (m : List ℕ), l = expand u m ∧ u.length = m.length ∧ Separated tol u ∧
      (∀ j ∈ m, 1 ≤ j) ∧ (∀ x, l.head? = some x → u.head? = some x) := by
  intro l
  induction l with
  | nil => intro _; exact ⟨[], [], rfl, rfl, List.Pairwise.nil, by simp, by simp⟩
  | cons x l ih =>
    intro h
    have hl : ∀ i (hi : i + 1 < l.length), l[i] = l[i+1] ∨ l[i] + tol < l[i+1] := by
      intro i hi
      have := h (i + 1) (by simp; omega)
      simpa using this
    obtain ⟨u, m, hlu, hlen, hsep, hm, hhead⟩ := ih hl
    cases l with
    | nil =>
      exact ⟨[x], [1], by simp [expand], rfl, by simp [Separated], by simp, by simp⟩
    | cons y l' =>
      have hy : u.head? = some y := hhead y rfl
      cases u with
      | nil => simp at hy
      | cons y' u' =>
        have hyy : y' = y := by simpa using hy
        subst hyy
        cases m with
        | nil => simp at hlen
        | cons k m' =>
          have h01 := h 0 (by simp)
          simp only [List.getElem_cons_zero, Nat.zero_add, List.getElem_cons_succ] at h01
          rcases h01 with heq | hlt
          · -- x = y: one more copy in the first group
            subst heq
            refine ⟨x :: u', (k + 1) :: m', ?_, by simpa using hlen, hsep, ?_, by simp⟩
            · rw [hlu]; simp [List.replicate_succ]
            · intro j hj
              rcases List.mem_cons.mp hj with rfl | hj
              · omega
              · exact hm j (List.mem_cons_of_mem _ hj)
          · -- a new distinct knot in front
            refine ⟨x :: y' :: u', 1 :: k :: m', ?_, by simpa using hlen, ?_, ?_, by simp⟩
            · rw [hlu]; simp [List.replicate_succ]
            · refine List.pairwise_cons.mpr ⟨?_, hsep⟩
              intro z hz
              rcases List.mem_cons.mp hz with rfl | hz
              · exact hlt
              · have := List.rel_of_pairwise_cons hsep hz
                linarith
            · intro j hj
              rcases List.mem_cons.mp hj with rfl | hj
              · exact le_rfl
              · exact hm j hj

end Splipy
