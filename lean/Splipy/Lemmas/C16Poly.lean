import Mathlib.Algebra.Polynomial.Derivative
import Mathlib.Algebra.Polynomial.Degree.Lemmas
import Mathlib.Algebra.CharZero.Defs
import Mathlib.Tactic.FieldSimp
import Mathlib.Tactic.Ring
import Splipy.Lemmas.C16Vector

/-!
# C16: polynomial antiderivatives and the multilinear expansion of the Jacobian determinant
-/

namespace Splipy

open Polynomial

variable {K : Type} [Field K]

/-- A formal antiderivative (constant term 0). -/
noncomputable def antideriv (p : K[X]) : K[X] :=
  ∑ k ∈ Finset.range (p.natDegree + 1), C (p.coeff k / ((k : K) + 1)) * X ^ (k + 1)

theorem derivative_antideriv [CharZero K] (p : K[X]) : derivative (antideriv p) = p := by
  unfold antideriv
  rw [derivative_sum]
  conv_rhs => rw [p.as_sum_range_C_mul_X_pow]
  apply Finset.sum_congr rfl
  intro k _
  rw [derivative_C_mul, derivative_X_pow, ← mul_assoc, ← C_mul]
  have hk : ((k : K) + 1) ≠ 0 := by
    have : ((k + 1 : ℕ) : K) ≠ 0 := Nat.cast_ne_zero.mpr (by omega)
    simpa using this
  have e : p.coeff k / ((k : K) + 1) * ((k + 1 : ℕ) : K) = p.coeff k := by
    push_cast
    exact div_mul_cancel₀ _ hk
  rw [e, Nat.add_sub_cancel]

/-! ## Multilinearity of the 3×3 determinant over finite combinations -/

open Affine in
/-- `det[Σ α_i A_i; Σ β_j A_j; Σ γ_k A_k] = Σ_i Σ_j Σ_k α_i β_j γ_k det[A_i; A_j; A_k]`. -/
theorem det3_comb {ι : Type} (s : Finset ι) (α β γ : ι → K) (A : ι → Fin 3 → K) :
    Affine.det3 (Affine.rows3 (Affine.comb s α A) (Affine.comb s β A) (Affine.comb s γ A))
      = ∑ i ∈ s, ∑ j ∈ s, ∑ k ∈ s,
          α i * β j * γ k * Affine.det3 (Affine.rows3 (A i) (A j) (A k)) := by
  have h3 : ∀ (f g h : ι → K), (∑ i ∈ s, f i) * (∑ j ∈ s, g j) * (∑ k ∈ s, h k)
      = ∑ i ∈ s, ∑ j ∈ s, ∑ k ∈ s, f i * g j * h k := by
    intro f g h
    rw [Finset.sum_mul_sum, Finset.sum_mul]
    apply Finset.sum_congr rfl
    intro i _
    rw [Finset.sum_mul]
    apply Finset.sum_congr rfl
    intro j _
    rw [Finset.mul_sum]
  simp only [Affine.det3, Affine.rows3, Affine.comb, Matrix.cons_val, Fin.isValue]
  simp only [h3]
  simp only [← Finset.sum_sub_distrib, ← Finset.sum_add_distrib]
  apply Finset.sum_congr rfl
  intro i _
  apply Finset.sum_congr rfl
  intro j _
  apply Finset.sum_congr rfl
  intro k _
  ring

end Splipy
