import Splipy.Lemmas.C15CpcEdges

/-!
# "The edge of the surface `s` is the curve `a`", in the three forms the library offers

`EdgeAgrees tol s a B Ba sel dirTok x params unwrap` collects, for one edge of a surface `s` (whose free
direction has the basis `B`) and a curve `a` on the basis `Ba` (parameters admissible for both bases):
* `SplineObject.section` (`Obj.sectionSel s sel`) returns a `Curve` that is the same map as `a` and
  evaluates (`Obj.evaluate`) to the same array as `a` at all admissible parameters;
* `Surface.const_par_curve` (`Obj.constParCurve s tol x dirTok`) returns a curve with the same two
  properties;
* evaluating `s` itself on the edge (`params us` = `[us, [x]]` or `[[x], us]`) returns the numbers of
  evaluating `a` on `us`.
For rational objects `Obj.evaluate` divides by the weight component; the statements are about the
returned (projected) arrays.
-/

set_option linter.unusedSectionVars false

namespace Splipy
namespace C15

open C06 C12 Obj Basis Finset Sections

variable {K : Type} [Field K] [LinearOrder K] [IsStrictOrderedRing K] [FloorRing K]

structure EdgeAgrees (tol : K) (s a : Obj K) (B Ba : Basis K) (sel : Sec) (dirTok : Int ⊕ String) (x : K)
    (params : List K → List (List K)) (unwrap : Bool) : Prop where
  /-- boundary extraction by `section` -/
  sec : ∃ eS : Obj K, s.sectionSel sel unwrap = .ok (.obj "Curve" eS) ∧ eS.bases = #[B] ∧ SameMap 1 a eS
    ∧ ∀ us : List K, us ≠ [] → (∀ u ∈ us, B.Admissible tol u) → (∀ u ∈ us, Ba.Admissible tol u) →
        ∃ res, a.evaluate tol [us] true = .ok res ∧ eS.evaluate tol [us] true = .ok res
  /-- boundary extraction by `const_par_curve` at the end parameter -/
  cpc : ∃ eC : Obj K, s.constParCurve tol x dirTok = .ok eC ∧ eC.bases = #[B] ∧ SameMap 1 a eC
    ∧ ∀ us : List K, us ≠ [] → (∀ u ∈ us, B.Admissible tol u) → (∀ u ∈ us, Ba.Admissible tol u) →
        ∃ res, a.evaluate tol [us] true = .ok res ∧ eC.evaluate tol [us] true = .ok res
  /-- evaluation of the surface itself on the edge -/
  ev : ∀ us : List K, us ≠ [] → (∀ u ∈ us, B.Admissible tol u) → (∀ u ∈ us, Ba.Admissible tol u) →
        ∃ rs ra, s.evaluate tol (params us) true = .ok rs ∧ a.evaluate tol [us] true = .ok ra
          ∧ rs.data = ra.data

/-- Edge `v = 0` (`last = false`) or `v = 1` (`last = true`) of a surface of the family. -/
theorem UnitSurf.edge_v_agrees {tol : K} (htol : 0 < tol) {s : Obj K} {pa pb : ℕ} {Ua Ub : List K}
    {Ma Mb : List ℕ} {rat : Bool} {nc : ℕ} (h : UnitSurf s pa pb Ua Ub Ma Mb rat nc)
    (hpa : 2 ≤ pa) (hla : Ma.length = Ua.length) (kb : UnitKnots tol pb Ub Mb) (a : Obj K) {qA : ℕ} {MA : List ℕ}
    (hpA : 2 ≤ qA) (hlA : MA.length = Ua.length)
    (hA : UnitCurve a qA Ua MA rat nc) (oA : a.WF) (last : Bool)
    (hmap : ∀ comp, comp < nc → ∀ (sd : Side) (t : K),
      (toTP s 2 comp).eval ![sd, if last then .left else .right] ![t, if last then 1 else 0]
        = (toTP a 1 comp).eval (fun _ => sd) (fun _ => t)) (unwrap : Bool) :
    EdgeAgrees tol s a (unitBasis pa Ua Ma) (unitBasis qA Ua MA) [none, some (if last then -1 else 0)] (.inl 1)
      (if last then 1 else 0) (fun us => [us, [if last then 1 else 0]]) unwrap := by
  obtain ⟨cb, b0, b1⟩ := kb.endsClamped htol
  obtain ⟨adm0, adm1, es0, es1, sep0, sep1⟩ := kb.ends_admissible htol
  obtain ⟨ss0, ss1⟩ := unitBasis_start_stop pb kb.hp Ub Mb kb.hlen
  rw [← h.b1] at cb b0 b1 adm0 adm1 es0 es1 sep0 sep1 ss0 ss1
  have p0 : (s.basis 0).periodic = -1 := by rw [h.b0]; rfl
  have p1 : (s.basis 1).periodic = -1 := by rw [h.b1]; rfl
  have pA : (a.basis 0).periodic = -1 := by rw [hA.basis]; rfl
  have hpos : a.rational = true → 1 ≤ a.ncomp := fun _ => oA.ncomp_pos
  -- generic consequence for any curve `e` of the family with the surface's edge map
  have key : ∀ e : Obj K, e.basis 0 = s.basis 0 → e.rational = s.rational → C06.WF e 1 → e.ncomp = s.ncomp →
      (∀ comp, comp < s.ncomp → ∀ (sd : Side) (t : K), (toTP e 1 comp).eval (fun _ => sd) (fun _ => t)
        = (toTP s 2 comp).eval ![sd, if last then .left else .right] ![t, if last then 1 else 0]) →
      e.bases = #[unitBasis pa Ua Ma] ∧ SameMap 1 a e
        ∧ ∀ us : List K, us ≠ [] → (∀ u ∈ us, (unitBasis pa Ua Ma).Admissible tol u) →
          (∀ u ∈ us, (unitBasis qA Ua MA).Admissible tol u) →
          ∃ res, a.evaluate tol [us] true = .ok res ∧ e.evaluate tol [us] true = .ok res := by
    intro e eb er ew en ev
    have hsm : SameMap 1 a e := by
      apply sameMap_curve_of (en.trans (h.ncomp.trans hA.ncomp.symm))
      intro comp hc sd t
      rw [hA.ncomp] at hc
      rw [ev comp (by rw [h.ncomp]; exact hc), hmap comp hc]
    refine ⟨by rw [bases_eq_one ew, eb, h.b0], hsm, fun us hne hus husA => ?_⟩
    obtain ⟨res, r1, r2, _⟩ := evaluate_eq_curve hA.wf ew pA (by rw [eb]; exact p0)
      (by rw [eb, h.b0, hA.basis, (unitBasis_start_stop pa hpa Ua Ma hla).2, (unitBasis_start_stop qA hpA Ua MA hlA).2])
      (er.trans (h.rational.trans hA.rational.symm)) hpos hsm htol hne
      (by rw [hA.basis]; exact husA) (by rw [eb, h.b0]; exact hus)
    exact ⟨res, r1, r2⟩
  refine ⟨?_, ?_, ?_⟩
  · obtain ⟨e, s0, eb, _, er, ew, en, ev⟩ := surface_edge_v h.wf p0 p1 cb last unwrap
    have ev' : ∀ comp, comp < s.ncomp → ∀ (sd : Side) (t : K), (toTP e 1 comp).eval (fun _ => sd) (fun _ => t)
        = (toTP s 2 comp).eval ![sd, if last then .left else .right] ![t, if last then 1 else 0] := by
      intro comp hc sd t
      rw [ev comp hc sd t]
      cases last
      · simp only [Bool.false_eq_true, if_false]; rw [b0]
      · simp only [if_true]; rw [b1]
    obtain ⟨k1, k2, k3⟩ := key e eb er ew en ev'
    exact ⟨e, s0, k1, k2, k3⟩
  · have hxx : ((if last then Side.left else Side.right) = Side.right ∧ (if last then (1:K) else 0) = (s.basis 1).start)
        ∨ ((if last then Side.left else Side.right) = Side.left ∧ (if last then (1:K) else 0) = (s.basis 1).stop) := by
      cases last
      · left; simp [ss0]
      · right; simp [ss1]
    have hsep : C15.Separated (s.basis 1) tol (if last then 1 else 0) := by
      cases last
      · simpa using sep0
      · simpa using sep1
    obtain ⟨e, c1, eb, er, ew, en, ev⟩ := cpc_edge_v h.wf p0 p1 cb htol (if last then 1 else 0)
      (if last then .left else .right) hsep hxx
    obtain ⟨k1, k2, k3⟩ := key e eb er ew en ev
    exact ⟨e, c1, k1, k2, k3⟩
  · intro us hne hus husA
    have hx : (s.basis 1).Admissible tol (if last then 1 else 0) := by
      cases last
      · simpa using adm0
      · simpa using adm1
    have hside : effSide (s.basis 1) (if last then 1 else 0) true = (if last then .left else .right) := by
      cases last
      · simpa using es0
      · simpa using es1
    obtain ⟨rs, ra, f1, e1, hd, _, _⟩ := evaluate_edge_v h.wf hA.wf p0 p1 pA
      (by rw [h.b0, hA.basis, (unitBasis_start_stop pa hpa Ua Ma hla).2, (unitBasis_start_stop qA hpA Ua MA hlA).2])
      (h.rational.trans hA.rational.symm) (h.ncomp.trans hA.ncomp.symm) hpos (if last then 1 else 0)
      (by
        intro comp hc sd t
        rw [hside]
        exact hmap comp (by rw [← hA.ncomp]; exact hc) sd t)
      htol hne (by rw [hA.basis]; exact husA) (by rw [h.b0]; exact hus) hx
    exact ⟨rs, ra, f1, e1, hd⟩

/-- Edge `u = 0` (`last = false`) or `u = 1` (`last = true`) of a surface of the family. -/
theorem UnitSurf.edge_u_agrees {tol : K} (htol : 0 < tol) {s : Obj K} {pa pb : ℕ} {Ua Ub : List K}
    {Ma Mb : List ℕ} {rat : Bool} {nc : ℕ} (h : UnitSurf s pa pb Ua Ub Ma Mb rat nc)
    (ka : UnitKnots tol pa Ua Ma) (hpb : 2 ≤ pb) (hlb : Mb.length = Ub.length) (a : Obj K) {qA : ℕ} {MA : List ℕ}
    (hpA : 2 ≤ qA) (hlA : MA.length = Ub.length)
    (hA : UnitCurve a qA Ub MA rat nc) (oA : a.WF) (last : Bool)
    (hmap : ∀ comp, comp < nc → ∀ (sd : Side) (t : K),
      (toTP s 2 comp).eval ![if last then .left else .right, sd] ![if last then 1 else 0, t]
        = (toTP a 1 comp).eval (fun _ => sd) (fun _ => t)) (unwrap : Bool) :
    EdgeAgrees tol s a (unitBasis pb Ub Mb) (unitBasis qA Ub MA) [some (if last then -1 else 0), none] (.inl 0)
      (if last then 1 else 0) (fun vs => [[if last then 1 else 0], vs]) unwrap := by
  obtain ⟨ca, a0, a1⟩ := ka.endsClamped htol
  obtain ⟨adm0, adm1, es0, es1, sep0, sep1⟩ := ka.ends_admissible htol
  obtain ⟨ss0, ss1⟩ := unitBasis_start_stop pa ka.hp Ua Ma ka.hlen
  rw [← h.b0] at ca a0 a1 adm0 adm1 es0 es1 sep0 sep1 ss0 ss1
  have p0 : (s.basis 0).periodic = -1 := by rw [h.b0]; rfl
  have p1 : (s.basis 1).periodic = -1 := by rw [h.b1]; rfl
  have pA : (a.basis 0).periodic = -1 := by rw [hA.basis]; rfl
  have hpos : a.rational = true → 1 ≤ a.ncomp := fun _ => oA.ncomp_pos
  have key : ∀ e : Obj K, e.basis 0 = s.basis 1 → e.rational = s.rational → C06.WF e 1 → e.ncomp = s.ncomp →
      (∀ comp, comp < s.ncomp → ∀ (sd : Side) (t : K), (toTP e 1 comp).eval (fun _ => sd) (fun _ => t)
        = (toTP s 2 comp).eval ![if last then .left else .right, sd] ![if last then 1 else 0, t]) →
      e.bases = #[unitBasis pb Ub Mb] ∧ SameMap 1 a e
        ∧ ∀ vs : List K, vs ≠ [] → (∀ v ∈ vs, (unitBasis pb Ub Mb).Admissible tol v) →
          (∀ v ∈ vs, (unitBasis qA Ub MA).Admissible tol v) →
          ∃ res, a.evaluate tol [vs] true = .ok res ∧ e.evaluate tol [vs] true = .ok res := by
    intro e eb er ew en ev
    have hsm : SameMap 1 a e := by
      apply sameMap_curve_of (en.trans (h.ncomp.trans hA.ncomp.symm))
      intro comp hc sd t
      rw [hA.ncomp] at hc
      rw [ev comp (by rw [h.ncomp]; exact hc), hmap comp hc]
    refine ⟨by rw [bases_eq_one ew, eb, h.b1], hsm, fun vs hne hvs hvsA => ?_⟩
    obtain ⟨res, r1, r2, _⟩ := evaluate_eq_curve hA.wf ew pA (by rw [eb]; exact p1)
      (by rw [eb, h.b1, hA.basis, (unitBasis_start_stop pb hpb Ub Mb hlb).2, (unitBasis_start_stop qA hpA Ub MA hlA).2])
      (er.trans (h.rational.trans hA.rational.symm)) hpos hsm htol hne
      (by rw [hA.basis]; exact hvsA) (by rw [eb, h.b1]; exact hvs)
    exact ⟨res, r1, r2⟩
  refine ⟨?_, ?_, ?_⟩
  · obtain ⟨e, s0, eb, _, er, ew, en, ev⟩ := surface_edge_u h.wf p0 p1 ca last unwrap
    have ev' : ∀ comp, comp < s.ncomp → ∀ (sd : Side) (t : K), (toTP e 1 comp).eval (fun _ => sd) (fun _ => t)
        = (toTP s 2 comp).eval ![if last then .left else .right, sd] ![if last then 1 else 0, t] := by
      intro comp hc sd t
      rw [ev comp hc sd t]
      cases last
      · simp only [Bool.false_eq_true, if_false]; rw [a0]
      · simp only [if_true]; rw [a1]
    obtain ⟨k1, k2, k3⟩ := key e eb er ew en ev'
    exact ⟨e, s0, k1, k2, k3⟩
  · have hxx : ((if last then Side.left else Side.right) = Side.right ∧ (if last then (1:K) else 0) = (s.basis 0).start)
        ∨ ((if last then Side.left else Side.right) = Side.left ∧ (if last then (1:K) else 0) = (s.basis 0).stop) := by
      cases last
      · left; simp [ss0]
      · right; simp [ss1]
    have hsep : C15.Separated (s.basis 0) tol (if last then 1 else 0) := by
      cases last
      · simpa using sep0
      · simpa using sep1
    obtain ⟨e, c1, eb, er, ew, en, ev⟩ := cpc_edge_u h.wf p0 p1 ca htol (if last then 1 else 0)
      (if last then .left else .right) hsep hxx
    obtain ⟨k1, k2, k3⟩ := key e eb er ew en ev
    exact ⟨e, c1, k1, k2, k3⟩
  · intro vs hne hvs hvsA
    have hx : (s.basis 0).Admissible tol (if last then 1 else 0) := by
      cases last
      · simpa using adm0
      · simpa using adm1
    have hside : effSide (s.basis 0) (if last then 1 else 0) true = (if last then .left else .right) := by
      cases last
      · simpa using es0
      · simpa using es1
    obtain ⟨rs, ra, f1, e1, hd, _, _⟩ := evaluate_edge_u h.wf hA.wf p0 p1 pA
      (by rw [h.b1, hA.basis, (unitBasis_start_stop pb hpb Ub Mb hlb).2, (unitBasis_start_stop qA hpA Ub MA hlA).2])
      (h.rational.trans hA.rational.symm) (h.ncomp.trans hA.ncomp.symm) hpos (if last then 1 else 0)
      (by
        intro comp hc sd t
        rw [hside]
        exact hmap comp (by rw [← hA.ncomp]; exact hc) sd t)
      htol hne (by rw [hA.basis]; exact hvsA) (by rw [h.b1]; exact hvs) hx
    exact ⟨rs, ra, f1, e1, hd⟩

end C15
end Splipy
