import Splipy.Lemmas.C15
import Splipy.Lemmas.C15Tensor
import Splipy.Lemmas.C04Basis

/-!
# The model's `SplineObject.section` computes `secNet`

Links the executable `Obj.sectionSel` (numpy slicing through `Tensor.takeAxis`) with the
specification-level section net `secNet` used by `C15_section_clamped`.
-/

set_option linter.unusedSectionVars false

namespace Splipy

open Tensor Sections

variable {K : Type} [Field K] [LinearOrder K] [IsStrictOrderedRing K] [FloorRing K]

/-- The python selector of a boundary selector. -/
def BSel.toSel : BSel → Sel
  | .free => none
  | .lo => some 0
  | .hi => some (-1)

/-- Selector list, axis lengths and resolved indices of a list of (direction, boundary selector). -/
def selOf (ds : List (Dir K × BSel)) : Sec := ds.map (fun d => d.2.toSel)
def dimsOf (ds : List (Dir K × BSel)) : List ℕ := ds.map (fun d => d.1.n)
def idxOf : List (Dir K × BSel) → List (Option ℕ)
  | [] => []
  | (_, .free) :: r => none :: idxOf r
  | (_, .lo) :: r => some 0 :: idxOf r
  | (D, .hi) :: r => some (D.n - 1) :: idxOf r

/-- Every fixed direction has at least one control point. -/
def FixedPos : List (Dir K × BSel) → Prop
  | [] => True
  | (_, .free) :: r => FixedPos r
  | (D, _) :: r => 1 ≤ D.n ∧ FixedPos r

theorem pyIndex_zero {n : ℕ} (h : 1 ≤ n) : pyIndex n 0 = .ok 0 := by
  unfold pyIndex
  simp
  omega

theorem pyIndex_neg_one {n : ℕ} (h : 1 ≤ n) : pyIndex n (-1) = .ok (n - 1) := by
  unfold pyIndex
  have h1 : ((-1 : Int) < 0) := by decide
  simp only [h1, if_true]
  have h2 : (0 : Int) ≤ -1 + (n : Int) ∧ -1 + (n : Int) < n := by omega
  rw [if_pos h2]
  congr 1
  omega

theorem resolveSel_idxOf (ds : List (Dir K × BSel)) (hp : FixedPos ds) (T : List ℕ) :
    Obj.resolveSel (dimsOf ds ++ T) (selOf ds) = .ok (idxOf ds) := by
  induction ds with
  | nil => cases T <;> rfl
  | cons d r ih =>
    obtain ⟨D, sel⟩ := d
    cases sel with
    | free =>
      have := ih hp
      simp only [dimsOf, selOf, List.map_cons, List.cons_append, BSel.toSel, Obj.resolveSel, idxOf] at this ⊢
      rw [this]; rfl
    | lo =>
      obtain ⟨h1, h2⟩ := hp
      have := ih h2
      simp only [dimsOf, selOf, List.map_cons, List.cons_append, BSel.toSel, Obj.resolveSel, idxOf] at this ⊢
      rw [pyIndex_zero h1, this]; rfl
    | hi =>
      obtain ⟨h1, h2⟩ := hp
      have := ih h2
      simp only [dimsOf, selOf, List.map_cons, List.cons_append, BSel.toSel, Obj.resolveSel, idxOf] at this ⊢
      rw [pyIndex_neg_one h1, this]; rfl

theorem selValid_idxOf (ds : List (Dir K × BSel)) (hp : FixedPos ds) :
    SelValid (idxOf ds) (dimsOf ds) := by
  induction ds with
  | nil => trivial
  | cons d r ih =>
    obtain ⟨D, sel⟩ := d
    cases sel with
    | free => exact ih hp
    | lo => exact ⟨hp.1, ih hp.2⟩
    | hi => exact ⟨by have := hp.1; show D.n - 1 < D.n; omega, ih hp.2⟩

/-- On in-range free indices `secNet` reads the net at the filled-in multi-index. -/
theorem secNet_eq_fill (ds : List (Dir K × BSel)) (g : List ℕ → K) (is : List ℕ)
    (h : InRange is (freeDims (idxOf ds) (dimsOf ds))) :
    secNet ds g is = g (fillIdx (idxOf ds) is) := by
  induction ds generalizing g is with
  | nil => cases h; rfl
  | cons d r ih =>
    obtain ⟨D, sel⟩ := d
    cases sel with
    | free =>
      cases h with
      | cons hi h' =>
        simp only [secNet, idxOf, fillIdx]
        exact ih (fun x => g (_ :: x)) _ h'
    | lo =>
      simp only [secNet, idxOf, fillIdx]
      exact ih (fun x => g (0 :: x)) is h
    | hi =>
      simp only [secNet, idxOf, fillIdx]
      exact ih (fun x => g ((D.n - 1) :: x)) is h

/-- `tval` only reads the net at in-range multi-indices. -/
theorem tval_congr (args : List (Dir K × Side × K)) (c c' : List ℕ → K)
    (h : ∀ idx, InRange idx (args.map (fun a => a.1.n)) → c idx = c' idx) :
    tval args c = tval args c' := by
  induction args generalizing c c' with
  | nil => exact h [] List.Forall₂.nil
  | cons a r ih =>
    obtain ⟨D, s, t⟩ := a
    simp only [tval]
    apply C04.splineVal_congr
    intro i hi
    apply ih
    intro idx hidx
    exact h (i :: idx) (List.Forall₂.cons hi hidx)

theorem secArgs_dims (ds : List (Dir K × BSel)) (ps : List (Side × K)) :
    (secArgs ds ps).map (fun a => a.1.n) = freeDims (idxOf ds) (dimsOf ds) := by
  induction ds generalizing ps with
  | nil => rfl
  | cons d r ih =>
    obtain ⟨D, sel⟩ := d
    cases sel with
    | free =>
      cases ps with
      | nil => simp only [secArgs, idxOf, dimsOf, List.map_cons, freeDims]; rw [← dimsOf, ih]
      | cons p ps => simp only [secArgs, idxOf, dimsOf, List.map_cons, freeDims]; rw [← dimsOf, ih]
    | lo => simp only [secArgs, idxOf, dimsOf, List.map_cons, freeDims]; rw [← dimsOf, ih]
    | hi => simp only [secArgs, idxOf, dimsOf, List.map_cons, freeDims]; rw [← dimsOf, ih]

theorem sectionSel_boundary_slice (o : Obj K) (ds : List (Dir K × BSel)) (nc : ℕ)
    (hshape : o.cps.shape = dimsOf ds ++ [nc]) (hp : FixedPos ds) (unwrap : Bool) :
      (Obj.sliceSec o.cps (idxOf ds)).shape = freeDims (idxOf ds) (dimsOf ds) ++ [nc] ∧
      (∀ is c, InRange is (freeDims (idxOf ds) (dimsOf ds)) → c < nc →
        (Obj.sliceSec o.cps (idxOf ds)).getIdx (is ++ [c]) = secNet ds (fun full => o.cps.getIdx (full ++ [c])) is) ∧
      o.sectionSel (selOf ds) unwrap =
        .ok (if !(Obj.freeBases o.bases.toList (selOf ds)).isEmpty ∨ !unwrap then
            .obj (Obj.className (Obj.freeBases o.bases.toList (selOf ds)).length)
              { bases := (Obj.freeBases o.bases.toList (selOf ds)).toArray, cps := Obj.sliceSec o.cps (idxOf ds),
                rational := o.rational }
          else .point (Obj.sliceSec o.cps (idxOf ds)).data) := by
  obtain ⟨h1, h2⟩ := sliceSecFrom_spec (idxOf ds) [] (dimsOf ds) [nc] o.cps (by simpa using hshape)
    (selValid_idxOf ds hp)
  refine ⟨by simpa [Obj.sliceSec] using h1, ?_, ?_⟩
  · intro is c his hc
    have := h2 [] is [c] List.Forall₂.nil his (List.Forall₂.cons hc List.Forall₂.nil)
    rw [secNet_eq_fill ds _ is his]
    simpa [Obj.sliceSec] using this
  · have hne : (Obj.sliceSec o.cps (idxOf ds)).shape.isEmpty = false := by
      have : (Obj.sliceSec o.cps (idxOf ds)).shape = freeDims (idxOf ds) (dimsOf ds) ++ [nc] := by
        simpa [Obj.sliceSec] using h1
      rw [this]
      simp
    unfold Obj.sectionSel
    rw [hshape, resolveSel_idxOf ds hp [nc]]
    simp only [hne]
    split_ifs <;> first | rfl | simp_all

/-- **The model's `section` returns the section net.**  For an object whose control net has shape
    `dims ++ [nc]` and a boundary selector per direction: `sectionSel` succeeds; the returned control
    net `cps'` has the free axes (then the component axis) and its entries are `secNet` of the
    object's net; the result is packaged as the class chosen by the number of free directions, or
    as the bare point. -/
theorem sectionSel_boundary (o : Obj K) (ds : List (Dir K × BSel)) (nc : ℕ)
    (hshape : o.cps.shape = dimsOf ds ++ [nc]) (hp : FixedPos ds) (unwrap : Bool) :
    ∃ cps' : Tensor K,
      cps'.shape = freeDims (idxOf ds) (dimsOf ds) ++ [nc] ∧
      (∀ is c, InRange is (freeDims (idxOf ds) (dimsOf ds)) → c < nc →
        cps'.getIdx (is ++ [c]) = secNet ds (fun full => o.cps.getIdx (full ++ [c])) is) ∧
      o.sectionSel (selOf ds) unwrap =
        .ok (if !(Obj.freeBases o.bases.toList (selOf ds)).isEmpty ∨ !unwrap then
            .obj (Obj.className (Obj.freeBases o.bases.toList (selOf ds)).length)
              { bases := (Obj.freeBases o.bases.toList (selOf ds)).toArray, cps := cps',
                rational := o.rational }
          else .point cps'.data) :=
  ⟨Obj.sliceSec o.cps (idxOf ds), sectionSel_boundary_slice o ds nc hshape hp unwrap⟩

end Splipy
