import Mathlib.Data.Rat.Floor
import Splipy.Lemmas.C05LinAlg
import Splipy.Lemmas.C05Knots
import Splipy.Lemmas.Triangle

/-!
# C05: `raise_order_implicit` / `lower_order` for one parametric direction, API facts, dead branch
-/

namespace Splipy

set_option linter.unusedSectionVars false

variable {K : Type} [Field K] [LinearOrder K] [IsStrictOrderedRing K] [FloorRing K]

theorem greville_size (b : Basis K) (pts : Array K) (h : b.greville = .ok pts) :
    pts.size = b.numFunctions := by
  unfold Basis.greville at h
  simp only at h
  split at h
  · exact absurd h (by simp)
  · injection h with h
    rw [← h]; simp

/-- `raise_order_implicit` on an object with one parametric direction returns the coefficient
    net `c'` whenever `c'` represents the same spline on the elevated basis. -/
theorem raiseOrderImplicit_pardim1 (o : Obj K) (tol : K) (b b' : Basis K) (a : ℕ) (pts : Array K)
    (n nc : ℕ) (Ni : Mat K) (hb : o.bases = #[b]) (hs : o.cps.shape = [n, nc])
    (hb' : b.raiseOrder tol a = .ok b') (hg : b'.greville = .ok pts)
    (H_sw : Mat.invChecked (Obj.basisMat b' tol pts.toList 0 true) = .ok Ni)
    (c' : ℕ → ℕ → K)
    (H_incl : ∀ t, ∀ c, c < nc →
      ∑ k ∈ Finset.range pts.size, (b'.evaluate tol t 0 true).getD k 0 * c' k c
        = ∑ j ∈ Finset.range n, (b.evaluate tol t 0 true).getD j 0 * o.cps.get (j * nc + c)) :
    ∃ o', o.raiseOrderImplicit tol [a] = .ok o' ∧ o'.bases = #[b'] ∧ o'.rational = o.rational ∧
      o'.cps.shape = [pts.size, nc] ∧
      (∀ i, i < pts.size → ∀ c, c < nc → o'.cps.get (i * nc + c) = c' i c) ∧
      (∀ t, ∀ c, c < nc →
        ∑ k ∈ Finset.range pts.size, (b'.evaluate tol t 0 true).getD k 0 * o'.cps.get (k * nc + c)
          = ∑ j ∈ Finset.range n, (b.evaluate tol t 0 true).getD j 0 * o.cps.get (j * nc + c)) := by
  obtain ⟨T, hT, hTs, hTe⟩ := reinterpolate_pardim1 o tol b b' pts n nc Ni hb hs hg H_sw c'
    (fun t _ c hc => H_incl t c hc)
  refine ⟨{ o with bases := [b'].toArray, cps := T }, ?_, rfl, rfl, hTs, hTe, ?_⟩
  · unfold Obj.raiseOrderImplicit
    simp only [hb, Obj.raiseBases, hb', hT]
  · intro t c hc
    rw [← H_incl t c hc]
    apply Finset.sum_congr rfl
    intro k hk
    show _ * T.get (k * nc + c) = _
    rw [hTe k (Finset.mem_range.mp hk) c hc]

/-- `lower_order` by the same amount on the elevated object (one parametric direction) returns a
    new object with the original basis and the original control points. -/
theorem lowerOrder_pardim1 (o o' : Obj K) (tol : K) (b b' : Basis K) (a : ℕ) (ha : 1 ≤ a)
    (pts2 : Array K) (n n' nc : ℕ) (Ni2 : Mat K)
    (hb : o'.bases = #[b']) (hs : o'.cps.shape = [n', nc])
    (hn : n = b.numFunctions)
    (hlow : b'.lowerOrder tol (a : Int) = .ok b) (hg2 : b.greville = .ok pts2)
    (H_sw2 : Mat.invChecked (Obj.basisMat b tol pts2.toList 0 true) = .ok Ni2)
    (hsame : ∀ t, ∀ c, c < nc →
        ∑ k ∈ Finset.range n', (b'.evaluate tol t 0 true).getD k 0 * o'.cps.get (k * nc + c)
          = ∑ j ∈ Finset.range n, (b.evaluate tol t 0 true).getD j 0 * o.cps.get (j * nc + c)) :
    ∃ o'', o'.lowerOrder tol [(a : Int)] = .ok (.new, o'') ∧ o''.bases = #[b] ∧
      o''.rational = o'.rational ∧ o''.cps.shape = [n, nc] ∧
      ∀ j, j < n → ∀ c, c < nc → o''.cps.get (j * nc + c) = o.cps.get (j * nc + c) := by
  have hsz : pts2.size = n := by rw [hn]; exact greville_size b pts2 hg2
  obtain ⟨T, hT, hTs, hTe⟩ := reinterpolate_pardim1 o' tol b' b pts2 n' nc Ni2 hb hs hg2 H_sw2
    (fun j c => o.cps.get (j * nc + c))
    (fun t _ c hc => by rw [hsz]; exact (hsame t c hc).symm)
  rw [hsz] at hTs hTe
  refine ⟨{ o' with bases := [b].toArray, cps := T }, ?_, rfl, rfl, hTs, hTe⟩
  unfold Obj.lowerOrder
  have hpd : o'.pardim = 1 := by simp [Obj.pardim, hs]
  have ha0 : ¬ (a = 0) := by omega
  simp [hpd, ha0, hb, Obj.lowerBases, hlow, hT]

/-! ## `Curve.raise_order` (exact solve instead of an explicit inverse) -/

theorem Mat.isSolution_spec (A X B : Mat K) (n m : ℕ) (h : Mat.isSolution A X B n m = true) :
    X.size = n ∧ ∀ i, i < n → ∀ j, j < m →
      ∑ l ∈ Finset.range n, A.get i l * X.get l j = B.get i j := by
  unfold Mat.isSolution at h
  rw [Bool.and_eq_true, decide_eq_true_eq, List.all_eq_true] at h
  refine ⟨h.1, fun i hi j hj => ?_⟩
  have h1 := h.2 i (List.mem_range.mpr hi)
  rw [List.all_eq_true] at h1
  have h2 := h1 j (List.mem_range.mpr hj)
  rw [decide_eq_true_eq, Mat.dot_eq_sum] at h2
  exact h2

theorem Mat.solveChecked_spec (A B X : Mat K) (h : Mat.solveChecked A B = .ok X) :
    X.size = A.nrows ∧ ∀ i, i < A.nrows → ∀ j, j < B.ncols →
      ∑ l ∈ Finset.range A.nrows, A.get i l * X.get l j = B.get i j := by
  unfold Mat.solveChecked at h
  split at h
  · exact absurd h (by simp)
  · rename_i X' _
    split at h
    · rename_i hc
      have : X' = X := by simpa using h
      subst this
      exact Mat.isSolution_spec A _ B _ _ hc
    · exact absurd h (by simp)

theorem Mat.mul_get (A B : Mat K) (i j : ℕ) (hi : i < A.nrows) (hj : j < B.ncols) :
    (Mat.mul A B).get i j = ∑ l ∈ Finset.range B.nrows, A.get i l * B.get l j := by
  rw [← Mat.dot_eq_sum]
  unfold Mat.mul Mat.get Mat.dot
  simp [Array.getD, hi, hj]

theorem Mat.mul_ncols (A B : Mat K) (h : 0 < A.nrows) : (Mat.mul A B).ncols = B.ncols := by
  unfold Mat.mul Mat.ncols
  simp [Array.getD, h]

theorem cpsMat_get (t : Tensor K) (n nc : ℕ) (hs : t.shape = [n, nc]) (j c : ℕ) (hj : j < n) (hc : c < nc) :
    (Obj.cpsMat t).get j c = t.get (j * nc + c) := by
  unfold Obj.cpsMat Mat.get
  simp [hs, Array.getD, hj, hc]

theorem cpsMat_nrows (t : Tensor K) (n nc : ℕ) (hs : t.shape = [n, nc]) : (Obj.cpsMat t).nrows = n := by
  simp [Obj.cpsMat, Mat.nrows, hs]

theorem cpsMat_ncols (t : Tensor K) (n nc : ℕ) (hs : t.shape = [n, nc]) (hn : 0 < n) :
    (Obj.cpsMat t).ncols = nc := by
  simp [Obj.cpsMat, Mat.ncols, hs, Array.getD, hn]

theorem ofCpsMat_get (C : Mat K) (nc i c : ℕ) (hi : i < C.size) (hc : c < nc) :
    (Obj.ofCpsMat C nc).get (i * nc + c) = C.get i c := by
  unfold Obj.ofCpsMat Tensor.get
  have hidx : i * nc + c < C.size * nc := by
    have : (i + 1) * nc ≤ C.size * nc := Nat.mul_le_mul_right nc hi
    rw [Nat.add_mul] at this; omega
  have h1 : (i * nc + c) % nc = c := by rw [Nat.mul_comm, Nat.mul_add_mod]; exact Nat.mod_eq_of_lt hc
  have h2 : (i * nc + c) / nc = i := by
    rw [Nat.mul_comm, Nat.mul_add_div (by omega), Nat.div_eq_of_lt hc, Nat.add_zero]
  simp [Array.getD, hidx, h1, h2]

/-- `Curve.raise_order(a)`, `a ≥ 1`: whenever the model's call succeeds it returns the receiver,
    with exactly the coefficient net `c'`.  `H_sw` = the collocation matrix has a left inverse `L`. -/
theorem curveRaiseOrder_spec (o : Obj K) (tol : K) (b b' : Basis K) (a : ℕ) (ha : 1 ≤ a) (pts : Array K)
    (n nc : ℕ) (hn : 0 < n) (hb : o.bases = #[b]) (hs : o.cps.shape = [n, nc])
    (hb' : b.raiseOrder tol a = .ok b') (hg : b'.greville = .ok pts) (hpts : 0 < pts.size)
    (L : ℕ → ℕ → K)
    (H_sw : ∀ i, i < pts.size → ∀ j, j < pts.size →
      ∑ l ∈ Finset.range pts.size, L i l * (Obj.basisMat b' tol pts.toList 0 true).get l j = if i = j then 1 else 0)
    (c' : ℕ → ℕ → K)
    (H_incl : ∀ t, ∀ c, c < nc →
      ∑ k ∈ Finset.range pts.size, (b'.evaluate tol t 0 true).getD k 0 * c' k c
        = ∑ j ∈ Finset.range n, (b.evaluate tol t 0 true).getD j 0 * o.cps.get (j * nc + c))
    (r : Ret) (o' : Obj K) (hcall : o.curveRaiseOrder tol (a : Int) = .ok (r, o')) :
    r = .self ∧ o'.bases = #[b'] ∧ o'.rational = o.rational ∧ o'.cps.shape = [pts.size, nc] ∧
      (∀ i, i < pts.size → ∀ c, c < nc → o'.cps.get (i * nc + c) = c' i c) ∧
      (∀ t, ∀ c, c < nc →
        ∑ k ∈ Finset.range pts.size, (b'.evaluate tol t 0 true).getD k 0 * o'.cps.get (k * nc + c)
          = ∑ j ∈ Finset.range n, (b.evaluate tol t 0 true).getD j 0 * o.cps.get (j * nc + c)) := by
  set Nold := Obj.basisMat b tol pts.toList 0 true with hNold
  set Nnew := Obj.basisMat b' tol pts.toList 0 true with hNnew
  unfold Obj.curveRaiseOrder at hcall
  have h1 : ¬ ((a : Int) < 0) := by omega
  have h2 : ¬ ((a : Int) = 0) := by omega
  have hb0 : o.basis 0 = b := by simp [Obj.basis, hb]
  simp only [h1, h2, if_false, hb0, Int.toNat_natCast, hb', hg] at hcall
  rw [← hNold, ← hNnew] at hcall
  split at hcall
  · exact absurd hcall (by simp)
  · rename_i C hC
    have hpair : (Ret.self, ({ o with bases := #[b'], cps := Obj.ofCpsMat C (o.cps.shape.getD 1 1) } : Obj K)) = (r, o') := by
      simpa using hcall
    have hr : r = .self := (Prod.mk.inj hpair).1.symm
    have ho' : o' = { o with bases := #[b'], cps := Obj.ofCpsMat C (o.cps.shape.getD 1 1) } :=
      (Prod.mk.inj hpair).2.symm
    have hnc : o.cps.shape.getD 1 1 = nc := by simp [hs]
    rw [hnc] at ho'
    obtain ⟨hCsz, hsol⟩ := Mat.solveChecked_spec Nnew _ C hC
    have hrows : Nnew.nrows = pts.size := by simp [Mat.nrows, hNnew, basisMat_size]
    have hrowsO : Nold.nrows = pts.size := by simp [Mat.nrows, hNold, basisMat_size]
    have hXcols : (Mat.mul Nold (Obj.cpsMat o.cps)).ncols = nc := by
      rw [Mat.mul_ncols _ _ (by omega), cpsMat_ncols o.cps n nc hs hn]
    rw [hrows] at hCsz hsol
    rw [hXcols] at hsol
    -- the entries of C are c'
    have hCe : ∀ i, i < pts.size → ∀ c, c < nc → C.get i c = c' i c := by
      intro i hi c hc
      have hrow : ∀ l, l < pts.size →
          ∑ k ∈ Finset.range pts.size, Nnew.get l k * C.get k c
            = ∑ k ∈ Finset.range pts.size, Nnew.get l k * c' k c := by
        intro l hl
        rw [hsol l hl c hc, Mat.mul_get Nold _ l c (by omega) (by rw [cpsMat_ncols o.cps n nc hs hn]; exact hc),
          cpsMat_nrows o.cps n nc hs]
        have hl' : l < pts.toList.length := by simpa using hl
        have e1 : ∀ k, Nnew.get l k = (b'.evaluate tol pts.toList[l] 0 true).getD k 0 :=
          fun k => basisMat_get b' tol pts.toList l k hl'
        have e2 : ∀ j, Nold.get l j = (b.evaluate tol pts.toList[l] 0 true).getD j 0 :=
          fun j => basisMat_get b tol pts.toList l j hl'
        simp only [e1, e2]
        rw [H_incl _ c hc]
        apply Finset.sum_congr rfl
        intro j hj
        rw [cpsMat_get o.cps n nc hs j c (Finset.mem_range.mp hj) hc]
      have e3 := leftInv_apply pts.size L (fun a b => Nnew.get a b) H_sw (fun k => C.get k c) i hi
      have e4 := leftInv_apply pts.size L (fun a b => Nnew.get a b) H_sw (fun k => c' k c) i hi
      rw [← e3, ← e4]
      apply Finset.sum_congr rfl
      intro l hl
      rw [hrow l (Finset.mem_range.mp hl)]
    have hge : ∀ i, i < pts.size → ∀ c, c < nc → o'.cps.get (i * nc + c) = c' i c := by
      intro i hi c hc
      rw [ho']
      show (Obj.ofCpsMat C nc).get (i * nc + c) = _
      rw [ofCpsMat_get C nc i c (by omega) hc, hCe i hi c hc]
    refine ⟨hr, by rw [ho'], by rw [ho'], by rw [ho']; simp [Obj.ofCpsMat, hCsz], hge, ?_⟩
    intro t c hc
    rw [← H_incl t c hc]
    apply Finset.sum_congr rfl
    intro k hk
    rw [hge k (Finset.mem_range.mp hk) c hc]

/-- `Curve.raise_order(a)`, `a ≥ 1`, does not fail when the collocation matrix has a left inverse
    (the certificate-checked exact solve is complete: `Mat.solveChecked_complete`). -/
theorem curveRaiseOrder_succeeds (o : Obj K) (tol : K) (b b' : Basis K) (a : ℕ) (ha : 1 ≤ a) (pts : Array K)
    (n nc : ℕ) (hn : 0 < n) (hb : o.bases = #[b]) (hs : o.cps.shape = [n, nc])
    (hb' : b.raiseOrder tol a = .ok b') (hg : b'.greville = .ok pts) (hpts : 0 < pts.size)
    (L : ℕ → ℕ → K)
    (H_sw : ∀ i, i < pts.size → ∀ j, j < pts.size →
      ∑ l ∈ Finset.range pts.size, L i l * (Obj.basisMat b' tol pts.toList 0 true).get l j = if i = j then 1 else 0) :
    ∃ o', o.curveRaiseOrder tol (a : Int) = .ok (.self, o') := by
  have hsz := greville_size b' pts hg
  have hlen : pts.toList.length = pts.size := by simp
  have hshape := basisMat_shape b' tol pts.toList (by simpa using hsz)
  rw [hlen] at hshape
  set Nold := Obj.basisMat b tol pts.toList 0 true with hNold
  have hrowsO : Nold.nrows = pts.size := by simp [Mat.nrows, hNold, basisMat_size]
  have hXshape : (Mat.mul Nold (Obj.cpsMat o.cps)).size = pts.size ∧
      ∀ i, i < pts.size → ((Mat.mul Nold (Obj.cpsMat o.cps)).getD i #[]).size = nc := by
    unfold Mat.mul
    refine ⟨by simp [hrowsO], fun i hi => ?_⟩
    simp [Array.getD, hrowsO, hi, cpsMat_ncols o.cps n nc hs hn]
  obtain ⟨C, hC⟩ := Mat.solveChecked_complete _ _ pts.size nc hshape hXshape hpts L
    (fun i j hi hj => H_sw i hi j hj)
  unfold Obj.curveRaiseOrder
  have h1 : ¬ ((a : Int) < 0) := by omega
  have h2 : ¬ ((a : Int) = 0) := by omega
  have hb0 : o.basis 0 = b := by simp [Obj.basis, hb]
  simp only [h1, h2, if_false, hb0, Int.toNat_natCast, hb', hg]
  rw [← hNold, hC]
  exact ⟨_, rfl⟩

/-! ## The guard of `SplineObject.raise_order` -/

theorem continuity_first_knot (b : Basis K) (tol : K) (htol : 0 < tol) (hmono : Monotone b.kn)
    (hsz : 0 < b.knots.size) (hper : ¬ b.periodic ≥ 0) :
    b.continuity tol (b.kn 0) = .error .value ∨
      ∃ c : Int, b.continuity tol (b.kn 0) = .ok (some c) ∧ c < (b.order : Int) := by
  unfold Basis.continuity
  simp only [hper, if_false]
  by_cases hout : b.kn 0 < b.start - tol ∨ b.stop + tol < b.kn 0
  · left; simp [hout]
  · right
    simp only [hout, if_false]
    obtain ⟨_, h2, h3⟩ := bisectLeft_spec b.kn hmono (b.kn 0 + tol) b.knots.size
    obtain ⟨_, l2, _⟩ := bisectLeft_spec b.kn hmono (b.kn 0 - tol) b.knots.size
    have hhi : 1 ≤ b.bisectL (b.kn 0 + tol) := by
      by_contra hc
      have h0 : b.bisectL (b.kn 0 + tol) = 0 := by omega
      have := h3 0 (by unfold Basis.bisectL at h0; omega) hsz
      linarith
    have hlo : b.bisectL (b.kn 0 - tol) = 0 := by
      by_contra hc
      have := l2 0 (by unfold Basis.bisectL at hc; omega)
      linarith
    rw [hlo]
    have hne : ¬ (b.bisectL (b.kn 0 + tol) = 0) := by omega
    simp only [hne, if_false]
    refine ⟨_, rfl, ?_⟩
    push_cast; omega

/-- The guard `any(b.continuity(b.knots[0]) < b.order or b.periodic > -1 …)` is never `False`
    when the first basis has a sorted, non-empty knot vector: the explicit branch of
    `SplineObject.raise_order` (through `raise_order_1D`) is dead code. -/
theorem raiseGuard_ne_false (tol : K) (htol : 0 < tol) (b : Basis K) (rest : List (Basis K))
    (hmono : Monotone b.kn) (hsz : 0 < b.knots.size) :
    Obj.raiseGuard tol (b :: rest) ≠ .ok false := by
  unfold Obj.raiseGuard
  by_cases hper : b.periodic ≥ 0
  · have hp : b.periodic > -1 := by omega
    split
    · simp
    · simp [hp]
  · rcases continuity_first_knot b tol htol hmono hsz hper with h | ⟨c, h, hc⟩
    · simp [h]
    · simp [h, hc]

/-! ## Statement shorthand and small facts for `C05_geometry_clamped` -/

/-- "`o'` is `o` elevated from basis `b` to `b'`" (one parametric direction, `nc` homogeneous
    components): same rationality, single basis `b'`, a control net of the matching shape
    `[b'.num_functions(), nc]`, the homogeneous evaluated map
    `Σ_k N'_k(t) P'_k` equals `Σ_j N_j(t) P_j` for EVERY parameter `t` and component (so also the
    projected rational map), and a component that is non-negative on all old control points
    (e.g. the weights) is non-negative on all new ones. -/
def ElevatedFrom (tol : K) (b b' : Basis K) (nc : ℕ) (o o' : Obj K) : Prop :=
  o'.bases = #[b'] ∧ o'.rational = o.rational ∧ o'.cps.shape = [b'.numFunctions, nc] ∧
  (∀ t, ∀ c, c < nc →
    ∑ k ∈ Finset.range b'.numFunctions, (b'.evaluate tol t 0 true).getD k 0 * o'.cps.get (k * nc + c)
      = ∑ j ∈ Finset.range b.numFunctions, (b.evaluate tol t 0 true).getD j 0 * o.cps.get (j * nc + c)) ∧
  (∀ c, c < nc → (∀ j, j < b.numFunctions → 0 ≤ o.cps.get (j * nc + c)) →
    ∀ k, k < b'.numFunctions → 0 ≤ o'.cps.get (k * nc + c))

theorem greville_ok (b : Basis K) (h : b.order ≠ 1) : ∃ pts, b.greville = .ok pts := by
  unfold Basis.greville
  simp only
  rw [if_neg (fun hc => h hc.1)]
  exact ⟨_, rfl⟩

theorem numFunctions_clamped (p : ℕ) (x0 xl : K) (umid : List K) (mmid : List ℕ)
    (hlen : umid.length = mmid.length) :
    (openBasis p (clampedU x0 xl umid) (clampedM p mmid)).numFunctions = p + (expand umid mmid).length := by
  unfold Basis.numFunctions
  show (expand (clampedU x0 xl umid) (clampedM p mmid)).toArray.size - p - ((-1 : Int) + 1).toNat = _
  rw [expand_clamped p x0 xl umid mmid hlen]
  simp; omega

/-- The guard of `SplineObject.raise_order` is `True` for a clamped first basis. -/
theorem raiseGuard_clamped (tol : K) (htol : 0 < tol) (p : ℕ) (hp : 1 ≤ p) (x0 xl : K) (umid : List K)
    (mmid : List ℕ) (hlen : umid.length = mmid.length) (hsep : Separated tol (clampedU x0 xl umid))
    (hm : ∀ j ∈ mmid, 1 ≤ j) (rest : List (Basis K)) :
    Obj.raiseGuard tol (openBasis p (clampedU x0 xl umid) (clampedM p mmid) :: rest) = .ok true := by
  have hk0 : (openBasis p (clampedU x0 xl umid) (clampedM p mmid)).kn 0 = x0 :=
    kn_zero_expand p (-1) x0 (umid ++ [xl]) p (mmid ++ [p]) hp
  have hc := continuity_clamped tol htol p hp x0 xl umid mmid hlen hsep hm 0
    (by simp [clampedU]) (by simp [clampedM])
  have e1 : (clampedU x0 xl umid)[0]'(by simp [clampedU]) = x0 := rfl
  have e2 : (clampedM p mmid)[0]'(by simp [clampedM]) = p := rfl
  rw [e1, e2] at hc
  unfold Obj.raiseGuard
  rw [hk0, hc]
  have hord : (openBasis p (clampedU x0 xl umid) (clampedM p mmid)).order = p := rfl
  have : ((p : Int) - (p : Int) - 1 < (p : Int)) := by omega
  simp only [hord, this, decide_true, Bool.true_or, if_true]

/-! ## Concrete instances used by the non-vacuity examples of `Properties/C05.lean` -/

/-- Decidable equality of concrete bases (used only by kernel-evaluated examples). -/
@[instance_reducible] def c05BasisDecEq : DecidableEq (Basis ℚ) := fun a b =>
  decidable_of_iff (a.order = b.order ∧ a.knots = b.knots ∧ a.periodic = b.periodic)
    ⟨fun ⟨h1, h2, h3⟩ => by cases a; cases b; simp_all, fun h => by subst h; exact ⟨rfl, rfl, rfl⟩⟩

/-- Order 2 on `[0,0,1,1]` and its elevation, order 3 on `[0,0,0,1,1,1]`. -/
def c05B2 : Basis ℚ := openBasis 2 (clampedU 0 1 []) (clampedM 2 [])
def c05B3 : Basis ℚ := openBasis 3 (clampedU 0 1 []) (clampedM 3 [])

/-- The zero curve with `n` control points (2 components) on basis `b`. -/
def c05Zero (n : ℕ) (b : Basis ℚ) : Obj ℚ :=
  { bases := #[b], cps := { shape := [n, 2], data := Array.replicate (n * 2) 0 }, rational := false }

theorem c05Zero_get (n : ℕ) (b : Basis ℚ) (i : ℕ) : (c05Zero n b).cps.get i = 0 := by
  simp only [c05Zero, Tensor.get]
  rw [Array.getD_eq_getD_getElem?, Array.getElem?_replicate]
  split <;> rfl

end Splipy
