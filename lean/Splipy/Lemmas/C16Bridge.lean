import Splipy.Model.Measure
import Splipy.Properties.C03
import Splipy.Lemmas.C16CenterModel

/-!
# C16: what the executable measure functions compute, in specification terms

`Obj.lengthData`, `Obj.areaData`, `Obj.volume`, `Obj.curvatureData`, `Obj.torsionData` of
`Model/Measure.lean` evaluate `derivative` on the mapped Gauss nodes and combine the rows.  For
NON-RATIONAL objects property C03 (`C03_nonrational_curve/surface/volume`) identifies every
derivative row with the specification's one-sided derivative of the evaluated map
(`Σ_j rowSpec_j(u)·P_j`, i.e. `splineDeriv`), so the model's results are the speeds / area elements /
Jacobians of the MAP at the nodes.
-/

namespace Splipy

open Measure

variable {K : Type} [Field K] [LinearOrder K] [IsStrictOrderedRing K] [FloorRing K]

namespace Obj

/-- Specification: the `d`-th one-sided derivative (all `nc` components) of the non-rational curve
with basis `b1` and control net `o.cps` at `u`. -/
def specD1 (o : Obj K) (b1 : Basis K) (nc : ℕ) (u : K) (a : Bool) (d : ℕ) : Array K :=
  Array.ofFn (n := nc) (fun c =>
    ∑ j ∈ Finset.range b1.numFunctions, b1.rowSpec u a d j * o.cps.get (j * nc + c.val))

/-- Specification: the `(d1,d2)` partial derivative of a non-rational surface at `(u,v)` (from above). -/
def specD2 (o : Obj K) (b1 b2 : Basis K) (nc : ℕ) (u v : K) (d1 d2 : ℕ) : Array K :=
  Array.ofFn (n := nc) (fun c =>
    ∑ j1 ∈ Finset.range b1.numFunctions, ∑ j2 ∈ Finset.range b2.numFunctions,
      b1.rowSpec u true d1 j1 * b2.rowSpec v true d2 j2
        * o.cps.get ((j1 * b2.numFunctions + j2) * nc + c.val))

/-- Specification: the `(d1,d2,d3)` partial derivative of a non-rational volume at `(u,v,w)`. -/
def specD3 (o : Obj K) (b1 b2 b3 : Basis K) (nc : ℕ) (u v w : K) (d1 d2 d3 : ℕ) : Array K :=
  Array.ofFn (n := nc) (fun c =>
    ∑ j1 ∈ Finset.range b1.numFunctions, ∑ j2 ∈ Finset.range b2.numFunctions,
      ∑ j3 ∈ Finset.range b3.numFunctions,
        b1.rowSpec u true d1 j1 * b2.rowSpec v true d2 j2 * b3.rowSpec w true d3 j3
          * o.cps.get (((j1 * b2.numFunctions + j2) * b3.numFunctions + j3) * nc + c.val))

omit [Field K] [LinearOrder K] [IsStrictOrderedRing K] [FloorRing K] in
theorem c16_dimension_of_shape (o : Obj K) (pre : List ℕ) (nc : ℕ) (hs : o.cps.shape = pre ++ [nc])
    (hr : o.rational = false) : o.dimension = nc := by
  unfold dimension ncomp
  rw [hs, hr]
  simp

omit [LinearOrder K] [IsStrictOrderedRing K] [FloorRing K] in
theorem c16_rowAt_eq_ofFn (t : Tensor K) (dim i : ℕ) (f : ℕ → K)
    (h : ∀ c, c < dim → t.get (i * dim + c) = f c) :
    t.rowAt dim i = Array.ofFn (n := dim) (fun c => f c.val) := by
  unfold Tensor.rowAt
  apply Array.ext
  · simp
  · intro c h1 h2
    simp only [Array.getElem_ofFn]
    exact h c (by simpa using h1)

omit [Field K] [LinearOrder K] [IsStrictOrderedRing K] [FloorRing K] in
theorem c16_map_range_getD {α β : Type} (l : List α) (d : α) (f : α → β) :
    (List.range l.length).map (fun i => f (l.getD i d)) = l.map f := by
  apply List.ext_getElem
  · simp
  · intro i h1 h2
    simp only [List.getElem_map, List.getElem_range, List.getD_eq_getElem?_getD]
    have : i < l.length := by simpa using h2
    simp [this]

/-- `Curve.derivative(ts, d, above)` of a non-rational curve at admissible parameters: row `i` is the
specification derivative vector at `ts[i]`. -/
theorem curveDerivative_spec {o : Obj K} {b1 : Basis K} (hb : o.bases = #[b1]) (hv1 : b1.Valid)
    {nc : ℕ} (hs : o.cps.shape = [b1.numFunctions, nc]) (hr : o.rational = false) {tol : K}
    (htol : 0 < tol) {ts : List K} (hne : ts ≠ []) (hadm : ∀ u ∈ ts, b1.Admissible tol u) (d : ℕ)
    (a : Bool)
    (hneA1 : b1.periodic < 0 → ts ≠ [] := by (first | assumption | (simp; done) | skip)) :
    ∃ res, o.curveDerivative tol ts d a = .ok res ∧
      ∀ i, i < ts.length → res.rowAt nc i = o.specD1 b1 nc (ts.getD i 0) a d := by
  obtain ⟨res, hres, hget⟩ := C03_nonrational_curve hb hv1 hs hr htol hadm d a true
  refine ⟨res, ?_, fun i hi => ?_⟩
  · unfold curveDerivative
    rw [if_pos (Or.inl (by rw [hr]; rfl)), if_neg]
    · exact hres
    · rintro ⟨h, -⟩
      exact hne (List.isEmpty_iff.mp h)
  · unfold specD1
    exact c16_rowAt_eq_ofFn res nc i _ (fun c hc => hget i c hi hc)

/-- **`lengthData` of a non-rational curve** (bridge to the specification): the model returns the
mapped weights and, per node `u`, the squared norm of the specification's first derivative of the
curve at `u` — the squared speed of the MAP.  Hypotheses: valid basis, control net
`num_functions × nc`, a non-empty node list whose nodes are admissible (in the domain and exact
for the tolerance). -/
theorem lengthData_spec {o : Obj K} {b1 : Basis K} (hb : o.bases = #[b1]) (hv1 : b1.Valid)
    {nc : ℕ} (hs : o.cps.shape = [b1.numFunctions, nc]) (hr : o.rational = false) {tol : K}
    (htol : 0 < tol) (x w : List K) (t0 t1 : Option K)
    (hne : (gaussMap (o.lengthSpans tol t0 t1).toList x w).1 ≠ [])
    (hadm : ∀ u ∈ (gaussMap (o.lengthSpans tol t0 t1).toList x w).1, b1.Admissible tol u)
    (hneA1 : b1.periodic < 0 → (gaussMap (o.lengthSpans tol t0 t1).toList x w).1 ≠ [] := by (first | assumption | (simp; done) | skip)) :
    o.lengthData tol x w t0 t1
      = .ok ((gaussMap (o.lengthSpans tol t0 t1).toList x w).2,
             (gaussMap (o.lengthSpans tol t0 t1).toList x w).1.map
               (fun u => sqNorm (o.specD1 b1 nc u true 1))) := by
  obtain ⟨res, hres, hrow⟩ := curveDerivative_spec hb hv1 hs hr htol hne hadm 1 true
  have hdim : o.dimension = nc := c16_dimension_of_shape o [b1.numFunctions] nc hs hr
  unfold lengthData
  simp only [bind, Except.bind, pure, Except.pure, hres, hdim]
  congr 2
  rw [← c16_map_range_getD (gaussMap (o.lengthSpans tol t0 t1).toList x w).1 (0 : K)
    (fun u => sqNorm (o.specD1 b1 nc u true 1))]
  apply List.map_congr_left
  intro i hi
  rw [List.mem_range] at hi
  rw [hrow i hi]

/-- **`curvatureData` of a non-rational space curve** (`nc = 3`): per parameter `u` the pair
`(‖v × a‖², ‖v‖²)` of the specification's first and second derivative vectors `v`, `a` of the MAP. -/
theorem curvatureData_spec3 {o : Obj K} {b1 : Basis K} (hb : o.bases = #[b1]) (hv1 : b1.Valid)
    (hs : o.cps.shape = [b1.numFunctions, 3]) (hr : o.rational = false) {tol : K}
    (htol : 0 < tol) {ts : List K} (hne : ts ≠ []) (hadm : ∀ u ∈ ts, b1.Admissible tol u)
    (a : Bool)
    (hneA1 : b1.periodic < 0 → ts ≠ [] := by (first | assumption | (simp; done) | skip)) :
    o.curvatureData tol ts a = .ok (ts.map (fun u =>
      (sqNorm (cross3 (o.specD1 b1 3 u a 1) (o.specD1 b1 3 u a 2)), sqNorm (o.specD1 b1 3 u a 1)))) := by
  obtain ⟨r1, h1, hr1⟩ := curveDerivative_spec hb hv1 hs hr htol hne hadm 1 a
  obtain ⟨r2, h2, hr2⟩ := curveDerivative_spec hb hv1 hs hr htol hne hadm 2 a
  have hdim : o.dimension = 3 := c16_dimension_of_shape o [b1.numFunctions] 3 hs hr
  unfold curvatureData
  simp only [bind, Except.bind, pure, Except.pure, h1, h2, hdim, if_true]
  congr 1
  rw [← c16_map_range_getD ts (0 : K) (fun u =>
    (sqNorm (cross3 (o.specD1 b1 3 u a 1) (o.specD1 b1 3 u a 2)), sqNorm (o.specD1 b1 3 u a 1)))]
  apply List.map_congr_left
  intro i hi
  rw [List.mem_range] at hi
  rw [hr1 i hi, hr2 i hi]

/-- **`curvatureData` of a non-rational planar curve** (`nc = 2`): `((v × a)_z², ‖v‖²)`. -/
theorem curvatureData_spec2 {o : Obj K} {b1 : Basis K} (hb : o.bases = #[b1]) (hv1 : b1.Valid)
    (hs : o.cps.shape = [b1.numFunctions, 2]) (hr : o.rational = false) {tol : K}
    (htol : 0 < tol) {ts : List K} (hne : ts ≠ []) (hadm : ∀ u ∈ ts, b1.Admissible tol u)
    (a : Bool)
    (hneA1 : b1.periodic < 0 → ts ≠ [] := by (first | assumption | (simp; done) | skip)) :
    o.curvatureData tol ts a = .ok (ts.map (fun u =>
      (cross2 (o.specD1 b1 2 u a 1) (o.specD1 b1 2 u a 2)
         * cross2 (o.specD1 b1 2 u a 1) (o.specD1 b1 2 u a 2), sqNorm (o.specD1 b1 2 u a 1)))) := by
  obtain ⟨r1, h1, hr1⟩ := curveDerivative_spec hb hv1 hs hr htol hne hadm 1 a
  obtain ⟨r2, h2, hr2⟩ := curveDerivative_spec hb hv1 hs hr htol hne hadm 2 a
  have hdim : o.dimension = 2 := c16_dimension_of_shape o [b1.numFunctions] 2 hs hr
  unfold curvatureData
  simp only [bind, Except.bind, pure, Except.pure, h1, h2, hdim, if_true,
    show ¬ ((2 : ℕ) = 3) by decide, if_false]
  congr 1
  rw [← c16_map_range_getD ts (0 : K) (fun u =>
    (cross2 (o.specD1 b1 2 u a 1) (o.specD1 b1 2 u a 2)
       * cross2 (o.specD1 b1 2 u a 1) (o.specD1 b1 2 u a 2), sqNorm (o.specD1 b1 2 u a 1)))]
  apply List.map_congr_left
  intro i hi
  rw [List.mem_range] at hi
  rw [hr1 i hi, hr2 i hi]

/-- **`torsionData` of a non-rational space curve**: per parameter `((v × a)·a', ‖v × a‖²)` with the
specification's first three derivative vectors of the MAP. -/
theorem torsionData_spec3 {o : Obj K} {b1 : Basis K} (hb : o.bases = #[b1]) (hv1 : b1.Valid)
    (hs : o.cps.shape = [b1.numFunctions, 3]) (hr : o.rational = false) {tol : K}
    (htol : 0 < tol) {ts : List K} (hne : ts ≠ []) (hadm : ∀ u ∈ ts, b1.Admissible tol u)
    (a : Bool)
    (hneA1 : b1.periodic < 0 → ts ≠ [] := by (first | assumption | (simp; done) | skip)) :
    o.torsionData tol ts a = .ok (some (ts.map (fun u =>
      (dotArr (cross3 (o.specD1 b1 3 u a 1) (o.specD1 b1 3 u a 2)) (o.specD1 b1 3 u a 3),
       sqNorm (cross3 (o.specD1 b1 3 u a 1) (o.specD1 b1 3 u a 2)))))) := by
  obtain ⟨r1, h1, hr1⟩ := curveDerivative_spec hb hv1 hs hr htol hne hadm 1 a
  obtain ⟨r2, h2, hr2⟩ := curveDerivative_spec hb hv1 hs hr htol hne hadm 2 a
  obtain ⟨r3, h3, hr3⟩ := curveDerivative_spec hb hv1 hs hr htol hne hadm 3 a
  have hdim : o.dimension = 3 := c16_dimension_of_shape o [b1.numFunctions] 3 hs hr
  unfold torsionData
  simp only [bind, Except.bind, pure, Except.pure, h1, h2, h3, hdim,
    show ¬ ((3 : ℕ) = 2) by decide, if_false, ne_eq, not_true_eq_false]
  congr 2
  rw [← c16_map_range_getD ts (0 : K) (fun u =>
    (dotArr (cross3 (o.specD1 b1 3 u a 1) (o.specD1 b1 3 u a 2)) (o.specD1 b1 3 u a 3),
     sqNorm (cross3 (o.specD1 b1 3 u a 1) (o.specD1 b1 3 u a 2))))]
  apply List.map_congr_left
  intro i hi
  rw [List.mem_range] at hi
  rw [hr1 i hi, hr2 i hi, hr3 i hi]

/-- `torsionData` of a planar curve is the constant answer "planar" (the source returns zeros). -/
theorem torsionData_planar (o : Obj K) (tol : K) (ts : List K) (a : Bool) (h : o.dimension = 2) :
    o.torsionData tol ts a = .ok none := by
  unfold torsionData
  simp [h, pure, Except.pure]

end Obj

/-! ## The composite sums -/

omit [LinearOrder K] [IsStrictOrderedRing K] [FloorRing K] in
theorem gaussSum1_eq_sum (w : List K) (f : ℕ → K) :
    gaussSum1 w f = ∑ i ∈ Finset.range w.length, w.getD i 0 * f i := by
  unfold gaussSum1
  exact foldl_range_add (fun i => w.getD i 0 * f i) w.length

omit [LinearOrder K] [IsStrictOrderedRing K] [FloorRing K] in
theorem gaussSum1_congr (w : List K) (f g : ℕ → K) (h : ∀ i, i < w.length → f i = g i) :
    gaussSum1 w f = gaussSum1 w g := by
  rw [gaussSum1_eq_sum, gaussSum1_eq_sum]
  exact Finset.sum_congr rfl (fun i hi => by rw [h i (Finset.mem_range.mp hi)])

omit [LinearOrder K] [IsStrictOrderedRing K] [FloorRing K] in
theorem gaussSum2_congr (w1 w2 : List K) (f g : ℕ → ℕ → K)
    (h : ∀ i j, i < w1.length → j < w2.length → f i j = g i j) :
    gaussSum2 w1 w2 f = gaussSum2 w1 w2 g :=
  gaussSum1_congr _ _ _ (fun i hi => gaussSum1_congr _ _ _ (fun j hj => h i j hi hj))

omit [LinearOrder K] [IsStrictOrderedRing K] [FloorRing K] in
theorem gaussSum3_congr (w1 w2 w3 : List K) (f g : ℕ → ℕ → ℕ → K)
    (h : ∀ i j k, i < w1.length → j < w2.length → k < w3.length → f i j k = g i j k) :
    gaussSum3 w1 w2 w3 f = gaussSum3 w1 w2 w3 g :=
  gaussSum1_congr _ _ _ (fun i hi => gaussSum1_congr _ _ _ (fun j hj =>
    gaussSum1_congr _ _ _ (fun k hk => h i j k hi hj hk)))

omit [LinearOrder K] [IsStrictOrderedRing K] [FloorRing K] in
/-- Nodes and mapped weights come in equal numbers when the rule has as many weights as nodes. -/
theorem gaussMap_length (spans x w : List K) (h : x.length = w.length) :
    (gaussMap spans x w).1.length = (gaussMap spans x w).2.length := by
  unfold gaussMap
  simp only [List.length_flatMap, List.length_map, h]

namespace Obj

omit [LinearOrder K] [IsStrictOrderedRing K] [FloorRing K] in
theorem basis_of_bases3 {o : Obj K} {b1 b2 b3 : Basis K} (hb : o.bases = #[b1, b2, b3]) :
    o.basis 0 = b1 ∧ o.basis 1 = b2 ∧ o.basis 2 = b3 := by
  unfold basis
  rw [hb]
  exact ⟨rfl, rfl, rfl⟩

omit [LinearOrder K] [IsStrictOrderedRing K] [FloorRing K] in
theorem basis_of_bases2 {o : Obj K} {b1 b2 : Basis K} (hb : o.bases = #[b1, b2]) :
    o.basis 0 = b1 ∧ o.basis 1 = b2 := by
  unfold basis
  rw [hb]
  exact ⟨rfl, rfl⟩

/-- **`Obj.volume` of a non-rational volume** (bridge to the specification).  With the mapped
nodes/weights `(u, W1)`, `(v, W2)`, `(w, W3)` of the three directions (`gaussMap` of the distinct
knots), the model returns the composite sum
`Σ_i Σ_j Σ_k W1_i W2_j W3_k · |det[∂_u x; ∂_v x; ∂_w x](u_i, v_j, w_k)|`
of the absolute Jacobian determinant of the MAP (specification partial derivatives `specD3`). -/
theorem volume_spec {o : Obj K} {b1 b2 b3 : Basis K} (hb : o.bases = #[b1, b2, b3])
    (hv1 : b1.Valid) (hv2 : b2.Valid) (hv3 : b3.Valid)
    (hs : o.cps.shape = [b1.numFunctions, b2.numFunctions, b3.numFunctions, 3])
    (hr : o.rational = false) {tol : K} (htol : 0 < tol) (x1 wt1 x2 wt2 x3 wt3 : List K)
    (hl1 : x1.length = wt1.length) (hl2 : x2.length = wt2.length) (hl3 : x3.length = wt3.length)
    (hadm1 : ∀ u ∈ (gaussMap (b1.knotSpans tol false).toList x1 wt1).1, b1.Admissible tol u)
    (hadm2 : ∀ u ∈ (gaussMap (b2.knotSpans tol false).toList x2 wt2).1, b2.Admissible tol u)
    (hadm3 : ∀ u ∈ (gaussMap (b3.knotSpans tol false).toList x3 wt3).1, b3.Admissible tol u)
    (hneA1 : b1.periodic < 0 → (gaussMap (b1.knotSpans tol false).toList x1 wt1).1 ≠ [] := by (first | assumption | (simp; done) | skip))
    (hneA2 : b2.periodic < 0 → (gaussMap (b2.knotSpans tol false).toList x2 wt2).1 ≠ [] := by (first | assumption | (simp; done) | skip))
    (hneA3 : b3.periodic < 0 → (gaussMap (b3.knotSpans tol false).toList x3 wt3).1 ≠ [] := by (first | assumption | (simp; done) | skip)) :
    o.volume tol x1 wt1 x2 wt2 x3 wt3 = .ok
      (gaussSum3 (gaussMap (b1.knotSpans tol false).toList x1 wt1).2
        (gaussMap (b2.knotSpans tol false).toList x2 wt2).2
        (gaussMap (b3.knotSpans tol false).toList x3 wt3).2 (fun i j k =>
          |jac3
            (o.specD3 b1 b2 b3 3 ((gaussMap (b1.knotSpans tol false).toList x1 wt1).1.getD i 0)
              ((gaussMap (b2.knotSpans tol false).toList x2 wt2).1.getD j 0)
              ((gaussMap (b3.knotSpans tol false).toList x3 wt3).1.getD k 0) 1 0 0)
            (o.specD3 b1 b2 b3 3 ((gaussMap (b1.knotSpans tol false).toList x1 wt1).1.getD i 0)
              ((gaussMap (b2.knotSpans tol false).toList x2 wt2).1.getD j 0)
              ((gaussMap (b3.knotSpans tol false).toList x3 wt3).1.getD k 0) 0 1 0)
            (o.specD3 b1 b2 b3 3 ((gaussMap (b1.knotSpans tol false).toList x1 wt1).1.getD i 0)
              ((gaussMap (b2.knotSpans tol false).toList x2 wt2).1.getD j 0)
              ((gaussMap (b3.knotSpans tol false).toList x3 wt3).1.getD k 0) 0 0 1)|)) := by
  obtain ⟨e0, e1, e2⟩ := basis_of_bases3 hb
  obtain ⟨⟨ru, hru, gu⟩, -⟩ := C03_nonrational_volume hb hv1 hv2 hv3 hs hr htol hadm1 hadm2 hadm3
    1 0 0 true true true
  obtain ⟨⟨rv, hrv, gv⟩, -⟩ := C03_nonrational_volume hb hv1 hv2 hv3 hs hr htol hadm1 hadm2 hadm3
    0 1 0 true true true
  obtain ⟨⟨rw, hrw, gw⟩, -⟩ := C03_nonrational_volume hb hv1 hv2 hv3 hs hr htol hadm1 hadm2 hadm3
    0 0 1 true true true
  have hdim : o.dimension = 3 :=
    c16_dimension_of_shape o [b1.numFunctions, b2.numFunctions, b3.numFunctions] 3 hs hr
  unfold volume
  simp only [e0, e1, e2, bind, Except.bind, pure, Except.pure, hru, hrv, hrw, hdim]
  congr 1
  apply gaussSum3_congr
  intro i j k hi hj hk
  rw [← gaussMap_length _ _ _ hl1] at hi
  rw [← gaussMap_length _ _ _ hl2] at hj
  rw [← gaussMap_length _ _ _ hl3] at hk
  rw [c16_rowAt_eq_ofFn ru 3 _ _ (fun c hc => gu i j k c hi hj hk hc),
    c16_rowAt_eq_ofFn rv 3 _ _ (fun c hc => gv i j k c hi hj hk hc),
    c16_rowAt_eq_ofFn rw 3 _ _ (fun c hc => gw i j k c hi hj hk hc)]
  rfl

/-- The index pairs `(i, j)` of the node grid, row-major. -/
def gridIdx (n1 n2 : ℕ) : List (ℕ × ℕ) :=
  (List.range n1).flatMap (fun i => (List.range n2).map (fun j => (i, j)))

omit [Field K] [LinearOrder K] [IsStrictOrderedRing K] [FloorRing K] in
theorem mem_gridIdx {n1 n2 : ℕ} {p : ℕ × ℕ} (h : p ∈ gridIdx n1 n2) : p.1 < n1 ∧ p.2 < n2 := by
  unfold gridIdx at h
  simp only [List.mem_flatMap, List.mem_range, List.mem_map] at h
  obtain ⟨i, hi, j, hj, rfl⟩ := h
  exact ⟨hi, hj⟩

/-- **`areaData` of a non-rational PLANAR surface** (`nc = 2`): the finished number is the composite
sum `Σ_i Σ_j W1_i W2_j |(∂_u x × ∂_v x)_z (u_i, v_j)|` of the absolute Jacobian of the MAP; the
per-node list holds the same absolute Jacobians. -/
theorem areaData_spec_planar {o : Obj K} {b1 b2 : Basis K} (hb : o.bases = #[b1, b2])
    (hv1 : b1.Valid) (hv2 : b2.Valid)
    (hs : o.cps.shape = [b1.numFunctions, b2.numFunctions, 2]) (hr : o.rational = false) {tol : K}
    (htol : 0 < tol) (x1 wt1 x2 wt2 : List K)
    (hl1 : x1.length = wt1.length) (hl2 : x2.length = wt2.length)
    (hne1 : (gaussMap (b1.knotSpans tol false).toList x1 wt1).1 ≠ [])
    (hne2 : (gaussMap (b2.knotSpans tol false).toList x2 wt2).1 ≠ [])
    (hadm1 : ∀ u ∈ (gaussMap (b1.knotSpans tol false).toList x1 wt1).1, b1.Admissible tol u)
    (hadm2 : ∀ u ∈ (gaussMap (b2.knotSpans tol false).toList x2 wt2).1, b2.Admissible tol u)
    (hneA1 : b1.periodic < 0 → (gaussMap (b1.knotSpans tol false).toList x1 wt1).1 ≠ [] := by (first | assumption | (simp; done) | skip))
    (hneA2 : b2.periodic < 0 → (gaussMap (b2.knotSpans tol false).toList x2 wt2).1 ≠ [] := by (first | assumption | (simp; done) | skip)) :
    let u := (gaussMap (b1.knotSpans tol false).toList x1 wt1).1
    let W1 := (gaussMap (b1.knotSpans tol false).toList x1 wt1).2
    let v := (gaussMap (b2.knotSpans tol false).toList x2 wt2).1
    let W2 := (gaussMap (b2.knotSpans tol false).toList x2 wt2).2
    let J : ℕ → ℕ → K := fun i j =>
      |cross2 (o.specD2 b1 b2 2 (u.getD i 0) (v.getD j 0) 1 0)
              (o.specD2 b1 b2 2 (u.getD i 0) (v.getD j 0) 0 1)|
    o.areaData tol x1 wt1 x2 wt2
      = .ok (W1, W2, (gridIdx u.length v.length).map (fun p => J p.1 p.2), some (gaussSum2 W1 W2 J)) := by
  intro u W1 v W2 J
  obtain ⟨e0, e1⟩ := basis_of_bases2 hb
  obtain ⟨⟨ru, hru, gu⟩, -⟩ := C03_nonrational_surface hb hv1 hv2 hs hr htol hadm1 hadm2 1 0 true true
  obtain ⟨⟨rv, hrv, gv⟩, -⟩ := C03_nonrational_surface hb hv1 hv2 hs hr htol hadm1 hadm2 0 1 true true
  have hdim : o.dimension = 2 :=
    c16_dimension_of_shape o [b1.numFunctions, b2.numFunctions] 2 hs hr
  have hrow : ∀ i j, i < u.length → j < v.length →
      |cross2 (ru.rowAt 2 (i * v.length + j)) (rv.rowAt 2 (i * v.length + j))| = J i j := by
    intro i j hi hj
    rw [c16_rowAt_eq_ofFn ru 2 _ _ (fun c hc => gu i j c hi hj hc),
      c16_rowAt_eq_ofFn rv 2 _ _ (fun c hc => gv i j c hi hj hc)]
    rfl
  unfold areaData
  simp only [e0, e1, bind, Except.bind, pure, Except.pure, throw, throwThe, MonadExceptOf.throw]
  rw [if_neg (by
    rintro (⟨h, -⟩ | ⟨h, -⟩)
    · exact hne1 (List.isEmpty_iff.mp h)
    · exact hne2 (List.isEmpty_iff.mp h))]
  simp only [hru, hrv, hdim, show ¬ ((2 : ℕ) = 3) by decide, if_false, if_true]
  congr 1
  refine Prod.ext rfl (Prod.ext rfl (Prod.ext ?_ ?_))
  · show List.map _ (gridIdx u.length v.length) = _
    apply List.map_congr_left
    intro p hp
    obtain ⟨h1, h2⟩ := mem_gridIdx hp
    exact hrow p.1 p.2 h1 h2
  · show some _ = some _
    congr 1
    apply gaussSum2_congr
    intro i j hi hj
    have hi' : i < u.length := by rw [gaussMap_length _ _ _ hl1]; exact hi
    have hj' : j < v.length := by rw [gaussMap_length _ _ _ hl2]; exact hj
    exact hrow i j hi' hj'

end Obj

end Splipy
