import Splipy.Model.Sections
import Splipy.Lemmas.TensorEval

/-!
# Index algebra for the section / ruled-object models (property C15)

`Tensor.getIdx t idx` reads a multi-index (`ravel` with the tensor's own shape).  This file proves
* `takeAxis_get` / `takeAxis_getIdx`: what `Tensor.takeAxis` (numpy `t[..., j, ...]`) contains;
* `sliceSecFrom_spec`: the control net produced by the slicing loop of `SplineObject.section`;
* `stack2_getIdx`: the control net of a ruled / extruded object (`stack2`).
-/

set_option linter.unusedSectionVars false

namespace Splipy
namespace Tensor

/-- Every index is below the corresponding axis length. -/
abbrev InRange (idx shape : List ℕ) : Prop := List.Forall₂ (fun i n => i < n) idx shape

theorem ravel_nil_left (idx : List ℕ) : ravel [] idx = 0 := by
  cases idx <;> rfl

theorem ravel_cons (n : ℕ) (sh : List ℕ) (i : ℕ) (idx : List ℕ) :
    ravel (n :: sh) (i :: idx) = i * prod sh + ravel sh idx := rfl

theorem ravel_append (A R ia ir : List ℕ) (h : ia.length = A.length) :
    ravel (A ++ R) (ia ++ ir) = ravel A ia * prod R + ravel R ir := by
  induction A generalizing ia with
  | nil =>
    have : ia = [] := List.eq_nil_of_length_eq_zero (by simpa using h)
    subst this
    simp [ravel_nil_left]
  | cons n A ih =>
    cases ia with
    | nil => simp at h
    | cons i ia =>
      have h' : ia.length = A.length := by simpa using h
      simp only [List.cons_append, ravel_cons, ih ia h', prod_append]
      ring

theorem ravel_lt (A ia : List ℕ) (h : InRange ia A) : ravel A ia < prod A := by
  induction h with
  | nil => simp [ravel, prod_nil]
  | @cons i n ia A hin _ ih =>
    rw [ravel_cons, prod_cons]
    calc i * prod A + ravel A ia < i * prod A + prod A := by omega
      _ = (i + 1) * prod A := by ring
      _ ≤ n * prod A := Nat.mul_le_mul_right _ hin

theorem InRange.length_eq {ia A : List ℕ} (h : InRange ia A) : ia.length = A.length :=
  List.Forall₂.length_eq h

theorem inRange_append {ia A ir R : List ℕ} (h1 : InRange ia A) (h2 : InRange ir R) :
    InRange (ia ++ ir) (A ++ R) := by
  induction h1 with
  | nil => simpa using h2
  | cons h _ ih => exact List.Forall₂.cons h ih

variable {K : Type} [Zero K]

/-- Flat read-back of `takeAxis`: entry (outer `a`, inner `i`) is the old entry at position `j`. -/
theorem takeAxis_get (t : Tensor K) (axis j : ℕ) {a i : ℕ}
    (ha : a < prod (t.shape.take axis)) (hi : i < prod (t.shape.drop (axis + 1))) :
    (t.takeAxis axis j).get (a * prod (t.shape.drop (axis + 1)) + i) = t.at3 axis a j i := by
  have := build3_readback t.shape axis 1 (fun a _ i => t.at3 axis a j i) (a := a) (r := 0) (i := i)
    ha Nat.one_pos hi
  simp only [Nat.mul_one, Nat.add_zero] at this
  exact this

theorem takeAxis_shape (t : Tensor K) (A R : List ℕ) (n j : ℕ) (hs : t.shape = A ++ n :: R) :
    (t.takeAxis A.length j).shape = A ++ R := by
  show ((t.shape.set A.length 1).eraseIdx A.length) = A ++ R
  rw [hs]
  simp [List.eraseIdx_append_of_length_le]

/-- The data array of `takeAxis` has exactly the size of its shape. -/
theorem takeAxis_data_size (t : Tensor K) (A R : List ℕ) (n j : ℕ) (hs : t.shape = A ++ n :: R) :
    (t.takeAxis A.length j).data.size = prod A * prod R := by
  unfold takeAxis reindexAxis build3 split3
  simp only [Array.size_ofFn]
  rw [hs]
  simp

/-- Multi-index read-back of `takeAxis`. -/
theorem takeAxis_getIdx (t : Tensor K) (A R : List ℕ) (n j : ℕ) (hs : t.shape = A ++ n :: R)
    (ia ir : List ℕ) (ha : InRange ia A) (hr : InRange ir R) :
    (t.takeAxis A.length j).getIdx (ia ++ ir) = t.getIdx (ia ++ j :: ir) := by
  have hla := ha.length_eq
  unfold getIdx
  rw [takeAxis_shape t A R n j hs, ravel_append A R ia ir hla, hs,
    ravel_append A (n :: R) ia (j :: ir) hla, ravel_cons]
  have htake : t.shape.take A.length = A := by rw [hs]; simp
  have hdrop : t.shape.drop (A.length + 1) = R := by rw [hs]; simp
  have := takeAxis_get t A.length j (a := ravel A ia) (i := ravel R ir)
    (by rw [htake]; exact ravel_lt A ia ha) (by rw [hdrop]; exact ravel_lt R ir hr)
  rw [hdrop] at this
  rw [this]
  unfold at3 split3
  rw [htake, hdrop, hs]
  simp only [List.getD_eq_getElem?_getD, List.getElem?_append_right (le_refl _), Nat.sub_self,
    List.getElem?_cons_zero, Option.getD_some, prod_cons]
  congr 1
  ring

end Tensor

namespace Tensor

variable {K : Type} [Field K]

/-! ## The slicing loop of `section` -/

/-- Axis lengths of the free directions. -/
def freeDims : List (Option ℕ) → List ℕ → List ℕ
  | none :: r, n :: ns => n :: freeDims r ns
  | some _ :: r, _ :: ns => freeDims r ns
  | _, _ => []

/-- Full multi-index: fixed positions from the selector, free positions from `is` in order. -/
def fillIdx : List (Option ℕ) → List ℕ → List ℕ
  | [], _ => []
  | none :: r, i :: is => i :: fillIdx r is
  | none :: _, [] => []
  | some j :: r, is => j :: fillIdx r is

/-- The selected indices are inside the axes. -/
def SelValid : List (Option ℕ) → List ℕ → Prop
  | [], [] => True
  | none :: r, _ :: ns => SelValid r ns
  | some j :: r, n :: ns => j < n ∧ SelValid r ns
  | _, _ => False

theorem sliceSecFrom_spec (sec : List (Option ℕ)) :
    ∀ (A dims T : List ℕ) (t : Tensor K), t.shape = A ++ dims ++ T → SelValid sec dims →
      (Obj.sliceSecFrom A.length sec t).shape = A ++ freeDims sec dims ++ T ∧
      ∀ ia is it, InRange ia A → InRange is (freeDims sec dims) → InRange it T →
        (Obj.sliceSecFrom A.length sec t).getIdx (ia ++ is ++ it)
          = t.getIdx (ia ++ fillIdx sec is ++ it) := by
  induction sec with
  | nil =>
    intro A dims T t hs hv
    cases dims with
    | nil =>
      refine ⟨by simpa [Obj.sliceSecFrom, freeDims] using hs, ?_⟩
      intro ia is it _ his _
      cases his
      simp [Obj.sliceSecFrom, fillIdx]
    | cons n ns => exact absurd hv (by simp [SelValid])
  | cons s r ih =>
    intro A dims T t hs hv
    cases dims with
    | nil => cases s <;> exact absurd hv (by simp [SelValid])
    | cons n ns =>
      have hs' : t.shape = (A ++ [n]) ++ ns ++ T := by simp [hs]
      have hlen : (A ++ [n]).length = A.length + 1 := by simp
      cases s with
      | none =>
        have hv' : SelValid r ns := hv
        obtain ⟨h1, h2⟩ := ih (A ++ [n]) ns T t hs' hv'
        rw [hlen] at h1 h2
        refine ⟨by simpa [Obj.sliceSecFrom, freeDims] using h1, ?_⟩
        intro ia is it hia his hit
        cases his with
        | cons hi his' =>
          rename_i i is0
          have := h2 (ia ++ [i]) is0 it (inRange_append hia (List.Forall₂.cons hi List.Forall₂.nil))
            his' hit
          simpa [Obj.sliceSecFrom, fillIdx] using this
      | some j =>
        obtain ⟨hj, hv'⟩ : j < n ∧ SelValid r ns := hv
        obtain ⟨h1, h2⟩ := ih (A ++ [n]) ns T t hs' hv'
        rw [hlen] at h1 h2
        have hsh : (Obj.sliceSecFrom (A.length + 1) r t).shape = A ++ n :: (freeDims r ns ++ T) := by
          simpa using h1
        refine ⟨?_, ?_⟩
        · have := takeAxis_shape _ A (freeDims r ns ++ T) n j hsh
          simpa [Obj.sliceSecFrom, freeDims] using this
        · intro ia is it hia his hit
          have e := takeAxis_getIdx _ A (freeDims r ns ++ T) n j hsh ia (is ++ it) hia
            (inRange_append his hit)
          have e2 := h2 (ia ++ [j]) is it
            (inRange_append hia (List.Forall₂.cons hj List.Forall₂.nil)) his hit
          simp only [Obj.sliceSecFrom, fillIdx, List.append_assoc, List.cons_append,
            List.nil_append] at e e2 ⊢
          rw [e, e2]

/-! ## `stack2` -/

theorem stack2_shape (a b : Tensor K) (A : List ℕ) (nc : ℕ) (hs : a.shape = A ++ [nc]) :
    (Obj.stack2 a b).shape = A ++ [2, nc] := by
  unfold Obj.stack2
  simp [hs]

/-- Entry `[…, j, c]` of the stacked net is entry `[…, c]` of the first (`j = 0`) or second net. -/
theorem stack2_getIdx (a b : Tensor K) (A : List ℕ) (nc : ℕ) (hs : a.shape = A ++ [nc])
    (hsb : b.shape = A ++ [nc]) (ia : List ℕ) (j c : ℕ) (hia : InRange ia A) (hj : j < 2)
    (hc : c < nc) :
    (Obj.stack2 a b).getIdx (ia ++ [j, c]) = (if j = 0 then a else b).getIdx (ia ++ [c]) := by
  have hla := hia.length_eq
  have hlt := ravel_lt A ia hia
  have hshape := stack2_shape a b A nc hs
  have key : ravel (A ++ [2, nc]) (ia ++ [j, c]) = (ravel A ia * 2 + j) * nc + c := by
    rw [ravel_append A [2, nc] ia [j, c] hla]
    simp [ravel, prod_cons, prod_nil]
    ring
  have key2 : ∀ sh : Tensor K, sh.shape = A ++ [nc] → sh.getIdx (ia ++ [c]) = sh.get (ravel A ia * nc + c) := by
    intro sh hsh
    unfold getIdx
    rw [hsh, ravel_append A [nc] ia [c] hla]
    simp [ravel, prod_cons, prod_nil]
  have hbound : (ravel A ia * 2 + j) * nc + c < prod (A ++ [2, nc]) := by
    have := flat_lt (o := prod A) (m := 2) (inn := nc) hlt hj hc
    simpa [prod_append, prod_cons, prod_nil, Nat.mul_assoc] using this
  unfold getIdx
  rw [hshape, key]
  have hdata : (Obj.stack2 a b).get ((ravel A ia * 2 + j) * nc + c)
      = (if j = 0 then a else b).get (ravel A ia * nc + c) := by
    have hn : prod (a.shape.dropLast ++ [2, a.shape.getLastD 1]) = prod (A ++ [2, nc]) := by
      simp [hs]
    unfold Obj.stack2 Tensor.get
    simp only []
    rw [getD_ofFn _ (by rw [hn]; exact hbound)]
    simp only [hs, List.getLastD_concat]
    rw [flat_mod hc, flat_div_mod hj hc]
    have : ((ravel A ia * 2 + j) * nc + c) / (2 * nc) = ravel A ia := by
      rw [Nat.mul_comm 2 nc]; exact flat_div_div hj hc
    rw [this]
  rw [hdata]
  split_ifs with h0
  · exact (key2 a hs).symm
  · exact (key2 b hsb).symm

end Tensor
end Splipy
