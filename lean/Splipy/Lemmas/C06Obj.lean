import Splipy.Lemmas.C06Knots
import Splipy.Lemmas.C06Spec
import Splipy.Lemmas.C06Tensor

/-!
# C06 — from the executable object model to the defining sums

`toTP o m comp` reads homogeneous component `comp` of the model object `o` (with `m` parametric
directions) as a tensor-product spline `TP K m`: knots `kn` of its bases, control net read by
multi-index from the flat C-order array.  `Agree` is extensional equality of two `TP`s on the
control-net indices that occur in the defining sum.  The bridge theorems say that the model
operations `Obj.reverseSpec` (= `Obj.reverse` on a non-periodic direction), `Obj.swap`,
`Obj.reparamDir` are, read through `toTP`, the operations `TP.reverse`, `TP.perm (swap a b)`,
`TP.reparam` of `Lemmas/C06Spec.lean`.
-/

set_option linter.unusedSectionVars false
set_option linter.unusedSimpArgs false

namespace Splipy.C06

open Splipy Finset

variable {K : Type} [Field K] [LinearOrder K] [IsStrictOrderedRing K]

/-! ## Multi-index lists -/

variable {m : ℕ}

/-- `[I 0, …, I (m-1), c]`: a multi-index of the control array (or its shape). -/
def midx (I : Fin m → ℕ) (c : ℕ) : List ℕ := List.ofFn I ++ [c]

theorem midx_length (I : Fin m → ℕ) (c : ℕ) : (midx I c).length = m + 1 := by
  simp [midx]

theorem midx_getElem? (I : Fin m → ℕ) (c k : ℕ) :
    (midx I c)[k]? = if h : k < m then some (I ⟨k, h⟩) else if k = m then some c else none := by
  unfold midx
  rw [List.getElem?_append, List.length_ofFn]
  by_cases h : k < m
  · simp [h, List.getElem?_ofFn]
  · by_cases h2 : k = m
    · subst h2; simp
    · have : k - m ≠ 0 := by omega
      simp [h, h2]
      omega

theorem midx_getD_lt (I : Fin m → ℕ) (c y : ℕ) (k : Fin m) : (midx I c).getD k y = I k := by
  rw [List.getD_eq_getElem?_getD, midx_getElem?]
  simp [k.isLt]

theorem midx_getD_last (I : Fin m → ℕ) (c y : ℕ) : (midx I c).getD m y = c := by
  rw [List.getD_eq_getElem?_getD, midx_getElem?]
  simp

theorem midx_set (I : Fin m → ℕ) (c : ℕ) (d : Fin m) (x : ℕ) :
    (midx I c).set d x = midx (Function.update I d x) c := by
  apply List.ext_getElem?
  intro k
  rw [List.getElem?_set, midx_getElem?, midx_getElem?, midx_length]
  by_cases hk : (d : ℕ) = k
  · subst hk
    have : (⟨(d : ℕ), d.isLt⟩ : Fin m) = d := rfl
    simp [d.isLt, Nat.lt_succ_of_lt d.isLt]
  · rw [if_neg hk]
    by_cases h : k < m
    · have hne : (⟨k, h⟩ : Fin m) ≠ d := fun e => hk (by rw [← e])
      simp [h, Function.update_of_ne hne]
    · simp [h]

theorem inRange_midx (I n : Fin m → ℕ) (c nc : ℕ) :
    InRange (midx I c) (midx n nc) ↔ (∀ k, I k < n k) ∧ c < nc := by
  rw [inRange_iff, midx_length, midx_length]
  constructor
  · rintro ⟨_, h⟩
    refine ⟨fun k => ?_, ?_⟩
    · have := h k (Nat.lt_succ_of_lt k.isLt)
      rwa [midx_getD_lt, midx_getD_lt] at this
    · have := h m (Nat.lt_succ_self m)
      rwa [midx_getD_last, midx_getD_last] at this
  · rintro ⟨h1, h2⟩
    refine ⟨rfl, fun k hk => ?_⟩
    by_cases h : k < m
    · have := h1 ⟨k, h⟩
      rw [show k = ((⟨k, h⟩ : Fin m) : ℕ) from rfl, midx_getD_lt, midx_getD_lt]
      exact this
    · have : k = m := by omega
      subst this
      rw [midx_getD_last, midx_getD_last]; exact h2

/-- Exchanging two positions below `m` of a multi-index list. -/
theorem swapL_midx (I : Fin m → ℕ) (c : ℕ) (a b : Fin m) (x : ℕ) :
    swapL (midx I c) a b x = midx (fun k => I (Equiv.swap a b k)) c := by
  apply List.ext_getElem?
  intro k
  have ha : (a : ℕ) < (midx I c).length := by rw [midx_length]; exact Nat.lt_succ_of_lt a.isLt
  have hb : (b : ℕ) < (midx I c).length := by rw [midx_length]; exact Nat.lt_succ_of_lt b.isLt
  by_cases hk : k < m + 1
  · have h1 : k < (swapL (midx I c) a b x).length := by rw [swapL_length, midx_length]; exact hk
    have h2 : k < (midx (fun k => I (Equiv.swap a b k)) c).length := by rw [midx_length]; exact hk
    have key : (swapL (midx I c) a b x).getD k 0 = (midx (fun k => I (Equiv.swap a b k)) c).getD k 0 := by
      rw [getD_swapL _ _ _ _ _ _ ha hb]
      by_cases h : k < m
      · rw [show k = ((⟨k, h⟩ : Fin m) : ℕ) from rfl, midx_getD_lt]
        have hsw : sw a b k = ((Equiv.swap a b ⟨k, h⟩ : Fin m) : ℕ) := by
          unfold sw
          rw [Equiv.swap_apply_def]
          simp only [Fin.ext_iff]
          split_ifs <;> rfl
        rw [hsw, midx_getD_lt]
      · have : k = m := by omega
        subst this
        have e : sw a b k = k := by
          unfold sw
          have := a.isLt; have := b.isLt
          split_ifs <;> omega
        rw [e, midx_getD_last, midx_getD_last]
    simpa [List.getD_eq_getElem?_getD, h1, h2] using key
  · have h1 : ¬ k < (swapL (midx I c) a b x).length := by rw [swapL_length, midx_length]; exact hk
    have h2 : ¬ k < (midx (fun k => I (Equiv.swap a b k)) c).length := by rw [midx_length]; exact hk
    simp [h1, h2]

/-! ## Extensional agreement of tensor-product splines -/

namespace TP

/-- Every direction has at least one control point. -/
def Pos (P : TP K m) : Prop := ∀ k, 0 < P.n k

/-- Same knots, degrees, sizes; same control net on the indices below `n`. -/
structure Agree (P P' : TP K m) : Prop where
  τ : P.τ = P'.τ
  q : P.q = P'.q
  nAll : P.nAll = P'.nAll
  n : P.n = P'.n
  c : ∀ J, (∀ k, J k < P.n k) → P.c J = P'.c J

theorem Agree.refl (P : TP K m) : Agree P P := ⟨rfl, rfl, rfl, rfl, fun _ _ => rfl⟩

theorem Agree.trans {P P' P'' : TP K m} (h : Agree P P') (h' : Agree P' P'') : Agree P P'' :=
  ⟨h.τ.trans h'.τ, h.q.trans h'.q, h.nAll.trans h'.nAll, h.n.trans h'.n,
    fun J hJ => (h.c J hJ).trans (h'.c J (by rw [← h.n]; exact hJ))⟩

theorem Agree.pos {P P' : TP K m} (h : Agree P P') (hp : P.Pos) : P'.Pos := by
  intro k; rw [← h.n]; exact hp k

/-- Agreeing splines have the same defining sums. -/
theorem Agree.evalD {P P' : TP K m} (h : Agree P P') (hp : P.Pos) (s : Fin m → Side) (α : Fin m → ℕ)
    (u : Fin m → K) : P.evalD s α u = P'.evalD s α u := by
  obtain ⟨hτ, hq, hnAll, hn, hc⟩ := h
  cases P; cases P'
  simp only at hτ hq hnAll hn hc
  subst hτ hq hnAll hn
  unfold TP.evalD
  apply sum_congr rfl
  intro I _
  simp only
  rw [hc _ (fun k => Nat.mod_lt _ (hp k))]

theorem Agree.eval {P P' : TP K m} (h : Agree P P') (hp : P.Pos) (s : Fin m → Side) (u : Fin m → K) :
    P.eval s u = P'.eval s u := h.evalD hp s _ u

theorem Pos.apply {P : TP K m} (hp : P.Pos) (op : TOp K m) : (P.apply op).Pos := by
  intro k
  cases op with
  | reverse d => exact hp k
  | swap a b => exact hp _
  | reparam d s e => exact hp k

/-- The operations respect agreement. -/
theorem Agree.apply {P P' : TP K m} (h : Agree P P') (hp : P.Pos) (op : TOp K m) :
    Agree (P.apply op) (P'.apply op) := by
  obtain ⟨hτ, hq, hnAll, hn, hc⟩ := h
  cases P; cases P'
  simp only at hτ hq hnAll hn hc
  subst hτ hq hnAll hn
  cases op with
  | reverse d =>
    refine ⟨rfl, rfl, rfl, rfl, ?_⟩
    intro J hJ
    apply hc
    intro k
    by_cases hk : k = d
    · subst hk; rw [Function.update_self]; exact Nat.mod_lt _ (hp k)
    · rw [Function.update_of_ne hk]; exact hJ k
  | swap a b =>
    refine ⟨rfl, rfl, rfl, rfl, ?_⟩
    intro J hJ
    apply hc
    intro k
    have := hJ ((Equiv.swap a b).symm k)
    simpa [TP.apply, TP.perm] using this
  | reparam d s e =>
    exact ⟨rfl, rfl, rfl, rfl, fun J hJ => hc J hJ⟩

theorem Agree.run {P P' : TP K m} (h : Agree P P') (hp : P.Pos) (ops : List (TOp K m)) :
    Agree (TP.run ops P) (TP.run ops P') ∧ (TP.run ops P).Pos := by
  induction ops generalizing P P' with
  | nil => exact ⟨h, hp⟩
  | cons op ops ih => exact ih (h.apply hp op) (hp.apply op)

end TP

/-! ## Reading a model object as a tensor-product spline -/

/-- Homogeneous component `comp` of the model object `o` with `m` parametric directions. -/
def toTP (o : Obj K) (m : ℕ) (comp : ℕ) : TP K m :=
  { τ := fun d => (o.basis d).kn, q := fun d => (o.basis d).order - 1, nAll := fun d => (o.basis d).nAll,
    n := fun d => (o.basis d).numFunctions, c := fun I => getIdx o.cps (midx I comp) }

/-- Well-formed object: `m` valid bases, control array of shape `n₀ × … × n_{m-1} × ncomp`. -/
structure WF (o : Obj K) (m : ℕ) : Prop where
  size : o.bases.size = m
  valid : ∀ d : Fin m, (o.basis d).Valid
  shape : o.cps.shape = midx (fun d : Fin m => (o.basis d).numFunctions) o.ncomp

theorem valid_nAll_eq {b : Basis K} (hv : b.Valid) : b.nAll = b.numFunctions + (b.periodic + 1).toNat := by
  have h1 := hv.order_pos; have h2 := hv.size_ge; have h3 := hv.periodic_ge; have h4 := hv.periodic_le
  unfold Basis.nAll Basis.numFunctions
  omega

theorem valid_numFunctions_pos {b : Basis K} (hv : b.Valid) : 0 < b.numFunctions := by
  have h1 := hv.order_pos; have h2 := hv.size_ge; have h3 := hv.periodic_ge; have h4 := hv.periodic_le
  unfold Basis.numFunctions
  omega

theorem valid_nAll_add_q {b : Basis K} (hv : b.Valid) : b.nAll + (b.order - 1) = b.knots.size - 1 := by
  have h1 := hv.order_pos; have h2 := hv.size_ge
  unfold Basis.nAll
  omega

theorem toTP_pos {o : Obj K} (hw : WF o m) (comp : ℕ) : (toTP o m comp).Pos :=
  fun k => valid_numFunctions_pos (hw.valid k)

theorem toTP_dom {o : Obj K} (hw : WF o m) (comp : ℕ) : (toTP o m comp).Dom :=
  fun k => (hw.valid k).start_lt_stop

/-- `basis` after replacing one basis. -/
theorem basis_set_self (o : Obj K) (cps : Tensor K) (d : ℕ) (b : Basis K) (hd : d < o.bases.size) :
    ({ o with bases := o.bases.set! d b, cps := cps } : Obj K).basis d = b := by
  simp [Obj.basis, Array.getD_eq_getD_getElem?, Array.getElem?_setIfInBounds, hd]

theorem basis_set_ne (o : Obj K) (cps : Tensor K) (d k : ℕ) (b : Basis K) (h : d ≠ k) :
    ({ o with bases := o.bases.set! d b, cps := cps } : Obj K).basis k = o.basis k := by
  simp [Obj.basis, Array.getD_eq_getD_getElem?, Array.getElem?_setIfInBounds, h]

theorem shape_set_self {o : Obj K} (hw : WF o m) (d : Fin m) :
    o.cps.shape.set d (o.cps.shape.getD d 1) = o.cps.shape := by
  rw [hw.shape, midx_getD_lt, midx_set, Function.update_eq_self]

theorem ncomp_of_shape (o : Obj K) (n : Fin m → ℕ) (c : ℕ) (h : o.cps.shape = midx n c) : o.ncomp = c := by
  unfold Obj.ncomp
  rw [h]
  unfold midx
  exact List.getLastD_concat

/-- Reading an entry of the control array re-indexed along direction `d`. -/
theorem getIdx_reindex_midx {o : Obj K} (hw : WF o m) (d : Fin m) (g : ℕ → ℕ) (J : Fin m → ℕ) (comp : ℕ)
    (hJ : ∀ k, J k < (o.basis k).numFunctions) (hc : comp < o.ncomp) :
    getIdx (o.cps.reindexAxis d (o.cps.shape.getD d 1) g) (midx J comp)
      = getIdx o.cps (midx (Function.update J d (g (J d))) comp) := by
  have hd : (d : ℕ) < o.cps.shape.length := by rw [hw.shape, midx_length]; exact Nat.lt_succ_of_lt d.isLt
  rw [getIdx_reindexAxis o.cps d _ g (midx J comp) hd
    (by rw [shape_set_self hw, hw.shape, inRange_midx]; exact ⟨hJ, hc⟩), midx_getD_lt, midx_set]

/-! ## The bridge theorems -/

theorem fin_val_ne {a b : Fin m} (h : a ≠ b) : (a : ℕ) ≠ (b : ℕ) := fun e => h (Fin.ext e)

/-- `Obj.reverseSpec` is `TP.reverse` (every direction, periodic or not). -/
theorem toTP_reverseSpec {o : Obj K} (hw : WF o m) (d : Fin m) (comp : ℕ) (hc : comp < o.ncomp) :
    TP.Agree (toTP (o.reverseSpec d) m comp) ((toTP o m comp).reverse d) := by
  have hd : (d : ℕ) < o.bases.size := by rw [hw.size]; exact d.isLt
  have hv := hw.valid d
  have hbd : (o.reverseSpec d).basis d = (o.basis d).reverse := basis_set_self o _ d _ hd
  have hbk : ∀ k : Fin m, k ≠ d → (o.reverseSpec d).basis k = o.basis k :=
    fun k hk => basis_set_ne o _ d k _ (fin_val_ne (Ne.symm hk))
  refine ⟨?_, ?_, ?_, ?_, ?_⟩
  · funext k
    by_cases hk : k = d
    · subst hk
      show ((o.reverseSpec k).basis k).kn = ((toTP o m comp).reverse k).τ k
      rw [hbd]
      funext j
      rw [reverse_kn _ (valid_size_pos hv) (valid_ne hv)]
      simp only [TP.reverse, Function.update_self, reflKnots]
      show _ = (o.basis k).start + (o.basis k).stop - (o.basis k).kn ((o.basis k).nAll + ((o.basis k).order - 1) - j)
      rw [valid_nAll_add_q hv]
    · show ((o.reverseSpec d).basis k).kn = ((toTP o m comp).reverse d).τ k
      rw [hbk k hk]
      simp only [TP.reverse, Function.update_of_ne hk]
      rfl
  · funext k
    by_cases hk : k = d
    · subst hk; show ((o.reverseSpec k).basis k).order - 1 = _; rw [hbd]; rfl
    · show ((o.reverseSpec d).basis k).order - 1 = _; rw [hbk k hk]; rfl
  · funext k
    by_cases hk : k = d
    · subst hk; show ((o.reverseSpec k).basis k).nAll = _; rw [hbd, reverse_nAll]; rfl
    · show ((o.reverseSpec d).basis k).nAll = _; rw [hbk k hk]; rfl
  · funext k
    by_cases hk : k = d
    · subst hk; show ((o.reverseSpec k).basis k).numFunctions = _; rw [hbd, reverse_numFunctions]; rfl
    · show ((o.reverseSpec d).basis k).numFunctions = _; rw [hbk k hk]; rfl
  · intro J hJ
    have hJ' : ∀ k, J k < (o.basis k).numFunctions := by
      intro k
      have := hJ k
      change ((o.reverseSpec d).basis k).numFunctions > J k at this
      by_cases hk : k = d
      · subst hk; rw [hbd, reverse_numFunctions] at this; exact this
      · rw [hbk k hk] at this; exact this
    show getIdx (o.reverseSpec d).cps (midx J comp) = _
    have hn : o.cps.shape.getD d 1 = (o.basis d).numFunctions := by rw [hw.shape, midx_getD_lt]
    have := getIdx_reindex_midx hw d
      (fun j => (o.cps.shape.getD d 1 + ((o.basis d).periodic + 1).toNat - 1 - j) % o.cps.shape.getD d 1)
      J comp hJ' hc
    unfold Obj.reverseSpec
    simp only []
    rw [this]
    simp only [TP.reverse, toTP]
    rw [hn, valid_nAll_eq hv]

/-- The code's `reverse` (flip, then roll by `k+1` on a periodic direction) is exactly the
    correspondence the property requires: the two model objects are equal, on every direction. -/
theorem reverse_eq_reverseSpec (o : Obj K) (d : ℕ) : o.reverse d = o.reverseSpec d := by
  unfold Obj.reverse Obj.reverseSpec
  simp only []
  congr 1
  by_cases hp : (o.basis d).periodic > -1
  · rw [if_pos hp]
    unfold Tensor.rollAxisPos Tensor.flipAxis
    simp only []
    have hsh : (o.cps.reindexAxis d (o.cps.shape.getD d 1) fun r => o.cps.shape.getD d 1 - 1 - r).shape
        = o.cps.shape := set_getD_self o.cps.shape d 1
    rw [hsh]
    apply reindexAxis_reindexAxis
    · intro r hr
      exact Nat.mod_lt _ (by omega)
    · intro r hr
      exact roll_flip_idx _ _ r hr
  · rw [if_neg hp]
    have e3 : ((o.basis d).periodic + 1).toNat = 0 := by omega
    rw [e3, Nat.add_zero]
    unfold Tensor.flipAxis
    apply reindexAxis_congr
    intro r hr
    rw [Nat.mod_eq_of_lt (by omega)]

/-- The code's `Obj.reverse` is `TP.reverse` (every direction, periodic or not). -/
theorem toTP_reverse {o : Obj K} (hw : WF o m) (d : Fin m) (comp : ℕ) (hc : comp < o.ncomp) :
    TP.Agree (toTP (o.reverse d) m comp) ((toTP o m comp).reverse d) := by
  rw [reverse_eq_reverseSpec]
  exact toTP_reverseSpec hw d comp hc

/-- `basis` after `swap`. -/
theorem basis_swap (o : Obj K) (hs : o.bases.size = m) (a b k : Fin m) :
    (o.swap a b).basis k = o.basis (Equiv.swap a b k) := by
  have ha : (a : ℕ) < o.bases.size := by rw [hs]; exact a.isLt
  have hb : (b : ℕ) < o.bases.size := by rw [hs]; exact b.isLt
  rw [Equiv.swap_apply_def]
  unfold Obj.swap
  simp only []
  by_cases hkb : k = b
  · subst hkb
    by_cases hka : k = a
    · subst hka
      simp [Obj.basis, Array.getD_eq_getD_getElem?, Array.getElem?_setIfInBounds, ha]
    · have : (a : ℕ) ≠ k := fin_val_ne (Ne.symm hka)
      simp [Obj.basis, Array.getD_eq_getD_getElem?, Array.getElem?_setIfInBounds, ha, hb, hka]
  · have n1 : (b : ℕ) ≠ k := fin_val_ne (Ne.symm hkb)
    by_cases hka : k = a
    · subst hka
      simp [Obj.basis, Array.getD_eq_getD_getElem?, Array.getElem?_setIfInBounds, ha, hb, n1]
    · have n2 : (a : ℕ) ≠ k := fin_val_ne (Ne.symm hka)
      simp [Obj.basis, Array.getD_eq_getD_getElem?, Array.getElem?_setIfInBounds, n1, n2, hka, hkb]

/-- `Obj.swap` is `TP.perm` of the transposition. -/
theorem toTP_swap {o : Obj K} (hw : WF o m) (a b : Fin m) (comp : ℕ) (hc : comp < o.ncomp) :
    TP.Agree (toTP (o.swap a b) m comp) ((toTP o m comp).perm (Equiv.swap a b)) := by
  have hb := basis_swap o hw.size a b
  refine ⟨?_, ?_, ?_, ?_, ?_⟩
  · funext k; show ((o.swap a b).basis k).kn = _; rw [hb]; rfl
  · funext k; show ((o.swap a b).basis k).order - 1 = _; rw [hb]; rfl
  · funext k; show ((o.swap a b).basis k).nAll = _; rw [hb]; rfl
  · funext k; show ((o.swap a b).basis k).numFunctions = _; rw [hb]; rfl
  · intro J hJ
    have hJ' : ∀ k, J (Equiv.swap a b k) < (o.basis k).numFunctions := by
      intro k
      have := hJ (Equiv.swap a b k)
      change J (Equiv.swap a b k) < ((o.swap a b).basis (Equiv.swap a b k)).numFunctions at this
      rwa [hb, Equiv.swap_apply_self] at this
    show getIdx (o.cps.swapAxes a b) (midx J comp) = getIdx o.cps (midx (fun k => J ((Equiv.swap a b).symm k)) comp)
    have hlen : o.cps.shape.length = m + 1 := by rw [hw.shape, midx_length]
    have := getIdx_swapAxes o.cps a b (midx (fun k => J (Equiv.swap a b k)) comp)
      (by rw [hlen]; exact Nat.lt_succ_of_lt a.isLt) (by rw [hlen]; exact Nat.lt_succ_of_lt b.isLt)
      (by rw [hw.shape, inRange_midx]; exact ⟨hJ', hc⟩)
    rw [swapL_midx] at this
    simp only [Equiv.swap_apply_self] at this
    rw [this, Equiv.symm_swap]

/-- The successful branch of `Obj.reparamDir`. -/
def reparamObj (o : Obj K) (d : ℕ) (s e : K) : Obj K :=
  { o with bases := o.bases.set! d (reparamOk (o.basis d) s e) }

theorem reparamDir_ok (o : Obj K) (d : ℕ) {s e : K} (h : s < e) : o.reparamDir d s e = .ok (reparamObj o d s e) := by
  unfold Obj.reparamDir
  rw [reparam_ok _ h]
  rfl

theorem reparamDir_error (o : Obj K) (d : ℕ) {s e : K} (h : e ≤ s) : o.reparamDir d s e = .error .value := by
  unfold Obj.reparamDir
  rw [reparam_error _ h]
  rfl

/-- `Obj.reparamDir` is `TP.reparam`. -/
theorem toTP_reparam {o : Obj K} (hw : WF o m) (d : Fin m) (s e : K) (comp : ℕ) :
    TP.Agree (toTP (reparamObj o d s e) m comp) ((toTP o m comp).reparam d s e) := by
  have hd : (d : ℕ) < o.bases.size := by rw [hw.size]; exact d.isLt
  have hv := hw.valid d
  have hbd : (reparamObj o d s e).basis d = reparamOk (o.basis d) s e := basis_set_self o o.cps d _ hd
  have hbk : ∀ k : Fin m, k ≠ d → (reparamObj o d s e).basis k = o.basis k :=
    fun k hk => basis_set_ne o o.cps d k _ (fin_val_ne (Ne.symm hk))
  refine ⟨?_, ?_, ?_, ?_, fun J _ => rfl⟩
  · funext k
    by_cases hk : k = d
    · subst hk
      show ((reparamObj o k s e).basis k).kn = _
      rw [hbd]
      funext j
      rw [reparamOk_kn_affine _ (valid_size_pos hv)]
      simp only [TP.reparam, Function.update_self]
      rfl
    · show ((reparamObj o d s e).basis k).kn = _
      rw [hbk k hk]
      simp only [TP.reparam, Function.update_of_ne hk]
      rfl
  · funext k
    by_cases hk : k = d
    · subst hk; show ((reparamObj o k s e).basis k).order - 1 = _; rw [hbd]; rfl
    · show ((reparamObj o d s e).basis k).order - 1 = _; rw [hbk k hk]; rfl
  · funext k
    by_cases hk : k = d
    · subst hk; show ((reparamObj o k s e).basis k).nAll = _; rw [hbd]; unfold Basis.nAll; rw [reparamOk_size]; rfl
    · show ((reparamObj o d s e).basis k).nAll = _; rw [hbk k hk]; rfl
  · funext k
    by_cases hk : k = d
    · subst hk; show ((reparamObj o k s e).basis k).numFunctions = _; rw [hbd, reparamOk_numFunctions]; rfl
    · show ((reparamObj o d s e).basis k).numFunctions = _; rw [hbk k hk]; rfl

/-! ## Well-formedness is preserved; histories on the model -/

theorem wf_of_shape {o o' : Obj K} (_hw : WF o m) (hsize : o'.bases.size = m)
    (hvalid : ∀ d : Fin m, (o'.basis d).Valid)
    (hshape : o'.cps.shape = midx (fun d : Fin m => (o'.basis d).numFunctions) o.ncomp) :
    WF o' m ∧ o'.ncomp = o.ncomp := by
  have hn := ncomp_of_shape o' _ _ hshape
  exact ⟨⟨hsize, hvalid, by rw [hn]; exact hshape⟩, hn⟩

theorem wf_reverseSpec {o : Obj K} (hw : WF o m) (d : Fin m) :
    WF (o.reverseSpec d) m ∧ (o.reverseSpec d).ncomp = o.ncomp := by
  have hd : (d : ℕ) < o.bases.size := by rw [hw.size]; exact d.isLt
  have hbd : (o.reverseSpec d).basis d = (o.basis d).reverse := basis_set_self o _ d _ hd
  have hbk : ∀ k : Fin m, k ≠ d → (o.reverseSpec d).basis k = o.basis k :=
    fun k hk => basis_set_ne o _ d k _ (fin_val_ne (Ne.symm hk))
  apply wf_of_shape hw
  · show (o.bases.set! d _).size = m
    simp [hw.size]
  · intro k
    by_cases hk : k = d
    · subst hk; rw [hbd]; exact reverse_valid (hw.valid k)
    · rw [hbk k hk]; exact hw.valid k
  · show o.cps.shape.set d (o.cps.shape.getD d 1) = _
    rw [shape_set_self hw, hw.shape]
    congr 1
    funext k
    by_cases hk : k = d
    · subst hk; rw [hbd, reverse_numFunctions]
    · rw [hbk k hk]

theorem wf_swap {o : Obj K} (hw : WF o m) (a b : Fin m) :
    WF (o.swap a b) m ∧ (o.swap a b).ncomp = o.ncomp := by
  have hb := basis_swap o hw.size a b
  apply wf_of_shape hw
  · show ((o.bases.set! a _).set! b _).size = m
    simp [hw.size]
  · intro k; rw [hb]; exact hw.valid _
  · have e : (fun k : Fin m => ((o.swap a b).basis k).numFunctions)
        = fun k => (o.basis (Equiv.swap a b k)).numFunctions := by
      funext k; rw [hb]
    rw [e]
    refine Eq.trans ?_ (swapL_midx (fun d : Fin m => (o.basis d).numFunctions) o.ncomp a b 1)
    rw [← hw.shape]
    show (o.cps.swapAxes a b).shape = _
    unfold Tensor.swapAxes
    by_cases hab : (a : ℕ) = b
    · rw [if_pos hab, hab]
      have hbl : (b : ℕ) < o.cps.shape.length := by rw [hw.shape, midx_length]; exact Nat.lt_succ_of_lt b.isLt
      apply List.ext_getElem?
      intro k
      have := getD_swapL o.cps.shape b b 1 0 k hbl hbl
      have e : sw b b k = k := by unfold sw; split_ifs <;> omega
      rw [e] at this
      by_cases hk : k < o.cps.shape.length
      · have h2 : k < (swapL o.cps.shape b b 1).length := by rw [swapL_length]; exact hk
        simpa [List.getD_eq_getElem?_getD, hk, h2] using this.symm
      · have h2 : ¬ k < (swapL o.cps.shape b b 1).length := by rw [swapL_length]; exact hk
        simp [hk, h2]
    · rw [if_neg hab]
      rfl

theorem wf_reparamObj {o : Obj K} (hw : WF o m) (d : Fin m) {s e : K} (h : s < e) :
    WF (reparamObj o d s e) m ∧ (reparamObj o d s e).ncomp = o.ncomp := by
  have hd : (d : ℕ) < o.bases.size := by rw [hw.size]; exact d.isLt
  have hbd : (reparamObj o d s e).basis d = reparamOk (o.basis d) s e := basis_set_self o o.cps d _ hd
  have hbk : ∀ k : Fin m, k ≠ d → (reparamObj o d s e).basis k = o.basis k :=
    fun k hk => basis_set_ne o o.cps d k _ (fin_val_ne (Ne.symm hk))
  apply wf_of_shape hw
  · show (o.bases.set! d _).size = m
    simp [hw.size]
  · intro k
    by_cases hk : k = d
    · subst hk; rw [hbd]; exact reparamOk_valid (hw.valid k) h
    · rw [hbk k hk]; exact hw.valid k
  · show o.cps.shape = _
    rw [hw.shape]
    congr 1
    funext k
    by_cases hk : k = d
    · subst hk; rw [hbd, reparamOk_numFunctions]
    · rw [hbk k hk]

/-- One operation on the model object (the model of the code: `Obj.reverse`, `Obj.swap`,
    successful `Obj.reparamDir`). -/
def applyM (o : Obj K) : TOp K m → Obj K
  | .reverse d => o.reverse d
  | .swap a b => o.swap a b
  | .reparam d s e => reparamObj o d s e

/-- A history on the model object. -/
def runM : List (TOp K m) → Obj K → Obj K
  | [], o => o
  | op :: ops, o => runM ops (applyM o op)

theorem toTP_applyM {o : Obj K} (hw : WF o m) (op : TOp K m) (hop : op.WF) (comp : ℕ) (hc : comp < o.ncomp) :
    TP.Agree (toTP (applyM o op) m comp) ((toTP o m comp).apply op)
      ∧ WF (applyM o op) m ∧ (applyM o op).ncomp = o.ncomp := by
  cases op with
  | reverse d =>
    show TP.Agree (toTP (o.reverse d) m comp) _ ∧ WF (o.reverse d) m ∧ (o.reverse d).ncomp = o.ncomp
    rw [reverse_eq_reverseSpec]
    exact ⟨toTP_reverseSpec hw d comp hc, wf_reverseSpec hw d⟩
  | swap a b => exact ⟨toTP_swap hw a b comp hc, wf_swap hw a b⟩
  | reparam d s e => exact ⟨toTP_reparam hw d s e comp, wf_reparamObj hw d hop⟩

/-- A model history is the abstract history: bookkeeping of knot vectors and control nets. -/
theorem toTP_runM (ops : List (TOp K m)) {o : Obj K} (hw : WF o m) (hops : ∀ op ∈ ops, op.WF)
    (comp : ℕ) (hc : comp < o.ncomp) :
    TP.Agree (toTP (runM ops o) m comp) (TP.run ops (toTP o m comp))
      ∧ WF (runM ops o) m ∧ (runM ops o).ncomp = o.ncomp := by
  induction ops generalizing o with
  | nil => exact ⟨TP.Agree.refl _, hw, rfl⟩
  | cons op ops ih =>
    have hop : op.WF := hops op (List.mem_cons_self ..)
    have hrest : ∀ o ∈ ops, o.WF := fun o ho => hops o (List.mem_cons_of_mem _ ho)
    obtain ⟨h1, h2, h3⟩ := toTP_applyM hw op hop comp hc
    obtain ⟨g1, g2, g3⟩ := ih h2 hrest (by rw [h3]; exact hc)
    refine ⟨?_, g2, g3.trans h3⟩
    show TP.Agree (toTP (runM ops (applyM o op)) m comp) (TP.run ops ((toTP o m comp).apply op))
    exact g1.trans (h1.run (toTP_pos h2 comp) ops).1

/-! ## Involution / inverse at object level -/

/-- `reverseSpec ∘ reverseSpec`: the basis is restored and every entry of the control array. -/
theorem reverseSpec_reverseSpec {o : Obj K} (hw : WF o m) (d : Fin m) (J : Fin m → ℕ) (comp : ℕ)
    (hJ : ∀ k, J k < (o.basis k).numFunctions) (hc : comp < o.ncomp) :
    (∀ k : Fin m, ((o.reverseSpec d).reverseSpec d).basis k = o.basis k)
    ∧ getIdx ((o.reverseSpec d).reverseSpec d).cps (midx J comp) = getIdx o.cps (midx J comp) := by
  obtain ⟨hw', hn'⟩ := wf_reverseSpec hw d
  have hd : (d : ℕ) < o.bases.size := by rw [hw.size]; exact d.isLt
  have hd' : (d : ℕ) < (o.reverseSpec d).bases.size := by rw [hw'.size]; exact d.isLt
  have hbd : (o.reverseSpec d).basis d = (o.basis d).reverse := basis_set_self o _ d _ hd
  have hbk : ∀ k : Fin m, k ≠ d → (o.reverseSpec d).basis k = o.basis k :=
    fun k hk => basis_set_ne o _ d k _ (fin_val_ne (Ne.symm hk))
  have hbd' : ((o.reverseSpec d).reverseSpec d).basis d = ((o.reverseSpec d).basis d).reverse :=
    basis_set_self (o.reverseSpec d) _ d _ hd'
  have hbk' : ∀ k : Fin m, k ≠ d → ((o.reverseSpec d).reverseSpec d).basis k = (o.reverseSpec d).basis k :=
    fun k hk => basis_set_ne (o.reverseSpec d) _ d k _ (fin_val_ne (Ne.symm hk))
  constructor
  · intro k
    by_cases hk : k = d
    · subst hk; rw [hbd', hbd, reverse_reverse (hw.valid k)]
    · rw [hbk' k hk, hbk k hk]
  · have hJ1 : ∀ k, J k < ((o.reverseSpec d).basis k).numFunctions := by
      intro k
      by_cases hk : k = d
      · subst hk; rw [hbd, reverse_numFunctions]; exact hJ k
      · rw [hbk k hk]; exact hJ k
    have hn : o.cps.shape.getD d 1 = (o.basis d).numFunctions := by rw [hw.shape, midx_getD_lt]
    have hn1 : (o.reverseSpec d).cps.shape.getD d 1 = (o.basis d).numFunctions := by
      rw [hw'.shape, midx_getD_lt, hbd, reverse_numFunctions]
    set g1 : ℕ → ℕ := fun j => ((o.reverseSpec d).cps.shape.getD d 1
        + (((o.reverseSpec d).basis d).periodic + 1).toNat - 1 - j) % (o.reverseSpec d).cps.shape.getD d 1 with hg1
    set g0 : ℕ → ℕ := fun j => (o.cps.shape.getD d 1 + ((o.basis d).periodic + 1).toNat - 1 - j)
        % o.cps.shape.getD d 1 with hg0
    have e1 := getIdx_reindex_midx hw' d g1 J comp hJ1 (by rw [hn']; exact hc)
    have hJ2 : ∀ k, (Function.update J d (g1 (J d))) k < (o.basis k).numFunctions := by
      intro k
      by_cases hk : k = d
      · subst hk
        rw [Function.update_self, hg1]
        simp only [hn1]
        exact Nat.mod_lt _ (valid_numFunctions_pos (hw.valid k))
      · rw [Function.update_of_ne hk]; exact hJ k
    have e0 := getIdx_reindex_midx hw d g0 (Function.update J d (g1 (J d))) comp hJ2 hc
    have e1' : getIdx ((o.reverseSpec d).reverseSpec d).cps (midx J comp)
        = getIdx (o.reverseSpec d).cps (midx (Function.update J d (g1 (J d))) comp) := e1
    have e0' : getIdx (o.reverseSpec d).cps (midx (Function.update J d (g1 (J d))) comp)
        = getIdx o.cps (midx (Function.update (Function.update J d (g1 (J d))) d
            (g0 ((Function.update J d (g1 (J d))) d))) comp) := e0
    rw [e1', e0', Function.update_self, Function.update_idem]
    have hk1 : g0 (g1 (J d)) = J d := by
      rw [hg0, hg1]
      simp only [hn, hn1, hbd, reverse_periodic]
      have hJd := hJ d
      rw [rev_idx_invol _ _ _ (by omega), Nat.mod_eq_of_lt hJd]
    rw [hk1, Function.update_eq_self]

theorem array_set_set_getD (a : Array (Basis K)) (d : ℕ) (x : Basis K) :
    (a.set! d x).set! d (a.getD d default) = a := by
  apply Array.ext
  · simp
  · intro i h1 h2
    by_cases h : d = i
    · subst h
      simp [Array.getD_eq_getD_getElem?, h2]
    · simp only [Array.set!_eq_setIfInBounds]
      rw [Array.getElem_setIfInBounds_ne (by simpa using h2) h, Array.getElem_setIfInBounds_ne h2 h]

/-- Re-parametrising a direction back to its old interval restores the object. -/
theorem reparamObj_back {o : Obj K} (hw : WF o m) (d : Fin m) {s e : K} (h : s < e) :
    reparamObj (reparamObj o d s e) d (o.basis d).start (o.basis d).stop = o := by
  have hd : (d : ℕ) < o.bases.size := by rw [hw.size]; exact d.isLt
  have hbd : (reparamObj o d s e).basis d = reparamOk (o.basis d) s e := basis_set_self o o.cps d _ hd
  unfold reparamObj at hbd ⊢
  simp only [hbd, reparamOk_back (hw.valid d) h]
  have := array_set_set_getD o.bases d (reparamOk (o.basis d) s e)
  cases o
  simp only [Obj.basis] at this ⊢
  simp only [Obj.mk.injEq, and_true]
  exact this

/-! ## The parameter map only depends on the knot vectors (numerator and weight share it) -/

namespace TP

/-- Same knots, degrees and sizes (any control nets). -/
def SameGrid (P P' : TP K m) : Prop := P.τ = P'.τ ∧ P.q = P'.q ∧ P.nAll = P'.nAll ∧ P.n = P'.n

theorem SameGrid.apply {P P' : TP K m} (h : SameGrid P P') (op : TOp K m) :
    SameGrid (P.apply op) (P'.apply op) ∧ op.paramMap P = op.paramMap P' := by
  obtain ⟨hτ, hq, hnAll, hn⟩ := h
  cases P; cases P'
  simp only at hτ hq hnAll hn
  subst hτ hq hnAll hn
  cases op <;> exact ⟨⟨rfl, rfl, rfl, rfl⟩, rfl⟩

theorem SameGrid.paramOps {P P' : TP K m} (h : SameGrid P P') (ops : List (TOp K m)) (u : Fin m → K) :
    TP.paramOps ops P u = TP.paramOps ops P' u := by
  induction ops generalizing P P' u with
  | nil => rfl
  | cons op ops ih =>
    obtain ⟨h1, h2⟩ := h.apply op
    show TP.paramOps ops (P.apply op) (op.paramMap P u) = TP.paramOps ops (P'.apply op) (op.paramMap P' u)
    rw [h2, ih h1]

end TP

theorem toTP_sameGrid (o : Obj K) (m comp w : ℕ) : TP.SameGrid (toTP o m comp) (toTP o m w) :=
  ⟨rfl, rfl, rfl, rfl⟩

end Splipy.C06
