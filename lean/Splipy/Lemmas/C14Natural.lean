import Splipy.Lemmas.C14Free
import Splipy.Lemmas.C14Lsq
set_option linter.unusedSectionVars false
set_option linter.unusedSimpArgs false

/-!
# C14: `cubic_curve(…, NATURAL)` — the assembled system and its solvability

Knot vector `t₀⁴, t₁ … t_{n−2}, t_{n−1}⁴`; `n` interpolation rows and the two rows `s''(t₀) = 0`,
`s''(t_{n−1}) = 0`.  Solvability follows from uniqueness of the natural spline (`natural_unique`,
energy argument, Lemmas/C14Energy.lean).
-/

namespace Splipy
open Finset
namespace Interp
variable {K : Type} [Field K] [LinearOrder K] [IsStrictOrderedRing K]

/-- Which data parameter the `i`-th knot of the NATURAL knot vector is (`n` = number of points). -/
def natIdx (n i : ℕ) : ℕ := if i < 3 then 0 else if i < n + 3 then i - 3 else n - 1

/-- The basis `cubic_curve` builds for `NATURAL` (and `TANGENT`, `TANGENTNATURAL`) from
`t = a :: (mid ++ [d])`. -/
def natBasis (a d : K) (mid : List K) : Basis K :=
  { order := 4, knots := ([a, a, a] ++ (a :: (mid ++ [d])) ++ [d, d, d]).toArray, periodic := -1 }

theorem natBasis_numFunctions (a d : K) (mid : List K) : (natBasis a d mid).numFunctions = mid.length + 4 := by
  unfold natBasis Basis.numFunctions
  simp

theorem natBasis_size (a d : K) (mid : List K) : (natBasis a d mid).knots.size = mid.length + 8 := by
  unfold natBasis; simp

theorem natBasis_kn (a d : K) (mid : List K) (i : ℕ) :
    (natBasis a d mid).kn i = (a :: (mid ++ [d])).getD (natIdx (mid.length + 2) i) 0 := by
  unfold Basis.kn natIdx natBasis
  simp only [getD_toArray_c14, List.size_toArray]
  have hlast : ([a, a, a] ++ (a :: (mid ++ [d])) ++ [d, d, d]).getD
      (([a, a, a] ++ (a :: (mid ++ [d])) ++ [d, d, d]).length - 1) 0 = d := by
    have : ([a, a, a] ++ (a :: (mid ++ [d])) ++ [d, d, d]).length - 1 = (mid.length + 3) + 4 := by simp
    rw [this]
    simp [List.getD_eq_getElem?_getD, List.getElem?_append_right]
  rw [hlast]
  by_cases h3 : i < 3
  · rw [if_pos h3]
    interval_cases i <;> simp
  · rw [if_neg h3]
    obtain ⟨k, rfl⟩ : ∃ k, i = k + 3 := ⟨i - 3, by omega⟩
    by_cases hn : k + 3 < mid.length + 2 + 3
    · rw [if_pos hn]
      rw [show k + 3 - 3 = k by omega]
      simp only [List.getD_eq_getElem?_getD, List.cons_append, List.nil_append, List.append_assoc,
        List.getElem?_cons_succ]
      cases k with
      | zero => simp
      | succ j =>
        simp only [List.getElem?_cons_succ]
        by_cases hj : j < mid.length
        · rw [List.getElem?_append_left hj, List.getElem?_append_left hj]
          simp [hj]
        · have hj' : j = mid.length := by omega
          subst hj'
          simp
    · rw [if_neg hn]
      have e2 : (a :: (mid ++ [d])).getD (mid.length + 2 - 1) 0 = d := by
        rw [show mid.length + 2 - 1 = mid.length + 1 by omega]
        simp [List.getD_eq_getElem?_getD, List.getElem?_append_right]
      rw [e2]
      by_cases hk4 : k < mid.length + 5
      · obtain ⟨r, rfl⟩ : ∃ r, k = mid.length + 2 + r := ⟨k - (mid.length + 2), by omega⟩
        have hr : r < 3 := by omega
        interval_cases r <;> simp [List.getD_eq_getElem?_getD, List.getElem?_append_right]
      · have : ([a, a, a] ++ (a :: (mid ++ [d])) ++ [d, d, d]).length ≤ k + 3 := by simp; omega
        rw [List.getD_eq_default _ _ this]

theorem natIdx_lt (n i : ℕ) (hn : 1 ≤ n) : natIdx n i < n := by
  unfold natIdx; split_ifs <;> omega

theorem natIdx_mono (n i j : ℕ) (hn : 1 ≤ n) (h : i ≤ j) : natIdx n i ≤ natIdx n j := by
  unfold natIdx; split_ifs <;> omega

section facts
variable (a d : K) (mid : List K) (tol : K)
  (hgap : ∀ i j, i < j → j < mid.length + 2 →
    (a :: (mid ++ [d])).getD i 0 + tol ≤ (a :: (mid ++ [d])).getD j 0)
  (htol : 0 < tol)

include hgap htol

theorem nat_T_strict (i j : ℕ) (hij : i < j) (hj : j < mid.length + 2) :
    (a :: (mid ++ [d])).getD i 0 < (a :: (mid ++ [d])).getD j 0 := by
  have := hgap i j hij hj; linarith

theorem nat_T_mono (i j : ℕ) (hij : i ≤ j) (hj : j < mid.length + 2) :
    (a :: (mid ++ [d])).getD i 0 ≤ (a :: (mid ++ [d])).getD j 0 := by
  rcases Nat.eq_or_lt_of_le hij with h | h
  · rw [h]
  · exact (nat_T_strict a d mid tol hgap htol i j h hj).le

theorem natBasis_valid : (natBasis a d mid).Valid where
  order_pos := by unfold natBasis; simp
  size_ge := by rw [natBasis_size]; unfold natBasis; simp
  sorted := by
    intro i _
    rw [natBasis_kn, natBasis_kn]
    exact nat_T_mono a d mid tol hgap htol _ _ (natIdx_mono _ _ _ (by omega) (by omega))
      (natIdx_lt _ _ (by omega))
  periodic_ge := by unfold natBasis; simp
  periodic_le := by unfold natBasis; simp
  start_lt_stop := by
    unfold Basis.start Basis.stop
    rw [natBasis_kn, natBasis_kn, natBasis_size]
    have e1 : natIdx (mid.length + 2) ((natBasis a d mid).order - 1) = 0 := by
      unfold natIdx natBasis; simp
    have e2 : natIdx (mid.length + 2) (mid.length + 8 - (natBasis a d mid).order) = mid.length + 1 := by
      unfold natIdx natBasis; simp
    rw [e1, e2]
    exact nat_T_strict a d mid tol hgap htol 0 (mid.length + 1) (by omega) (by omega)
  ghosts := fun h => absurd h (by unfold natBasis; simp)

theorem nat_exact (l : ℕ) (hl : l < mid.length + 2) :
    (natBasis a d mid).ExactAt tol ((a :: (mid ++ [d])).getD l 0) := by
  intro i _
  rw [natBasis_kn]
  have hk := natIdx_lt (mid.length + 2) i (by omega)
  rcases Nat.lt_trichotomy (natIdx (mid.length + 2) i) l with h | h | h
  · right
    have := hgap _ _ h hl
    rw [abs_sub_comm, abs_of_nonneg (by linarith)]
    linarith
  · left; rw [h]
  · right
    have := hgap _ _ h hk
    rw [abs_of_nonneg (by linarith)]
    linarith

theorem nat_start : (natBasis a d mid).start = a := by
  unfold Basis.start
  rw [natBasis_kn]
  have : natIdx (mid.length + 2) ((natBasis a d mid).order - 1) = 0 := by unfold natIdx natBasis; simp
  rw [this]; simp

theorem nat_stop : (natBasis a d mid).stop = d := by
  unfold Basis.stop
  rw [natBasis_kn, natBasis_size]
  have : natIdx (mid.length + 2) (mid.length + 8 - (natBasis a d mid).order) = mid.length + 1 := by
    unfold natIdx natBasis; simp
  rw [this]
  simp [List.getD_eq_getElem?_getD, List.getElem?_append_right]

theorem nat_in_domain (l : ℕ) (hl : l < mid.length + 2) :
    (natBasis a d mid).start ≤ (a :: (mid ++ [d])).getD l 0 ∧
    (a :: (mid ++ [d])).getD l 0 ≤ (natBasis a d mid).stop := by
  rw [nat_start a d mid tol hgap htol, nat_stop a d mid tol hgap htol]
  constructor
  · have := nat_T_mono a d mid tol hgap htol 0 l (by omega) hl
    simpa using this
  · have := nat_T_mono a d mid tol hgap htol l (mid.length + 1) (by omega) (by omega)
    have e : (a :: (mid ++ [d])).getD (mid.length + 1) 0 = d := by
      simp [List.getD_eq_getElem?_getD, List.getElem?_append_right]
    rw [e] at this
    exact this

end facts

variable [FloorRing K]

omit [IsStrictOrderedRing K] in
theorem cubicKnots_NATURAL (a d : K) (mid : List K) :
    cubicKnots bNATURAL (a :: (mid ++ [d])) = .ok ([a, a, a] ++ (a :: (mid ++ [d])) ++ [d, d, d]) := by
  have e0 : pyGet (a :: (mid ++ [d])) 0 = .ok a := pyGet_nat _ 0 (by simp)
  have e9 : pyGet (a :: (mid ++ [d])) (-1) = .ok d := by
    have := pyGet_neg (a :: (mid ++ [d])) 1 (by omega) (by simp)
    simpa using this
  unfold cubicKnots
  simp only [e0, e9, bind, Except.bind, pure, Except.pure, bFREE, bNATURAL, bHERMITE, bPERIODIC]
  simp [List.replicate]

/-- The uniqueness statement in specification terms: a cubic spline on the clamped knot vector
`t₀⁴, t₁ … t_{n−2}, t_{n−1}⁴` that vanishes at all data parameters and whose `e0`-th derivative at the
start and `e1`-th derivative at the end vanish has zero coefficients. -/
def ClampedUnique (a d : K) (mid : List K) (e0 e1 : ℕ) : Prop :=
  ∀ y : ℕ → K,
    (∀ i < mid.length + 2, ∑ j ∈ range (mid.length + 4),
      B (effSide (natBasis a d mid) ((a :: (mid ++ [d])).getD i 0) true) (natBasis a d mid).kn 3 j
        ((a :: (mid ++ [d])).getD i 0) * y j = 0) →
    ∑ j ∈ range (mid.length + 4), dB .right (natBasis a d mid).kn 3 j e0 a * y j = 0 →
    ∑ j ∈ range (mid.length + 4), dB .left (natBasis a d mid).kn 3 j e1 d * y j = 0 →
    ∀ j < mid.length + 4, y j = 0

/-- Uniqueness of the natural spline (`s'' = 0` at both ends). -/
abbrev NaturalUnique (a d : K) (mid : List K) : Prop := ClampedUnique a d mid 2 2

/-- `cubic_curve(x, NATURAL, t)` succeeds whenever the natural spline is unique. -/
theorem cubicCurve_NATURAL_ok_of_unique (a d : K) (mid : List K) (tol rt atl : K) (htol : 0 < tol)
    (hgap : ∀ i j, i < j → j < mid.length + 2 →
      (a :: (mid ++ [d])).getD i 0 + tol ≤ (a :: (mid ++ [d])).getD j 0)
    (huniq : NaturalUnique a d mid)
    (x : Mat K) (m : ℕ) (hxs : x.size = mid.length + 2 ∧ ∀ i, i < mid.length + 2 → (x.getD i #[]).size = m)
    (tg : Option (Mat K)) :
    ∃ cp, cubicCurve bNATURAL tol rt atl x (a :: (mid ++ [d])) tg = .ok (natBasis a d mid, cp) ∧
      cp.size = mid.length + 4 ∧ ∀ i, i < mid.length + 4 → (cp.getD i #[]).size = m := by
  set t := a :: (mid ++ [d]) with ht
  set b := natBasis a d mid with hb
  have hv : b.Valid := natBasis_valid a d mid tol hgap htol
  have hper : b.periodic = -1 := rfl
  have hnf : b.numFunctions = mid.length + 4 := natBasis_numFunctions a d mid
  have htl : t.length = mid.length + 2 := by rw [ht]; simp
  have hne : bNATURAL ≠ bPERIODIC := by decide
  have hclose : cubicClose bNATURAL rt atl x = x := by unfold cubicClose; simp [hne]
  have hmk : Basis.mk? 4 ([a, a, a] ++ (a :: (mid ++ [d])) ++ [d, d, d]).toArray (-1) tol = .ok b :=
    Basis.mk?_of_valid hv tol htol.le
  have hhead : t.headD 0 = a := by rw [ht]; rfl
  have hlastT : t.getLastD 0 = d := by rw [ht]; simp [List.getLastD]
  have hextra : cubicExtra bNATURAL b tol t m tg
      = .ok (colloc b tol [a, d] 2, Array.replicate 2 (Array.replicate m 0)) := by
    unfold cubicExtra
    simp only [bFREE, bPERIODIC, bTANGENT, bHERMITE, bTANGENTNATURAL, bNATURAL, bind, Except.bind, pure,
      Except.pure, hhead, hlastT]
    simp
  have hx0 : (x.getD 0 #[]).size = m := hxs.2 0 (by omega)
  have hkn : cubicKnots bNATURAL t = .ok ([a, a, a] ++ (a :: (mid ++ [d])) ++ [d, d, d]) :=
    cubicKnots_NATURAL a d mid
  have hsys : cubicSystem bNATURAL tol rt atl x t tg
      = .ok (b, colloc b tol t 0 ++ colloc b tol [a, d] 2, x ++ Array.replicate 2 (Array.replicate m 0)) := by
    unfold cubicSystem
    simp only [hclose, bind, Except.bind, pure, Except.pure, hne, if_false, hkn, hmk, hx0, hextra]
    rw [if_neg (by rw [htl, hxs.1]; simp)]
  set N := colloc b tol t 0 ++ colloc b tol [a, d] 2 with hN
  set rhs := x ++ Array.replicate 2 (Array.replicate m (0 : K)) with hrhs
  have hNsize : N.size = mid.length + 4 := by rw [hN, Array.size_append, size_colloc, size_colloc, htl]; rfl
  -- rows of N
  have hrowI : ∀ i < mid.length + 2, ∀ j, N.get i j = (b.evaluate tol (t.getD i 0) 0 true).getD j 0 := by
    intro i hi j
    rw [hN, Mat.get_append_left_c14 _ _ _ _ (by rw [size_colloc, htl]; exact hi),
      get_colloc b tol t 0 i j (by rw [htl]; exact hi)]
  have hrowA : ∀ j, N.get (mid.length + 2) j = (b.evaluate tol a 2 true).getD j 0 := by
    intro j
    have := Mat.get_append_right_c14 (colloc b tol t 0) (colloc b tol [a, d] 2) 0 j
    rw [size_colloc, htl] at this
    rw [hN, show mid.length + 2 = mid.length + 2 + 0 by omega, this, get_colloc b tol [a, d] 2 0 j (by simp)]
    simp
  have hrowD : ∀ j, N.get (mid.length + 3) j = (b.evaluate tol d 2 true).getD j 0 := by
    intro j
    have := Mat.get_append_right_c14 (colloc b tol t 0) (colloc b tol [a, d] 2) 1 j
    rw [size_colloc, htl] at this
    rw [hN, show mid.length + 3 = mid.length + 2 + 1 by omega, this, get_colloc b tol [a, d] 2 1 j (by simp)]
    simp
  have hshapeN : N.size = mid.length + 4 ∧ ∀ i, i < mid.length + 4 → (N.getD i #[]).size = mid.length + 4 := by
    refine ⟨hNsize, fun i hi => ?_⟩
    rw [hN]
    by_cases h1 : i < mid.length + 2
    · have : (colloc b tol t 0 ++ colloc b tol [a, d] 2).getD i #[] = (colloc b tol t 0).getD i #[] := by
        simp [Array.getD, size_colloc, htl, h1, Array.getElem_append_left, Nat.lt_add_right]
      rw [this, row_colloc b tol t 0 i (by rw [htl]; exact h1), size_evaluate_c14, hnf]
    · obtain ⟨r, rfl⟩ : ∃ r, i = mid.length + 2 + r := ⟨i - (mid.length + 2), by omega⟩
      have hr : r < 2 := by omega
      have : (colloc b tol t 0 ++ colloc b tol [a, d] 2).getD (mid.length + 2 + r) #[]
          = (colloc b tol [a, d] 2).getD r #[] := by
        have hs : (colloc b tol t 0).size = mid.length + 2 := by rw [size_colloc, htl]
        have hs2 : (colloc b tol [a, d] 2).size = 2 := by rw [size_colloc]; rfl
        simp [Array.getD, hs, hs2, hr, Array.getElem_append_right]
      rw [this, row_colloc b tol [a, d] 2 r (by simpa using hr), size_evaluate_c14, hnf]
  have hshapeR : rhs.size = mid.length + 4 ∧ ∀ i, i < mid.length + 4 → (rhs.getD i #[]).size = m := by
    refine ⟨by rw [hrhs, Array.size_append, hxs.1]; simp, fun i hi => ?_⟩
    rw [hrhs]
    by_cases h1 : i < mid.length + 2
    · have : (x ++ Array.replicate 2 (Array.replicate m (0 : K))).getD i #[] = x.getD i #[] := by
        simp [Array.getD, hxs.1, h1, Array.getElem_append_left, Nat.lt_add_right]
      rw [this]; exact hxs.2 i h1
    · obtain ⟨r, rfl⟩ : ∃ r, i = mid.length + 2 + r := ⟨i - (mid.length + 2), by omega⟩
      have hr : r < 2 := by omega
      have : (x ++ Array.replicate 2 (Array.replicate m (0 : K))).getD (mid.length + 2 + r) #[]
          = Array.replicate m 0 := by
        simp [Array.getD, hxs.1, hr, Array.getElem_append_right]
      rw [this]; simp
  -- injectivity from uniqueness of the natural spline
  have hex := nat_exact a d mid tol hgap htol
  have hdom := nat_in_domain a d mid tol hgap htol
  have hstart := nat_start a d mid tol hgap htol
  have hstop := nat_stop a d mid tol hgap htol
  have hlt : a < d := by
    have := hv.start_lt_stop; rw [← hb] at hstart hstop; rw [hstart, hstop] at this; exact this
  have hinj : ∀ y : ℕ → K, (∀ i < mid.length + 4, ∑ j ∈ range (mid.length + 4), N.get i j * y j = 0) →
      ∀ j < mid.length + 4, y j = 0 := by
    intro y hy
    apply huniq y
    · intro i hi
      refine (sum_congr rfl (fun j hj => ?_)).trans (hy i (by omega))
      rw [hrowI i hi j, evaluate_inside_right hv hper htol (hex i hi) (hdom i hi).1 (hdom i hi).2
        (by rw [hnf]; exact mem_range.mp hj)]
      rfl
    · refine (sum_congr rfl (fun j hj => ?_)).trans (hy (mid.length + 2) (by omega))
      have hexa : b.ExactAt tol a := by have := hex 0 (by omega); simpa using this
      rw [hrowA j, C01_value_deriv_open hv hper htol hexa (by rw [← hb] at hstart; rw [hstart])
        (by rw [← hb] at hstop; rw [hstop]; exact hlt.le) (by simp) (by show 2 < 4; omega)
        (by rw [hnf]; exact mem_range.mp hj)]
      have : effSide b a true = .right := by
        unfold effSide; rw [← hb] at hstop; rw [hstop, if_neg (ne_of_lt hlt)]; rfl
      rw [this]; rfl
    · refine (sum_congr rfl (fun j hj => ?_)).trans (hy (mid.length + 3) (by omega))
      have hexd : b.ExactAt tol d := by
        have := hex (mid.length + 1) (by omega)
        have e : (a :: (mid ++ [d])).getD (mid.length + 1) 0 = d := by
          simp [List.getD_eq_getElem?_getD, List.getElem?_append_right]
        rw [e] at this; exact this
      rw [hrowD j, C01_value_deriv_open hv hper htol hexd (by rw [← hb] at hstart; rw [hstart]; exact hlt.le)
        (by rw [← hb] at hstop; rw [hstop]) (by simp) (by show 2 < 4; omega)
        (by rw [hnf]; exact mem_range.mp hj)]
      have : effSide b d true = .left := by
        unfold effSide; rw [← hb] at hstop; rw [hstop, if_pos rfl]
      rw [this]; rfl
  obtain ⟨L, hL⟩ := left_inverse_of_injective_c14 (mid.length + 4) (fun i j => N.get i j) hinj
  obtain ⟨cp, hcp⟩ := solveC_complete N rhs (mid.length + 4) m hshapeN hshapeR L hL
  obtain ⟨sh1, sh2⟩ := solveC_shape (mid.length + 4) m hshapeN hshapeR hcp
  refine ⟨cp, ?_, sh1, sh2⟩
  unfold cubicCurve
  simp only [hsys, bind, Except.bind, pure, Except.pure]
  rw [if_neg (by rw [hNsize, hnf, hshapeR.1]; simp), hcp]

/-- `cubic_curve` with the clamped knot vector `t₀⁴, t₁ … t_{n−2}, t_{n−1}⁴` and one derivative row of
order `e0` at the start and `e1` at the end (NATURAL, TANGENT, TANGENTNATURAL) succeeds whenever the
corresponding spline is unique. -/
theorem cubicCurve_clamped_ok (bd e0 e1 : ℕ) (hbd : bd ≠ bPERIODIC) (he0 : e0 < 4) (he1 : e1 < 4)
    (a d : K) (mid : List K) (tol rt atl : K) (htol : 0 < tol)
    (hgap : ∀ i j, i < j → j < mid.length + 2 →
      (a :: (mid ++ [d])).getD i 0 + tol ≤ (a :: (mid ++ [d])).getD j 0)
    (huniq : ClampedUnique a d mid e0 e1)
    (x : Mat K) (m : ℕ) (hxs : x.size = mid.length + 2 ∧ ∀ i, i < mid.length + 2 → (x.getD i #[]).size = m)
    (tg : Option (Mat K)) (eR : Mat K)
    (hkn : cubicKnots bd (a :: (mid ++ [d])) = .ok ([a, a, a] ++ (a :: (mid ++ [d])) ++ [d, d, d]))
    (hextra : cubicExtra bd (natBasis a d mid) tol (a :: (mid ++ [d])) m tg
      = .ok (#[(natBasis a d mid).evaluate tol a e0 true, (natBasis a d mid).evaluate tol d e1 true], eR))
    (heR : eR.size = 2 ∧ ∀ i, i < 2 → (eR.getD i #[]).size = m) :
    ∃ cp, cubicCurve bd tol rt atl x (a :: (mid ++ [d])) tg = .ok (natBasis a d mid, cp) ∧
      cp.size = mid.length + 4 ∧ ∀ i, i < mid.length + 4 → (cp.getD i #[]).size = m := by
  set t := a :: (mid ++ [d]) with ht
  set b := natBasis a d mid with hb
  have hv : b.Valid := natBasis_valid a d mid tol hgap htol
  have hper : b.periodic = -1 := rfl
  have hnf : b.numFunctions = mid.length + 4 := natBasis_numFunctions a d mid
  have htl : t.length = mid.length + 2 := by rw [ht]; simp
  have hne : bd ≠ bPERIODIC := hbd
  have hclose : cubicClose bd rt atl x = x := by unfold cubicClose; simp [hne]
  have hmk : Basis.mk? 4 ([a, a, a] ++ t ++ [d, d, d]).toArray (-1) tol = .ok b :=
    Basis.mk?_of_valid hv tol htol.le
  set eN : Mat K := #[b.evaluate tol a e0 true, b.evaluate tol d e1 true] with heN
  have hx0 : (x.getD 0 #[]).size = m := hxs.2 0 (by omega)
  have hsys : cubicSystem bd tol rt atl x t tg
      = .ok (b, colloc b tol t 0 ++ eN, x ++ eR) := by
    unfold cubicSystem
    simp only [hclose, bind, Except.bind, pure, Except.pure, hne, if_false, hkn, hmk, hx0, hextra]
    rw [if_neg (by rw [htl, hxs.1]; simp)]
  set N := colloc b tol t 0 ++ eN with hN
  set rhs := x ++ eR with hrhs
  have heNs : eN.size = 2 := by rw [heN]; rfl
  have hNsize : N.size = mid.length + 4 := by rw [hN, Array.size_append, size_colloc, htl, heNs]
  -- rows of N
  have hrowI : ∀ i < mid.length + 2, ∀ j, N.get i j = (b.evaluate tol (t.getD i 0) 0 true).getD j 0 := by
    intro i hi j
    rw [hN, Mat.get_append_left_c14 _ _ _ _ (by rw [size_colloc, htl]; exact hi),
      get_colloc b tol t 0 i j (by rw [htl]; exact hi)]
  have hrowA : ∀ j, N.get (mid.length + 2) j = (b.evaluate tol a e0 true).getD j 0 := by
    intro j
    have := Mat.get_append_right_c14 (colloc b tol t 0) (eN) 0 j
    rw [size_colloc, htl] at this
    rw [hN, show mid.length + 2 = mid.length + 2 + 0 by omega, this, heN]
    simp [Mat.get, Array.getD]
  have hrowD : ∀ j, N.get (mid.length + 3) j = (b.evaluate tol d e1 true).getD j 0 := by
    intro j
    have := Mat.get_append_right_c14 (colloc b tol t 0) (eN) 1 j
    rw [size_colloc, htl] at this
    rw [hN, show mid.length + 3 = mid.length + 2 + 1 by omega, this, heN]
    simp [Mat.get, Array.getD]
  have hshapeN : N.size = mid.length + 4 ∧ ∀ i, i < mid.length + 4 → (N.getD i #[]).size = mid.length + 4 := by
    refine ⟨hNsize, fun i hi => ?_⟩
    rw [hN]
    by_cases h1 : i < mid.length + 2
    · have : (colloc b tol t 0 ++ eN).getD i #[] = (colloc b tol t 0).getD i #[] := by
        simp [Array.getD, size_colloc, htl, h1, Array.getElem_append_left, Nat.lt_add_right]
      rw [this, row_colloc b tol t 0 i (by rw [htl]; exact h1), size_evaluate_c14, hnf]
    · obtain ⟨r, rfl⟩ : ∃ r, i = mid.length + 2 + r := ⟨i - (mid.length + 2), by omega⟩
      have hr : r < 2 := by omega
      have : (colloc b tol t 0 ++ eN).getD (mid.length + 2 + r) #[]
          = (eN).getD r #[] := by
        have hs : (colloc b tol t 0).size = mid.length + 2 := by rw [size_colloc, htl]
        simp [Array.getD, hs, heNs, hr, Array.getElem_append_right]
      rw [this, heN]
      interval_cases r <;> simp [Array.getD, size_evaluate_c14, hnf]
  have hshapeR : rhs.size = mid.length + 4 ∧ ∀ i, i < mid.length + 4 → (rhs.getD i #[]).size = m := by
    refine ⟨by rw [hrhs, Array.size_append, hxs.1, heR.1], fun i hi => ?_⟩
    rw [hrhs]
    by_cases h1 : i < mid.length + 2
    · have : (x ++ eR).getD i #[] = x.getD i #[] := by
        simp [Array.getD, hxs.1, h1, Array.getElem_append_left, Nat.lt_add_right]
      rw [this]; exact hxs.2 i h1
    · obtain ⟨r, rfl⟩ : ∃ r, i = mid.length + 2 + r := ⟨i - (mid.length + 2), by omega⟩
      have hr : r < 2 := by omega
      have : (x ++ eR).getD (mid.length + 2 + r) #[] = eR.getD r #[] := by
        simp [Array.getD, hxs.1, heR.1, hr, Array.getElem_append_right]
      rw [this]; exact heR.2 r hr
  -- injectivity from uniqueness of the natural spline
  have hex := nat_exact a d mid tol hgap htol
  have hdom := nat_in_domain a d mid tol hgap htol
  have hstart := nat_start a d mid tol hgap htol
  have hstop := nat_stop a d mid tol hgap htol
  have hlt : a < d := by
    have := hv.start_lt_stop; rw [← hb] at hstart hstop; rw [hstart, hstop] at this; exact this
  have hinj : ∀ y : ℕ → K, (∀ i < mid.length + 4, ∑ j ∈ range (mid.length + 4), N.get i j * y j = 0) →
      ∀ j < mid.length + 4, y j = 0 := by
    intro y hy
    apply huniq y
    · intro i hi
      refine (sum_congr rfl (fun j hj => ?_)).trans (hy i (by omega))
      rw [hrowI i hi j, evaluate_inside_right hv hper htol (hex i hi) (hdom i hi).1 (hdom i hi).2
        (by rw [hnf]; exact mem_range.mp hj)]
      rfl
    · refine (sum_congr rfl (fun j hj => ?_)).trans (hy (mid.length + 2) (by omega))
      have hexa : b.ExactAt tol a := by have := hex 0 (by omega); simpa using this
      rw [hrowA j, C01_value_deriv_open hv hper htol hexa (by rw [← hb] at hstart; rw [hstart])
        (by rw [← hb] at hstop; rw [hstop]; exact hlt.le) (by simp) (by show e0 < 4; exact he0)
        (by rw [hnf]; exact mem_range.mp hj)]
      have : effSide b a true = .right := by
        unfold effSide; rw [← hb] at hstop; rw [hstop, if_neg (ne_of_lt hlt)]; rfl
      rw [this]; rfl
    · refine (sum_congr rfl (fun j hj => ?_)).trans (hy (mid.length + 3) (by omega))
      have hexd : b.ExactAt tol d := by
        have := hex (mid.length + 1) (by omega)
        have e : (a :: (mid ++ [d])).getD (mid.length + 1) 0 = d := by
          simp [List.getD_eq_getElem?_getD, List.getElem?_append_right]
        rw [e] at this; exact this
      rw [hrowD j, C01_value_deriv_open hv hper htol hexd (by rw [← hb] at hstart; rw [hstart]; exact hlt.le)
        (by rw [← hb] at hstop; rw [hstop]) (by simp) (by show e1 < 4; exact he1)
        (by rw [hnf]; exact mem_range.mp hj)]
      have : effSide b d true = .left := by
        unfold effSide; rw [← hb] at hstop; rw [hstop, if_pos rfl]
      rw [this]; rfl
  obtain ⟨L, hL⟩ := left_inverse_of_injective_c14 (mid.length + 4) (fun i j => N.get i j) hinj
  obtain ⟨cp, hcp⟩ := solveC_complete N rhs (mid.length + 4) m hshapeN hshapeR L hL
  obtain ⟨sh1, sh2⟩ := solveC_shape (mid.length + 4) m hshapeN hshapeR hcp
  refine ⟨cp, ?_, sh1, sh2⟩
  unfold cubicCurve
  simp only [hsys, bind, Except.bind, pure, Except.pure]
  rw [if_neg (by rw [hNsize, hnf, hshapeR.1]; simp), hcp]


end Interp
end Splipy
