import Splipy.Driver.Common

namespace Splipy.Driver.C02
open Splipy Splipy.Driver

/-- `obj_eval <obj> <tol> <params: list of lists> <tensor>` → `[shape, flat]` or `err:…`
    mirrors `SplineObject.evaluate(*params, tensor=…)` before the squeeze. -/
def handle : Handler
  | "obj_eval", [ov, tolv, pv, tv] => some <| Id.run do
      let some o := decodeObj ov | return bad
      let some tol := tolv.toRat? | return bad
      let some ps := decodeRatLists pv | return bad
      let some tensor := tv.toBool? | return bad
      return ofExcept encodeTensor (o.evaluate tol ps tensor)
  | "obj_default", [bsv, rv, tolv, pv, tv] => some <| Id.run do
      let some bl := bsv.toList? | return bad
      let some bases := bl.mapM decodeBasis | return bad
      let some r := rv.toBool? | return bad
      let some tol := tolv.toRat? | return bad
      let some ps := decodeRatLists pv | return bad
      let some tensor := tv.toBool? | return bad
      match Obj.default bases.toArray r with
      | .error e => return e.toVal
      | .ok o => return .list [encodeObj o, ofExcept encodeTensor (o.evaluate tol ps tensor)]
  | "obj_eval_seq", [ov, tolv, callsv] => some <| Id.run do
      -- several evaluation calls on ONE object (evaluation is a pure query: the model answers each
      -- from the same value), followed by the object itself, which must be unchanged
      let some o := decodeObj ov | return bad
      let some tol := tolv.toRat? | return bad
      let some calls := callsv.toList? | return bad
      let mut out : Array Val := #[]
      for c in calls do
        match c.toList? with
        | some [pv, tv] =>
          let some ps := decodeRatLists pv | return bad
          let some tensor := tv.toBool? | return bad
          out := out.push (ofExcept encodeTensor (o.evaluate tol ps tensor))
        | _ => return bad
      return .list (out.toList ++ [encodeObj o])
  | "obj_bbox", [ov] => some <| Id.run do
      let some o := decodeObj ov | return bad
      return .list (o.boundingBox.map (fun (a, b) => .list [.num a, .num b]))
  | _, _ => none

end Splipy.Driver.C02
