import Splipy.Driver.Common
import Splipy.Model.Reparam

namespace Splipy.Driver.C06
open Splipy Splipy.Driver

/-- A direction token: a number (`int`) or a word `s:<text>` (Python `str`, possibly empty or
    made of digits). -/
def decodeTok (v : Val) : Option DirTok :=
  match v with
  | .num q => if q.den == 1 then some (.int q.num) else none
  | .str s => if s.startsWith "s:" then some (.str (s.drop 2).toString) else none
  | _ => none

/-- `[reverse,tok]`, `[swap,tok1,tok2]`, `[reparam,[[s,e],…]]`, `[reparamdir,tok,[[s,e],…]]`.
    Python default arguments are filled in by the harness (`reverse()` = `reverse(0)`,
    `swap()` = `swap(0,1)`). -/
def decodeOp (v : Val) : Option (ReOp ℚ) := do
  let xs ← v.toList?
  match xs with
  | [.str "reverse", t] => some (.reverse (← decodeTok t))
  | [.str "swap", t1, t2] => some (.swap (← decodeTok t1) (← decodeTok t2))
  | [.str "reparam", a] => some (.reparam (← decodeRatLists a))
  | [.str "reparamdir", t, a] => some (.reparamDir (← decodeTok t) (← decodeRatLists a))
  | _ => none

def encodeStep (s : ReStep ℚ) : Val :=
  .list [match s.err with | none => .str "ok" | some e => e.toVal, Val.ofBool s.returnsSelf, encodeObj s.obj]

/-- `c06_history <obj> <ops>` → one `[status, returns_self, obj]` per call.
    `c06_checkdir <tok> <pardim>` → index or `err:ValueError`. -/
def handle : Handler
  | "c06_history", [ov, opsv] => some <| Id.run do
      let some o := decodeObj ov | return bad
      let some ol := opsv.toList? | return bad
      let some ops := ol.mapM decodeOp | return bad
      return .list ((runReHistory o ops).map encodeStep)
  | "c06_checkdir", [tv, pv] => some <| Id.run do
      let some t := decodeTok tv | return bad
      let some pd := pv.toNat? | return bad
      return ofExcept Val.ofNat (checkDirection t pd)
  | _, _ => none

end Splipy.Driver.C06
