import Splipy.Driver.Common
import Splipy.Model.Refine

namespace Splipy.Driver.C04
open Splipy Splipy.Driver

/-- history entry `[dir, [x, …]]` -/
def decodeStep (v : Val) : Option (ℕ × List ℚ) := do
  let xs ← v.toList?
  match xs with
  | [d, ks] => some (← d.toNat?, ← ks.toRats?)
  | _ => none

/-- Protocol ops of C04.
* `c04_basis_insert <basis> <x>` → `[basis', C]`  (`BSplineBasis.insert_knot`)
* `c04_history <obj> <[[dir,[x…]]…]>` → object after the `insert_knot` calls in order
* `c04_refine <obj> <tol> <[n…]> <dir | -1>` → `obj.refine(*ns[, direction=dir])`
* `c04_geometric <obj> <tol> <atol> <rtol> <alpha> <n> <dir> <reverse>` → `geometric_refine`
* `c04_graded <obj> <tol> <atol> <rtol> <n> <[values…]> <dir>` → `center_refine`/`edge_refine`
  with the placement values supplied by the caller. -/
def handle : Handler
  | "c04_basis_insert", [bv, xv] => some <| Id.run do
      let some b := decodeBasis bv | return bad
      let some x := xv.toRat? | return bad
      return ofExcept (fun (r : Basis ℚ × Mat ℚ) => .list [encodeBasis r.1, encodeMat r.2]) (b.insertKnot x)
  | "c04_history", [ov, hv] => some <| Id.run do
      let some o := decodeObj ov | return bad
      let some hl := hv.toList? | return bad
      let some steps := hl.mapM decodeStep | return bad
      return ofExcept encodeObj (steps.foldlM (fun o st => o.insertKnotDir st.2 st.1) o)
  | "c04_refine", [ov, tolv, nsv, dv] => some <| Id.run do
      let some o := decodeObj ov | return bad
      let some tol := tolv.toRat? | return bad
      let some ns := nsv.toNats? | return bad
      let some d := dv.toInt? | return bad
      return ofExcept encodeObj (o.refine tol ns (if d < 0 then none else some d.toNat))
  | "c04_geometric", [ov, tolv, av, rv, alv, nv, dv, revv] => some <| Id.run do
      let some o := decodeObj ov | return bad
      let some tol := tolv.toRat? | return bad
      let some atol := av.toRat? | return bad
      let some rtol := rv.toRat? | return bad
      let some alpha := alv.toRat? | return bad
      let some n := nv.toInt? | return bad
      let some d := dv.toNat? | return bad
      let some rev := revv.toBool? | return bad
      return ofExcept encodeObj (o.geometricRefine tol atol rtol alpha n d rev)
  | "c04_graded", [ov, tolv, av, rv, nv, vv, dv] => some <| Id.run do
      let some o := decodeObj ov | return bad
      let some tol := tolv.toRat? | return bad
      let some atol := av.toRat? | return bad
      let some rtol := rv.toRat? | return bad
      let some n := nv.toInt? | return bad
      let some vals := vv.toRats? | return bad
      let some d := dv.toNat? | return bad
      return ofExcept encodeObj (o.gradedInsert tol atol rtol n vals d)
  | _, _ => none

end Splipy.Driver.C04
