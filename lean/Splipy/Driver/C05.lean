import Splipy.Driver.Common
import Splipy.Model.Order

namespace Splipy.Driver.C05
open Splipy Splipy.Driver

/-- `continuity(k)` for every `k` of `knot_spans(True)`: number | `inf` | `err:…`. -/
def contTable (b : Basis ℚ) (tol : ℚ) : Val :=
  .list ((b.knotSpans tol true).toList.map (fun k =>
    match b.continuity tol k with
    | .ok none => Val.str "inf"
    | .ok (some c) => Val.ofInt c
    | .error e => e.toVal))

def contTables (o : Obj ℚ) (tol : ℚ) : Val := .list (o.bases.toList.map (fun b => contTable b tol))

def optInt (v : Val) : Option (Option Int) :=
  match v with
  | .str "none" => some none
  | _ => (v.toInt?).map some

/-- Exact test (at `K = ℚ`) that two objects have the same homogeneous evaluated map on a grid:
    with `q` points inside every knot span per direction (`q` = the larger order) the polynomial
    pieces, hence the maps, coincide — this decides the hypothesis `H_incl` of
    `C05_geometry_partial` for the instance at hand. -/
def sameMap (o o' : Obj ℚ) (tol : ℚ) (params : List (List ℚ)) : Val :=
  if params.isEmpty then .str "skip" else
  match ({ o with rational := false } : Obj ℚ).evaluate tol params true,
        ({ o' with rational := false } : Obj ℚ).evaluate tol params true with
  | .ok t, .ok t' => if t.shape = t'.shape ∧ t.data = t'.data then .str "exact-same" else .str "exact-differs"
  | _, _ => .str "exact-error"

/-- `c05_obj <obj> <tol> <isCurve> <form> <amounts> <direction|none> <lowers> <params>`
    form = `raise`: `obj.raise_order(*amounts, direction=…)`; `set`: `obj.set_order(*amounts)`;
    `base` : `SplineObject.raise_order(obj, *amounts, direction=…)` (base-class method on any object).
    Then `lower_order(*lowers)` on the resulting object (skipped when `lowers` is empty).
    Response: `err:…` or `[ret, obj', continuity tables, lower, same]` with
    `lower` = `skip` | `err:…` | `[ret, obj'', continuity tables, same'']`;
    `same` = `sameMap obj obj' params`, `same''` = exact equality of the control nets of `obj''` and `obj`.

    `c05_basis <basis> <tol> <raise> <lower>`: `b.raise_order(raise)` then `.lower_order(lower)`;
    response `[b' | err, b'' | err | skip, table b, table b']`. -/
def handle : Handler
  | "c05_obj", [ov, tolv, cv, fv, av, dv, lv, pv] => some <| Id.run do
      let some params := decodeRatLists pv | return bad
      let some o := decodeObj ov | return bad
      let some tol := tolv.toRat? | return bad
      let some isCurve := cv.toBool? | return bad
      let some form := fv.toStr? | return bad
      let some amounts := av.toInts? | return bad
      let some dir := optInt dv | return bad
      let some lowers := lv.toInts? | return bad
      if amounts.length ≠ 1 ∧ amounts.length ≠ o.pardim then return .str "bad-args"
      if lowers.length > 1 ∧ lowers.length ≠ o.pardim then return .str "bad-args"
      let r := match form with
        | "raise" => o.raiseOrderDispatch tol isCurve amounts dir
        | "base" => o.raiseOrder tol amounts dir
        | "set" => o.setOrder tol isCurve amounts
        | _ => .error .other
      match r with
      | .error e => return e.toVal
      | .ok (ret, o') =>
        let low : Val :=
          if lowers.isEmpty then .str "skip"
          else match o'.lowerOrder tol lowers with
            | .error e => e.toVal
            | .ok r2 =>
              let same2 : Val := if params.isEmpty then .str "skip"
                else if r2.2.cps.shape = o.cps.shape ∧ r2.2.cps.data = o.cps.data then .str "exact-same"
                else .str "exact-differs"
              .list [.str r2.1.name, encodeObj r2.2, contTables r2.2 tol, same2]
        return .list [.str ret.name, encodeObj o', contTables o' tol, low, sameMap o o' tol params]
  | "c05_basis", [bv, tolv, av, lv] => some <| Id.run do
      let some b := decodeBasis bv | return bad
      let some tol := tolv.toRat? | return bad
      let some a := av.toInt? | return bad
      let some l := optInt lv | return bad
      match b.raiseOrderInt tol a with
      | .error e => return .list [e.toVal, .str "skip", contTable b tol, .str "skip"]
      | .ok b' =>
        let low : Val := match l with
          | none => .str "skip"
          | some l => match b'.lowerOrder tol l with
            | .error e => e.toVal
            | .ok b'' => encodeBasis b''
        return .list [encodeBasis b', low, contTable b tol, contTable b' tol]
  | _, _ => none

end Splipy.Driver.C05
