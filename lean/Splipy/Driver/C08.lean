import Splipy.Driver.Common
import Splipy.Model.Periodic

namespace Splipy.Driver.C08
open Splipy Splipy.Driver

def decodeOptInt (v : Val) : Option (Option Int) :=
  match v with
  | .str "none" => some none
  | _ => (v.toInt?).map some

/-- `c08_make_periodic <obj> <tol> <continuity|none> <dir>` → object   (`SplineObject.make_periodic`)
    `c08_lower_periodic <obj> <tol> <periodic> <dir>`     → object   (`SplineObject.lower_periodic`)
    `c08_roundtrip <obj> <tol> <k> <dir>`                 → object   (`obj.split(obj.start(dir), dir).make_periodic(k, dir)`)
    `c08_basis <order> <knots> <periodic> <tol>`          → basis    (`BSplineBasis.__init__` validation) -/
def handle : Handler
  | "c08_make_periodic", [ov, tolv, cv, dv] => some <| Id.run do
      let some o := decodeObj ov | return bad
      let some tol := tolv.toRat? | return bad
      let some c := decodeOptInt cv | return bad
      let some d := dv.toNat? | return bad
      if d ≥ o.pardim then return (PyErr.value).toVal
      return ofExcept encodeObj (o.makePeriodic tol c d)
  | "c08_lower_periodic", [ov, tolv, pv, dv] => some <| Id.run do
      let some o := decodeObj ov | return bad
      let some _tol := tolv.toRat? | return bad
      let some p := pv.toInt? | return bad
      let some d := dv.toNat? | return bad
      if d ≥ o.pardim then return (PyErr.value).toVal
      return ofExcept encodeObj (o.lowerPeriodic p d)
  | "c08_roundtrip", [ov, tolv, kv, dv] => some <| Id.run do
      let some o := decodeObj ov | return bad
      let some tol := tolv.toRat? | return bad
      let some k := kv.toInt? | return bad
      let some d := dv.toNat? | return bad
      if d ≥ o.pardim then return (PyErr.value).toVal
      return ofExcept encodeObj (o.roundTrip tol k d)
  | "c08_basis", [pv, kv, perv, tolv] => some <| Id.run do
      let some p := pv.toInt? | return bad
      let some ks := kv.toRats? | return bad
      let some per := perv.toInt? | return bad
      let some tol := tolv.toRat? | return bad
      if p < 1 then return (PyErr.value).toVal
      return ofExcept encodeBasis (Basis.mk? p.toNat ks.toArray per tol)
  | _, _ => none

end Splipy.Driver.C08
