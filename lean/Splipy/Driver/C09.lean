import Splipy.Driver.Common
import Splipy.Model.AffineOps

namespace Splipy.Driver.C09
open Splipy Splipy.Driver

def decodeScaleArg : Val → Option (ScaleArg ℚ)
  | .num q => some (.scalar q)
  | .list xs => (xs.mapM Val.toRat?).map .vec
  | _ => none

def decodeBools (v : Val) : Option (List Bool) := do
  let xs ← v.toList?
  xs.mapM Val.toBool?

/-- One op: `[name, args…]` (see harness/props/C09.py `_enc_op`). -/
def decodeOp (v : Val) : Option (AffOp ℚ) := do
  let xs ← v.toList?
  match xs with
  | [.str "translate", x] => (x.toRats?).map .translate
  | [.str "iadd", x] => (x.toRats?).map .iadd
  | [.str "isub", x] => (x.toRats?).map .isub
  | [.str "add", x] => (x.toRats?).map .add
  | [.str "radd", x] => (x.toRats?).map .radd
  | [.str "sub", x] => (x.toRats?).map .sub
  | [.str "scale", .list args] => (args.mapM decodeScaleArg).map .scale
  | [.str "imul", a] => (decodeScaleArg a).map .imul
  | [.str "itruediv", a] => (decodeScaleArg a).map .itruediv
  | [.str "mul", a] => (decodeScaleArg a).map .mul
  | [.str "rmul", a] => (decodeScaleArg a).map .rmul
  | [.str "div", a] => (decodeScaleArg a).map .div
  | [.str "rotate", ch, sh, n, u] => do
      some (.rotate (← ch.toRat?) (← sh.toRat?) (← n.toRats?) (← u.toRats?))
  | [.str "mirror", n] => (n.toRats?).map .mirror
  | [.str "project", k] => (decodeBools k).map .project
  | [.str "set_dimension", n] => (n.toNat?).map .setDimension
  | [.str "force_rational"] => some .forceRational
  | _ => none

def encodeStep (r : StepResult ℚ) : Val :=
  .list [Val.ofNats r.obj.cps.shape, ofArr r.obj.cps.data, Val.ofBool r.obj.rational,
         Val.ofNat r.obj.dimension, Val.ofBool r.returnsSelf, Val.ofBool r.sameArray]

/-- Run the sequence, recording the state after every op; stops at the first exception, whose
    class becomes the last entry. -/
def runSeq (o : Obj ℚ) : List (AffOp ℚ) → List Val
  | [] => []
  | op :: rest =>
    match op.step o with
    | .error e => [e.toVal]
    | .ok r => encodeStep r :: runSeq r.obj rest

/-- `affine_seq <obj> <ops>` → one `[shape, flat, rational, dimension, returns_self, same_array]`
    per op (or `err:<class>` as last entry). -/
def handle : Handler
  | "affine_seq", [ov, opsv] => some <| Id.run do
      let some o := decodeObj ov | return bad
      let some ol := opsv.toList? | return bad
      let some ops := ol.mapM decodeOp | return bad
      return .list (runSeq o ops)
  | _, _ => none

end Splipy.Driver.C09
