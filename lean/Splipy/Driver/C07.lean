import Splipy.Driver.Common
import Splipy.Model.Split

namespace Splipy.Driver.C07
open Splipy Splipy.Driver

def encodeSplit : SplitRes ℚ → Val
  | .single o => .list [.str "single", .list [encodeObj o]]
  | .many ps => .list [.str "many", .list (ps.map encodeObj)]

/-- Append the pieces `ps` one after the other to the first one (`c = ps[0]; c.append(ps[1]); …`). -/
def appendAll (tol : ℚ) : List (Obj ℚ) → PyM (Option (Obj ℚ))
  | [] => .error .index
  | p :: rest => rest.foldlM (fun (acc : Option (Obj ℚ)) q =>
      match acc with
      | none => pure none
      | some a => a.appendCurve q tol) (some p)

/-- `c07_split <obj> <tol> <knots> <dir>`       → `[single|many,[pieces]]`     (`SplineObject.split`)
    `c07_append <obj> <obj> <tol>`              → object | `unmodelled`        (`Curve.append`)
    `c07_split_append <obj> <tol> <knots>`      → object                        (split, then append all)
    `c07_subdivide <[objs]> <tol> <[n per dir]>`→ `[pieces]`                    (`refinement.subdivide`)
    `c07_splitvector <len> <parts>`             → `[indices]`                   (`_splitvector`) -/
def handle : Handler
  | "c07_split", [ov, tolv, kv, dv] => some <| Id.run do
      let some o := decodeObj ov | return bad
      let some tol := tolv.toRat? | return bad
      let some ks := kv.toRats? | return bad
      let some d := dv.toNat? | return bad
      if d ≥ o.pardim then return (PyErr.value).toVal
      return ofExcept encodeSplit (o.split tol ks d)
  | "c07_append", [av, cv, tolv] => some <| Id.run do
      let some a := decodeObj av | return bad
      let some c := decodeObj cv | return bad
      let some tol := tolv.toRat? | return bad
      return ofExcept (fun r => match r with | some o => encodeObj o | none => .str "unmodelled")
        (a.appendCurve c tol)
  | "c07_split_append", [ov, tolv, kv] => some <| Id.run do
      let some o := decodeObj ov | return bad
      let some tol := tolv.toRat? | return bad
      let some ks := kv.toRats? | return bad
      let r : PyM (Option (Obj ℚ)) := do
        let s ← o.split tol ks 0
        match s with
        | .single p => pure (some p)
        | .many ps => appendAll tol ps
      return ofExcept (fun r => match r with | some o => encodeObj o | none => .str "unmodelled") r
  | "c07_subdivide", [osv, tolv, nv] => some <| Id.run do
      let some ol := osv.toList? | return bad
      let some objs := ol.mapM decodeObj | return bad
      let some tol := tolv.toRat? | return bad
      let some n := nv.toNats? | return bad
      return ofExcept (fun ps => .list (ps.map encodeObj)) (subdivide objs tol n)
  | "c07_splitvector", [lv, pv] => some <| Id.run do
      let some len := lv.toNat? | return bad
      let some parts := pv.toNat? | return bad
      if parts = 0 then return (PyErr.zeroDiv).toVal
      return Val.ofNats (splitVector len parts)
  | _, _ => none

end Splipy.Driver.C07
