import Splipy.Driver.Common
import Splipy.Model.Catalogue

/-!
Protocol ops of property C17 (and the multipatch state dump reused by C18).

Encodings
* orientation  `[[perm…],[flip… as 0/1]]`
* section      `[0,-1,N]`  (`N` = `None`)
* int array    `[[shape…],[flat C-order…]]`
* object       `[[bases…],[shape… , ncomp],[flat C-order…],rational]`  (as `gen.enc_object`)
-/

namespace Splipy.Driver.C17
open Splipy Splipy.MP Splipy.Driver

def encOri (o : MP.Orientation) : Val :=
  .list [Val.ofNats o.perm, Val.ofNats (o.flip.map (fun b => if b then 1 else 0))]

def decOri (v : Val) : Option MP.Orientation := do
  match ← v.toList? with
  | [p, f] =>
    let perm ← p.toNats?
    let fl ← f.toList?
    let flip ← fl.mapM Val.toBool?
    some ⟨perm, flip⟩
  | _ => none

def encSec (s : MP.Sec) : Val :=
  .list (s.map fun
    | none => .str "N"
    | some false => Val.ofInt 0
    | some true => Val.ofInt (-1))

def decSec (v : Val) : Option MP.Sec := do
  let xs ← v.toList?
  xs.mapM fun
    | .str "N" => some none
    | .num q => if q = 0 then some (some false) else if q = -1 then some (some true) else none
    | _ => none

def chunks (n : ℕ) (l : List ℚ) : ℕ → List (List ℚ)
  | 0 => []
  | k + 1 => l.take n :: chunks n (l.drop n) k

def decObj (v : Val) : Option MP.Obj := do
  match ← v.toList? with
  | [bs, sh, fl, rat] =>
    let bl ← bs.toList?
    let bases ← bl.mapM decodeBasis
    let shape ← sh.toNats?
    let flat ← fl.toRats?
    let rational ← rat.toBool?
    let ncomp := shape.getLastD 0
    let dims := shape.dropLast
    let npts := shapeSize dims
    if flat.length ≠ npts * ncomp then none
    some { bases := bases, cps := ⟨dims, (chunks ncomp flat npts).toArray⟩, rational := rational }
  | _ => none

def encObj (o : MP.Obj) : Val :=
  .list [.list (o.bases.map encodeBasis), Val.ofNats (o.shape ++ [o.ncomp]),
         Val.ofRats (o.cps.data.toList.flatten), Val.ofBool o.rational]

def decIntArr (v : Val) : Option (MP.NdArr ℤ) := do
  match ← v.toList? with
  | [sh, fl] =>
    let shape ← sh.toNats?
    let flat ← fl.toInts?
    if flat.length ≠ shapeSize shape then none
    some ⟨shape, flat.toArray⟩
  | _ => none

def encIntArr (a : MP.NdArr ℤ) : Val := .list [Val.ofNats a.shape, Val.ofInts a.data.toList]

def errVal (e : MP.MErr) : Val := Val.err e.pyName

/-- label of a node: `(dim, position in catalogue.nodes(dim))` -/
def labelMap (m : MP.Model) : Std.HashMap ℕ (ℕ × ℕ) :=
  (List.range (m.pardim + 1)).foldl (fun acc d =>
    (m.nodesOf d).zipIdx.foldl (fun acc p => acc.insert p.1 (d, p.2)) acc) {}

def encLabel (lm : Std.HashMap ℕ (ℕ × ℕ)) (id : ℕ) : Val :=
  match lm[id]? with
  | some (d, p) => Val.ofNats [d, p]
  | none => .str "unlisted"

def posOf (lm : Std.HashMap ℕ (ℕ × ℕ)) (id : ℕ) : ℕ := (lm[id]?.map (·.2)).getD 1000000

def encView (lm : Std.HashMap ℕ (ℕ × ℕ)) (r : Except MP.MErr (ℕ × MP.Orientation)) : Val :=
  match r with
  | .ok (id, o) => .list [encLabel lm id, encOri o]
  | .error e => errVal e

/-- dump of the observable state of a model -/
def dumpModel (sm : MP.SplineModel) : List Val :=
  let m := sm.cat
  let lm := labelMap m
  let dims := List.range (m.pardim + 1)
  let counts := Val.ofNats (dims.map fun d => (m.nodesOf d).length)
  let lowers := Val.list (dims.map fun d => .list ((m.nodesOf d).map fun id =>
      .list ((m.node id).lower.map fun l => Val.ofNats (l.map (posOf lm)))))
  let highers := Val.list (dims.map fun d => .list ((m.nodesOf d).map fun id =>
      .list ((List.range (m.pardim - d)).map fun j =>
        Val.ofNats (sortNat ((((m.node id).higherAt (d + 1 + j)).getD []).map (posOf lm))))))
  let boundary := match sm.boundary with
    | some l => Val.ofNats (sortNat (l.map (posOf lm)))
    | none => Val.err "KeyError"
  let owners := Val.list (dims.map fun d => .list ((m.nodesOf d).map fun id =>
      match (m.node id).owner with
      | some o => encLabel lm o
      | none => .list []))
  [counts, lowers, highers, boundary, owners]

/-- one query against a built model -/
def runQuery (sm : MP.SplineModel) (lm : Std.HashMap ℕ (ℕ × ℕ)) (q : Val) : Val :=
  match q with
  | .list [.str "lookup", ov] =>
    match decObj ov with
    | some o => encView lm (sm.getItem o)
    | none => bad
  | .list [.str "secs", ov] =>
    match decObj ov with
    | some o =>
      .list ((List.range (o.pardim + 1)).map fun d => .list ((sections o.pardim d).map fun sec =>
        encView lm (sm.getItem (o.sect sec))))
    | none => bad
  | .list [.str "vsec", ov, sv] =>
    match decObj ov, decSec sv with
    | some o, some sec =>
      match sm.getItem o with
      | .ok (id, ori) => encView lm (sm.cat.viewSection id ori sec)
      | .error e => errVal e
    | _, _ => bad
  | _ => bad

def handle : Handler
  | "ori_mul", [a, b] => some <| Id.run do
      let some a := decOri a | return bad
      let some b := decOri b | return bad
      if a.pardim ≠ b.pardim then return Val.err "AssertionError"
      return encOri (a * b)
  | "ori_map_array", [o, arr] => some <| Id.run do
      let some o := decOri o | return bad
      let some a := decIntArr arr | return bad
      return encIntArr (o.mapArray a)
  | "ori_map_section", [o, s] => some <| Id.run do
      let some o := decOri o | return bad
      let some s := decSec s | return bad
      return encSec (o.mapSection s)
  | "ori_view_section", [o, s] => some <| Id.run do
      let some o := decOri o | return bad
      let some s := decSec s | return bad
      return encOri (o.viewSection s)
  | "ori_section_maps", [o, s] => some <| Id.run do
      let some o := decOri o | return bad
      let some s := decSec s | return bad
      return .list [encSec (o.mapSection s), encOri (o.viewSection s)]
  | "ori_ifem", [o] => some <| Id.run do
      let some o := decOri o | return bad
      match o.ifemFormat with
      | some n => return Val.ofNat n
      | none => return Val.err "RuntimeError"
  | "ori_compute", [a, b] => some <| Id.run do
      let some a := decObj a | return bad
      let some b := decObj b | return bad
      match MP.Orientation.compute a b with
      | .ok o => return encOri o
      | .error e => return errVal e
  | "sections", [src, tgt] => some <| Id.run do
      let some src := src.toNat? | return bad
      let some tgt := tgt.toNat? | return bad
      let ss := sections src tgt
      return .list [.list (ss.map encSec),
        .list (ss.map fun s => match sectionToIndex s with | some i => Val.ofNat i | none => .str "None"),
        .list ((List.range ss.length).map fun i =>
          match sectionFromIndex src tgt i with | some s => encSec s | none => .str "None")]
  | "obj_section", [o, s] => some <| Id.run do
      let some o := decObj o | return bad
      let some s := decSec s | return bad
      return encObj (o.sect s)
  | "is_right_hand", [o, ktol] => some <| Id.run do
      let some o := decObj o | return bad
      let some ktol := ktol.toRat? | return bad
      match isRightHand ktol o (1 / 1000) with
      | some b => return Val.ofBool b
      | none => return Val.err "ValueError"
  | "c17_model", [pd, dim, frh, batches, ktol, queries] => some <| Id.run do
      let some pd := pd.toNat? | return bad
      let some dim := dim.toNat? | return bad
      let some frh := frh.toBool? | return bad
      let some ktol := ktol.toRat? | return bad
      let some bl := batches.toList? | return bad
      let some bs := bl.mapM (fun b => do
          match ← b.toList? with
          | [tw, objs] =>
            let tw ← tw.toBool?
            let ol ← objs.toList?
            let os ← ol.mapM decObj
            some (tw, os)
          | _ => none) | return bad
      let some qs := queries.toList? | return bad
      match MP.SplineModel.new pd dim frh with
      | .error e => return errVal e
      | .ok sm =>
        match bs.foldlM (fun sm (b : Bool × List MP.Obj) => sm.add ktol b.2 (sm.twinsOf b.1)) sm with
        | .error e => return errVal e
        | .ok sm =>
          let lm := labelMap sm.cat
          return .list (dumpModel sm ++ [.list (qs.map (runQuery sm lm))])
  | _, _ => none

end Splipy.Driver.C17
