import Splipy.Driver.Common
import Splipy.Model.Tolerance
import Splipy.Model.StateLang

/-!
Protocol ops of property C20 (tolerances, global settings).

* `c20_snap <basis> <tol> [t…]`                → snapped parameters
* `c20_validate <basis> <tol> [t…]`            → snapped parameters | `err:ValueError`
* `c20_continuity <basis> <tol> <t>`           → integer | `inf` | `err:ValueError`
* `c20_knot_spans <basis> <tol> <ghost>`       → list
* `c20_vertexdict <rtol> <atol> [[op,key,val]…]` → one result per op
* `c20_state_nest <prog> [[name,val]…] <block>` → `[outcome, [final values of the names]]`
* `c20_allclose <rtol> <atol> [a…] [b…]`        → `true|false` (`np.allclose` of `Orientation.compute`)
* `c20_echo <v>`                               → `<v>` (model of "a library call leaves the settings alone")
-/

namespace Splipy.Driver.C20
open Splipy Splipy.Tol Splipy.Driver Splipy.StateLang

def exceptVal {α : Type} (f : α → Val) : Except PyErr α → Val
  | .ok a => f a
  | .error e => e.toVal

/-! ### VertexDict histories -/

def vdStep (d : VertexDict ℚ ℚ) (op : String) (key : Array ℚ) (v : ℚ) : VertexDict ℚ ℚ × Val :=
  let optVal : Option ℚ → Val := fun o => match o with | some x => .num x | none => .str "None"
  match op with
  | "set" =>
      match d.setItem key v with
      | .ok d' => (d', .str "ok")
      | .error e => (d, e.toVal)
  | "get" =>
      -- all live candidates' values, ascending index (`_candidate` picks one of them)
      if key.size = 0 then (d, PyErr.type.toVal)
      else
        match d.liveCandidates key with
        | [] => (d, PyErr.key.toVal)
        | cs => (d, .list (cs.map (fun c => optVal (d.values.getD c none))))
  | "del" =>
      match d.delItem key with
      | .ok d' => (d', .str "ok")
      | .error e => (d, e.toVal)
  | "setdefault" =>
      -- MutableMapping.setdefault: try self[key] except KeyError: self[key] = default
      match d.getItem key with
      | .ok x => (d, .list [optVal x])
      | .error .key =>
          match d.setItem key v with
          | .ok d' => (d', .list [.num v])
          | .error e => (d, e.toVal)
      | .error e => (d, e.toVal)
  | "contains" =>
      match d.getItem key with
      | .ok _ => (d, Val.ofBool true)
      | .error .key => (d, Val.ofBool false)
      | .error e => (d, e.toVal)
  | "len" => (d, Val.ofNat d.len)
  | "ncand" => (d, Val.ofNat (d.liveCandidates key).length)
  | _ => (d, bad)

def vdRun (rtol atol : ℚ) (ops : List Val) : Val := Id.run do
  let mut d : VertexDict ℚ ℚ := VertexDict.empty rtol atol
  let mut out : Array Val := #[]
  for o in ops do
    match o with
    | .list [.str op, kv, vv] =>
        let some key := kv.toRats? | return bad
        let some v := vv.toRat? | return bad
        let (d', r) := vdStep d op key.toArray v
        d := d'
        out := out.push r
    | _ => return bad
  return .list out.toList

/-! ### `state()` nests -/

partial def decodeProg : Val → Option Stmt
  | .list [.str "skip"] => some .skip
  | .list [.str "setFrom"] => some .setFrom
  | .list [.str "yield"] => some .yield
  | .list [.str "restoreAll"] => some .restoreAll
  | .list [.str "unknown"] => some (.unknown "")
  | .list [.str "saveAll", .list ks] => do
      let names ← ks.mapM Val.toStr?
      some (.saveAll names)
  | .list [.str "seq", a, b] => do
      let a' ← decodeProg a
      let b' ← decodeProg b
      some (.seq a' b')
  | .list [.str "tryFinally", a, b] => do
      let a' ← decodeProg a
      let b' ← decodeProg b
      some (.tryFinally a' b')
  | _ => none

def decodePairs (v : Val) : Option (List (String × ℚ)) := do
  let xs ← v.toList?
  xs.mapM (fun p => match p with
    | .list [.str k, .num q] => some (k, q)
    | _ => none)

partial def decodeBlock : Val → Option (Block ℚ)
  | .list [.str "noop"] => some (.leaf (fun s => (.normal, s)))
  | .list [.str "raise"] => some (.leaf (fun s => (.raised, s)))
  | .list [.str "assign", .str k, .num q] => some (.leaf (fun s => (.normal, s.set k q)))
  | .list (.str "seq" :: bs) => do
      let bs' ← bs.mapM decodeBlock
      some (bs'.foldr (fun b acc => .seq b acc) (.leaf (fun s => (.normal, s))))
  | .list [.str "with", kw, inner] => do
      let kw' ← decodePairs kw
      let inner' ← decodeBlock inner
      some (.withState kw' inner')
  | _ => none

def handle : Handler
  | "c20_snap", [bv, tolv, tsv] => some <| Id.run do
      let some b := decodeBasis bv | return bad
      let some tol := tolv.toRat? | return bad
      let some ts := tsv.toRats? | return bad
      return Val.ofRats (ts.map (snap b tol))
  | "c20_validate", [bv, tolv, tsv] => some <| Id.run do
      let some b := decodeBasis bv | return bad
      let some tol := tolv.toRat? | return bad
      let some ts := tsv.toRats? | return bad
      return exceptVal Val.ofRats (validateDomain b tol ts)
  | "c20_continuity", [bv, tolv, tv] => some <| Id.run do
      let some b := decodeBasis bv | return bad
      let some tol := tolv.toRat? | return bad
      let some t := tv.toRat? | return bad
      return exceptVal (fun o => match o with | some z => Val.ofInt z | none => .str "inf")
        (continuity b tol t)
  | "c20_knot_spans", [bv, tolv, gv] => some <| Id.run do
      let some b := decodeBasis bv | return bad
      let some tol := tolv.toRat? | return bad
      let some g := gv.toBool? | return bad
      return Val.ofRats (knotSpans b tol g)
  | "c20_vertexdict", [rv, av, opsv] => some <| Id.run do
      let some rtol := rv.toRat? | return bad
      let some atol := av.toRat? | return bad
      let some ops := opsv.toList? | return bad
      return vdRun rtol atol ops
  | "c20_state_nest", [pv, sv, blk] => some <| Id.run do
      let some prog := decodeProg pv | return bad
      let some init := decodePairs sv | return bad
      let some b := decodeBlock blk | return bad
      if prog.hasUnknown then return Val.err "untranslatable"
      let s0 : Store ℚ := applyKw init (fun _ => 0)
      let r := b.exec prog (fun st => (.raised, st)) s0
      let o := match r.1 with | .normal => "normal" | .raised => "raised"
      return .list [.str o, Val.ofRats (init.map (fun p => r.2 p.1))]
  | "c20_allclose", [rv, av, xs, ys] => some <| Id.run do
      let some rtol := rv.toRat? | return bad
      let some atol := av.toRat? | return bad
      let some a := xs.toRats? | return bad
      let some b := ys.toRats? | return bad
      return Val.ofBool (allclose rtol atol a b)
  | "c20_echo", [v] => some v
  | _, _ => none

end Splipy.Driver.C20
