import Splipy.Driver.Common

namespace Splipy.Driver.C01
open Splipy Splipy.Driver

/-- `basis_eval <basis> <tol> <t> <d> <fromRight>` → `[dense, data, idx]`
    mirrors `BSplineBasis.evaluate(t, d, from_right, sparse)` for one point. -/
def handle : Handler
  | "basis_eval", [bv, tolv, tv, dv, frv] => some <| Id.run do
      let some b := decodeBasis bv | return bad
      let some tol := tolv.toRat? | return bad
      let some t := tv.toRat? | return bad
      let some d := dv.toNat? | return bad
      let some fr := frv.toBool? | return bad
      let dense := b.evaluate tol t d fr
      if b.order ≤ d then
        return .list [ofArr dense, .list [], .list []]
      let r := b.evaluateSparse tol t d fr
      return .list [ofArr dense, ofArr r.data, ofNatArr r.idx]
  | "basis_eval_batch", [bv, tolv, tsv, dv, frv] => some <| Id.run do
      -- one call `b.evaluate([t...], d, from_right)`: the rows are independent of each other
      let some b := decodeBasis bv | return bad
      let some tol := tolv.toRat? | return bad
      let some ts := tsv.toRats? | return bad
      let some d := dv.toNat? | return bad
      let some fr := frv.toBool? | return bad
      return .list (ts.map (fun t => ofArr (b.evaluate tol t d fr)))
  | "basis_snap", [bv, tolv, tv] => some <| Id.run do
      let some b := decodeBasis bv | return bad
      let some tol := tolv.toRat? | return bad
      let some t := tv.toRat? | return bad
      return .num (snap b tol t)
  | _, _ => none

end Splipy.Driver.C01
