import Splipy.Driver.Common
import Splipy.Model.Sections

/-!
Protocol handler for property C15 (sections, corners, edges/faces, const_par_curve, edge_curves,
coons_patch, edge_surfaces, extrude).

Encodings: a selector is the word `none` or an integer; keyword selectors are `[[dir,sel],…]` with
`dir ∈ {0,1,2}` for `u,v,w`; a `section` result is `[Class,<obj>]` or `[ndarray,[shape],[flat]]`.
`unsupported` is answered only for `sec_thicken` (not modelled).
-/

namespace Splipy.Driver.C15
open Splipy Splipy.Driver Splipy.Sections

def decodeSel : Val → Option Sel
  | .str "none" => some none
  | .num q => if q.den == 1 then some (some q.num) else none
  | _ => none

def encodeSel : Sel → Val
  | none => .str "none"
  | some i => Val.ofInt i

def decodeSec (v : Val) : Option Sec := do
  let xs ← v.toList?
  xs.mapM decodeSel

def encodeSec (s : Sec) : Val := .list (s.map encodeSel)

def decodeKw (v : Val) : Option (List (ℕ × Sel)) := do
  let xs ← v.toList?
  xs.mapM (fun p => do
    let l ← p.toList?
    match l with
    | [d, s] => do
      let d ← d.toNat?
      let s ← decodeSel s
      some (d, s)
    | _ => none)

def encodeRes : SecResult ℚ → Val
  | .obj cls o => .list [.str cls, encodeObj o]
  | .point a => .list [.str "ndarray", Val.ofNats [a.size], ofArr a]

def decodeObjs (v : Val) : Option (List (Obj ℚ)) := do
  let xs ← v.toList?
  xs.mapM decodeObj

def decodeDir : Val → Option (Int ⊕ String)
  | .num q => if q.den == 1 then some (.inl q.num) else none
  | .str s => some (.inr s)
  | _ => none

def unsupported : Val := .str "unsupported"

def optNat : Option ℕ → Val
  | none => .str "none"
  | some n => Val.ofNat n

def handle : Handler
  | "sec_check", [pd, av, kv] => some <| Id.run do
      let some pardim := pd.toNat? | return bad
      let some args := decodeSec av | return bad
      let some kw := decodeKw kv | return bad
      return ofExcept encodeSec (checkSection pardim args kw)
  | "sec_sections", [sv, tv] => some <| Id.run do
      let some src := sv.toNat? | return bad
      let some tgt := tv.toNat? | return bad
      return ofExcept (fun l => .list (l.map encodeSec)) (sectionsPy src tgt)
  | "sec_to_index", [sv] => some <| Id.run do
      let some s := decodeSec sv | return bad
      return optNat (sectionToIndex s)
  | "sec_from_index", [sv, tv, iv] => some <| Id.run do
      let some src := sv.toNat? | return bad
      let some tgt := tv.toNat? | return bad
      let some i := iv.toNat? | return bad
      match sectionFromIndex src tgt i with
      | some s => return encodeSec s
      | none => return .str "none"
  | "sec_section", [ov, av, kv, uv] => some <| Id.run do
      let some o := decodeObj ov | return bad
      let some args := decodeSec av | return bad
      let some kw := decodeKw kv | return bad
      let some unwrap := uv.toBool? | return bad
      return ofExcept encodeRes (o.section args kw unwrap)
  | "sec_corners", [ov, fv] => some <| Id.run do
      let some o := decodeObj ov | return bad
      let some f := fv.toBool? | return bad
      return ofExcept encodeTensor (o.corners f)
  | "sec_edges", [ov] => some <| Id.run do
      let some o := decodeObj ov | return bad
      return ofExcept (fun l => .list (l.map encodeRes)) o.edges
  | "sec_faces", [ov] => some <| Id.run do
      let some o := decodeObj ov | return bad
      return ofExcept (fun l => .list (l.map (fun f => match f with
        | none => .str "none"
        | some r => encodeRes r))) o.faces
  | "sec_cpc", [ov, tolv, kv, dv] => some <| Id.run do
      let some o := decodeObj ov | return bad
      let some tol := tolv.toRat? | return bad
      let some knot := kv.toRat? | return bad
      let some d := decodeDir dv | return bad
      return ofExcept encodeObj (o.constParCurve tol knot d)
  | "sec_edge_curves", [csv, tv, rv, av] => some <| Id.run do
      let some cs := decodeObjs csv | return bad
      let some tol := tv.toRat? | return bad
      let some rtol := rv.toRat? | return bad
      let some atol := av.toRat? | return bad
      return ofExcept encodeObj (Obj.edgeCurves tol cs rtol atol)
  | "sec_coons", [csv, tv] => some <| Id.run do
      let some cs := decodeObjs csv | return bad
      let some tol := tv.toRat? | return bad
      match cs with
      | [a, b, c, d] => return ofExcept encodeObj (Obj.coonsPatch tol a b c d)
      | _ => return bad
  | "sec_edge_surfaces", [ssv, tv] => some <| Id.run do
      let some ss := decodeObjs ssv | return bad
      let some tol := tv.toRat? | return bad
      return ofExcept encodeObj (Obj.edgeSurfaces tol ss)
  | "sec_extrude", [ov, av] => some <| Id.run do
      let some o := decodeObj ov | return bad
      let some a := av.toRats? | return bad
      return ofExcept encodeObj (o.extrude a)
  | "sec_thicken", [_, _] => some unsupported   -- not modelled (square-root normalisation): oracle only
  | _, _ => none

end Splipy.Driver.C15
