import Splipy.Driver.C01

namespace Splipy.Driver
/-- Every per-property handler, tried in order. -/
def handlers : List Handler := [C01.handle]
end Splipy.Driver
