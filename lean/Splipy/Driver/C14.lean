import Splipy.Driver.Common
import Splipy.Model.Interp

namespace Splipy.Driver.C14
open Splipy Splipy.Driver Splipy.Interp

def decodeMat (v : Val) : Option (Mat ℚ) := do
  let rows ← decodeRatLists v
  some (rows.map List.toArray).toArray

/-- `none` (bare word) or a value. -/
def decodeOpt {α} (f : Val → Option α) : Val → Option (Option α)
  | .str "none" => some none
  | v => (f v).map some

/-- `[shape, flat]` -/
def decodeTensor (v : Val) : Option (Tensor ℚ) := do
  match ← v.toList? with
  | [sh, flat] =>
      let shape ← sh.toNats?
      let data ← flat.toRats?
      some { shape := shape, data := data.toArray }
  | _ => none

def decodeBases (v : Val) : Option (List (Basis ℚ)) := do
  (← v.toList?).mapM decodeBasis

def encBC : Basis ℚ × Mat ℚ → Val := fun (b, cp) => .list [encodeBasis b, encodeMat cp]
def encBT : Basis ℚ × Tensor ℚ → Val := fun (b, cp) => .list [encodeBasis b, encodeTensor cp]

/-- Ops (all mirror the factory of the same name; `t`/`u`/`tangents` may be the word `none`):
    `c14_interp_curve basis tol t x`, `c14_lsq_curve basis tol t x`,
    `c14_cubic boundary tol cp_rtol cp_atol x t chords closing tangents`, `c14_bezier tol pts quadratic relative`,
    `c14_rebuild obj tol p n`, `c14_interp_grid bases tol u [shape,flat]`,
    `c14_lsq_grid bases tol u [shape,flat]`, `c14_loft bases tol [[shape,flat]…] centre_distances`,
    `c14_error obj target tol nodes weights` → `[err2 per span, err_inf²]`. -/
def handle : Handler
  | "c14_interp_curve", [bv, tolv, tv, xv] => some <| Id.run do
      let some b := decodeBasis bv | return bad
      let some tol := tolv.toRat? | return bad
      let some t := decodeOpt Val.toRats? tv | return bad
      let some x := decodeMat xv | return bad
      return ofExcept encodeMat (interpolateCurve b tol t x)
  | "c14_lsq_curve", [bv, tolv, tv, xv] => some <| Id.run do
      let some b := decodeBasis bv | return bad
      let some tol := tolv.toRat? | return bad
      let some t := tv.toRats? | return bad
      let some x := decodeMat xv | return bad
      return ofExcept encodeMat (leastSquareCurve b tol t x)
  | "c14_cubic", [bdv, tolv, rtv, atv, xv, tv, chv, clv, tgv] => some <| Id.run do
      let some bd := bdv.toNat? | return bad
      let some tol := tolv.toRat? | return bad
      let some rt := rtv.toRat? | return bad
      let some atl := atv.toRat? | return bad
      let some x := decodeMat xv | return bad
      let some t := decodeOpt Val.toRats? tv | return bad
      let some ch := chv.toRats? | return bad
      let some cl := clv.toRat? | return bad
      let some tg := decodeOpt decodeMat tgv | return bad
      return ofExcept encBC (cubicCurveFull bd tol rt atl x t ch cl tg)
  | "c14_bezier", [tolv, pv, qv, rv] => some <| Id.run do
      let some tol := tolv.toRat? | return bad
      let some pts := decodeMat pv | return bad
      let some q := qv.toBool? | return bad
      let some r := rv.toBool? | return bad
      return ofExcept encBC (bezier tol pts q r)
  | "c14_rebuild", [ov, tolv, pv, nv] => some <| Id.run do
      let some o := decodeObj ov | return bad
      let some tol := tolv.toRat? | return bad
      let some p := pv.toNat? | return bad
      let some n := nv.toNat? | return bad
      return ofExcept encBC (rebuild o tol p n)
  | "c14_interp_grid", [bsv, tolv, uv, xv] => some <| Id.run do
      let some bases := decodeBases bsv | return bad
      let some tol := tolv.toRat? | return bad
      let some u := decodeOpt decodeRatLists uv | return bad
      let some x := decodeTensor xv | return bad
      return ofExcept encodeTensor (interpolateGrid bases tol u x)
  | "c14_lsq_grid", [bsv, tolv, uv, xv] => some <| Id.run do
      let some bases := decodeBases bsv | return bad
      let some tol := tolv.toRat? | return bad
      let some u := decodeRatLists uv | return bad
      let some x := decodeTensor xv | return bad
      return ofExcept encodeTensor (leastSquareGrid bases tol u x)
  | "c14_loft", [bsv, tolv, sv, dv] => some <| Id.run do
      let some bases := decodeBases bsv | return bad
      let some tol := tolv.toRat? | return bad
      let some sl := sv.toList? | return bad
      let some secs := sl.mapM decodeTensor | return bad
      let some dist := dv.toRats? | return bad
      return ofExcept encBT (loftFull bases tol secs dist)
  | "c14_error", [ov, tv, tolv, nv, wv] => some <| Id.run do
      let some o := decodeObj ov | return bad
      let some t := decodeObj tv | return bad
      let some tol := tolv.toRat? | return bad
      let some nodes := nv.toRats? | return bad
      let some weights := wv.toRats? | return bad
      return ofExcept (fun (r : List ℚ × ℚ) => .list [Val.ofRats r.1, .num r.2]) (curveError o t tol nodes weights)
  | "c14_nop", [v] => some v
  | _, _ => none

end Splipy.Driver.C14
