import Splipy.Driver.Common
import Splipy.Model.Identical

namespace Splipy.Driver.C12
open Splipy Splipy.Driver

/-- Direction argument: `[]` = `None`, `[n]` = the int `n`, `[word]` = the string `word`. -/
def decodeDir (v : Val) : Option (Option DirTok) :=
  match v with
  | .list [] => some none
  | .list [.num q] => if q.den == 1 then some (some (.int q.num)) else none
  | .list [.str s] => some (some (.str s))
  | _ => none

/-- The directions a call makes identical (`none` = invalid direction). -/
def requested (dir : Option DirTok) (pardim : ℕ) : Option (List ℕ) :=
  match dir with
  | none => some (List.range pardim)
  | some d => match checkDirection d pardim with
    | .ok i => some [i]
    | .error _ => none

/-- Exact test (at `K = ℚ`) of "the object still evaluates, at the rescaled parameters, to the map it
    represented before; padded coordinates zero": `o` (before) on the grid `params` (given in the OLD
    parametrisation) against `o'` (after) on the grid with `u ↦ (u - a)/(b - a)` in the requested
    directions.  With `order` points inside every knot span per direction this decides equality of
    the two maps for the instance at hand (the hypotheses of `C12_geometry_partial`). -/
def sameMap (o o' : Obj ℚ) (tol : ℚ) (dirs : List ℕ) (params : List (List ℚ)) : Val :=
  if params.isEmpty then .str "skip" else
  let params' := (List.zip (List.range params.length) params).map (fun (d, ps) =>
    if dirs.contains d then
      let a := (o.basis d).start
      let b := (o.basis d).stop
      ps.map (fun u => (u - a) / (b - a))
    else ps)
  match o.evaluate tol params true, o'.evaluate tol params' true with
  | .ok t, .ok t' =>
    let dim := o.dimension
    let dim' := o'.dimension
    let npts := if dim = 0 then 0 else t.data.size / dim
    if dim' < dim ∨ t'.data.size ≠ npts * dim' then .str "exact-differs" else
    if (List.range npts).all (fun pI => (List.range dim').all (fun c =>
        decide (t'.get (pI * dim' + c) = if c < dim then t.get (pI * dim + c) else 0)))
    then .str "exact-same" else .str "exact-differs"
  | _, _ => .str "exact-error"

/-- `c12_identical <obj1> <obj2> <tol> <curve1> <curve2> <direction> <params1> <params2>`
      `SplineObject.make_splines_identical(obj1, obj2, direction)` → `err:…` or
      `[obj1', obj2', same1, same2]` (`same_j` = `sameMap obj_j obj_j' …`, `skip` for empty params).
    `c12_compatible <obj1> <obj2>` → `[obj1', obj2']`  (`make_splines_compatible`).
    `c12_inserts <basis1> <basis2> <tol>` → `[ins2, ins1]` the two lists of values the insertion
      passes compute for two bases of the same order (`ins1` with the first list already inserted in
      `basis2`), or `err:…`. -/
def handle : Handler
  | "c12_identical", [o1v, o2v, tolv, c1v, c2v, dv, p1v, p2v] => some <| Id.run do
      let some o1 := decodeObj o1v | return bad
      let some o2 := decodeObj o2v | return bad
      let some tol := tolv.toRat? | return bad
      let some c1 := c1v.toBool? | return bad
      let some c2 := c2v.toBool? | return bad
      let some dir := decodeDir dv | return bad
      let some p1 := decodeRatLists p1v | return bad
      let some p2 := decodeRatLists p2v | return bad
      match Obj.makeIdentical tol c1 c2 o1 o2 dir with
      | .error e => return e.toVal
      | .ok (r1, r2) =>
        let dirs := (requested dir o1.pardimB).getD []
        return .list [encodeObj r1, encodeObj r2, sameMap o1 r1 tol dirs p1, sameMap o2 r2 tol dirs p2]
  | "c12_compatible", [o1v, o2v] => some <| Id.run do
      let some o1 := decodeObj o1v | return bad
      let some o2 := decodeObj o2v | return bad
      let r := Obj.makeCompatible o1 o2
      return .list [encodeObj r.1, encodeObj r.2]
  | "c12_inserts", [b1v, b2v, tolv] => some <| Id.run do
      let some b1 := decodeBasis b1v | return bad
      let some b2 := decodeBasis b2v | return bad
      let some tol := tolv.toRat? | return bad
      let p := max b1.order b2.order
      match Obj.mergeInserts tol p b1 b2 true (b1.knotSpans tol false).toList with
      | .error e => return e.toVal
      | .ok ins2 =>
        let step := ins2.foldlM (fun (b : Basis ℚ) x => (b.insertKnot x).map (·.1)) b2
        match step with
        | .error e => return e.toVal
        | .ok b2' =>
          match Obj.mergeInserts tol p b1 b2' false (b2.knotSpans tol false).toList with
          | .error e => return e.toVal
          | .ok ins1 => return .list [Val.ofRats ins2, Val.ofRats ins1]
  | _, _ => none

end Splipy.Driver.C12
