import Splipy.Driver.Common
import Splipy.Model.Factories

/-! Protocol handler for property C13 (primitive factories).  Objects travel as
`[[bases],[shape incl. ncomp],[flat C order],rational]`. -/

namespace Splipy.Driver.C13
open Splipy Splipy.Driver

def encObj (o : Fac.Obj ℚ) : Val :=
  .list [.list (o.bases.map encodeBasis), Val.ofNats (o.shape ++ [o.ncomp]),
         Val.ofRats o.cps.flatten, Val.ofBool o.rational]

def encRes (r : PyM (Fac.Obj ℚ)) : Val :=
  match r with
  | .ok o => encObj o
  | .error e => e.toVal

/-- split a flat list into chunks of `n`. -/
def chunks (n : ℕ) (xs : List ℚ) : List (List ℚ) :=
  if n = 0 then [] else
  (List.range (xs.length / n)).map (fun i => (xs.drop (i * n)).take n)

def decObj (v : Val) : Option (Fac.Obj ℚ) := do
  let xs ← v.toList?
  match xs with
  | [bs, sh, flat, rat] =>
      let bl ← bs.toList?
      let bases ← bl.mapM decodeBasis
      let shape ← sh.toNats?
      let fl ← flat.toRats?
      let r ← rat.toBool?
      let nc := shape.getLastD 0
      some { bases := bases, shape := shape.dropLast, cps := chunks nc fl, rational := r,
             dim := nc - (if r then 1 else 0) }
  | _ => none

def decAux (v : Val) : Option (Fac.NAux ℚ) := do
  match ← v.toRats? with
  | [a, b, c, d] => some ⟨a, b, c, d⟩
  | _ => none

def decArc (v : Val) : Option (Fac.ArcAux ℚ) := do
  match ← v.toList? with
  | [n, c, s] => some ⟨← n.toNat?, ← c.toRat?, ← s.toRat?⟩
  | _ => none

def decConsts (v : Val) : Option (Fac.Consts ℚ) := do
  match ← v.toRats? with
  | [a, b, c] => some ⟨a, b, c⟩
  | _ => none

def decPts (v : Val) : Option (List (List ℚ)) := do
  (← v.toList?).mapM Val.toRats?

def decPairs (v : Val) : Option (List (ℚ × ℚ)) := do
  (← decPts v).mapM (fun p => match p with | [a, b] => some (a, b) | _ => none)

def handle : Handler
  | "f_line", [a, b, rel] => some <| Id.run do
      let some a := a.toRats? | return bad
      let some b := b.toRats? | return bad
      let some rel := rel.toBool? | return bad
      return encObj (Fac.line a b rel)
  | "f_polygon_auto", [pts, dists, rel] => some <| Id.run do
      let some pts := decPts pts | return bad
      let some dists := dists.toRats? | return bad
      let some rel := rel.toBool? | return bad
      return encObj (Fac.polygonAuto pts dists rel)
  | "f_polygon_t", [pts, t, rel] => some <| Id.run do
      let some pts := decPts pts | return bad
      let some t := t.toRats? | return bad
      let some rel := rel.toBool? | return bad
      return encObj (Fac.polygonT pts t rel)
  | "f_ngon", [n, r, center, normal, cs, aux] => some <| Id.run do
      let some n := n.toNat? | return bad
      let some r := r.toRat? | return bad
      let some center := center.toRats? | return bad
      let some normal := normal.toRats? | return bad
      let some cs := decPairs cs | return bad
      let some aux := decAux aux | return bad
      return encRes (Fac.nGon n r center normal cs aux)
  | "f_circle", [k, r, center, normal, ty, xaxis, aux, lam] => some <| Id.run do
      let some k := decConsts k | return bad
      let some r := r.toRat? | return bad
      let some center := center.toRats? | return bad
      let some normal := normal.toRats? | return bad
      let some ty := ty.toStr? | return bad
      let some xaxis := xaxis.toRats? | return bad
      let some aux := decAux aux | return bad
      let some lam := lam.toRat? | return bad
      return encRes (Fac.circle k r center normal ty xaxis aux lam)
  | "f_ellipse", [k, r1, r2, center, normal, ty, xaxis, aux, lam] => some <| Id.run do
      let some k := decConsts k | return bad
      let some r1 := r1.toRat? | return bad
      let some r2 := r2.toRat? | return bad
      let some center := center.toRats? | return bad
      let some normal := normal.toRats? | return bad
      let some ty := ty.toStr? | return bad
      let some xaxis := xaxis.toRats? | return bad
      let some aux := decAux aux | return bad
      let some lam := lam.toRat? | return bad
      return encRes (Fac.ellipse k r1 r2 center normal ty xaxis aux lam)
  | "f_arc", [k, theta, r, center, normal, xaxis, arc, aux, lam] => some <| Id.run do
      let some k := decConsts k | return bad
      let some theta := theta.toRat? | return bad
      let some r := r.toRat? | return bad
      let some center := center.toRats? | return bad
      let some normal := normal.toRats? | return bad
      let some xaxis := xaxis.toRats? | return bad
      let some arc := decArc arc | return bad
      let some aux := decAux aux | return bad
      let some lam := lam.toRat? | return bad
      return encRes (Fac.circleSegment k theta r center normal xaxis arc aux lam)
  | "f_three", [k, tol, x0, x1, x2, radius, thS, arcS, thL, arcL, aW, lamW] =>
      some <| Id.run do
      let some k := decConsts k | return bad
      let some tol := tol.toRat? | return bad
      let some x0 := x0.toRats? | return bad
      let some x1 := x1.toRats? | return bad
      let some x2 := x2.toRats? | return bad
      let some radius := radius.toRat? | return bad
      let some thS := thS.toRat? | return bad
      let some arcS := decArc arcS | return bad
      let some thL := thL.toRat? | return bad
      let some arcL := decArc arcL | return bad
      let some aW := decAux aW | return bad
      let some lamW := lamW.toRat? | return bad
      return encRes (Fac.threePoints k tol x0 x1 x2 radius thS arcS thL arcL aW lamW)
  | "f_three_dot", [k, tol, x0, x1, x2, radius, thS, arcS, thL, arcL, aW, lamW] =>
      some <| Id.run do
      let some k := decConsts k | return bad
      let some tol := tol.toRat? | return bad
      let some x0 := x0.toRats? | return bad
      let some x1 := x1.toRats? | return bad
      let some x2 := x2.toRats? | return bad
      let some radius := radius.toRat? | return bad
      let some thS := thS.toRat? | return bad
      let some arcS := decArc arcS | return bad
      let some thL := thL.toRat? | return bad
      let some arcL := decArc arcL | return bad
      let some aW := decAux aW | return bad
      let some lamW := lamW.toRat? | return bad
      return encRes (Fac.threePointsWith true k tol x0 x1 x2 radius thS arcS thL arcL aW lamW)
  | "f_three_data", [tol, x0, x1, x2] => some <| Id.run do
      let some tol := tol.toRat? | return bad
      let some x0 := x0.toRats? | return bad
      let some x1 := x1.toRats? | return bad
      let some x2 := x2.toRats? | return bad
      match Fac.threePointData tol x0 x1 x2 with
      | .ok d => return .list [Val.ofRats d.center, Val.ofRats d.v0, Val.ofRats d.w2,
                               Val.ofRats (Fac.cross3 d.v0 d.v1), Val.ofBool d.keep]
      | .error e => return e.toVal
  | "f_square", [size, ll] => some <| Id.run do
      let some size := size.toRats? | return bad
      let some ll := ll.toRats? | return bad
      return encRes (Fac.square size ll)
  | "f_cube", [size, ll] => some <| Id.run do
      let some size := size.toRats? | return bad
      let some ll := ll.toRats? | return bad
      return encRes (Fac.cube size ll)
  | "f_disc", [k, r, center, normal, ty, xaxis, aux, lam] => some <| Id.run do
      let some k := decConsts k | return bad
      let some r := r.toRat? | return bad
      let some center := center.toRats? | return bad
      let some normal := normal.toRats? | return bad
      let some ty := ty.toStr? | return bad
      let some xaxis := xaxis.toRats? | return bad
      let some aux := decAux aux | return bad
      let some lam := lam.toRat? | return bad
      return encRes (Fac.disc k r center normal ty xaxis aux lam)
  | "f_sphere", [k, r, center, zaxis, xaxis, aux, lam] => some <| Id.run do
      let some k := decConsts k | return bad
      let some r := r.toRat? | return bad
      let some center := center.toRats? | return bad
      let some zaxis := zaxis.toRats? | return bad
      let some xaxis := xaxis.toRats? | return bad
      let some aux := decAux aux | return bad
      let some lam := lam.toRat? | return bad
      return encRes (Fac.sphere k r center zaxis xaxis aux lam)
  | "f_cylinder", [k, r, haxis, center, axis, xaxis, aux, lam] => some <| Id.run do
      let some k := decConsts k | return bad
      let some r := r.toRat? | return bad
      let some haxis := haxis.toRats? | return bad
      let some center := center.toRats? | return bad
      let some axis := axis.toRats? | return bad
      let some xaxis := xaxis.toRats? | return bad
      let some aux := decAux aux | return bad
      let some lam := lam.toRat? | return bad
      return encRes (Fac.cylinder k r haxis center axis xaxis aux lam)
  | "f_torus", [k, r1, r2, center, normal, xaxis, aux, lam] => some <| Id.run do
      let some k := decConsts k | return bad
      let some r1 := r1.toRat? | return bad
      let some r2 := r2.toRat? | return bad
      let some center := center.toRats? | return bad
      let some normal := normal.toRats? | return bad
      let some xaxis := xaxis.toRats? | return bad
      let some aux := decAux aux | return bad
      let some lam := lam.toRat? | return bad
      return encRes (Fac.torus k r1 r2 center normal xaxis aux lam)
  | "f_extrude", [o, amount] => some <| Id.run do
      let some o := decObj o | return bad
      let some amount := amount.toRats? | return bad
      return encRes (Fac.extrude o amount)
  | "f_revolve", [k, o, theta, arc, ax] => some <| Id.run do
      let some k := decConsts k | return bad
      let some o := decObj o | return bad
      let some theta := theta.toRat? | return bad
      let some arc := decArc arc | return bad
      let some ax := decAux ax | return bad
      return encRes (Fac.revolve k o theta arc ax)
  | "f_revolve_vol", [k, o, theta, arc, ax] => some <| Id.run do
      let some k := decConsts k | return bad
      let some o := decObj o | return bad
      let some theta := theta.toRat? | return bad
      let some arc := decArc arc | return bad
      let some ax := decAux ax | return bad
      return encRes (Fac.revolveVol k o theta arc ax)
  | "f_sphere_vol", [k, r, center] => some <| Id.run do
      let some k := decConsts k | return bad
      let some r := r.toRat? | return bad
      let some center := center.toRats? | return bad
      return encRes (Fac.sphereVol k r center)
  | "f_sphere_vol_sq", [k, r, center] => some <| Id.run do
      let some [s2, s3, s6] := k.toRats? | return bad
      let k : ℚ × ℚ × ℚ := (s2, s3, s6)
      let some r := r.toRat? | return bad
      let some center := center.toRats? | return bad
      return encRes (Fac.sphereVolSquare k r center)
  | "f_torus_vol", [k, r1, r2, center, normal, xaxis, ty, aux, lam] => some <| Id.run do
      let some k := decConsts k | return bad
      let some r1 := r1.toRat? | return bad
      let some r2 := r2.toRat? | return bad
      let some center := center.toRats? | return bad
      let some normal := normal.toRats? | return bad
      let some xaxis := xaxis.toRats? | return bad
      let some ty := ty.toStr? | return bad
      let some aux := decAux aux | return bad
      let some lam := lam.toRat? | return bad
      return encRes (Fac.torusVol k r1 r2 center normal xaxis ty aux lam)
  | "f_cylinder_vol", [k, r, haxis, center, axis, xaxis, ty, aux, lam] => some <| Id.run do
      let some k := decConsts k | return bad
      let some r := r.toRat? | return bad
      let some haxis := haxis.toRats? | return bad
      let some center := center.toRats? | return bad
      let some axis := axis.toRats? | return bad
      let some xaxis := xaxis.toRats? | return bad
      let some ty := ty.toStr? | return bad
      let some aux := decAux aux | return bad
      let some lam := lam.toRat? | return bad
      return encRes (Fac.cylinderVol k r haxis center axis xaxis ty aux lam)
  | "f_local_x", [xaxis, aux, lam] => some <| Id.run do
      let some xaxis := xaxis.toRats? | return bad
      let some aux := decAux aux | return bad
      let some lam := lam.toRat? | return bad
      let (c, s) := Fac.rotateLocalXAxis xaxis aux lam
      return Val.ofRats [c, s]
  | "f_flip", [o, center, normal, aux] => some <| Id.run do
      let some o := decObj o | return bad
      let some center := center.toRats? | return bad
      let some normal := normal.toRats? | return bad
      let some aux := decAux aux | return bad
      return encRes (Fac.flipAndMove o center normal aux)
  | "f_noop", _ => some (.str "unmodelled")
  | _, _ => none

end Splipy.Driver.C13
