import Splipy.Driver.Common
import Splipy.Model.Heap
import Splipy.Generated.C11

/-!
Driver for property C11: run a history of operations on the heap model and report the predicted
observables.

`c11_hist <class-label> <init pardims> <steps>` where a step is
`[opname, [operand handles], flavour, [pardims of the new objects the real call returned], raised]`.

Response `[[ [contract, writeSet, returnsReceiver, newHandles, bufferSharers] per step ], sharingEdges]`.
The contract of `opname` comes from the generated table (`Splipy.Generated.C11`); an operation
without a contract is answered with `err:NoContract`.  The values written are arbitrary tokens:
only *where* a contract allows writes matters.
-/

namespace Splipy.Driver.C11
open Splipy Splipy.Driver Splipy.Heap

/-- The object allocated for an operand / a result of parametric dimension `pardim`
    (containers such as a `SplineModel` have `pardim = 0`: a single buffer standing for their store). -/
def objSpec (tag : Nat) (pardim : Nat) : ObjSpec :=
  { bases := (List.range pardim).map (fun k => ⟨2 + k, -1, [(tag : Int), k]⟩)
    cps := [(tag : Int)]
    dimension := 3
    rational := false }

/-- A program of in-place writes through a receiver with `n` bases; `v` selects the flavour
    (each flavour ends up changing the receiver's observation). -/
def inPlaceProg (v n : Nat) (tag : Int) : List Prim :=
  let k := if n = 0 then 0 else v % n
  match v % 7 with
  | 0 => [.rebindCps [tag]]
  | 1 => [.writeCps [tag, tag]]
  | 2 => [.writeKnots k [tag, tag + 1], .rebindCps [tag + 2]]
  | 3 => [.rebindBasis k 4 0 [tag, tag + 1, tag + 2], .writeCps [tag + 3]]
  | 4 => [.swapBases 0 (n - 1), .writeCps [tag + 4]]
  | 5 => [.setScalars 2 true, .rebindCps [tag + 5]]
  | _ => [.setRec k 5 1 (some [tag + 6]), .setRec (if n = 0 then 0 else (v + 1) % n) 3 (-1) none, .writeCps [tag + 7]]

def nbases (h : Heap) (i : Nat) : Nat := ((h.objs[i]?).map (·.bases.length)).getD 0

structure StepReq where
  op : String
  args : List Nat
  flavour : Nat
  newPd : List Nat
  raised : Bool

def decodeStep (v : Val) : Option StepReq := do
  match ← v.toList? with
  | [o, a, f, n, r] =>
      some { op := ← o.toStr?, args := ← a.toNats?, flavour := ← f.toNat?, newPd := ← n.toNats?, raised := ← r.toBool? }
  | _ => none

/-- The operation instance the model executes for a request under contract `c`: a `RawOp` that
    respects `c` (it receives the operand references; the values written are arbitrary tokens). -/
def opFor (h : Heap) (c : Contract) (s : StepReq) (idx : Nat) : RawOp :=
  let tag : Int := 1000 + 10 * (idx : Int)
  let progFor (a : Nat) (v : Nat) (t : Int) : List Act := (inPlaceProg v (nbases h a) t).map Act.prim
  match c with
  | .query => { args := s.args, writes := [], news := [], ret := if s.raised then .none else .newBuffer [tag] }
  | .fresh => { args := s.args, writes := [], news := s.newPd.map (fun pd => (objSpec (1000 + 10 * idx) pd, [])),
                ret := .newObjects }
  | .inPlace => { args := if s.args.isEmpty then [0] else s.args,
                  writes := [(s.args.headD 0, progFor (s.args.headD 0) s.flavour tag)], news := [], ret := .receiver }
  | .procedure => { args := s.args, writes := (s.args.take 1).map (fun a => (a, progFor a s.flavour tag)), news := [],
                    ret := .none }
  | .procedureAll => { args := s.args, writes := s.args.map (fun a => (a, progFor a (s.flavour + a) (tag + 100 * a))),
                       news := [], ret := .none }

def ofPairs (es : List (Nat × Nat)) : Val := .list (es.map (fun e => Val.ofNats [e.1, e.2]))

def runSteps : Heap → Nat → List StepReq → List Val → Except String (Heap × List Val)
  | h, _, [], acc => .ok (h, acc.reverse)
  | h, idx, s :: rest, acc =>
    match (Splipy.Generated.C11.lookup s.op).bind Splipy.Generated.C11.entry with
    | some (.contract c) =>
      let op := opFor h c s idx
      if !op.respects c then .error "ModelOpDoesNotRespectContract" else
      let (h', res) := exec h op
      let retsRecv := match c, res with
        | .inPlace, .handles [r] => r == s.args.headD 0
        | _, _ => false
      let newHandles := match c, res with
        | .fresh, .handles hs => hs
        | _, _ => []
      let bufShare := match res with
        | .buffer id => bufferSharers h' id
        | _ => []
      let out := Val.list [.str c.word, Val.ofNats (writeSet h h'), Val.ofBool retsRecv,
                           Val.ofNats newHandles, Val.ofNats bufShare]
      runSteps h' (idx + 1) rest (out :: acc)
    | _ => .error "NoContract"

def handle : Handler
  | "c11_hist", [_cls, initv, stepsv] => some <| Id.run do
      let some init := initv.toNats? | return bad
      let some stepVals := stepsv.toList? | return bad
      let some steps := stepVals.mapM decodeStep | return bad
      let h0 := buildObjs Heap.empty ((List.range init.length).zipWith (fun i pd => (objSpec i pd, ([] : List Act))) init)
      match runSteps h0 0 steps [] with
      | .error e => return Val.err e
      | .ok (h, outs) => return .list [.list outs, ofPairs (sharingEdges h)]
  | "c11_contract", [.str name] => some <|
      match (Splipy.Generated.C11.lookup name).bind Splipy.Generated.C11.entry with
      | some (.contract c) => .str c.word
      | some (.exempt .accessor) => .str "exempt:accessor"
      | some (.exempt .noOperand) => .str "exempt:noOperand"
      | none => Val.err "NoContract"
  | _, _ => none

end Splipy.Driver.C11
