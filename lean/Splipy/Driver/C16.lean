import Splipy.Driver.Common
import Splipy.Model.Measure

namespace Splipy.Driver.C16
open Splipy Splipy.Driver

/-- `none` (bare word) or a number. -/
def optRat? : Val → Option (Option ℚ)
  | .str "none" => some none
  | .num q => some (some q)
  | _ => none

def ofPairs (l : List (ℚ × ℚ)) : Val := .list (l.map (fun (a, b) => .list [.num a, .num b]))

/-- Protocol ops of property C16:
* `basis_integrate <basis> <tol> <t0> <t1>`                → list | `err:…`
* `obj_center <obj> <tol>`                                 → list
* `curve_length <obj> <tol> <x> <w> <t0|none> <t1|none>`   → `[w_mapped, squared_speeds]`
* `surf_area <obj> <tol> <x1> <w1> <x2> <w2>`              → `[w1, w2, J, total|none]`
* `vol_volume <obj> <tol> <x1> <w1> <x2> <w2> <x3> <w3>`   → number
* `curve_curvature <obj> <tol> <ts> <above>`               → `[[|v×a|², |v|²], …]`
* `curve_torsion <obj> <tol> <ts> <above>`                 → `planar` | `[[(v×a)·a', |v×a|²], …]`
* `curve_frenet <obj> <tol> <atol> <ts> <above> <normal?>` → `[[v, w], …]` -/
def handle : Handler
  | "basis_integrate", [bv, tolv, t0v, t1v] => some <| Id.run do
      let some b := decodeBasis bv | return bad
      let some tol := tolv.toRat? | return bad
      let some t0 := t0v.toRat? | return bad
      let some t1 := t1v.toRat? | return bad
      return ofExcept ofArr (b.integrate tol t0 t1)
  | "obj_center", [ov, tolv] => some <| Id.run do
      let some o := decodeObj ov | return bad
      let some tol := tolv.toRat? | return bad
      return ofExcept ofArr (o.center tol)
  | "curve_length", [ov, tolv, xv, wv, t0v, t1v] => some <| Id.run do
      let some o := decodeObj ov | return bad
      let some tol := tolv.toRat? | return bad
      let some x := xv.toRats? | return bad
      let some w := wv.toRats? | return bad
      let some t0 := optRat? t0v | return bad
      let some t1 := optRat? t1v | return bad
      return ofExcept (fun (wf, s) => .list [Val.ofRats wf, Val.ofRats s]) (o.lengthData tol x w t0 t1)
  | "surf_area", [ov, tolv, x1v, w1v, x2v, w2v] => some <| Id.run do
      let some o := decodeObj ov | return bad
      let some tol := tolv.toRat? | return bad
      let some x1 := x1v.toRats? | return bad
      let some w1 := w1v.toRats? | return bad
      let some x2 := x2v.toRats? | return bad
      let some w2 := w2v.toRats? | return bad
      return ofExcept (fun (a, b, J, tot) =>
          .list [Val.ofRats a, Val.ofRats b, Val.ofRats J,
                 match tot with | some q => .num q | none => .str "none"])
        (o.areaData tol x1 w1 x2 w2)
  | "vol_volume", [ov, tolv, x1v, w1v, x2v, w2v, x3v, w3v] => some <| Id.run do
      let some o := decodeObj ov | return bad
      let some tol := tolv.toRat? | return bad
      let some x1 := x1v.toRats? | return bad
      let some w1 := w1v.toRats? | return bad
      let some x2 := x2v.toRats? | return bad
      let some w2 := w2v.toRats? | return bad
      let some x3 := x3v.toRats? | return bad
      let some w3 := w3v.toRats? | return bad
      return ofExcept Val.num (o.volume tol x1 w1 x2 w2 x3 w3)
  | "curve_curvature", [ov, tolv, tsv, av] => some <| Id.run do
      let some o := decodeObj ov | return bad
      let some tol := tolv.toRat? | return bad
      let some ts := tsv.toRats? | return bad
      let some above := av.toBool? | return bad
      return ofExcept ofPairs (o.curvatureData tol ts above)
  | "curve_torsion", [ov, tolv, tsv, av] => some <| Id.run do
      let some o := decodeObj ov | return bad
      let some tol := tolv.toRat? | return bad
      let some ts := tsv.toRats? | return bad
      let some above := av.toBool? | return bad
      return ofExcept (fun r => match r with | none => .str "planar" | some l => ofPairs l)
        (o.torsionData tol ts above)
  | "curve_frenet", [ov, tolv, atolv, tsv, av, nv] => some <| Id.run do
      let some o := decodeObj ov | return bad
      let some tol := tolv.toRat? | return bad
      let some atol := atolv.toRat? | return bad
      let some ts := tsv.toRats? | return bad
      let some above := av.toBool? | return bad
      let some forNormal := nv.toBool? | return bad
      return ofExcept (fun l => .list (l.map (fun (v, w) => .list [ofArr v, ofArr w])))
        (o.frenetData tol atol ts above forNormal)
  | _, _ => none

end Splipy.Driver.C16
