import Splipy.Driver.Common
import Splipy.Model.DerivSpline
import Splipy.Model.Order

namespace Splipy.Driver.C03
open Splipy Splipy.Driver

/-- `[int, n]`, `[tup, [a,b]]`, `[lst, [a,b]]` -/
def decodeD (v : Val) : Option DSpec := do
  let xs ← v.toList?
  match xs with
  | [.str "int", n] => (DSpec.int) <$> n.toNat?
  | [.str "tup", l] => (DSpec.tup) <$> l.toNats?
  | [.str "lst", l] => (DSpec.lst) <$> l.toNats?
  | _ => none

/-- `[bool, true]`, `[seq, [true,false]]` -/
def decodeA (v : Val) : Option ASpec := do
  let xs ← v.toList?
  match xs with
  | [.str "bool", b] => (ASpec.bool) <$> b.toBool?
  | [.str "seq", l] => do
      let bs ← l.toList?
      (ASpec.seq) <$> bs.mapM Val.toBool?
  | _ => none

def encodeOutcome : Outcome → Val
  | .generic l => .list [.str "generic", Val.ofNats l]
  | .closed l => .list [.str "closed", Val.ofNats l]
  | .zeros => .list [.str "zeros"]
  | .raises e => .list [.str "raises", e.toVal]

/-- vector field + squared norms: `[shape, flat, normsq]` -/
def encodeVec (t : Tensor ℚ) : Val := .list [Val.ofNats t.shape, ofArr t.data, ofArr t.normSqRows]

/-- One in-place operation of a history (`clone` replaces the receiver by its deep copy: a no-op for the
    model, whose objects carry no hidden state). -/
inductive HOp where
  | reparam (dir : ℕ) (s e : ℚ)
  | reverse (dir : ℕ)
  | swap (d1 d2 : ℕ)
  | insert (dir : ℕ) (x : ℚ)
  | raise (amounts : List Int)
  | translate (x : List ℚ)
  | scale (s : List ℚ)
  | clone

def decodeHOp (v : Val) : Option HOp := do
  let xs ← v.toList?
  match xs with
  | [.str "reparam", d, s, e] => some (.reparam (← d.toNat?) (← s.toRat?) (← e.toRat?))
  | [.str "reverse", d] => some (.reverse (← d.toNat?))
  | [.str "swap", d1, d2] => some (.swap (← d1.toNat?) (← d2.toNat?))
  | [.str "insert", d, x] => some (.insert (← d.toNat?) (← x.toRat?))
  | [.str "raise", a] => some (.raise (← a.toInts?))
  | [.str "translate", x] => some (.translate (← x.toRats?))
  | [.str "scale", x] => some (.scale (← x.toRats?))
  | [.str "clone"] => some .clone
  | _ => none

def applyHOp (tol : ℚ) (o : Obj ℚ) : HOp → PyM (Obj ℚ)
  | .reparam d s e => o.reparamDir d s e
  | .reverse d => .ok (o.reverse d)
  | .swap d1 d2 => .ok (if o.pardim < 2 then o else o.swap d1 d2)
  | .insert d x => o.insertKnots [x] d
  | .raise a => (o.raiseOrderDispatch tol (o.pardim == 1) a none).map (·.2)
  | .translate x => .ok (o.translate x)
  | .scale s => o.scale s
  | .clone => .ok o

/-- Parameters given as fractions of the CURRENT domain of each direction. -/
def fracParams (o : Obj ℚ) (fracs : List (List ℚ)) : List (List ℚ) :=
  (List.zip o.bases.toList fracs).map (fun (b, fs) => fs.map (fun f => b.start + f * (b.stop - b.start)))

/-- A query of a history: `[dspline,dir]`, `[deriv,fracs,d,above,tensor]`, `[tangent,fracs,dir,above,tensor]`,
    `[eval,fracs,tensor]`. -/
def runQuery (o : Obj ℚ) (tol : ℚ) (q : Val) : Val :=
  match q with
  | .list [.str "dspline", dirv] =>
      match dirv.toNat? with
      | some dir => ofExcept encodeObj (o.getDerivativeSpline tol dir)
      | none => bad
  | .list [.str "deriv", fv, dv, av, tv] =>
      match decodeRatLists fv, decodeD dv, decodeA av, tv.toBool? with
      | some fr, some d, some a, some tensor =>
          ofExcept encodeTensor (o.derivativeCall tol (fracParams o fr) d a tensor)
      | _, _, _, _ => bad
  | .list [.str "tangent", fv, dirv, av, tv] =>
      match decodeRatLists fv, dirv.toInt?, decodeA av, tv.toBool? with
      | some fr, some dir, some a, some tensor =>
          let d : Option ℕ := if dir < 0 then none else some dir.toNat
          ofExcept (fun l => .list (l.map encodeVec)) (o.tangent tol (fracParams o fr) d a tensor)
      | _, _, _, _ => bad
  | .list [.str "eval", fv, tv] =>
      match decodeRatLists fv, tv.toBool? with
      | some fr, some tensor => ofExcept encodeTensor (o.evaluate tol (fracParams o fr) tensor)
      | _, _ => bad
  | _ => bad

/--
* `c03_deriv <obj> <tol> <params> <d> <above> <tensor>` → `[shape, flat]`: `obj.derivative(*params, d=, above=, tensor=)`
  through the class of the object (before the squeeze).
* `c03_outcome <pardim> <rational> <d>` → the dispatch outcome.
* `c03_dspline <obj> <tol> <dir>` → derivative object; `dir = -1` → list for all directions.
* `c03_tangent <obj> <tol> <params> <dir|-1> <above> <tensor>` → list of `[shape, flat, normsq]`.
* `c03_history <obj> <tol> <ops> <query>` → `[query before, ok | err:…, query after the in-place ops]`.
* `c03_snormal <obj> <tol> <params> <above> <tensor>`, `c03_binormal <obj> <tol> <ts> <above>`,
  `c03_cnormal <obj> <tol> <ts> <above>` → `[shape, flat, normsq]` (un-normalised).
-/
def handle : Handler
  | "c03_deriv", [ov, tolv, pv, dv, av, tv] => some <| Id.run do
      let some o := decodeObj ov | return bad
      let some tol := tolv.toRat? | return bad
      let some ps := decodeRatLists pv | return bad
      let some d := decodeD dv | return bad
      let some a := decodeA av | return bad
      let some tensor := tv.toBool? | return bad
      return ofExcept encodeTensor (o.derivativeCall tol ps d a tensor)
  | "c03_history", [ov, tolv, opsv, qv] => some <| Id.run do
      let some o := decodeObj ov | return bad
      let some tol := tolv.toRat? | return bad
      let some ol := opsv.toList? | return bad
      let some ops := ol.mapM decodeHOp | return bad
      let before := runQuery o tol qv
      match ops.foldlM (applyHOp tol) o with
      | .error e => return .list [before, e.toVal, e.toVal]
      | .ok o' => return .list [before, .str "ok", runQuery o' tol qv]
  | "c03_outcome", [pdv, rv, dv] => some <| Id.run do
      let some pd := pdv.toNat? | return bad
      let some r := rv.toBool? | return bad
      let some d := decodeD dv | return bad
      return encodeOutcome (match pd with
        | 1 => curveOutcome r d
        | 2 => surfaceOutcome r d
        | _ => volumeOutcome r d)
  | "c03_dspline", [ov, tolv, dirv] => some <| Id.run do
      let some o := decodeObj ov | return bad
      let some tol := tolv.toRat? | return bad
      let some dir := dirv.toInt? | return bad
      if dir < 0 then
        -- `direction=None`: rational check first, then every direction
        if o.rational then return PyErr.runtime.toVal
        match (List.range o.pardim).mapM (fun k => o.getDerivativeSpline tol k) with
        | .error e => return e.toVal
        | .ok l => return .list (l.map encodeObj)
      else
        return ofExcept encodeObj (o.getDerivativeSpline tol dir.toNat)
  | "c03_tangent", [ov, tolv, pv, dirv, av, tv] => some <| Id.run do
      let some o := decodeObj ov | return bad
      let some tol := tolv.toRat? | return bad
      let some ps := decodeRatLists pv | return bad
      let some dir := dirv.toInt? | return bad
      let some a := decodeA av | return bad
      let some tensor := tv.toBool? | return bad
      let d : Option ℕ := if dir < 0 then none else some dir.toNat
      return ofExcept (fun l => .list (l.map encodeVec)) (o.tangent tol ps d a tensor)
  | "c03_snormal", [ov, tolv, pv, av, tv] => some <| Id.run do
      let some o := decodeObj ov | return bad
      let some tol := tolv.toRat? | return bad
      let some ps := decodeRatLists pv | return bad
      let some a := decodeA av | return bad
      let some tensor := tv.toBool? | return bad
      match ps with
      | [us, vs] => return ofExcept encodeVec (o.surfaceNormalRaw tol us vs a tensor)
      | _ => return bad
  | "c03_binormal", [ov, tolv, pv, av] => some <| Id.run do
      let some o := decodeObj ov | return bad
      let some tol := tolv.toRat? | return bad
      let some ts := pv.toRats? | return bad
      let some a := decodeA av | return bad
      return ofExcept encodeVec (o.curveBinormalRaw tol ts a)
  | "c03_cnormal", [ov, tolv, pv, av] => some <| Id.run do
      let some o := decodeObj ov | return bad
      let some tol := tolv.toRat? | return bad
      let some ts := pv.toRats? | return bad
      let some a := decodeA av | return bad
      return ofExcept encodeVec (o.curveNormalRaw tol ts a)
  | _, _ => none

end Splipy.Driver.C03
