import Mathlib.Data.Rat.Floor
import Splipy.Proto.Val
import Splipy.Model.Basis

/-! Decoding helpers shared by the per-property drivers (everything at `K = ℚ`). -/

namespace Splipy.Driver

open Splipy

/-- `[order, [knots...], periodic]` -/
def decodeBasis (v : Val) : Option (Basis ℚ) := do
  let xs ← v.toList?
  match xs with
  | [o, ks, per] =>
      let order ← o.toNat?
      let knots ← ks.toRats?
      let periodic ← per.toInt?
      some { order := order, knots := knots.toArray, periodic := periodic }
  | _ => none

def encodeBasis (b : Basis ℚ) : Val :=
  .list [Val.ofNat b.order, Val.ofRats b.knots.toList, Val.ofInt b.periodic]

def ofArr (a : Array ℚ) : Val := Val.ofRats a.toList
def ofNatArr (a : Array ℕ) : Val := Val.ofNats a.toList

/-- A handler takes the op name and its arguments, returns `none` if the op is not its own. -/
abbrev Handler := String → List Val → Option Val

def bad : Val := .str "bad-op"

def sideOfBool (b : Bool) : Side := if b then .right else .left

end Splipy.Driver
