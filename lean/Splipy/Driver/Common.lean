import Mathlib.Data.Rat.Floor
import Splipy.Proto.Val
import Splipy.Model.Basis
import Splipy.Model.Object

/-! Decoding helpers shared by the per-property drivers (everything at `K = ℚ`). -/

namespace Splipy.Driver

open Splipy

/-- `[order, [knots...], periodic]` -/
def decodeBasis (v : Val) : Option (Basis ℚ) := do
  let xs ← v.toList?
  match xs with
  | [o, ks, per] =>
      let order ← o.toNat?
      let knots ← ks.toRats?
      let periodic ← per.toInt?
      some { order := order, knots := knots.toArray, periodic := periodic }
  | _ => none

def encodeBasis (b : Basis ℚ) : Val :=
  .list [Val.ofNat b.order, Val.ofRats b.knots.toList, Val.ofInt b.periodic]

def ofArr (a : Array ℚ) : Val := Val.ofRats a.toList
def ofNatArr (a : Array ℕ) : Val := Val.ofNats a.toList

/-- A handler takes the op name and its arguments, returns `none` if the op is not its own. -/
abbrev Handler := String → List Val → Option Val

def bad : Val := .str "bad-op"

def sideOfBool (b : Bool) : Side := if b then .right else .left

end Splipy.Driver

namespace Splipy.Driver
open Splipy

/-- `[[bases...],[shape incl. ncomp],[flat C-order],rational]` (see harness/vlib/gen.py `enc_object`). -/
def decodeObj (v : Val) : Option (Obj ℚ) := do
  let xs ← v.toList?
  match xs with
  | [bs, sh, flat, rat] =>
      let bl ← bs.toList?
      let bases ← bl.mapM decodeBasis
      let shape ← sh.toNats?
      let data ← flat.toRats?
      let r ← rat.toBool?
      some { bases := bases.toArray, cps := { shape := shape, data := data.toArray }, rational := r }
  | _ => none

def encodeTensor (t : Tensor ℚ) : Val := .list [Val.ofNats t.shape, ofArr t.data]

def encodeObj (o : Obj ℚ) : Val :=
  .list [.list (o.bases.toList.map encodeBasis), Val.ofNats o.cps.shape, ofArr o.cps.data, Val.ofBool o.rational]

def ofExcept {α} (f : α → Val) : PyM α → Val
  | .ok a => f a
  | .error e => e.toVal

def decodeRatLists (v : Val) : Option (List (List ℚ)) := do
  let xs ← v.toList?
  xs.mapM Val.toRats?

def encodeMat (m : Mat ℚ) : Val := .list (m.toList.map ofArr)

end Splipy.Driver
