import Splipy.Driver.Common
import Splipy.Driver.C09
import Splipy.Driver.C15
import Splipy.Model.History
import Splipy.Model.Accessors

/-!
Protocol handler of property C10 (histories over the public API, well-formedness verdicts,
constructor validation).

A history instruction arrives with *symbolic* parameter values that are resolved against the CURRENT
state of the receiver, on either side against its own state (the model against its exact knots, the
harness against the float knots of the real object), so that "an existing knot" is an existing knot
on both sides:

  `[k, j]`      domain knot number `j mod len(ks)` of `ks = knots(direction)` (= `knot_spans()`)
  `[m, j, f]`   `ks[j'] + (ks[j'+1] - ks[j']) * f`, `j' = j mod (len(ks) - 1)`
  `[d, f]`      `start + (end - start) * f`  (outside the domain for `f < 0` or `f > 1`)
  `[a, x]`      the literal `x`

Everything else (directions, amounts, continuity, section selectors, affine arguments) is literal.

Instructions (first entry = name, second = pool index of the receiver):
`[insert,i,dir,[pref…]]`, `[split,i,dir,[pref…]]`, `[refine,i,[n…],dir|-1]`, `[raise,i,[amount…],dir|none]`,
`[lower,i,[amount…]]`, `[reverse,i,dir]`, `[swap,i,d1,d2]`, `[reparam,i,dir,s,e]`, `[reparamall,i,[[s,e]…]]`,
`[append,i,j]`, `[makeper,i,continuity|none,dir]`, `[lowerper,i,periodic,dir]`, `[affine,i,<C09 op>]`,
`[section,i,[sel|none…]]`, `[extrude,i,[x,y,z]]`, `[clone,i]`, `[identical,i,j,dir|-1]`.
-/

namespace Splipy.Driver.C10
open Splipy Splipy.Driver Splipy.History

/-- A symbolic parameter value. -/
inductive PRef where
  | knot (j : ℕ)
  | mid (j : ℕ) (f : ℚ)
  | dom (f : ℚ)
  | abs (x : ℚ)

def decodePRef (v : Val) : Option PRef := do
  let xs ← v.toList?
  match xs with
  | [.str "k", j] => some (.knot (← j.toNat?))
  | [.str "m", j, f] => some (.mid (← j.toNat?) (← f.toRat?))
  | [.str "d", f] => some (.dom (← f.toRat?))
  | [.str "a", x] => some (.abs (← x.toRat?))
  | _ => none

def decodePRefs (v : Val) : Option (List PRef) := do
  let xs ← v.toList?
  xs.mapM decodePRef

def PRef.resolve (b : Basis ℚ) (tol : ℚ) : PRef → ℚ
  | .knot j =>
    let ks := b.knotSpans tol false
    ks.getD (j % ks.size) 0
  | .mid j f =>
    let ks := b.knotSpans tol false
    if ks.size < 2 then b.start else
    let j' := j % (ks.size - 1)
    ks.getD j' 0 + (ks.getD (j' + 1) 0 - ks.getD j' 0) * f
  | .dom f => b.start + (b.stop - b.start) * f
  | .abs x => x

/-- A pool instruction before resolution. -/
inductive SymInstr where
  | insert (i dir : ℕ) (ps : List PRef)
  | split (i dir : ℕ) (ps : List PRef)
  | plain (ins : Instr ℚ)

def optInt (v : Val) : Option (Option Int) :=
  match v with
  | .str "none" => some none
  | _ => (v.toInt?).map some

def decodeInstr (v : Val) : Option SymInstr := do
  let xs ← v.toList?
  match xs with
  | [.str "insert", i, d, ps] => some (.insert (← i.toNat?) (← d.toNat?) (← decodePRefs ps))
  | [.str "split", i, d, ps] => some (.split (← i.toNat?) (← d.toNat?) (← decodePRefs ps))
  | [.str "refine", i, ns, d] => do
      let d ← d.toInt?
      some (.plain (.on (← i.toNat?) (.refine (← ns.toNats?) (if d < 0 then none else some d.toNat))))
  | [.str "raise", i, rs, d] => some (.plain (.on (← i.toNat?) (.raiseOrder (← rs.toInts?) (← optInt d))))
  | [.str "lower", i, ls] => some (.plain (.on (← i.toNat?) (.lowerOrder (← ls.toInts?))))
  | [.str "reverse", i, d] => some (.plain (.on (← i.toNat?) (.reverse (← d.toNat?))))
  | [.str "swap", i, a, b] => some (.plain (.on (← i.toNat?) (.swap (← a.toNat?) (← b.toNat?))))
  | [.str "reparam", i, d, s, e] =>
      some (.plain (.on (← i.toNat?) (.reparam (← d.toNat?) (← s.toRat?) (← e.toRat?))))
  | [.str "reparamall", i, a] => some (.plain (.on (← i.toNat?) (.reparamAll (← decodeRatLists a))))
  | [.str "append", i, j] => some (.plain (.append (← i.toNat?) (← j.toNat?)))
  | [.str "makeper", i, c, d] => some (.plain (.on (← i.toNat?) (.makePeriodic (← optInt c) (← d.toNat?))))
  | [.str "lowerper", i, t, d] => some (.plain (.on (← i.toNat?) (.lowerPeriodic (← t.toInt?) (← d.toNat?))))
  | [.str "affine", i, op] => some (.plain (.on (← i.toNat?) (.affine (← C09.decodeOp op))))
  | [.str "section", i, s] => some (.plain (.on (← i.toNat?) (.section (← C15.decodeSec s))))
  | [.str "extrude", i, a] => some (.plain (.on (← i.toNat?) (.extrude (← a.toRats?))))
  | [.str "clone", i] => some (.plain (.on (← i.toNat?) .clone))
  | [.str "identical", i, j, d] => do
      let d ← d.toInt?
      some (.plain (.identical (← i.toNat?) (← j.toNat?) (if d < 0 then none else some d.toNat)))
  | _ => none

/-- Resolve the symbolic values against the current state of the receiver. -/
def SymInstr.resolve (tol : ℚ) (pool : List (Obj ℚ)) : SymInstr → Instr ℚ
  | .insert i dir ps =>
      let b := (pool.getD i default).basis dir
      .on i (.insertKnot (ps.map (·.resolve b tol)) dir)
  | .split i dir ps =>
      let b := (pool.getD i default).basis dir
      .on i (.split (ps.map (·.resolve b tol)) dir)
  | .plain ins => ins

def SymInstr.recv : SymInstr → ℕ
  | .insert i _ _ | .split i _ _ => i
  | .plain (.on i _) | .plain (.append i _) | .plain (.identical i _ _) => i

/-- Second object mutated by the instruction (only `make_splines_identical`). -/
def SymInstr.recv2 : SymInstr → Option ℕ
  | .plain (.identical _ j _) => some j
  | _ => none

/-- The flat indices at which `obj[i]` is probed: both ends, the middle, negative and out-of-range values. -/
def probes (n : ℕ) : List Int :=
  [0, 1, (n / 2 : ℕ), (n : Int) - 1, -1, -(n : Int), (n : Int), -(n : Int) - 1, (n : Int) + 3]

def sameObj (a b : Obj ℚ) : Bool :=
  a.rational == b.rational && a.cps.shape == b.cps.shape && a.cps.data.toList == b.cps.data.toList &&
  a.bases.size == b.bases.size &&
  (List.zip a.bases.toList b.bases.toList).all (fun (x, y) =>
    x.order == y.order && x.periodic == y.periodic && x.knots.toList == y.knots.toList)

/-- The accessor block of one object (`Model/Accessors.lean`):
    `[len, shape, order, [knots…], [knot_spans…], start, end, [obj[i] for the probes], [obj[multi-index] …],
      data after obj[n/2] = [1,2,…], data after obj[multi(n/2)] = [7] (scalar), clone/re-construction equal,
      evaluate(start/mid/end per direction): shape | err]`. -/
def encodeAcc (tol : ℚ) (o : Obj ℚ) : Val :=
  let n := o.len
  let sh := o.shapeAcc
  let flat := (probes n).map (fun (i : Int) => ofExcept ofArr (o.getFlat i))
  let multi := (probes n).map (fun (i : Int) =>
    if 0 ≤ i ∧ i < (n : Int) then
      ofExcept encodeTensor (o.getMulti ((FileIO.unravelF sh i.toNat).map (fun j => (j : Int))))
    else ofExcept encodeTensor (o.getMulti (sh.map (fun m => (m : Int) + i))))
  let cp : Array ℚ := Array.ofFn (n := o.ncomp) (fun c => (c.val : ℚ) + 1)
  let mid : Int := (n / 2 : ℕ)
  let set1 := ofExcept (fun (r : Obj ℚ) => ofArr r.cps.data) (o.setFlat mid cp)
  let set2 := ofExcept (fun (r : Obj ℚ) => ofArr r.cps.data)
    (o.setMulti ((FileIO.unravelF sh (n / 2)).map (fun j => (j : Int))) #[7])
  let recon := match Obj.construct o.bases o.cps o.rational with
    | .ok r => sameObj r o && sameObj o.clone o
    | .error _ => false
  let params := o.bases.toList.map (fun b => [b.start, (b.start + b.stop) / 2, b.stop])
  let ev := match o.evaluate tol params true with
    | .ok t => Val.ofNats t.shape
    | .error e => e.toVal
  .list [Val.ofNat n, Val.ofNats sh, Val.ofNats o.orderAcc, .list (o.knotsAcc.map ofArr),
         .list ((o.knotSpansAcc tol).map ofArr), Val.ofRats o.startAcc, Val.ofRats o.endAcc,
         .list flat, .list multi, set1, set2, Val.ofBool recon, ev]

def encodeEntry (tol : ℚ) (idx : ℕ) (o : Obj ℚ) : Val :=
  .list [Val.ofNat idx, encodeObj o, Val.ofBool o.wfB, encodeAcc tol o]

/-- The trace: after every instruction the CHANGED part of the pool (the receiver and the objects
    appended by the call), each with the verdict of `Obj.wfB`; the first exception ends it. -/
def traceSym (tol : ℚ) : List (Obj ℚ) → List SymInstr → List Val
  | _, [] => []
  | pool, s :: rest =>
    match exec tol pool (s.resolve tol pool) with
    | .error e => [e.toVal]
    | .ok pool' =>
      let i := s.recv
      let second := match s.recv2 with
        | some j => [encodeEntry tol j (pool'.getD j default)]
        | none => []
      let changed := encodeEntry tol i (pool'.getD i default) :: second ++
        (List.range' pool.length (pool'.length - pool.length)).map (fun j => encodeEntry tol j (pool'.getD j default))
      .list changed :: traceSym tol pool' rest

/-- `c10_history <[obj…]> <tol> <[instr…]>` → `[[[wfB, accessors] of the initial objects…], [step…]]`, a step being
      `[[idx, obj, wfB, accessors]…]` (receiver first, then the created objects; accessors: `encodeAcc`) or `err:<class>` (last entry).
    `c10_ctor <order> <knots> <periodic> <tol>` → `[ok, validB]` | `err:ValueError`
      (`BSplineBasis.__init__`, and whether the accepted basis is semantically `Valid`).
    `c10_wf <obj>` → `wfB`. -/
def handle : Handler
  | "c10_history", [pv, tolv, iv] => some <| Id.run do
      let some pl := pv.toList? | return bad
      let some pool := pl.mapM decodeObj | return bad
      let some tol := tolv.toRat? | return bad
      let some il := iv.toList? | return bad
      let some ins := il.mapM decodeInstr | return bad
      return .list [.list (pool.map (fun o => .list [Val.ofBool o.wfB, encodeAcc tol o])), .list (traceSym tol pool ins)]
  | "c10_ctor", [pv, kv, perv, tolv] => some <| Id.run do
      let some p := pv.toInt? | return bad
      let some ks := kv.toRats? | return bad
      let some per := perv.toInt? | return bad
      let some tol := tolv.toRat? | return bad
      if p < 1 then return (PyErr.value).toVal
      match Basis.mk? p.toNat ks.toArray per tol with
      | .error e => return e.toVal
      | .ok b => return .list [.str "ok", Val.ofBool b.validB, ofArr b.knots]
  | "c10_ctor_eval", [pv, kv, perv, tolv, tsv] => some <| Id.run do
      -- BSplineBasis(p, knots, periodic) followed by evaluate(t) for every t (dense rows, from the right)
      let some p := pv.toInt? | return bad
      let some ks := kv.toRats? | return bad
      let some per := perv.toInt? | return bad
      let some tol := tolv.toRat? | return bad
      let some ts := tsv.toRats? | return bad
      if p < 1 then return (PyErr.value).toVal
      match Basis.mk? p.toNat ks.toArray per tol with
      | .error e => return e.toVal
      | .ok b => return .list [.str "ok", Val.ofBool b.validB, ofArr b.knots,
                               .list (ts.map (fun t => ofArr (b.evaluate tol t 0 true)))]
  | "c10_wf", [ov] => some <| Id.run do
      let some o := decodeObj ov | return bad
      return Val.ofBool o.wfB
  | _, _ => none

end Splipy.Driver.C10
