import Splipy.Driver.Common
import Splipy.Driver.C09
import Splipy.Driver.C15
import Splipy.Model.History

/-!
Protocol handler of property C10 (histories over the public API, well-formedness verdicts,
constructor validation).

A history instruction arrives with *symbolic* parameter values that are resolved against the CURRENT
state of the receiver, on either side against its own state (the model against its exact knots, the
harness against the float knots of the real object), so that "an existing knot" is an existing knot
on both sides:

  `[k, j]`      domain knot number `j mod len(ks)` of `ks = knots(direction)` (= `knot_spans()`)
  `[m, j, f]`   `ks[j'] + (ks[j'+1] - ks[j']) * f`, `j' = j mod (len(ks) - 1)`
  `[d, f]`      `start + (end - start) * f`  (outside the domain for `f < 0` or `f > 1`)
  `[a, x]`      the literal `x`

Everything else (directions, amounts, continuity, section selectors, affine arguments) is literal.

Instructions (first entry = name, second = pool index of the receiver):
`[insert,i,dir,[pref…]]`, `[split,i,dir,[pref…]]`, `[refine,i,[n…],dir|-1]`, `[raise,i,[amount…],dir|none]`,
`[lower,i,[amount…]]`, `[reverse,i,dir]`, `[swap,i,d1,d2]`, `[reparam,i,dir,s,e]`, `[reparamall,i,[[s,e]…]]`,
`[append,i,j]`, `[makeper,i,continuity|none,dir]`, `[lowerper,i,periodic,dir]`, `[affine,i,<C09 op>]`,
`[section,i,[sel|none…]]`, `[extrude,i,[x,y,z]]`, `[clone,i]`, `[identical,i,j,dir|-1]`.
-/

namespace Splipy.Driver.C10
open Splipy Splipy.Driver Splipy.History

/-- A symbolic parameter value. -/
inductive PRef where
  | knot (j : ℕ)
  | mid (j : ℕ) (f : ℚ)
  | dom (f : ℚ)
  | abs (x : ℚ)

def decodePRef (v : Val) : Option PRef := do
  let xs ← v.toList?
  match xs with
  | [.str "k", j] => some (.knot (← j.toNat?))
  | [.str "m", j, f] => some (.mid (← j.toNat?) (← f.toRat?))
  | [.str "d", f] => some (.dom (← f.toRat?))
  | [.str "a", x] => some (.abs (← x.toRat?))
  | _ => none

def decodePRefs (v : Val) : Option (List PRef) := do
  let xs ← v.toList?
  xs.mapM decodePRef

def PRef.resolve (b : Basis ℚ) (tol : ℚ) : PRef → ℚ
  | .knot j =>
    let ks := b.knotSpans tol false
    ks.getD (j % ks.size) 0
  | .mid j f =>
    let ks := b.knotSpans tol false
    if ks.size < 2 then b.start else
    let j' := j % (ks.size - 1)
    ks.getD j' 0 + (ks.getD (j' + 1) 0 - ks.getD j' 0) * f
  | .dom f => b.start + (b.stop - b.start) * f
  | .abs x => x

/-- A pool instruction before resolution. -/
inductive SymInstr where
  | insert (i dir : ℕ) (ps : List PRef)
  | split (i dir : ℕ) (ps : List PRef)
  | plain (ins : Instr ℚ)

def optInt (v : Val) : Option (Option Int) :=
  match v with
  | .str "none" => some none
  | _ => (v.toInt?).map some

def decodeInstr (v : Val) : Option SymInstr := do
  let xs ← v.toList?
  match xs with
  | [.str "insert", i, d, ps] => some (.insert (← i.toNat?) (← d.toNat?) (← decodePRefs ps))
  | [.str "split", i, d, ps] => some (.split (← i.toNat?) (← d.toNat?) (← decodePRefs ps))
  | [.str "refine", i, ns, d] => do
      let d ← d.toInt?
      some (.plain (.on (← i.toNat?) (.refine (← ns.toNats?) (if d < 0 then none else some d.toNat))))
  | [.str "raise", i, rs, d] => some (.plain (.on (← i.toNat?) (.raiseOrder (← rs.toInts?) (← optInt d))))
  | [.str "lower", i, ls] => some (.plain (.on (← i.toNat?) (.lowerOrder (← ls.toInts?))))
  | [.str "reverse", i, d] => some (.plain (.on (← i.toNat?) (.reverse (← d.toNat?))))
  | [.str "swap", i, a, b] => some (.plain (.on (← i.toNat?) (.swap (← a.toNat?) (← b.toNat?))))
  | [.str "reparam", i, d, s, e] =>
      some (.plain (.on (← i.toNat?) (.reparam (← d.toNat?) (← s.toRat?) (← e.toRat?))))
  | [.str "reparamall", i, a] => some (.plain (.on (← i.toNat?) (.reparamAll (← decodeRatLists a))))
  | [.str "append", i, j] => some (.plain (.append (← i.toNat?) (← j.toNat?)))
  | [.str "makeper", i, c, d] => some (.plain (.on (← i.toNat?) (.makePeriodic (← optInt c) (← d.toNat?))))
  | [.str "lowerper", i, t, d] => some (.plain (.on (← i.toNat?) (.lowerPeriodic (← t.toInt?) (← d.toNat?))))
  | [.str "affine", i, op] => some (.plain (.on (← i.toNat?) (.affine (← C09.decodeOp op))))
  | [.str "section", i, s] => some (.plain (.on (← i.toNat?) (.section (← C15.decodeSec s))))
  | [.str "extrude", i, a] => some (.plain (.on (← i.toNat?) (.extrude (← a.toRats?))))
  | [.str "clone", i] => some (.plain (.on (← i.toNat?) .clone))
  | [.str "identical", i, j, d] => do
      let d ← d.toInt?
      some (.plain (.identical (← i.toNat?) (← j.toNat?) (if d < 0 then none else some d.toNat)))
  | _ => none

/-- Resolve the symbolic values against the current state of the receiver. -/
def SymInstr.resolve (tol : ℚ) (pool : List (Obj ℚ)) : SymInstr → Instr ℚ
  | .insert i dir ps =>
      let b := (pool.getD i default).basis dir
      .on i (.insertKnot (ps.map (·.resolve b tol)) dir)
  | .split i dir ps =>
      let b := (pool.getD i default).basis dir
      .on i (.split (ps.map (·.resolve b tol)) dir)
  | .plain ins => ins

def SymInstr.recv : SymInstr → ℕ
  | .insert i _ _ | .split i _ _ => i
  | .plain (.on i _) | .plain (.append i _) | .plain (.identical i _ _) => i

/-- Second object mutated by the instruction (only `make_splines_identical`). -/
def SymInstr.recv2 : SymInstr → Option ℕ
  | .plain (.identical _ j _) => some j
  | _ => none

def encodeEntry (idx : ℕ) (o : Obj ℚ) : Val := .list [Val.ofNat idx, encodeObj o, Val.ofBool o.wfB]

/-- The trace: after every instruction the CHANGED part of the pool (the receiver and the objects
    appended by the call), each with the verdict of `Obj.wfB`; the first exception ends it. -/
def traceSym (tol : ℚ) : List (Obj ℚ) → List SymInstr → List Val
  | _, [] => []
  | pool, s :: rest =>
    match exec tol pool (s.resolve tol pool) with
    | .error e => [e.toVal]
    | .ok pool' =>
      let i := s.recv
      let second := match s.recv2 with
        | some j => [encodeEntry j (pool'.getD j default)]
        | none => []
      let changed := encodeEntry i (pool'.getD i default) :: second ++
        (List.range' pool.length (pool'.length - pool.length)).map (fun j => encodeEntry j (pool'.getD j default))
      .list changed :: traceSym tol pool' rest

/-- `c10_history <[obj…]> <tol> <[instr…]>` → `[[wfB of the initial objects…], [step…]]`, a step being
      `[[idx, obj, wfB]…]` (receiver first, then the created objects) or `err:<class>` (last entry).
    `c10_ctor <order> <knots> <periodic> <tol>` → `[ok, validB]` | `err:ValueError`
      (`BSplineBasis.__init__`, and whether the accepted basis is semantically `Valid`).
    `c10_wf <obj>` → `wfB`. -/
def handle : Handler
  | "c10_history", [pv, tolv, iv] => some <| Id.run do
      let some pl := pv.toList? | return bad
      let some pool := pl.mapM decodeObj | return bad
      let some tol := tolv.toRat? | return bad
      let some il := iv.toList? | return bad
      let some ins := il.mapM decodeInstr | return bad
      return .list [.list (pool.map (fun o => Val.ofBool o.wfB)), .list (traceSym tol pool ins)]
  | "c10_ctor", [pv, kv, perv, tolv] => some <| Id.run do
      let some p := pv.toInt? | return bad
      let some ks := kv.toRats? | return bad
      let some per := perv.toInt? | return bad
      let some tol := tolv.toRat? | return bad
      if p < 1 then return (PyErr.value).toVal
      match Basis.mk? p.toNat ks.toArray per tol with
      | .error e => return e.toVal
      | .ok b => return .list [.str "ok", Val.ofBool b.validB]
  | "c10_wf", [ov] => some <| Id.run do
      let some o := decodeObj ov | return bad
      return Val.ofBool o.wfB
  | _, _ => none

end Splipy.Driver.C10
