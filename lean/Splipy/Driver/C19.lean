import Splipy.Driver.Common
import Splipy.Model.IOTokens
import Splipy.Model.IOMesh
import Splipy.Model.IOPrims
import Splipy.Model.IOObjects
import Splipy.Model.IOFiles

/-!
Protocol ops of property C19 (everything at `K = ℚ`).

Token encoding (both directions): a plain number = `Token.num`, `[i,n]` = `Token.int n` (canonical spelling), `[j,n]` = `Token.intNC n` (`00`, `+1`, …),
`[w,word]` = `Token.word`, the bare word `nl` = line end.
Object encoding as in `vlib.gen.enc_object`: `[[bases],[n1,..,nd,ncomp],[flat C order],rational]`.
-/

namespace Splipy.Driver.C19
open Splipy Splipy.Driver Splipy.FileIO

def encTok : Token ℚ → Val
  | .int n => .list [.str "i", Val.ofInt n]
  | .intNC n => .list [.str "j", Val.ofInt n]
  | .num x => .num x
  | .word s => .list [.str "w", .str s]
  | .nl => .str "nl"

def decTok : Val → Option (Token ℚ)
  | .num x => some (.num x)
  | .str "nl" => some .nl
  | .list [.str "i", v] => v.toInt?.map .int
  | .list [.str "j", v] => v.toInt?.map .intNC
  | .list [.str "w", .str s] => some (.word s)
  | .list [.str "w", .num q] => some (.word (Val.ratToString q))
  | _ => none

def decToks (v : Val) : Option (List (Token ℚ)) := do
  let xs ← v.toList?
  xs.mapM decTok

/-- Consecutive chunks of `n` elements. -/
def chunks {α : Type} (n : ℕ) : ℕ → List α → List (List α)
  | 0, _ => []
  | fuel + 1, xs => if xs.isEmpty then [] else xs.take n :: chunks n fuel (xs.drop n)

def decIOBasis (v : Val) : Option (IOBasis ℚ) := do
  match ← v.toList? with
  | [o, ks, per] =>
      some { order := ← o.toNat?, knots := ← ks.toRats?, periodic := ← per.toInt? }
  | _ => none

def decObj (v : Val) : Option (FileIO.Obj ℚ) := do
  match ← v.toList? with
  | [bs, sh, cps, rat] =>
      let bases ← (← bs.toList?).mapM decIOBasis
      let shape ← sh.toNats?
      let flat ← cps.toRats?
      let ncomp ← shape.getLast?
      if ncomp = 0 then none
      some { bases := bases, shape := shape.dropLast, ncomp := ncomp,
             cps := chunks ncomp flat.length flat, rational := ← rat.toBool? }
  | _ => none

def encObj (o : FileIO.Obj ℚ) : Val :=
  .list [.list (o.bases.map fun b => .list [Val.ofNat b.order, Val.ofRats b.knots, Val.ofInt b.periodic]),
         Val.ofNats (o.shape ++ [o.ncomp]), Val.ofRats o.cps.flatten, Val.ofBool o.rational]

def ofExcept {α : Type} (f : α → Val) : Except PyErr α → Val
  | .ok a => f a
  | .error e => e.toVal

def decPts (v : Val) : Option (List (ℚ × ℚ)) := do
  (← v.toList?).mapM fun p => do
    match ← p.toRats? with
    | [x, y] => some (x, y)
    | _ => none

def encPts (ps : List (ℚ × ℚ)) : Val := .list (ps.map fun p => Val.ofRats [p.1, p.2])

/-- `[order, [knots], n]` with `n = -1` for `None`. -/
def decDir (v : Val) : Option (ℕ × List ℚ × Option ℕ) := do
  match ← v.toList? with
  | [o, ks, n] =>
      let nI ← n.toInt?
      some (← o.toNat?, ← ks.toRats?, if nI < 0 then none else some nI.toNat)
  | _ => none

def stlSurface (du dv : ℕ × List ℚ × Option ℕ) : Except PyErr (List ℚ × List ℚ × List (List (ℕ × ℕ))) := do
  let u ← stlParams du.1 du.2.1 du.2.2
  let v ← stlParams dv.1 dv.2.1 dv.2.2
  return (u, v, stlTriangles u.length v.length)

def decAux (av : Val) : Option (PrimAux ℚ) := do
  match ← av.toList? with
  | [kv, nv, lv, zv] =>
    match ← kv.toRats?, ← nv.toRats? with
    | [kp, kw, ks], [ct, st, cp, sp] =>
      some { k := ⟨kp, kw, ks⟩, a := ⟨ct, st, cp, sp⟩, lam := ← lv.toRat?, znorm := ← zv.toRat? }
    | _, _ => none
  | _ => none

def handle : Handler
  | "g2_write", [ovs] => some <| Id.run do
      let some ol := ovs.toList? | return bad
      let some os := ol.mapM decObj | return bad
      if os.any (fun o => o.bases.length = 0 ∨ 3 < o.bases.length) then return bad
      return .list ((os.flatMap g2Write).map encTok)
  | "g2_read", [tolv, tv] => some <| Id.run do
      let some tol := tolv.toRat? | return bad
      let some toks := decToks tv | return bad
      return ofExcept (fun os => .list (os.map encObj)) (g2ReadAll tol toks)
  | "spl_read", [tolv, tv] => some <| Id.run do
      let some tol := tolv.toRat? | return bad
      let some toks := decToks tv | return bad
      return ofExcept encObj (splRead tol toks)
  | "stl_file", [sv] => some <| Id.run do
      let some ss := sv.toList? | return bad
      let some dirs := ss.mapM (fun s => do
          match ← s.toList? with
          | [a, b] => some (← decDir a, ← decDir b)
          | _ => none) | return bad
      match dirs.mapM (fun d => stlSurface d.1 d.2) with
      | .error e => return e.toVal
      | .ok rs =>
        let surfs := rs.map fun r => Val.list [Val.ofRats r.1, Val.ofRats r.2.1,
          .list (r.2.2.map fun t => .list (t.map fun ij => Val.ofNats [ij.1, ij.2]))]
        return .list [.list surfs, Val.ofNat (stlCounter (rs.map fun r => (r.1.length, r.2.1.length)))]
  | "svg_roundtrip", [wv, hv, mv, cv, bv] => some <| Id.run do
      let some W := wv.toRat? | return bad
      let some H := hv.toRat? | return bad
      let some m := mv.toRat? | return bad
      let some cl := cv.toList? | return bad
      let some curves := cl.mapM decPts | return bad
      let some bl := bv.toList? | return bad
      let some beziers := bl.mapM decPts | return bad
      let some bb := svgBBox curves.flatten | return bad
      let L := svgLayout W H m bb
      let written := beziers.map fun b => b.map (svgWritePt L)
      let back := written.map fun b => b.map (svgReadPt L.height)
      return .list [.num L.width, .num L.height, .num L.scale,
        .list (written.map encPts), .list (back.map encPts),
        Val.ofRats [L.scale, L.ox - L.scale * L.cx, L.oy - L.scale * L.cy - 2 * L.margin]]
  | "g2_prim", [av, tolv, tv] => some <| Id.run do
      -- aux = [[pi, 1/sqrt2, sqrt2], [cos th, sin th, cos ph, sin ph], lam, |z_axis|]
      let some al := av.toList? | return bad
      let [kv, nv, lv, zv] := al | return bad
      let some [kp, kw, ks] := kv.toRats? | return bad
      let some [ct, st, cp, sp] := nv.toRats? | return bad
      let some lam := lv.toRat? | return bad
      let some zn := zv.toRat? | return bad
      let some tol := tolv.toRat? | return bad
      let some toks := decToks tv | return bad
      let aux : PrimAux ℚ := { k := ⟨kp, kw, ks⟩, a := ⟨ct, st, cp, sp⟩, lam := lam, znorm := zn }
      return ofExcept (fun r => encodeObj r.1) (g2ReadPrim aux tol toks)
  | "g2_write_obj", [tolv, ovs] => some <| Id.run do
      let some tol := tolv.toRat? | return bad
      let some ol := ovs.toList? | return bad
      let some os := ol.mapM decodeObj | return bad
      if os.any (fun o => o.pardim = 0 ∨ 3 < o.pardim) then return bad
      return ofExcept (fun ts => .list (ts.map encTok)) (g2WriteList tol os)
  | "g2_read_mixed", [auxv, tolv, tv] => some <| Id.run do
      -- auxv: one `[[pi,1/sqrt2,sqrt2],[ct,st,cp,sp],lam,|z|]` per primitive record, in file order
      let some al := auxv.toList? | return bad
      let some auxs := al.mapM decAux | return bad
      let some tol := tolv.toRat? | return bad
      let some toks := decToks tv | return bad
      return ofExcept (fun its => .list (its.map fun it => match it with
        | .spline o => encObj o
        | .prim o => encodeObj o)) (g2ReadMixed auxs tol toks)
  | "stl_file2", [tolv, ovs, nv] => some <| Id.run do
      -- nv: -1 (None), n, or [nu, nv]
      let some tol := tolv.toRat? | return bad
      let some ol := ovs.toList? | return bad
      let some os := ol.mapM decodeObj | return bad
      let n : Option (Option (ℕ × ℕ)) :=
        match nv with
        | .list [a, b] => do let a ← a.toNat?; let b ← b.toNat?; pure (some (a, b))
        | v => match v.toInt? with
          | some k => if k < 0 then some none else some (some (k.toNat, k.toNat))
          | none => none
      let some n := n | return bad
      return ofExcept (fun f => .list [Val.ofNat f.declared,
        .list (f.records.map fun r => .list (r.map Val.ofRats))]) (stlFile tol os n)
  | "svg_roundtrip2", [wv, hv, mv, tolv, cv] => some <| Id.run do
      let some W := wv.toRat? | return bad
      let some H := hv.toRat? | return bad
      let some m := mv.toRat? | return bad
      let some tol := tolv.toRat? | return bad
      let some cl := cv.toList? | return bad
      let some curves := cl.mapM decodeObj | return bad
      -- `SVG.write`: every object is tested for `dimension == 2` when it is handed over
      if let .error e := curves.mapM svgAccept then return e.toVal
      let some bb := svgBBox (curves.flatMap planarPts) | return bad
      let L := svgLayout W H m bb
      match curves.mapM (svgPath tol L) with
      | .error e => return e.toVal
      | .ok written =>
        let back := written.map fun b => b.map (svgReadPt L.height)
        return .list [.num L.width, .num L.height, .num L.scale,
          .list (written.map encPts), .list (back.map encPts),
          Val.ofRats [L.scale, L.ox - L.scale * L.cx, L.oy - L.scale * L.cy - 2 * L.margin]]
  | _, _ => none

end Splipy.Driver.C19
