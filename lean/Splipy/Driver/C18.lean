import Splipy.Driver.C17
import Splipy.Model.Numbering

/-!
Protocol op of property C18.

`c18_model pardim dim [objs…] ktol [names…] [what…] twins`
builds the model (one `add(patch, raise_on_twins=twins)` per patch), then
* `generate_cp_numbers()`            → `[ncps, [[shape,flat] per top node], [[dim,pos,[shape,flat]] per lower node with a view]]`
* `cps()`                            → `[[x,y,z]…]`
* `generate_cell_numbers()`          → `[ncells, [[shape,flat] per top node]]`
* names on `boundary()` round-robin, `faces()` → `[[n0,n1,n2,n3,owner,neighbor,name]…]`
* `OpenFOAM.write` ordering          → `[[faces…], [[name,nFaces,startFace]…], declared, ninternal]`
* `IFEMWriter.connections()`         → `[[master,slave,midx,sidx,orient]…]`
* `fguard`: the decidable guard `facesGuardB` of `C18_faces_assembly` (with `faces`)
* `plans` → `encPlans` (ownership of every codimension-1 section as `plansOfObjs` states it)
Every part is an `err:<Exception>` word when the code raises there; parts not asked for in `what`
are the word `skip`.
-/

namespace Splipy.Driver.C18
open Splipy Splipy.MP Splipy.Driver Splipy.Driver.C17

def nerr (e : NErr) : Val := Val.err e.pyName

def encName : Option String → Val
  | none => .str "None"
  | some s => .str s

def encFace (f : Face) : Val :=
  .list (f.nodes.map Val.ofInt ++ [Val.ofInt f.owner, Val.ofInt f.neighbor, encName f.name])

def encConn (c : Conn) : Val := Val.ofNats [c.master, c.slave, c.midx, c.sidx, c.orient]

def has (what : List String) (w : String) : Bool := what.contains w

/-- `[catalogue plans = plansOfObjs, starOK, wellOrderedB && noJunkB, [[ [owned, owner position, orientation|None] per face ] per patch]]`
    (the second component is read off `plansOfObjs`, the history-level statement the theorems use). -/
def encPlans (sm : MP.SplineModel) (objs : List MP.Obj) : Val :=
  let spec := plansOfObjs objs
  let cat := sm.plans
  let agree := plansAgreeB cat spec
  .list [Val.ofBool agree, Val.ofBool (starOK spec (geomArrays objs)), Val.ofBool (wellOrderedB spec && noJunkB spec),
    .list (spec.map fun p => .list (p.faces.map fun f =>
    .list [Val.ofBool f.owned, Val.ofNat ((f.src.map (·.top)).getD 0),
      if f.owned then .str "None" else match f.ori with
        | .ok o => encOri o
        | .error e => errVal e]))]

def run (sm : MP.SplineModel) (objs : List MP.Obj) (ktol : ℚ) (names : List String) (what : List String) : Val :=
  let plans := if has what "plans" then encPlans sm objs else .str "skip"
  let ifem := if has what "ifem" then
      match sm.connections with
      | .ok cs => Val.list (cs.map encConn)
      | .error e => nerr e
    else .str "skip"
  let ntops := Val.ofNat sm.tops.length
  if !(has what "num") then .list [ntops, .str "skip", .str "skip", .str "skip", .str "skip", .str "skip", ifem, plans, .str "skip"]
  else match sm.generateCpNumbers with
  | .error e => .list [ntops, nerr e, .str "skip", .str "skip", .str "skip", .str "skip", ifem, plans, .str "skip"]
  | .ok r =>
    let lm := labelMap sm.cat
    let lowerNums := Val.list ((List.range' 1 (sm.pardim - 1)).flatMap fun d =>
      (sm.cat.nodesOf d).filterMap fun id =>
        (r.cpOf id).map fun a => Val.list [Val.ofNat d, Val.ofNat (posOf lm id), encIntArr a])
    let num := Val.list [Val.ofNat r.ncps, .list (r.cp.toList.map encIntArr), lowerNums]
    let cps := if has what "cps" then
        match r.cps with
        | .ok a => Val.list (a.toList.map Val.ofRats)
        | .error e => nerr e
      else .str "skip"
    let r := r.generateCellNumbers ktol
    let cells := Val.list [Val.ofNat r.ncells, .list (r.cells.toList.map encIntArr)]
    let fguard := if has what "faces" then
        match r.assignNames names with
        | .error _ => Val.ofBool false
        | .ok r' => Val.ofBool (r'.facesGuardB ktol)
      else .str "skip"
    let (faces, ofoam) :=
      if !(has what "faces") then (Val.str "skip", Val.str "skip")
      else match r.assignNames names with
      | .error e => (nerr e, .str "skip")
      | .ok r =>
        match r.faces ktol with
        | .error e => (nerr e, .str "skip")
        | .ok fs =>
          let o := ofoamWrite fs
          (Val.list (fs.map encFace),
           if has what "ofoam" then
             Val.list [.list (o.faces.map encFace),
               .list (o.entries.map fun e => .list [.str e.1, Val.ofNat e.2.1, Val.ofNat e.2.2]),
               Val.ofNat o.declared, Val.ofNat o.ninternal]
           else .str "skip")
    .list [ntops, num, cps, cells, faces, ofoam, ifem, plans, fguard]

def handle : Handler
  | "c18_model", [pd, dim, objs, ktol, names, what, twins] => some <| Id.run do
      let some twins := twins.toBool? | return bad
      let some pd := pd.toNat? | return bad
      let some dim := dim.toNat? | return bad
      let some ktol := ktol.toRat? | return bad
      let some ol := objs.toList? | return bad
      let some os := ol.mapM decObj | return bad
      let some nl := names.toList? | return bad
      let some names := nl.mapM Val.toStr? | return bad
      let some wl := what.toList? | return bad
      let some what := wl.mapM Val.toStr? | return bad
      match MP.SplineModel.new pd dim false with
      | .error e => return errVal e
      | .ok sm =>
        match os.foldlM (fun sm (o : MP.Obj) => sm.add ktol [o] (sm.twinsOf twins)) sm with
        | .error e => return errVal e
        | .ok sm => return run sm os ktol names what
  | _, _ => none

end Splipy.Driver.C18
