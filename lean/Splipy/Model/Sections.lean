import Splipy.Model.Object
import Splipy.Model.Identical

/-!
# Executable model of the boundary-extraction and boundary-filling code (property C15)

Python sources mirrored here:

* `splipy/utils/__init__.py`: `sections`, `section_from_index`, `section_to_index`, `check_section`,
  `check_direction`;
* `splipy/splineobject.py`: `SplineObject.section`, `SplineObject.corners`;
* `splipy/surface.py`: `Surface.edges`, `Surface.const_par_curve`;
* `splipy/volume.py`: `Volume.edges`, `Volume.faces`;
* `splipy/surface_factory.py`: `edge_curves` (2 and 4 curves, incl. the loop re-ordering search),
  `coons_patch`, `extrude`;
* `splipy/volume_factory.py`: `edge_surfaces` (2 and 6 faces), `extrude`.

The factories mirror the Python statement by statement and call the shared model of
`make_splines_identical` (`Model/Identical.lean`, property C12), `swap`, `reverse`, `force_rational`
(`Model/Object.lean`); nothing is short-cut and no input is declared "unsupported".
`thicken` normalises the velocity with a square root and is not modelled (oracle only).
-/

namespace Splipy

namespace Sections

/-- One selector of a section: `None` (direction stays free) or a control-point index. -/
abbrev Sel := Option Int
abbrev Sec := List Sel

/-- `itertools.combinations(xs, r)` (lexicographic in the positions). -/
def combos : List ℕ → ℕ → List (List ℕ)
  | _, 0 => [[]]
  | [], _+1 => []
  | x :: xs, r+1 => (combos xs r).map (x :: ·) ++ combos xs (r+1)

/-- `itertools.product([0,-1], repeat=n)` (first entry slowest). -/
def prodIdx : ℕ → List (List Int)
  | 0 => [[]]
  | n+1 => (prodIdx n).map ((0 : Int) :: ·) ++ (prodIdx n).map ((-1 : Int) :: ·)

/-- `args[f] = i for f, i in zip(fixed, indices)`. -/
def assign : Sec → List ℕ → List Int → Sec
  | a, f :: fs, i :: is => assign (a.set f (some i)) fs is
  | a, _, _ => a

/-- `utils.sections(src_dim, tgt_dim)` for `tgt_dim ≤ src_dim`. -/
def sections (src tgt : ℕ) : List Sec :=
  let nfixed := src - tgt
  (combos (List.range src) nfixed).flatMap (fun fixed =>
    (prodIdx nfixed).map (fun indices => assign (List.replicate src none) fixed indices.reverse))

/-- `utils.sections` with the error of `itertools.combinations` for a negative `r`. -/
def sectionsPy (src tgt : ℕ) : PyM (List Sec) :=
  if src < tgt then .error .value else .ok (sections src tgt)

/-- Position of the first element equal to `x` (`None` when absent). -/
def indexOf? (x : Sec) : List Sec → Option ℕ
  | [] => none
  | y :: ys => if x = y then some 0 else (indexOf? x ys).map (· + 1)

/-- `utils.section_to_index(section)` (`None` when the section is not in the table). -/
def sectionToIndex (s : Sec) : Option ℕ :=
  indexOf? s (sections s.length (s.filter Option.isNone).length)

/-- `utils.section_from_index(src_dim, tgt_dim, i)`. -/
def sectionFromIndex (src tgt i : ℕ) : Option Sec := (sections src tgt)[i]?

/-- `utils.check_section(*args, pardim=…, u=…, v=…, w=…)`; `kw` = keyword selectors as
    (direction index, value). -/
def checkSection (pardim : ℕ) (args : Sec) (kw : List (ℕ × Sel)) : PyM Sec :=
  let a := args ++ List.replicate (pardim - args.length) none
  kw.foldlM (fun a (idx, v) => if idx < a.length then .ok (a.set idx v) else .error .index) a

/-- `utils.check_direction(direction, pardim)`; the argument is an int or one of `uvwUVW`. -/
def checkDirection (d : Int ⊕ String) (pardim : ℕ) : PyM ℕ :=
  let is (k : Int) (l u : String) : Bool :=
    match d with
    | .inl i => i == k
    | .inr s => s == l || s == u
  if is 0 "u" "U" ∧ 0 < pardim then .ok 0
  else if is 1 "v" "V" ∧ 1 < pardim then .ok 1
  else if is 2 "w" "W" ∧ 2 < pardim then .ok 2
  else .error .value

/-- numpy integer indexing of an axis of length `n`. -/
def pyIndex (n : ℕ) (i : Int) : PyM ℕ :=
  let j := if i < 0 then i + n else i
  if 0 ≤ j ∧ j < n then .ok j.toNat else .error .index

end Sections

open Sections

namespace Tensor

variable {K : Type} [Zero K]

/-- C-order multi-index of a flat index. -/
def unravel : List ℕ → ℕ → List ℕ
  | [], _ => []
  | _ :: rest, k => (k / prod rest) :: unravel rest (k % prod rest)

def ravel : List ℕ → List ℕ → ℕ
  | _ :: rest, i :: is => i * prod rest + ravel rest is
  | _, _ => 0

/-- Build a tensor from a function of the multi-index. -/
def tabulate (shape : List ℕ) (f : List ℕ → K) : Tensor K :=
  { shape := shape, data := Array.ofFn (n := prod shape) (fun k => f (unravel shape k.val)) }

def getIdx (t : Tensor K) (idx : List ℕ) : K := t.get (ravel t.shape idx)

end Tensor

variable {K : Type} [Field K] [LinearOrder K] [FloorRing K]

/-- What `SplineObject.section` returns: an object of the class chosen by the number of free
    directions, or (for a point with `unwrap_points=True`) the bare control point. -/
inductive SecResult (K : Type) where
  | obj (cls : String) (o : Obj K)
  | point (a : Array K)
  deriving Inhabited

namespace Obj

/-- Class picked by `[c for c in SplineObject.__subclasses__() if c._intended_pardim == n]`. -/
def className (n : ℕ) : String :=
  match n with
  | 1 => "Curve" | 2 => "Surface" | 3 => "Volume" | _ => "SplineObject"

/-- The control-net slicing of `section`: fix the selected indices, last direction first so that
    the remaining axis numbers stay valid (`d` = axis number of the head selector). -/
def sliceSecFrom (d : ℕ) : List (Option ℕ) → Tensor K → Tensor K
  | [], t => t
  | none :: r, t => sliceSecFrom (d + 1) r t
  | some j :: r, t => (sliceSecFrom (d + 1) r t).takeAxis d j

def sliceSec (t : Tensor K) (sec : List (Option ℕ)) : Tensor K := sliceSecFrom 0 sec t

/-- numpy's resolution of `self.controlpoints[slices]`: the selectors are applied to the axes of the
    control array *including the component axis* (`shape` = all axis lengths), left to right;
    `IndexError` at the first integer out of range and when there are more selectors than axes
    ("too many indices for array"). -/
def resolveSel : List ℕ → Sec → PyM (List (Option ℕ))
  | _, [] => .ok []
  | [], _ :: _ => .error .index
  | _ :: ns, none :: r => (resolveSel ns r).map (none :: ·)
  | n :: ns, some i :: r =>
    match pyIndex n i with
    | .error e => .error e
    | .ok j => (resolveSel ns r).map (some j :: ·)

/-- The bases of the free directions. -/
def freeBases : List (Basis K) → Sec → List (Basis K)
  | b :: bs, none :: r => b :: freeBases bs r
  | _ :: bs, some _ :: r => freeBases bs r
  | _, _ => []

/-- `SplineObject.section(*args, unwrap_points=…)` after `check_section` (selectors for exactly
    `pardim` directions). -/
def sectionSel (o : Obj K) (sec : Sec) (unwrap : Bool) : PyM (SecResult K) :=
  match resolveSel o.cps.shape sec with
  | .error e => .error e
  | .ok idx =>
    let cps := sliceSec o.cps idx
    let bases := freeBases o.bases.toList sec
    if !bases.isEmpty ∨ !unwrap then
      -- the constructor reads `self.controlpoints.shape[-1]`: `IndexError` on a 0-d array (every
      -- axis, the component axis included, was indexed)
      if cps.shape.isEmpty then .error .index else
      .ok (.obj (className bases.length) { bases := bases.toArray, cps := cps, rational := o.rational })
    else .ok (.point cps.data)

/-- `obj.section(*args, **kwargs)`. -/
def «section» (o : Obj K) (args : Sec) (kw : List (ℕ × Sel)) (unwrap : Bool) : PyM (SecResult K) := do
  let sec ← checkSection o.pardim args kw
  o.sectionSel sec unwrap

/-- `corners(order)`: `orderF = true` for `'F'`.  Result shape `2^pardim × ncomp`. -/
def corners (o : Obj K) (orderF : Bool) : PyM (Tensor K) := do
  let rows ← (sections o.pardim 0).mapM (fun args => do
    let r ← o.sectionSel (if orderF then args.reverse else args) true
    match r with
    | .point a => pure a
    | .obj _ ob => pure ob.cps.data)
  pure { shape := [2 ^ o.pardim, o.ncomp], data := rows.foldl (· ++ ·) #[] }

/-- `Surface.edges()` / `Volume.edges()`: `tuple(self.section(*args) for args in sections(pardim, 1))`. -/
def edges (o : Obj K) : PyM (List (SecResult K)) :=
  (sections o.pardim 1).mapM (fun args => o.sectionSel args true)

/-- `Volume.faces()`: the six faces, `None` in both slots of a periodic direction. -/
def faces (o : Obj K) : PyM (List (Option (SecResult K))) := do
  let fs ← (sections 3 2).mapM (fun args => o.sectionSel args true)
  pure ((List.zip (List.range fs.length) fs).map (fun (k, f) =>
    if (o.basis (k / 2)).periodic > -1 then none else some f))

/-- Number of insertions of `const_par_curve`: `min(b.continuity(knot), b.order-1)` as a loop count
    (`range` of a negative number is empty; `cont = none` is `np.inf`). -/
def cpcCount (b : Basis K) (cont : Option Int) : ℕ :=
  let p1 : Int := (b.order : Int) - 1
  (match cont with
    | none => p1
    | some c => min c p1).toNat

/-- The tail of `const_par_curve`: row `i = max(bisect_left(b.knots, knot) - 1, 0) % b.num_functions()`
    of the refined net (`C[i,:] · cps`; `ZeroDivisionError` for a basis without functions, `IndexError`
    when `C` has no such row), wrapped as a `Curve` on the other basis. -/
def cpcPick (o o' : Obj K) (dir : ℕ) (knot : K) : PyM (Obj K) :=
  if (o'.basis dir).numFunctions = 0 then .error .zeroDiv else
  let i := ((o'.basis dir).bisectL knot - 1) % (o'.basis dir).numFunctions
  if o'.cps.shape.getD dir 0 ≤ i then .error .index else
  .ok { bases := #[o.basis (1 - dir)], cps := o'.cps.takeAxis dir i, rational := o.rational }

/-- `Surface.const_par_curve(knot, direction)`. -/
def constParCurve (o : Obj K) (tol knot : K) (direction : Int ⊕ String) : PyM (Obj K) := do
  let dir ← Sections.checkDirection direction 2
  let cont ← (o.basis dir).continuity tol knot
  -- `for i in range(mult): C = b.insert_knot(knot) @ C`
  let o' ← o.insertKnots (List.replicate (cpcCount (o.basis dir) cont) knot) dir
  cpcPick o o' dir knot

/-! ## Factories -/

/-- `BSplineBasis(2)`. -/
def linearBasis : Basis K := { order := 2, knots := #[0, 0, 1, 1], periodic := -1 }

/-- `make_splines_compatible(a, b)` in its plain form (`set_dimension` applied also when nothing
    changes; used by `Model/History.lean`; the factories below use `Obj.makeCompatible` of property
    C12, which is extensionally the same). -/
def compatible (a b : Obj K) : Obj K × Obj K :=
  let (a, b) := if a.rational then (a, b.forceRational) else if b.rational then (a.forceRational, b) else (a, b)
  if a.dimension > b.dimension then (a, b.setDimension a.dimension) else (a.setDimension b.dimension, b)

/-- Stack two control nets along a new last parametric axis of length 2. -/
def stack2 (a b : Tensor K) : Tensor K :=
  let nc := a.shape.getLastD 1
  let sh := a.shape.dropLast ++ [2, nc]
  { shape := sh,
    data := Array.ofFn (n := Tensor.prod sh) (fun k =>
      let c := k.val % nc
      let j := (k.val / nc) % 2
      let pI := k.val / (2 * nc)
      (if j = 0 then a else b).get (pI * nc + c)) }

/-- numpy `a += b` / `a -= b` on two control arrays (after `make_splines_identical` the shapes
    agree; otherwise numpy raises `ValueError`: operands could not be broadcast together). -/
def cpsAdd (a b : Tensor K) (sub : Bool) : PyM (Tensor K) :=
  if a.shape ≠ b.shape then .error .value else
  .ok { shape := a.shape,
        data := Array.ofFn (n := Tensor.prod a.shape)
          (fun k => if sub then a.get k.val - b.get k.val else a.get k.val + b.get k.val) }

/-- The two-input branch of `edge_curves` (`curve = true`) and `edge_surfaces` (`curve = false`):
    ```
    crv1 = curves[0].clone(); crv2 = curves[1].clone()
    Curve.make_splines_identical(crv1, crv2)
    controlpoints[:n] = crv1.controlpoints; controlpoints[n:] = crv2.controlpoints
    return Surface(crv1.bases[0], BSplineBasis(2), controlpoints, crv1.rational)
    ```
    (`[..., 0, :] = surf1`, `[..., 1, :] = surf2`, `raw=True` for surfaces).  Copying `crv2`'s net
    into the slot shaped like `crv1`'s raises `ValueError` when the shapes differ. -/
def ruled (tol : K) (curve : Bool) (a b : Obj K) : PyM (Obj K) :=
  match makeIdentical tol curve curve a b none with
  | .error e => .error e
  | .ok r =>
    if r.2.cps.shape ≠ r.1.cps.shape then .error .value else
    .ok { bases := r.1.bases.push linearBasis, cps := stack2 r.1.cps r.2.cps, rational := r.1.rational }

/-- Homogeneous control point `curve[i]` (python index). -/
def cpRow (o : Obj K) (i : Int) : Array K :=
  let n := o.cps.shape.headD 0
  let j := (if i < 0 then i + n else i).toNat
  let nc := o.ncomp
  o.cps.data.extract (j * nc) (j * nc + nc)

/-- `np.allclose(a, b, rtol, atol)`. -/
def allclose (rtol atol : K) (a b : Array K) : Bool :=
  (List.zip a.toList b.toList).all (fun (x, y) => decide (|x - y| ≤ atol + rtol * |y|))

end Obj

namespace Sections

/-- Inner loop of the re-ordering search of `edge_curves`: the first remaining curve whose start
    (kept) or end (then reversed) matches `cur`; returns it and the remaining list. -/
def findNext {C α : Type} (close : α → α → Bool) (startp endp : C → α) (rev : C → C) (cur : α) :
    List C → Option (C × List C)
  | [] => none
  | c :: cs =>
    if close cur (startp c) then some (c, cs)
    else if close cur (endp c) then some (rev c, cs)
    else (findNext close startp endp rev cur cs).map (fun (x, r) => (x, c :: r))

/-- `for j in range(k)`: extend the chain `k` times; `RuntimeError` when no curve matches. -/
def loopGo {C α : Type} (close : α → α → Bool) (startp endp : C → α) (rev : C → C) :
    ℕ → C → List C → PyM (List C)
  | 0, _, _ => .ok []
  | k+1, cur, rest =>
    match findNext close startp endp rev (endp cur) rest with
    | none => .error .runtime
    | some (x, r) => (loopGo close startp endp rev k x r).map (x :: ·)

/-- The closure test `allclose(c0[-1], c1[0]) and … and allclose(c3[-1], c0[0])`. -/
def isLoop {C α : Type} (close : α → α → Bool) (startp endp : C → α) : List C → Bool
  | [c0, c1, c2, c3] => close (endp c0) (startp c1) && close (endp c1) (startp c2) &&
                         close (endp c2) (startp c3) && close (endp c3) (startp c0)
  | _ => false

/-- The whole re-organisation step of the four-curve branch. -/
def loopOrder {C α : Type} (close : α → α → Bool) (startp endp : C → α) (rev : C → C) :
    List C → PyM (List C)
  | c0 :: rest =>
    if isLoop close startp endp (c0 :: rest) then .ok (c0 :: rest)
    else (loopGo close startp endp rev 3 c0 rest).map (c0 :: ·)
  | [] => .ok []

end Sections

namespace Obj

/-- Pairwise `make_splines_compatible(mycurves[i], mycurves[j])` for `i < j`. -/
def compatAll (cs : Array (Obj K)) : Array (Obj K) :=
  (List.range cs.size).foldl (fun cs i =>
    (List.range' (i+1) (cs.size - (i+1))).foldl (fun (cs : Array (Obj K)) j =>
      let r := makeCompatible (cs.getD i Inhabited.default) (cs.getD j Inhabited.default)
      (cs.set! i r.1).set! j r.2) cs) cs

/-- `Surface(linear, linear, [p00, p10, p01, p11], rat)` / `Volume(controlpoints=[8 rows], rational=rat)`:
    `np.array` of the rows (`ValueError` when they have different lengths), default / linear bases,
    control points reshaped with `order='F'` (first index fastest). -/
def fromCorners (pardim : ℕ) (rows : List (Array K)) (rat : Bool) : PyM (Obj K) :=
  let d := (rows.headD #[]).size
  if rows.any (fun r => r.size ≠ d) then .error .value else
  let shape := List.replicate pardim 2
  .ok { bases := (List.replicate pardim linearBasis).toArray,
        cps := Tensor.tabulate (shape ++ [d]) (fun idx =>
          -- F-order position of the multi-index: i0 + 2*i1 + 4*i2
          let pos := (List.zip (List.range pardim) (idx.take pardim)).foldl (fun acc (k, i) => acc + i * 2 ^ k) 0
          (rows.getD pos #[]).getD (idx.getD pardim 0) 0),
        rational := rat }

/-- `coons_patch(bottom, right, top, left)` (surface_factory.py), statement by statement:
    ```
    top = top.clone(); left = left.clone(); top.reverse(); left.reverse()
    s1 = edge_curves(bottom, top); s2 = edge_curves(left, right); s2.swap()
    rat = s1.rational
    if rat: bottom = bottom.clone().force_rational(); top.force_rational()
    s3 = Surface(linear, linear, [bottom[0], bottom[-1], top[0], top[-1]], rat)
    Surface.make_splines_identical(s1, s2); (s1, s3); (s2, s3)
    result = s1; result.controlpoints += s2.controlpoints; result.controlpoints -= s3.controlpoints
    ``` -/
def coonsPatch (tol : K) (bottom right top left : Obj K) : PyM (Obj K) :=
  let top := top.reverse 0
  let left := left.reverse 0
  match ruled tol true bottom top with
  | .error e => .error e
  | .ok s1 =>
  match ruled tol true left right with
  | .error e => .error e
  | .ok s2 =>
  let s2 := s2.swap 0 1
  let rat := s1.rational
  let bottom' := if rat then bottom.forceRational else bottom
  let top' := if rat then top.forceRational else top
  match fromCorners 2 [cpRow bottom' 0, cpRow bottom' (-1), cpRow top' 0, cpRow top' (-1)] rat with
  | .error e => .error e
  | .ok s3 =>
  match makeIdentical tol false false s1 s2 none with
  | .error e => .error e
  | .ok r12 =>
  match makeIdentical tol false false r12.1 s3 none with
  | .error e => .error e
  | .ok r13 =>
  match makeIdentical tol false false r12.2 r13.2 none with
  | .error e => .error e
  | .ok r23 =>
  match cpsAdd r13.1.cps r23.1.cps false with
  | .error e => .error e
  | .ok c1 =>
  match cpsAdd c1 r23.2.cps true with
  | .error e => .error e
  | .ok c2 => .ok { r13.1 with cps := c2 }

/-- `edge_curves(*curves)` with `type='coons'`: two curves → ruled surface; four curves → pairwise
    `make_splines_compatible`, the closing test on the homogeneous end control points, the
    re-ordering search, `coons_patch`; any other number → `ValueError`. -/
def edgeCurves (tol : K) (curves : List (Obj K)) (rtol atol : K) : PyM (Obj K) :=
  match curves with
  | [c1, c2] => ruled tol true c1 c2
  | [_, _, _, _] =>
    let cs := (compatAll curves.toArray).toList
    match loopOrder (allclose rtol atol) (fun c => cpRow c 0) (fun c => cpRow c (-1))
        (fun c => c.reverse 0) cs with
    | .error e => .error e
    | .ok [a, b, c, d] => coonsPatch tol a b c d
    | .ok _ => .error .other
  | _ => .error .value

/-- `surface_factory.extrude(curve, amount)` and `volume_factory.extrude(surf, amount)`. -/
def extrude (o : Obj K) (amount : List K) : PyM (Obj K) :=
  let o3 := o.setDimension 3
  -- `translate`: `x[i] for i in range(dim)` / shape mismatch when the dimension grows again
  if amount.length < 3 then .error .index
  else if amount.length > 3 then .error .value
  else
    let top := o3.translate amount
    .ok { bases := o3.bases.push linearBasis, cps := stack2 o3.cps top.cps, rational := o3.rational }

/-- Assemble one of the three edge-correction nets of `edge_surfaces`: a control array with axes
    `2` in the two directions `≠ keep` and the length of `src` in direction `keep`; entry at corner
    `(a, b)` of the two linear directions is the edge of `src` at the ends `(a, b)` of those
    directions. -/
def edgeNet (src : Tensor K) (keep : ℕ) : Tensor K :=
  let n := src.shape.getD keep 0
  let d := src.shape.getLastD 0
  let shape := (List.range 3).map (fun k => if k = keep then n else 2)
  Tensor.tabulate (shape ++ [d]) (fun idx =>
    let full := (List.range 3).map (fun k =>
      if k = keep then idx.getD k 0 else if idx.getD k 0 = 0 then 0 else src.shape.getD k 1 - 1)
    src.getIdx (full ++ [idx.getD 3 0]))

/-- `edge_surfaces(*surfaces)` (volume_factory.py), statement by statement.  Two faces: the ruled
    volume.  Six faces (`umin, umax, vmin, vmax, wmin, wmax`; rational input → `RuntimeError`):
    ```
    vol1 = edge_surfaces(umin,umax); vol2 = edge_surfaces(vmin,vmax); vol3 = edge_surfaces(wmin,wmax)
    vol4 = Volume(controlpoints=vol1.corners(order='F'), rational=vol1.rational)
    vol1.swap(0, 2); vol1.swap(1, 2); vol2.swap(1, 2); vol4.swap(1, 2)
    make_splines_identical on the six pairs (1,2) (1,3) (1,4) (2,3) (2,4) (3,4)
    result = vol1.clone(); result += vol2, vol3, vol4
    vol_u_edges / vol_v_edges / vol_w_edges from the corner edges of vol1 / vol2 / vol3
    make_splines_identical(result, each); result -= each
    ``` -/
def edgeSurfaces (tol : K) (surfs : List (Obj K)) : PyM (Obj K) :=
  match surfs with
  | [s1, s2] => ruled tol false s1 s2
  | [umin, umax, vmin, vmax, wmin, wmax] => do
    if surfs.any (·.rational) then throw .runtime
    let vol1 ← ruled tol false umin umax
    let vol2 ← ruled tol false vmin vmax
    let vol3 ← ruled tol false wmin wmax
    let cs ← vol1.corners true
    let nc := vol1.ncomp
    let vol4 ← fromCorners 3 ((List.range 8).map (fun r => cs.data.extract (r * nc) (r * nc + nc))) vol1.rational
    let vol1 := (vol1.swap 0 2).swap 1 2
    let vol2 := vol2.swap 1 2
    let vol4 := vol4.swap 1 2
    let (vol1, vol2) ← makeIdentical tol false false vol1 vol2 none
    let (vol1, vol3) ← makeIdentical tol false false vol1 vol3 none
    let (vol1, vol4) ← makeIdentical tol false false vol1 vol4 none
    let (vol2, vol3) ← makeIdentical tol false false vol2 vol3 none
    let (vol2, vol4) ← makeIdentical tol false false vol2 vol4 none
    let (vol3, vol4) ← makeIdentical tol false false vol3 vol4 none
    let c ← cpsAdd vol1.cps vol2.cps false
    let c ← cpsAdd c vol3.cps false
    let c ← cpsAdd c vol4.cps false
    let result : Obj K := { vol1 with cps := c }
    -- the slots `controlpoints[0, 0, :] = vol1.controlpoints[0, 0]` … have the shape of `result`
    if vol1.cps.shape ≠ c.shape ∨ vol2.cps.shape ≠ c.shape ∨ vol3.cps.shape ≠ c.shape then throw .value
    let volU : Obj K := { bases := #[linearBasis, linearBasis, result.basis 2], cps := edgeNet vol1.cps 2,
                          rational := result.rational }
    let volV : Obj K := { bases := #[result.basis 0, linearBasis, linearBasis], cps := edgeNet vol2.cps 0,
                          rational := result.rational }
    let volW : Obj K := { bases := #[linearBasis, result.basis 1, linearBasis], cps := edgeNet vol3.cps 1,
                          rational := result.rational }
    let (result, volU) ← makeIdentical tol false false result volU none
    let (result, volV) ← makeIdentical tol false false result volV none
    let (result, volW) ← makeIdentical tol false false result volW none
    let c ← cpsAdd result.cps volU.cps true
    let c ← cpsAdd c volV.cps true
    let c ← cpsAdd c volW.cps true
    pure { result with cps := c }
  | _ => .error .value

end Obj

end Splipy
