import Mathlib.Algebra.Order.Field.Basic
import Splipy.Proto.Val
import Splipy.Model.Basis

/-!
# Executable model of the primitive factories (property C13)

`curve_factory.{line, polygon, n_gon, circle, ellipse, circle_segment,
circle_segment_from_three_points}`, `surface_factory.{square, disc, sphere, extrude, revolve,
cylinder, torus}`, `volume_factory.{cube, sphere('radial' and 'square'), revolve, torus, cylinder, extrude}` and
the placement helpers `utils.rotate_local_x_axis`, `utils.flip_and_move_plane_geometry`, together
with the `SplineObject` methods they use (`set_dimension`, `force_rational`, `rotate`, `translate`,
`scale`).

Everything is generic over an ordered field `K`.  Transcendental quantities enter as field
elements constrained (in the theorems) by their defining relations:

* an angle is a pair `(c, s)` with `c² + s² = 1`;
* `w` stands for `1/√2` (`w² = 1/2`), `s2` for `√2` (`s2² = 2`);
* `pi` is only ever used as a scale of knot vectors and in the comparisons the code makes;
* square roots the code takes of data (norms) are supplied by the caller (`lam`, `radius`, the
  segment lengths of `polygon`), `atan2` results are supplied as the `(cos, sin)` pair.

A control net is the list of control points in C order (last parameter direction fastest), each
point the list of its components (weight last when rational) — exactly `controlpoints.reshape(-1, d)`.
-/

namespace Splipy.Fac

variable {K : Type} [Field K] [LinearOrder K]

/-- One control point: its components (weight last when rational). -/
abbrev Pt (K : Type) := List K

/-- Observable state of a `SplineObject`. -/
structure Obj (K : Type) where
  bases : List (Basis K)
  shape : List ℕ
  cps : List (Pt K)
  rational : Bool
  dim : ℕ
  deriving Inhabited

/-! ## Point-wise helpers -/

/-- `set_dimension` on one control point (`dim` physical components, then the weight if any). -/
def setDimPt (dim new : ℕ) (p : Pt K) : Pt K :=
  if dim ≤ new then p.take dim ++ List.replicate (new - dim) 0 ++ p.drop dim
  else p.take new ++ p.drop dim

/-- rotation about `e_z` by the angle with cosine `c` and sine `s` (acts on the first two
    components; the same formula serves the 2D and 3D branches of `rotate`). -/
def rotZPt (c s : K) : Pt K → Pt K
  | x :: y :: rest => (x * c - y * s) :: (x * s + y * c) :: rest
  | p => p

/-- rotation about `e_y`: `rotation_matrix(θ,(0,1,0))` right-multiplied. -/
def rotYPt (c s : K) : Pt K → Pt K
  | x :: y :: z :: rest => (x * c + z * s) :: y :: (-(x * s) + z * c) :: rest
  | p => p

/-- rotation about `e_x`. -/
def rotXPt (c s : K) : Pt K → Pt K
  | x :: y :: z :: rest => x :: (y * c - z * s) :: (y * s + z * c) :: rest
  | p => p

/-- weight of a control point (`1` when not rational). -/
def weightOf (rational : Bool) (p : Pt K) : K := if rational then p.getLastD 1 else 1

/-- `translate`: the first `dim` components get `x_i · w`. -/
def translatePt (rational : Bool) (dim : ℕ) (x : List K) (p : Pt K) : Pt K :=
  let w := weightOf rational p
  (List.zipWith (fun a t => a + t * w) (p.take dim) x) ++ p.drop dim

/-- `scale`: the first `dim` components are multiplied by `s_i`. -/
def scalePt (dim : ℕ) (s : List K) (p : Pt K) : Pt K :=
  (List.zipWith (fun a t => a * t) (p.take dim) s) ++ p.drop dim

/-- multiply the `z` and `w` components (indices 2, 3) by `w` — the arc weight in `revolve`. -/
def scaleZW (w : K) : Pt K → Pt K
  | x :: y :: z :: h :: rest => x :: y :: (z * w) :: (h * w) :: rest
  | p => p

/-! ## `SplineObject` methods -/

namespace Obj

def ncomp (o : Obj K) : ℕ := o.dim + (if o.rational then 1 else 0)

def mapPts (o : Obj K) (f : Pt K → Pt K) : Obj K := { o with cps := o.cps.map f }

def setDimension (o : Obj K) (new : ℕ) : Obj K :=
  { o with cps := o.cps.map (setDimPt o.dim new), dim := new }

def forceRational (o : Obj K) : Obj K :=
  if o.rational then o else { o with cps := o.cps.map (fun p => p ++ [1]), rational := true }

/-- `rotate(θ)` / `rotate(θ, (0,0,1))`: no change of dimension; `RuntimeError` unless 2D/3D. -/
def rotateZ (o : Obj K) (c s : K) : PyM (Obj K) :=
  if o.dim = 2 ∨ o.dim = 3 then pure (o.mapPts (rotZPt c s)) else throw .runtime

/-- `rotate(θ, (0,1,0))`: forces 3D first. -/
def rotateY (o : Obj K) (c s : K) : Obj K := (o.setDimension 3).mapPts (rotYPt c s)

/-- `rotate(θ, (1,0,0))`: forces 3D first. -/
def rotateX (o : Obj K) (c s : K) : Obj K := (o.setDimension 3).mapPts (rotXPt c s)

/-- `translate(x)`; `IndexError` when `x` is shorter than the (possibly raised) dimension. -/
def translate (o : Obj K) (x : List K) : PyM (Obj K) :=
  let o := if o.dim < x.length then o.setDimension x.length else o
  if x.length < o.dim then throw .index
  else pure (o.mapPts (translatePt o.rational o.dim x))

/-- `ensure_listlike(s, dups=3)`: pad with the last element up to length 3. -/
def padScale (s : List K) : List K :=
  s ++ List.replicate (3 - s.length) (s.getLastD 0)

def scale (o : Obj K) (s : List K) : Obj K := o.mapPts (scalePt o.dim (padScale s))

end Obj

/-! ## Bases -/

/-- `BSplineBasis(order)`: open knot vector on `[0,1]`. -/
def defaultBasis (p : ℕ) : Basis K :=
  { order := p, knots := (List.replicate p (0 : K) ++ List.replicate p 1).toArray, periodic := -1 }

/-- `basis.reparam(a, b)` = `normalize(); *= (b-a); += a`. -/
def reparamBasis (b : Basis K) (a e : K) : Basis K :=
  let s := b.start
  let t := b.stop
  { b with knots := b.knots.map (fun k => (k - s) / (t - s) * (e - a) + a) }

/-! ## Placement helpers (`utils/__init__.py`) -/

/-- `(cos θ, sin θ, cos φ, sin φ)` for `θ = atan2(n_y, n_x)`, `φ = atan2(√(n_x²+n_y²), n_z)`. -/
structure NAux (K : Type) where
  ct : K
  st : K
  cp : K
  sp : K
  deriving Inhabited

/-- `np.allclose(a, b)` for one component (`rtol = 1e-5`, `atol = 1e-8`). -/
def close1 (a b : K) : Bool := decide (|a - b| ≤ 1 / 100000000 + 1 / 100000 * |b|)

def allcloseEz (n : List K) : Bool :=
  match n with
  | [x, y, z] => close1 x 0 && close1 y 0 && close1 z 1
  | _ => false

def allcloseZero (c : List K) : Bool := c.all (fun x => close1 x 0)

/-- `xaxis.dot(R1).dot(R2)` of `rotate_local_x_axis`: the requested x-axis rotated back to the
    reference plane (all three components). -/
def localXVec (xaxis : List K) (a : NAux K) : Pt K :=
  let x3 : Pt K := match xaxis with
    | [x, y, z] => [x, y, z]
    | x :: y :: _ => [x, y, 0]
    | _ => xaxis
  rotYPt a.cp (-a.sp) (rotZPt a.ct (-a.st) x3)

/-- `rotate_local_x_axis(xaxis, normal)` as the `(cos, sin)` of the returned angle
    `atan2(x[1], x[0])`; `lam` is the supplied `√(x[0]² + x[1]²)`.  `atan2(0,0) = 0`. -/
def rotateLocalXAxis (xaxis : List K) (a : NAux K) (lam : K) : K × K :=
  match localXVec xaxis a with
  | x :: y :: _ => if x = 0 ∧ y = 0 then (1, 0) else (x / lam, y / lam)
  | _ => (1, 0)

/-- `flip_and_move_plane_geometry(obj, center, normal)`. -/
def flipAndMove (o : Obj K) (center normal : List K) (a : NAux K) : PyM (Obj K) := do
  let o ← if allcloseEz normal then pure o
          else (o.rotateY a.cp a.sp).rotateZ a.ct a.st
  if allcloseZero center then pure o else o.translate center

/-! ## Curves -/

def curveOf (b : Basis K) (cps : List (Pt K)) (rational : Bool) (dim : ℕ) : Obj K :=
  { bases := [b], shape := [cps.length], cps := cps, rational := rational, dim := dim }

/-- `line(a, b, relative)`. -/
def line (a b : List K) (relative : Bool) : Obj K :=
  let b' := if relative then List.zipWith (· + ·) a b else b
  curveOf (defaultBasis 2) [a, b'] false a.length

/-- running sums `p0, p0+p1, …` of `polygon(relative=True)`. -/
def cumPts : List (Pt K) → List (Pt K)
  | [] => []
  | p :: ps => (ps.foldl (fun (acc : List (Pt K) × Pt K) q =>
        let nxt := List.zipWith (· + ·) acc.2 q
        (acc.1 ++ [nxt], nxt)) ([p], p)).1

/-- knot vector of `polygon` from the supplied segment lengths: `[0,0,d1,d1+d2,…,L,L]`. -/
def polygonKnots (dists : List K) : List K :=
  let cum := (dists.foldl (fun (acc : List K × K) d => (acc.1 ++ [acc.2 + d], acc.2 + d)) ([0], 0)).1
  [0] ++ cum ++ [cum.getLastD 0]

/-- `polygon(points, relative=…)` with the Euclidean lengths `dists` supplied. -/
def polygonAuto (pts : List (Pt K)) (dists : List K) (relative : Bool) : Obj K :=
  curveOf { order := 2, knots := (polygonKnots dists).toArray, periodic := -1 }
    (if relative then cumPts pts else pts) false (pts.headD []).length

/-- `polygon(points, t=…, relative=…)`. -/
def polygonT (pts : List (Pt K)) (t : List K) (relative : Bool) : Obj K :=
  curveOf { order := 2, knots := ([t.headD 0] ++ t ++ [t.getLastD 0]).toArray, periodic := -1 }
    (if relative then cumPts pts else pts) false (pts.headD []).length

/-- `n_gon(n, r, center, normal)`; `cs` = the supplied `(cos(i·dt), sin(i·dt))`, `i < n`. -/
def nGon (n : ℕ) (r : K) (center normal : List K) (cs : List (K × K)) (a : NAux K) : PyM (Obj K) := do
  if r ≤ 0 then throw .value
  if n < 3 then throw .value
  let knots : List K := [-1] ++ (List.range n).map (fun i => (i : K)) ++ [(n : K), (n : K) + 1]
  let cps : List (Pt K) := (cs.take n).map (fun p => [r * p.1, r * p.2])
  flipAndMove (curveOf { order := 2, knots := knots.toArray, periodic := 0 } cps false 2) center normal a

/-- literal net of `circle(type='p2C0')`; `w` stands for `1/√2`. -/
def circleNetP2 (w : K) : List (Pt K) :=
  [[1, 0, 1], [w, w, w], [0, 1, 1], [-w, w, w], [-1, 0, 1], [-w, -w, w], [0, -1, 1], [w, -w, w]]

/-- literal net of `circle(type='p4C1')`; `s2` stands for `√2`. -/
def circleNetP4 (s2 : K) : List (Pt K) :=
  let w := 2 * s2 / 3
  let a := 1 / 2 / s2
  let b := 1 / 6 * (4 * s2 - 1)
  [[1, -a, 1], [1, a, 1], [b, b, w], [a, 1, 1], [-a, 1, 1], [-b, b, w],
   [-1, a, 1], [-1, -a, 1], [-b, -b, w], [-a, -1, 1], [a, -1, 1], [b, -b, w]]

def circleKnotsP2 (pi : K) : List K :=
  ([-1, 0, 0, 1, 1, 2, 2, 3, 3, 4, 4, 5] : List K).map (fun k => k / 4 * 2 * pi)

def circleKnotsP4 (pi : K) : List K :=
  ([-1, -1, 0, 0, 0, 1, 1, 1, 2, 2, 2, 3, 3, 3, 4, 4, 4, 5, 5] : List K).map (fun k => k / 4 * 2 * pi)

/-- The constants a circle needs: `pi`, `w ≈ 1/√2`, `s2 ≈ √2`. -/
structure Consts (K : Type) where
  pi : K
  w : K
  s2 : K
  deriving Inhabited

/-- the unplaced unit circle of the given type; `ValueError` on an unknown type. -/
def unitCircle (k : Consts K) (type : String) : PyM (Obj K) :=
  if type == "p2C0" || type == "C0p2" then
    pure (curveOf { order := 3, knots := (circleKnotsP2 k.pi).toArray, periodic := 0 } (circleNetP2 k.w) true 2)
  else if type ∈ ["p4c1", "P4c1", "p4C1", "P4C1", "c1p4", "C1p4", "c1P4", "C1P4"] then
    -- `type.lower() == 'p4c1' or type.lower() == 'c1p4'`, spelled out (the eight spellings) so that the
    -- test evaluates by plain string comparison
    pure (curveOf { order := 5, knots := (circleKnotsP4 k.pi).toArray, periodic := 1 } (circleNetP4 k.s2) true 2)
  else throw .value

/-- `result.rotate(rotate_local_x_axis(xaxis, normal)); flip_and_move_plane_geometry(…)`. -/
def place (o : Obj K) (center normal xaxis : List K) (a : NAux K) (lam : K) : PyM (Obj K) := do
  let (ca, sa) := rotateLocalXAxis xaxis a lam
  let o ← o.rotateZ ca sa
  flipAndMove o center normal a

/-- `circle(r, center, normal, type, xaxis)`. -/
def circle (k : Consts K) (r : K) (center normal : List K) (type : String) (xaxis : List K)
    (a : NAux K) (lam : K) : PyM (Obj K) := do
  if r ≤ 0 then throw .value
  let c ← unitCircle k type
  place (c.scale [r]) center normal xaxis a lam

/-- placement data of the defaults `normal=(0,0,1)`, `xaxis=(1,0,0)` (`θ = φ = 0`). -/
def aux0 : NAux K := ⟨1, 0, 1, 0⟩

/-- `circle(r)` / `circle(type=type)` with default placement. -/
def circleDefault (k : Consts K) (r : K) (type : String) : PyM (Obj K) :=
  circle k r [0, 0, 0] [0, 0, 1] type [1, 0, 0] aux0 1

/-- `ellipse(r1, r2, center, normal, type, xaxis)`. -/
def ellipse (k : Consts K) (r1 r2 : K) (center normal : List K) (type : String) (xaxis : List K)
    (a : NAux K) (lam : K) : PyM (Obj K) := do
  let c ← circleDefault k 1 type
  place (c.scale [r1, r2, 1]) center normal xaxis a lam

/-- What `circle_segment` needs beyond its arguments: the span count
    `ceil(|θ|/(2π/3))` and `(cos dt, sin dt)` of the half-span angle `dt = θ/spans/2`. -/
structure ArcAux (K : Type) where
  spans : ℕ
  cd : K
  sd : K
  deriving Inhabited

/-- `(cos(i·dt), sin(i·dt))` by the addition formulas. -/
def angleIter (cd sd : K) : ℕ → K × K
  | 0 => (1, 0)
  | i + 1 => let p := angleIter cd sd i; (p.1 * cd - p.2 * sd, p.2 * cd + p.1 * sd)

/-- control points `[r cos(i dt), r sin(i dt), w_i]`, `i < 2·spans+1`, weights `1, cos dt, 1, …`. -/
def arcNet (r cd sd : K) (spans : ℕ) : List (Pt K) :=
  (List.range (2 * spans + 1)).map (fun i =>
    let p := angleIter cd sd i
    [r * p.1, r * p.2, if i % 2 = 1 then cd else 1])

/-- the integer knot pattern `[0] ++ [0,0,1,1,…,n,n] ++ [n]` built by the loop of `circle_segment`. -/
def arcInts (spans : ℕ) : List ℕ :=
  [0] ++ ((List.range (spans + 1)).map (fun i => [i, i])).flatten ++ [spans]

/-- `[0,0,0,1,1,2,2,…,n,n,n] / n * θ`. -/
def arcKnots (theta : K) (spans : ℕ) : List K :=
  (arcInts spans).map (fun (i : ℕ) => (i : K) / (spans : K) * theta)

/-- `circle_segment(theta, r, center, normal, xaxis)`. -/
def circleSegment (k : Consts K) (theta r : K) (center normal xaxis : List K)
    (arc : ArcAux K) (a : NAux K) (lam : K) : PyM (Obj K) := do
  if |theta| > 2 * k.pi then throw .value
  if r ≤ 0 then throw .value
  if theta = 2 * k.pi then
    -- `return circle(r, center, normal, xaxis=xaxis)`
    circle k r center normal "p2C0" xaxis a lam
  else
    if arc.spans = 0 then throw .zeroDiv
    let cps := arcNet r arc.cd arc.sd arc.spans
    let kn := arcKnots theta arc.spans
    let o : Obj K :=
      if theta < 0 then
        curveOf { order := 3, knots := kn.reverse.toArray, periodic := -1 } cps.reverse true 2
      else curveOf { order := 3, knots := kn.toArray, periodic := -1 } cps true 2
    place o center normal xaxis a lam

/-- default-placed unit arc `circle_segment(theta)` used by `revolve`. -/
def circleSegmentDefault (k : Consts K) (theta r : K) (arc : ArcAux K) : PyM (Obj K) :=
  circleSegment k theta r [0, 0, 0] [0, 0, 1] [1, 0, 0] arc aux0 1

/-! ### three-point arc -/

def dot3 (a b : List K) : K := (List.zipWith (· * ·) a b).sum

def cross3 : List K → List K → List K
  | [a1, a2, a3], [b1, b2, b3] => [a2 * b3 - a3 * b2, a3 * b1 - a1 * b3, a1 * b2 - a2 * b1]
  | _, _ => []

def sub3 (a b : List K) : List K := List.zipWith (· - ·) a b

def det3 : List K → List K → List K → K
  | [a1, a2, a3], [b1, b2, b3], [c1, c2, c3] =>
      a1 * (b2 * c3 - b3 * c2) - a2 * (b1 * c3 - b3 * c1) + a3 * (b1 * c2 - b2 * c1)
  | _, _, _ => 0

/-- Solution of the `3×3` system with rows `r1 r2 r3` and right-hand side `b` (Cramer). -/
def solve3 (r1 r2 r3 : List K) (b : List K) : PyM (List K) :=
  match r1, r2, r3, b with
  | [a11, a12, a13], [a21, a22, a23], [a31, a32, a33], [b1, b2, b3] =>
    let d := det3 r1 r2 r3
    if d = 0 then throw .linalg
    else pure [det3 [b1, a12, a13] [b2, a22, a23] [b3, a32, a33] / d,
               det3 [a11, b1, a13] [a21, b2, a23] [a31, b3, a33] / d,
               det3 [a11, a12, b1] [a21, a22, b2] [a31, a32, b3] / d]
  | _, _, _, _ => throw .value

def pad3 (x : List K) : List K := (x ++ [0, 0, 0]).take 3

/-- centre of the circle through three points: the linear system the code solves. -/
def threePointCenter (p0 p1 p2 : List K) : PyM (List K) :=
  let n := cross3 (sub3 p1 p0) (sub3 p2 p0)
  solve3 ((sub3 p1 p0).map (2 * ·)) ((sub3 p2 p0).map (2 * ·)) n
    [dot3 p1 p1 - dot3 p0 p0, dot3 p2 p2 - dot3 p0 p0, dot3 n p0]

def sgn (x : K) : Int := if x < 0 then -1 else if 0 < x then 1 else 0

/-- the test `all(sign(i)==sign(j) or |i-j| < tol for (i,j) in zip(w2, normal))`. -/
def sameSigns (tol : K) (w2 n : List K) : Bool :=
  (List.zipWith (fun i j => decide (sgn i = sgn j) || decide (|i - j| < tol)) w2 n).all id

/-- Everything `circle_segment_from_three_points` derives before calling `circle_segment`:
    centre, `v0`, travel normal `w2`, and whether the short angle `arccos(…)` is kept. -/
structure ThreePt (K : Type) where
  center : List K
  v0 : List K
  v1 : List K
  v2 : List K
  w2 : List K
  keep : Bool

/-- the scale-independent branch test `not (np.dot(w2, normal) < 0)` (repaired code). -/
def keepDot (w2 n : List K) : Bool := decide (0 ≤ dot3 w2 n)

/-- `useDot = false`: the component-wise sign test with absolute tolerance (`sameSigns`);
    `useDot = true`: the sign of `dot(w2, normal)` (`keepDot`). -/
def threePointDataWith (useDot : Bool) (tol : K) (x0 x1 x2 : List K) : PyM (ThreePt K) := do
  let p0 := pad3 x0
  let p1 := pad3 x1
  let p2 := pad3 x2
  let c ← threePointCenter p0 p1 p2
  let v0 := sub3 p0 c
  let v1 := sub3 p1 c
  let v2 := sub3 p2 c
  let w2 := cross3 (sub3 p0 p2) (sub3 p1 p2)
  let nrm := cross3 v0 v2
  pure ⟨c, v0, v1, v2, w2, if useDot then keepDot w2 nrm else sameSigns tol w2 nrm⟩

def threePointData (tol : K) (x0 x1 x2 : List K) : PyM (ThreePt K) :=
  threePointDataWith false tol x0 x1 x2

/-- `circle_segment_from_three_points(x0, x1, x2)`.

    `radius` is the supplied `‖x2 − centre‖`; `thetaS/arcS` belong to
    `θ = arctan2(|v0×v2|, v0·v2) ∈ [0, π]` and `thetaL/arcL` to `2π − θ`; the model selects by
    the code's own branch test (`useDot` says which of the two forms the code has).  The arc is
    placed about the travel normal `w2 = (x0−x2)×(x1−x2)` with x-axis `v0 = x0 − centre`
    (placement data `aW`, `lamW`). -/
def threePointsWith (useDot : Bool) (k : Consts K) (tol : K) (x0 x1 x2 : List K) (radius : K)
    (thetaS : K) (arcS : ArcAux K) (thetaL : K) (arcL : ArcAux K)
    (aW : NAux K) (lamW : K) : PyM (Obj K) := do
  let d ← threePointDataWith useDot tol x0 x1 x2
  let (theta, arc) := if d.keep then (thetaS, arcS) else (thetaL, arcL)
  let res ← circleSegment k theta radius d.center d.w2 d.v0 arc aW lamW
  pure (res.setDimension (max x0.length (max x1.length x2.length)))

def threePoints (k : Consts K) (tol : K) (x0 x1 x2 : List K) (radius : K)
    (thetaS : K) (arcS : ArcAux K) (thetaL : K) (arcL : ArcAux K)
    (aW : NAux K) (lamW : K) : PyM (Obj K) :=
  threePointsWith false k tol x0 x1 x2 radius thetaS arcS thetaL arcL aW lamW

/-! ## Surfaces and volumes -/

/-- transpose of rows: new last parameter direction = the row index. -/
def stackLast (rows : List (List (Pt K))) : List (Pt K) :=
  match rows with
  | [] => []
  | r0 :: _ => ((List.range r0.length).map (fun kk => rows.map (fun r => r.getD kk []))).flatten

/-- Greville net of `Surface()` / `Volume()`: unit square / cube, C order. -/
def unitSquare : Obj K :=
  { bases := [defaultBasis 2, defaultBasis 2], shape := [2, 2],
    cps := [[0, 0], [0, 1], [1, 0], [1, 1]], rational := false, dim := 2 }

def unitCube : Obj K :=
  { bases := [defaultBasis 2, defaultBasis 2, defaultBasis 2], shape := [2, 2, 2],
    cps := [[0, 0, 0], [0, 0, 1], [0, 1, 0], [0, 1, 1], [1, 0, 0], [1, 0, 1], [1, 1, 0], [1, 1, 1]],
    rational := false, dim := 3 }

/-- `square(size, lower_left)`; `size` already a list (scalar = singleton). -/
def square (size lowerLeft : List K) : PyM (Obj K) := ((unitSquare (K := K)).scale size).translate lowerLeft

def cube (size lowerLeft : List K) : PyM (Obj K) := ((unitCube (K := K)).scale size).translate lowerLeft

/-- `surface_factory.extrude(curve, amount)` — also `volume_factory.extrude` (same net rule:
    new last direction with the object and its translate). -/
def extrude (o : Obj K) (amount : List K) : PyM (Obj K) := do
  let o := o.setDimension 3
  let top ← o.translate amount
  pure { bases := o.bases ++ [defaultBasis 2], shape := o.shape ++ [2],
         cps := stackLast [o.cps, top.cps], rational := o.rational, dim := top.dim }

/-- rows of `surface_factory.revolve`: the `i`-th is the (axis-aligned) profile rotated by the
    angle of the `i`-th arc control point `(x_i, y_i, w_i)`, `z` and `w` multiplied by `w_i`. -/
def revolveRows (prof : List (Pt K)) (arc : List (Pt K)) : List (List (Pt K)) :=
  arc.map (fun q => match q with
    | [x, y, w] => prof.map (fun p => scaleZW w (rotZPt x y p))
    | _ => prof)

/-- `surface_factory.revolve(curve, theta, axis)`; `ax` = `(cos,sin)` data of `axis`. -/
def revolve (k : Consts K) (o : Obj K) (theta : K) (arc : ArcAux K) (ax : NAux K) : PyM (Obj K) := do
  let o := (o.setDimension 3).forceRational
  let o ← o.rotateZ ax.ct (-ax.st)
  let o := o.rotateY ax.cp (-ax.sp)
  let seg ← circleSegmentDefault k theta 1 arc
  let res : Obj K :=
    { bases := o.bases ++ seg.bases, shape := o.shape ++ [seg.cps.length],
      cps := stackLast (revolveRows o.cps seg.cps), rational := true, dim := 3 }
  (res.rotateY ax.cp ax.sp).rotateZ ax.ct ax.st

/-- rows of `volume_factory.revolve`: the `i`-th is the profile rotated `i` times by `dt`
    (`(cos dt, sin dt) = (cd, sd)`), `z`, `w` multiplied by the `i`-th path weight. -/
def revolveRowsStep (prof : List (Pt K)) (cd sd : K) (weights : List K) : List (List (Pt K)) :=
  (List.range weights.length).map (fun i =>
    let a := angleIter cd sd i
    prof.map (fun p => scaleZW (weights.getD i 1) (rotZPt a.1 a.2 p)))

/-- `volume_factory.revolve(surf, theta, axis)`.  The step is
    `sign(θ)·(knots[1]−knots[0])/2`, whose `(cos, sin)` is `(arc.cd, arc.sd)`
    (for `θ = 2π` the caller passes `(w, w)`). -/
def revolveVol (k : Consts K) (o : Obj K) (theta : K) (arc : ArcAux K) (ax : NAux K) : PyM (Obj K) := do
  let o := (o.setDimension 3).forceRational
  let o ← o.rotateZ ax.ct (-ax.st)
  let o := o.rotateY ax.cp (-ax.sp)
  let seg ← circleSegmentDefault k theta 1 arc
  let res : Obj K :=
    { bases := o.bases ++ seg.bases, shape := o.shape ++ [seg.cps.length],
      cps := stackLast (revolveRowsStep o.cps arc.cd arc.sd (seg.cps.map (fun q => q.getLastD 1))),
      rational := true, dim := 3 }
  (res.rotateY ax.cp ax.sp).rotateZ ax.ct ax.st

/-- arc data of the full turn used by `revolve(…)` with the default `theta = 2π`. -/
def fullTurn (k : Consts K) : ArcAux K := ⟨4, k.w, k.w⟩

/-- `disc(r, center, normal, type, xaxis)`. -/
def disc (k : Consts K) (r : K) (center normal : List K) (type : String) (xaxis : List K)
    (a : NAux K) (lam : K) : PyM (Obj K) := do
  if type == "radial" then
    let c1 ← circle k r center normal "p2C0" xaxis a lam
    let c2 ← flipAndMove (c1.scale [0]) center normal a
    let cb := match c1.bases with
      | [b] => reparamBasis (reparamBasis b 0 1) 0 (2 * k.pi)
      | _ => defaultBasis 3
    pure { bases := [reparamBasis (defaultBasis 2) 0 r, cb], shape := [2, c1.cps.length],
           cps := c2.cps ++ c1.cps, rational := true, dim := c1.dim }
  else if type == "square" then
    let w := k.w
    let flat : List (Pt K) :=
      [[-r * w, -r * w, 1], [0, -r, w], [r * w, -r * w, 1], [-r, 0, w], [0, 0, 1], [r, 0, w],
       [-r * w, r * w, 1], [0, r, w], [r * w, r * w, 1]]
    -- Surface(b1, b2, cp) reads the list in F order: cps[i,j] = flat[3j+i]
    let cps := (List.range 3).flatMap (fun i => (List.range 3).map (fun j => flat.getD (3 * j + i) []))
    flipAndMove { bases := [defaultBasis 3, defaultBasis 3], shape := [3, 3], cps := cps,
                  rational := true, dim := 2 } center normal a
  else throw .value

/-- `surface_factory.sphere(r, center, zaxis, xaxis)`. -/
def sphere (k : Consts K) (r : K) (center zaxis xaxis : List K) (a : NAux K) (lam : K) : PyM (Obj K) := do
  let c ← circleSegmentDefault k k.pi r ⟨2, k.w, k.w⟩
  let c ← c.rotateZ 0 (-1)
  let c := c.rotateX 0 1
  let s ← revolve k c (2 * k.pi) (fullTurn k) aux0
  let (ca, sa) := rotateLocalXAxis xaxis a lam
  let s ← s.rotateZ ca sa
  flipAndMove s center zaxis a

/-- `surface_factory.cylinder(r, h, center, axis, xaxis)`; `hAxis = h * axis`. -/
def cylinder (k : Consts K) (r : K) (hAxis center axis xaxis : List K) (a : NAux K) (lam : K) :
    PyM (Obj K) := do
  let c ← circle k r center axis "p2C0" xaxis a lam
  extrude c hAxis

/-- `surface_factory.torus(minor_r, major_r, center, normal, xaxis)`. -/
def torus (k : Consts K) (minorR majorR : K) (center normal xaxis : List K) (a : NAux K) (lam : K) :
    PyM (Obj K) := do
  let c ← circleDefault k minorR "p2C0"
  let c := c.rotateX 0 1
  let c ← c.translate [majorR, 0, 0]
  let s ← revolve k c (2 * k.pi) (fullTurn k) aux0
  let (ca, sa) := rotateLocalXAxis xaxis a lam
  let s ← s.rotateZ ca sa
  flipAndMove s center normal a

/-- `volume_factory.sphere(r, center, 'radial')`: shell and its image under `*0 + center`,
    both directions reparametrised to `[0,1]` by `make_splines_identical`. -/
def sphereVol (k : Consts K) (r : K) (center : List K) : PyM (Obj K) := do
  let shell ← sphere k r center [0, 0, 1] [1, 0, 0] aux0 1
  let mid ← (shell.scale [0]).translate center
  pure { bases := shell.bases.map (fun b => reparamBasis b 0 1) ++ [defaultBasis 2],
         shape := shell.shape ++ [2], cps := stackLast [shell.cps, mid.cps], rational := true,
         dim := shell.dim }

/-! ### solid sphere, `type='square'` (Cobb's tiling of the sphere) -/

/-- the literal 25-point list `cp` of `volume_factory.sphere(type='square')` (`wmin` face, rows as
    written in the source). -/
def cobbFlat (k : K × K × K) : List (Pt K) :=
  let sr2 := k.1
  let sr3 := k.2.1
  let sr6 := k.2.2
  [[-4*(sr3-1), 4*(1-sr3), 4*(1-sr3), 4*(3-sr3)],
   [-sr2, sr2*(sr3-4), sr2*(sr3-4), sr2*(3*sr3-2)],
   [0, 4/3*(1-2*sr3), 4/3*(1-2*sr3), 4/3*(5-sr3)],
   [sr2, sr2*(sr3-4), sr2*(sr3-4), sr2*(3*sr3-2)],
   [4*(sr3-1), 4*(1-sr3), 4*(1-sr3), 4*(3-sr3)],
   [-sr2*(4-sr3), -sr2, sr2*(sr3-4), sr2*(3*sr3-2)],
   [-(3*sr3-2)/2, (2-3*sr3)/2, -(sr3+6)/2, (sr3+6)/2],
   [0, sr2*(2*sr3-7)/3, -5*sr6/3, sr2*(sr3+6)/3],
   [(3*sr3-2)/2, (2-3*sr3)/2, -(sr3+6)/2, (sr3+6)/2],
   [sr2*(4-sr3), -sr2, sr2*(sr3-4), sr2*(3*sr3-2)],
   [-4/3*(2*sr3-1), 0, 4/3*(1-2*sr3), 4*(5-sr3)/3],
   [-sr2/3*(7-2*sr3), 0, -5*sr6/3, sr2*(sr3+6)/3],
   [0, 0, 4*(sr3-5)/3, 4*(5*sr3-1)/9],
   [sr2/3*(7-2*sr3), 0, -5*sr6/3, sr2*(sr3+6)/3],
   [4/3*(2*sr3-1), 0, 4/3*(1-2*sr3), 4*(5-sr3)/3],
   [-sr2*(4-sr3), sr2, sr2*(sr3-4), sr2*(3*sr3-2)],
   [-(3*sr3-2)/2, -(2-3*sr3)/2, -(sr3+6)/2, (sr3+6)/2],
   [0, -sr2*(2*sr3-7)/3, -5*sr6/3, sr2*(sr3+6)/3],
   [(3*sr3-2)/2, -(2-3*sr3)/2, -(sr3+6)/2, (sr3+6)/2],
   [sr2*(4-sr3), sr2, sr2*(sr3-4), sr2*(3*sr3-2)],
   [-4*(sr3-1), -4*(1-sr3), 4*(1-sr3), 4*(3-sr3)],
   [-sr2, -sr2*(sr3-4), sr2*(sr3-4), sr2*(3*sr3-2)],
   [0, -4/3*(1-2*sr3), 4/3*(1-2*sr3), 4/3*(5-sr3)],
   [sr2, -sr2*(sr3-4), sr2*(sr3-4), sr2*(3*sr3-2)],
   [4*(sr3-1), -4*(1-sr3), 4*(1-sr3), 4*(3-sr3)]]

/-- `wmin[a,b]` (`Surface(b, b, cp)` reads the list in F order). -/
def cobbWmin (k : K × K × K) (a b : ℕ) : Pt K := (cobbFlat k).getD (5 * b + a) []

def negX : Pt K → Pt K | x :: r => (-x) :: r | p => p
def negY : Pt K → Pt K | x :: y :: r => x :: (-y) :: r | p => p
def negZ : Pt K → Pt K | x :: y :: z :: r => x :: y :: (-z) :: r | p => p

/-- the six faces: `wmax = mirror_z wmin`, `vmax = rot_x(π/2) wmin`, `vmin = mirror_y vmax`,
    `umax = rot_z(π/2) vmin`, `umin = mirror_x umax`. -/
def cobbWmax (k : K × K × K) (a b : ℕ) : Pt K := negZ (cobbWmin k a b)
def cobbVmax (k : K × K × K) (a b : ℕ) : Pt K := rotXPt 0 1 (cobbWmin k a b)
def cobbVmin (k : K × K × K) (a b : ℕ) : Pt K := negY (cobbVmax k a b)
def cobbUmax (k : K × K × K) (a b : ℕ) : Pt K := rotZPt 0 1 (cobbVmin k a b)
def cobbUmin (k : K × K × K) (a b : ℕ) : Pt K := negX (cobbUmax k a b)

/-- control point `[i,j,k]` of the unit ball: faces in the order the code assigns them (later
    assignments overwrite earlier ones on shared edges), interior `linspace(-.5,.5,3)` grid. -/
def cobbPoint (k : K × K × K) (i j l : ℕ) : Pt K :=
  if i = 4 then cobbUmax k j l
  else if i = 0 then cobbUmin k j l
  else if j = 4 then cobbVmax k i l
  else if j = 0 then cobbVmin k i l
  else if l = 4 then cobbWmax k i j
  else if l = 0 then cobbWmin k i j
  else [((i : K) - 2) / 2, ((j : K) - 2) / 2, ((l : K) - 2) / 2, 1]

/-- `volume_factory.sphere(r, center, 'square')`: `r*ball + center`;
    `k = (s2, s3, s6)` stands for `(√2, √3, √6)`. -/
def sphereVolSquare (k : K × K × K) (r : K) (center : List K) : PyM (Obj K) :=
  let ball : Obj K :=
    { bases := [defaultBasis 5, defaultBasis 5, defaultBasis 5], shape := [5, 5, 5],
      cps := (List.range 5).flatMap (fun i => (List.range 5).flatMap (fun j =>
               (List.range 5).map (fun l => cobbPoint k i j l))),
      rational := true, dim := 3 }
  (ball.scale [r]).translate center

/-- `volume_factory.torus(minor_r, major_r, center, normal, xaxis, type)`. -/
def torusVol (k : Consts K) (minorR majorR : K) (center normal xaxis : List K) (type : String)
    (a : NAux K) (lam : K) : PyM (Obj K) := do
  let d ← disc k minorR [0, 0, 0] [0, 0, 1] type [1, 0, 0] aux0 1
  let d := d.rotateX 0 1
  let d ← d.translate [majorR, 0, 0]
  let s ← revolveVol k d (2 * k.pi) (fullTurn k) aux0
  let (ca, sa) := rotateLocalXAxis xaxis a lam
  let s ← s.rotateZ ca sa
  flipAndMove s center normal a

/-- `volume_factory.cylinder(r, h, center, axis, xaxis, type)`. -/
def cylinderVol (k : Consts K) (r : K) (hAxis center axis xaxis : List K) (type : String)
    (a : NAux K) (lam : K) : PyM (Obj K) := do
  let d ← disc k r center axis type xaxis a lam
  extrude d hAxis

end Splipy.Fac
