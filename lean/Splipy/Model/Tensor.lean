import Mathlib.Algebra.Field.Defs

/-!
# Dense n-d arrays (model of the numpy arrays Splipy uses)

`Tensor` = numpy array in C order: `shape` + flat `data` (last index fastest).
Only the handful of primitives the library uses are modelled: contraction of one axis with a
matrix (`np.tensordot(M, T, axes=(1, axis))` followed by `transpose_fix`), slicing/reversal/rolling
along an axis, insertion/removal of components along the last axis, axis transposition.
These are *models* of numpy semantics (trusted base); the correspondence run exercises them.
-/

namespace Splipy

structure Tensor (K : Type) where
  shape : List ℕ
  data : Array K
  deriving Inhabited

/-- Row-major matrix as array of rows. -/
abbrev Mat (K : Type) := Array (Array K)

namespace Tensor

variable {K : Type}

def prod (l : List ℕ) : ℕ := l.foldl (· * ·) 1

def size (t : Tensor K) : ℕ := prod t.shape
def ndim (t : Tensor K) : ℕ := t.shape.length

/-- (outer, n, inner) sizes around `axis`. -/
def split3 (shape : List ℕ) (axis : ℕ) : ℕ × ℕ × ℕ :=
  (prod (shape.take axis), shape.getD axis 1, prod (shape.drop (axis + 1)))

variable [Zero K]

def get (t : Tensor K) (flat : ℕ) : K := t.data.getD flat 0

/-- Build from a function of (outer, mid, inner) along `axis` with new length `m`. -/
def build3 (shape : List ℕ) (axis m : ℕ) (f : ℕ → ℕ → ℕ → K) : Tensor K :=
  let (o, _, inn) := split3 shape axis
  { shape := shape.set axis m,
    data := Array.ofFn (n := o * m * inn) (fun idx =>
      let i := idx.val % inn
      let r := (idx.val / inn) % m
      let a := idx.val / (inn * m)
      f a r i) }

/-- Read entry (outer a, position j along axis, inner i). -/
def at3 (t : Tensor K) (axis : ℕ) (a j i : ℕ) : K :=
  let (_, n, inn) := split3 t.shape axis
  t.get ((a * n + j) * inn + i)

/-- General reindexing along one axis: new length `m`, new position `r` reads old position `g r`. -/
def reindexAxis (t : Tensor K) (axis m : ℕ) (g : ℕ → ℕ) : Tensor K :=
  build3 t.shape axis m (fun a r i => t.at3 axis a (g r) i)

/-- `t[..., lo:hi, ...]` along `axis`. -/
def sliceAxis (t : Tensor K) (axis lo hi : ℕ) : Tensor K := reindexAxis t axis (hi - lo) (fun r => lo + r)

/-- `t[..., ::-1, ...]`. -/
def flipAxis (t : Tensor K) (axis : ℕ) : Tensor K :=
  let n := t.shape.getD axis 1
  reindexAxis t axis n (fun r => n - 1 - r)

/-- `np.roll(t, -k, axis)`: new[r] = old[(r + k) % n]. -/
def rollAxisNeg (t : Tensor K) (axis k : ℕ) : Tensor K :=
  let n := t.shape.getD axis 1
  reindexAxis t axis n (fun r => (r + k) % n)

/-- `np.roll(t, k, axis)` for `k ≥ 0`: new[r] = old[(r - k) mod n]. -/
def rollAxisPos (t : Tensor K) (axis k : ℕ) : Tensor K :=
  let n := t.shape.getD axis 1
  reindexAxis t axis n (fun r => (r + (n - k % n)) % n)

/-- Fix index `j` along `axis` (the axis disappears). -/
def takeAxis (t : Tensor K) (axis j : ℕ) : Tensor K :=
  let r := reindexAxis t axis 1 (fun _ => j)
  { r with shape := r.shape.eraseIdx axis }

/-- Swap two axes (`np.transpose` with the two entries exchanged). -/
def swapAxes (t : Tensor K) (a b : ℕ) : Tensor K :=
  if a = b then t else
  let nd := t.shape.length
  let newShape := (t.shape.set a (t.shape.getD b 1)).set b (t.shape.getD a 1)
  -- strides of the old tensor
  let strides : List ℕ := (List.range nd).map (fun k => prod (t.shape.drop (k + 1)))
  { shape := newShape,
    data := Array.ofFn (n := prod newShape) (fun idx =>
      -- decode idx in newShape, map to old flat index
      let rec go (k : ℕ) (rem : ℕ) (dims : List ℕ) (acc : ℕ) : ℕ :=
        match dims with
        | [] => acc
        | _ :: rest =>
          let stride := prod rest
          let c := rem / stride
          let oldAxis := if k = a then b else if k = b then a else k
          go (k + 1) (rem % stride) rest (acc + c * strides.getD oldAxis 0)
      t.get (go 0 idx.val newShape 0)) }

variable [Add K] [Mul K]

/-- Contract `axis` of `t` with the columns of `M` (rows × n): the model of
    `np.tensordot(M, t, axes=(1, axis)).transpose(transpose_fix(pardim, axis))`. -/
def applyAxis (M : Mat K) (t : Tensor K) (axis : ℕ) : Tensor K :=
  let (_, n, _) := split3 t.shape axis
  build3 t.shape axis M.size (fun a r i =>
    (List.range n).foldl (fun acc j => acc + (M.getD r #[]).getD j 0 * t.at3 axis a j i) 0)

/-- Map over the component (last) axis: each control point `Array K` ↦ `Array K` of length `m`. -/
def mapLast (t : Tensor K) (m : ℕ) (f : Array K → Array K) : Tensor K :=
  let nc := t.shape.getLastD 1
  let npts := t.size / nc
  { shape := t.shape.dropLast ++ [m],
    data := Id.run do
      let mut out : Array K := Array.mkEmpty (npts * m)
      for pI in [0:npts] do
        let row := f (t.data.extract (pI * nc) (pI * nc + nc))
        for c in [0:m] do
          out := out.push (row.getD c 0)
      return out }

end Tensor

end Splipy
