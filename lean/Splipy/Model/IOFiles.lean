import Splipy.Model.IOPrims
import Splipy.Model.IOObjects
import Splipy.Model.Sections

/-!
# Whole files: what `G2.write`, `G2.read`, `STL.write` and `SVG.write` do with their arguments

* `g2WriteList`: `G2.write(objs)` for a list (`obj[0]` of an empty list is an `IndexError`);
* `g2ReadMixed`: `G2.read()` on a file that mixes spline records and analytic primitive records;
* `stlFile`: the facets `STL.write(obj, n)` emits for surfaces and volumes — evaluation of the
  surface (`Obj.evaluate`) at the sampling parameters, padding to three components, the quads of
  `write_surface`, `add_face`/`_split`, and the counter the binary writer puts in the header;
* `svgAccept`: the dimension test of `SVG.write`.
-/

namespace Splipy.FileIO

variable {K : Type}

/-- One object read from a G2 file: a spline record (token-level object) or the result of a
    primitive record. -/
inductive G2Item (K : Type) where
  | spline (o : Obj K)
  | prim (o : Splipy.Obj K)

/-- The type codes of `G2.g2_generators`. -/
def primCodes : List Int := [120, 130, 140, 260, 292, 270, 290, 250, 210, 261]

section
variable [Field K] [LinearOrder K] [FloorRing K]

/-- `G2.write(obj)` with a list argument: `isinstance(obj[0], SplineObject)` raises `IndexError`
    on the empty list, otherwise every element is written in turn. -/
def g2WriteList (tol : K) : List (Splipy.Obj K) → PyM (List (Token K))
  | [] => .error .index
  | os => (os.mapM (g2WriteObj tol)).map List.flatten

/-- One iteration of the loop of `G2.read`, the stream positioned at a non-blank header line.
    The primitive parsers consume one `PrimAux` (data a field cannot compute) each. -/
def g2ReadItem (auxs : List (PrimAux K)) (tol : K) (toks : List (Token K)) :
    Except PyErr (G2Item K × List (PrimAux K) × List (Token K)) :=
  match nextNonBlank toks with
  | none => .error .other
  | some (hdr, r) =>
    match hdr.mapM Token.toInt? with
    | some [objtype, major, minor, patch] =>
      if (major, minor, patch) ≠ (1, 0, 0) then .error .other          -- IOError
      else if objtype ∈ primCodes then
        match auxs with
        | [] => .error .notImplemented                                   -- no data supplied
        | a :: as =>
          match g2Prim a tol objtype r with
          | .error e => .error e
          | .ok (o, r') => .ok (.prim o, as, r')
      else
        let sp (pardim : ℕ) : Except PyErr (G2Item K × List (PrimAux K) × List (Token K)) :=
          match g2Splines tol pardim r with
          | .error e => .error e
          | .ok (o, r') => .ok (.spline o, auxs, r')
        if objtype = 100 then sp 1
        else if objtype = 200 then sp 2
        else if objtype = 700 then sp 3
        else .error .other                                               -- IOError
    | _ => .error .value

/-- `G2.read()`: records until end of file, `fuel` bounds their number. -/
def g2ReadMixedFuel (tol : K) : ℕ → List (PrimAux K) → List (Token K) → Except PyErr (List (G2Item K))
  | 0, _, _ => .error .other
  | fuel + 1, auxs, toks =>
    if (toks.dropWhile Token.isNl).isEmpty then .ok []
    else
      match g2ReadItem auxs tol toks with
      | .error e => .error e
      | .ok (it, auxs', r) =>
        match g2ReadMixedFuel tol fuel auxs' r with
        | .error e => .error e
        | .ok its => .ok (it :: its)

def g2ReadMixed (auxs : List (PrimAux K)) (tol : K) (toks : List (Token K)) :
    Except PyErr (List (G2Item K)) :=
  g2ReadMixedFuel tol (toks.length + 1) auxs toks

/-! ## STL -/

/-- Sampling parameters of `write_surface` in direction `d`: `linspace(start, end, n)` or the rule
    without `n` applied to `surface.knots(d)`. -/
def stlParamsObj (tol : K) (o : Splipy.Obj K) (d : ℕ) (n : Option ℕ) : PyM (List K) :=
  match n with
  | some k => .ok (linspace (o.basis d).start (o.basis d).stop k)
  | none => stlParams (o.basis d).order ((o.basis d).knotSpans tol false).toList none

/-- `x[i,j]` after the padding to three components (`np.concatenate` with `3 - dim` zeros): the
    three numbers `_write` prints. -/
def stlVertex (X : Tensor K) (nv dim : ℕ) (i j : ℕ) : List K :=
  (List.range 3).map fun c => if c < dim then X.get ((i * nv + j) * dim + c) else 0

/-- The facets of one surface, in file order. -/
def stlSurfaceFacets (tol : K) (o : Splipy.Obj K) (n : Option (ℕ × ℕ)) : PyM (List (List (List K))) := do
  let u ← stlParamsObj tol o 0 (n.map Prod.fst)
  let v ← stlParamsObj tol o 1 (n.map Prod.snd)
  let X ← o.evaluate tol [u, v] true
  if 3 < o.dimension then throw .value               -- `np.zeros` with a negative dimension
  pure (stlFacets (stlVertex X v.length o.dimension) u.length v.length)

/-- The surfaces `STL.write(obj, n)` tessellates: the surface itself, or the non-`None` faces of a
    volume; anything else is a `ValueError`. -/
def stlSurfaces (o : Splipy.Obj K) : PyM (List (Splipy.Obj K)) :=
  if o.pardim = 2 then .ok [o]
  else if o.pardim = 3 then
    match o.faces with
    | .error e => .error e
    | .ok fs => .ok (fs.filterMap fun f => match f with
        | some (.obj _ s) => some s
        | _ => none)
  else .error .value

/-- State of `BINARY_STL_Writer`: the counter and the facet records appended so far. -/
structure StlWriter (K : Type) where
  counter : ℕ
  records : List (List (List K))

/-- `_write(face)`: one record appended, `self.counter += 1`. -/
def StlWriter.write (w : StlWriter K) (face : List (List K)) : StlWriter K :=
  { counter := w.counter + 1, records := w.records ++ [face] }

/-- `write(obj, n)` on an open writer. -/
def StlWriter.writeObj (tol : K) (n : Option (ℕ × ℕ)) (w : StlWriter K) (o : Splipy.Obj K) :
    PyM (StlWriter K) := do
  let ss ← stlSurfaces o
  ss.foldlM (fun w s => do
    let fs ← stlSurfaceFacets tol s n
    pure (fs.foldl StlWriter.write w)) w

/-- A finished binary file: the count `close()` writes into the header and the records. -/
structure StlFile (K : Type) where
  declared : ℕ
  records : List (List (List K))

/-- `with STL(fn) as f: for o in objs: f.write(o, n)`: the header is rewritten on `close()` with the
    counter reached. -/
def stlFile (tol : K) (objs : List (Splipy.Obj K)) (n : Option (ℕ × ℕ)) : PyM (StlFile K) := do
  let w ← objs.foldlM (StlWriter.writeObj tol n) { counter := 0, records := [] }
  pure { declared := w.counter, records := w.records }

/-! ## SVG -/

/-- `SVG.write(obj)`: `if obj.dimension != 2: raise RuntimeError`. -/
def svgAccept (o : Splipy.Obj K) : PyM Unit :=
  if o.dimension ≠ 2 then .error .runtime else .ok ()

end

end Splipy.FileIO
