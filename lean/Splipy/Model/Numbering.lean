import Mathlib.Data.List.Sort
import Splipy.Model.Catalogue
import Splipy.Model.BasisOps

/-!
# Executable model of the global numbering and mesh export of `splipy.splinemodel`
# (`generate_cp_numbers`, `assign_cp_numbers`, `read_cp_numbers`, `cps`, `generate_cell_numbers`,
# `TopologicalNode.faces`, `IFEMWriter.connections`) and of the face ordering of
# `splipy.io.ofoam.OpenFOAM.write`

The state is the catalogue of `Model/Catalogue.lean` (`Splipy.MP.SplineModel`).

* numpy VIEWS are modelled as views: `node.assign_cp_numbers(numbers[section])` hands the child a
  *view* into the array of the top-level node, so what `read_cp_numbers` later writes into a
  top-level array is seen through every view (`CpView` = top node + chain of sections, resolved
  against the current arrays).  Children of parametric dimension 0 receive a numpy *scalar* (a
  copy that nobody reads); they are not modelled.
* The numbering algorithm proper is a pure function of a `PatchPlan` per top-level node (shape,
  and per codimension-1 section: owned?, the view of the face node's numbers, the orientation
  `Orientation.compute(self.obj.section(*section), node.obj)`); `planOf` extracts the plans from
  the catalogue, `generateAll`/`readAll` run the two loops of `SplineModel.generate_cp_numbers`.
* `sorted(…)` (stable) is `List.insertionSort`: the result of a stable sort under a total
  preorder is unique, so any stable algorithm is an exact model.
-/

namespace Splipy.MP

/-! ## errors -/

/-- Exceptions of the numbering / export code (`MErr` of the catalogue + the ones raised here). -/
inductive NErr where
  | m (e : MErr)
  | assertion        -- `AssertionError`
  | attribute        -- `AttributeError` (`None.transpose`)
  | stopIteration    -- `StopIteration` (`next(...)` on an exhausted generator)
  | value            -- `ValueError` (numpy shape mismatch)
  | index            -- `IndexError`
  deriving DecidableEq, Repr, Inhabited

def NErr.pyName : NErr → String
  | .m e => e.pyName | .assertion => "AssertionError" | .attribute => "AttributeError"
  | .stopIteration => "StopIteration" | .value => "ValueError" | .index => "IndexError"

def liftM {α : Type} : Except MErr α → Except NErr α
  | .ok a => .ok a
  | .error e => .error (.m e)

/-! ## integer arrays: filling and assigning sections -/

/-- the multi-index `idx` of an array of shape `shape` lies on the section `sec`
    (fixed directions at index `0` / `-1`). -/
def onSection (sec : Sec) (shape idx : List ℕ) : Bool :=
  (List.range shape.length).all fun d =>
    match sec.getD d none with
    | none => true
    | some false => idx.getD d 0 == 0
    | some true => idx.getD d 0 + 1 == shape.getD d 0

/-- multi-index inside `a[section]` of a full multi-index lying on the section. -/
def projectSection (sec : Sec) (idx : List ℕ) : List ℕ :=
  (Orientation.variableDirs sec).map (fun d => idx.getD d 0)

namespace NdArr
variable {α : Type}

def full (shape : List ℕ) (v : α) : NdArr α := ⟨shape, Array.replicate (shapeSize shape) v⟩

/-- `a[section] = v` (scalar broadcast). -/
def fillSect [Inhabited α] (a : NdArr α) (sec : Sec) (v : α) : NdArr α :=
  NdArr.ofFn a.shape (fun idx => if onSection sec a.shape idx then v else a.get idx)

/-- `a[section] = vals` (`vals.shape` = shape of the section). -/
def setSect [Inhabited α] (a : NdArr α) (sec : Sec) (vals : NdArr α) : NdArr α :=
  NdArr.ofFn a.shape (fun idx =>
    if onSection sec a.shape idx then vals.get (projectSection sec idx) else a.get idx)

end NdArr

/-- flat data has the size of the shape -/
def NdArr.SizeOK {α : Type} (a : NdArr α) : Prop := a.data.size = shapeSize a.shape

/-- `np.reshape(np.arange(start, start + prod(shape)), shape)`. -/
def arangeArr (start : ℕ) (shape : List ℕ) : NdArr ℤ :=
  ⟨shape, ((List.range' start (shapeSize shape)).map (fun (n : ℕ) => (n : ℤ))).toArray⟩

/-! ## the numbering algorithm on plans -/

/-- a numpy view `tops[top].cp_numbers[path₀][path₁]…` (`top` = position in `top_nodes()`). -/
structure CpView where
  top : ℕ
  path : List Sec
  deriving DecidableEq, Repr, Inhabited

/-- What `generate_cp_numbers` / `read_cp_numbers` see of one codimension-1 section. -/
structure FaceLink where
  sec : Sec
  /-- `node.owner is self` -/
  owned : Bool
  /-- `node.cp_numbers` (`none`: never assigned) -/
  src : Option CpView
  /-- `Orientation.compute(self.obj.section(*section), node.obj)` (only looked at when not owned) -/
  ori : Except MErr Orientation

/-- What the numbering sees of one top-level node. -/
structure PatchPlan where
  shape : List ℕ
  faces : List FaceLink

/-- `numbers[:] = 0`, then `-1` on every codimension-1 section that is not owned. -/
def flagArray (p : PatchPlan) : NdArr ℤ :=
  p.faces.foldl (fun a f => if f.owned then a else a.fillSect f.sec (-1)) (NdArr.full p.shape 0)

/-- `numbers[mask] = np.arange(start, start + nowned)` on a flat C-order list (`mask` = the
    positions whose entry is not `-1`, in C order). -/
def fillFresh : List ℤ → ℕ → List ℤ
  | [], _ => []
  | x :: xs, c => if x = -1 then (-1) :: fillFresh xs c else (c : ℤ) :: fillFresh xs (c + 1)

/-- `nowned = len(mask[0])`. -/
def countOwned (l : List ℤ) : ℕ := (l.filter (· ≠ -1)).length

/-- `TopologicalNode.generate_cp_numbers(start)` without the hand-down to the children:
    the array and the next unused index. -/
def genOne (start : ℕ) (p : PatchPlan) : NdArr ℤ × ℕ :=
  let flags := flagArray p
  (⟨flags.shape, (fillFresh flags.data.toList start).toArray⟩, start + countOwned flags.data.toList)

/-- first loop of `SplineModel.generate_cp_numbers`. -/
def generateAll : List PatchPlan → ℕ → List (NdArr ℤ) × ℕ
  | [], start => ([], start)
  | p :: ps, start =>
    let r := genOne start p
    let rest := generateAll ps r.2
    (r.1 :: rest.1, rest.2)

/-- the array seen through a view. -/
def resolveView {α : Type} [Inhabited α] (arrays : Array (NdArr α)) (v : CpView) : NdArr α :=
  v.path.foldl (fun a s => a.sect s) (arrays.getD v.top default)

/-- one iteration of the loop of `read_cp_numbers` of the top node at position `k`
    (generic in the entry type: the loop only moves entries around). -/
def readFace {α : Type} [Inhabited α] (k : ℕ) (arrays : Array (NdArr α)) (f : FaceLink) :
    Except NErr (Array (NdArr α)) :=
  if f.owned then .ok arrays
  else
    match f.ori with
    | .error e => .error (.m e)
    | .ok ori =>
      match f.src with
      | none => .error .attribute
      | some v =>
        let mapped := ori.mapArray (resolveView arrays v)
        let self := arrays.getD k default
        if mapped.shape ≠ sectionShape f.sec self.shape then .error .value
        else .ok (arrays.setIfInBounds k (self.setSect f.sec mapped))

/-- the loop of `read_cp_numbers` of the top node at position `k`. -/
def readOneG {α : Type} [Inhabited α] (k : ℕ) (p : PatchPlan) (arrays : Array (NdArr α)) :
    Except NErr (Array (NdArr α)) :=
  p.faces.foldlM (readFace k) arrays

/-- `TopologicalNode.read_cp_numbers` of the top node at position `k`: the loop, then
    `assert (self.cp_numbers != -1).all()`. -/
def readOne (k : ℕ) (p : PatchPlan) (arrays : Array (NdArr ℤ)) : Except NErr (Array (NdArr ℤ)) :=
  match readOneG k p arrays with
  | .error e => .error e
  | .ok arrays => if (arrays.getD k default).data.any (· == -1) then .error .assertion else .ok arrays

/-- second loop of `SplineModel.generate_cp_numbers` without the assertions (transport only). -/
def readAllG {α : Type} [Inhabited α] (plans : List PatchPlan) (arrays : Array (NdArr α)) :
    Except NErr (Array (NdArr α)) :=
  plans.zipIdx.foldlM (fun arrs (pk : PatchPlan × ℕ) => readOneG pk.2 pk.1 arrs) arrays

/-- second loop of `SplineModel.generate_cp_numbers`. -/
def readAll (plans : List PatchPlan) (arrays : Array (NdArr ℤ)) : Except NErr (Array (NdArr ℤ)) :=
  plans.zipIdx.foldlM (fun arrs (pk : PatchPlan × ℕ) => readOne pk.2 pk.1 arrs) arrays

/-- `SplineModel.generate_cp_numbers` on plans: the arrays and `ncps`. -/
def numberPlans (plans : List PatchPlan) : Except NErr (Array (NdArr ℤ) × ℕ) := do
  let g := generateAll plans 0
  let arrays ← readAll plans g.1.toArray
  pure (arrays, g.2)

/-! ## positions, and the decidable guard `starOK` of the numbering theorem -/

instance : Inhabited PatchPlan := ⟨⟨[], []⟩⟩

/-- number / attached point at the flat C-order position `q` of the patch at position `k` -/
def numAt (N : Array (NdArr ℤ)) (k q : ℕ) : ℤ := (N.getD k default).data.getD q default
def ptAt {γ : Type} [Inhabited γ] (P : List (NdArr γ)) (k q : ℕ) : γ :=
  (P.toArray.getD k default).data.getD q default

/-- `q` is a position of the patch at `k` -/
def ValidPos (plans : List PatchPlan) (k q : ℕ) : Prop := ∃ p, plans[k]? = some p ∧ q < shapeSize p.shape

/-- the two lists of arrays describe patches of the same shapes -/
def compatB {γ : Type} : List (NdArr ℤ) → List (NdArr γ) → Bool
  | [], [] => true
  | n :: ns, p :: ps => (n.shape == p.shape && n.data.size == p.data.size) && compatB ns ps
  | _, _ => false

/-- every face that is read views the array of an EARLIER top node -/
def wellOrderedB (plans : List PatchPlan) : Bool :=
  plans.zipIdx.all fun (pk : PatchPlan × ℕ) => pk.1.faces.all fun f =>
    f.owned || match f.src with
      | some v => decide (v.top < pk.2)
      | none => true

/-- the position `q` of the patch lies on a codimension-1 section the patch does not own -/
def flaggedB (p : PatchPlan) (q : ℕ) : Bool := (flagArray p).data.getD q 0 == -1

/-- **star condition**: a point of the patch at `k` that occurs in an earlier patch is flagged
    (lies on a face shared with an earlier patch) -/
def starB {γ : Type} [Inhabited γ] [BEq γ] (plans : List PatchPlan) (P : List (NdArr γ)) : Bool :=
  (List.range plans.length).all fun k =>
    let p := plans.getD k default
    (List.range (shapeSize p.shape)).all fun q =>
      flaggedB p q || (List.range k).all fun k' =>
        (List.range (shapeSize (plans.getD k' default).shape)).all fun q' => ptAt P k q != ptAt P k' q'

/-- no patch contains a point twice -/
def injB {γ : Type} [Inhabited γ] [BEq γ] (plans : List PatchPlan) (P : List (NdArr γ)) : Bool :=
  (List.range plans.length).all fun k =>
    let n := shapeSize (plans.getD k default).shape
    (List.range n).all fun q => (List.range q).all fun q' => ptAt P k q != ptAt P k q'

/-- **`starOK`** — the decidable hypothesis of the numbering theorem (`C18_numbering_star`):
    the attached points have the shapes of the number arrays, are transported onto themselves by the
    face links, contain no junk, ownership is first-come, the star condition holds and no patch
    contains a point twice.  Evaluated by the harness on every generated complex. -/
def starOK {γ : Type} [Inhabited γ] [DecidableEq γ] (plans : List PatchPlan) (P : List (NdArr γ)) : Bool :=
  compatB (generateAll plans 0).1 P && decide (readAllG plans P.toArray = .ok P.toArray) &&
  (P.all fun a => a.data.all (· != default)) && wellOrderedB plans && starB plans P && injB plans P

/-! ## extraction of the plans from the catalogue -/

/-- `catalogue.top_nodes()` -/
def SplineModel.tops (sm : SplineModel) : List ℕ := sm.cat.nodesOf sm.pardim

/-- `TopologicalNode.assign_cp_numbers` as far as aliasing goes: `views[node] := view`, then
    down to every codimension-1 child with `child.owner is self or child.owner is self.owner`.
    (`fuel` ≥ parametric dimension; children of parametric dimension 0 get a scalar: skipped.) -/
def assignViews : ℕ → Model → ℕ → CpView → Array (Option CpView) → Array (Option CpView)
  | 0, _, _, _, acc => acc
  | fuel + 1, m, node, view, acc =>
    let acc := acc.setIfInBounds node (some view)
    let n := m.node node
    if n.pardim > 1 then
      (List.zip (n.lower.getLastD []) (sections n.pardim (n.pardim - 1))).foldl
        (fun acc (cs : ℕ × Sec) =>
          let c := m.node cs.1
          if c.owner == some node || c.owner == n.owner then
            assignViews fuel m cs.1 ⟨view.top, view.path ++ [cs.2]⟩ acc
          else acc) acc
    else acc

/-- the views handed out by the first loop (every top node, in order). -/
def allViews (sm : SplineModel) : Array (Option CpView) :=
  sm.tops.zipIdx.foldl (fun acc (tk : ℕ × ℕ) =>
    assignViews (sm.pardim + 1) sm.cat tk.1 ⟨tk.2, []⟩ acc) (Array.replicate sm.cat.nodes.size none)

/-- plan of the top node `t`. -/
def planOf (sm : SplineModel) (views : Array (Option CpView)) (t : ℕ) : PatchPlan :=
  let n := sm.cat.node t
  { shape := n.obj.shape
    faces := (List.zip (n.lower.getLastD []) (sections n.pardim (n.pardim - 1))).map fun (fs : ℕ × Sec) =>
      let f := sm.cat.node fs.1
      let owned := f.owner == some t
      { sec := fs.2, owned := owned, src := (views.getD fs.1 none),
        ori := if owned then .ok (Orientation.identity (n.pardim - 1))
               else Orientation.compute (n.obj.sect fs.2) f.obj } }

/-! ## the plans straight from the history (no catalogue)

What the catalogue amounts to for codimension-1 sections when every added patch becomes a new top
node: a face node is created at the FIRST occurrence of the face in creation order (patch by
patch, section by section), it stores the object of that occurrence, and the top node of that
patch takes ownership.  `plansOfObjs` states this directly on the list of patches; it is what
property C17 (`C17_catalogue_canonical`) says the catalogue computes, and the correspondence run
of C18 checks `plansOfObjs = planOf ∘ catalogue` on every generated history.  It uses no hash
maps, so the kernel can evaluate it. -/

/-- `candidate.view(obj)` succeeds: `Orientation.compute(node.obj, obj)` does not raise. -/
def sameEntity (nodeObj obj : Obj) : Bool :=
  match Orientation.compute nodeObj obj with
  | .ok _ => true
  | .error _ => false

/-- the codimension-1 sections of a patch -/
def faceSecs (o : Obj) : List Sec := sections o.pardim (o.pardim - 1)

/-- all face occurrences `(patch, section index)` up to and including `(k, i)`, creation order -/
def occsUpTo (objs : List Obj) (k i : ℕ) : List (ℕ × ℕ) :=
  ((List.range k).flatMap fun j => (List.range (faceSecs (objs.getD j default)).length).map fun i' => (j, i'))
    ++ (List.range (i + 1)).map fun i' => (k, i')

/-- the object of the face occurrence `(j, i)` -/
def occObj (objs : List Obj) (ji : ℕ × ℕ) : Obj :=
  let o := objs.getD ji.1 default
  o.sect ((faceSecs o).getD ji.2 [])

/-- the occurrence at which the node of the face `(k, i)` was created -/
def firstOcc (objs : List Obj) (k i : ℕ) : ℕ × ℕ :=
  ((occsUpTo objs k i).find? fun ji => sameEntity (occObj objs ji) (occObj objs (k, i))).getD (k, i)

/-- `firstOcc` of every face of every patch. -/
def firstOccTable (objs : List Obj) : List (List (ℕ × ℕ)) :=
  (List.range objs.length).map fun k =>
    (List.range (faceSecs (objs.getD k default)).length).map (firstOcc objs k)

/-- the last section index of patch `j` whose face is the node created at `(j, i)`
    (`assign_cp_numbers` visits the sections in order; the last hand-down stays). -/
def lastSame (tbl : List (List (ℕ × ℕ))) (j i : ℕ) : ℕ :=
  let row := tbl.getD j []
  (((List.range row.length).filter fun i' => row.getD i' (0, 0) == (j, i)).getLast?).getD i

/-- plan of the patch at position `k` of the history. -/
def planOfObjs (objs : List Obj) (tbl : List (List (ℕ × ℕ))) (k : ℕ) : PatchPlan :=
  let o := objs.getD k default
  { shape := o.shape
    faces := (faceSecs o).zipIdx.map fun (si : Sec × ℕ) =>
      let ji := (tbl.getD k []).getD si.2 (k, si.2)
      let owned := ji.1 == k
      let srcSec := (faceSecs (objs.getD ji.1 default)).getD (lastSame tbl ji.1 ji.2) []
      { sec := si.1, owned := owned, src := some ⟨ji.1, [srcSec]⟩,
        ori := if owned then .ok (Orientation.identity (o.pardim - 1))
               else Orientation.compute (o.sect si.1) (occObj objs ji) } }

def plansOfObjs (objs : List Obj) : List PatchPlan :=
  let tbl := firstOccTable objs
  (List.range objs.length).map (planOfObjs objs tbl)

def FaceLink.same (a b : FaceLink) : Bool :=
  a.sec == b.sec && a.owned == b.owned && a.src == b.src &&
  (match a.ori, b.ori with
   | .ok x, .ok y => x == y
   | .error x, .error y => x == y
   | _, _ => false)

def PatchPlan.same (a b : PatchPlan) : Bool :=
  a.shape == b.shape && a.faces.length == b.faces.length &&
  (List.zip a.faces b.faces).all fun ab => ab.1.same ab.2

/-! ## geometric points and conforming nets (used by the statement of the property) -/

/-- the geometric point of a control point of `o` (weight divided out when rational). -/
def geomPoint (o : Obj) (p : List ℚ) : List ℚ :=
  if o.rational then p.dropLast.map (· / lastD p) else p

/-- the geometric points of the control net, flat C order -/
def ptsOf (o : Obj) : List (List ℚ) := o.cps.data.toList.map (geomPoint o)

/-- arrays of the shapes of the plans filled with `true` -/
def trueArrays (plans : List PatchPlan) : List (NdArr Bool) := plans.map fun p => NdArr.full p.shape true

/-- **no junk is ever read**: transporting the all-`true` arrays through the face links gives the
    all-`true` arrays (an index outside an array would read the default `false`).  Decidable guard of
    `C18_numbering_partition`, evaluated by the harness on every generated complex. -/
def noJunkB (plans : List PatchPlan) : Bool :=
  decide (readAllG plans (trueArrays plans).toArray = .ok (trueArrays plans).toArray)

/-- the geometric points of the control nets, as arrays -/
def geomArrays (objs : List Obj) : List (NdArr (List ℚ)) :=
  objs.map fun o => ⟨o.cps.shape, o.cps.data.map (geomPoint o)⟩

/-- the coincidence of the control points `a[ia]` and `b[ib]` is explained by a common entity of
    lower dimension: sections `sa ∋ ia`, `sb ∋ ib` of the same dimension that `Orientation.compute`
    matches, the orientation taking `ia` to `ib`. -/
def explainedBy (a b : Obj) (ia ib : List ℕ) : Bool :=
  (List.range a.pardim).any fun d =>
    (sections a.pardim d).any fun sa => onSection sa a.shape ia &&
      (sections b.pardim d).any fun sb => onSection sb b.shape ib &&
        match Orientation.compute (a.sect sa) (b.sect sb) with
        | .ok o => o.mapIndex (b.sect sb).shape (projectSection sa ia) == projectSection sb ib
        | .error _ => false

/-- **conforming control nets**: whenever two control points of the history (of different patches,
    or two different control points of one patch) are the same geometric point, they lie on a
    common lower-dimensional entity of the two patches. -/
def conformingNets (objs : List Obj) : Bool :=
  (List.range objs.length).all fun k => (List.range (k + 1)).all fun k' =>
    let a := objs.getD k default
    let b := objs.getD k' default
    (List.range a.cps.data.size).all fun j => (List.range b.cps.data.size).all fun j' =>
      (k == k' && j ≤ j') || (ptsOf a).getD j [] != (ptsOf b).getD j' [] ||
        explainedBy a b (unravel a.shape j) (unravel b.shape j')

/-- State after `generate_cp_numbers` (and, when run, `generate_cell_numbers`). -/
structure Numbered where
  sm : SplineModel
  tops : List ℕ
  views : Array (Option CpView)
  /-- `cp_numbers` of the top nodes, by position in `tops` -/
  cp : Array (NdArr ℤ)
  ncps : ℕ
  /-- `cell_numbers` of the top nodes -/
  cells : Array (NdArr ℤ) := #[]
  ncells : ℕ := 0
  /-- `node.name` by node id -/
  names : Array (Option String) := #[]

/-- `SplineModel.generate_cp_numbers()`. -/
def SplineModel.generateCpNumbers (sm : SplineModel) : Except NErr Numbered := do
  let tops := sm.tops
  let views := allViews sm
  let plans := tops.map (planOf sm views)
  let (cp, ncps) ← numberPlans plans
  pure { sm := sm, tops := tops, views := views, cp := cp, ncps := ncps }

/-- **decidable link between the catalogue and the history**: the plans read off the catalogue
    (`planOf`, what `generate_cp_numbers` of the driver runs on) are the plans of the history
    (`plansOfObjs`, what the numbering theorems are about).  Evaluated by the harness on every
    generated model. -/
def plansAgreeB (cat spec : List PatchPlan) : Bool :=
  spec.length == cat.length && (List.zip spec cat).all fun ab => ab.1.same ab.2

/-- the plans the catalogue yields (for the cross-check against `plansOfObjs`). -/
def SplineModel.plans (sm : SplineModel) : List PatchPlan :=
  let views := allViews sm
  sm.tops.map (planOf sm views)

/-- `node.cp_numbers` of any node that was handed a view. -/
def Numbered.cpOf (r : Numbered) (node : ℕ) : Option (NdArr ℤ) :=
  (r.views.getD node none).map (resolveView r.cp)

/-- `cps[indices[j]] = values[j]` for one `j` (negative indices count from the end). -/
def cpsStep (cp : Array (NdArr ℤ)) (o : Obj) (k : ℕ) (acc : Array (List ℚ)) (j : ℕ) : Except NErr (Array (List ℚ)) :=
  let i := (cp.getD k default).data.getD j 0
  let pos : ℤ := if i < 0 then i + acc.size else i
  if pos < 0 ∨ pos ≥ acc.size then .error .index
  else .ok (acc.setIfInBounds pos.toNat (o.cps.data.getD j []))

/-- `SplineModel.cps()` on plain data: `cps = zeros((ncps, dimension))`, then
    `cps[indices] = values` per top node, in order.
    `controlpoints.reshape(-1, dimension)` + the fancy assignment raise `ValueError` as soon as
    the net has another number of components than `dimension` (rational patches). -/
def cpsTable (dimension : ℕ) (objs : List Obj) (cp : Array (NdArr ℤ)) (ncps : ℕ) : Except NErr (Array (List ℚ)) :=
  objs.zipIdx.foldlM (fun (acc : Array (List ℚ)) (ok : Obj × ℕ) =>
    if ok.1.ncomp ≠ dimension then .error .value
    else (List.range (cp.getD ok.2 default).data.size).foldlM (cpsStep cp ok.1 ok.2) acc)
    (Array.replicate ncps (List.replicate dimension 0))

/-- `SplineModel.cps()`. -/
def Numbered.cps (r : Numbered) : Except NErr (Array (List ℚ)) :=
  cpsTable r.sm.dimension (r.tops.map fun t => (r.sm.cat.node t).obj) r.cp r.ncps

/-! ## cell numbers -/

/-- `[len(kvec) - 1 for kvec in obj.knots()]`. -/
def cellShape (ktol : ℚ) (o : Obj) : List ℕ := o.bases.map (fun b => (b.knotSpans ktol false).size - 1)

/-- loop of `SplineModel.generate_cell_numbers` on the list of cell shapes. -/
def cellArrays : List (List ℕ) → ℕ → List (NdArr ℤ) × ℕ
  | [], start => ([], start)
  | s :: ss, start =>
    let rest := cellArrays ss (start + shapeSize s)
    (arangeArr start s :: rest.1, rest.2)

/-- `SplineModel.generate_cell_numbers()`. -/
def Numbered.generateCellNumbers (ktol : ℚ) (r : Numbered) : Numbered :=
  let c := cellArrays (r.tops.map fun t => cellShape ktol (r.sm.cat.node t).obj) 0
  { r with cells := c.1.toArray, ncells := c.2 }

/-! ## boundary names -/

/-- `for i, node in enumerate(model.boundary()): node.name = names[i % len(names)]`
    (the harness' way of naming; nothing when `names` is empty). -/
def Numbered.assignNames (r : Numbered) (names : List String) : Except NErr Numbered :=
  match r.sm.boundary with
  | none => .error (.m .key)
  | some bnd =>
    let base : Array (Option String) := Array.replicate r.sm.cat.nodes.size none
    if names.isEmpty then .ok { r with names := base }
    else .ok { r with names := bnd.zipIdx.foldl (fun acc (bi : ℕ × ℕ) =>
      acc.setIfInBounds bi.1 (some (names.getD (bi.2 % names.length) ""))) base }

def Numbered.nameOf (r : Numbered) (node : ℕ) : Option String := r.names.getD node none

/-! ## `TopologicalNode.faces` -/

/-- one record of dtype `face_t`. -/
structure Face where
  nodes : List ℤ
  owner : ℤ
  neighbor : ℤ
  name : Option String
  deriving DecidableEq, Repr, Inhabited

/-- `l` with `v` inserted at position `d`. -/
def insertAt (l : List ℕ) (d v : ℕ) : List ℕ := l.take d ++ v :: l.drop d

/-- multi-index with the entry `d` increased by one. -/
def bumpIdx (idx : List ℕ) (d : ℕ) : List ℕ := idx.set d (idx.getD d 0 + 1)

/-- the four `nodes` of the quad whose lowest corner is the control point `base`, normal
    direction `d`: `mkindex(d, z, a, b)` puts `a` on axis `d+1` and `b` on axis `d+2` (cyclic);
    columns 0..3 are `(a,b) = (:-1,:-1), (1:,:-1), (1:,1:), (:-1,1:)`. -/
def quadNodes (cp : NdArr ℤ) (d : ℕ) (base : List ℕ) : List ℤ :=
  let a := (d + 1) % 3
  let b := (d + 2) % 3
  [cp.get base, cp.get (bumpIdx base a), cp.get (bumpIdx (bumpIdx base a) b), cp.get (bumpIdx base b)]

/-- internal faces of one patch in direction `d` (cells `cs`, numbers `cp`, cell numbers `cell`). -/
def internalFaces (cs : List ℕ) (cp cell : NdArr ℤ) (d : ℕ) : List Face :=
  let shp := cs.set d (cs.getD d 0 - 1)
  (List.range (shapeSize shp)).map fun k =>
    let idx := unravel shp k
    { nodes := quadNodes cp d (bumpIdx idx d), owner := cell.get idx, neighbor := cell.get (bumpIdx idx d),
      name := none }

/-- the faces on the boundary `bdindex` (`last = false`: 0, `true`: -1) of direction `d`, without
    the `neighbor` column. -/
def sideFaces (cs : List ℕ) (cp cell : NdArr ℤ) (d : ℕ) (last : Bool) (name : Option String) :
    List Face :=
  let rest := cs.eraseIdx d
  (List.range (shapeSize rest)).map fun k =>
    let idx2 := unravel rest k
    let cidx := insertAt idx2 d (if last then cs.getD d 0 - 1 else 0)
    let base := insertAt idx2 d (if last then cp.shape.getD d 0 - 1 else 0)
    let q := quadNodes cp d base
    -- on the left boundary the normal must point the other way: columns 1 and 3 are swapped
    let q := if last then q else [q.getD 0 0, q.getD 3 0, q.getD 2 0, q.getD 1 0]
    { nodes := q, owner := cell.get cidx, neighbor := -1, name := name }

/-- what `faces()` says about a listed face -/
inductive FaceKind where
  /-- between two cells of the patch -/
  | internal
  /-- on a face node with one patch (`nhigher == 1`) -/
  | boundary
  /-- on an interface owned by the patch; `nbPos` = position of the neighbouring top node -/
  | iface (nbPos : ℕ)
  deriving DecidableEq, Repr, Inhabited

/-- the neighbour of an interface: its position and its cell numbers on the interface, mapped to
    the frame of the interface node (`ori.map_array(cellidxs).flatten()`) -/
structure IfaceInfo where
  nbPos : ℕ
  mapped : List ℤ

/-- the `else` branch of the boundary loop of `faces()`: the neighbour `next(c for c in
    bdnode.higher_nodes[3] if c is not self)`, its section, `Orientation.compute(bdnode.obj, nb_obj)`,
    the mapped cell numbers. -/
def Numbered.ifaceOf (r : Numbered) (t bd : ℕ) (hs : List ℕ) : Except NErr IfaceInfo :=
  match hs.find? (· != t) with
  | none => .error .stopIteration
  | some nbId =>
    let nb := r.sm.cat.node nbId
    let nbIndex := (nb.lower.getD 2 []).idxOf bd
    match sectionFromIndex 3 2 nbIndex with
    | none => .error .index
    | some nbSec =>
      match Orientation.compute (r.sm.cat.node bd).obj (nb.obj.sect nbSec) with
      | .error e => .error (.m e)
      | .ok ori =>
        let nbPos := r.tops.idxOf nbId
        .ok ⟨nbPos, (ori.mapArray ((r.cells.getD nbPos default).sect nbSec)).data.toList⟩

/-- the faces the top node at position `k` lists for the side `bdindex` (`last`) of direction `d`,
    each with its kind (nothing when the side is not owned by the node). -/
def Numbered.sideOf (ktol : ℚ) (r : Numbered) (k d : ℕ) (last : Bool) : Except NErr (List (Face × FaceKind)) :=
  let t := r.tops.getD k 0
  let n := r.sm.cat.node t
  let cs := cellShape ktol n.obj
  let cp := r.cp.getD k default
  let cell := r.cells.getD k default
  match (n.lower.getLastD [])[if last then 2 * d + 1 else 2 * d]? with
  | none => .ok []      -- `islice` of an exhausted iterator
  | some bd =>
    let bn := r.sm.cat.node bd
    match bn.higherAt 3 with
    | none => .error (.m .key)      -- `nhigher`
    | some hs =>
      if hs.length ≠ 1 ∧ hs.length ≠ 2 then .error .assertion
      else if bn.owner != some t then .ok []
      else
        let fs := sideFaces cs cp cell d last (r.nameOf bd)
        if hs.length = 1 then .ok (fs.map fun f => (f, FaceKind.boundary))
        else
          match r.ifaceOf t bd hs with
          | .error e => .error e
          | .ok i =>
            if i.mapped.length ≠ fs.length then .error .value
            else .ok ((List.zip fs i.mapped).map fun (fm : Face × ℤ) =>
              ({ fm.1 with neighbor := fm.2 }, FaceKind.iface i.nbPos))

/-- the faces of direction `d`: internal ones, then the two sides -/
def Numbered.pieceOf (ktol : ℚ) (r : Numbered) (k d : ℕ) : Except NErr (List (Face × FaceKind)) :=
  let t := r.tops.getD k 0
  let n := r.sm.cat.node t
  let cs := cellShape ktol n.obj
  match r.sideOf ktol k d false with
  | .error e => .error e
  | .ok s0 =>
    match r.sideOf ktol k d true with
    | .error e => .error e
    | .ok s1 =>
      .ok ((internalFaces cs (r.cp.getD k default) (r.cells.getD k default) d).map (fun f => (f, FaceKind.internal))
        ++ s0 ++ s1)

/-- `TopologicalNode.faces()` of the top node at position `k` WITHOUT the final `assert`, every
    face with its kind. -/
def Numbered.facesTagged (ktol : ℚ) (r : Numbered) (k : ℕ) : Except NErr (List (Face × FaceKind)) :=
  let t := r.tops.getD k 0
  let n := r.sm.cat.node t
  if n.pardim ≠ 3 then .error .assertion
  else if n.obj.bases.map (·.order) ≠ [2, 2, 2] then .error .assertion
  -- the slices `[:-1]`, `[1:]` of the number array must have the extent of the cell array
  else if (r.cp.getD k default).shape ≠ (cellShape ktol n.obj).map (· + 1) then .error .value
  else
    match (List.range 3).mapM (r.pieceOf ktol k) with
    | .error e => .error e
    | .ok pieces => .ok pieces.flatten

/-- `TopologicalNode.faces()` of the top node at position `k`: the list, then
    `assert ((owner < neighbor) | (neighbor == -1)).all()`. -/
def Numbered.facesOf (ktol : ℚ) (r : Numbered) (k : ℕ) : Except NErr (List Face) :=
  match r.facesTagged ktol k with
  | .error e => .error e
  | .ok l =>
    let out := l.map (·.1)
    if out.all (fun f => f.owner < f.neighbor || f.neighbor == -1) then .ok out else .error .assertion

/-- numbers of the 8 corners of the cell with multi-index `idx` -/
def cellCorners (cp : NdArr ℤ) (idx : List ℕ) : List ℤ :=
  (List.range 8).map fun n => cp.get [idx.getD 0 0 + n / 4 % 2, idx.getD 1 0 + n / 2 % 2, idx.getD 2 0 + n % 2]

/-- `c` is the number of a cell of the patch at position `pos`, and that cell has the four
    vertices `nodes` among its corners -/
def Numbered.cellHas (r : Numbered) (pos : ℕ) (c : ℤ) (nodes : List ℤ) : Bool :=
  let cell := r.cells.getD pos default
  let q := cell.data.toList.idxOf c
  decide (q < cell.data.size) &&
    nodes.all fun v => (cellCorners (r.cp.getD pos default) (unravel cell.shape q)).contains v

/-- **decidable guard of the face theorems** (`C18_faces_assembly`), evaluated by the harness on
    every generated trilinear model: volumes; every patch has cells in each direction; the lists of
    `faces()` can be formed (`facesTagged`, i.e. everything before the final `assert`); every
    interface a node lists leads to a LATER top node (ownership is first come, so cell numbers of
    the owner are smaller); and every listed face is geometrically adjacent to the cells it names:
    the owner cell — and the neighbour cell, found for an interface through
    `Orientation.compute(bdnode.obj, nb_obj).map_array` — has the four vertices of the face among
    its eight corners. -/
def Numbered.facesGuardB (ktol : ℚ) (r : Numbered) : Bool :=
  decide (r.sm.pardim = 3) && (List.range r.tops.length).all fun k =>
    (cellShape ktol (r.sm.cat.node (r.tops.getD k 0)).obj).all (0 < ·) &&
    match r.facesTagged ktol k with
    | .error _ => false
    | .ok l => l.all fun fk =>
        r.cellHas k fk.1.owner fk.1.nodes &&
        match fk.2 with
        | .internal => r.cellHas k fk.1.neighbor fk.1.nodes
        | .boundary => true
        | .iface nbPos => decide (k < nbPos) && decide (nbPos < r.tops.length) &&
            r.cellHas nbPos fk.1.neighbor fk.1.nodes

/-- `SplineModel.faces()`.  The per-node lists are produced inside a generator expression
    (`chain.from_iterable(node.faces() for node in …)`): a `StopIteration` escaping from
    `node.faces()` is turned into `RuntimeError` there (PEP 479). -/
def Numbered.faces (ktol : ℚ) (r : Numbered) : Except NErr (List Face) :=
  if r.sm.pardim ≠ 3 then .error .assertion
  else (List.range r.tops.length).foldlM (fun acc k =>
    match r.facesOf ktol k with
    | .ok fs => .ok (acc ++ fs)
    | .error .stopIteration => .error (.m .runtime)
    | .error e => .error e) []

/-! ## `OpenFOAM.write`: the three stable sorts and the `boundary` entries -/

/-- key of the third sort: `(x['name'] is not None, x['name'])`. -/
def nameKeyLe (a b : Option String) : Prop :=
  match a, b with
  | none, _ => True
  | some _, none => False
  | some x, some y => x ≤ y

instance : DecidableRel nameKeyLe := fun a b => by
  unfold nameKeyLe; cases a <;> cases b <;> infer_instance

/-- `sorted(l, key=…)`: Python's sort is stable. -/
def sortedBy {α : Type} (r : α → α → Prop) [DecidableRel r] (l : List α) : List α := l.insertionSort r

/-- the face list in the order of the files `faces` / `owner` / `neighbour`. -/
def ofoamOrder (faces : List Face) : List Face :=
  let l := sortedBy (fun a b : Face => a.neighbor ≤ b.neighbor) faces
  let l := sortedBy (fun a b : Face => a.owner ≤ b.owner) l
  sortedBy (fun a b : Face => nameKeyLe a.name b.name) l

/-- `itertools.groupby(faces, key=name)`: maximal runs of equal names with their lengths. -/
def nameRuns : List Face → List (Option String × ℕ)
  | [] => []
  | f :: fs =>
    match nameRuns fs with
    | (n, c) :: rest => if n = f.name then (n, c + 1) :: rest else (f.name, 1) :: (n, c) :: rest
    | [] => [(f.name, 1)]

/-- the entries `name / nFaces / startFace` of the `boundary` file, from the runs. -/
def boundaryEntries : List (Option String × ℕ) → ℕ → List (String × ℕ × ℕ)
  | [], _ => []
  | (none, c) :: rest, start => boundaryEntries rest (start + c)
  | (some n, c) :: rest, start => (n, c, start) :: boundaryEntries rest (start + c)

/-- what `OpenFOAM.write` puts into the files (besides the points). -/
structure OfoamOut where
  faces : List Face
  entries : List (String × ℕ × ℕ)
  /-- the count written at the head of `boundary`: `len(set(faces['name']) - {None})` -/
  declared : ℕ
  /-- `ninternal = sum(faces['name'] == None)` (in the `note`) -/
  ninternal : ℕ

def ofoamWrite (faces : List Face) : OfoamOut :=
  let l := ofoamOrder faces
  { faces := l, entries := boundaryEntries (nameRuns l) 0,
    declared := ((l.map (·.name)).dedup.filter (·.isSome)).length,
    ninternal := (l.filter (fun f => f.name == none)).length }

/-! ## `IFEMWriter.connections` -/

/-- the loop nest of `IFEMWriter.connections` on plain data: `lowers[a]` = codimension-1 nodes of
    the top node at position `a`, `nbrs sub` = `set(sub.higher_nodes[p])` as positions.  Yields
    `(master position, master section index, slave position, slave section index)`. -/
def connPairs (lowers : List (List ℕ)) (nbrs : ℕ → List ℕ) : List (ℕ × ℕ × ℕ × ℕ) :=
  lowers.zipIdx.flatMap fun (la : List ℕ × ℕ) =>
    la.1.zipIdx.flatMap fun (si : ℕ × ℕ) =>
      (nbrs si.1).flatMap fun b =>
        if la.2 > b then []
        else
          let idxs := ((lowers.getD b []).zipIdx.filter (fun (nj : ℕ × ℕ) => nj.1 == si.1)).map (·.2)
          let idxs := if b = la.2 then idxs.filter (· > si.2) else idxs
          idxs.map fun j => (la.2, si.2, b, j)

/-- one `IFEMConnection` (1-based ids and indices). -/
structure Conn where
  master : ℕ
  slave : ℕ
  midx : ℕ
  sidx : ℕ
  orient : ℕ
  deriving DecidableEq, Repr, Inhabited

/-- the codimension-1 sections of the top-level patches -/
def SplineModel.faceSecs (sm : SplineModel) : List Sec := sections sm.pardim (sm.pardim - 1)

/-- object of the top node at position `a` -/
def SplineModel.topObj (sm : SplineModel) (a : ℕ) : Obj := (sm.cat.node (sm.tops.getD a 0)).obj

/-- the body of the innermost loop: the two section objects, their relative orientation, the record. -/
def SplineModel.connOf (sm : SplineModel) (q : ℕ × ℕ × ℕ × ℕ) : Except NErr Conn :=
  let p := sm.pardim
  let node := sm.cat.node (sm.tops.getD q.1 0)
  let neigh := sm.cat.node (sm.tops.getD q.2.2.1 0)
  match sectionFromIndex p (p - 1) q.2.1, sectionFromIndex p (p - 1) q.2.2.2 with
  | some s1, some s2 =>
    match Orientation.compute (node.obj.sect s1) (neigh.obj.sect s2) with
    | .error e => .error (.m e)
    | .ok ori =>
      match ori.ifemFormat with
      | some fmt => .ok { master := q.1 + 1, slave := q.2.2.1 + 1, midx := q.2.1 + 1, sidx := q.2.2.2 + 1, orient := fmt }
      | none => .error (.m .runtime)
  | _, _ => .error .index

/-- `lower_nodes[p - 1]` of every top node, by position. -/
def SplineModel.topLowers (sm : SplineModel) : List (List ℕ) :=
  sm.tops.map fun t => (sm.cat.node t).lower.getD (sm.pardim - 1) []

/-- `set(sub.higher_nodes[p])` as positions in `top_nodes()` (iterated in SOME order). -/
def SplineModel.topNbrs (sm : SplineModel) (sub : ℕ) : List ℕ :=
  ((((sm.cat.node sub).higherAt sm.pardim).getD []).dedup).map (fun t => sm.tops.idxOf t)

/-- `list(IFEMWriter(model).connections())` (compare as a multiset: `set(...)` order). -/
def SplineModel.connections (sm : SplineModel) : Except NErr (List Conn) :=
  (connPairs sm.topLowers sm.topNbrs).mapM sm.connOf

end Splipy.MP
