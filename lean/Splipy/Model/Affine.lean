import Mathlib.Algebra.Field.Defs
import Mathlib.Data.Fin.VecNotation

/-!
# Executable model of the affine maps `rotate` / `mirror`

Mirrors `rotation_matrix` (splipy/utils/__init__.py) and the matrices built in
`SplineObject.rotate` / `SplineObject.mirror` (splipy/splineobject.py).

Matrices are plain functions `Fin m → Fin m → K` (row index first, as `numpy`), vectors are
`Fin m → K`; everything is computable over any field.

**Row-vector convention.**  The Python code stores one control point per ROW and computes
`cp @ M`, i.e. `vecMul p M` below.  Hence the matrix acting on COLUMN vectors is the transpose
`Mᵀ` (`vecMul_eq_mulVec_transpose`).  For `M = rotation_matrix(θ, axis)` the half-angle
parameters are `b, c, d = -axis * sin(θ/2)`, which is the Euler–Rodrigues matrix of the
rotation by `-θ`; its transpose – the map really applied to the points – is the right-handed
rotation by `+θ` about `axis` (`vecMul_rotation_rodrigues` in `Lemmas/AffineAlgebra.lean`).
-/

namespace Splipy.Affine

variable {K : Type} [Field K]

/-! ## Small explicit linear algebra (no `Finset` sums, so that everything evaluates) -/

/-- `np.dot(u, v)` for 3-vectors. -/
def dot (u v : Fin 3 → K) : K := u 0 * v 0 + u 1 * v 1 + u 2 * v 2

/-- Squared Euclidean norm. -/
def normSq (v : Fin 3 → K) : K := dot v v

/-- `M.T` -/
def transpose {m : ℕ} (M : Fin m → Fin m → K) : Fin m → Fin m → K := fun i j => M j i

/-- `p @ M` for one row vector `p` (what `rotate` / `mirror` do to every control point). -/
def vecMul (p : Fin 3 → K) (M : Fin 3 → Fin 3 → K) : Fin 3 → K :=
  fun j => p 0 * M 0 j + p 1 * M 1 j + p 2 * M 2 j

/-- `M @ v` for one column vector `v`. -/
def mulVec (M : Fin 3 → Fin 3 → K) (v : Fin 3 → K) : Fin 3 → K :=
  fun i => M i 0 * v 0 + M i 1 * v 1 + M i 2 * v 2

/-- `A @ B` for 3×3 matrices. -/
def matMul (A B : Fin 3 → Fin 3 → K) : Fin 3 → Fin 3 → K :=
  fun i j => A i 0 * B 0 j + A i 1 * B 1 j + A i 2 * B 2 j

/-- `np.identity(3)` -/
def identity : Fin 3 → Fin 3 → K := fun i j => if i = j then 1 else 0

/-- 3×3 determinant (rule of Sarrus). -/
def det3 (M : Fin 3 → Fin 3 → K) : K :=
  M 0 0 * M 1 1 * M 2 2 - M 0 0 * M 1 2 * M 2 1 - M 0 1 * M 1 0 * M 2 2
    + M 0 1 * M 1 2 * M 2 0 + M 0 2 * M 1 0 * M 2 1 - M 0 2 * M 1 1 * M 2 0

/-- `p @ M` for one row vector in the plane. -/
def vecMul2 (p : Fin 2 → K) (M : Fin 2 → Fin 2 → K) : Fin 2 → K :=
  fun j => p 0 * M 0 j + p 1 * M 1 j

/-! ## `rotation_matrix` -/

/-- The array returned by `rotation_matrix(theta, axis)`, as a function of the four
Euler–Rodrigues parameters computed in its first lines:
`a = cos(theta/2)` and `b, c, d = -axis * sin(theta/2)` (with `axis` already normalised).
```
[[a*a+b*b-c*c-d*d, 2*(b*c-a*d),     2*(b*d+a*c)],
 [2*(b*c+a*d),     a*a+c*c-b*b-d*d, 2*(c*d-a*b)],
 [2*(b*d-a*c),     2*(c*d+a*b),     a*a+d*d-b*b-c*c]]
``` -/
def rotationMatrix (a b c d : K) : Fin 3 → Fin 3 → K :=
  ![![a*a+b*b-c*c-d*d, 2*(b*c-a*d),     2*(b*d+a*c)],
    ![2*(b*c+a*d),     a*a+c*c-b*b-d*d, 2*(c*d-a*b)],
    ![2*(b*d-a*c),     2*(c*d+a*b),     a*a+d*d-b*b-c*c]]

/-- `rotation_matrix(theta, axis)` from `ch = cos(theta/2)`, `sh = sin(theta/2)` and the
NORMALISED axis (the normalisation `axis / sqrt(axis·axis)` is not a field operation and is
left to the caller): `a = ch`, `b, c, d = -axis * sh`. -/
def rotationMatrixAxis (ch sh : K) (axis : Fin 3 → K) : Fin 3 → Fin 3 → K :=
  rotationMatrix ch (-axis 0 * sh) (-axis 1 * sh) (-axis 2 * sh)

/-- The array `[[cos, -sin], [sin, cos]]` written in the `dim == 2` branch of `rotate`
(before the `.T`). -/
def rot2 (co si : K) : Fin 2 → Fin 2 → K := ![![co, -si], ![si, co]]

/-- The matrix `R` of the `dim == 2` branch of `rotate`:
`np.array([[cos, -sin], [sin, cos]]).T`. -/
def rotationMatrix2 (co si : K) : Fin 2 → Fin 2 → K := transpose (rot2 co si)

/-- `SplineObject.rotate`, `dim == 3`, action on the (first three coordinates of) one control
point: `cp @ rot_matrix`.  The weight coordinate of a rational control point is unchanged
because `rot_matrix` is `identity(dim + rat)` with the block `R` overwritten. -/
def rotatePoint (a b c d : K) (p : Fin 3 → K) : Fin 3 → K := vecMul p (rotationMatrix a b c d)

/-- `SplineObject.rotate`, `dim == 2`, action on one control point. -/
def rotatePoint2 (co si : K) (p : Fin 2 → K) : Fin 2 → K := vecMul2 p (rotationMatrix2 co si)

/-! ## `mirror` -/

/-- The 3×3 block of `reflection_matrix` in `SplineObject.mirror`:
`np.identity(3) - 2 * np.outer(normal, normal)` (with `normal` already normalised). -/
def mirrorMatrix (n : Fin 3 → K) : Fin 3 → Fin 3 → K :=
  fun i j => identity i j - 2 * (n i * n j)

/-- `SplineObject.mirror`, action on (the first three coordinates of) one control point:
`cp @ reflection_matrix`. -/
def mirrorPoint (n p : Fin 3 → K) : Fin 3 → K := vecMul p (mirrorMatrix n)

end Splipy.Affine
