import Mathlib.Algebra.Order.Field.Basic
import Mathlib.Algebra.Order.Floor.Defs
import Splipy.Proto.Val
import Splipy.Spec.BSpline

/-!
# Executable model of `splipy/basis_eval.pyx` and `BSplineBasis.evaluate`

Mirrors the code statement by statement.  Where the code updates the scratch array `M`
in place inside `for j in ...`, each `M[j]` is written once per level and reads only the
*old* `M[j]`, `M[j+1]` (ascending `j`), so a level is the pure map `levelVal`/`levelDer`
below on `ℕ → K`; the executable `evalRow` tabulates it level by level.
-/

namespace Splipy

variable {K : Type} [Field K] [LinearOrder K]

/-- `cdef my_bisect_left(array, value, hi)` — literal binary search. -/
def bisectLeftAux (a : ℕ → K) (v : K) (lo hi : ℕ) : ℕ :=
  if h : lo < hi then
    let mid := (lo + hi) / 2
    if a mid < v then bisectLeftAux a v (mid + 1) hi else bisectLeftAux a v lo mid
  else lo
termination_by hi - lo
decreasing_by all_goals omega

def bisectLeft (a : ℕ → K) (v : K) (hi : ℕ) : ℕ := bisectLeftAux a v 0 hi

/-- `cdef my_bisect_right(array, value, hi)`. -/
def bisectRightAux (a : ℕ → K) (v : K) (lo hi : ℕ) : ℕ :=
  if h : lo < hi then
    let mid := (lo + hi) / 2
    if v < a mid then bisectRightAux a v lo mid else bisectRightAux a v (mid + 1) hi
  else lo
termination_by hi - lo
decreasing_by all_goals omega

def bisectRight (a : ℕ → K) (v : K) (hi : ℕ) : ℕ := bisectRightAux a v 0 hi

/-- Python's float `x % y` for `y > 0`:  `x - ⌊x/y⌋·y`. -/
def pmod [FloorRing K] (x y : K) : K := x - ((⌊x / y⌋ : ℤ) : K) * y

/-- A `BSplineBasis` instance: `order`, `knots`, `periodic` (−1 = not periodic). -/
structure Basis (K : Type) where
  order : ℕ
  knots : Array K
  periodic : Int
  deriving Inhabited

namespace Basis

variable (b : Basis K)

/-- Total knot accessor: constant extension by the last knot beyond the array (never reached on
    valid input; chosen so that `b.kn` is monotone iff the array is sorted). -/
def kn (i : ℕ) : K := b.knots.getD i (b.knots.getD (b.knots.size - 1) 0)

def size : ℕ := b.knots.size
/-- `n_all = len(knots) - p`. -/
def nAll : ℕ := b.knots.size - b.order
/-- `num_functions() = len(knots) - order - (periodic+1)`. -/
def numFunctions : ℕ := b.knots.size - b.order - (b.periodic + 1).toNat
/-- `start() = knots[order-1]`. -/
def start : K := b.kn (b.order - 1)
/-- `end() = knots[-order]`. -/
def stop : K := b.kn (b.knots.size - b.order)

end Basis

/-- `basis_eval.snap` / `BSplineBasis.snap` for a single value. -/
def snap (b : Basis K) (tol t : K) : K :=
  let n := b.knots.size
  let i := bisectLeft b.kn t n
  if i < n ∧ |b.kn i - t| < tol then b.kn i
  else if 0 < i ∧ |b.kn (i - 1) - t| < tol then b.kn (i - 1)
  else t

/-- One value level of the de Boor triangle (`for q in range(1, p-d)` body), as a pure map. -/
def levelVal (τ : ℕ → K) (p mu : ℕ) (t : K) (q : ℕ) (M : ℕ → K) (j : ℕ) : K :=
  let k := mu - p + j
  if j + q + 1 < p then M j
  else if j + q + 1 = p then
    M j + M (j+1) * (τ (k+q+1) - t) / (τ (k+q+1) - τ (k+1))
  else if j + 1 < p then
    M j * (t - τ k) / (τ (k+q) - τ k) + M (j+1) * (τ (k+q+1) - t) / (τ (k+q+1) - τ (k+1))
  else
    M j * (t - τ k) / (τ (k+q) - τ k)

/-- One derivative level (`for q in range(p-d, p)` body). -/
def levelDer (τ : ℕ → K) (p mu : ℕ) (q : ℕ) (M : ℕ → K) (j : ℕ) : K :=
  let k := mu - p + j
  if j + q + 1 < p then M j
  else
    let a := if j + q + 1 ≠ p then M j * (q : K) / (τ (k+q) - τ k) else M j
    if j + 1 ≠ p then a - M (j+1) * (q : K) / (τ (k+q+1) - τ (k+1)) else a

/-- Tabulate a function on `0..p-1`. -/
def tab (p : ℕ) (f : ℕ → K) : Array K := Array.ofFn (n := p) (fun j => f j.val)

def untab (M : Array K) : ℕ → K := fun j => M.getD j 0

/-- The scratch array after the value levels `q = 1 .. p-d-1` and derivative levels
    `q = p-d .. p-1`. -/
def triangle (τ : ℕ → K) (p mu d : ℕ) (t : K) : Array K :=
  let M0 : Array K := tab p (fun j => if j + 1 = p then 1 else 0)
  let M1 := (List.range' 1 (p - d - 1)).foldl
              (fun M q => tab p (levelVal τ p mu t q (untab M))) M0
  (List.range' (p - d) d).foldl
              (fun M q => tab p (levelDer τ p mu q (untab M))) M1

/-- Result of the per-point part of `basis_eval.evaluate`: the `p` data entries and `p`
    column indices of one CSR row. -/
structure Row (K : Type) where
  data : Array K
  idx  : Array ℕ
  deriving Inhabited

/-- One iteration of the main loop of `basis_eval.evaluate` (one evaluation point),
    including the periodic wrap that precedes it.  Requires `d < p` (the caller
    `BSplineBasis.evaluate` returns zeros otherwise). -/
def evalRow [FloorRing K] (b : Basis K) (tol : K) (d : ℕ) (fromRight : Bool) (t0 : K) : Row K :=
  let p := b.order
  let nAll := b.nAll
  let n := b.numFunctions
  let start := b.kn (p - 1)
  let stop := b.kn nAll
  -- periodic wrap
  let t1 := if b.periodic ≥ 0 then
              let w := if t0 < start ∨ t0 > stop then pmod (t0 - start) (stop - start) + start else t0
              if |w - start| < tol ∧ !fromRight then stop else w
            else t0
  let right := if |t1 - stop| < tol then false else fromRight
  if t1 < start ∨ t1 > stop ∨ (|t1 - start| < tol ∧ !right) then
    -- `continue`: data and indices stay zero
    { data := Array.replicate p 0, idx := Array.replicate p 0 }
  else
    let mu0 := if right then bisectRight b.kn t1 (nAll + p) else bisectLeft b.kn t1 (nAll + p)
    let mu := min mu0 nAll
    let M := triangle b.kn p mu d t1
    { data := M, idx := Array.ofFn (n := p) (fun j => (mu - p + j.val) % n) }

/-- `scipy.sparse.csr_matrix((data, indices, indptr)).toarray()` for one row:
    duplicates are summed. -/
def Row.toDense (r : Row K) (n : ℕ) : Array K :=
  Array.ofFn (n := n) (fun c =>
    (List.range r.data.size).foldl
      (fun acc j => if r.idx.getD j 0 = c.val then acc + r.data.getD j 0 else acc) 0)

/-- `BSplineBasis.evaluate(t, d, from_right)` for one point, dense row. -/
def Basis.evaluate [FloorRing K] (b : Basis K) (tol : K) (t : K) (d : ℕ) (fromRight : Bool) :
    Array K :=
  let t' := snap b tol t
  if b.order ≤ d then Array.replicate b.numFunctions 0
  else (evalRow b tol d fromRight t').toDense b.numFunctions

/-- Sparse triple for one point (only meaningful when `d < order`). -/
def Basis.evaluateSparse [FloorRing K] (b : Basis K) (tol : K) (t : K) (d : ℕ) (fromRight : Bool) :
    Row K :=
  evalRow b tol d fromRight (snap b tol t)

end Splipy
