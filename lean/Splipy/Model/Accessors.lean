import Splipy.Model.WellFormed
import Splipy.Model.Sections
import Splipy.Model.IOTokens

/-!
# Accessors of `SplineObject` (property C10: "len / shape / order / knots accessors and flat
(first-index-fastest) control-point indexing mutually consistent; the object can be cloned and
re-constructed from its own bases and control points")

Mirrors `splipy/splineobject.py`:

* `__len__`            — `Obj.len` (`Model/WellFormed.lean`): product of `num_functions()` of the BASES;
* `shape`              — `Obj.shapeAcc`: `controlpoints.shape[:-1]` (read off the ARRAY);
* `order()`, `knots(direction, with_multiplicities)`, `start()`, `end()` — read the bases;
* `_unravel_flat_index(i)` + `__getitem__(i)` with an `int`:
  `total = len(self)`; `i ≥ 0 ↦ i`, `i < 0 ↦ total + i`;
  `np.unravel_index([j], controlpoints.shape[:-1], order='F')` (FIRST index fastest;
  `ValueError` for `j` outside `[0, prod shape)` is turned into `IndexError`);
  result `controlpoints[unraveled][0]`, the control point as an array of `ncomp` numbers;
* `__getitem__(tuple of ints)` — `controlpoints[i]` (numpy integer indexing, negative indices wrap,
  `IndexError` outside; fewer indices than axes give a sub-array);
* `__setitem__` with an `int` / a full multi-index and a control point (or a scalar, broadcast);
* `clone()` — `copy.deepcopy`: the same value;
* `cls(*bases, controlpoints, rational, raw=True)` — `Obj.construct`: with `raw=True` the constructor
  stores clones of the bases and `np.array(controlpoints)` without any check or reshaping.

The control-point array is stored in C order (`Tensor`), so the flat (F-order) index `i` of the API is
the C-order point number `ravelC shape (unravelF shape i)`.
-/

namespace Splipy

variable {K : Type} [Field K] [LinearOrder K]

namespace Obj

open FileIO Sections

/-- `obj.shape` = `controlpoints.shape[:-1]`. -/
def shapeAcc (o : Obj K) : List ℕ := o.cps.shape.dropLast

/-- `obj.order()` (tuple). -/
def orderAcc (o : Obj K) : List ℕ := o.bases.toList.map Basis.order

/-- `obj.knots(with_multiplicities=True)` (tuple of the knot vectors). -/
def knotsAcc (o : Obj K) : List (Array K) := o.bases.toList.map Basis.knots

/-- `obj.knots()` (tuple of `knot_spans()`). -/
def knotSpansAcc (o : Obj K) (tol : K) : List (Array K) := o.bases.toList.map (fun b => b.knotSpans tol false)

/-- `obj.start()`, `obj.end()` (tuples). -/
def startAcc (o : Obj K) : List K := o.bases.toList.map Basis.start
def endAcc (o : Obj K) : List K := o.bases.toList.map Basis.stop

/-- `obj.order(d)`, `obj.start(d)`, … with `check_direction` (integer directions). -/
def orderDir (o : Obj K) (d : ℕ) : PyM ℕ := if d < o.pardim ∧ d < 3 then .ok (o.basis d).order else .error .value
def knotsDir (o : Obj K) (d : ℕ) : PyM (Array K) :=
  if d < o.pardim ∧ d < 3 then .ok (o.basis d).knots else .error .value
def startDir (o : Obj K) (d : ℕ) : PyM K := if d < o.pardim ∧ d < 3 then .ok (o.basis d).start else .error .value
def endDir (o : Obj K) (d : ℕ) : PyM K := if d < o.pardim ∧ d < 3 then .ok (o.basis d).stop else .error .value

/-- Control point number `p` (C order) as an array of `ncomp` numbers. -/
def pointRow (o : Obj K) (p : ℕ) : Array K := o.cps.data.extract (p * o.ncomp) (p * o.ncomp + o.ncomp)

/-- `_unravel_flat_index(i)` for an `int`: the C-order point number of the flat (first-index-fastest)
    index, or `IndexError`. -/
def flatPoint (o : Obj K) (i : Int) : PyM ℕ :=
  let j : Int := if 0 ≤ i then i else (o.len : Int) + i
  if j < 0 ∨ (o.shapeAcc.prod : Int) ≤ j then .error .index
  else .ok (ravelC o.shapeAcc (unravelF o.shapeAcc j.toNat))

/-- `obj[i]` with an `int`. -/
def getFlat (o : Obj K) (i : Int) : PyM (Array K) := (o.flatPoint i).map o.pointRow

/-- `obj[i0, i1, …]` with a tuple of ints (numpy integer indexing of `controlpoints`): the sub-array left
    after fixing the leading axes. -/
def getMulti (o : Obj K) (idx : List Int) : PyM (Tensor K) :=
  if o.cps.shape.length < idx.length then .error .index else
  match (List.zip o.cps.shape idx).mapM (fun (n, i) => pyIndex n i) with
  | .error e => .error e
  | .ok js => .ok (sliceSec o.cps (js.map some))

/-- Store a control point at C-order point number `p`; `cp` has `ncomp` entries, or one (a scalar,
    broadcast); anything else cannot be broadcast (`ValueError`). -/
def setRow (o : Obj K) (p : ℕ) (cp : Array K) : PyM (Obj K) :=
  let nc := o.ncomp
  let sz := o.cps.data.size
  let data : Array K := Array.ofFn (n := sz) (fun k =>
    if p * nc ≤ k.val ∧ k.val < p * nc + nc then cp.getD (if cp.size = 1 then 0 else k.val - p * nc) 0
    else o.cps.data.getD k.val 0)
  if cp.size = nc ∨ cp.size = 1 then
    .ok { bases := o.bases, cps := { shape := o.cps.shape, data := data }, rational := o.rational }
  else .error .value

/-- `obj[i] = cp` with an `int`. -/
def setFlat (o : Obj K) (i : Int) (cp : Array K) : PyM (Obj K) :=
  match o.flatPoint i with
  | .error e => .error e
  | .ok p => o.setRow p cp

/-- `obj[i0, …, i_{pardim-1}] = cp` with a FULL multi-index (one int per parametric direction). -/
def setMulti (o : Obj K) (idx : List Int) (cp : Array K) : PyM (Obj K) :=
  if idx.length ≠ o.shapeAcc.length then .error .other else     -- partial assignments are not modelled
  match (List.zip o.shapeAcc idx).mapM (fun (n, i) => pyIndex n i) with
  | .error e => .error e
  | .ok js => o.setRow (ravelC o.shapeAcc js) cp

/-- `obj.clone()`. -/
def clone (o : Obj K) : Obj K := o

/-- `cls(*bases, controlpoints, rational, raw=True)`: no validation, no reshaping. -/
def construct (bases : Array (Basis K)) (cps : Tensor K) (rational : Bool) : PyM (Obj K) :=
  .ok { bases := bases, cps := cps, rational := rational }

end Obj

end Splipy
