import Splipy.Model.Object

/-!
# Executable model of the measure functions (property C16)

* `Basis.integrate`      — `BSplineBasis.integrate(t0, t1)` (splipy/basis.py), statement by statement:
  the seam refusal for periodic bases, clamping of the interval, the augmented order-`p+1` basis on
  `[k0] + knots + [k_last]`, the two evaluations, the tail sums, dropping the first entry and the
  periodic collapse.
* `Obj.center`           — `SplineObject.center()`.
* `Obj.lengthData`, `Obj.areaData`, `Obj.volume` — `Curve.length(t0, t1)`, `Surface.area()`,
  `Volume.volume()` with the Gauss–Legendre rule as a PARAMETER `(x, w)` (the harness supplies
  the floats `numpy.polynomial.legendre.leggauss(order+1)` returns, converted exactly to rationals).
  Square roots are not field operations: for `length` and the 3-D `area` the model returns the
  mapped weights together with the SQUARED speed / area element at every node and the harness forms
  `Σ w·√s`; `volume` and the planar `area` need no root and are returned as numbers.
* `Obj.curvatureData`, `Obj.torsionData`, `Obj.frenetData` — the algebraic parts (cross and dot
  products of the derivative vectors, squared norms) of `Curve.curvature/torsion/binormal/normal`.

`tol` is `state.knot_tolerance`.
-/

namespace Splipy

variable {K : Type} [Field K] [LinearOrder K] [FloorRing K]

namespace Basis

/-- One entry of the list comprehension of `BSplineBasis.integrate`:
`(knot[i+p]-knot[i])*1.0/p * np.sum(N1[i:]-N0[i:])`.  (`Lemmas/C16Model.lean`: this is
`intF(t1) − intF(t0)` whenever the rows `N0`, `N1` hold the B-spline values.) -/
def integrateEntry (knot : Array K) (p : ℕ) (N0 N1 : Array K) (i : ℕ) : K :=
  (knot.getD (i + p) 0 - knot.getD i 0) / (p : K) *
    (List.range' i (N0.size - i)).foldl (fun acc j => acc + (N1.getD j 0 - N0.getD j 0)) 0

/-- `knot = [self.knots[0]] + list(self.knots) + [self.knots[-1]]`. -/
def augKnots (b : Basis K) : Array K := (#[b.kn 0] ++ b.knots).push (b.kn (b.knots.size - 1))

/-- The basis `BSplineBasis(p + 1, knot)` the constructor returns for a valid `b`
(`Lemmas/C16Integrate.lean`: `mk?_augKnots`). -/
def aug (b : Basis K) : Basis K := { order := b.order + 1, knots := b.augKnots, periodic := -1 }

/-- The list `N` of `integrate` after `N = N[1:]`, for the integration basis `ib` and the clamped
limits. -/
def integrateRaw (b ib : Basis K) (tol t0' t1' : K) : Array K :=
  let N0 := ib.evaluate tol t0' 0 true
  let N1 := ib.evaluate tol t1' 0 true
  -- N = [(knot[i+p]-knot[i])*1.0/p * np.sum(N1[i:]-N0[i:]) for i in range(N0.size)]
  let N : Array K := Array.ofFn (n := N0.size) (fun i => integrateEntry b.augKnots b.order N0 N1 i.val)
  -- N = N[1:]
  N.extract 1 N.size

/-- "collapse periodic functions onto themselves":
`n = self.num_functions(); M = [0.0] * n; for j in range(len(N)): M[j % n] += N[j]; N = M`
(sum of ALL wrapped images — literal mirror of the source since the fix of finding
`integrate-periodic-collapse-single-fold`; the originally pinned source folded only once, which is
the same exactly when `k + 1 ≤ n`). -/
def integrateCollapse (b : Basis K) (N : Array K) : PyM (Array K) :=
  let k1 := (b.periodic + 1).toNat
  if N.size = 0 then .ok #[] else
  if N.size < k1 then .error .index else        -- n < 0: `[0.0]*n` is empty, `M[j % n]` fails
  let n := N.size - k1
  if n = 0 then .error .zeroDiv else            -- `j % 0`
  .ok (Array.ofFn (n := n) (fun c =>
    (List.range N.size).foldl (fun acc i => if i % n = c.val then acc + N.getD i 0 else acc) 0))

/-- `BSplineBasis.integrate(t0, t1)`.

`raise NotImplemented('…')` in the source CALLS the constant `NotImplemented`, which is not
callable: what Python 3 raises is `TypeError`, and that is the class mirrored here. -/
def integrate (b : Basis K) (tol t0 t1 : K) : PyM (Array K) :=
  if b.periodic > -1 ∧ (t0 < b.start ∨ t1 > b.stop) then .error .type else
  let t0' := max t0 b.start
  let t1' := min t1 b.stop
  -- integration_basis = BSplineBasis(p + 1, knot)
  match mk? (b.order + 1) b.augKnots (-1) tol with
  | .error e => .error e
  | .ok ib =>
    let N := b.integrateRaw ib tol t0' t1'
    if b.periodic > -1 then b.integrateCollapse N else .ok N

end Basis

/-! ## Composite Gauss rule -/

namespace Measure

/-- `t = flatten([ (x+1)/2*(t1-t0)+t0 for t0,t1 in zip(knots[:-1], knots[1:]) ])` and
    `w = flatten([ w/2*(t1-t0) for … ])`. -/
def gaussMap (spans : List K) (x w : List K) : List K × List K :=
  let pairs := List.zip spans (spans.drop 1)
  (pairs.flatMap (fun (a, b) => x.map (fun xi => (xi + 1) / 2 * (b - a) + a)),
   pairs.flatMap (fun (a, b) => w.map (fun wi => wi / 2 * (b - a))))

end Measure

/-- Row `i` of a result array of shape `… × dim` (flat C order): `t[i, :]`. -/
def Tensor.rowAt (t : Tensor K) (dim i : ℕ) : Array K :=
  Array.ofFn (n := dim) (fun c => t.get (i * dim + c.val))

namespace Measure

def dotArr (u v : Array K) : K :=
  (List.range u.size).foldl (fun acc i => acc + u.getD i 0 * v.getD i 0) 0

def sqNorm (v : Array K) : K := dotArr v v

/-- `np.cross` of two 3-vectors. -/
def cross3 (a b : Array K) : Array K :=
  let g (v : Array K) (i : ℕ) : K := v.getD i 0
  #[g a 1 * g b 2 - g a 2 * g b 1, g a 2 * g b 0 - g a 0 * g b 2, g a 0 * g b 1 - g a 1 * g b 0]

/-- `np.cross` of two 2-vectors (the scalar z-component). -/
def cross2 (a b : Array K) : K := a.getD 0 0 * b.getD 1 0 - a.getD 1 0 * b.getD 0 0

/-- The Jacobian of `Volume.volume`, written out as in the source:
`du0*(dv1*dw2-dv2*dw1) - du1*(dv0*dw2-dv2*dw0) + du2*(dv0*dw1-dv1*dw0)`. -/
def jac3 (a b c : Array K) : K :=
  let g (v : Array K) (i : ℕ) : K := v.getD i 0
  g a 0 * (g b 1 * g c 2 - g b 2 * g c 1) - g a 1 * (g b 0 * g c 2 - g b 2 * g c 0)
    + g a 2 * (g b 0 * g c 1 - g b 1 * g c 0)

/-- `Σ_i w_i · f i` over the mapped weights of one direction (`np.dot`). -/
def gaussSum1 (w : List K) (f : ℕ → K) : K :=
  (List.range w.length).foldl (fun acc i => acc + w.getD i 0 * f i) 0

/-- `w1.dot(F).dot(w2)`. -/
def gaussSum2 (w1 w2 : List K) (f : ℕ → ℕ → K) : K :=
  gaussSum1 w1 (fun i => gaussSum1 w2 (fun j => f i j))

/-- `F.dot(w3).dot(w2).dot(w1)`. -/
def gaussSum3 (w1 w2 w3 : List K) (f : ℕ → ℕ → ℕ → K) : K :=
  gaussSum1 w1 (fun i => gaussSum1 w2 (fun j => gaussSum1 w3 (fun k => f i j k)))

end Measure

open Measure

namespace Obj

/-- `SplineObject.center()`. -/
def center (o : Obj K) (tol : K) : PyM (Array K) := do
  -- Ns = [b.integrate(b.start(), b.end()) for b in self.bases]
  let Ns ← o.bases.toList.mapM (fun b => b.integrate tol b.start b.stop)
  -- par_size = np.prod([t1-t0 for (t0,t1) in zip(self.start(), self.end())])
  let parSize : K := (o.bases.toList.map (fun b => b.stop - b.start)).foldl (· * ·) 1
  -- tensordot of every parametric axis with its integral vector
  let res := contractGrid (Ns.map (fun N => (#[N] : Mat K))) o.cps
  let v := res.data.map (· / parSize)
  if o.rational then
    let dim := o.dimension
    pure (Array.ofFn (n := dim) (fun c => v.getD c.val 0 / v.getD dim 0))
  else pure v

/-- The integration boundaries of `Curve.length(t0, t1)`: the distinct knots, clipped to
    `[t0, t1]` with `bisect_left` / `np.insert` / slicing exactly as in the source. -/
def lengthSpans (o : Obj K) (tol : K) (t0 t1 : Option K) : Array K :=
  let knots := (o.basis 0).knotSpans tol false
  let knots := match t0 with
    | none => knots
    | some a =>
      let i := bisectLeft (fun j => knots.getD j 0) a knots.size
      (Basis.insertAt knots i a).extract i (knots.size + 1)
  match t1 with
  | none => knots
  | some e =>
    let i := bisectRight (fun j => knots.getD j 0) e knots.size
    (knots.extract 0 i).push e

/-- `Curve.derivative(t, d, above)` for a list of parameters (result shape `n × dim`). -/
def curveDerivative (o : Obj K) (tol : K) (ts : List K) (d : ℕ) (above : Bool) : PyM (Tensor K) :=
  if !o.rational ∨ d < 2 ∨ d > 3 then
    -- `_validate_domain` takes `min(p)` of every non-periodic direction: ValueError when empty
    if ts.isEmpty ∧ (o.basis 0).periodic < 0 then .error .value
    else o.derivativeGeneric tol [ts] [d] [above] true
  else .ok (o.curveDerivativeRational tol ts d above)

/-- `Curve.length(t0, t1)` up to the square root: `(w, s)` with `length = Σ w_i √s_i`
    (`s_i` = squared speed at node `i`). -/
def lengthData (o : Obj K) (tol : K) (x w : List K) (t0 t1 : Option K) : PyM (List K × List K) := do
  let (t, wf) := gaussMap (o.lengthSpans tol t0 t1).toList x w
  let dx ← o.curveDerivative tol t 1 true
  pure (wf, (List.range t.length).map (fun i => sqNorm (dx.rowAt o.dimension i)))

/-- `Surface.area()`.  Returns `(w1, w2, J, total)`: mapped weights per direction, the matrix `J`
    (row-major, `|w1| × |w2|`) of SQUARED area elements (dimension 3) or of `|du × dv|`
    (dimension 2), and for dimension 2 the finished number `w1·J·w2` (`none` for dimension 3). -/
def areaData (o : Obj K) (tol : K) (x1 wt1 x2 wt2 : List K) :
    PyM (List K × List K × List K × Option K) := do
  let (u, w1) := gaussMap ((o.basis 0).knotSpans tol false).toList x1 wt1
  let (v, w2) := gaussMap ((o.basis 1).knotSpans tol false).toList x2 wt2
  if (u.isEmpty ∧ (o.basis 0).periodic < 0) ∨ (v.isEmpty ∧ (o.basis 1).periodic < 0) then throw .value
  let du ← o.derivativeGeneric tol [u, v] [1, 0] [true, true] true
  let dv ← o.derivativeGeneric tol [u, v] [0, 1] [true, true] true
  let dim := o.dimension
  let n2 := v.length
  let idx : List (ℕ × ℕ) := (List.range u.length).flatMap (fun i => (List.range n2).map (fun j => (i, j)))
  if dim = 3 then
    pure (w1, w2, idx.map (fun (i, j) =>
      sqNorm (cross3 (du.rowAt dim (i * n2 + j)) (dv.rowAt dim (i * n2 + j)))), none)
  else if dim = 2 then
    let J (i j : ℕ) : K := |cross2 (du.rowAt dim (i * n2 + j)) (dv.rowAt dim (i * n2 + j))|
    pure (w1, w2, idx.map (fun (i, j) => J i j), some (gaussSum2 w1 w2 J))
  else throw .value   -- np.cross: incompatible dimensions for cross product

/-- `Volume.volume()` (dimension 3): `np.abs(J).dot(w3).dot(w2).dot(w1)` with
    `J = du·(dv × dw)` written out as in the source (`jac3`). -/
def volume (o : Obj K) (tol : K) (x1 wt1 x2 wt2 x3 wt3 : List K) : PyM K := do
  let (u, w1) := gaussMap ((o.basis 0).knotSpans tol false).toList x1 wt1
  let (v, w2) := gaussMap ((o.basis 1).knotSpans tol false).toList x2 wt2
  let (w, w3) := gaussMap ((o.basis 2).knotSpans tol false).toList x3 wt3
  let du ← o.derivativeGeneric tol [u, v, w] [1, 0, 0] [true, true, true] true
  let dv ← o.derivativeGeneric tol [u, v, w] [0, 1, 0] [true, true, true] true
  let dw ← o.derivativeGeneric tol [u, v, w] [0, 0, 1] [true, true, true] true
  let dim := o.dimension
  let n2 := v.length
  let n3 := w.length
  pure (gaussSum3 w1 w2 w3 (fun i j k =>
    let r := (i * n2 + j) * n3 + k
    |jac3 (du.rowAt dim r) (dv.rowAt dim r) (dw.rowAt dim r)|))

/-- `Curve.curvature(t)`: per point `(|v × a|², |v|²)`; curvature `= √(first) / (√second)³`.
    The scalar and the array branch of the source compute the same two numbers. -/
def curvatureData (o : Obj K) (tol : K) (ts : List K) (above : Bool) : PyM (List (K × K)) := do
  let v ← o.curveDerivative tol ts 1 above
  let a ← o.curveDerivative tol ts 2 above
  let dim := o.dimension
  if dim = 3 then
    pure ((List.range ts.length).map (fun i =>
      (sqNorm (cross3 (v.rowAt dim i) (a.rowAt dim i)), sqNorm (v.rowAt dim i))))
  else if dim = 2 then
    pure ((List.range ts.length).map (fun i =>
      (cross2 (v.rowAt dim i) (a.rowAt dim i) * cross2 (v.rowAt dim i) (a.rowAt dim i),
       sqNorm (v.rowAt dim i))))
  else throw .value

/-- `Curve.torsion(t)`: `none` for planar curves (the source returns zeros), else per point
    `((v × a)·a', |v × a|²)` — the array branch of the source; the scalar branch computes the same
    since the fix of finding `torsion-scalar-branch-uses-acceleration`. -/
def torsionData (o : Obj K) (tol : K) (ts : List K) (above : Bool) : PyM (Option (List (K × K))) := do
  if o.dimension = 2 then return none
  if o.dimension ≠ 3 then throw .value
  let v ← o.curveDerivative tol ts 1 above
  let a ← o.curveDerivative tol ts 2 above
  let da ← o.curveDerivative tol ts 3 above
  pure (some ((List.range ts.length).map (fun i =>
    let w := cross3 (v.rowAt 3 i) (a.rowAt 3 i)
    (dotArr w (da.rowAt 3 i), sqNorm w))))

/-- `Curve.binormal(t)` / `Curve.normal(t)` before normalisation: per point `(v, w)` with
    `w = v × a'` where `a'` is the acceleration after the source's replacement of a vanishing
    acceleration (`np.allclose(ddx, 0)`, i.e. every `|ddx_i| ≤ atol`) by `e_z` (or `e_x` when the
    velocity is along `e_z`).  Binormal `= w/|w|`, normal `= (w/|w|) × (v/|v|)`.
    `forNormal` selects the exception class of the dimension test (`normal` raises RuntimeError,
    `binormal` ValueError). -/
def frenetData (o : Obj K) (tol atol : K) (ts : List K) (above forNormal : Bool) :
    PyM (List (Array K × Array K)) := do
  if o.dimension ≠ 3 then throw (if forNormal then .runtime else .value)
  let v ← o.curveDerivative tol ts 1 above
  let a ← o.curveDerivative tol ts 2 above
  pure ((List.range ts.length).map (fun i =>
    let v := v.rowAt 3 i
    let a := a.rowAt 3 i
    let a' : Array K :=
      if a.all (fun x => decide (|x| ≤ atol)) then
        (if decide (|v.getD 0 0| ≤ atol) && decide (|v.getD 1 0| ≤ atol) then #[1, 0, 0] else #[0, 0, 1])
      else a
    (v, cross3 v a')))

end Obj

end Splipy
