import Std.Data.HashMap
import Mathlib.Data.List.Dedup
import Mathlib.Data.Rat.Floor
import Splipy.Model.Orientation

/-!
# Executable model of `TopologicalNode`, `VertexDict`, `ObjectCatalogue`, `NodeView.section`,
# `SplineModel` (`splipy/splinemodel.py`) and `utils.is_right_hand`

State = immutable structure; nodes are integers (position in `Model.nodes`, creation order).

* `VertexDict`: EXACT keys (first stored key equal to the query).  The tolerant key matching
  of the code (`_bounds`, `lut`) is the business of property C20; the correspondence run hands the
  model the unperturbed control nets.
* `ObjectCatalogue.internal` (an `OrderedDict` from tuples of nodes to lists of nodes) =
  insertion-ordered key array + hash map.
* Python object identity of nodes = equality of node ids.
-/

namespace Splipy.MP

/-- `TopologicalNode`. -/
structure TNode where
  pardim : ℕ
  obj : Obj
  /-- `lower_nodes[d]`, `d < pardim`, ordered as `sections(pardim, d)` -/
  lower : List (List ℕ)
  /-- `higher_nodes`: the calls `assign_higher(node)` in order, as `(node.pardim, node)` -/
  higher : List (ℕ × ℕ)
  owner : Option ℕ
  /-- `index` (the catalogue's `count` at creation) -/
  index : ℕ
  deriving Inhabited

/-- `higher_nodes[d]` (with multiplicity, in append order); `none` = `KeyError`. -/
def TNode.higherAt (n : TNode) (d : ℕ) : Option (List ℕ) :=
  let l := (n.higher.filter (·.1 == d)).map (·.2)
  if l.isEmpty then none else some l

/-- One `ObjectCatalogue` (of parametric dimension ≥ 1): `count` and `internal`. -/
structure Level where
  count : ℕ := 0
  keys : Array (List ℕ) := #[]
  map : Std.HashMap (List ℕ) (List ℕ) := {}
  deriving Inhabited

/-- `internal.get(key, [])` -/
def Level.get (lv : Level) (key : List ℕ) : List ℕ := (lv.map[key]?).getD []

/-- `internal.setdefault(p, []).append(node)` -/
def Level.setdefaultAppend (lv : Level) (p : List ℕ) (id : ℕ) : Level :=
  match lv.map[p]? with
  | some v => { lv with map := lv.map.insert p (v ++ [id]) }
  | none => { lv with keys := lv.keys.push p, map := lv.map.insert p [id] }

/-- `uniquify` -/
def uniquify (l : List ℕ) : List ℕ :=
  (l.foldl (fun (acc : List ℕ × Std.HashMap ℕ Unit) x =>
    if acc.2.contains x then acc else (x :: acc.1, acc.2.insert x ())) ([], {})).1.reverse

/-- The whole catalogue chain `ObjectCatalogue(pardim) … ObjectCatalogue(0)` + `VertexDict`. -/
structure Model where
  pardim : ℕ
  nodes : Array TNode := #[]
  /-- `levels[d]` is the catalogue of parametric dimension `d` (`d = 0`: only `count` is used) -/
  levels : Array Level
  /-- `VertexDict._keys/_values` -/
  verts : Array (List ℚ × ℕ) := #[]
  deriving Inhabited

def Model.empty (pardim : ℕ) : Model :=
  { pardim := pardim, levels := Array.replicate (pardim + 1) {} }

namespace Model

def node (m : Model) (i : ℕ) : TNode := m.nodes.getD i default

def modifyNode (m : Model) (i : ℕ) (f : TNode → TNode) : Model :=
  { m with nodes := m.nodes.modify i f }

def level (m : Model) (d : ℕ) : Level := m.levels.getD d {}

def modifyLevel (m : Model) (d : ℕ) (f : Level → Level) : Model :=
  { m with levels := m.levels.modify d f }

/-- `TopologicalNode._transfer_ownership` (recursion budget = parametric dimension + 1). -/
def transferOwnership : ℕ → Model → ℕ → ℕ → Model
  | 0, m, _, _ => m
  | fuel + 1, m, self, newOwner =>
    let m := m.modifyNode self (fun n => { n with owner := some newOwner })
    let n := m.node self
    if n.pardim > 0 then
      (n.lower.getLastD []).foldl (fun m child =>
        let c := m.node child
        if c.owner == some self || c.owner == none then transferOwnership fuel m child newOwner else m) m
    else m

/-- `TopologicalNode.__init__` + registration; returns the new node id. -/
def newNode (m : Model) (obj : Obj) (lower : List (List ℕ)) (index : ℕ) : Model × ℕ :=
  let id := m.nodes.size
  let pd := obj.pardim
  let nd : TNode := { pardim := pd, obj := obj, lower := lower, higher := [], owner := none, index := index }
  let m := { m with nodes := m.nodes.push nd }
  -- for dim_nodes in lower_nodes: for node in dim_nodes: node.assign_higher(self)
  let m := lower.foldl (fun m dimNodes =>
    dimNodes.foldl (fun m k => m.modifyNode k (fun n => { n with higher := n.higher ++ [(pd, id)] })) m) m
  -- take ownership of lower nodes that are unaccounted for
  let m := if pd > 0 then
      (lower.getLastD []).foldl (fun m k =>
        if (m.node k).owner == none then transferOwnership pd m k id else m) m
    else m
  (m, id)

/-- `ObjectCatalogue.lookup` at `pardim == 0` (`self.lower` is the `VertexDict`). -/
def lookupPoint (m : Model) (obj : Obj) (add : Bool) : Except MErr (Model × ℕ × Orientation) :=
  let cps := obj.cps.data.getD 0 []
  let key := if obj.rational then cps.dropLast else cps
  if add then
    -- node = TopologicalNode(obj, [], index=self.count); self.count += 1
    let idx := (m.level 0).count
    let m := m.modifyLevel 0 (fun lv => { lv with count := lv.count + 1 })
    -- rval = self.lower.setdefault(cps, node).view()
    match m.verts.find? (fun kv => kv.1 == key) with
    | some kv => .ok (m, kv.2, Orientation.identity 0)
    | none =>
      let (m, id) := m.newNode obj [] idx
      .ok ({ m with verts := m.verts.push (key, id) }, id, Orientation.identity 0)
  else
    match m.verts.find? (fun kv => kv.1 == key) with
    | some kv => .ok (m, kv.2, Orientation.identity 0)
    | none => .error .key

/-- the keys under which `_add` files a node: `set(permutations(lower_nodes[-1]))`. -/
def permKeys (key : List ℕ) : List (List ℕ) :=
  if key.Nodup then pyPermutations key else (pyPermutations key).dedup

/-- `ObjectCatalogue._add` -/
def addNode (m : Model) (obj : Obj) (lower : List (List ℕ)) : Model × ℕ × Orientation :=
  let pd := obj.pardim
  let (m, id) := m.newNode obj lower (m.level pd).count
  let m := m.modifyLevel pd (fun lv =>
    (permKeys (lower.getLastD [])).foldl (fun lv p => lv.setdefaultAppend p id)
      { lv with count := lv.count + 1 })
  (m, id, Orientation.identity pd)

/-- `for candidate in candidates: try: return candidate.view(obj) except OrientationError: pass` -/
def firstView (m : Model) (obj : Obj) : List ℕ → Option (ℕ × Orientation)
  | [] => none
  | c :: cs =>
    match Orientation.compute (m.node c).obj obj with
    | .ok o => some (c, o)
    | .error _ => firstView m obj cs

/-- The tail of `ObjectCatalogue.lookup` once `lower_nodes` is known: candidate scan with
    `Orientation.compute`, twins policy, `_add`. -/
def resolve (m : Model) (obj : Obj) (lower : List (List ℕ)) (add : Bool) (twins : List ℕ) :
    Except MErr (Model × ℕ × Orientation) :=
  let pd := obj.pardim
  let candidates := (m.level pd).get (lower.getLastD [])
  match candidates with
  | [] => if !add then .error .key else .ok (m.addNode obj lower)
  | [c] =>
    match Orientation.compute (m.node c).obj obj with
    | .ok o => .ok (m, c, o)
    | .error _ =>
      if twins.contains pd then .error .orientation
      else if !add then .error .key
      else .ok (m.addNode obj lower)
  | cs =>
    if twins.contains pd then .error .twin
    else match firstView m obj cs with
      | some (c, o) => .ok (m, c, o)
      | none => if !add then .error .key else .ok (m.addNode obj lower)

/-- `tuple(self.lower.lookup(obj.section(*args)).node for args in …)` for a list of sections,
    threading the state; `look` is the lookup one catalogue level down. -/
def lookupList (look : Model → Obj → Except MErr (Model × ℕ × Orientation)) (obj : Obj) :
    List Sec → Model → Except MErr (Model × List ℕ)
  | [], m => .ok (m, [])
  | sec :: rest, m =>
    match look m (obj.sect sec) with
    | .error e => .error e
    | .ok (m1, id, _) =>
      match lookupList look obj rest m1 with
      | .error e => .error e
      | .ok (m2, ids) => .ok (m2, id :: ids)

/-- `for i in range(pardim): lower_nodes.append(tuple(… for args in sections(pardim, i)))` -/
def lookupLower (look : Model → Obj → Except MErr (Model × ℕ × Orientation)) (obj : Obj) (pd : ℕ) :
    List ℕ → Model → Except MErr (Model × List (List ℕ))
  | [], m => .ok (m, [])
  | i :: rest, m =>
    match lookupList look obj (sections pd i) m with
    | .error e => .error e
    | .ok (m1, ids) =>
      match lookupLower look obj pd rest m1 with
      | .error e => .error e
      | .ok (m2, lower) => .ok (m2, ids :: lower)

/-- `ObjectCatalogue.lookup(obj, add, raise_on_twins)`; the catalogue level is `obj.pardim`
    (higher catalogues pass the object down).  `fuel ≥ obj.pardim`. -/
def lookup : ℕ → Model → Obj → Bool → List ℕ → Except MErr (Model × ℕ × Orientation)
  | fuel, m, obj, add, twins =>
    if obj.pardim = 0 then lookupPoint m obj add
    else match fuel with
    | 0 => .error .fuel
    | fuel + 1 =>
      match lookupLower (fun m' y => lookup fuel m' y add twins) obj obj.pardim
          (List.range obj.pardim) m with
      | .error e => .error e
      | .ok (m1, lower) => resolve m1 obj lower add twins

/-- `ObjectCatalogue.nodes(d)`. -/
def nodesOf (m : Model) (d : ℕ) : List ℕ :=
  if d = 0 then uniquify (m.verts.toList.map (·.2))
  else
    let lv := m.level d
    uniquify (lv.keys.toList.flatMap (fun k => lv.get k))

/-- `NodeView.section(*section)` for the view `(nodeId, ori)`: the section of the underlying
    object is taken in the REFERENCE frame, `self.node.obj.section(*ori.map_section(section))`
    (code after `fix:` 8e83d07; the snapshot used the section of the mapped frame — finding class
    `nodeview-section-wrong-frame`). -/
def viewSection (m : Model) (nodeId : ℕ) (ori : Orientation) (args : Sec) :
    Except MErr (ℕ × Orientation) := do
  let n := m.node nodeId
  let sec := checkSection args n.pardim
  let tgt := secTgtDim sec
  let refSec := ori.mapSection sec
  let some refIdx := sectionToIndex refSec | .error .runtime
  let some lowerId := (n.lower.getD tgt [])[refIdx]? | .error .runtime
  let refOri ← Orientation.compute (m.node lowerId).obj (n.obj.sect refSec)
  let myOri := ori.viewSection sec
  pure (lowerId, refOri * myOri)

end Model

/-! ## `utils.is_right_hand` and `SplineModel` -/

/-- dense row `basis.evaluate(t, d, from_right=True)` -/
def basisRow (b : Basis ℚ) (tol t : ℚ) (d : ℕ) : List ℚ := (b.evaluate tol t d true).toList

/-- `evaluate(dNs, controlpoints, tensor)` at a single parameter point: Σ_i Π_k N_k[i_k] · P_i. -/
def tensorEval (rows : List (List ℚ)) (cps : NdArr (List ℚ)) (ncomp : ℕ) : List ℚ :=
  (List.range cps.data.size).foldl (fun acc k =>
    let idx := unravel cps.shape k
    let w := (List.zipWith (fun (r : List ℚ) i => r.getD i 0) rows idx).foldl (· * ·) 1
    List.zipWith (fun a c => a + w * c) acc (cps.data.getD k [])) (List.replicate ncomp 0)

/-- `patch.derivative(*param, d=e_k)` at the parametric centre (quotient rule when rational). -/
def centreDerivative (tol : ℚ) (o : Obj) (k : ℕ) : List ℚ :=
  let param := o.bases.map (fun b => (b.start + b.stop) / 2)
  let dN := (List.zip o.bases param).zipIdx.map (fun p => basisRow p.1.1 tol p.1.2 (if p.2 = k then 1 else 0))
  let result := tensorEval dN o.cps o.ncomp
  if o.rational then
    let N := (List.zip o.bases param).map (fun p => basisRow p.1 tol p.2 0)
    let non := tensorEval N o.cps o.ncomp
    let W := lastD non
    let Wd := lastD result
    (List.zipWith (fun r n => r / W - n * Wd / W / W) result non).take o.dimension
  else result

def dot (a b : List ℚ) : ℚ := (List.zipWith (· * ·) a b).foldl (· + ·) 0

/-- `is_right_hand(patch, tol)` ; `none` = `ValueError`.  `x/|x|` is not rational: the
    comparison `det(du/|du|, …) ≥ tol` is decided exactly as
    `det ≥ 0 ∧ det² ≥ tol² Π|·|²`, and a zero tangent (NaN in the code) compares false. -/
def isRightHand (ktol : ℚ) (o : Obj) (tol : ℚ) : Option Bool :=
  if o.dimension = 3 ∧ o.pardim = 3 then
    let du := centreDerivative ktol o 0
    let dv := centreDerivative ktol o 1
    let dw := centreDerivative ktol o 2
    let g (a : List ℚ) (i : ℕ) := a.getD i 0
    let cr := [g du 1 * g dv 2 - g du 2 * g dv 1, g du 2 * g dv 0 - g du 0 * g dv 2,
               g du 0 * g dv 1 - g du 1 * g dv 0]
    let det := dot dw cr
    let nn := dot du du * dot dv dv * dot dw dw
    some (decide (nn ≠ 0 ∧ 0 ≤ det ∧ tol * tol * nn ≤ det * det))
  else if o.dimension = 2 ∧ o.pardim = 2 then
    let du := centreDerivative ktol o 0
    let dv := centreDerivative ktol o 1
    let g (a : List ℚ) (i : ℕ) := a.getD i 0
    let det := g du 0 * g dv 1 - g du 1 * g dv 0
    let nn := dot du du * dot dv dv
    some (decide (nn ≠ 0 ∧ 0 ≤ det ∧ tol * tol * nn ≤ det * det))
  else none

/-- `SplineModel` -/
structure SplineModel where
  pardim : ℕ
  dimension : ℕ
  forceRightHand : Bool
  cat : Model
  deriving Inhabited

namespace SplineModel

/-- `SplineModel.__init__(pardim, dimension, objs=[], force_right_hand)` -/
def new (pardim dimension : ℕ) (forceRightHand : Bool) : Except MErr SplineModel :=
  if forceRightHand ∧ ¬ ((pardim = 2 ∧ dimension = 2) ∨ (pardim = 3 ∧ dimension = 3)) then .error .value
  else .ok { pardim, dimension, forceRightHand, cat := Model.empty pardim }

/-- `SplineModel.add(objs, raise_on_twins)`; `twins` is the tuple of parametric dimensions.
    `ktol` is `state.knot_tolerance` (used by the evaluation inside `is_right_hand`). -/
def add (ktol : ℚ) (sm : SplineModel) (objs : List Obj) (twins : List ℕ) : Except MErr SplineModel :=
  -- _validate  (is_right_hand raises ValueError itself on a patch of the wrong kind: same class)
  if objs.any (fun p => p.dimension ≠ sm.dimension) then .error .value
  else if objs.any (fun p => p.pardim > sm.pardim) then .error .value
  else if sm.forceRightHand && objs.any (fun p => isRightHand ktol p (1 / 1000) != some true) then
    .error .value
  else
    -- _generate
    match objs.foldlM (fun m p => (Model.lookup sm.pardim m p true twins).map (·.1)) sm.cat with
    | .ok cat => .ok { sm with cat := cat }
    | .error e => .error e

/-- `raise_on_twins=True` → `tuple(range(pardim + 1))`, `False` → `()`. -/
def twinsOf (sm : SplineModel) (b : Bool) : List ℕ := if b then List.range (sm.pardim + 1) else []

/-- `model[obj]` -/
def getItem (sm : SplineModel) (obj : Obj) : Except MErr (ℕ × Orientation) := do
  let (_, id, o) ← Model.lookup sm.pardim sm.cat obj false []
  pure (id, o)

/-- `list(model.boundary())`; `none` = `KeyError` from `nhigher`. -/
def boundary (sm : SplineModel) : Option (List ℕ) :=
  (sm.cat.nodesOf (sm.pardim - 1)).foldlM (fun acc k =>
    match (sm.cat.node k).higherAt ((sm.cat.node k).pardim + 1) with
    | none => none
    | some l => some (if l.length = 1 then acc ++ [k] else acc)) []

end SplineModel

end Splipy.MP
