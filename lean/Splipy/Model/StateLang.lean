/-!
# A statement language for `splipy/state.py::state` (C20, source-derived part)

`state()` is a generator-based context manager (`@contextmanager`).  Its body is a short
straight-line program around a single `yield`; the `with` block runs at the `yield`, and an
exception raised by the block is re-raised *at the yield* inside the generator.  The translator
(`harness/translate/state_translate.py`) turns the current source of the function into a term of
`Stmt`; anything outside the accepted subset becomes `Stmt.unknown`, whose meaning is arbitrary
(so no obligation about it can be discharged: fail closed).

The store maps attribute names of the `state` module to values of an arbitrary type `V`.
No Mathlib here.
-/

namespace Splipy.StateLang

/-- How a statement (or a `with` block) ends. -/
inductive Outcome where
  | normal | raised
  deriving DecidableEq, Repr, Inhabited

/-- The accepted subset of generator bodies. -/
inductive Stmt where
  /-- docstring, `module = sys.modules[__name__]`, `pass` -/
  | skip
  /-- `before = {k: getattr(module, k) for k in <keys>}` -/
  | saveAll (keys : List String)
  /-- `for k, v in kwargs.items(): setattr(module, k, v)` -/
  | setFrom
  /-- `yield`: the managed block runs here; it may assign settings and may raise -/
  | yield
  /-- `for k, v in before.items(): setattr(module, k, v)` -/
  | restoreAll
  | seq (a b : Stmt)
  /-- `try: body finally: fin` (no handlers, no `else`) -/
  | tryFinally (body fin : Stmt)
  /-- source the translator does not understand -/
  | unknown (what : String)
  deriving Repr, Inhabited

abbrev Store (V : Type) := String → V

def Store.set {V : Type} (s : Store V) (k : String) (v : V) : Store V :=
  fun k' => if k' = k then v else s k'

/-- `for k, v in pairs: setattr(module, k, v)` -/
def applyKw {V : Type} : List (String × V) → Store V → Store V
  | [], s => s
  | (k, v) :: l, s => applyKw l (s.set k v)

/-- Interpreter state: the module attributes and the local variable `before`. -/
structure St (V : Type) where
  cur : Store V
  before : List (String × V)

/-- Everything the program's behaviour depends on besides the store: the keyword arguments,
    what the managed block does (any store transformer, ending either way), and the meaning
    of untranslated source (anything at all). -/
structure Env (V : Type) where
  kwargs : List (String × V)
  body : Store V → Outcome × Store V
  havoc : St V → Outcome × St V

/-- Big-step semantics. -/
def run {V : Type} (E : Env V) : Stmt → St V → Outcome × St V
  | .skip, st => (.normal, st)
  | .saveAll keys, st => (.normal, { st with before := keys.map (fun k => (k, st.cur k)) })
  | .setFrom, st => (.normal, { st with cur := applyKw E.kwargs st.cur })
  | .yield, st => let r := E.body st.cur; (r.1, { st with cur := r.2 })
  | .restoreAll, st => (.normal, { st with cur := applyKw st.before st.cur })
  | .seq a b, st =>
      match run E a st with
      | (.normal, st') => run E b st'
      | (.raised, st') => (.raised, st')
  | .tryFinally body fin, st =>
      match run E body st with
      | (o, st') =>
        match run E fin st' with
        | (.normal, st'') => (o, st'')
        | (.raised, st'') => (.raised, st'')
  | .unknown _, st => E.havoc st

/-- **The obligation.**  Whatever the keyword arguments, whatever the block does and however it
    ends, after the context manager has run every attribute named in `settings` has the value it
    had on entry. -/
def RestoresOnEveryExit (settings : List String) (prog : Stmt) : Prop :=
  ∀ (V : Type) (E : Env V) (s : Store V), ∀ k ∈ settings,
    (run E prog { cur := s, before := [] }).2.cur k = s k

/-! ## Decision procedure: a two-bit abstract interpretation -/

/-- `saved`: `before` holds the entry value of every setting.  `clean`: every setting currently
    has its entry value.  `false` means "not known". -/
structure Abs where
  saved : Bool
  clean : Bool
  deriving DecidableEq, Repr

def absRun (settings : List String) : Stmt → Abs → List (Outcome × Abs)
  | .skip, a => [(.normal, a)]
  | .saveAll keys, a =>
      [(.normal, { saved := a.clean && settings.all (fun k => keys.contains k), clean := a.clean })]
  | .setFrom, a => [(.normal, { saved := a.saved, clean := false })]
  | .yield, a => [(.normal, { saved := a.saved, clean := false }),
                  (.raised, { saved := a.saved, clean := false })]
  | .restoreAll, a => [(.normal, { saved := a.saved, clean := a.saved })]
  | .seq x y, a =>
      (absRun settings x a).flatMap (fun r =>
        match r.1 with
        | .normal => absRun settings y r.2
        | .raised => [(.raised, r.2)])
  | .tryFinally x f, a =>
      (absRun settings x a).flatMap (fun r =>
        (absRun settings f r.2).map (fun r' =>
          match r'.1 with
          | .normal => (r.1, r'.2)
          | .raised => (.raised, r'.2)))
  | .unknown _, _ => [(.normal, { saved := false, clean := false }),
                      (.raised, { saved := false, clean := false })]

/-- Every abstract exit path ends with all settings known to be restored. -/
def restoresB (settings : List String) (prog : Stmt) : Bool :=
  (absRun settings prog { saved := false, clean := true }).all (fun r => r.2.clean)

/-! ## Nested `with state(...)` blocks -/

/-- Code that may run inside a `with` block: arbitrary leaves, sequencing (a raise skips the
    rest), and nested `with state(**kw):` blocks. -/
inductive Block (V : Type) where
  | leaf (f : Store V → Outcome × Store V)
  | seq (a b : Block V)
  | withState (kw : List (String × V)) (inner : Block V)

/-- Semantics of a block, the `with state(...)` statement being `prog`. -/
def Block.exec {V : Type} (prog : Stmt) (havoc : St V → Outcome × St V) :
    Block V → Store V → Outcome × Store V
  | .leaf f, s => f s
  | .seq a b, s =>
      match a.exec prog havoc s with
      | (.normal, s') => b.exec prog havoc s'
      | (.raised, s') => (.raised, s')
  | .withState kw inner, s =>
      let r := run { kwargs := kw, body := inner.exec prog havoc, havoc := havoc } prog
                 { cur := s, before := [] }
      (r.1, r.2.cur)

/-- Does the program contain untranslated source? -/
def Stmt.hasUnknown : Stmt → Bool
  | .seq a b => a.hasUnknown || b.hasUnknown
  | .tryFinally a b => a.hasUnknown || b.hasUnknown
  | .unknown _ => true
  | _ => false

end Splipy.StateLang
