import Splipy.Model.Object

/-!
# Operator forms and argument normalisation of the affine operations (C09)

Mirrors, in `splipy/splineobject.py`: `__iadd__ … __div__`, the argument handling at the top of
`translate` / `scale`, and in `splipy/utils/__init__.py`: `ensure_flatlist`, `ensure_listlike`.

`AffOp` is one call on a receiver object; `AffOp.step` returns the object the Python expression
evaluates to, together with two bookkeeping observables:
* `returnsSelf` – the result *is* the receiver (methods and in-place operators), or a fresh deep
  copy with the receiver left untouched (infix operators);
* `sameArray`   – `self.controlpoints` is still the same numpy array object afterwards (only
  `project`, which writes into the array, and the no-op cases of `set_dimension` /
  `force_rational`); every other operation rebinds `self.controlpoints` to a new array.
-/

namespace Splipy

variable {K : Type} [Field K] [LinearOrder K] [FloorRing K]

/-- One positional argument of `scale(*args)` / the right operand of `*`, `/`:
    a number or something `Sized` (list, tuple, 1-d array). -/
inductive ScaleArg (K : Type) where
  | scalar (x : K)
  | vec (xs : List K)
  deriving Inhabited

namespace ScaleArg

/-- `s = ensure_flatlist(args)`:  `args[0]` if that is `Sized` (the remaining arguments are
    dropped), otherwise `args` itself; `args[0]` raises `IndexError` on `scale()`.
    A `Sized` entry *after* a scalar one survives until `scale_matrix[i, i] = s[i]`, where numpy
    raises `ValueError` ("setting an array element with a sequence") – provided that entry is
    actually read (`i < dim`), see `Obj.scaleArgs`. -/
def flatten : List (ScaleArg K) → PyM (List (ScaleArg K))
  | [] => .error .index
  | .vec v :: _ => .ok (v.map .scalar)
  | args => .ok args

end ScaleArg

namespace Obj

/-- `ensure_listlike(s, dups=3)`: repeat the last entry until there are three.
    (An empty list stays empty: the `IndexError` of `x[-1]` is swallowed and `[]` returned.) -/
def ensureListlike3 {α : Type} (s : List α) : List α :=
  match s.getLast? with
  | none => []
  | some l => s ++ List.replicate (3 - s.length) l

/-- The factors `scale(*args)` reads: `s = ensure_listlike(ensure_flatlist(args), dups=3)`, then
    `for i in range(dim): scale_matrix[i, i] = s[i]` (entries beyond `dim` are never read; a
    `Sized` entry raises `ValueError`, a missing one `IndexError`). -/
def scaleNums (dim : ℕ) (args : List (ScaleArg K)) : PyM (List K) := do
  let s ← ScaleArg.flatten args
  let s3 := ensureListlike3 s
  let nums ← (s3.take dim).mapM (fun a => match a with
    | ScaleArg.scalar x => (pure x : PyM K)
    | ScaleArg.vec _ => .error .value)
  if s3.length < dim then .error .index else pure nums

/-- `scale(*args)` from the raw positional arguments. -/
def scaleArgs (o : Obj K) (args : List (ScaleArg K)) : PyM (Obj K) := do
  let nums ← scaleNums o.dimension args
  o.scale nums

/-- `translate(x)` including the `IndexError` of `x[i]` when `len(x) < dim` (raised while the
    matrix is built, before anything is stored). -/
def translateChecked (o : Obj K) (x : List K) : PyM (Obj K) :=
  if x.length < o.dimension then .error .index else .ok (o.translate x)

/-- `project(plane)`; `keep = [c in plane.lower() for c in 'xyz']` has three entries, so
    `keep[i]` raises `IndexError` for an object of more than three dimensions. -/
def projectChecked (o : Obj K) (keep : List Bool) : PyM (Obj K) :=
  if keep.length < o.dimension then .error .index else .ok (o.projectPlane keep)

end Obj

/-- One call on a receiver.  Vector arguments are what `len(x)` / `x[i]` see. -/
inductive AffOp (K : Type) where
  | translate (x : List K)
  | scale (args : List (ScaleArg K))
  /-- `rotate(theta, normal)`: `ch, sh = cos(θ/2), sin(θ/2)`; `axisUnit = normal/‖normal‖`. -/
  | rotate (ch sh : K) (normal axisUnit : List K)
  /-- `mirror(normal)`: the normalised normal. -/
  | mirror (nrm : List K)
  | project (keep : List Bool)
  | setDimension (n : ℕ)
  | forceRational
  | iadd (x : List K)
  | isub (x : List K)
  | imul (a : ScaleArg K)
  | itruediv (a : ScaleArg K)
  | add (x : List K)
  | radd (x : List K)
  | sub (x : List K)
  | mul (a : ScaleArg K)
  | rmul (a : ScaleArg K)
  | div (a : ScaleArg K)
  deriving Inhabited

structure StepResult (K : Type) where
  obj : Obj K
  returnsSelf : Bool
  sameArray : Bool

namespace AffOp

/-- `1.0 / x` for a number (Python `ZeroDivisionError`) or element-wise for an array. -/
def recip : ScaleArg K → PyM (ScaleArg K)
  | .scalar x => if x = 0 then .error .zeroDiv else .ok (.scalar (1 / x))
  | .vec xs => if xs.any (· = 0) then .error .zeroDiv else .ok (.vec (xs.map (1 / ·)))

/-- The in-place form every operator reduces to. -/
def inplace (o : Obj K) : AffOp K → PyM (Obj K)
  | translate x | iadd x | add x | radd x => o.translateChecked x
  | isub x | sub x => o.translateChecked (x.map (- ·))          -- `translate(-np.array(x))`
  | scale args => o.scaleArgs args
  | imul a | mul a | rmul a => o.scaleArgs [a]                   -- `scale(x)`
  | itruediv a | div a => do o.scaleArgs [← recip a]             -- `scale(1.0 / x)`
  | rotate ch sh n u => o.rotate ch sh n u
  | mirror n => o.mirror n
  | project keep => o.projectChecked keep
  | setDimension n => .ok (o.setDimension n)
  | forceRational => .ok o.forceRational

/-- Infix forms work on `copy.deepcopy(self)` and return the copy. -/
def isInfix : AffOp K → Bool
  | add _ | radd _ | sub _ | mul _ | rmul _ | div _ => true
  | _ => false

/-- Does `self.controlpoints` remain the same array object? -/
def keepsArray (o : Obj K) : AffOp K → Bool
  | project _ => true
  | setDimension n => n = o.dimension
  | forceRational => o.rational
  | _ => false

def step (o : Obj K) (op : AffOp K) : PyM (StepResult K) := do
  let o' ← op.inplace o
  pure { obj := o', returnsSelf := !op.isInfix, sameArray := !op.isInfix && op.keepsArray o }

/-- A whole sequence; every op acts on the result of the previous one. -/
def run (o : Obj K) (ops : List (AffOp K)) : PyM (Obj K) :=
  ops.foldlM (fun o op => op.inplace o) o

end AffOp

end Splipy
