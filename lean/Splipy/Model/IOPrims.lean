import Splipy.Model.IOTokens
import Splipy.Model.Factories
import Splipy.Model.Object
import Splipy.Model.Reparam

/-!
# Token-level model of the analytic primitive records of `splipy/io/g2.py`

`G2.line` (120), `circle` (130), `ellipse` (140), `plane` (250), `cylinder` (260), `sphere` (270),
`torus` (290), `disc` (292), `surface_of_linear_extrusion` (261): every parser reads a fixed layout
of lines (`readFields` below, one `LineKind` per `next(self.fstream)`), hands the fields to a
factory of `Model/Factories.lean` (`Splipy.Fac`, property C13) and post-processes the result with
`reparam` / `reverse` / `swap` (`Model/Object.lean`, `Model/Reparam.lean`).

Transcendental data the factories need (the `(cos, sin)` pairs of `atan2(n_y, n_x)`,
`atan2(√(n_x²+n_y²), n_z)`, the norm `lam` of the back-rotated x-axis, `‖z_axis‖`, and the
constants `π`, `1/√2`, `√2`) cannot be computed in a field; they are supplied by the caller in
`PrimAux` exactly as for property C13.  `bounded_surface` (210) is not modelled.
-/

namespace Splipy.FileIO

variable {K : Type}

/-! ## Conversions between the three object representations -/

/-- `Fac.Obj` (list of control points) → `Splipy.Obj` (tensor). -/
def ofFac [Zero K] (o : Fac.Obj K) : Splipy.Obj K :=
  { bases := o.bases.toArray,
    cps := { shape := o.shape ++ [o.ncomp], data := o.cps.flatten.toArray },
    rational := o.rational }

/-- A spline record read by `g2Splines` as the argument of a factory. -/
def toFac (o : Obj K) : Fac.Obj K :=
  { bases := o.bases.map fun b => { order := b.order, knots := b.knots.toArray, periodic := b.periodic },
    shape := o.shape, cps := o.cps, rational := o.rational,
    dim := o.ncomp - (if o.rational then 1 else 0) }

/-! ## Line readers -/

/-- The ways a primitive parser consumes one line. -/
inductive LineKind where
  /-- `int(self.read_next_non_whitespace().strip())` -/
  | dim
  /-- `float(next(self.fstream).strip())` -/
  | float1
  /-- `np.array(next(self.fstream).split(), dtype=float)` -/
  | floats
  /-- `np.array(self.read_next_non_whitespace().split(), dtype=float)` -/
  | floatsNB
  /-- `next(self.fstream).strip() != '0'` -/
  | flag
  deriving Repr, DecidableEq

/-- What was read.  (`Token.int n` stands for the canonical decimal spelling of `n`, so the flag
    test `!= '0'` is "the line is not the single token `int 0`".) -/
inductive RecField (K : Type) where
  | int (n : Int)
  | num (x : K)
  | vec (xs : List K)
  | flag (b : Bool)
  deriving Repr

def isZeroLine : List (Token K) → Bool
  | [.int 0] => true
  | _ => false

/-- One line of the given kind. -/
def readField [Field K] (kind : LineKind) (toks : List (Token K)) :
    Except PyErr (RecField K × List (Token K)) :=
  match kind with
  | .dim =>
    match nextNonBlank toks with
    | none => .error .other
    | some (l, r) =>
      match lineInt l with
      | some n => .ok (.int n, r)
      | none => .error .value
  | .float1 =>
    match nextLine toks with
    | none => .error .other
    | some (l, r) =>
      match lineFloat l with
      | some x => .ok (.num x, r)
      | none => .error .value
  | .floats =>
    match nextLine toks with
    | none => .error .other
    | some (l, r) =>
      match l.mapM Token.toFloat? with
      | some xs => .ok (.vec xs, r)
      | none => .error .value
  | .floatsNB =>
    match nextNonBlank toks with
    | none => .error .other
    | some (l, r) =>
      match l.mapM Token.toFloat? with
      | some xs => .ok (.vec xs, r)
      | none => .error .value
  | .flag =>
    match nextLine toks with
    | none => .error .other
    | some (l, r) => .ok (.flag (!isZeroLine l), r)

/-- A sequence of lines. -/
def readFields [Field K] : List LineKind → List (Token K) →
    Except PyErr (List (RecField K) × List (Token K))
  | [], toks => .ok ([], toks)
  | k :: ks, toks =>
    match readField k toks with
    | .error e => .error e
    | .ok (f, r) =>
      match readFields ks r with
      | .error e => .error e
      | .ok (fs, r') => .ok (f :: fs, r')

/-- How a writer spells a field (`flag true` as `1`). -/
def RecField.toks : RecField K → List (Token K)
  | .int n => [.int n, .nl]
  | .num x => [.num x, .nl]
  | .vec xs => xs.map .num ++ [.nl]
  | .flag b => [.int (boolInt b), .nl]

/-- The field is what a line of kind `k` yields.  (A `floatsNB` line must not be blank, or the
    reader would skip it.) -/
def RecField.HasKind : RecField K → LineKind → Prop
  | .int _, .dim => True
  | .num _, .float1 => True
  | .vec _, .floats => True
  | .vec xs, .floatsNB => xs ≠ []
  | .flag _, .flag => True
  | _, _ => False

/-! ## The records -/

/-- Data the factories need that a field cannot compute (see the header). -/
structure PrimAux (K : Type) where
  k : Fac.Consts K
  a : Fac.NAux K
  lam : K
  znorm : K
  deriving Inhabited

section Build
variable [Field K] [LinearOrder K] [FloorRing K]

/-- `state.unlimited` -/
def unlimited : K := 10000

/-- `result.reparam(u, v, …)`: one `(start, end)` pair per direction, in order. -/
def reparamAll (o : Splipy.Obj K) : ℕ → List (List K) → PyM (Splipy.Obj K)
  | _, [] => .ok o
  | dir, arg :: rest =>
    match o.reparamOne dir arg with
    | .error e => .error e
    | .ok o' => reparamAll o' (dir + 1) rest

def vadd (a b : List K) : List K := List.zipWith (· + ·) a b
def vscale (s : K) (a : List K) : List K := a.map (· * s)

/-- `G2.line`: `curve_factory.line(s + d*param[0], s + d*param[1])`, then `reverse()`. -/
def buildLine (start dir : List K) (finite : Bool) (param : List K) (rev : Bool) :
    PyM (Splipy.Obj K) :=
  let param := if finite then param else [-unlimited, unlimited]
  match param with
  | p0 :: p1 :: _ =>
    let o := ofFac (Fac.line (vadd start (vscale p0 dir)) (vadd start (vscale p1 dir)) false)
    .ok (if rev then o.reverse 0 else o)
  | _ => .error .index

/-- `G2.circle`: `circle(r, center, normal, xaxis)`, `reparam(param)`, `reverse()`. -/
def buildCircle (aux : PrimAux K) (r : K) (center normal xaxis param : List K) (rev : Bool) :
    PyM (Splipy.Obj K) := do
  let c ← Fac.circle aux.k r center normal "p2C0" xaxis aux.a aux.lam
  let o ← reparamAll (ofFac c) 0 [param]
  pure (if rev then o.reverse 0 else o)

/-- `G2.ellipse`. -/
def buildEllipse (aux : PrimAux K) (r1 r2 : K) (center normal xaxis param : List K) (rev : Bool) :
    PyM (Splipy.Obj K) := do
  let c ← Fac.ellipse aux.k r1 r2 center normal "p2C0" xaxis aux.a aux.lam
  let o ← reparamAll (ofFac c) 0 [param]
  pure (if rev then o.reverse 0 else o)

/-- `G2.cylinder`: the bottom circle is moved to `center + z_axis*param_v[0]`, height
    `param_v[1] - param_v[0]`; `reparam(param_u, param_v)`, `swap()`. -/
def buildCylinder (aux : PrimAux K) (r : K) (center zaxis xaxis : List K) (finite : Bool)
    (paramU paramV : List K) (swap : Bool) : PyM (Splipy.Obj K) := do
  let paramV := if finite then paramV else [-unlimited, unlimited]
  match paramV with
  | v0 :: v1 :: _ =>
    let h := v1 - v0
    let c ← Fac.cylinder aux.k r (zaxis.map (fun x => h * x / aux.znorm)) (vadd center (vscale v0 zaxis))
              zaxis xaxis aux.a aux.lam
    let o ← reparamAll (ofFac c) 0 [paramU, paramV]
    pure (if swap then o.swap 0 1 else o)
  | _ => throw .index

/-- `np.allclose(np.diff(angles), pi/2, atol=1e-10)` -/
def anglesOk (pi : K) : List K → Bool
  | a :: b :: rest =>
    decide (|(b - a) - pi / 2| ≤ 1 / 10000000000 + 1 / 100000 * |pi / 2|) && anglesOk pi (b :: rest)
  | _ => true

/-- `G2.disc`: degenerate flag = radial parametrisation, otherwise the four corner angles must be
    a quarter turn apart (`RuntimeError`) and the square parametrisation is used. -/
def buildDisc (aux : PrimAux K) (center : List K) (r : K) (zaxis xaxis : List K) (degen : Bool)
    (angles : List K) (paramU paramV : List K) (swap : Bool) : PyM (Splipy.Obj K) := do
  if !degen && !anglesOk aux.k.pi angles then throw .runtime
  let d ← Fac.disc aux.k r center zaxis (if degen then "radial" else "square") xaxis aux.a aux.lam
  let o ← reparamAll (ofFac d) 0 [paramU, paramV]
  pure (if swap then o.swap 0 1 else o)

/-- `G2.plane`: `Surface()*[du,dv] + [u0,v0]`, rotated to the x-axis, tilted and moved. -/
def buildPlane (aux : PrimAux K) (center normal xaxis : List K) (finite : Bool)
    (paramU paramV : List K) (swap : Bool) : PyM (Splipy.Obj K) := do
  let paramU := if finite then paramU else [-unlimited, unlimited]
  let paramV := if finite then paramV else [-unlimited, unlimited]
  match paramU, paramV with
  | u0 :: u1 :: _, v0 :: v1 :: _ =>
    let s ← ((Fac.unitSquare (K := K)).scale [u1 - u0, v1 - v0]).translate [u0, v0]
    let (ca, sa) := Fac.rotateLocalXAxis xaxis aux.a aux.lam
    let s ← s.rotateZ ca sa
    let s ← Fac.flipAndMove s center normal aux.a
    let o ← reparamAll (ofFac s) 0 [paramU, paramV]
    pure (if swap then o.swap 0 1 else o)
  | _, _ => throw .index

/-- `G2.torus`: the FIRST radius of the record is the major one. -/
def buildTorus (aux : PrimAux K) (major minor : K) (center zaxis xaxis : List K)
    (paramU paramV : List K) (swap : Bool) : PyM (Splipy.Obj K) := do
  let t ← Fac.torus aux.k minor major center zaxis xaxis aux.a aux.lam
  let o ← reparamAll (ofFac t) 0 [paramU, paramV]
  pure (if swap then o.swap 0 1 else o)

/-- `G2.sphere`: the factory's result is swapped once, once more on the flag, THEN reparametrised. -/
def buildSphere (aux : PrimAux K) (r : K) (center zaxis xaxis : List K)
    (paramU paramV : List K) (swap : Bool) : PyM (Splipy.Obj K) := do
  let s ← Fac.sphere aux.k r center zaxis xaxis aux.a aux.lam
  let o := (ofFac s).swap 0 1
  let o := if swap then o.swap 0 1 else o
  reparamAll o 0 [paramU, paramV]

/-- `G2.surface_of_linear_extrusion`: `extrude(crv + normal*v0, normal*(v1-v0))`. -/
def buildExtrusion (crv : Obj K) (normal : List K) (finite : Bool) (paramU paramV : List K)
    (swap : Bool) : PyM (Splipy.Obj K) := do
  let paramV := if finite then paramV else [-unlimited, unlimited]
  match paramV with
  | v0 :: v1 :: _ =>
    let c ← (toFac crv).translate (vscale v0 normal)
    let s ← Fac.extrude c (vscale (v1 - v0) normal)
    let o ← reparamAll (ofFac s) 0 [paramU, paramV]
    pure (if swap then o.swap 0 1 else o)
  | _ => throw .index

end Build

/-! ## The parsers -/

section Parse
variable [Field K] [LinearOrder K] [FloorRing K]

open LineKind in
/-- The record body after the header line `code 1 0 0`, for each type code of `G2.g2_generators`
    that is modelled. -/
def g2Prim (aux : PrimAux K) (tol : K) (code : Int) (toks : List (Token K)) :
    Except PyErr (Splipy.Obj K × List (Token K)) :=
  if code = 120 then
    match readFields [dim, floats, floats, flag, floats, flag] toks with
    | .error e => .error e
    | .ok ([.int _, .vec s, .vec d, .flag fin, .vec par, .flag rev], r) =>
      (buildLine s d fin par rev).map (·, r)
    | .ok _ => .error .other
  else if code = 130 then
    match readFields [dim, float1, floats, floats, floats, floats, flag] toks with
    | .error e => .error e
    | .ok ([.int _, .num rad, .vec c, .vec n, .vec x, .vec par, .flag rev], r) =>
      (buildCircle aux rad c n x par rev).map (·, r)
    | .ok _ => .error .other
  else if code = 140 then
    match readFields [dim, float1, float1, floats, floats, floats, floats, flag] toks with
    | .error e => .error e
    | .ok ([.int _, .num r1, .num r2, .vec c, .vec n, .vec x, .vec par, .flag rev], r) =>
      (buildEllipse aux r1 r2 c n x par rev).map (·, r)
    | .ok _ => .error .other
  else if code = 260 then
    match readFields [dim, float1, floats, floats, floats, flag, floats] toks with
    | .error e => .error e
    | .ok ([.int _, .num rad, .vec c, .vec z, .vec x, .flag fin, .vec pu], r) =>
      match readFields (if fin then [floats, flag] else [flag]) r with
      | .error e => .error e
      | .ok ([.vec pv, .flag sw], r') => (buildCylinder aux rad c z x true pu pv sw).map (·, r')
      | .ok ([.flag sw], r') => (buildCylinder aux rad c z x false pu [] sw).map (·, r')
      | .ok _ => .error .other
    | .ok _ => .error .other
  else if code = 292 then
    match readFields [dim, floats, float1, floats, floats, flag, float1, float1, float1, float1,
                      floats, floats, flag] toks with
    | .error e => .error e
    | .ok ([.int _, .vec c, .num rad, .vec z, .vec x, .flag deg, .num a0, .num a1, .num a2, .num a3,
            .vec pu, .vec pv, .flag sw], r) =>
      (buildDisc aux c rad z x deg [a0, a1, a2, a3] pu pv sw).map (·, r)
    | .ok _ => .error .other
  else if code = 250 then
    match readFields [dim, floats, floats, floats, flag] toks with
    | .error e => .error e
    | .ok ([.int _, .vec c, .vec n, .vec x, .flag fin], r) =>
      match readFields (if fin then [floats, floats, flag] else [flag]) r with
      | .error e => .error e
      | .ok ([.vec pu, .vec pv, .flag sw], r') => (buildPlane aux c n x true pu pv sw).map (·, r')
      | .ok ([.flag sw], r') => (buildPlane aux c n x false [] [] sw).map (·, r')
      | .ok _ => .error .other
    | .ok _ => .error .other
  else if code = 290 then
    match readFields [dim, float1, float1, floats, floats, floats, flag, floats, floats, flag] toks with
    | .error e => .error e
    | .ok ([.int _, .num major, .num minor, .vec c, .vec z, .vec x, .flag _, .vec pu, .vec pv,
            .flag sw], r) =>
      (buildTorus aux major minor c z x pu pv sw).map (·, r)
    | .ok _ => .error .other
  else if code = 270 then
    match readFields [dim, float1, floats, floats, floats, floats, floats, flag] toks with
    | .error e => .error e
    | .ok ([.int _, .num rad, .vec c, .vec z, .vec x, .vec pu, .vec pv, .flag sw], r) =>
      (buildSphere aux rad c z x pu pv sw).map (·, r)
    | .ok _ => .error .other
  else if code = 261 then
    match readFields [dim] toks with
    | .error e => .error e
    | .ok (_, r0) =>
      match g2Splines tol 1 r0 with
      | .error e => .error e
      | .ok (crv, r1) =>
        match readFields [floatsNB, flag, floats] r1 with
        | .error e => .error e
        | .ok ([.vec nrm, .flag fin, .vec pu], r2) =>
          match readFields (if fin then [floats, flag] else [flag]) r2 with
          | .error e => .error e
          | .ok ([.vec pv, .flag sw], r3) => (buildExtrusion crv nrm true pu pv sw).map (·, r3)
          | .ok ([.flag sw], r3) => (buildExtrusion crv nrm false pu [] sw).map (·, r3)
          | .ok _ => .error .other
        | .ok _ => .error .other
  else .error .notImplemented

/-- One primitive record as `G2.read` sees it (header line included). -/
def g2ReadPrim (aux : PrimAux K) (tol : K) (toks : List (Token K)) :
    Except PyErr (Splipy.Obj K × List (Token K)) :=
  match nextNonBlank toks with
  | none => .error .other
  | some (hdr, r) =>
    match hdr.mapM Token.toInt? with
    | some [objtype, major, minor, patch] =>
      if (major, minor, patch) ≠ (1, 0, 0) then .error .other
      else g2Prim aux tol objtype r
    | _ => .error .value

end Parse

end Splipy.FileIO
