import Splipy.Model.Basis

/-!
# Well-formedness of a basis (the predicate the constructor is meant to enforce)

`Basis.Valid` is the semantic predicate used by the property theorems: order ≥ 1, at least `2p`
knots, non-decreasing knots, `start < end`, periodicity `-1 ≤ k ≤ p-2`, and for periodic bases the
ghost knots repeat the interior spacing: `τ (i+n) = τ i + T` for every index for which both sides
lie in the array (`n = num_functions`, `T = end - start`).
`Basis.validB` is the same predicate as an executable Boolean (used by the driver).
-/

namespace Splipy

variable {K : Type} [Field K] [LinearOrder K]

structure Basis.Valid (b : Basis K) : Prop where
  order_pos : 1 ≤ b.order
  size_ge : 2 * b.order ≤ b.knots.size
  sorted : ∀ i, i + 1 < b.knots.size → b.kn i ≤ b.kn (i + 1)
  periodic_ge : -1 ≤ b.periodic
  periodic_le : b.periodic + 2 ≤ (b.order : Int) ∨ b.periodic = -1
  start_lt_stop : b.start < b.stop
  ghosts : 0 ≤ b.periodic → ∀ i, i + b.numFunctions < b.knots.size →
      b.kn (i + b.numFunctions) = b.kn i + (b.stop - b.start)

/-- Executable version of `Basis.Valid`. -/
def Basis.validB (b : Basis K) : Bool :=
  decide (1 ≤ b.order) && decide (2 * b.order ≤ b.knots.size)
  && (List.range (b.knots.size - 1)).all (fun i => decide (b.kn i ≤ b.kn (i + 1)))
  && decide (-1 ≤ b.periodic)
  && (decide (b.periodic + 2 ≤ (b.order : Int)) || decide (b.periodic = -1))
  && decide (b.start < b.stop)
  && (decide (b.periodic < 0) ||
      (List.range (b.knots.size - b.numFunctions)).all (fun i =>
        decide (b.kn (i + b.numFunctions) = b.kn i + (b.stop - b.start))))

end Splipy
