import Splipy.Model.Object

/-!
# Executable model of the interpolating / fitting factories

`curve_factory.interpolate / least_square_fit / cubic_curve / bezier`, `Curve.rebuild`,
`surface_factory.interpolate / least_square_fit / loft`,
`volume_factory.interpolate / least_square_fit / loft` — the linear-algebra core, statement by
statement.  `tol` is `state.knot_tolerance`.

Linear solves (`np.linalg.solve`, `inv`, `scipy…spsolve`, `lstsq` on a full-column-rank matrix) are
modelled by `solveC`: the exact Gauss–Jordan `Mat.solve` followed by a *certificate check*
`A·X = B` in exact arithmetic.  `Mat.solve` itself is proved sound and complete
(Lemmas/SolveSound.lean), hence the check never fails: `solveC = Mat.solve` and `invC = Mat.inv` on
well-shaped input (`C14_solve_is_gauss_jordan`), and `solveC` succeeds whenever the matrix has a left
inverse (`Interp.solveC_complete`) — in particular for the collocation matrices covered by
Schoenberg–Whitney (`C14_interpolate_curve_greville`, `C14_interpolate_curve_nested`).
-/

namespace Splipy
namespace Interp

variable {K : Type} [Field K] [LinearOrder K] [FloorRing K]

/-- `M` has exactly `r` rows, each of width `c`. -/
def isShape (M : Mat K) (r c : ℕ) : Bool := M.size == r && M.all (fun row => row.size == c)

/-- Certified exact solve of `A X = B`. -/
def solveC (A B : Mat K) : PyM (Mat K) :=
  match Mat.solve A B with
  | .error e => .error e
  | .ok X => if X.size = A.ncols ∧ Mat.mul A X = B then .ok X else .error .linalg

/-- `np.linalg.inv(N)` (`LinAlgError` unless square and non-singular). -/
def invC (N : Mat K) : PyM (Mat K) :=
  if !isShape N N.size N.size then .error .linalg else solveC N (Mat.identity N.size)

/-- Collocation matrix `basis.evaluate(t, d)` (`from_right = True`). -/
def colloc (b : Basis K) (tol : K) (ts : List K) (d : ℕ) : Mat K := Obj.basisMat b tol ts d true

/-- `t if t is not None else basis.greville()`. -/
def paramsOrGreville (b : Basis K) : Option (List K) → PyM (List K)
  | some ts => .ok ts
  | none => (b.greville).map Array.toList

/-- A control-point matrix (`n` rows of `m` components) as the `n × m` control net of a curve. -/
def matTensor (c : Mat K) (n m : ℕ) : Tensor K :=
  { shape := [n, m], data := Array.ofFn (n := n * m) (fun idx => c.get (idx.val / m) (idx.val % m)) }

/-- `Curve(basis, cp)` — the object the curve factories return. -/
def curveOf (b : Basis K) (c : Mat K) : Obj K :=
  { bases := #[b], cps := matTensor c c.size c.ncols, rational := false }

/-- `curve_factory.interpolate(x, basis, t)`: `N = basis.evaluate(t)`, `spsolve(N, x)`.
    (`spsolve` raises `ValueError` for a non-square matrix or a right-hand side of other height.) -/
def interpolateCurve (b : Basis K) (tol : K) (t : Option (List K)) (x : Mat K) : PyM (Mat K) := do
  let ts ← paramsOrGreville b t
  let N := colloc b tol ts 0
  if N.size ≠ b.numFunctions ∨ x.size ≠ N.size then throw .value
  solveC N x

/-- `curve_factory.least_square_fit(x, basis, t)`: `np.linalg.lstsq(N, x)` for `N` of full column
    rank = the solution of the normal equations `NᵀN c = Nᵀx`. -/
def leastSquareCurve (b : Basis K) (tol : K) (ts : List K) (x : Mat K) : PyM (Mat K) := do
  let N := colloc b tol ts 0
  if x.size ≠ N.size then throw .linalg
  let Nt := Mat.transpose N
  solveC (Mat.mul Nt N) (Mat.mul Nt x)

/-- `np.allclose(a, b, rtol, atol)` on two rows. -/
def allclose (a c : Array K) (rtol atol : K) : Bool :=
  (List.range (max a.size c.size)).all (fun i => decide (|a.getD i 0 - c.getD i 0| ≤ atol + rtol * |c.getD i 0|))

/-- Python list indexing with a possibly negative index. -/
def pyIdx (len : ℕ) (i : Int) : PyM ℕ :=
  if 0 ≤ i ∧ i < len then .ok i.toNat
  else if i < 0 ∧ -(len : Int) ≤ i then .ok ((len : Int) + i).toNat
  else .error .index

def pyGet (l : List K) (i : Int) : PyM K := do
  let j ← pyIdx l.length i
  pure (l.getD j 0)

def pySet (l : List K) (i : Int) (v : K) : PyM (List K) := do
  let j ← pyIdx l.length i
  pure (l.set j v)

def pyDel (l : List K) (i : Int) : PyM (List K) := do
  let j ← pyIdx l.length i
  pure (l.eraseIdx j)

/-- `curve_factory.Boundary` values. -/
def bFREE : ℕ := 1
def bNATURAL : ℕ := 2
def bHERMITE : ℕ := 3
def bPERIODIC : ℕ := 4
def bTANGENT : ℕ := 5
def bTANGENTNATURAL : ℕ := 6

/-- Insertion into a sorted list / insertion sort: Python's `sorted` (structural recursion, so that
    the kernel can evaluate it). -/
def insertK (a : K) : List K → List K
  | [] => [a]
  | b :: l => if a ≤ b then a :: b :: l else b :: insertK a l

def sortK (l : List K) : List K := l.foldr insertK []

/-- A sequence of list assignments `l[i] = v`. -/
def pySetMany (l : List K) (as : List (Int × K)) : PyM (List K) :=
  as.foldlM (fun l iv => pySet l iv.1 iv.2) l

/-- The knot vector `cubic_curve` builds for `boundary` from the (final) parameters `t`.
    (`PERIODIC`: the six reads `t[-4] … t[3]` are hoisted before the six writes; every read raises
    `IndexError` exactly when `len(t) < 4`, the writes never fail, so the behaviour is unchanged.) -/
def cubicKnots (boundary : ℕ) (t : List K) : PyM (List K) := do
  let t0 ← pyGet t 0
  let tn ← pyGet t (-1)
  let knot := List.replicate 3 t0 ++ t ++ List.replicate 3 tn
  if boundary = bFREE then do
    let k1 ← pyDel knot (-5)
    pyDel k1 4
  else if boundary = bHERMITE then
    pure (sortK (knot ++ (t.drop 1).dropLast))
  else if boundary = bPERIODIC then do
    let a4 ← pyGet t (-4)
    let a3 ← pyGet t (-3)
    let a2 ← pyGet t (-2)
    let b1 ← pyGet t 1
    let b2 ← pyGet t 2
    let b3 ← pyGet t 3
    pySetMany knot [(0, t0 + a4 - tn), (1, t0 + a3 - tn), (2, t0 + a2 - tn),
                    (-3, tn + b1 - t0), (-2, tn + b2 - t0), (-1, tn + b3 - t0)]
  else pure knot

/-- The closure step of `cubic_curve`: a periodic input that is not closed gets its first point appended. -/
def cubicClose (boundary : ℕ) (cpRtol cpAtol : K) (x : Mat K) : Mat K :=
  if boundary = bPERIODIC ∧ !(allclose (x.getD 0 #[]) (x.getD (x.size - 1) #[]) cpRtol cpAtol)
  then x.push (x.getD 0 #[]) else x

/-- The extra rows `cubic_curve` stacks under the interpolation rows, with their right-hand sides:
    first the derivative rows (`basis(…, d=1)` against `tangents`), then the second-derivative rows
    (`basis(…, d=2)` against zeros).  `np.vstack([x, None])` / mismatching widths: `ValueError`. -/
def cubicExtra (boundary : ℕ) (basis : Basis K) (tol : K) (t : List K) (dim : ℕ) (tangents : Option (Mat K)) :
    PyM (Mat K × Mat K) := do
  let t0 := t.headD 0
  let tn := t.getLastD 0
  -- derivative boundary conditions
  let (N, x) ←
    if boundary = bTANGENT ∨ boundary = bHERMITE ∨ boundary = bTANGENTNATURAL then do
      let dn := if boundary = bTANGENT then colloc basis tol [t0, tn] 1
                else if boundary = bTANGENTNATURAL then colloc basis tol [t0] 1
                else colloc basis tol t 1
      match tangents with
      | none => throw .value          -- np.vstack([x, None])
      | some tg =>
        if tg.any (fun row => row.size ≠ dim) then throw .value
        pure (dn, tg)
    else pure ((#[] : Mat K), (#[] : Mat K))
  -- double derivative boundary conditions
  if boundary = bNATURAL then
    pure (N ++ colloc basis tol [t0, tn] 2, x ++ Array.replicate 2 (Array.replicate dim 0))
  else if boundary = bTANGENTNATURAL then
    pure (N ++ colloc basis tol [tn] 2, x ++ Array.replicate 1 (Array.replicate dim 0))
  else pure (N, x)

/-- The system `cubic_curve` assembles: (basis, left-hand matrix `N`, right-hand side `x`).
    `x` : the points; `t` : the parameters AFTER the periodic closure step (the chord lengths are
    floating-point square roots and are supplied by the caller); `tangents` : `none` = `None`. -/
def cubicSystem (boundary : ℕ) (tol cpRtol cpAtol : K) (x : Mat K) (t : List K) (tangents : Option (Mat K)) :
    PyM (Basis K × Mat K × Mat K) := do
  -- if periodic input is not closed, make sure we do it now
  let x := cubicClose boundary cpRtol cpAtol x
  if t.length ≠ x.size then throw .value
  let knot ← cubicKnots boundary t
  let basis ← Basis.mk? 4 knot.toArray (if boundary = bPERIODIC then 2 else -1) tol
  -- do not duplicate the interpolation at the seam
  let t := if boundary = bPERIODIC then t.dropLast else t
  let x := if boundary = bPERIODIC then x.pop else x
  let dim := (x.getD 0 #[]).size
  let (eN, eR) ← cubicExtra boundary basis tol t dim tangents
  pure (basis, colloc basis tol t 0 ++ eN, x ++ eR)

/-- `curve_factory.cubic_curve(x, boundary, t, tangents)` → (basis, control points). -/
def cubicCurve (boundary : ℕ) (tol cpRtol cpAtol : K) (x : Mat K) (t : List K) (tangents : Option (Mat K)) :
    PyM (Basis K × Mat K) := do
  let (basis, N, rhs) ← cubicSystem boundary tol cpRtol cpAtol x t tangents
  if N.size ≠ basis.numFunctions ∨ rhs.size ≠ N.size then throw .value   -- spsolve: matrix must be square
  let cp ← solveC N rhs
  pure (basis, cp)

/-- Running sums `t = [start]; for d in ds: t.append(t[-1] + d)` (chord-length parameters, centre
distances of loft sections). -/
def cumsum (start : K) (ds : List K) : List K :=
  ds.foldl (fun acc d => acc ++ [acc.getLastD start + d]) [start]

/-- The parameter logic at the top of `cubic_curve`: a periodic input that is not closed gets its
first point appended, a given `t` is extended by the closing chord, and a missing `t` is the
chord-length parametrisation.  The Euclidean norms are floating-point square roots and are supplied by
the caller: `chords[i] = ‖x[i+1] − x[i]‖` for the INPUT points, `closing = ‖x[0] − x[-1]‖`; the
cumulative sums and the closing parameter are computed here. -/
def cubicParams (boundary : ℕ) (cpRtol cpAtol : K) (x : Mat K) (t : Option (List K)) (chords : List K)
    (closing : K) : List K :=
  let appended : Bool := boundary = bPERIODIC ∧ !(allclose (x.getD 0 #[]) (x.getD (x.size - 1) #[]) cpRtol cpAtol)
  match t with
  | some t => if appended then t ++ [t.getLastD 0 + closing] else t
  | none => cumsum 0 (if appended then chords ++ [closing] else chords)

/-- `curve_factory.cubic_curve(x, boundary, t, tangents)` including its parameter logic. -/
def cubicCurveFull (boundary : ℕ) (tol cpRtol cpAtol : K) (x : Mat K) (t : Option (List K))
    (chords : List K) (closing : K) (tangents : Option (Mat K)) : PyM (Basis K × Mat K) :=
  cubicCurve boundary tol cpRtol cpAtol x (cubicParams boundary cpRtol cpAtol x t chords closing) tangents

/-- `list(range(n+1)) * (p-1) + [0, n]` — the knot values of `bezier` before `knot.sort()`. -/
def bezierKnotList (p n : ℕ) : List K :=
  ((List.range (p - 1)).flatMap (fun _ => (List.range (n + 1)).map (fun (i : ℕ) => (i : K)))) ++ [0, (n : K)]

/-- `[x0 + x1 for (x0, x1) in zip(prev, row)]`. -/
def rowAdd (prev row : Array K) : Array K :=
  Array.ofFn (n := min prev.size row.size) (fun i => prev.getD i.val 0 + row.getD i.val 0)

/-- `curve_factory.bezier(pts, quadratic, relative)`. -/
def bezier (tol : K) (pts : Mat K) (quadratic relative : Bool) : PyM (Basis K × Mat K) := do
  let p := if quadratic then 3 else 4
  let n := (pts.size - 1) / (p - 1)
  let knot : List K := sortK (bezierKnotList p n)
  let pts := if relative then
      (pts.toList.drop 1).foldl (fun (acc : Mat K) row => acc.push (rowAdd (acc.getD (acc.size - 1) #[]) row))
        (pts.extract 0 1)
    else pts
  let b ← Basis.mk? p knot.toArray (-1) tol
  if pts.size ≠ b.numFunctions then throw .value
  pure (b, pts)

/-- `Curve.rebuild(p, n)` → (basis, control points). -/
def rebuild (o : Obj K) (tol : K) (p n : ℕ) : PyM (Basis K × Mat K) := do
  let knot : List K := List.replicate p 0 ++ (List.range' 1 (n - p)).map (fun (i : ℕ) => (i : K))
                        ++ List.replicate p (((n : Int) - p + 1 : Int) : K)
  let b ← Basis.mk? p knot.toArray (-1) tol
  -- normalize(); *= (t1 - t0); += t0
  let k1 := b.knots.map (fun x => x - b.start)
  let b1 : Basis K := { b with knots := k1 }
  let e := b1.stop
  if e = 0 then throw .zeroDiv
  let k2 := k1.map (fun x => x / e)
  let t0 := (o.basis 0).start
  let t1 := (o.basis 0).stop
  let b2 : Basis K := { b with knots := k2.map (fun x => x * (t1 - t0) + t0) }
  let t ← b2.greville
  let N := colloc b2 tol t.toList 0
  let xs ← o.evaluate tol [t.toList] true
  let dim := xs.shape.getLastD 1
  let rhs : Mat K := Array.ofFn (n := t.size) (fun i => xs.data.extract (i.val * dim) (i.val * dim + dim))
  if N.size ≠ b2.numFunctions then throw .value
  let cp ← solveC N rhs
  pure (b2, cp)

/-! ## `Curve.error` -/

/-- `Curve.error(target)` with the target given as another curve: per knot span the Gauss–Legendre
    quadrature of `|x_h − x|²` (`nodes`/`weights` = `leggauss(order+1)`, supplied by the caller) and the
    RUNNING MAXIMUM over all spans of the pointwise error.  Returns `(err2, err_inf²)` — the square
    of the max-norm error, because `sqrt` is not a field operation (it is monotone, so
    `max √e = √ max e`). -/
def curveError (o target : Obj K) (tol : K) (nodes weights : List K) : PyM (List K × K) := do
  let knots := ((o.basis 0).knotSpans tol false).toList
  let spans := List.zip knots.dropLast (knots.drop 1)
  let step (acc : List K × K) (span : K × K) : PyM (List K × K) := do
    let (t0, t1) := span
    let tg := nodes.map (fun x => (x + 1) / 2 * (t1 - t0) + t0)
    let wg := weights.map (fun w => w / 2 * (t1 - t0))
    let a ← o.evaluate tol [tg] true
    let b ← target.evaluate tol [tg] true
    let dim := a.shape.getLastD 1
    let err : List K := (List.range tg.length).map (fun i =>
      (List.range dim).foldl (fun s c => s + (a.get (i * dim + c) - b.get (i * dim + c)) ^ 2) 0)
    let e2 := (List.zip err wg).foldl (fun s ew => s + ew.1 * ew.2) 0
    -- err_inf = max(np.max(np.sqrt(error)), err_inf)
    pure (acc.1 ++ [e2], err.foldl max acc.2)
  spans.foldlM step ([], 0)

/-! ## Tensor-product interpolation -/

/-- `np.moveaxis(t, axis, 0)`. -/
def moveFront (t : Tensor K) (axis : ℕ) : Tensor K :=
  let (o, n, inn) := Tensor.split3 t.shape axis
  { shape := n :: t.shape.eraseIdx axis,
    data := Array.ofFn (n := n * o * inn) (fun idx =>
      t.at3 axis ((idx.val / inn) % o) (idx.val / (inn * o)) (idx.val % inn)) }

/-- `np.tensordot(M, t, axes=(1, axis))`: contract `axis` of `t` with the columns of `M`; the new
    axis (the rows of `M`) comes FIRST, the remaining axes of `t` follow in order.
    `ValueError` when the contracted lengths differ. -/
def tensordot (M : Mat K) (t : Tensor K) (axis : ℕ) : PyM (Tensor K) :=
  if M.any (fun row => row.size ≠ t.shape.getD axis 0) ∨ t.shape.length ≤ axis then .error .value
  else .ok (moveFront (Tensor.applyAxis M t axis) axis)

/-- `x.reshape(shape)` (C order): `ValueError` when the sizes differ. -/
def reshape (t : Tensor K) (shape : List ℕ) : PyM (Tensor K) :=
  if Tensor.prod shape ≠ Tensor.prod t.shape then .error .value else .ok { t with shape := shape }

/-- The `cp.transpose(pd-1,…,0,pd).reshape((prod, dim))` of the factories followed by the
    constructor's `reshape(cps, shape, order='F')` (= reshape to the reversed shape, transpose back). -/
def throughConstructor (cp : Tensor K) (pd : ℕ) : PyM (Tensor K) := do
  let dim := cp.shape.getLastD 1
  let ns := cp.shape.take pd
  let flat ← reshape (cp.swapAxes 0 (pd - 1)) [Tensor.prod ns, dim]
  let back ← reshape flat (ns.reverse ++ [dim])
  pure (back.swapAxes 0 (pd - 1))

/-- Apply `tensordot(M_k, ·, axes=(1, pd-1))` for the matrices in the given order. -/
def chain (Ms : List (Mat K)) (cp : Tensor K) (pd : ℕ) : PyM (Tensor K) :=
  Ms.foldlM (fun cp M => tensordot M cp (pd - 1)) cp

/-- Prologue of surface/volume `interpolate`:
    `if len(x.shape) == 2: x = x.reshape(shape + [dim])`. -/
def gridInput (bases : List (Basis K)) (x : Tensor K) : PyM (Tensor K) :=
  let dim := x.shape.getLastD 1
  if x.shape.length = 2 then reshape x (bases.map Basis.numFunctions ++ [dim]) else .ok x

/-- `u if u is not None else [b.greville() for b in bases]`. -/
def gridParams (bases : List (Basis K)) : Option (List (List K)) → PyM (List (List K))
  | some us => .ok us
  | none => bases.mapM (fun b => (b.greville).map Array.toList)

/-- The loop of `surface_factory.interpolate` / `volume_factory.interpolate`
    (`pd = len(bases)`), result in the layout `n_1 × … × n_pd × dim`. -/
def interpolateGridCore (bases : List (Basis K)) (tol : K) (u : Option (List (List K))) (x : Tensor K) :
    PyM (Tensor K) := do
  let pd := bases.length
  let x ← gridInput bases x
  let us ← gridParams bases u
  let Nall := ((List.zip bases us).map (fun (b, t) => colloc b tol t 0)).reverse
  let invs ← Nall.mapM invC
  chain invs x pd

/-- `surface_factory.interpolate` / `volume_factory.interpolate`: control net of the result. -/
def interpolateGrid (bases : List (Basis K)) (tol : K) (u : Option (List (List K))) (x : Tensor K) :
    PyM (Tensor K) := do
  let cp ← interpolateGridCore bases tol u x
  throughConstructor cp bases.length

/-- Prologue of surface/volume `least_square_fit`:
    `if len(x.shape) == 2: x = x.reshape([len(t) for t in u] + [dim])`. -/
def gridInputLsq (us : List (List K)) (x : Tensor K) : PyM (Tensor K) :=
  if x.shape.length = 2 then reshape x (us.map List.length ++ [x.shape.getLastD 1]) else .ok x

/-- `Surface(b_u, b_v, cp)` / `Volume(b_u, b_v, b_w, cp)` — the object the grid factories return
(control net already in the `n_1 × … × n_pd × dim` layout of the constructor). -/
def gridOf (bases : List (Basis K)) (cp : Tensor K) : Obj K :=
  { bases := bases.toArray, cps := cp, rational := false }

/-- The two loops of `least_square_fit` (surface / volume). -/
def leastSquareGridCore (bases : List (Basis K)) (tol : K) (us : List (List K)) (x : Tensor K) :
    PyM (Tensor K) := do
  let pd := bases.length
  let x ← gridInputLsq us x
  let Nall := ((List.zip bases us).map (fun (b, t) => colloc b tol t 0)).reverse
  let cp ← chain (Nall.map Mat.transpose) x pd
  let invs ← Nall.mapM (fun N => invC (Mat.mul (Mat.transpose N) N))
  chain invs cp pd

def leastSquareGrid (bases : List (Basis K)) (tol : K) (us : List (List K)) (x : Tensor K) :
    PyM (Tensor K) := do
  let cp ← leastSquareGridCore bases tol us x
  throughConstructor cp bases.length

/-! ## Lofting (after `make_splines_identical`) -/

/-- `x[..., i, ...] = sections[i]` along a new axis at position `axis`. -/
def stackAxis (secs : List (Tensor K)) (axis : ℕ) : Tensor K :=
  let sh := (secs.headD default).shape
  let o := Tensor.prod (sh.take axis)
  let inn := Tensor.prod (sh.drop axis)
  let n := secs.length
  { shape := sh.take axis ++ [n] ++ sh.drop axis,
    data := Array.ofFn (n := o * n * inn) (fun idx =>
      let i := idx.val % inn
      let r := (idx.val / inn) % n
      let a := idx.val / (inn * n)
      (secs.getD r default).get (a * inn + i)) }

/-- The basis and interpolation parameters of the lofting direction for `n ≥ 3` sections
    (`dist` = cumulated centre distances, supplied by the caller for `n ≥ 4`). -/
def loftBasis (tol : K) (n : ℕ) (dist : List K) : PyM (Basis K × List K) := do
  if n = 3 then
    let b ← Basis.mk? 3 #[0, 0, 0, 1, 1, 1] (-1) tol
    let g ← b.greville
    pure (b, g.toList)
  else
    let d0 := dist.headD 0
    let dn := dist.getLastD 0
    let knot := List.replicate 4 d0 ++ ((dist.drop 2).take (dist.length - 4)) ++ List.replicate 4 dn
    let b ← Basis.mk? 4 knot.toArray (-1) tol
    pure (b, dist)

/-- `surface_factory.loft` / `volume_factory.loft` for `n ≥ 3` sections that are already identical
    (bases `bases`, control nets `secs` of shape `m_1 × … × m_k × ncomp`):
    returns the lofting basis and the control net `m_1 × … × m_k × n × ncomp`. -/
def loft (bases : List (Basis K)) (tol : K) (secs : List (Tensor K)) (dist : List K) :
    PyM (Basis K × Tensor K) := do
  let k := bases.length
  let n := secs.length
  let (bL, v) ← loftBasis tol n dist
  let us ← bases.mapM (fun b => (b.greville).map Array.toList)
  let Ns := (List.zip bases us).map (fun (b, t) => colloc b tol t 0)
  let NL := colloc bL tol v 0
  let Nall := Ns ++ [NL]
  let invs ← Nall.reverse.mapM invC
  -- interpolation points in physical space: x[.., i, :] = Π N_k · cps_i
  let pts ← secs.mapM (fun s => chain Ns.reverse s k)
  let x := stackAxis pts k
  let cp ← chain invs x (k + 1)
  let cp ← throughConstructor cp (k + 1)
  pure (bL, cp)

/-- `loft` including the cumulation of the centre distances: `dist = [0]; dist.append(dist[-1] + ‖c_{i+1} − c_i‖)`
(the norms `cdists` of consecutive section centres are supplied by the caller). -/
def loftFull (bases : List (Basis K)) (tol : K) (secs : List (Tensor K)) (cdists : List K) :
    PyM (Basis K × Tensor K) :=
  loft bases tol secs (cumsum 0 cdists)

end Interp
end Splipy
