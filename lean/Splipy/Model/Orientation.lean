import Mathlib.Data.List.Basic
import Mathlib.Data.List.Perm.Basic
import Splipy.Model.Basis

/-!
# Executable model of `splipy.splinemodel.Orientation` and the section helpers of `splipy.utils`

Tuple code (`__mul__`, `map_section`, `view_section`, `ifem_format`, `sections`, …) is mirrored
statement by statement on lists.  `numpy` primitives (`transpose`, slicing with `::-1`, fancy
section indexing) are modelled on n-d arrays stored as `shape + flat C-order data` through the
index maps `mapIndex`/`sectionIndex`.

Control nets are arrays of *points* (`List ℚ`, the last axis of `controlpoints`), so the model
array has exactly `pardim` axes, as the arrays handed to `Orientation.map_array` in the code.

`np.allclose` on control nets is modelled by exact equality over `ℚ` (the correspondence run
feeds the model the unperturbed nets); `BSplineBasis.matches` by exact equality of the
normalised knot vectors.
-/

namespace Splipy.MP

/-! ## itertools -/

/-- every element of the list together with the remaining elements (in order). -/
def picks {α : Type} : List α → List (α × List α)
  | [] => []
  | x :: xs => (x, xs) :: (picks xs).map (fun p => (p.1, x :: p.2))

def permsAux {α : Type} : ℕ → List α → List (List α)
  | 0, _ => [[]]
  | n + 1, l => (picks l).flatMap (fun p => (permsAux n p.2).map (p.1 :: ·))

/-- `itertools.permutations(l)` in itertools order (lexicographic in the positions). -/
def pyPermutations {α : Type} (l : List α) : List (List α) := permsAux l.length l

/-- `itertools.product([False, True], repeat=n)` (first component varies slowest). -/
def boolProduct : ℕ → List (List Bool)
  | 0 => [[]]
  | n + 1 => [false, true].flatMap (fun b => (boolProduct n).map (b :: ·))

/-- `itertools.combinations(l, r)`. -/
def combinations {α : Type} : List α → ℕ → List (List α)
  | _, 0 => [[]]
  | [], _ + 1 => []
  | x :: xs, r + 1 => (combinations xs r).map (x :: ·) ++ combinations xs (r + 1)

/-- insertion sort on naturals (`sorted(...)` of a short tuple of ints). -/
def insertNat (x : ℕ) : List ℕ → List ℕ
  | [] => [x]
  | y :: ys => if x ≤ y then x :: y :: ys else y :: insertNat x ys

def sortNat : List ℕ → List ℕ
  | [] => []
  | x :: xs => insertNat x (sortNat xs)

/-! ## sections (`splipy.utils`) -/

/-- One entry of a section tuple: `some false` is the index `0`, `some true` is `-1`,
    `none` is `None` (a variable direction). -/
abbrev SecEntry := Option Bool
abbrev Sec := List SecEntry

/-- `for f, i in zip(fixed, indices[::-1]): args[f] = i`. -/
def assignSec (args : Sec) : List (ℕ × Bool) → Sec
  | [] => args
  | (f, i) :: rest => assignSec (args.set f (some i)) rest

/-- `sections(src_dim, tgt_dim)` as a list (generation order of the generator). -/
def sections (src tgt : ℕ) : List Sec :=
  let nfixed := src - tgt
  (combinations (List.range src) nfixed).flatMap fun fixed =>
    (boolProduct nfixed).map fun indices =>
      assignSec (List.replicate src none) (fixed.zip indices.reverse)

/-- `section_from_index(src, tgt, i)` (`None` when `i` is out of range). -/
def sectionFromIndex (src tgt i : ℕ) : Option Sec := (sections src tgt)[i]?

def secTgtDim (s : Sec) : ℕ := (s.filter (· == none)).length

/-- `section_to_index(section)` (`None` when the section is not generated). -/
def sectionToIndex (s : Sec) : Option ℕ := (sections s.length (secTgtDim s)).idxOf? s

/-- `check_section(*args, pardim=…)` for positional arguments: pad with `None`. -/
def checkSection (args : Sec) (pardim : ℕ) : Sec :=
  args ++ List.replicate (pardim - args.length) none

/-! ## n-d arrays: shape + flat C-order data -/

structure NdArr (α : Type) where
  shape : List ℕ
  data : Array α
  deriving DecidableEq, Repr, Inhabited

def shapeSize : List ℕ → ℕ
  | [] => 1
  | n :: ns => n * shapeSize ns

/-- C-order flat offset of a multi-index. -/
def ravel : List ℕ → List ℕ → ℕ
  | _ :: ns, i :: is => i * shapeSize ns + ravel ns is
  | _, _ => 0

/-- multi-index of a C-order flat offset. -/
def unravel : List ℕ → ℕ → List ℕ
  | [], _ => []
  | _ :: ns, k => (k / shapeSize ns) :: unravel ns (k % shapeSize ns)

namespace NdArr
variable {α : Type}

def get [Inhabited α] (a : NdArr α) (idx : List ℕ) : α := a.data.getD (ravel a.shape idx) default

def ofFn (shape : List ℕ) (f : List ℕ → α) : NdArr α :=
  ⟨shape, Array.ofFn (n := shapeSize shape) (fun k => f (unravel shape k.val))⟩

def map {β : Type} (f : α → β) (a : NdArr α) : NdArr β := ⟨a.shape, a.data.map f⟩

end NdArr

/-! ## Re-indexings (`transpose`, `[::-1]`, fixing an index to `0` / `-1`)

The numpy primitives used by `map_array` and `section` only permute axes, reverse axes and fix
axes at their first/last index.  Such a view is described by `Reindex`: the result axis `d` has
the length of the source axis `axes[d]`, and the source axis `e` is read at the index expression
`idx[e]` of the result multi-index. -/

/-- index expression for one source axis, in terms of the result multi-index `i`:
    `0`, `n-1`, `i[d]`, `n-1-i[d]` (`n` = length of that source axis). -/
inductive IdxE where
  | zero | last | var (d : ℕ) | rev (d : ℕ)
  deriving DecidableEq, Repr, Inhabited

namespace IdxE

def eval (n : ℕ) (i : List ℕ) : IdxE → ℕ
  | zero => 0
  | last => n - 1
  | var d => i.getD d 0
  | rev d => n - 1 - i.getD d 0

/-- the expression read backwards (`[::-1]`) -/
def flip : IdxE → IdxE
  | zero => last
  | last => zero
  | var d => rev d
  | rev d => var d

/-- substitute the expressions `m` for the variables -/
def subst (m : List IdxE) : IdxE → IdxE
  | zero => zero
  | last => last
  | var d => m.getD d zero
  | rev d => (m.getD d zero).flip

def mentions : IdxE → Option ℕ
  | var d => some d
  | rev d => some d
  | _ => none

end IdxE

structure Reindex where
  axes : List ℕ
  idx : List IdxE
  deriving DecidableEq, Repr, Inhabited

namespace Reindex

/-- shape of the view of an array of shape `s` -/
def shape (r : Reindex) (s : List ℕ) : List ℕ := r.axes.map (fun e => s.getD e 0)

/-- source multi-index of the entry `i` of the view -/
def index (r : Reindex) (s : List ℕ) (i : List ℕ) : List ℕ :=
  List.zipWith (fun n e => e.eval n i) s r.idx

def apply {α : Type} [Inhabited α] (r : Reindex) (a : NdArr α) : NdArr α :=
  NdArr.ofFn (r.shape a.shape) (fun i => a.get (r.index a.shape i))

/-- `r2` applied to the view `r1`: `(r2.comp r1).apply a = r2.apply (r1.apply a)`. -/
def comp (r2 r1 : Reindex) : Reindex :=
  ⟨r2.axes.map (fun d => r1.axes.getD d 0), r1.idx.map (IdxE.subst r2.idx)⟩

/-- a view of arrays with `rank` axes: one expression per source axis, every result axis takes
    its length from a source axis, and a source axis read through the result axis `d` is the
    one that gives `d` its length. -/
def Consistent (r : Reindex) (rank : ℕ) : Bool :=
  r.idx.length == rank && r.axes.all (· < rank) &&
  (List.range rank).all fun e =>
    match (r.idx.getD e .zero).mentions with
    | some d => decide (d < r.axes.length) && r.axes.getD d 0 == e
    | none => true

end Reindex

/-- `k ↦ n-1-k` when the direction is reversed (`[::-1]`). -/
def flipIdx (n : ℕ) (f : Bool) (k : ℕ) : ℕ := if f then n - 1 - k else k

/-! ## Orientation -/

structure Orientation where
  perm : List ℕ
  flip : List Bool
  deriving DecidableEq, Repr, Inhabited

namespace Orientation

def pardim (o : Orientation) : ℕ := o.perm.length

/-- `perm_inv = tuple(perm.index(d) for d in range(len(perm)))`. -/
def permInv (o : Orientation) : List ℕ := (List.range o.pardim).map (fun d => o.perm.idxOf d)

/-- the identity orientation returned by `Orientation.compute(cpa)`. -/
def identity (n : ℕ) : Orientation := ⟨List.range n, List.replicate n false⟩

/-- `Orientation.__mul__`. -/
def mul (a b : Orientation) : Orientation :=
  ⟨(List.range a.pardim).map (fun d => b.perm.getD (a.perm.getD d 0) 0),
   (List.range a.pardim).map (fun d => xor (a.flip.getD d false) (b.flip.getD (a.perm.getD d 0) false))⟩

instance : Mul Orientation := ⟨mul⟩

/-- the inverse orientation (not in the code; used for the group theorem). -/
def inv (a : Orientation) : Orientation :=
  ⟨a.permInv, (List.range a.pardim).map (fun e => a.flip.getD (a.perm.idxOf e) false)⟩

/-- well-formed orientation of parametric dimension `n`. -/
def WF (o : Orientation) (n : ℕ) : Prop := o.perm.Perm (List.range n) ∧ o.flip.length = n

instance (o : Orientation) (n : ℕ) : Decidable (o.WF n) := by unfold WF; infer_instance

/-- `array.transpose(*perm)[flips]` as a view: source axis `e = perm[d]` is read at the result
    index `i[d]`, backwards when `flip[d]`. -/
def toReindex (o : Orientation) : Reindex :=
  ⟨o.perm, (List.range o.pardim).map fun e =>
      let d := o.perm.idxOf e
      if o.flip.getD d false then .rev d else .var d⟩

/-- shape of `array.transpose(*perm)`. -/
def mapShape (o : Orientation) (s : List ℕ) : List ℕ := o.toReindex.shape s

/-- Source multi-index (in the array handed to `map_array`) of the entry at multi-index `i`
    of the result:  `array.transpose(*perm)[flips][i] = array[mapIndex i]`. -/
def mapIndex (o : Orientation) (s : List ℕ) (i : List ℕ) : List ℕ := o.toReindex.index s i

/-- `Orientation.map_array`. -/
def mapArray {α : Type} [Inhabited α] (o : Orientation) (a : NdArr α) : NdArr α :=
  o.toReindex.apply a

/-- `Orientation.map_section`. -/
def mapSection (o : Orientation) (s : Sec) : Sec :=
  List.zipWith (fun (e : SecEntry) (f : Bool) => if f then e.map (!·) else e)
    (o.perm.map (fun d => s.getD d none)) o.flip

/-- positions of the variable directions of a section. -/
def variableDirs (s : Sec) : List ℕ := (List.range s.length).filter (fun i => s.getD i none == none)

/-- `Orientation.view_section`. -/
def viewSection (o : Orientation) (s : Sec) : Orientation :=
  let variableDirs := variableDirs s
  let actualDirs := sortNat (variableDirs.map (fun d => o.permInv.getD d 0))
  ⟨actualDirs.map (fun d => variableDirs.idxOf (o.perm.getD d 0)),
   actualDirs.map (fun d => o.flip.getD d false)⟩

/-- `Orientation.ifem_format` (`none` = `RuntimeError`). -/
def ifemFormat (o : Orientation) : Option ℕ :=
  match o.flip with
  | [] => some 0
  | [f] => some (if f then 1 else 0)
  | [_, _] =>
      let bits := (o.perm.reverse.zipIdx).foldl
        (fun ret (p : ℕ × ℕ) => if o.flip.getD p.1 false then ret ||| (1 <<< p.2) else ret) 0
      some (if o.perm = [1, 0] then bits ||| 4 else bits)
  | _ => none

/-- all orientations of parametric dimension `n` in the search order of `Orientation.compute`. -/
def all (n : ℕ) : List Orientation :=
  (pyPermutations (List.range n)).flatMap fun p => (boolProduct n).map fun f => ⟨p, f⟩

end Orientation

/-! ## Section of an array / object (`SplineObject.section`) -/

/-- index expressions of `array[slices]` (`k` = number of variable directions seen so far) -/
def sectionIdxE : Sec → ℕ → List IdxE
  | [], _ => []
  | none :: r, k => .var k :: sectionIdxE r (k + 1)
  | some false :: r, k => .zero :: sectionIdxE r k
  | some true :: r, k => .last :: sectionIdxE r k

/-- `array[slices]` as a view -/
def Sec.toReindex (sec : Sec) : Reindex := ⟨Orientation.variableDirs sec, sectionIdxE sec 0⟩

/-- shape of `array[slices]`. -/
def sectionShape (sec : Sec) (s : List ℕ) : List ℕ := (Sec.toReindex sec).shape s

/-- multi-index in the full array of the entry `j` of the section. -/
def sectionIndex (sec : Sec) (s : List ℕ) (j : List ℕ) : List ℕ := (Sec.toReindex sec).index s j

def NdArr.sect {α : Type} [Inhabited α] (a : NdArr α) (sec : Sec) : NdArr α :=
  (Sec.toReindex sec).apply a

/-- A `SplineObject` as far as the multipatch model looks at it: bases, control net
    (array of points incl. the weight when rational), rational flag. -/
structure Obj where
  bases : List (Basis ℚ)
  cps : NdArr (List ℚ)
  rational : Bool
  deriving Inhabited

namespace Obj

def pardim (o : Obj) : ℕ := o.bases.length
def shape (o : Obj) : List ℕ := o.cps.shape
/-- `controlpoints.shape[-1]`. -/
def ncomp (o : Obj) : ℕ := (o.cps.data.getD 0 []).length
/-- `dimension = controlpoints.shape[-1] - rational`. -/
def dimension (o : Obj) : ℕ := o.ncomp - (if o.rational then 1 else 0)

/-- `obj.section(*sec, unwrap_points=False)`: the bases of the variable directions
    (`[b for b, p in zip(self.bases, section) if p is None]`; `sec` has one entry per basis after
    `check_section`), the sliced control net. -/
def sect (o : Obj) (sec : Sec) : Obj :=
  { bases := (Orientation.variableDirs sec).map (fun d => o.bases.getD d default)
    cps := o.cps.sect sec
    rational := o.rational }

end Obj

/-! ## `BSplineBasis.matches` -/

/-- `BSplineBasis.matches(self, bspline, reverse)` with exact comparison of the normalised knots. -/
def basisMatches (a b : Basis ℚ) (reverse : Bool) : Bool :=
  if a.order ≠ b.order ∨ a.periodic ≠ b.periodic then false
  else
    let ka := a.knots.toList
    let kb := b.knots.toList
    let a0 := ka.headD 0
    let a1 := ka.getLastD 0
    let b0 := kb.headD 0
    let b1 := kb.getLastD 0
    let dt := a1 - a0
    let dt2 := b1 - b0
    let lhs := if reverse then ka.reverse.map (fun x => (a1 - x) / dt) else ka.map (fun x => (x - a0) / dt)
    let rhs := kb.map (fun x => (x - b0) / dt2)
    lhs == rhs

/-! ## `Orientation.compute` -/

/-- Errors raised by the modelled code. -/
inductive MErr where
  | orientation   -- `OrientationError`
  | twin          -- `TwinError`
  | key           -- `KeyError`
  | value         -- `ValueError`
  | runtime       -- `RuntimeError`
  | fuel          -- recursion budget exhausted: never on well-formed input
  deriving DecidableEq, Repr, Inhabited

def MErr.pyName : MErr → String
  | .orientation => "OrientationError" | .twin => "TwinError" | .key => "KeyError"
  | .value => "ValueError" | .runtime => "RuntimeError" | .fuel => "ModelFuel"

/-- append weight 1 (`np.concatenate((cps, np.ones(...)), axis=-1)`). -/
def promoteNet (c : NdArr (List ℚ)) : NdArr (List ℚ) := c.map (fun p => p ++ [1])

def lastD (p : List ℚ) : ℚ := p.getLastD 0

/-- `cps[..., -1] /= np.sum(cps[..., -1])`. -/
def normWeights (c : NdArr (List ℚ)) : NdArr (List ℚ) :=
  let s := c.data.foldl (fun acc p => acc + lastD p) 0
  c.map (fun p => p.dropLast ++ [lastD p / s])

/-- The two control nets as compared by `Orientation.compute` (after promotion of the
    non-rational one and removal of the weight-scaling degree of freedom). -/
def compareNets (a b : Obj) : NdArr (List ℚ) × NdArr (List ℚ) :=
  let ca := if b.rational && !a.rational then promoteNet a.cps else a.cps
  let cb := if a.rational && !b.rational then promoteNet b.cps else b.cps
  if a.rational || b.rational then (normWeights ca, normWeights cb) else (ca, cb)

/-- `all([cpa.bases[i].matches(cpb.bases[perm[i]], reverse=flip[i]) for i in range(pardim)])`. -/
def basesMatch (o : Orientation) (a b : Obj) : Bool :=
  (List.range a.pardim).all fun i =>
    basisMatches (a.bases.getD i default) (b.bases.getD (o.perm.getD i 0) default) (o.flip.getD i false)

/-- the test of one candidate orientation inside the double loop (`na`, `nb` are the two nets
    of `compareNets`). -/
def orientationFits (na nb : NdArr (List ℚ)) (a b : Obj) (o : Orientation) : Bool :=
  decide (o.mapShape nb.shape = na.shape) && decide (o.mapArray nb = na) && basesMatch o a b

/-- `Counter(cpa.shape) != Counter(cpb.shape)`. -/
def sameShapeCounter (a b : Obj) : Bool := decide (a.shape.Perm b.shape)

/-- `Orientation.compute(cpa, cpb)`. -/
def Orientation.compute (a b : Obj) : Except MErr Orientation :=
  if a.pardim ≠ b.pardim then .error .orientation
  else if a.dimension ≠ b.dimension then .error .orientation
  else if !sameShapeCounter a b then .error .orientation
  else
    let nets := compareNets a b
    match (Orientation.all a.pardim).find? (orientationFits nets.1 nets.2 a b) with
    | some o => .ok o
    | none => .error .orientation

end Splipy.MP
