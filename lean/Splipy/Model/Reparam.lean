import Splipy.Model.Object

/-!
# Executable model of the re-parametrising methods of `SplineObject` with their calling conventions

`splipy/utils/__init__.py: check_direction`, `splipy/splineobject.py: reverse, swap, reparam`
(the per-direction workers `Basis.reverse`, `Basis.reparam`, `Obj.reverse`, `Obj.swap` are in
`Model/BasisOps.lean`, `Model/Object.lean`).

All three methods work *in place*; a call that raises may leave the receiver partially modified
(`reparam((0,2),(3,1))` has already re-parametrised direction 0 when direction 1 raises).  A step of
the model therefore returns the new state of the receiver, the exception (if any) and whether the
Python method returned the receiver (`return self`).

`Obj.reverseSpec` is what the *property* requires of `reverse` (control net re-indexed by
`j ↦ (n + k - j) mod n`: flip, and roll by `k+1` on a periodic direction); `Obj.reverse`
(Model/Object.lean) is what the code does (flip, then `np.roll` by `k+1` on a periodic direction) —
the two are equal (`C06.reverse_eq_reverseSpec`).  `Obj.reverseFlipOnly` is the shape of the code
before the fix 4fe14f6 (flip only), kept for the refutation theorem.
-/

namespace Splipy

/-- A direction argument as the caller spells it: an `int` or a `str`. -/
inductive DirTok where
  | int (i : Int)
  | str (s : String)
  deriving DecidableEq, Repr, Inhabited

/-- `utils.check_direction(direction, pardim)`:
    `direction in {0,'u','U'} and 0 < pardim → 0`, … , otherwise `ValueError`. -/
def checkDirection (d : DirTok) (pardim : ℕ) : PyM ℕ :=
  if (d = .int 0 ∨ d = .str "u" ∨ d = .str "U") ∧ 0 < pardim then .ok 0
  else if (d = .int 1 ∨ d = .str "v" ∨ d = .str "V") ∧ 1 < pardim then .ok 1
  else if (d = .int 2 ∨ d = .str "w" ∨ d = .str "W") ∧ 2 < pardim then .ok 2
  else .error .value

/-- `check_direction` as a table (the shape the translator extracts from the Python AST): arms
    `if direction in {toks} and k < pardim: return r`, tried in order; no arm ⇒ `ValueError`. -/
def checkDirectionOf : List (List DirTok × ℕ × ℕ) → DirTok → ℕ → PyM ℕ
  | [], _, _ => .error .value
  | (toks, k, r) :: rest, d, pardim =>
    if toks.contains d ∧ k < pardim then .ok r else checkDirectionOf rest d pardim

variable {K : Type} [Field K] [LinearOrder K]

/-- Result of one in-place method call. -/
structure ReStep (K : Type) where
  obj : Obj K
  err : Option PyErr
  /-- the Python call returned the receiver (`return self`) -/
  returnsSelf : Bool
  deriving Inhabited

namespace Obj

/-- Python's `self.pardim` (`len(self.bases)`). -/
def pardimB (o : Obj K) : ℕ := o.bases.size

/-- What the property demands of `reverse(direction)`: reversed knot vector, control points flipped
    and, on a periodic direction with continuity `k`, rolled by `k+1`
    (`new[j] = old[(n + k - j) mod n]`). -/
def reverseSpec (o : Obj K) (dir : ℕ) : Obj K :=
  let b := o.basis dir
  let n := o.cps.shape.getD dir 1
  let k1 := (b.periodic + 1).toNat
  { o with bases := o.bases.set! dir b.reverse,
           cps := o.cps.reindexAxis dir n (fun j => (n + k1 - 1 - j) % n) }

/-- The pre-fix shape of `reverse` (before 4fe14f6): control points flipped only, no roll. -/
def reverseFlipOnly (o : Obj K) (dir : ℕ) : Obj K :=
  { o with bases := o.bases.set! dir (o.basis dir).reverse, cps := o.cps.flipAxis dir }

/-- `SplineObject.reverse(direction)` with the direction as spelled by the caller. -/
def reverseTok (o : Obj K) (d : DirTok) : ReStep K :=
  match checkDirection d o.pardimB with
  | .error e => { obj := o, err := some e, returnsSelf := false }
  | .ok dir => { obj := o.reverse dir, err := none, returnsSelf := true }

/-- `SplineObject.swap(dir1, dir2)`: "silently passes for curves" — `return self` before the
    direction arguments are validated. -/
def swapTok (o : Obj K) (d1 d2 : DirTok) : ReStep K :=
  if o.pardimB = 1 then { obj := o, err := none, returnsSelf := true } else
  match checkDirection d1 o.pardimB with
  | .error e => { obj := o, err := some e, returnsSelf := false }
  | .ok a =>
    match checkDirection d2 o.pardimB with
    | .error e => { obj := o, err := some e, returnsSelf := false }
    | .ok b => { obj := o.swap a b, err := none, returnsSelf := true }

/-- `start, end = arg; self.bases[dir].reparam(start, end)`; unpacking a sequence of length ≠ 2
    raises `ValueError`. -/
def reparamOne (o : Obj K) (dir : ℕ) (arg : List K) : PyM (Obj K) :=
  match arg with
  | [s, e] =>
    match (o.basis dir).reparam s e with
    | .ok b => .ok { o with bases := o.bases.set! dir b }
    | .error e => .error e
  | _ => .error .value

/-- The loop `for b, (start, end) in zip(self.bases, args): b.reparam(start, end)`; stops at the first
    exception, keeping what was done before. -/
def reparamLoop (o : Obj K) (dir : ℕ) : List (List K) → Obj K × Option PyErr
  | [] => (o, none)
  | arg :: rest =>
    if o.pardimB ≤ dir then (o, none) else
    match o.reparamOne dir arg with
    | .ok o' => reparamLoop o' (dir + 1) rest
    | .error e => (o, some e)

/-- `reparam(*args)` (no `direction` keyword): the arguments are padded with `(0, 1)`. -/
def reparamArgs (o : Obj K) (args : List (List K)) : ReStep K :=
  let padded := args ++ List.replicate (o.pardimB - args.length) [0, 1]
  let (o', e) := o.reparamLoop 0 padded
  { obj := o', err := e, returnsSelf := e.isNone }

/-- `reparam(*args, direction=d)`: only `args[0]` is looked at; no argument means `(0, 1)`. -/
def reparamDirTok (o : Obj K) (d : DirTok) (args : List (List K)) : ReStep K :=
  match checkDirection d o.pardimB with
  | .error e => { obj := o, err := some e, returnsSelf := false }
  | .ok dir =>
    let arg := match args with | [] => [0, 1] | a :: _ => a
    match o.reparamOne dir arg with
    | .ok o' => { obj := o', err := none, returnsSelf := true }
    | .error e => { obj := o, err := some e, returnsSelf := false }

end Obj

/-- One call of a history. -/
inductive ReOp (K : Type) where
  | reverse (d : DirTok)
  | swap (d1 d2 : DirTok)
  | reparam (args : List (List K))
  | reparamDir (d : DirTok) (args : List (List K))
  deriving Inhabited

def ReOp.apply (o : Obj K) : ReOp K → ReStep K
  | .reverse d => o.reverseTok d
  | .swap d1 d2 => o.swapTok d1 d2
  | .reparam args => o.reparamArgs args
  | .reparamDir d args => o.reparamDirTok d args

/-- Run a history on one receiver; the state after every call (also after a failed one). -/
def runReHistory : Obj K → List (ReOp K) → List (ReStep K)
  | _, [] => []
  | o, op :: rest =>
    let st := op.apply o
    st :: runReHistory st.obj rest

end Splipy
