import Splipy.Model.IOTokens
import Splipy.Model.IOMesh
import Splipy.Model.Split
import Splipy.Model.Order

/-!
# The object-level steps of the writers of `splipy/io`

* `G2.write`: the loop `for i in range(obj.pardim): if obj.periodic(i): obj = obj.split(obj.start(i), i)`
  in front of the token printer (`openSeams`, `g2WriteObj`), with `split` the model of property C07;
* `svg.bezier_representation`: `raise_order` to cubic (model of C05), opening of a periodic curve,
  knot insertion up to multiplicity 3 (model of C04), and the path `SVG.write_curve` prints.
-/

namespace Splipy.FileIO

variable {K : Type}

/-- Consecutive chunks of `n` elements (`reshape(-1, n)`). -/
def chunksOf {α : Type} (n : ℕ) : ℕ → List α → List (List α)
  | 0, _ => []
  | fuel + 1, xs => if xs.isEmpty then [] else xs.take n :: chunksOf n fuel (xs.drop n)

/-- The observable state of an object in the representation of the token printer. -/
def toFile (o : Splipy.Obj K) : Obj K :=
  let ncomp := o.cps.shape.getLastD 0
  { bases := o.bases.toList.map fun b => ⟨b.order, b.knots.toList, b.periodic⟩,
    shape := o.cps.shape.dropLast, ncomp := ncomp,
    cps := chunksOf ncomp o.cps.data.size o.cps.data.toList, rational := o.rational }

section
variable [Field K] [LinearOrder K] [FloorRing K]

/-- `obj = obj.split(obj.start(i), i)` for one direction (a periodic direction and a single split
    value: `split` returns the opened object itself). -/
def openSeam (tol : K) (o : Splipy.Obj K) (i : ℕ) : PyM (Splipy.Obj K) :=
  if (o.basis i).periodic > -1 then
    match o.split tol [(o.basis i).start] i with
    | .error e => .error e
    | .ok (.single o') => .ok o'
    | .ok (.many _) => .error .other        -- not reachable for a periodic direction
  else .ok o

/-- The loop over the directions `i, i+1, …` (`n` of them). -/
def openSeamsFrom (tol : K) : ℕ → ℕ → Splipy.Obj K → PyM (Splipy.Obj K)
  | 0, _, o => .ok o
  | n + 1, i, o =>
    match openSeam tol o i with
    | .error e => .error e
    | .ok o' => openSeamsFrom tol n (i + 1) o'

/-- `for i in range(obj.pardim): if obj.periodic(i): obj = obj.split(obj.start(i), i)` -/
def openSeams (tol : K) (o : Splipy.Obj K) : PyM (Splipy.Obj K) := openSeamsFrom tol o.pardim 0 o

/-- `G2.write(obj)` for one Curve/Surface/Volume, periodic or not. -/
def g2WriteObj (tol : K) (o : Splipy.Obj K) : PyM (List (Token K)) :=
  match openSeams tol o with
  | .error e => .error e
  | .ok o' => .ok (g2Write (toFile o'))

/-- The loop `for k in bezier.knots(0): bezier.insert_knot([k]*bezier.continuity(k))`
    (`[k]*np.inf` is a `TypeError`; a negative count gives the empty list). -/
def bezierInsert (tol : K) : List K → Splipy.Obj K → PyM (Splipy.Obj K)
  | [], o => .ok o
  | k :: ks, o =>
    match (o.basis 0).continuity tol k with
    | .error e => .error e
    | .ok none => .error .type
    | .ok (some c) =>
      match o.insertKnots (List.replicate c.toNat k) 0 with
      | .error e => .error e
      | .ok o' => bezierInsert tol ks o'

/-- `svg.bezier_representation(curve)`. -/
def bezierRepresentation (tol : K) (o : Splipy.Obj K) : PyM (Splipy.Obj K) :=
  if (o.basis 0).order > 4 ∨ o.rational then .error .runtime else
  match o.curveRaiseOrder tol (4 - ((o.basis 0).order : Int)) with
  | .error e => .error e
  | .ok (_, o1) =>
    match openSeam tol o1 0 with
    | .error e => .error e
    | .ok o2 => bezierInsert tol ((o2.basis 0).knotSpans tol false).toList o2

/-- The control points of a planar non-rational curve as pairs. -/
def planarPts (o : Splipy.Obj K) : List (K × K) :=
  (List.range (o.cps.size / 2)).map fun i => (o.cps.get (2 * i), o.cps.get (2 * i + 1))

/-- The numbers `SVG.write_curve` prints for one curve (`M x0,y0 C x1,y1 …`), before `%f`. -/
def svgPath (tol : K) (L : SvgLayout K) (o : Splipy.Obj K) : PyM (List (K × K)) :=
  match bezierRepresentation tol o with
  | .error e => .error e
  | .ok b => .ok ((planarPts b).map (svgWritePt L))

end

end Splipy.FileIO
