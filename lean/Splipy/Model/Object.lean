import Splipy.Model.BasisOps
import Splipy.Model.LinAlg
import Splipy.Model.RationalDeriv

/-!
# Executable model of `SplineObject` (`splipy/splineobject.py`), `Curve`, `Surface` overrides

`Obj` = list of bases + control net (`Tensor`, shape `n1 × … × nd × ncomp`) + `rational`.
Each method mirrors the Python method of the same name; in-place methods return the new object.
`tol` is `state.knot_tolerance`.
-/

namespace Splipy

variable {K : Type} [Field K] [LinearOrder K] [FloorRing K]

structure Obj (K : Type) where
  bases : Array (Basis K)
  cps : Tensor K
  rational : Bool
  deriving Inhabited

namespace Obj

def pardim (o : Obj K) : ℕ := o.cps.shape.length - 1
def ncomp (o : Obj K) : ℕ := o.cps.shape.getLastD 0
def dimension (o : Obj K) : ℕ := o.ncomp - (if o.rational then 1 else 0)
def basis (o : Obj K) (d : ℕ) : Basis K := o.bases.getD d default

/-- `_validate_domain`: snap every parameter, then range test for non-periodic directions.
    For a non-periodic direction the test is `min(p) < b.start() or b.end() < max(p)`; `min()` of an
    EMPTY parameter list raises `ValueError` as well (periodic directions accept the empty list). -/
def validateDomain (o : Obj K) (tol : K) (params : List (List K)) : PyM (List (List K)) :=
  let snapped := (List.zip o.bases.toList params).map (fun (b, ps) => (b, ps.map (snap b tol)))
  if snapped.any (fun (b, ps) => b.periodic < 0 ∧
      (ps.isEmpty ∨ ps.any (fun t => t < b.start ∨ b.stop < t))) then .error .value
  else .ok (snapped.map (·.2))

/-- Basis matrices `b.evaluate(p, d, from_right)` for a list of points (rows). -/
def basisMat (b : Basis K) (tol : K) (ps : List K) (d : ℕ) (fromRight : Bool) : Mat K :=
  (ps.map (fun t => b.evaluate tol t d fromRight)).toArray

/-- Module-level `evaluate(bases, cps, tensor=True)`: contract every parametric axis. -/
def contractGrid (Ns : List (Mat K)) (cps : Tensor K) : Tensor K :=
  (List.zip (List.range Ns.length) Ns).foldr (fun (ax, N) t => Tensor.applyAxis N t ax) cps

/-- `tensor=False`: the `einsum` form, one point per row index `i`. Result shape `m × ncomp`. -/
def contractPointwise (Ns : List (Mat K)) (cps : Tensor K) (m : ℕ) : Tensor K :=
  let nc := cps.shape.getLastD 1
  let rows : List (Array K) := (List.range m).map (fun i =>
    let rowMats : List (Mat K) := Ns.map (fun N => #[N.getD i #[]])
    (contractGrid rowMats cps).data)
  { shape := [m, nc], data := rows.foldl (· ++ ·) #[] }

/-- Divide out the weights (last component) and drop them. -/
def project (t : Tensor K) (dim : ℕ) : Tensor K :=
  t.mapLast dim (fun row => Array.ofFn (n := dim) (fun c => row.getD c.val 0 / row.getD dim 0))

/-- `SplineObject.evaluate(*params, tensor=…)`.  Result: tensor of shape `m1×…×md×dim`
    (or `m×dim` for `tensor=False`); the harness applies the `squeeze` reshaping on its side. -/
def evaluate (o : Obj K) (tol : K) (params : List (List K)) (tensor : Bool) : PyM (Tensor K) :=
  if !tensor ∧ (params.map List.length).eraseDups.length ≠ 1 then .error .value else
  match o.validateDomain tol params with
  | .error e => .error e
  | .ok ps =>
    let Ns := (List.zip o.bases.toList ps).map (fun (b, p) => basisMat b tol p 0 true)
    let res := if tensor then contractGrid Ns o.cps else contractPointwise Ns o.cps (ps.headD []).length
    .ok (if o.rational then project res o.dimension else res)

/-- `SplineObject.derivative` (generic path): per-direction derivative orders and sides.
    Rational objects: total order `> 1` raises; total order `0` is the projected point (from the
    requested sides); total order `1` is the quotient rule with `n`, `W` from the requested sides. -/
def derivativeGeneric (o : Obj K) (tol : K) (params : List (List K)) (derivs : List ℕ) (above : List Bool)
    (tensor : Bool) : PyM (Tensor K) :=
  if !tensor ∧ (params.map List.length).eraseDups.length ≠ 1 then .error .value else
  match o.validateDomain tol params with
  | .error e => .error e
  | .ok ps =>
    let mk (ds : List ℕ) (ab : List Bool) : Tensor K :=
      let Ns := (List.zip (List.zip o.bases.toList ps) (List.zip ds ab)).map
                  (fun ((b, p), (d, a)) => basisMat b tol p d a)
      if tensor then contractGrid Ns o.cps else contractPointwise Ns o.cps (ps.headD []).length
    let res := mk derivs above
    if o.rational then
      if derivs.sum > 1 then .error .runtime else
      if derivs.sum = 0 then
        -- zeroth derivative: `result[..., i] /= result[..., -1]`, weight column deleted
        .ok { shape := res.shape.dropLast ++ [o.dimension],
              data := Array.ofFn (n := res.size / o.ncomp * o.dimension) (fun idx =>
                let pI := idx.val / o.dimension
                let c := idx.val % o.dimension
                res.get (pI * o.ncomp + c) / res.get (pI * o.ncomp + o.dimension)) }
      else
      -- `Ns = [b.evaluate(p, 0, from_right) for b, p, from_right in zip(self.bases, params, above)]`
      let nond := mk (above.map (fun _ => 0)) above
      let dim := o.dimension
      let nc := o.ncomp
      let npts := res.size / nc
      .ok { shape := res.shape.dropLast ++ [dim],
            data := Array.ofFn (n := npts * dim) (fun idx =>
              let pI := idx.val / dim
              let c := idx.val % dim
              RatDeriv.first (nond.get (pI * nc + c)) (res.get (pI * nc + c))
                             (nond.get (pI * nc + dim)) (res.get (pI * nc + dim))) }
    else .ok res

/-- `Curve.derivative(t, d, above)` for a rational curve with `d ∈ {2,3}` (closed forms); every jet,
    the zeroth included, is taken from the side `above`. -/
def curveDerivativeRational (o : Obj K) (tol : K) (ts : List K) (d : ℕ) (above : Bool) : Tensor K :=
  let b := o.basis 0
  let dim := o.dimension
  let jet (k : ℕ) (fr : Bool) : Tensor K := Tensor.applyAxis (basisMat b tol ts k fr) o.cps 0
  let d0 := jet 0 above
  let d1 := jet 1 above
  let d2 := jet 2 above
  let d3 := jet 3 above
  let nc := o.ncomp
  { shape := [ts.length, dim],
    data := Array.ofFn (n := ts.length * dim) (fun idx =>
      let pI := idx.val / dim
      let c := idx.val % dim
      let g (t : Tensor K) (cc : ℕ) := t.get (pI * nc + cc)
      if d = 2 then RatDeriv.curveD2 (g d0 c) (g d1 c) (g d2 c) (g d0 dim) (g d1 dim) (g d2 dim)
      else RatDeriv.curveD3 (g d0 c) (g d1 c) (g d2 c) (g d3 c) (g d0 dim) (g d1 dim) (g d2 dim) (g d3 dim)) }

/-- `Surface.derivative(u, v, d, above, tensor)` for a rational surface with total order 2 or 3
    (`d` already a tuple, `above` already normalised: `frU = above[0]`, `frV = above[1]`).
    `tensor=False` still fails: `d0ud0v[:,:,-1]` indexes a 2-d array. -/
def surfaceDerivativeRational (o : Obj K) (tol : K) (us vs : List K) (du dv : ℕ) (frU frV : Bool)
    (tensor : Bool) : PyM (Tensor K) :=
  let bu := o.basis 0
  let bv := o.basis 1
  let dim := o.dimension
  let nc := o.ncomp
  let jet (a c : ℕ) : Tensor K :=
    let Ns := [basisMat bu tol us a frU, basisMat bv tol vs c frV]
    if tensor then contractGrid Ns o.cps else contractPointwise Ns o.cps us.length
  if !tensor then .error .index else   -- `d0ud0v[:,:,-1]` on a 2-d array
  let J : ℕ → ℕ → Tensor K := fun a c => jet a c
  let npts := us.length * vs.length
  let tot := du + dv
  let j00 := J 0 0; let j10 := J 1 0; let j01 := J 0 1; let j11 := J 1 1; let j20 := J 2 0; let j02 := J 0 2
  let j21 := if tot > 2 then J 2 1 else j00
  let j12 := if tot > 2 then J 1 2 else j00
  let j30 := if tot > 2 then J 3 0 else j00
  let j03 := if tot > 2 then J 0 3 else j00
  .ok { shape := [us.length, vs.length, dim],
        data := Array.ofFn (n := npts * dim) (fun idx =>
          let pI := idx.val / dim
          let c := idx.val % dim
          let mkJet (cc : ℕ) : RatDeriv.SurfJet K :=
            let g (t : Tensor K) := t.get (pI * nc + cc)
            { f00 := g j00, f10 := g j10, f01 := g j01, f11 := g j11, f20 := g j20, f02 := g j02,
              f21 := g j21, f12 := g j12, f30 := g j30, f03 := g j03 }
          match RatDeriv.surfD (mkJet c) (mkJet dim) du dv with
          | some y => y
          | none => 0) }

/-- `SplineObject.__init__(bases, controlpoints=None, rational)`: default control points are the
    tensor product of the Greville points (first index fastest in the flat list, then reshaped with
    `order='F'`), curves padded to two dimensions, weight 1 appended when rational. -/
def default (bases : Array (Basis K)) (rational : Bool) : PyM (Obj K) := do
  let gs ← bases.toList.mapM (fun b => b.greville)
  let shape := gs.map Array.size
  let pd := bases.size
  let dim := if pd = 1 then 2 else pd
  let nc := dim + (if rational then 1 else 0)
  let total := Tensor.prod shape
  -- C-order flat index -> multi-index
  let data : Array K := Array.ofFn (n := total * nc) (fun idx =>
    let pI := idx.val / nc
    let c := idx.val % nc
    if c < pd then
      let stride := Tensor.prod (shape.drop (c + 1))
      let ic := (pI / stride) % shape.getD c 1
      (gs.getD c #[]).getD ic 0
    else if c < dim then 0 else 1)
  pure { bases := bases, cps := { shape := shape ++ [nc], data := data }, rational := rational }

/-- `bounding_box()`: per physical coordinate (min, max) over the control points. -/
def boundingBox (o : Obj K) : List (K × K) :=
  let nc := o.ncomp
  let npts := o.cps.size / nc
  (List.range o.dimension).map (fun c =>
    let vals := (List.range npts).map (fun pI => o.cps.get (pI * nc + c))
    (vals.foldl min (vals.headD 0), vals.foldl max (vals.headD 0)))

/-- `insert_knot(knot, direction)` for a list of knots. -/
def insertKnots (o : Obj K) (knots : List K) (dir : ℕ) : PyM (Obj K) := do
  let b0 := o.basis dir
  let n0 := o.cps.shape.getD dir 0
  let (b, C) ← knots.foldlM (fun (bc : Basis K × Mat K) x => do
      let (b', Ck) ← bc.1.insertKnot x
      pure (b', Mat.mul Ck bc.2)) (b0, Mat.identity n0)
  pure { o with bases := o.bases.set! dir b, cps := Tensor.applyAxis C o.cps dir }

/-- `reverse(direction)`: mirror the knots, flip the control points and — for a periodic
    direction of continuity `k` — roll them by `k+1` (`np.roll(cps, k+1, direction)`). -/
def reverse (o : Obj K) (dir : ℕ) : Obj K :=
  let b := o.basis dir
  let flipped := o.cps.flipAxis dir
  { o with bases := o.bases.set! dir b.reverse,
           cps := if b.periodic > -1 then flipped.rollAxisPos dir (b.periodic + 1).toNat else flipped }

/-- `swap(dir1, dir2)` (pardim ≥ 2). -/
def swap (o : Obj K) (d1 d2 : ℕ) : Obj K :=
  let b1 := o.basis d1
  let b2 := o.basis d2
  { o with bases := (o.bases.set! d1 b2).set! d2 b1, cps := o.cps.swapAxes d1 d2 }

/-- `reparam` of one direction. -/
def reparamDir (o : Obj K) (dir : ℕ) (s e : K) : PyM (Obj K) := do
  let b ← (o.basis dir).reparam s e
  pure { o with bases := o.bases.set! dir b }

/-- `set_dimension(new_dim)`. -/
def setDimension (o : Obj K) (newDim : ℕ) : Obj K :=
  let dim := o.dimension
  let nc := o.ncomp
  let newNc := newDim + (nc - dim)
  { o with cps := o.cps.mapLast newNc (fun row =>
      Array.ofFn (n := newNc) (fun c =>
        if c.val < newDim then (if c.val < dim then row.getD c.val 0 else 0)
        else row.getD dim 0)) }   -- the weight

/-- `force_rational()`. -/
def forceRational (o : Obj K) : Obj K :=
  if o.rational then o else
  let nc := o.ncomp
  { o with rational := true, cps := o.cps.mapLast (nc + 1) (fun row => row.push 1) }

/-- Right-multiply every (homogeneous) control point by a matrix given on the physical
    coordinates: new_i = Σ_j cp_j · M[j][i] (+ translation `tr_i · w`).  This is the common shape of
    `translate`, `scale`, `rotate`, `mirror`. -/
def affineCp (o : Obj K) (M : ℕ → ℕ → K) (tr : ℕ → K) : Obj K :=
  let dim := o.dimension
  let nc := o.ncomp
  { o with cps := o.cps.mapLast nc (fun row =>
      let w : K := if o.rational then row.getD dim 0 else 1
      Array.ofFn (n := nc) (fun i =>
        if i.val < dim then
          (List.range dim).foldl (fun acc j => acc + row.getD j 0 * M j i.val) 0 + tr i.val * w
        else row.getD i.val 0)) }

/-- `translate(x)` (with dimension promotion when `len(x) > dim`). -/
def translate (o : Obj K) (x : List K) : Obj K :=
  let o' := if x.length > o.dimension then o.setDimension x.length else o
  o'.affineCp (fun j i => if i = j then 1 else 0) (fun i => x.getD i 0)

/-- `scale(*args)`: `s` already flattened (`ensure_flatlist`); `ensure_listlike(s, dups=3)` repeats
    the LAST entry until there are three (`(a,) ↦ [a,a,a]`, `(a,b) ↦ [a,b,b]`; `[]` stays `[]`);
    `s[i]` for `i < dim` raises `IndexError` when the list is still too short. -/
def scale (o : Obj K) (s : List K) : PyM (Obj K) :=
  let s' := if s.isEmpty then [] else s ++ List.replicate (3 - s.length) (s.getLastD 1)
  if s'.length < o.dimension then .error .index else
  .ok (o.affineCp (fun j i => if i = j then s'.getD i 1 else 0) (fun _ => 0))

/-- `project(plane)`: zero the coordinates not kept (in place on the array). -/
def projectPlane (o : Obj K) (keep : List Bool) : Obj K :=
  let dim := o.dimension
  { o with cps := o.cps.mapLast o.ncomp (fun row =>
      Array.ofFn (n := row.size) (fun i => if i.val < dim ∧ !(keep.getD i.val false) then 0 else row.getD i.val 0)) }

/-- `mirror(normal)` with the already-normalised normal `nrm` (‖nrm‖ = 1 supplied by the caller:
    the code divides by `sqrt(n·n)`). -/
def mirror (o : Obj K) (nrm : List K) : PyM (Obj K) :=
  if o.dimension ≠ 3 then .error .runtime else
  .ok (o.affineCp (fun j i => (if i = j then 1 else 0) - 2 * nrm.getD j 0 * nrm.getD i 0) (fun _ => 0))

/-- `rotate(theta, normal)`: `(ch, sh) = (cos θ/2, sin θ/2)` and the normalised axis are supplied. -/
def rotate (o : Obj K) (ch sh : K) (normal : List K) (axisUnit : List K) : PyM (Obj K) :=
  let o' := if ¬(normal.getD 0 0 = 0 ∧ normal.getD 1 0 = 0) then o.setDimension 3 else o
  let dim := o'.dimension
  if dim = 2 then
    let co := ch * ch - sh * sh
    let si := 2 * ch * sh
    -- R = [[cos,-sin],[sin,cos]].T ; cp @ R
    let R : ℕ → ℕ → K := fun j i =>
      match j, i with
      | 0, 0 => co | 0, 1 => si | 1, 0 => -si | 1, 1 => co | _, _ => 0
    .ok (o'.affineCp R (fun _ => 0))
  else if dim = 3 then
    let a := ch
    let b := -(axisUnit.getD 0 0) * sh
    let c := -(axisUnit.getD 1 0) * sh
    let d := -(axisUnit.getD 2 0) * sh
    let R : ℕ → ℕ → K := fun j i =>
      match j, i with
      | 0, 0 => a*a+b*b-c*c-d*d | 0, 1 => 2*(b*c-a*d) | 0, 2 => 2*(b*d+a*c)
      | 1, 0 => 2*(b*c+a*d) | 1, 1 => a*a+c*c-b*b-d*d | 1, 2 => 2*(c*d-a*b)
      | 2, 0 => 2*(b*d-a*c) | 2, 1 => 2*(c*d+a*b) | 2, 2 => a*a+d*d-b*b-c*c
      | _, _ => 0
    .ok (o'.affineCp R (fun _ => 0))
  else .error .runtime

end Obj

end Splipy
