import Splipy.Model.Object

/-!
# Executable model of the refinement entry points (C04)

* `Obj.insertKnotDir`  — `SplineObject.insert_knot(knot, direction)` including `check_direction`.
* `Obj.refine`         — `SplineObject.refine(*ns, direction=…)` in its three calling patterns.
* `Obj.geometricRefine`, `Obj.insertFiltered` — `splipy/utils/refinement.py`:
  `geometric_refine` is algebraic (powers of `alpha`) and modelled completely;
  `center_refine` / `edge_refine` place knots with `tan` / `atan`: the knot VALUES are computed by the
  harness with the functions' own formula and handed to `insertFiltered`, which models the
  `knot_exists` filter and the insertion.

`tol` is `state.knot_tolerance`; `atol`, `rtol` are the two constants of `knot_exists`
(`np.isclose(existing, new, atol=1e-7, rtol=1e-10)`).
-/

namespace Splipy

variable {K : Type} [Field K] [LinearOrder K] [FloorRing K]

/-- `np.linspace(k0, k1, n+2)[1:-1]`:  `k0 + j·(k1-k0)/(n+1)`, `j = 1..n`. -/
def linspaceInterior (k0 k1 : K) (n : ℕ) : List K :=
  (List.range n).map (fun (j : ℕ) => k0 + ((j : K) + 1) * ((k1 - k0) / ((n : K) + 1)))

/-- The list `refine` builds for one direction: `n` interior points for every pair of consecutive
    entries of `knot_spans()`. -/
def refineValues (spans : List K) (n : ℕ) : List K :=
  (List.zip spans spans.tail).flatMap (fun (k0, k1) => linspaceInterior k0 k1 n)

/-- `knot_exists(existing_knots, new_knot)` = `np.any(np.isclose(existing, new, atol, rtol))`,
    i.e. `|existing - new| ≤ atol + rtol·|new|` for some existing knot. -/
def knotExists (atol rtol : K) (existing : List K) (k : K) : Bool :=
  existing.any (fun e => decide (|e - k| ≤ atol + rtol * |k|))

namespace Obj

/-- `SplineObject.insert_knot(knot, direction)`: `check_direction` raises `ValueError` for a
    direction `≥ pardim`. -/
def insertKnotDir (o : Obj K) (knots : List K) (dir : ℕ) : PyM (Obj K) :=
  if dir < o.pardim then o.insertKnots knots dir else .error .value

/-- One pass of the loop `for n, d in zip(ns, directions)` of `refine`. -/
def refineDir (o : Obj K) (tol : K) (n d : ℕ) : PyM (Obj K) :=
  if d < o.pardim then
    let spans := ((o.basis d).knotSpans tol false).toList
    o.insertKnotDir (refineValues spans n) d
  else .error .value

/-- `SplineObject.refine(*ns, direction=None)`.
    `refine(n)`, `refine(n, direction=d)`, `refine(nu, nv, …)` (extra entries on either side of
    the `zip` are dropped, as in the code). -/
def refine (o : Obj K) (tol : K) (ns : List ℕ) (direction : Option ℕ) : PyM (Obj K) := do
  let pd := o.pardim
  let dirs : List ℕ ← (match ns, direction with
    | [_], some d => if d < pd then pure [d] else throw PyErr.value
    | _, _ => pure (List.range pd))
  let ns' : List ℕ := match ns with
    | [n] => List.replicate pd n
    | _ => ns
  (List.zip ns' dirs).foldlM (fun o nd => o.refineDir tol nd.1 nd.2) o

/-- The knot values `geometric_refine` computes (before the `knot_exists` filter):
    `knot_start + (Σ_{j≤i} α^j / Σ_{j≤n} α^j)·dk`, `i = 0..n-1`, accumulated as in the code. -/
def geometricValues (alpha : K) (n : ℕ) (ks ke : K) : PyM (List K) :=
  let n1 := n + 1
  let dk := ke - ks
  let (totSum, _) := (List.range n1).foldl (fun (sp : K × K) _ => (sp.1 + sp.2, sp.2 * alpha)) (0, 1)
  if totSum = 0 then .error .zeroDiv else
  let d1 : K := 1 / totSum
  let (vals, _, _) := (List.range (n1 - 1)).foldl (fun (st : List K × K × K) _ =>
      let (acc, knot, d1) := st
      (acc ++ [ks + knot * dk], knot + alpha * d1, d1 * alpha)) ([], d1, d1)
  .ok vals

/-- Filter with `knot_exists` against `knot_spans()` of the direction, then insert. -/
def insertFiltered (o : Obj K) (tol atol rtol : K) (vals : List K) (dir : ℕ) : PyM (Obj K) :=
  if dir < o.pardim then
    let spans := ((o.basis dir).knotSpans tol false).toList
    o.insertKnotDir (vals.filter (fun k => !knotExists atol rtol spans k)) dir
  else .error .value

/-- `geometric_refine(obj, alpha, n, direction, reverse)`. -/
def geometricRefine (o : Obj K) (tol atol rtol alpha : K) (n : Int) (dir : ℕ) (rev : Bool) :
    PyM (Obj K) := do
  if n ≤ 0 then throw PyErr.value
  if ¬ dir < o.pardim then throw PyErr.value
  let o1 := if rev then o.reverse dir else o
  let spans := ((o1.basis dir).knotSpans tol false).toList
  let ks := spans.headD 0
  let ke := spans.getLastD 0
  let vals ← geometricValues alpha n.toNat ks ke
  let o2 ← o1.insertFiltered tol atol rtol vals dir
  pure (if rev then o2.reverse dir else o2)

/-- `center_refine` / `edge_refine` after the placement formula: `n ≤ 0` is a `ValueError`,
    then `check_direction`, filter, insert. -/
def gradedInsert (o : Obj K) (tol atol rtol : K) (n : Int) (vals : List K) (dir : ℕ) : PyM (Obj K) := do
  if n ≤ 0 then throw PyErr.value
  o.insertFiltered tol atol rtol vals dir

end Obj

end Splipy
