import Splipy.Model.Basis
import Splipy.Model.Tensor
import Splipy.Model.LinAlg

/-!
# Executable model of the remaining `BSplineBasis` methods (`splipy/basis.py`)

Each function mirrors the method of the same name statement by statement; Python exceptions are
`Except PyErr`.  `tol` is `state.knot_tolerance`.
-/

namespace Splipy

variable {K : Type} [Field K] [LinearOrder K]

namespace Basis

/-- Python's `bisect.bisect_left(self.knots, v)` on the whole array. -/
def bisectL (b : Basis K) (v : K) : ℕ := bisectLeft b.kn v b.knots.size
def bisectR (b : Basis K) (v : K) : ℕ := bisectRight b.kn v b.knots.size

/-- running maximum from a start value (tail of `np.maximum.accumulate`) -/
def cummaxAux : K → List K → List K
  | _, [] => []
  | m, x :: xs => max m x :: cummaxAux (max m x) xs

/-- `np.maximum.accumulate` on a list. -/
def cummaxL : List K → List K
  | [] => []
  | x :: xs => x :: cummaxAux x xs

/-- `np.maximum.accumulate(knots)`: every entry is replaced by the maximum of the entries up to it — the identity on
    a non-decreasing array (`Lemmas/C10Cummax.lean`), and the result is always non-decreasing. -/
def cummax (a : Array K) : Array K := (cummaxL a.toList).toArray

/-- `BSplineBasis.__init__` validation (knots given explicitly).  Decreases within the tolerance pass the
    non-decreasing test; the stored vector is the running maximum (`self.knots = np.maximum.accumulate(self.knots)`),
    so every constructed basis is exactly non-decreasing. -/
def mk? (order : ℕ) (knots : Array K) (periodic : Int) (tol : K) : PyM (Basis K) :=
  let periodic := max periodic (-1)
  let p := order
  let n := knots.size
  let kn (i : Int) : K :=  -- python indexing incl. negative indices
    let j := if i < 0 then (n : Int) + i else i
    knots.getD j.toNat 0
  if p < 1 then .error .value
  else if n < 2 * p then .error .value
  -- `if periodic >= 0: if n < p + k + 1: raise ValueError` (the comparison loop below then stays inside the list)
  else if periodic ≥ 0 ∧ (n : Int) < (p : Int) + periodic + 1 then .error .value
  else
    let k := periodic
    let badPer := periodic ≥ 0 ∧ (List.range (p + k - 1).toNat).any (fun i =>
        let i : Int := i
        decide (|(kn (i+1) - kn i) - (kn (-(p:Int) - k + i) - kn (-(p:Int) - k - 1 + i))| > tol))
    if badPer then .error .value
    else if (List.range (n - 1)).any (fun i => decide (knots.getD (i+1) 0 - knots.getD i 0 < -tol)) then .error .value
    else .ok { order := order, knots := cummax knots, periodic := periodic }

/-- `greville()` — all knot averages. (`p = 1` divides by zero in Python: ZeroDivisionError.) -/
def greville (b : Basis K) : PyM (Array K) :=
  let p := b.order
  let n := b.numFunctions
  if p = 1 ∧ 0 < n then .error .zeroDiv
  else .ok (Array.ofFn (n := n) (fun i =>
    ((List.range (p - 1)).foldl (fun acc j => acc + b.kn (i.val + 1 + j)) 0) / ((p : K) - 1)))

/-- `continuity(knot)`: `none` = `np.inf`. -/
def continuity [FloorRing K] (b : Basis K) (tol : K) (knot : K) : PyM (Option Int) :=
  let start := b.start
  let stop := b.stop
  let wrapped : PyM K :=
    if b.periodic ≥ 0 then
      .ok (if knot < start ∨ knot > stop then pmod (knot - start) (stop - start) + start else knot)
    -- the range test uses the knot tolerance like the multiplicity count below (since the fix of findings
    -- C12 `periodic-rounded-ghost-knots-out-of-range` / C14 `loft-periodic-rounded-knots-out-of-range`)
    else if knot < start - tol ∨ stop + tol < knot then .error .value
    else .ok knot
  match wrapped with
  | .error e => .error e
  | .ok kt =>
    let hi := b.bisectL (kt + tol)
    let lo := b.bisectL (kt - tol)
    if hi = lo then .ok none else .ok (some ((b.order : Int) - ((hi : Int) - lo) - 1))

/-- `knot_spans(include_ghost_knots)`. -/
def knotSpans (b : Basis K) (tol : K) (ghost : Bool) : Array K :=
  let p := b.order
  let ks : List K := if ghost then b.knots.toList
                     else if p = 1 then []   -- python: knots[0:-0] is empty
                     else (b.knots.extract (p - 1) (b.knots.size - p + 1)).toList
  let first : K := if ghost then b.kn 0 else b.kn (p - 1)
  (ks.foldl (fun (acc : Array K) k => if |k - acc.getD (acc.size - 1) 0| > tol then acc.push k else acc) #[first])

/-- `np.insert(knots, mu, x)`. -/
def insertAt (a : Array K) (mu : ℕ) (x : K) : Array K :=
  (a.extract 0 mu).push x ++ a.extract mu a.size

/-- First `if`/`elif` of `insert_knot`: the value really inserted (periodic wrap) or `ValueError`. -/
def insertWrap [FloorRing K] (b : Basis K) (x0 : K) : PyM K :=
  let start := b.start
  let stop := b.stop
  if b.periodic ≥ 0 then
    if x0 < start ∨ x0 > stop then
      -- collapsed domain (end == start): the float `% 0.0` is nan, bisect_right(knots, nan) = len(knots),
      -- the middle loop reads knots[len]
      if stop - start = 0 then .error .index
      else .ok (pmod (x0 - start) (stop - start) + start)
    else .ok x0
  else if x0 < start ∨ stop < x0 then .error .value
  else .ok x0

/-- `mu = bisect_right(self.knots, new_knot)`; periodic: `mu = min(mu, len(self.knots) - p)`
    (the end of the domain is not passed). -/
def insertMu (b : Basis K) (x : K) : ℕ :=
  if b.periodic ≥ 0 then min (b.bisectR x) (b.knots.size - b.order) else b.bisectR x

/-- The part of `insert_knot` after the cover branch (`x` = the wrapped value): the three loops that fill
    `C`, `np.insert`, the periodic ghost-knot repair.  `IndexError` where the Python code indexes outside
    the knot array. -/
def insertKnotDirect (b : Basis K) (x : K) : PyM (Basis K × Mat K) :=
    let mu := b.insertMu x
    let n := b.numFunctions
    let p := b.order
    let size := b.knots.size
    -- the middle loop (non-empty iff mu ≥ 1, p ≥ 1) reads, in its last pass i = mu-1, knots[i+p-1]
    -- always and knots[i+p] only when the short-circuit `and`/`else` reaches it:
    --   knots[i+p-1] <= x (then `x <= knots[i+p]` is evaluated), or the second guard
    --   `knots[i] <= x <= knots[i+1]` fails (its else branch reads knots[i+p]).
    -- `C = np.zeros((n + 1, n))` refuses a negative dimension (`ValueError`); with `n = 0` the first index
    -- expression `i % n` that is evaluated raises `ZeroDivisionError` (before any knot is read out of range)
    if (size : Int) - (p : Int) - (b.periodic + 1) < 0 then .error .value
    else if n = 0 then .error .zeroDiv
    else if mu - p < mu ∧ (mu + p ≥ size + 2 ∨
        (mu + p = size + 1 ∧ (b.kn (size - 1) ≤ x ∨ ¬ (b.kn (mu - 1) ≤ x ∧ x ≤ b.kn mu)))) then .error .index
    else
      let C0 : Array (Array K) := Array.replicate (n + 1) (Array.replicate n 0)
      let setC (C : Array (Array K)) (r c : ℕ) (v : K) : Array (Array K) :=
        C.modify r (fun row => row.set! c v)
      let C1 := (List.range (mu - p)).foldl (fun C i => setC C (i % (n+1)) (i % n) 1) C0
      let C2 := (List.range' (mu - p) (mu - (mu - p))).foldl (fun C i =>
        let d := if b.kn (i + p - 1) ≤ x ∧ x ≤ b.kn (i + p) then 1
                 else (x - b.kn i) / (b.kn (i + p - 1) - b.kn i)
        let C := setC C (i % (n+1)) (i % n) d
        let s := if b.kn i ≤ x ∧ x ≤ b.kn (i + 1) then 1
                 else (b.kn (i + p) - x) / (b.kn (i + p) - b.kn (i + 1))
        setC C ((i + 1) % (n+1)) (i % n) s) C1
      let C3 := (List.range' mu (n + 1 - mu)).foldl (fun C i => setC C (i % (n+1)) ((i - 1) % n) 1) C2
      let knots1 := insertAt b.knots mu x
      let knots2 : Array K :=
        if b.periodic > -1 then
          let m := knots1.size
          let r := b.periodic.toNat
          let g (a : Array K) (i : ℕ) : K := a.getD i 0
          if mu ≤ p + r then
            let k0 := g knots1 0
            let k1 := g knots1 (m - p - r - 1)
            (List.range (p + r + 1)).foldl (fun a i => a.set! (m - p - r - 1 + i) (k1 + (g a i - k0))) knots1
          else if mu ≥ m - p - r - 1 then
            let k0 := g knots1 (p + r)
            let k1 := g knots1 (m - 1)
            (List.range (p + r + 1)).foldl (fun a i => a.set! i (k0 - (k1 - g a (m - p - r - 1 + i)))) knots1
          else knots1
        else knots1
      .ok ({ b with knots := knots2 }, C3)

/-- `insert_knot` without the cover branch: wrap, then the direct algorithm.  This is what the recursive
    calls `cover.insert_knot(new_knot)` execute (a cover has at least `p+k` functions). -/
def insertKnotPlain [FloorRing K] (b : Basis K) (x0 : K) : PyM (Basis K × Mat K) :=
  match b.insertWrap x0 with
  | .error e => .error e
  | .ok x => b.insertKnotDirect x

/-- Knot vector of the `R`-fold cover: `(R-1)·n` more knots, `knots.append(knots[-n] + T)`. -/
def coverKnots (b : Basis K) (R : ℕ) : Array K :=
  let n := b.numFunctions
  let T := b.stop - b.start
  (List.range ((R - 1) * n)).foldl (fun (a : Array K) _ => a.push (a.getD (a.size - n) 0 + T)) b.knots

/-- `np.tile(np.identity(n), (R, 1))`. -/
def tileIdentity (n R : ℕ) : Mat K :=
  Array.ofFn (n := R * n) (fun r => Array.ofFn (n := n) (fun c => if r.val % n = c.val then 1 else 0))

/-- `insert_knot(new_knot)`: returns the new basis and the `(n+1) × n` matrix `C`.
    A periodic basis with fewer than `p+k` functions is refined through its `R`-fold cover
    (`R = ⌈(p+k)/n⌉` periods, all `R` images of the knot inserted, coefficients repeated, first `n+1`
    rows kept); otherwise `insertKnotDirect`.  The constructor call `BSplineBasis(p, knots, periodic)`
    for the cover is modelled as accepting its argument (it does for every valid basis and
    non-negative tolerance).  The source-derived theorems `PyBasis_insert_knot_eq` (direct branch) and
    `PyBasis_insert_knot_eq_cover` (cover branch) tie both branches to the code; the C04
    correspondence run covers every `(p,k)` and all sizes `n = p-1-k … p+k-1` as well. -/
def insertKnot [FloorRing K] (b : Basis K) (x0 : K) : PyM (Basis K × Mat K) :=
  match b.insertWrap x0 with
  | .error e => .error e
  | .ok x =>
    let p := b.order
    let size := b.knots.size
    let nI : Int := (size : Int) - (p : Int) - (b.periodic + 1)
    if b.periodic ≥ 0 ∧ nI < (p : Int) + b.periodic then
      -- `n <= 0`: `R = -(-(p+k) // n)` divides by zero for `n = 0`; negative `n` (no such object can be
      -- built) ends in `np.identity(n)`: ValueError
      if nI < 0 then .error .value
      else if nI = 0 then .error .zeroDiv
      else
        let n := b.numFunctions
        let k := b.periodic.toNat
        let R := (p + k + n - 1) / n
        let T := b.stop - b.start
        let cover0 : Basis K := { b with knots := b.coverKnots R }
        let step (st : Basis K × Mat K × K) : PyM (Basis K × Mat K × K) :=
          match st.1.insertKnotPlain st.2.2 with
          | .error e => .error e
          | .ok (c', Ck) => .ok (c', Mat.mul Ck st.2.1, st.2.2 + T)
        match (List.range R).foldlM (fun st _ => step st) (cover0, tileIdentity n R, x) with
        | .error e => .error e
        | .ok (cover, C, _) =>
          .ok ({ b with knots := cover.knots.extract 0 (size + 1) }, C.extract 0 (n + 1))
    else b.insertKnotDirect x

/-- `raise_order(amount)` (amount ≥ 0 already checked by the caller; `amount = 0` clones). -/
def raiseOrder (b : Basis K) (tol : K) (amount : ℕ) : PyM (Basis K) :=
  if amount = 0 then .ok b else
  let spans := (b.knotSpans tol true).toList
  let rep : List K := (List.range amount).flatMap (fun _ => spans)
  let knots := (b.knots.toList ++ rep).mergeSort (fun a c => a ≤ c)
  let knots' : List K :=
    if b.periodic > -1 then
      let spansArr := spans.toArray
      let bl (v : K) : ℕ := bisectLeft (fun i => spansArr.getD i 0) v spansArr.size
      let n0 := bl b.start
      let n1 := spans.length - bl b.stop - 1
      -- python slice knots[n0*amount : -n1*amount]   (note: -0 gives an empty list)
      let hi := if n1 * amount = 0 then 0 else knots.length - n1 * amount
      (knots.take hi).drop (n0 * amount)
    else knots
  mk? (b.order + amount) knots'.toArray b.periodic tol

/-- `reverse()`: `(knots[::-1] - a) / (b - a) * (a - b) + b`. -/
def reverse (b : Basis K) : Basis K :=
  let a := b.start
  let e := b.stop
  { b with knots := b.knots.reverse.map (fun x => (x - a) / (e - a) * (a - e) + e) }

/-- `reparam(start, end)`: normalize (`-= start`, `/= end`) then `*= (end-start)`, `+= start`. -/
def reparam (b : Basis K) (s e : K) : PyM (Basis K) :=
  if e ≤ s then .error .value else
  let k1 := b.knots.map (fun x => x - b.start)
  let b1 : Basis K := { b with knots := k1 }
  let k2 := k1.map (fun x => x / b1.stop)
  .ok { b with knots := k2.map (fun x => x * (e - s) + s) }

/-- `roll(new_start)`. -/
def roll (b : Basis K) (newStart : ℕ) : PyM (Basis K) :=
  if b.periodic < 0 then .error .runtime else
  let p := b.order
  let k := b.periodic.toNat
  let n := b.knots.size
  let t1 := b.kn 0 - b.kn (n - p - k - 1)
  let left := b.knots.extract newStart (n - p - k - 1)
  let lenLeft := (n - p - k - 1) - newStart
  let right := (b.knots.extract 0 (n - lenLeft)).map (fun x => x - t1)
  -- `np.maximum.accumulate(self.knots, out=self.knots)`: the shifted copy may start one rounding error low
  .ok { b with knots := cummax (left ++ right) }

/-- `make_periodic(continuity)` on a basis.  Python ints: `n_reps = deg - continuity - 1` may be negative
    (`[x] * n_reps` is then empty) and `n_copy = deg - n_reps = continuity + 1` whatever its sign; for order 1
    the slice `knots[deg:-deg]` is `knots[0:-0] = knots[0:0]`, empty (the constructor then raises
    `ValueError`). -/
def makePeriodic (b : Basis K) (tol : K) (continuity : ℕ) : PyM (Basis K) :=
  let deg := b.order - 1
  let nk := if deg = 0 then #[] else b.knots.extract deg (b.knots.size - deg)
  let diff := b.stop - b.start
  let nReps := deg - continuity - 1
  let nCopy := continuity + 1
  let m := nk.size
  let head := (nk.extract (m - nCopy - 1) (m - 1)).map (fun x => x - diff)
  let tail := (nk.extract 1 (nCopy + 1)).map (fun x => x + diff)
  let knots := head ++ Array.replicate nReps b.start ++ nk ++ Array.replicate nReps b.stop ++ tail
  mk? b.order knots continuity tol

end Basis

end Splipy
