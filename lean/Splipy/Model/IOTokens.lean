import Mathlib.Algebra.Order.Field.Basic
import Splipy.Proto.Val

/-!
# Token-level model of `splipy/io/g2.py` (spline records) and `splipy/io/spl.py`

## Abstraction of number formatting
The real writer prints every floating point number with `'%.16g'` and the reader parses it with
`float()`.  The model works on *exact* numbers of a field `K` (run at `ℚ`): a token `Token.num x`
stands for "the text written for `x`".  The correspondence harness rounds on its side
(`float('%.16g' % x)`) before comparing token values, so the model's statements are about the
*structure* of the files (what is written where, how it is read back); accuracy of
`'%.16g'`/`float()` is part of the trusted base.

## Files are line oriented
`G2.read` consumes whole lines (`next(self.fstream)`, `.split()`), and infers the number of
components of a control point from the number of tokens on its line (the `dim` field of the record
is read and discarded), so the token stream keeps the line ends: `Token.nl`.

## Objects
`Obj`: bases (`order`, `knots`, `periodic`) + grid `shape` + `ncomp = dimension + rational` +
control points as the list of grid points in C order (last index fastest, exactly the order of
`controlpoints.reshape(-1, ncomp)`), each a list of `ncomp` numbers + the rational flag.

Only the NON-periodic path of `G2.write` is modelled (the real writer first replaces a periodic
object by `obj.split(obj.start(i), i)`; that step is property C07's business and is performed by
the real code on the harness side before the model is consulted).
-/

namespace Splipy.FileIO

/-! ## Index algebra of `numpy.reshape` -/

/-- Row-major (C order, last index fastest) position of a multi-index. -/
def ravelC : List ℕ → List ℕ → ℕ
  | _ :: shape, i :: idx => i * shape.prod + ravelC shape idx
  | _, _ => 0

/-- Multi-index of a row-major position (`numpy.unravel_index(pos, shape, 'C')`). -/
def unravelC : List ℕ → ℕ → List ℕ
  | [], _ => []
  | _ :: shape, pos => (pos / shape.prod) :: unravelC shape (pos % shape.prod)

/-- Column-major (F order, FIRST index fastest) position of a multi-index. -/
def ravelF : List ℕ → List ℕ → ℕ
  | n :: shape, i :: idx => i + n * ravelF shape idx
  | _, _ => 0

/-- Multi-index of a column-major position (`numpy.unravel_index(pos, shape, 'F')`). -/
def unravelF : List ℕ → ℕ → List ℕ
  | [], _ => []
  | n :: shape, k => (k % n) :: unravelF shape (k / n)

/-- `idx` is a valid multi-index of an array of shape `shape`. -/
def IdxOk : List ℕ → List ℕ → Prop
  | [], [] => True
  | n :: shape, i :: idx => i < n ∧ IdxOk shape idx
  | _, _ => False

/-- C position of the grid point that sits at F position `k`. -/
def fToC (shape : List ℕ) (k : ℕ) : ℕ := ravelC shape (unravelF shape k)
/-- F position of the grid point that sits at C position `c`. -/
def cToF (shape : List ℕ) (c : ℕ) : ℕ := ravelF shape (unravelC shape c)

variable {P : Type} [Inhabited P]

/-- `a.reshape(-1, ncomp, order='F')` of an `n1 × … × nd × ncomp` array, on rows: the list of grid
    points in C order is turned into the list in first-index-fastest order. -/
def flattenF (shape : List ℕ) (net : List P) : List P :=
  (List.range shape.prod).map fun k => net.getD (fToC shape k) default

/-- Inverse re-ordering: first-index-fastest list to C-order list. -/
def unflattenF (shape : List ℕ) (rows : List P) : List P :=
  (List.range shape.prod).map fun c => rows.getD (cToF shape c) default

/-- `splipy.utils.reshape(cps, shape, order='F')` literally: `np.reshape(cps, shape[::-1] + [ncomp])`
    followed by the transposition that reverses the grid axes, i.e. grid point `(i1,…,id)` is row
    number `ravelC (reverse shape) (reverse idx)` of the input.  Listed in C order. -/
def reshapeF (shape : List ℕ) (rows : List P) : List P :=
  (List.range shape.prod).map fun c =>
    rows.getD (ravelC shape.reverse (unravelC shape c).reverse) default

/-! ## Tokens and lines -/

/-- One whitespace separated word of a file, or a line end.
    `int n`: text accepted by both `int()` and `float()`; `num x`: text accepted by `float()` only
    (has a `.`/exponent); `word s`: anything else. -/
inductive Token (K : Type) where
  /-- the canonical decimal spelling of `n` (what `'%d' % n` prints: `0`, `-3`, `17`) -/
  | int (n : Int)
  /-- any other spelling `int()` accepts for `n` (`00`, `+0`, `-0`, `007`): numerically the same,
      but different as a string (the primitive readers compare a flag line with the string `'0'`) -/
  | intNC (n : Int)
  | num (x : K)
  | word (s : String)
  | nl
  deriving Repr, Inhabited

variable {K : Type}

def Token.isNl : Token K → Bool
  | .nl => true
  | _ => false

/-- `int(tok)` -/
def Token.toInt? : Token K → Option Int
  | .int n => some n
  | .intNC n => some n
  | _ => none

/-- `float(tok)` -/
def Token.toFloat? [IntCast K] : Token K → Option K
  | .int n => some (n : K)
  | .intNC n => some (n : K)
  | .num x => some x
  | _ => none

/-- `next(self.fstream).split()`: `none` = `StopIteration` at end of file. -/
def nextLine : List (Token K) → Option (List (Token K) × List (Token K))
  | [] => none
  | toks => some (toks.takeWhile (fun t => !t.isNl), (toks.dropWhile (fun t => !t.isNl)).drop 1)

/-- `G2.read_next_non_whitespace` (then `.split()`). -/
def nextNonBlank : List (Token K) → Option (List (Token K) × List (Token K))
  | [] => none
  | .nl :: rest => nextNonBlank rest
  | t :: rest => nextLine (t :: rest)

/-! ## Objects -/

structure IOBasis (K : Type) where
  order : ℕ
  knots : List K
  periodic : Int
  deriving Repr

/-- `num_functions()` of a non-periodic basis. -/
def IOBasis.numFunctions (b : IOBasis K) : ℕ := b.knots.length - b.order

structure Obj (K : Type) where
  bases : List (IOBasis K)
  shape : List ℕ
  ncomp : ℕ
  cps : List (List K)
  rational : Bool
  deriving Repr

def Obj.pardim (o : Obj K) : ℕ := o.bases.length

/-- `G2.g2_type[pardim-1]` for the three classes the format knows. -/
def g2TypeCode : ℕ → Int
  | 1 => 100
  | 2 => 200
  | 3 => 700
  | _ => 0

/-! ## `G2.write` (non-periodic path) -/

def boolInt (b : Bool) : Int := if b then 1 else 0

/-- `'%i %i\n' % (len(b.knots) - b.order, b.order)` and the knot line. -/
def basisToks (b : IOBasis K) : List (Token K) :=
  [.int ((b.knots.length : Int) - b.order), .int b.order, .nl] ++ b.knots.map .num ++ [.nl]

/-- One line of `savetxt(..., fmt='%.16g', delimiter=' ', newline='\n')`. -/
def rowToks (row : List K) : List (Token K) := row.map .num ++ [.nl]

/-- `G2.write(obj)` for a non-periodic Curve/Surface/Volume. -/
def g2Write (o : Obj K) : List (Token K) :=
  [.int (g2TypeCode o.pardim), .int 1, .int 0, .int 0, .nl,
   .int ((o.ncomp : Int) - boolInt o.rational), .int (boolInt o.rational), .nl]
  ++ o.bases.flatMap basisToks
  ++ (flattenF o.shape o.cps).flatMap rowToks

/-! ### The writer with its number formatting

`'%.16g' % x` followed by `float()` on the reading side is an idempotent rounding `rnd : K → K`
(`rnd (rnd x) = rnd x`); the model keeps it abstract.  `g2WriteR rnd` prints `rnd x` wherever the
code prints `'%.16g' % x`; `g2Write` is the instance `rnd = id`. -/

def basisToksR (rnd : K → K) (b : IOBasis K) : List (Token K) :=
  [.int ((b.knots.length : Int) - b.order), .int b.order, .nl] ++ b.knots.map (fun x => .num (rnd x)) ++ [.nl]

def rowToksR (rnd : K → K) (row : List K) : List (Token K) := row.map (fun x => .num (rnd x)) ++ [.nl]

/-- `G2.write(obj)` (non-periodic Curve/Surface/Volume) with the number formatting `rnd`. -/
def g2WriteR (rnd : K → K) (o : Obj K) : List (Token K) :=
  [.int (g2TypeCode o.pardim), .int 1, .int 0, .int 0, .nl,
   .int ((o.ncomp : Int) - boolInt o.rational), .int (boolInt o.rational), .nl]
  ++ o.bases.flatMap (basisToksR rnd)
  ++ (flattenF o.shape o.cps).flatMap (rowToksR rnd)

/-- Every number of the object (knots, control point components) through `rnd`. -/
def Obj.mapNum (rnd : K → K) (o : Obj K) : Obj K :=
  { o with bases := o.bases.map fun b => { b with knots := b.knots.map rnd },
           cps := o.cps.map (List.map rnd) }

/-! ## `G2.read` for spline records -/

section Read
variable [Field K] [LinearOrder K]

/-- The loop `for i in range(len(knots)-1): if knots[i+1]-knots[i] < -tol: raise ValueError`. -/
def knotsOk (tol : K) : List K → Bool
  | a :: b :: rest => !(decide (b - a < -tol)) && knotsOk tol (b :: rest)
  | _ => true

/-- `BSplineBasis(order, kts, -1)` with its input validation. -/
def mkBasis (tol : K) (order : Int) (kts : List K) : Except PyErr (IOBasis K) :=
  if order < 1 then .error .value
  else if (kts.length : Int) < 2 * order then .error .value
  else if !knotsOk tol kts then .error .value
  else .ok { order := order.toNat, knots := kts, periodic := -1 }

/-- `G2.read_basis`.  The `ncps` field of the file is read and not used. -/
def readBasis (tol : K) (toks : List (Token K)) : Except PyErr (IOBasis K × List (Token K)) :=
  match nextLine toks with
  | none => .error .other                                  -- StopIteration
  | some (l1, r1) =>
    match l1.mapM Token.toInt? with
    | some [_ncps, order] =>
      match nextLine r1 with
      | none => .error .other
      | some (l2, r2) =>
        match l2.mapM Token.toFloat? with
        | none => .error .value
        | some kts =>
          match mkBasis tol order kts with
          | .error e => .error e
          | .ok b => .ok (b, r2)
    | _ => .error .value                                   -- int() or unpacking failure

/-- `[self.read_basis() for _ in range(pardim)]` -/
def readBases (tol : K) : ℕ → List (Token K) → Except PyErr (List (IOBasis K) × List (Token K))
  | 0, toks => .ok ([], toks)
  | n + 1, toks =>
    match readBasis tol toks with
    | .error e => .error e
    | .ok (b, r) =>
      match readBases tol n r with
      | .error e => .error e
      | .ok (bs, r') => .ok (b :: bs, r')

/-- `[tuple(map(float, next(self.fstream).split())) for _ in range(ncps)]` -/
def readRows : ℕ → List (Token K) → Except PyErr (List (List K) × List (Token K))
  | 0, toks => .ok ([], toks)
  | n + 1, toks =>
    match nextLine toks with
    | none => .error .other
    | some (l, r) =>
      match l.mapM Token.toFloat? with
      | none => .error .value
      | some row =>
        match readRows n r with
        | .error e => .error e
        | .ok (rows, r') => .ok (row :: rows, r')

/-- `G2.splines(pardim)`: the `dim rational` line, the bases, the control point lines, then the
    constructor `cls(*bases, cps, rational)` (`np.array(cps)` must be rectangular; the number of
    components is the row length; `reshape(..., order='F')`). -/
def g2Splines (tol : K) (pardim : ℕ) (toks : List (Token K)) :
    Except PyErr (Obj K × List (Token K)) :=
  match nextNonBlank toks with
  | none => .error .other
  | some ([_dim, rat], r0) =>
    match rat.toInt? with
    | none => .error .value
    | some ratI =>
      match readBases tol pardim r0 with
      | .error e => .error e
      | .ok (bases, r1) =>
        let shape := bases.map IOBasis.numFunctions
        match readRows shape.prod r1 with
        | .error e => .error e
        | .ok (rows, r2) =>
          match rows with
          | [] => .error .other          -- not reachable: every basis has >= 1 function
          | row0 :: _ =>
            if rows.all (fun r => r.length == row0.length) then
              .ok ({ bases := bases, shape := shape, ncomp := row0.length,
                     cps := reshapeF shape rows, rational := ratI != 0 }, r2)
            else .error .value           -- inhomogeneous array
  | some _ => .error .value              -- unpacking `_, rational = ...`

/-- One record as `G2.read` sees it, the stream positioned at its (non-blank) header line.
    Primitive records (type codes of `G2.g2_generators`) are outside this model:
    `NotImplementedError`. -/
def g2ReadSpline (tol : K) (toks : List (Token K)) : Except PyErr (Obj K × List (Token K)) :=
  match nextNonBlank toks with
  | none => .error .other
  | some (hdr, r) =>
    match hdr.mapM Token.toInt? with
    | some [objtype, major, minor, patch] =>
      if (major, minor, patch) ≠ (1, 0, 0) then .error .other          -- IOError
      else if objtype ∈ [120, 130, 140, 260, 292, 270, 290, 250, 210, 261] then
        .error .notImplemented
      else if objtype = 100 then g2Splines tol 1 r
      else if objtype = 200 then g2Splines tol 2 r
      else if objtype = 700 then g2Splines tol 3 r
      else .error .other                                               -- IOError
    | _ => .error .value

/-- `G2.read()`: records until end of file (blank lines between records are skipped).
    `fuel` bounds the number of records. -/
def g2ReadAllFuel (tol : K) : ℕ → List (Token K) → Except PyErr (List (Obj K))
  | 0, _ => .error .other
  | fuel + 1, toks =>
    if (toks.dropWhile Token.isNl).isEmpty then .ok []
    else
      match g2ReadSpline tol toks with
      | .error e => .error e
      | .ok (o, r) =>
        match g2ReadAllFuel tol fuel r with
        | .error e => .error e
        | .ok os => .ok (o :: os)

/-- Every record consumes at least one token, so `length + 1` records always suffice. -/
def g2ReadAll (tol : K) (toks : List (Token K)) : Except PyErr (List (Obj K)) :=
  g2ReadAllFuel tol (toks.length + 1) toks

/-- Well-formed non-periodic basis: what `BSplineBasis.__init__` accepts. -/
structure IOBasis.WF (tol : K) (b : IOBasis K) : Prop where
  order_pos : 1 ≤ b.order
  enough : 2 * b.order ≤ b.knots.length
  sorted : knotsOk tol b.knots = true
  nonperiodic : b.periodic = -1

/-- Well-formed non-periodic object of parametric dimension 1..3: control net of the shape given
    by the bases, every control point with `ncomp ≥ 1` components. -/
structure Obj.WF (tol : K) (o : Obj K) : Prop where
  pardim : o.bases.length = 1 ∨ o.bases.length = 2 ∨ o.bases.length = 3
  bases : ∀ b ∈ o.bases, b.WF tol
  shape : o.shape = o.bases.map IOBasis.numFunctions
  count : o.cps.length = o.shape.prod
  comps : ∀ p ∈ o.cps, p.length = o.ncomp
  ncomp_pos : 1 ≤ o.ncomp

end Read

/-! ## `SPL.read` -/

section SPL
variable [Field K] [LinearOrder K]

/-- `cpts.reshape(physdim, *ncoeffs[::-1]).transpose()` listed in C order: component `c` of grid
    point `idx` is element `ravelC (physdim :: reverse shape) (c :: reverse idx)` of the flat
    coefficient list. -/
def splCps (physdim : ℕ) (shape : List ℕ) (vals : List K) : List (List K) :=
  (List.range shape.prod).map fun pos =>
    let idx := unravelC shape pos
    (List.range physdim).map fun c =>
      vals.getD (ravelC (physdim :: shape.reverse) (c :: idx.reverse)) 0

/-- One stripped line holding one integer: `int(line)`. -/
def lineInt : List (Token K) → Option Int
  | [t] => t.toInt?
  | _ => none

/-- One stripped line holding one number: `float(line)`. -/
def lineFloat : List (Token K) → Option K
  | [t] => t.toFloat?
  | _ => none

/-- All lines of a stream (`SPL.lines`; comments are removed by the tokeniser). -/
def splitLines : ℕ → List (Token K) → List (List (Token K))
  | 0, _ => []
  | fuel + 1, toks =>
    match nextLine toks with
    | none => []
    | some (l, r) => l :: splitLines fuel r

/-- Knot blocks of `SPL.read`: `order + ncoeffs` lines with one number each per basis, then
    `BSplineBasis(p, kts, -1)`. -/
def splKnots (tol : K) : List (Int × Int) → List (List (Token K)) →
    Except PyErr (List (IOBasis K) × List (List (Token K)))
  | [], rest => .ok ([], rest)
  | (p, n) :: more, rest =>
    if p + n < 0 then .error .value                          -- islice with a negative count
    else
      match (rest.take (p + n).toNat).mapM lineFloat with
      | none => .error .value
      | some kts =>
        match mkBasis tol p kts with
        | .error e => .error e
        | .ok b =>
          match splKnots tol more (rest.drop (p + n).toNat) with
          | .error e => .error e
          | .ok (bs, rest') => .ok (b :: bs, rest')

/-- The header line `C pardim physdim 0` (`assert version[0] == 'C'`, `assert version[3] == '0'`,
    `int(version[1])`, `int(version[2])`); values below 1 are outside the model. -/
def splHeader (version : List (Token K)) : Except PyErr (ℕ × ℕ) :=
  match version with
  | c :: pd :: ph :: v3 :: _ =>
    match c with
    | .word "C" =>
      match v3 with
      | .int 0 =>
        match pd.toInt? with
        | none => .error .value
        | some a =>
          match ph.toInt? with
          | none => .error .value
          | some b => if a < 1 ∨ b < 1 then .error .value else .ok (a.toNat, b.toNat)
      | _ => .error .other
    | _ => .error .other
  | _ => .error .index

/-- Everything after the header line. -/
def splBody (tol : K) (pardim physdim : ℕ) (ls : List (List (Token K))) : Except PyErr (Obj K) :=
  match (ls.take pardim).mapM lineInt with
  | none => .error .value
  | some orders =>
    match ((ls.drop pardim).take pardim).mapM lineInt with
    | none => .error .value
    | some ncoeffs =>
      if orders.length ≠ pardim ∨ ncoeffs.length ≠ pardim then .error .other
      else if ncoeffs.any (· < 0) then .error .value
      else
        match ls.drop (2 * pardim) with
        | [] => .error .other                               -- next(lines): spline accuracy
        | _acc :: ls3 =>
          match splKnots tol (orders.zip ncoeffs) ls3 with
          | .error e => .error e
          | .ok (bases, ls4) =>
            let shape := ncoeffs.map Int.toNat
            let tot := shape.prod * physdim
            match (ls4.take tot).mapM lineFloat with
            | none => .error .value
            | some vals =>
              if vals.length ≠ tot then .error .value        -- reshape of a short array
              else .ok { bases := bases, shape := shape, ncomp := physdim,
                         cps := splCps physdim shape vals, rational := false }

/-- `SPL.read`.  Header `C pardim physdim 0`, `pardim` orders, `pardim` coefficient counts, one
    skipped line, the knots one per line, the coefficients one per line (component-major, grid in
    first-index-fastest order); the object is built with `raw=True`.
    `AssertionError`/`StopIteration` are reported as `Exception`. -/
def splRead (tol : K) (toks : List (Token K)) : Except PyErr (Obj K) :=
  match splitLines (toks.length + 1) toks with
  | [] => .error .other
  | version :: ls =>
    match splHeader version with
    | .error e => .error e
    | .ok (pardim, physdim) => splBody tol pardim physdim ls

end SPL

end Splipy.FileIO
