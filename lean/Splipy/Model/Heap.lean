/-!
# An explicit heap model for property C11 (core Lean only, no Mathlib)

Property C11 ("non-in-place operations neither modify nor alias their operands") is a statement
about Python's *heap*: which `numpy` buffers and which `BSplineBasis` records are reachable from
which `SplineObject`, and who writes where.  A functional model of the geometry erases exactly
that, so it is modelled explicitly here:

* `bufs`  — the numpy buffers (`BufId ↦ contents`).  A numpy *view* is a reference to the buffer
  of its base array; the layout (shape/strides) of a view is irrelevant for aliasing and is erased.
* `recs`  — the `BSplineBasis` records (`BasisId ↦ {knots : BufId, order, periodic}`).
* `objs`  — the live top-level objects (`Handle ↦ {bases : List BasisId, cps : BufId, dimension,
  rational}`).  Objects never die in the model (garbage collection cannot create aliasing).

Every public operation of the library is given a **contract** (`Contract`).
* The relations `InPlaceStep` / `FreshStep` / `QueryStep` say what a heap transition may DO under
  each contract (allocate; overwrite only cells owned by the receiver; reference only owned or
  freshly allocated cells).  Well-formedness of the result is proved from them, not assumed.
* `exec` performs, literally, a contract-agnostic operation description `RawOp` that is given the
  operand references: it CAN alias operand cells, write through operands and return views, so
  contract violations are expressible (and refuted in `Splipy/Properties/C11.lean`).
  `RawOp.respects c` (decidable) says when such an operation is an instance of contract `c`; the
  *values* written are irrelevant, only *where* they are written.

What is proved about this model is in `Splipy/Lemmas/C11*.lean` and `Splipy/Properties/C11.lean`.
That a given Python operation really behaves as its contract says is **not** proved from the
Python semantics: it is the premise that the correspondence run (harness/props/C11.py) validates
dynamically for every operation × operand class, and that the source-derived effect summaries
(`Consistent`, below) check statically.
-/

namespace Splipy.Heap

/-- Identifiers are plain naturals (indices into the three stores).  The names below are
    documentation only: signatures use `Nat` so that `omega` sees through them. -/
abbrev BufId := Nat
abbrev BasisId := Nat
abbrev Handle := Nat

/-- A `BSplineBasis` record: a reference to its knot buffer and two scalar fields. -/
structure BasisRec where
  knots : Nat
  order : Nat
  periodic : Int
  deriving DecidableEq, Repr, Inhabited

/-- A `SplineObject`: references to its basis records and to its control-point buffer (a view),
    and two scalar fields. -/
structure Obj where
  bases : List Nat
  cps : Nat
  dimension : Nat
  rational : Bool
  deriving DecidableEq, Repr, Inhabited

structure Heap where
  bufs : List (List Int)
  recs : List BasisRec
  objs : List Obj
  deriving DecidableEq, Repr, Inhabited

def Heap.empty : Heap := ⟨[], [], []⟩

/-- The knot buffers reachable from `o` through its basis records. -/
def knotBufs (h : Heap) (o : Obj) : List Nat :=
  o.bases.filterMap (fun b => (h.recs[b]?).map (·.knots))

/-- All buffers owned by (reachable from) `o`. -/
def ownBufs (h : Heap) (o : Obj) : List Nat := o.cps :: knotBufs h o

/-- What Python code can observe of a basis: `order`, `periodic`, the contents of `knots`. -/
abbrev BasisObs := Option (Nat × Int × Option (List Int))

/-- What Python code can observe of an object (property C11 lists exactly these):
    `controlpoints`, every basis' `knots`/`order`/`periodic`, `dimension`, `rational`. -/
structure Observation where
  bases : List BasisObs
  cps : Option (List Int)
  dimension : Nat
  rational : Bool
  deriving DecidableEq, Repr

def observe (h : Heap) (o : Obj) : Observation where
  bases := o.bases.map (fun b => (h.recs[b]?).map (fun r => (r.order, r.periodic, h.bufs[r.knots]?)))
  cps := h.bufs[o.cps]?
  dimension := o.dimension
  rational := o.rational

/-- Observation through a handle (`none` for a dangling handle). -/
def observeAt (h : Heap) (i : Nat) : Option Observation := (h.objs[i]?).map (observe h)

/-- Well-formedness: every reference points into the heap. -/
structure WF (h : Heap) : Prop where
  cps_lt : ∀ o ∈ h.objs, o.cps < h.bufs.length
  bases_lt : ∀ o ∈ h.objs, ∀ b ∈ o.bases, b < h.recs.length
  knots_lt : ∀ r ∈ h.recs, r.knots < h.bufs.length

/-- **The separation invariant**: distinct live top-level objects own disjoint sets of buffers
    and disjoint sets of basis records. -/
def Sep (h : Heap) : Prop :=
  ∀ (i j : Nat) (a b : Obj), i ≠ j → h.objs[i]? = some a → h.objs[j]? = some b →
    (∀ x ∈ ownBufs h a, x ∉ ownBufs h b) ∧ (∀ r ∈ a.bases, r ∉ b.bases)

/-- The invariant carried along histories. -/
def Invariant (h : Heap) : Prop := WF h ∧ Sep h

/-! ## Contracts -/

/-- The contract classes of the operation table. -/
inductive Contract where
  /-- no writes; returns a number / `None` / a fresh array -/
  | query
  /-- no writes to operands; every returned object is built from fresh buffers and records -/
  | fresh
  /-- writes only state owned by the receiver; returns the receiver -/
  | inPlace
  /-- in place on the receiver, documented without return value -/
  | procedure
  /-- documented as manipulating all its operands; no return value -/
  | procedureAll
  deriving DecidableEq, Repr, Inhabited

def Contract.word : Contract → String
  | .query => "query" | .fresh => "fresh" | .inPlace => "inPlace"
  | .procedure => "procedure" | .procedureAll => "procedureAll"

/-- Why a public callable has no contract (it is not in the property's list). -/
inductive Exemption where
  /-- hands out live internals by design (`__getitem__` views, …) -/
  | accessor
  /-- takes no existing spline object / basis as input -/
  | noOperand
  deriving DecidableEq, Repr, Inhabited

/-- An entry of the operation table. -/
inductive Entry where
  | contract (c : Contract)
  | exempt (e : Exemption)
  deriving DecidableEq, Repr, Inhabited

/-! ### Relational semantics of the contracts: what an operation may DO

`InPlaceStep h h' i` : the transition `h ⟶ h'` is allowed by the in-place contract with receiver
`i`.  It may
* allocate cells (the stores only grow),
* overwrite buffers and basis records **owned by the receiver** — every other pre-existing cell is
  unchanged (frame conditions),
* rebind the receiver's fields to cells it already owned or to freshly allocated cells,
and every reference it writes (the receiver's new fields, the `knots` field of a record it wrote or
allocated) points to an allocated cell — Python cannot forge a reference.  Nothing else changes.

`FreshStep h h'` : the transition only *allocates*: new buffers, new records, and new objects all
of whose references point to cells allocated by this very step (and which are mutually disjoint).
With no new object this is the `query` contract (a fresh result array).

Well-formedness of `h'` is NOT part of these relations: it is proved from them
(`InPlaceStep.wf`, `FreshStep.wf` in `Splipy/Lemmas/C11Steps.lean`). -/

def InPlaceStep (h h' : Heap) (i : Nat) : Prop :=
  ∃ a a', h.objs[i]? = some a ∧ h'.objs = h.objs.set i a' ∧
    -- allocation only grows the stores
    h.bufs.length ≤ h'.bufs.length ∧ h.recs.length ≤ h'.recs.length ∧
    -- frame: cells not owned by the receiver are untouched
    (∀ x, x < h.bufs.length → x ∉ ownBufs h a → h'.bufs[x]? = h.bufs[x]?) ∧
    (∀ r, r < h.recs.length → r ∉ a.bases → h'.recs[r]? = h.recs[r]?) ∧
    -- the receiver's new references: owned before, or freshly allocated by this step
    (∀ r ∈ a'.bases, r ∈ a.bases ∨ (h.recs.length ≤ r ∧ r < h'.recs.length)) ∧
    (a'.cps ∈ ownBufs h a ∨ (h.bufs.length ≤ a'.cps ∧ a'.cps < h'.bufs.length)) ∧
    -- records written or allocated by this step reference buffers owned before or freshly allocated
    (∀ r rec, h'.recs[r]? = some rec → (r ∈ a.bases ∨ h.recs.length ≤ r) →
        rec.knots ∈ ownBufs h a ∨ (h.bufs.length ≤ rec.knots ∧ rec.knots < h'.bufs.length))

def FreshStep (h h' : Heap) : Prop :=
  ∃ (news : List Obj) (bufs' : List (List Int)) (recs' : List BasisRec),
    h'.objs = h.objs ++ news ∧ h'.bufs = h.bufs ++ bufs' ∧ h'.recs = h.recs ++ recs' ∧
    -- new objects and new records reference only cells allocated by this step
    (∀ o ∈ news, (h.bufs.length ≤ o.cps ∧ o.cps < h'.bufs.length) ∧
        ∀ r ∈ o.bases, h.recs.length ≤ r ∧ r < h'.recs.length) ∧
    (∀ r ∈ recs', h.bufs.length ≤ r.knots ∧ r.knots < h'.bufs.length) ∧
    -- and the new objects are mutually disjoint
    (∀ (i j : Nat) (a b : Obj), i ≠ j → news[i]? = some a → news[j]? = some b →
      (∀ x ∈ ownBufs h' a, x ∉ ownBufs h' b) ∧ (∀ r ∈ a.bases, r ∉ b.bases))

/-- `query` contract: a `FreshStep` that creates no object and no basis record. -/
def QueryStep (h h' : Heap) : Prop :=
  h'.objs = h.objs ∧ h'.recs = h.recs ∧ ∃ extra, h'.bufs = h.bufs ++ extra

/-- One contract-respecting transition. -/
def ContractStep (h h' : Heap) : Prop :=
  (∃ i, InPlaceStep h h' i) ∨ FreshStep h h' ∨ QueryStep h h'

/-- Heaps reachable from the empty heap by contract-respecting transitions (all finite histories). -/
inductive Reachable : Heap → Prop where
  | empty : Reachable Heap.empty
  | step {h h'} : Reachable h → ContractStep h h' → Reachable h'

/-! ## Executable transitions -/

/-- The primitive in-place writes Python code performs through a receiver `self`. -/
inductive Prim where
  /-- `self.controlpoints[...] = …` : overwrite the contents of the own control-point buffer -/
  | writeCps (data : List Int)
  /-- `self.controlpoints = <new array>` -/
  | rebindCps (data : List Int)
  /-- `self.bases[k].knots[...] = …`, `basis *= a` : overwrite the own knot buffer in place -/
  | writeKnots (k : Nat) (data : List Int)
  /-- `self.bases[k] = BSplineBasis(...)` / `self.bases = new_bases` : fresh record + fresh knots -/
  | rebindBasis (k : Nat) (order : Nat) (periodic : Int) (knots : List Int)
  /-- `self.bases[k].knots = <new array>`, `b.periodic -= 1`, … : write fields of an own record -/
  | setRec (k : Nat) (order : Nat) (periodic : Int) (knots : Option (List Int))
  /-- `self.bases[k], self.bases[l] = self.bases[l], self.bases[k]` -/
  | swapBases (k l : Nat)
  /-- `self.dimension = d; self.rational = r` -/
  | setScalars (dimension : Nat) (rational : Bool)
  deriving DecidableEq, Repr, Inhabited

/-- Perform one primitive write through the receiver `a` living at handle `i`. -/
def applyPrimOn (h : Heap) (i : Nat) (a : Obj) : Prim → Heap
  | .writeCps d => { h with bufs := h.bufs.set a.cps d }
  | .rebindCps d =>
      { h with bufs := h.bufs ++ [d], objs := h.objs.set i { a with cps := h.bufs.length } }
  | .writeKnots k d =>
      match a.bases[k]? with
      | none => h
      | some b =>
        match h.recs[b]? with
        | none => h
        | some r => { h with bufs := h.bufs.set r.knots d }
  | .rebindBasis k ord per d =>
      if k < a.bases.length then
        { bufs := h.bufs ++ [d]
          recs := h.recs ++ [⟨h.bufs.length, ord, per⟩]
          objs := h.objs.set i { a with bases := a.bases.set k h.recs.length } }
      else h
  | .setRec k ord per kn =>
      match a.bases[k]? with
      | none => h
      | some b =>
        match h.recs[b]? with
        | none => h
        | some r =>
          match kn with
          | none => { h with recs := h.recs.set b { r with order := ord, periodic := per } }
          | some d =>
              { h with bufs := h.bufs ++ [d]
                       recs := h.recs.set b ⟨h.bufs.length, ord, per⟩ }
  | .swapBases k l =>
      match a.bases[k]?, a.bases[l]? with
      | some x, some y =>
          { h with objs := h.objs.set i { a with bases := (a.bases.set k y).set l x } }
      | _, _ => h
  | .setScalars d r => { h with objs := h.objs.set i { a with dimension := d, rational := r } }

/-- Perform one primitive write through receiver `i` (no-op on a dangling handle/index). -/
def applyPrim (h : Heap) (i : Nat) (p : Prim) : Heap :=
  match h.objs[i]? with
  | none => h
  | some a => applyPrimOn h i a p

def applyProg (h : Heap) (i : Nat) (prog : List Prim) : Heap := prog.foldl (fun h p => applyPrim h i p) h

/-- Contents of a basis to allocate. -/
structure BasisSpec where
  order : Nat
  periodic : Int
  knots : List Int
  deriving DecidableEq, Repr, Inhabited

/-- Contents of an object to allocate. -/
structure ObjSpec where
  bases : List BasisSpec
  cps : List Int
  dimension : Nat
  rational : Bool
  deriving DecidableEq, Repr, Inhabited

/-- The copying constructor: allocate one object from fresh buffers and fresh basis records. -/
def allocObj (h : Heap) (s : ObjSpec) : Heap where
  bufs := h.bufs ++ (s.bases.map (·.knots) ++ [s.cps])
  recs := h.recs ++ s.bases.mapIdx
            (fun k (b : BasisSpec) => (⟨h.bufs.length + k, b.order, b.periodic⟩ : BasisRec))
  objs := h.objs ++ [{ bases := List.range' h.recs.length s.bases.length
                       cps := h.bufs.length + s.bases.length
                       dimension := s.dimension
                       rational := s.rational }]

/-- Allocate one result array. -/
def allocBuf (h : Heap) (d : List Int) : Heap := { h with bufs := h.bufs ++ [d] }

/-! ## Operations as Python could write them: conforming or not

`RawOp` is a contract-AGNOSTIC description of what one call does to the heap, given the operand
references `args`: it may write through ANY handle, it may build new objects and then rebind their
fields to cells of the operands (`Act.aliasCps`, `Act.aliasBasis` — a view / a shared basis record),
and it may return a view of an operand's buffer.  `exec` performs it literally, so an operation that
violates its contract is expressible and really breaks the invariant / the isolation (see the
refutation examples in `Splipy/Properties/C11.lean`).  `RawOp.respects c` is the (decidable)
condition under which such an operation is an instance of contract `c`; the theorems are about
`exec` on operations that respect their contract. -/

/-- One action through an acting handle `self`. -/
inductive Act where
  /-- a write of the receiver's own state (`Prim`) -/
  | prim (p : Prim)
  /-- `self.controlpoints = src.controlpoints` (or a view of it): ALIASES another object's buffer -/
  | aliasCps (src : Nat)
  /-- `self.bases[k] = src.bases[ks]` : SHARES another object's basis record -/
  | aliasBasis (k src ks : Nat)
  deriving DecidableEq, Repr, Inhabited

def Act.conforming : Act → Bool
  | .prim _ => true
  | _ => false

def applyAct (h : Heap) (i : Nat) : Act → Heap
  | .prim p => applyPrim h i p
  | .aliasCps src =>
      match h.objs[i]?, h.objs[src]? with
      | some a, some b => { h with objs := h.objs.set i { a with cps := b.cps } }
      | _, _ => h
  | .aliasBasis k src ks =>
      match h.objs[i]?, (h.objs[src]?).bind (fun b => b.bases[ks]?) with
      | some a, some r => { h with objs := h.objs.set i { a with bases := a.bases.set k r } }
      | _, _ => h

def applyActs (h : Heap) (i : Nat) (acts : List Act) : Heap := acts.foldl (fun h a => applyAct h i a) h

/-- What the call returns. -/
inductive Ret where
  | none
  | scalar
  /-- a freshly allocated array -/
  | newBuffer (data : List Int)
  /-- a VIEW of the control points of the live object `h` (what `section()` returned in its point
      case before it was repaired) -/
  | bufferOf (h : Nat)
  /-- the objects built by this call -/
  | newObjects
  /-- the first operand -/
  | receiver
  deriving DecidableEq, Repr, Inhabited

structure RawOp where
  /-- the operand references, receiver first -/
  args : List Nat
  /-- actions through existing handles, in order -/
  writes : List (Nat × List Act)
  /-- objects built: allocated from fresh cells (copying constructor), then acted upon -/
  news : List (ObjSpec × List Act)
  ret : Ret
  deriving Repr, Inhabited

/-- What an operation returns, as far as the heap is concerned. -/
inductive Result where
  | none
  | scalar
  | buffer (id : Nat)
  | handles (hs : List Nat)
  deriving DecidableEq, Repr, Inhabited

def applyWrites (h : Heap) (ws : List (Nat × List Act)) : Heap :=
  ws.foldl (fun h w => applyActs h w.1 w.2) h

/-- Build one object: the copying constructor, then the actions through the new handle. -/
def buildObj (h : Heap) (n : ObjSpec × List Act) : Heap :=
  applyActs (allocObj h n.1) h.objs.length n.2

def buildObjs (h : Heap) (ns : List (ObjSpec × List Act)) : Heap := ns.foldl buildObj h

/-- Perform an operation literally. -/
def exec (h : Heap) (op : RawOp) : Heap × Result :=
  let h1 := applyWrites h op.writes
  let h2 := buildObjs h1 op.news
  match op.ret with
  | .none => (h2, .none)
  | .scalar => (h2, .scalar)
  | .newBuffer d => (allocBuf h2 d, .buffer h2.bufs.length)
  | .bufferOf x => (h2, match h2.objs[x]? with | some a => .buffer a.cps | none => .none)
  | .newObjects => (h2, .handles (List.range' h1.objs.length op.news.length))
  | .receiver => (h2, match op.args with | r :: _ => .handles [r] | [] => .none)

/-- All actions are writes of the acting handle's own state. -/
def RawOp.conforming (op : RawOp) : Bool :=
  op.writes.all (fun w => w.2.all Act.conforming) && op.news.all (fun n => n.2.all Act.conforming)

/-- The handles contract `c` allows operation `op` to write through. -/
def RawOp.receivers (c : Contract) (op : RawOp) : List Nat :=
  match c with
  | .query => []
  | .fresh => []
  | .inPlace => op.args.take 1
  | .procedure => op.args.take 1
  | .procedureAll => op.args

/-- **Is `op` an instance of contract `c`?**  All actions conform; writes go only through the
    receivers the contract allows; only `fresh` builds objects; and the return value is the one the
    contract promises (never a view of an operand). -/
def RawOp.respects (c : Contract) (op : RawOp) : Bool :=
  op.conforming &&
  op.writes.all (fun w => (op.receivers c).contains w.1) &&
  (match c with
   | .query => op.news.isEmpty && (match op.ret with | .none => true | .scalar => true | .newBuffer _ => true | _ => false)
   | .fresh => (match op.ret with | .newObjects => true | .none => true | .newBuffer _ => true | _ => false)
   | .inPlace => op.news.isEmpty && !op.args.isEmpty && op.ret == .receiver
   | .procedure => op.news.isEmpty && op.ret == .none
   | .procedureAll => op.news.isEmpty && op.ret == .none)

/-- Run a history of (contract, operation) pairs. -/
def run (h : Heap) (hist : List (Contract × RawOp)) : Heap := hist.foldl (fun h e => (exec h e.2).1) h

/-! ## The observables predicted for the correspondence run -/

def intersects (xs ys : List Nat) : Bool := xs.any (fun x => ys.contains x)

/-- Do two objects share a buffer or a basis record? -/
def sharesState (h : Heap) (a b : Obj) : Bool :=
  intersects (ownBufs h a) (ownBufs h b) || intersects a.bases b.bases

/-- The sharing graph over live handles: all pairs `i < j` that share state. -/
def sharingEdges (h : Heap) : List (Nat × Nat) :=
  (List.range h.objs.length).flatMap fun i =>
    (List.range h.objs.length).filterMap fun j =>
      match h.objs[i]?, h.objs[j]? with
      | some a, some b => if i < j && sharesState h a b then some (i, j) else none
      | _, _ => none

/-- The write set of a transition: the pre-existing handles whose observation changed. -/
def writeSet (h h' : Heap) : List Nat :=
  (List.range h.objs.length).filter fun i => observeAt h i != observeAt h' i

/-- Which handles share a buffer with a given buffer id (for array results). -/
def bufferSharers (h : Heap) (id : Nat) : List Nat :=
  (List.range h.objs.length).filter fun i =>
    match h.objs[i]? with
    | some a => (ownBufs h a).contains id
    | none => false

/-- Executable check of `Sep` (sound: see `sepB_sound`). -/
def sepB (h : Heap) : Bool :=
  (List.range h.objs.length).all fun i =>
    (List.range h.objs.length).all fun j =>
      i == j ||
      match h.objs[i]?, h.objs[j]? with
      | some a, some b => !sharesState h a b
      | _, _ => true

/-- Executable check of `WF`. -/
def wfB (h : Heap) : Bool :=
  h.objs.all (fun o => decide (o.cps < h.bufs.length) && o.bases.all (fun b => decide (b < h.recs.length)))
  && h.recs.all (fun r => decide (r.knots < h.bufs.length))

/-! ## Source-derived effects

`Effect` is the summary that the AST effect inference (harness/props/_c11_effects.py) computes for
the body of an operation, regenerated from the library sources on every run and emitted next to
the contract table (`Splipy.Generated.C11.effect`).  `Consistent c e` is the (decidable) relation
"effect `e`, as read off the source, is allowed by contract `c`".  Parameters are numbered as in the
`def` (receiver `self` = 0, `cls` of a classmethod not counted); `operands` lists the parameters
that are operands in the sense of the property (spline objects / bases), the others (parameter
arrays, numbers, flags) are not constrained by C11. -/

/-- What a `return` may hand back. -/
inductive RetKind where
  /-- the object passed as parameter `k` itself -/
  | param (k : Nat)
  /-- a view / alias of mutable state of parameter `k` (attribute, slice, numpy view, shallow copy,
      container of its internals) -/
  | view (k : Nat)
  /-- a fresh value: copying constructor, `clone`, `deepcopy`, numpy arithmetic, a number -/
  | fresh
  | none_
  /-- the inference could not decide (the dynamic experiment remains the only premise) -/
  | unknown
  deriving DecidableEq, Repr, Inhabited

structure Effect where
  /-- a source function was found and analysed -/
  analysed : Bool
  operands : List Nat
  /-- parameters through which the body (or a library callee) may write -/
  stores : List Nat
  /-- a write through a value of unknown origin was seen -/
  storesUnknown : Bool
  returns : List RetKind
  /-- `(t, s)`: a reference to state of parameter `s` is stored into parameter `t` -/
  captures : List (Nat × Nat)
  /-- the table documents a variant of this operation as an accessor handing out live internals
      by design (`knots(with_multiplicities=True)`): alias returns are not held against it -/
  allowViewReturn : Bool
  deriving DecidableEq, Repr, Inhabited

def Effect.notAnalysed : Effect :=
  { analysed := false, operands := [], stores := [], storesUnknown := false, returns := [],
    captures := [], allowViewReturn := false }

def Effect.receiver (e : Effect) : Nat := e.operands.headD 0

/-- no store through an operand -/
def Effect.noOperandStores (e : Effect) : Bool := e.stores.all (fun k => !e.operands.contains k)

/-- stores through operands go through the receiver only -/
def Effect.storesOnlyReceiver (e : Effect) : Bool :=
  e.stores.all (fun k => !e.operands.contains k || k == e.receiver)

/-- no returned value is an operand or a view/alias of one -/
def Effect.returnsNoAlias (e : Effect) : Bool :=
  e.allowViewReturn || e.returns.all (fun r =>
    match r with
    | .param k => !e.operands.contains k
    | .view k => !e.operands.contains k
    | _ => true)

/-- nothing keeps a reference to state of an operand (other than the operand itself) -/
def Effect.noCaptures (e : Effect) : Bool :=
  e.captures.all (fun c => !e.operands.contains c.2 || c.1 == c.2)

/-- the receiver keeps no reference to state of another operand -/
def Effect.receiverCapturesNothing (e : Effect) : Bool :=
  e.captures.all (fun c => !(c.1 == e.receiver && e.operands.contains c.2 && c.1 != c.2))

def Effect.returnsOnly (e : Effect) (r : RetKind) : Bool :=
  e.returns.all (fun x => x == r || x == .unknown)

/-- **Consistency of a contract with the effect read off the source.**
* `query` / `fresh`: no store through an operand (a parameter rebound to a clone is a local), no
  returned value aliases an operand, nothing keeps a reference to operand state;
* `inPlace`: stores through operands only through the receiver, every `return` returns the
  receiver, the receiver keeps no reference to another operand's state;
* `procedure`: the same with every `return` returning `None`;
* `procedureAll`: every `return` returns `None`.
Aspects the inference marks `unknown` are not held against the contract (they stay premises of the
dynamic experiment) and are counted separately (`Effect.fullyChecked`). -/
def Consistent (c : Contract) (e : Effect) : Bool :=
  !e.analysed ||
  match c with
  | .query => e.noOperandStores && e.returnsNoAlias && e.noCaptures
  | .fresh => e.noOperandStores && e.returnsNoAlias && e.noCaptures
  | .inPlace => e.storesOnlyReceiver && e.returnsOnly (.param e.receiver) && e.receiverCapturesNothing
  | .procedure => e.storesOnlyReceiver && e.returnsOnly .none_ && e.receiverCapturesNothing
  | .procedureAll => e.returnsOnly .none_

/-- Analysed with no `unknown` aspect: the contract is checked against the source completely. -/
def Effect.fullyChecked (e : Effect) : Bool :=
  e.analysed && !e.storesUnknown && !e.returns.contains .unknown

/-- Analysed, but some aspect is `unknown`. -/
def Effect.partlyChecked (e : Effect) : Bool := e.analysed && !e.fullyChecked

end Splipy.Heap
