/-!
# An explicit heap model for property C11 (core Lean only, no Mathlib)

Property C11 ("non-in-place operations neither modify nor alias their operands") is a statement
about Python's *heap*: which `numpy` buffers and which `BSplineBasis` records are reachable from
which `SplineObject`, and who writes where.  A functional model of the geometry erases exactly
that, so it is modelled explicitly here:

* `bufs`  — the numpy buffers (`BufId ↦ contents`).  A numpy *view* is a reference to the buffer
  of its base array; the layout (shape/strides) of a view is irrelevant for aliasing and is erased.
* `recs`  — the `BSplineBasis` records (`BasisId ↦ {knots : BufId, order, periodic}`).
* `objs`  — the live top-level objects (`Handle ↦ {bases : List BasisId, cps : BufId, dimension,
  rational}`).  Objects never die in the model (garbage collection cannot create aliasing).

Every public operation of the library is given a **contract** (`Contract`); the relations
`InPlaceStep` / `FreshStep` say what a heap transition may do under each contract, and `step`
is an executable transition function that performs exactly such transitions (for arbitrary
payloads: the *values* written are irrelevant, only *where* they are written).

What is proved about this model is in `Splipy/Lemmas/C11Heap.lean` and `Splipy/Properties/C11.lean`.
That a given Python operation really behaves as its contract says is **not** proved from the
Python source: it is the premise that the correspondence run (harness/props/C11.py) validates
dynamically for every operation × operand class.
-/

namespace Splipy.Heap

/-- Identifiers are plain naturals (indices into the three stores).  The names below are
    documentation only: signatures use `Nat` so that `omega` sees through them. -/
abbrev BufId := Nat
abbrev BasisId := Nat
abbrev Handle := Nat

/-- A `BSplineBasis` record: a reference to its knot buffer and two scalar fields. -/
structure BasisRec where
  knots : Nat
  order : Nat
  periodic : Int
  deriving DecidableEq, Repr, Inhabited

/-- A `SplineObject`: references to its basis records and to its control-point buffer (a view),
    and two scalar fields. -/
structure Obj where
  bases : List Nat
  cps : Nat
  dimension : Nat
  rational : Bool
  deriving DecidableEq, Repr, Inhabited

structure Heap where
  bufs : List (List Int)
  recs : List BasisRec
  objs : List Obj
  deriving DecidableEq, Repr, Inhabited

def Heap.empty : Heap := ⟨[], [], []⟩

/-- The knot buffers reachable from `o` through its basis records. -/
def knotBufs (h : Heap) (o : Obj) : List Nat :=
  o.bases.filterMap (fun b => (h.recs[b]?).map (·.knots))

/-- All buffers owned by (reachable from) `o`. -/
def ownBufs (h : Heap) (o : Obj) : List Nat := o.cps :: knotBufs h o

/-- What Python code can observe of a basis: `order`, `periodic`, the contents of `knots`. -/
abbrev BasisObs := Option (Nat × Int × Option (List Int))

/-- What Python code can observe of an object (property C11 lists exactly these):
    `controlpoints`, every basis' `knots`/`order`/`periodic`, `dimension`, `rational`. -/
structure Observation where
  bases : List BasisObs
  cps : Option (List Int)
  dimension : Nat
  rational : Bool
  deriving DecidableEq, Repr

def observe (h : Heap) (o : Obj) : Observation where
  bases := o.bases.map (fun b => (h.recs[b]?).map (fun r => (r.order, r.periodic, h.bufs[r.knots]?)))
  cps := h.bufs[o.cps]?
  dimension := o.dimension
  rational := o.rational

/-- Observation through a handle (`none` for a dangling handle). -/
def observeAt (h : Heap) (i : Nat) : Option Observation := (h.objs[i]?).map (observe h)

/-- Well-formedness: every reference points into the heap. -/
structure WF (h : Heap) : Prop where
  cps_lt : ∀ o ∈ h.objs, o.cps < h.bufs.length
  bases_lt : ∀ o ∈ h.objs, ∀ b ∈ o.bases, b < h.recs.length
  knots_lt : ∀ r ∈ h.recs, r.knots < h.bufs.length

/-- **The separation invariant**: distinct live top-level objects own disjoint sets of buffers
    and disjoint sets of basis records. -/
def Sep (h : Heap) : Prop :=
  ∀ (i j : Nat) (a b : Obj), i ≠ j → h.objs[i]? = some a → h.objs[j]? = some b →
    (∀ x ∈ ownBufs h a, x ∉ ownBufs h b) ∧ (∀ r ∈ a.bases, r ∉ b.bases)

/-- The invariant carried along histories. -/
def Invariant (h : Heap) : Prop := WF h ∧ Sep h

/-! ## Contracts -/

/-- The contract classes of the operation table. -/
inductive Contract where
  /-- no writes; returns a number / `None` / a fresh array -/
  | query
  /-- no writes to operands; every returned object is built from fresh buffers and records -/
  | fresh
  /-- writes only state owned by the receiver; returns the receiver -/
  | inPlace
  /-- in place on the receiver, documented without return value -/
  | procedure
  /-- documented as manipulating all its operands; no return value -/
  | procedureAll
  deriving DecidableEq, Repr, Inhabited

def Contract.word : Contract → String
  | .query => "query" | .fresh => "fresh" | .inPlace => "inPlace"
  | .procedure => "procedure" | .procedureAll => "procedureAll"

/-- Why a public callable has no contract (it is not in the property's list). -/
inductive Exemption where
  /-- hands out live internals by design (`__getitem__` views, …) -/
  | accessor
  /-- takes no existing spline object / basis as input -/
  | noOperand
  deriving DecidableEq, Repr, Inhabited

/-- An entry of the operation table. -/
inductive Entry where
  | contract (c : Contract)
  | exempt (e : Exemption)
  deriving DecidableEq, Repr, Inhabited

/-! ### Relational semantics of the contracts

`InPlaceStep h h' i` : the transition `h ⟶ h'` is allowed by the in-place contract with receiver
`i`: it may overwrite buffers and basis records *owned by the receiver*, allocate new ones, and
rebind the receiver's fields to things it already owned or that are fresh.  Nothing else changes.

`FreshStep h h'` : the transition only *allocates*: new buffers, new records, and new objects all
of whose references are fresh (and mutually disjoint).  With no new object this is the `query`
contract (a fresh result array). -/

def InPlaceStep (h h' : Heap) (i : Nat) : Prop :=
  ∃ a a', h.objs[i]? = some a ∧ h'.objs = h.objs.set i a' ∧
    h.bufs.length ≤ h'.bufs.length ∧ h.recs.length ≤ h'.recs.length ∧
    (∀ x, x < h.bufs.length → x ∉ ownBufs h a → h'.bufs[x]? = h.bufs[x]?) ∧
    (∀ r, r < h.recs.length → r ∉ a.bases → h'.recs[r]? = h.recs[r]?) ∧
    (∀ r ∈ a'.bases, r ∈ a.bases ∨ h.recs.length ≤ r) ∧
    (∀ x ∈ ownBufs h' a', x ∈ ownBufs h a ∨ h.bufs.length ≤ x) ∧
    WF h'

def FreshStep (h h' : Heap) : Prop :=
  ∃ (news : List Obj) (bufs' : List (List Int)) (recs' : List BasisRec),
    h'.objs = h.objs ++ news ∧ h'.bufs = h.bufs ++ bufs' ∧ h'.recs = h.recs ++ recs' ∧
    (∀ o ∈ news, h.bufs.length ≤ o.cps ∧ ∀ r ∈ o.bases, h.recs.length ≤ r) ∧
    (∀ r ∈ recs', h.bufs.length ≤ r.knots) ∧
    (∀ (i j : Nat) (a b : Obj), i ≠ j → news[i]? = some a → news[j]? = some b →
      (∀ x ∈ ownBufs h' a, x ∉ ownBufs h' b) ∧ (∀ r ∈ a.bases, r ∉ b.bases)) ∧
    WF h'

/-- `query` contract: a `FreshStep` that creates no object and no basis record. -/
def QueryStep (h h' : Heap) : Prop :=
  h'.objs = h.objs ∧ h'.recs = h.recs ∧ ∃ extra, h'.bufs = h.bufs ++ extra

/-- One contract-respecting transition. -/
def ContractStep (h h' : Heap) : Prop :=
  (∃ i, InPlaceStep h h' i) ∨ FreshStep h h' ∨ QueryStep h h'

/-- Heaps reachable from the empty heap by contract-respecting transitions (all finite histories). -/
inductive Reachable : Heap → Prop where
  | empty : Reachable Heap.empty
  | step {h h'} : Reachable h → ContractStep h h' → Reachable h'

/-! ## Executable transitions -/

/-- The primitive in-place writes Python code performs through a receiver `self`. -/
inductive Prim where
  /-- `self.controlpoints[...] = …` : overwrite the contents of the own control-point buffer -/
  | writeCps (data : List Int)
  /-- `self.controlpoints = <new array>` -/
  | rebindCps (data : List Int)
  /-- `self.bases[k].knots[...] = …`, `basis *= a` : overwrite the own knot buffer in place -/
  | writeKnots (k : Nat) (data : List Int)
  /-- `self.bases[k] = BSplineBasis(...)` / `self.bases = new_bases` : fresh record + fresh knots -/
  | rebindBasis (k : Nat) (order : Nat) (periodic : Int) (knots : List Int)
  /-- `self.bases[k].knots = <new array>`, `b.periodic -= 1`, … : write fields of an own record -/
  | setRec (k : Nat) (order : Nat) (periodic : Int) (knots : Option (List Int))
  /-- `self.bases[k], self.bases[l] = self.bases[l], self.bases[k]` -/
  | swapBases (k l : Nat)
  /-- `self.dimension = d; self.rational = r` -/
  | setScalars (dimension : Nat) (rational : Bool)
  deriving DecidableEq, Repr, Inhabited

/-- Perform one primitive write through the receiver `a` living at handle `i`. -/
def applyPrimOn (h : Heap) (i : Nat) (a : Obj) : Prim → Heap
  | .writeCps d => { h with bufs := h.bufs.set a.cps d }
  | .rebindCps d =>
      { h with bufs := h.bufs ++ [d], objs := h.objs.set i { a with cps := h.bufs.length } }
  | .writeKnots k d =>
      match a.bases[k]? with
      | none => h
      | some b =>
        match h.recs[b]? with
        | none => h
        | some r => { h with bufs := h.bufs.set r.knots d }
  | .rebindBasis k ord per d =>
      if k < a.bases.length then
        { bufs := h.bufs ++ [d]
          recs := h.recs ++ [⟨h.bufs.length, ord, per⟩]
          objs := h.objs.set i { a with bases := a.bases.set k h.recs.length } }
      else h
  | .setRec k ord per kn =>
      match a.bases[k]? with
      | none => h
      | some b =>
        match h.recs[b]? with
        | none => h
        | some r =>
          match kn with
          | none => { h with recs := h.recs.set b { r with order := ord, periodic := per } }
          | some d =>
              { h with bufs := h.bufs ++ [d]
                       recs := h.recs.set b ⟨h.bufs.length, ord, per⟩ }
  | .swapBases k l =>
      match a.bases[k]?, a.bases[l]? with
      | some x, some y =>
          { h with objs := h.objs.set i { a with bases := (a.bases.set k y).set l x } }
      | _, _ => h
  | .setScalars d r => { h with objs := h.objs.set i { a with dimension := d, rational := r } }

/-- Perform one primitive write through receiver `i` (no-op on a dangling handle/index). -/
def applyPrim (h : Heap) (i : Nat) (p : Prim) : Heap :=
  match h.objs[i]? with
  | none => h
  | some a => applyPrimOn h i a p

def applyProg (h : Heap) (i : Nat) (prog : List Prim) : Heap := prog.foldl (fun h p => applyPrim h i p) h

/-- Contents of a basis to allocate. -/
structure BasisSpec where
  order : Nat
  periodic : Int
  knots : List Int
  deriving DecidableEq, Repr, Inhabited

/-- Contents of an object to allocate. -/
structure ObjSpec where
  bases : List BasisSpec
  cps : List Int
  dimension : Nat
  rational : Bool
  deriving DecidableEq, Repr, Inhabited

/-- The copying constructor: allocate one object from fresh buffers and fresh basis records. -/
def allocObj (h : Heap) (s : ObjSpec) : Heap where
  bufs := h.bufs ++ (s.bases.map (·.knots) ++ [s.cps])
  recs := h.recs ++ s.bases.mapIdx
            (fun k (b : BasisSpec) => (⟨h.bufs.length + k, b.order, b.periodic⟩ : BasisRec))
  objs := h.objs ++ [{ bases := List.range' h.recs.length s.bases.length
                       cps := h.bufs.length + s.bases.length
                       dimension := s.dimension
                       rational := s.rational }]

def allocObjs (h : Heap) (ss : List ObjSpec) : Heap := ss.foldl allocObj h

/-- Allocate one result array. -/
def allocBuf (h : Heap) (d : List Int) : Heap := { h with bufs := h.bufs ++ [d] }

/-- An operation instance: its contract together with the operand handles and the payload
    (the values written / allocated — arbitrary). -/
inductive Op where
  /-- `query`: returns a scalar (`payload = none`) or a fresh array -/
  | query (args : List Nat) (payload : Option (List Int))
  /-- `fresh`: returns new objects -/
  | fresh (args : List Nat) (news : List ObjSpec)
  /-- `inPlace` (`returnsSelf = true`) / `procedure` (`false`): program of writes through `recv` -/
  | inPlace (recv : Nat) (others : List Nat) (prog : List Prim) (returnsSelf : Bool)
  /-- `procedureAll`: a program of writes through each operand -/
  | inPlaceAll (progs : List (Nat × List Prim))
  deriving Repr, Inhabited

/-- What an operation returns, as far as the heap is concerned. -/
inductive Result where
  | none
  | scalar
  | buffer (id : Nat)
  | handles (hs : List Nat)
  deriving DecidableEq, Repr, Inhabited

def step (h : Heap) : Op → Heap × Result
  | .query _ none => (h, .scalar)
  | .query _ (some d) => (allocBuf h d, .buffer h.bufs.length)
  | .fresh _ news => (allocObjs h news, .handles (List.range' h.objs.length news.length))
  | .inPlace recv _ prog rs => (applyProg h recv prog, if rs then .handles [recv] else .none)
  | .inPlaceAll progs => (progs.foldl (fun h p => applyProg h p.1 p.2) h, .none)

/-- Run a history from a given heap. -/
def run (h : Heap) (ops : List Op) : Heap := ops.foldl (fun h op => (step h op).1) h

/-! ## The observables predicted for the correspondence run -/

def intersects (xs ys : List Nat) : Bool := xs.any (fun x => ys.contains x)

/-- Do two objects share a buffer or a basis record? -/
def sharesState (h : Heap) (a b : Obj) : Bool :=
  intersects (ownBufs h a) (ownBufs h b) || intersects a.bases b.bases

/-- The sharing graph over live handles: all pairs `i < j` that share state. -/
def sharingEdges (h : Heap) : List (Nat × Nat) :=
  (List.range h.objs.length).flatMap fun i =>
    (List.range h.objs.length).filterMap fun j =>
      match h.objs[i]?, h.objs[j]? with
      | some a, some b => if i < j && sharesState h a b then some (i, j) else none
      | _, _ => none

/-- The write set of a transition: the pre-existing handles whose observation changed. -/
def writeSet (h h' : Heap) : List Nat :=
  (List.range h.objs.length).filter fun i => observeAt h i != observeAt h' i

/-- Which handles share a buffer with a given buffer id (for array results). -/
def bufferSharers (h : Heap) (id : Nat) : List Nat :=
  (List.range h.objs.length).filter fun i =>
    match h.objs[i]? with
    | some a => (ownBufs h a).contains id
    | none => false

/-- Executable check of `Sep` (sound: see `sepB_sound`). -/
def sepB (h : Heap) : Bool :=
  (List.range h.objs.length).all fun i =>
    (List.range h.objs.length).all fun j =>
      i == j ||
      match h.objs[i]?, h.objs[j]? with
      | some a, some b => !sharesState h a b
      | _, _ => true

/-- Executable check of `WF`. -/
def wfB (h : Heap) : Bool :=
  h.objs.all (fun o => decide (o.cps < h.bufs.length) && o.bases.all (fun b => decide (b < h.recs.length)))
  && h.recs.all (fun r => decide (r.knots < h.bufs.length))

/-! ## Source-derived effects

`Effect` is the summary that the AST effect inference (harness/props/_c11_effects.py) computes for
the body of an operation, regenerated from the library sources on every run and emitted next to
the contract table (`Splipy.Generated.C11.effect`).  `Consistent c e` is the (decidable) relation
"effect `e`, as read off the source, is allowed by contract `c`".  Parameters are numbered as in the
`def` (receiver `self` = 0, `cls` of a classmethod not counted); `operands` lists the parameters
that are operands in the sense of the property (spline objects / bases), the others (parameter
arrays, numbers, flags) are not constrained by C11. -/

/-- What a `return` may hand back. -/
inductive RetKind where
  /-- the object passed as parameter `k` itself -/
  | param (k : Nat)
  /-- a view / alias of mutable state of parameter `k` (attribute, slice, numpy view, shallow copy,
      container of its internals) -/
  | view (k : Nat)
  /-- a fresh value: copying constructor, `clone`, `deepcopy`, numpy arithmetic, a number -/
  | fresh
  | none_
  /-- the inference could not decide (the dynamic experiment remains the only premise) -/
  | unknown
  deriving DecidableEq, Repr, Inhabited

structure Effect where
  /-- a source function was found and analysed -/
  analysed : Bool
  operands : List Nat
  /-- parameters through which the body (or a library callee) may write -/
  stores : List Nat
  /-- a write through a value of unknown origin was seen -/
  storesUnknown : Bool
  returns : List RetKind
  /-- `(t, s)`: a reference to state of parameter `s` is stored into parameter `t` -/
  captures : List (Nat × Nat)
  /-- the table documents a variant of this operation as an accessor handing out live internals
      by design (`knots(with_multiplicities=True)`): alias returns are not held against it -/
  allowViewReturn : Bool
  deriving DecidableEq, Repr, Inhabited

def Effect.notAnalysed : Effect :=
  { analysed := false, operands := [], stores := [], storesUnknown := false, returns := [],
    captures := [], allowViewReturn := false }

def Effect.receiver (e : Effect) : Nat := e.operands.headD 0

/-- no store through an operand -/
def Effect.noOperandStores (e : Effect) : Bool := e.stores.all (fun k => !e.operands.contains k)

/-- stores through operands go through the receiver only -/
def Effect.storesOnlyReceiver (e : Effect) : Bool :=
  e.stores.all (fun k => !e.operands.contains k || k == e.receiver)

/-- no returned value is an operand or a view/alias of one -/
def Effect.returnsNoAlias (e : Effect) : Bool :=
  e.allowViewReturn || e.returns.all (fun r =>
    match r with
    | .param k => !e.operands.contains k
    | .view k => !e.operands.contains k
    | _ => true)

/-- nothing keeps a reference to state of an operand (other than the operand itself) -/
def Effect.noCaptures (e : Effect) : Bool :=
  e.captures.all (fun c => !e.operands.contains c.2 || c.1 == c.2)

/-- the receiver keeps no reference to state of another operand -/
def Effect.receiverCapturesNothing (e : Effect) : Bool :=
  e.captures.all (fun c => !(c.1 == e.receiver && e.operands.contains c.2 && c.1 != c.2))

def Effect.returnsOnly (e : Effect) (r : RetKind) : Bool :=
  e.returns.all (fun x => x == r || x == .unknown)

/-- **Consistency of a contract with the effect read off the source.**
* `query` / `fresh`: no store through an operand (a parameter rebound to a clone is a local), no
  returned value aliases an operand, nothing keeps a reference to operand state;
* `inPlace`: stores through operands only through the receiver, every `return` returns the
  receiver, the receiver keeps no reference to another operand's state;
* `procedure`: the same with every `return` returning `None`;
* `procedureAll`: every `return` returns `None`.
Aspects the inference marks `unknown` are not held against the contract (they stay premises of the
dynamic experiment) and are counted separately (`Effect.fullyChecked`). -/
def Consistent (c : Contract) (e : Effect) : Bool :=
  !e.analysed ||
  match c with
  | .query => e.noOperandStores && e.returnsNoAlias && e.noCaptures
  | .fresh => e.noOperandStores && e.returnsNoAlias && e.noCaptures
  | .inPlace => e.storesOnlyReceiver && e.returnsOnly (.param e.receiver) && e.receiverCapturesNothing
  | .procedure => e.storesOnlyReceiver && e.returnsOnly .none_ && e.receiverCapturesNothing
  | .procedureAll => e.returnsOnly .none_

/-- Analysed with no `unknown` aspect: the contract is checked against the source completely. -/
def Effect.fullyChecked (e : Effect) : Bool :=
  e.analysed && !e.storesUnknown && !e.returns.contains .unknown

/-- Analysed, but some aspect is `unknown`. -/
def Effect.partlyChecked (e : Effect) : Bool := e.analysed && !e.fullyChecked

/-- A step that VIOLATES the contracts (used only in examples, to show that the invariant and the
    isolation theorem are not vacuous): hand out an object whose control points are a *view* of
    the operand's buffer — the unfixed shape of `section()`'s point case (it returned
    `self.controlpoints[slices]` without a copy before the fix; the check reports it again should it return). -/
def aliasView (h : Heap) (i : Nat) : Heap :=
  match h.objs[i]? with
  | none => h
  | some a => { h with objs := h.objs ++ [{ bases := [], cps := a.cps, dimension := a.dimension, rational := a.rational }] }

end Splipy.Heap
