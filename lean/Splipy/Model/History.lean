import Splipy.Model.WellFormed
import Splipy.Model.Refine
import Splipy.Model.Order
import Splipy.Model.Reparam
import Splipy.Model.Split
import Splipy.Model.Periodic
import Splipy.Model.AffineOps
import Splipy.Model.Sections
import Splipy.Model.Identical

/-!
# Histories over the public mutating / constructing API (property C10)

Nothing is modelled here: `History.step` only DISPATCHES one call of the public API to the model
function of the property that owns it

| call                                         | model function                          | property |
|----------------------------------------------|-----------------------------------------|----------|
| `insert_knot(knots, direction)`              | `Obj.insertKnotDir`                     | C04 |
| `refine(*ns, direction=…)`                   | `Obj.refine`                            | C04 |
| `raise_order(*raises, direction=…)`          | `Obj.raiseOrderDispatch`                | C05 |
| `lower_order(*lowers)`                       | `Obj.lowerOrder`                        | C05 |
| `reverse(direction)` / `swap(d1, d2)`        | `Obj.reverseTok` / `Obj.swapTok` | C06 |
| `reparam((s,e), direction=d)` / `reparam(*a)`| `Obj.reparamDirTok` / `Obj.reparamArgs` | C06 |
| `split(knots, direction)`                    | `Obj.split`                             | C07 |
| `Curve.append(other)`                        | `Obj.appendCurve` (+ `curveRaiseOrder`) | C07, C05 |
| `make_periodic(continuity, direction)`       | `Obj.makePeriodic`                      | C08 |
| `lower_periodic(periodic, direction)`        | `Obj.lowerPeriodic`                     | C08 |
| `translate / scale / rotate / mirror / project / set_dimension / force_rational`, operators | `AffOp.step` | C09 |
| `section(*args)`                             | `Obj.section`                           | C15 |
| `surface_factory.extrude / volume_factory.extrude` | `Obj.extrude`                     | C15 |
| `clone()`                                    | identity                                | – |
| `SplineObject.make_splines_identical(a, b, direction=…)` (pool instruction, mutates BOTH) | `Obj.makeIdentical` | C12 |

A call acts on one receiver.  Its outcome (`Out`) is the state of the receiver afterwards together with
the objects the call created (`split` returns several, `lower_order`, `make_periodic`, `section`,
`clone`, the factories and the infix operators one, the in-place methods none).
`History.step` lists them (`receiver :: created`), `History.run` executes a list of instructions on a
pool of objects: the receiver is replaced, created objects are appended to the pool.
A call that raises ends the history (`Except`): property C10 only speaks about sequences of
operations that complete without raising.
-/

namespace Splipy

variable {K : Type} [Field K] [LinearOrder K] [FloorRing K]

namespace History

/-- One call of the public API on a receiver. -/
inductive Op (K : Type) where
  | insertKnot (knots : List K) (dir : ℕ)
  | refine (ns : List ℕ) (direction : Option ℕ)
  | raiseOrder (raises : List Int) (direction : Option Int)
  | lowerOrder (lowers : List Int)
  | reverse (dir : ℕ)
  | swap (d1 d2 : ℕ)
  /-- `reparam((s, e), direction=dir)` -/
  | reparam (dir : ℕ) (s e : K)
  /-- `reparam(*args)` -/
  | reparamAll (args : List (List K))
  | split (knots : List K) (dir : ℕ)
  /-- `Curve.append(other)` (`other` is cloned by the code) -/
  | append (other : Obj K)
  | makePeriodic (continuity : Option Int) (dir : ℕ)
  | lowerPeriodic (target : Int) (dir : ℕ)
  /-- the affine family, methods and operator forms -/
  | affine (op : AffOp K)
  /-- `section(*sec)` with at least one free direction -/
  | «section» (sec : Sections.Sec)
  /-- `surface_factory.extrude(curve, amount)` / `volume_factory.extrude(surface, amount)` -/
  | extrude (amount : List K)
  | clone
  deriving Inhabited

/-- Outcome of a call: the receiver afterwards and the objects the call created. -/
structure Out (K : Type) where
  recv : Obj K
  news : List (Obj K)
  deriving Inhabited

/-- An in-place call. -/
def inPlace (r : PyM (Obj K)) : PyM (Out K) := r.map (fun o => { recv := o, news := [] })

/-- A call creating one object, receiver untouched. -/
def fresh (o : Obj K) (r : PyM (Obj K)) : PyM (Out K) := r.map (fun n => { recv := o, news := [n] })

/-- An in-place call of the C06 family (`ReStep`: new receiver + optional exception). -/
def ofReStep (s : ReStep K) : PyM (Out K) :=
  match s.err with
  | some e => .error e
  | none => .ok { recv := s.obj, news := [] }

/-- `Curve.append(other)`: `make_splines_compatible`, the lower order is raised by
    `Curve.raise_order`, then the merge of `Obj.appendCurve` (which repeats the idempotent
    compatibility step and now finds equal orders). -/
def append (a c : Obj K) (tol : K) : PyM (Obj K) := do
  if (a.basis 0).periodic > -1 ∨ (c.basis 0).periodic > -1 then throw .runtime
  let (a1, c1) := Obj.compatible a c
  let p1 : Int := (a1.basis 0).order
  let p2 : Int := (c1.basis 0).order
  let (a2, c2) ← (if p1 < p2 then do
      let r ← a1.curveRaiseOrder tol (p2 - p1)
      pure (r.2, c1)
    else do
      let r ← c1.curveRaiseOrder tol (p1 - p2)
      pure (a1, r.2) : PyM (Obj K × Obj K))
  match ← a2.appendCurve c2 tol with
  | some o => pure o
  | none => throw .other

/-- One call.  `tol` is `state.knot_tolerance`.  The class of the receiver (`Curve` overrides
    `raise_order`; `append` exists on curves only; the factory is chosen by the caller) is read off
    the number of bases. -/
def stepOut (tol : K) (o : Obj K) : Op K → PyM (Out K)
  | .insertKnot knots dir => inPlace (o.insertKnotDir knots dir)
  | .refine ns direction => inPlace (o.refine tol ns direction)
  | .raiseOrder raises direction =>
      inPlace ((o.raiseOrderDispatch tol (o.bases.size == 1) raises direction).map (·.2))
  | .lowerOrder lowers => fresh o ((o.lowerOrder tol lowers).map (·.2))
  | .reverse dir => ofReStep (o.reverseTok (.int dir))
  | .swap d1 d2 => ofReStep (o.swapTok (.int d1) (.int d2))
  | .reparam dir s e => ofReStep (o.reparamDirTok (.int dir) [[s, e]])
  | .reparamAll args => ofReStep (o.reparamArgs args)
  | .split knots dir =>
      if dir < o.pardim then
        (o.split tol knots dir).map (fun r => match r with
          | .single p => { recv := o, news := [p] }
          | .many ps => { recv := o, news := ps })
      else .error .value
  | .append other =>
      if o.bases.size = 1 ∧ other.bases.size = 1 then inPlace (append o other tol) else .error .attribute
  | .makePeriodic c dir => if dir < o.pardim then fresh o (o.makePeriodic tol c dir) else .error .value
  | .lowerPeriodic t dir => if dir < o.pardim then inPlace (o.lowerPeriodic t dir) else .error .value
  | .affine op =>
      (op.step o).map (fun r => if r.returnsSelf then { recv := r.obj, news := [] }
                                else { recv := o, news := [r.obj] })
  | .section sec =>
      if sec.length > o.pardim then .error .other else
      (o.section sec [] true).map (fun r => match r with
        | .obj _ s => { recv := o, news := [s] }
        | .point _ => { recv := o, news := [] })
  | .extrude amount =>
      -- both factories work on a clone of their operand
      if o.bases.size = 1 ∨ o.bases.size = 2 then fresh o (o.extrude amount) else .error .other
  | .clone => .ok { recv := o, news := [o] }

/-- `step o op`: the receiver afterwards followed by the objects created by the call. -/
def step (tol : K) (o : Obj K) (op : Op K) : PyM (List (Obj K)) :=
  (stepOut tol o op).map (fun r => r.recv :: r.news)

/-- One instruction of a pool history: a call on pool object `i`; `append i j` takes the argument
    from the pool as well. -/
inductive Instr (K : Type) where
  | on (i : ℕ) (op : Op K)
  | append (i j : ℕ)
  /-- `SplineObject.make_splines_identical(pool[i], pool[j], direction=…)`: both objects are mutated
      (`i ≠ j`; `none` = every direction). -/
  | identical (i j : ℕ) (direction : Option ℕ)
  deriving Inhabited

/-- Resolve the pool references of an instruction acting on ONE receiver. -/
def Instr.resolve (pool : List (Obj K)) : Instr K → PyM (ℕ × Op K)
  | .on i op => if i < pool.length then .ok (i, op) else .error .index
  | .append i j =>
      match pool[j]? with
      | some other => if i < pool.length then .ok (i, .append other) else .error .index
      | none => .error .index
  | .identical _ _ _ => .error .other      -- two receivers: executed by `exec` directly

/-- Execute one instruction on the pool: receiver replaced, created objects appended. -/
def exec (tol : K) (pool : List (Obj K)) (ins : Instr K) : PyM (List (Obj K)) :=
  match ins with
  | .identical i j direction =>
      match pool[i]?, pool[j]? with
      | some a, some b =>
        if i = j then .error .other else
        (Obj.makeIdentical tol (a.bases.size == 1) (b.bases.size == 1) a b
            (direction.map (fun d => DirTok.int d))).map (fun r => (pool.set i r.1).set j r.2)
      | _, _ => .error .index
  | ins => do
      let (i, op) ← ins.resolve pool
      let out ← stepOut tol (pool.getD i default) op
      pure (pool.set i out.recv ++ out.news)

/-- Run a whole history on a pool. -/
def run (tol : K) (pool : List (Obj K)) (ops : List (Instr K)) : PyM (List (Obj K)) :=
  ops.foldlM (exec tol) pool

/-- The pool after every instruction, up to and including the first exception. -/
def trace (tol : K) : List (Obj K) → List (Instr K) → List (PyM (List (Obj K)))
  | _, [] => []
  | pool, ins :: rest =>
    match exec tol pool ins with
    | .error e => [.error e]
    | .ok pool' => .ok pool' :: trace tol pool' rest

end History

end Splipy
