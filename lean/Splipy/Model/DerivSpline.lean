import Splipy.Model.Object

/-!
# Derivative entry points of `Curve`, `Surface`, `Volume`: argument spellings, dispatch, derivative
spline, tangent / normal / binormal

Mirrors (pinned tree)

* `utils.ensure_listlike`, `utils.is_singleton` on the `d` and `above` arguments (`DSpec`, `ASpec`);
* the *dispatch* of `Curve.derivative` / `Surface.derivative` (`curveOutcome`, `surfaceOutcome`):
  which calls reach the generic `SplineObject.derivative`, which reach a closed form, which fall
  through the branch table (zero-initialised result; only odd-length tuples since `derivs` is
  converted to a tuple) — on top of the shared
  `Obj.derivativeGeneric / curveDerivativeRational / surfaceDerivativeRational`;
* `SplineObject.get_derivative_spline`, `SplineObject.tangent`, `Surface.normal`,
  `Curve.binormal`, `Curve.normal` up to the final normalisation (the model returns the
  un-normalised vector together with its squared norm: no square roots in a field).
-/

namespace Splipy

/-- How the caller spelled the `d` argument. -/
inductive DSpec where
  | int (n : ℕ)
  | tup (l : List ℕ)
  | lst (l : List ℕ)
  deriving DecidableEq, Repr, Inhabited

/-- How the caller spelled the `above` argument (`seq` = tuple or list: the code never
    distinguishes the two for `above`). -/
inductive ASpec where
  | bool (b : Bool)
  | seq (l : List Bool)
  deriving DecidableEq, Repr, Inhabited

/-- The Python statement sequence `while len(x) < dups: x = list(x); x.append(x[-1])`. -/
def padLast {α : Type} (l : List α) (dups : ℕ) : Option (List α) :=
  if dups ≤ l.length then some l else
  match l.getLast? with
  | none => none                 -- `x[-1]` raises IndexError, caught: `return []`
  | some a => some (l ++ List.replicate (dups - l.length) a)

namespace DSpec

/-- The entries (an int is the one-element sequence). -/
def items : DSpec → List ℕ
  | int n => [n]
  | tup l => l
  | lst l => l

/-- `utils.is_singleton`. -/
def isSingleton : DSpec → Bool
  | int _ => true
  | _ => false

/-- `utils.ensure_listlike(x, dups)`: an int becomes a list; a long-enough tuple/list is returned
    unchanged (a tuple STAYS a tuple); a short one is padded and becomes a list; an empty one gives `[]`. -/
def ensureListlike (x : DSpec) (dups : ℕ) : DSpec :=
  match x with
  | int n => lst (List.replicate dups n)
  | tup l => if dups ≤ l.length then tup l else lst ((padLast l dups).getD [])
  | lst l => lst ((padLast l dups).getD [])

/-- `tuple(x)` for a sequence (never applied to an int by the code). -/
def toTuple : DSpec → DSpec
  | int n => int n
  | tup l => tup l
  | lst l => tup l

/-- `d[0]` (only used on non-singletons). -/
def head? : DSpec → Option ℕ
  | int _ => none
  | tup l => l.head?
  | lst l => l.head?

/-- Python `derivs == (a, b, …)` against a tuple literal: only a tuple can be equal to a tuple. -/
def eqTuple (x : DSpec) (lit : List ℕ) : Bool :=
  match x with
  | tup l => l == lit
  | _ => false

end DSpec

namespace ASpec

/-- `ensure_listlike(above, pardim)` as the list the generic method zips with the bases. -/
def norm (a : ASpec) (dups : ℕ) : List Bool :=
  match a with
  | bool b => List.replicate dups b
  | seq l => (padLast l dups).getD []

/-- `if not is_singleton(above): above = above[0]` (`Curve.derivative`): `none` = IndexError. -/
def selfOrHead : ASpec → Option Bool
  | bool b => some b
  | seq l => l.head?

/-- Python truthiness of the raw argument (what Cython's `bint from_right` conversion sees). -/
def truthy : ASpec → Bool
  | bool b => b
  | seq l => !l.isEmpty

end ASpec

/-- Where a call to an overriding `derivative` method ends up. -/
inductive Outcome where
  /-- delegated to `SplineObject.derivative`; the list is what that method zips with the bases
      (its own `ensure_listlike(d, pardim)` applied to the forwarded value). -/
  | generic (derivs : List ℕ)
  /-- the closed-form branch written for this multi-index is executed. -/
  | closed (idx : List ℕ)
  /-- the closed-form section is entered but no branch assigns: the zero-initialised array is returned. -/
  | zeros
  | raises (e : PyErr)
  deriving DecidableEq, Repr, Inhabited

/-- Dispatch of `Curve.derivative(t, d, above, tensor)`:
    `if not is_singleton(d): d = d[0]`;
    `if not self.rational or d < 2 or d > 3: return super().derivative(t, d=d, …)`; then `d == 2`, `d == 3`. -/
def curveOutcome (rational : Bool) (d : DSpec) : Outcome :=
  let d0 : Option ℕ := if d.isSingleton then d.items.head? else d.head?
  match d0 with
  | none => .raises .index
  | some n =>
    if !rational || n < 2 || n > 3 then .generic ((DSpec.int n).ensureListlike 1).items
    else .closed [n]

/-- Dispatch of `Surface.derivative(u, v, d, above, tensor)`:
    `derivs = tuple(ensure_listlike(d, self.pardim))`;
    `if not self.rational or np.sum(derivs) < 2 or np.sum(derivs) > 3: return super().derivative(u, v, d=derivs, …)`;
    then the `derivs == (a,b)` table (seven live entries of total order 2 and 3). -/
def surfaceOutcome (rational : Bool) (d : DSpec) : Outcome :=
  let derivs := (d.ensureListlike 2).toTuple
  let s := derivs.items.sum
  if !rational || s < 2 || s > 3 then .generic (derivs.ensureListlike 2).items
  else
    match [[1,1],[2,0],[0,2],[3,0],[0,3],[2,1],[1,2]].find? (fun lit => derivs.eqTuple lit) with
    | some lit => .closed lit
    | none => .zeros

/-- `Volume` has no override. -/
def volumeOutcome (_rational : Bool) (d : DSpec) : Outcome :=
  .generic (d.ensureListlike 3).items

variable {K : Type} [Field K] [LinearOrder K] [FloorRing K]

namespace Tensor

def zeros (shape : List ℕ) : Tensor K := { shape := shape, data := Array.replicate (prod shape) 0 }

/-- `np.cross(a, b)` along the last axis of two `… × 3` arrays. -/
def crossRows (a b : Tensor K) : Tensor K :=
  let npts := a.size / 3
  { shape := a.shape,
    data := Array.ofFn (n := npts * 3) (fun idx =>
      let pI := idx.val / 3
      let c := idx.val % 3
      let g (t : Tensor K) (cc : ℕ) := t.get (pI * 3 + cc)
      g a ((c + 1) % 3) * g b ((c + 2) % 3) - g a ((c + 2) % 3) * g b ((c + 1) % 3)) }

/-- Squared Euclidean norm of every row (last axis). -/
def normSqRows (a : Tensor K) : Array K :=
  let nc := a.shape.getLastD 1
  Array.ofFn (n := a.size / nc) (fun pI =>
    (List.range nc).foldl (fun acc c => acc + a.get (pI.val * nc + c) * a.get (pI.val * nc + c)) 0)

/-- `v / np.linalg.norm(v, axis=-1)` row by row, with the square root as a PARAMETER (`sqrt` is any function;
    the theorems assume `0 < sqrt x ∧ sqrt x * sqrt x = x` for `x > 0`, which determines it on positive numbers). -/
def normalizeRows (sqrt : K → K) (a : Tensor K) : Tensor K :=
  let nc := a.shape.getLastD 1
  { shape := a.shape,
    data := Array.ofFn (n := a.size / nc * nc) (fun idx =>
      a.get idx.val / sqrt ((normSqRows a).getD (idx.val / nc) 0)) }

end Tensor

namespace Obj

/-- `Curve.derivative` with the dispatch function `f` (the model uses `curveOutcome`).  In the
    closed-form section `above` is replaced by `above[0]` when it is a sequence (IndexError when empty). -/
def curveDerivativeWith (f : Bool → DSpec → Outcome) (o : Obj K) (tol : K) (ts : List K) (d : DSpec)
    (above : ASpec) (tensor : Bool) : PyM (Tensor K) :=
  match f o.rational d with
  | .generic l => o.derivativeGeneric tol [ts] l (above.norm 1) tensor
  | .closed [n] =>
      match above.selfOrHead with
      | none => .error .index
      | some a => .ok (o.curveDerivativeRational tol ts n a)
  | .closed _ => .error .other
  | .zeros =>
      match above.selfOrHead with
      | none => .error .index
      | some _ => .ok (Tensor.zeros [ts.length, o.dimension])
  | .raises e => .error e

/-- `Surface.derivative` with the dispatch function `f` (the model uses `surfaceOutcome`).
    `above = ensure_listlike(above, self.pardim)` is executed before the guard; the closed-form section
    reads `above[0]`, `above[1]` (IndexError for an empty sequence). -/
def surfaceDerivativeWith (f : Bool → DSpec → Outcome) (o : Obj K) (tol : K) (us vs : List K) (d : DSpec)
    (above : ASpec) (tensor : Bool) : PyM (Tensor K) :=
  let ab := above.norm 2
  match f o.rational d with
  | .generic l => o.derivativeGeneric tol [us, vs] l ((ASpec.seq ab).norm 2) tensor
  | .closed [a, b] =>
      match ab with
      | fu :: fv :: _ =>
        if !tensor ∧ us.length ≠ vs.length then .error .value   -- `einsum` refuses the operands
        else o.surfaceDerivativeRational tol us vs a b fu fv tensor
      | _ => .error .index
  | .closed _ => .error .other
  | .zeros =>
      match ab with
      | _ :: _ :: _ =>
        if !tensor ∧ us.length ≠ vs.length then .error .value
        else if !tensor then .error .index               -- `d0ud0v[:,:,-1]` precedes the branch table
        else .ok (Tensor.zeros [us.length, vs.length, o.dimension])
      | _ => .error .index
  | .raises e => .error e

/-- `obj.derivative(*params, d=…, above=…, tensor=…)` through the class of the object
    (`Curve` / `Surface` override, anything else the generic method). -/
def derivativeCall (o : Obj K) (tol : K) (params : List (List K)) (d : DSpec) (above : ASpec)
    (tensor : Bool) : PyM (Tensor K) :=
  match params with
  | [ts] => o.curveDerivativeWith curveOutcome tol ts d above tensor
  | [us, vs] => o.surfaceDerivativeWith surfaceOutcome tol us vs d above tensor
  | _ => o.derivativeGeneric tol params (d.ensureListlike o.pardim).items (above.norm o.pardim) tensor

/-- The difference matrix `C` of `get_derivative_spline` for one direction. -/
def derivativeMatrix (b : Basis K) (n : ℕ) : Mat K :=
  let p : ℕ := b.order - 1
  let coef (i : ℕ) : K := (p : K) / (b.kn (i + p + 1) - b.kn (i + 1))
  if b.periodic < 0 then
    Array.ofFn (n := n - 1) (fun i => Array.ofFn (n := n) (fun j =>
      if j.val = i.val then -(coef i.val) else if j.val = i.val + 1 then coef i.val else 0))
  else
    -- `C[i,i] = -c` is written first and `C[i,ip1] = c` second: for `n = 1` the second write wins
    Array.ofFn (n := n) (fun i => Array.ofFn (n := n) (fun j =>
      if j.val = (i.val + 1) % n then coef i.val else if j.val = i.val then -(coef i.val) else 0))

/-- `get_derivative_spline(direction)` for an integer direction. -/
def getDerivativeSpline (o : Obj K) (tol : K) (dir : ℕ) : PyM (Obj K) :=
  if o.rational then .error .runtime else
  if o.pardim ≤ dir then .error .value else
  let b := o.basis dir
  let n := o.cps.shape.getD dir 0
  let C := derivativeMatrix b n
  let cps := Tensor.applyAxis C o.cps dir
  match Basis.mk? (b.order - 1) (b.knots.extract 1 (b.knots.size - 1)) (b.periodic - 1) tol with
  | .error e => .error e
  | .ok nb => .ok { bases := o.bases.set! dir nb, cps := cps, rational := o.rational }

/-- Un-normalised tangent in one direction: `self.derivative(*params, d=[0,…,1,…,0], above=<list>, tensor=…)`. -/
def tangentRaw (o : Obj K) (tol : K) (params : List (List K)) (dir : ℕ) (above : ASpec) (tensor : Bool) :
    PyM (Tensor K) :=
  let pd := o.pardim
  let unit : List ℕ := (List.range pd).map (fun k => if k = dir then 1 else 0)
  o.derivativeCall tol params (.lst unit) (.seq (above.norm pd)) tensor

/-- `tangent(*params, direction=…, above=…, tensor=…)` before the division by the speed.
    `dir = none` is `direction=None`: all directions (curves: direction 0 only). -/
def tangent (o : Obj K) (tol : K) (params : List (List K)) (dir : Option ℕ) (above : ASpec) (tensor : Bool) :
    PyM (List (Tensor K)) :=
  let pd := o.pardim
  let dir := if pd = 1 then some 0 else dir
  match dir with
  | none => (List.range pd).mapM (fun i => o.tangentRaw tol params i above tensor)
  | some i => if pd ≤ i then .error .value else do
      let v ← o.tangentRaw tol params i above tensor
      pure [v]

/-- `Surface.normal(u, v, above, tensor)` before the final normalisation (for `dimension = 3` the
    normalised tangents are crossed and normalised again; the direction is that of `∂u × ∂v`). -/
def surfaceNormalRaw (o : Obj K) (tol : K) (us vs : List K) (above : ASpec) (tensor : Bool) : PyM (Tensor K) :=
  if !tensor ∧ us.length ≠ vs.length then .error .value else
  if o.dimension = 2 then
    let shape := if tensor then [us.length, vs.length, 3] else [us.length, 3]
    .ok { shape := shape, data := Array.ofFn (n := Tensor.prod shape) (fun idx => if idx.val % 3 = 2 then 1 else 0) }
  else if o.dimension = 3 then do
    let ts ← o.tangent tol [us, vs] none above tensor
    match ts with
    | [du, dv] => pure (Tensor.crossRows du dv)
    | _ => .error .other
  else .error .runtime

/-- The acceleration as `Curve.binormal` uses it: a vanishing acceleration (exact-zero test in the model,
    `np.allclose(ddx, 0)` in the code) is replaced by `e_x` when the velocity is along `e_z`, else by `e_z`. -/
def fixedAcc (dx ddx : Tensor K) (n : ℕ) : Tensor K :=
  { shape := ddx.shape,
    data := Array.ofFn (n := n * 3) (fun idx =>
      let pI := idx.val / 3
      let c := idx.val % 3
      let z (t : Tensor K) (cc : ℕ) : Bool := decide (t.get (pI * 3 + cc) = 0)
      if z ddx 0 && z ddx 1 && z ddx 2 then
        (if z dx 0 && z dx 1 then (if c = 0 then 1 else 0) else (if c = 2 then 1 else 0))
      else ddx.get idx.val) }

/-- `Curve.binormal(t, above)` before the normalisation: `np.cross(dx, ddx)` with the code's
    replacement of a vanishing acceleration. -/
def curveBinormalRaw (o : Obj K) (tol : K) (ts : List K) (above : ASpec) : PyM (Tensor K) :=
  if o.dimension ≠ 3 then .error .value else do
    let dx ← o.derivativeCall tol [ts] (.int 1) above true
    let ddx ← o.derivativeCall tol [ts] (.int 2) above true
    pure (Tensor.crossRows dx (fixedAcc dx ddx ts.length))

/-- `Curve.normal(t, above)` = `np.cross(B, T)`; un-normalised: `cross(b, v)` with `b` the raw
    binormal and `v` the raw tangent (`b ⟂ v`, so the normalised vector is the same). -/
def curveNormalRaw (o : Obj K) (tol : K) (ts : List K) (above : ASpec) : PyM (Tensor K) :=
  if o.dimension ≠ 3 then .error .runtime else do
    let tl ← o.tangent tol [ts] none above true
    let b ← o.curveBinormalRaw tol ts above
    match tl with
    | [v] => pure (Tensor.crossRows b v)
    | _ => .error .other

/-! ### The normalised results, square root as a parameter -/

/-- `tangent(...)`: every returned field is `v / ‖v‖`. -/
def tangentUnit (sqrt : K → K) (o : Obj K) (tol : K) (params : List (List K)) (dir : Option ℕ)
    (above : ASpec) (tensor : Bool) : PyM (List (Tensor K)) :=
  (o.tangent tol params dir above tensor).map (List.map (Tensor.normalizeRows sqrt))

/-- `Surface.normal` for `dimension = 3`, as the code computes it: normalised tangents, cross product,
    normalised again. -/
def surfaceNormalUnit (sqrt : K → K) (o : Obj K) (tol : K) (us vs : List K) (above : ASpec) (tensor : Bool) :
    PyM (Tensor K) :=
  if !tensor ∧ us.length ≠ vs.length then .error .value else
  if o.dimension = 3 then do
    let ts ← o.tangentUnit sqrt tol [us, vs] none above tensor
    match ts with
    | [du, dv] => pure (Tensor.normalizeRows sqrt (Tensor.crossRows du dv))
    | _ => .error .other
  else o.surfaceNormalRaw tol us vs above tensor

/-- `Curve.binormal`: `cross(dx, ddx) / ‖cross(dx, ddx)‖`. -/
def curveBinormalUnit (sqrt : K → K) (o : Obj K) (tol : K) (ts : List K) (above : ASpec) : PyM (Tensor K) :=
  (o.curveBinormalRaw tol ts above).map (Tensor.normalizeRows sqrt)

/-- `Curve.normal`: `np.cross(B, T)` of the normalised binormal and tangent. -/
def curveNormalUnit (sqrt : K → K) (o : Obj K) (tol : K) (ts : List K) (above : ASpec) : PyM (Tensor K) :=
  if o.dimension ≠ 3 then .error .runtime else do
    let tl ← o.tangentUnit sqrt tol [ts] none above true
    let b ← o.curveBinormalUnit sqrt tol ts above
    match tl with
    | [t] => pure (Tensor.crossRows b t)
    | _ => .error .other

end Obj

end Splipy
