import Splipy.Model.Tensor
import Splipy.Proto.Val

/-!
# Exact linear algebra (model of `np.linalg.inv` / `solve` / `scipy…spsolve`)

Gauss–Jordan elimination over a field with decidable equality.  A singular system is the
implementation's `LinAlgError`.  (Modelled, not verified: numpy's LAPACK routines are trusted to
approximate these exact results; the correspondence run measures the agreement.)
-/

namespace Splipy

variable {K : Type} [Field K] [DecidableEq K]

namespace Mat

def nrows (M : Mat K) : ℕ := M.size
def ncols (M : Mat K) : ℕ := (M.getD 0 #[]).size
def get (M : Mat K) (i j : ℕ) : K := (M.getD i #[]).getD j 0

def identity (n : ℕ) : Mat K := Array.ofFn (n := n) (fun i => Array.ofFn (n := n) (fun j => if i.val = j.val then 1 else 0))

def mul (A B : Mat K) : Mat K :=
  let n := A.nrows; let m := B.ncols; let k := B.nrows
  Array.ofFn (n := n) (fun i => Array.ofFn (n := m) (fun j =>
    (List.range k).foldl (fun acc l => acc + A.get i.val l * B.get l j.val) 0))

def transpose (A : Mat K) : Mat K :=
  Array.ofFn (n := A.ncols) (fun j => Array.ofFn (n := A.nrows) (fun i => A.get i.val j.val))

/-- Solve `A X = B` for square `A` (n×n), `B` n×m, by Gauss–Jordan with first-non-zero pivoting. -/
def solve (A B : Mat K) : PyM (Mat K) := Id.run do
  let n := A.nrows
  let mut M : Array (Array K) := Array.ofFn (n := n) (fun i => A.getD i.val #[] ++ B.getD i.val #[])
  for c in [0:n] do
    -- find pivot
    let mut piv := n
    for r in [c:n] do
      if piv = n ∧ (M.getD r #[]).getD c 0 ≠ 0 then piv := r
    if piv = n then return .error .linalg
    let rowP := M.getD piv #[]
    let rowC := M.getD c #[]
    M := (M.set! piv rowC).set! c rowP
    let pv := rowP.getD c 0
    let rowN := rowP.map (fun x => x / pv)
    M := M.set! c rowN
    for r in [0:n] do
      if r ≠ c then
        let f := (M.getD r #[]).getD c 0
        if f ≠ 0 then
          let row := M.getD r #[]
          M := M.set! r (Array.ofFn (n := row.size) (fun j => row.getD j.val 0 - f * rowN.getD j.val 0))
  return .ok (M.map (fun row => row.extract n row.size))

def inv (A : Mat K) : PyM (Mat K) := solve A (identity A.nrows)

end Mat

end Splipy
