import Splipy.Model.Reparam
import Splipy.Model.Periodic
import Splipy.Model.Order

/-!
# Executable model of `SplineObject.make_splines_compatible` / `make_splines_identical`
(`splipy/splineobject.py:1366-1453`), property C12

Both are class methods that mutate their two arguments in place; the model returns the pair of new
states.  The methods they call are modelled elsewhere and only composed here:
`force_rational`, `set_dimension`, `reparam(direction=i)` (`Model/Object.lean`),
`lower_periodic` (`Model/Periodic.lean`), `raise_order(amount, direction=i)` with the `Curve`
override (`Model/Order.lean`), `insert_knot(list, direction=i)` (`Model/Object.lean`),
`BSplineBasis.continuity`, `knot_spans` (`Model/BasisOps.lean`), `check_direction`
(`Model/Reparam.lean`).  `tol` is `state.knot_tolerance`; `curve1`/`curve2` say whether the object
is an instance of `Curve` (whose `raise_order` override ignores `direction`).

Aliasing, mirrored literally: `b1 = spline1.bases[i]`, `b2 = spline2.bases[i]` are the *live* basis
objects (`raise_order` has replaced `self.bases` before they are read, and
`SplineObject.insert_knot` mutates `self.bases[i].knots` in place).  The first pass computes all its
`continuity` values before anything is inserted; the second pass therefore sees `b2` WITH the knots
inserted by the first pass, while the list `knot2` it iterates over was taken before.
-/

namespace Splipy

variable {K : Type} [Field K] [LinearOrder K] [FloorRing K]

namespace Obj

/-- `set_dimension(new_dim)` with `new_dim == self.dimension`: neither `while` loop runs, the control
    array is not touched; otherwise `Obj.setDimension`. -/
def setDimensionTo (o : Obj K) (n : ℕ) : Obj K := if n = o.dimension then o else o.setDimension n

/-- `make_splines_compatible(spline1, spline2)`. -/
def makeCompatible (s1 s2 : Obj K) : Obj K × Obj K :=
  -- make both rational (if needed)
  let p : Obj K × Obj K :=
    if s1.rational then (s1, s2.forceRational)
    else if s2.rational then (s1.forceRational, s2)
    else (s1, s2)
  -- make both in the same geometric space
  if p.1.dimension > p.2.dimension then (p.1, p.2.setDimensionTo p.1.dimension)
  else (p.1.setDimensionTo p.2.dimension, p.2)

/-- Number of copies one pass inserts at a knot: the basis that receives them has continuity `hi`
    there, the other one `lo`; Python: `if hi > lo: m = min(hi - lo, p - 1 - lo)` with `none = np.inf`
    (`inf > c` is true, `c > inf` and `inf > inf` are false; `min(inf, m) = m`; `[k] * m` is empty for
    `m ≤ 0`). -/
def mergeCount (p : ℕ) (lo hi : Option Int) : ℕ :=
  match lo, hi with
  | some l, none => ((p : Int) - 1 - l).toNat
  | some l, some h => if h > l then (min (h - l) ((p : Int) - 1 - l)).toNat else 0
  | none, _ => 0

/-- One insertion pass `for k in ks: c1 = b1.continuity(k); c2 = b2.continuity(k); …; inserts.extend([k]*m)`.
    `into2 = true`: first pass (values go into spline 2: `if c2 > c1: m = min(c2-c1, p-1-c1)`),
    `into2 = false`: second pass (`if c1 > c2: m = min(c1-c2, p-1-c2)`).  `continuity` may raise. -/
def mergeInserts (tol : K) (p : ℕ) (b1 b2 : Basis K) (into2 : Bool) : List K → PyM (List K)
  | [] => .ok []
  | k :: ks =>
    match b1.continuity tol k with
    | .error e => .error e
    | .ok c1 =>
      match b2.continuity tol k with
      | .error e => .error e
      | .ok c2 =>
        match mergeInserts tol p b1 b2 into2 ks with
        | .error e => .error e
        | .ok rest =>
          .ok (List.replicate (if into2 then mergeCount p c1 c2 else mergeCount p c2 c1) k ++ rest)

/-- The knot-vector half of `SplineObject.insert_knot(list, direction)`: the loop
    `for k in knot: self.bases[direction].insert_knot(k)` with the matrices forgotten. -/
def insertAll (b : Basis K) (xs : List K) : PyM (Basis K) :=
  xs.foldlM (fun b x => match b.insertKnot x with
    | .error e => .error e
    | .ok r => .ok r.1) b

/-- The knot-vector half of the two mutual insertion passes (what `stageMerge` below does to the two
    bases of direction `i`, control points forgotten): `(b1', b2')`. -/
def mergeKnots (tol : K) (p : ℕ) (b1 b2 : Basis K) : PyM (Basis K × Basis K) :=
  match mergeInserts tol p b1 b2 true (b1.knotSpans tol false).toList with
  | .error e => .error e
  | .ok ins2 =>
    match insertAll b2 ins2 with
    | .error e => .error e
    | .ok b2' =>
      match mergeInserts tol p b1 b2' false (b2.knotSpans tol false).toList with
      | .error e => .error e
      | .ok ins1 =>
        match insertAll b1 ins1 with
        | .error e => .error e
        | .ok b1' => .ok (b1', b2')

/-- `self.reparam(direction=i)` with an integer `i`: `check_direction(i, self.pardim)`, then
    `self.bases[i].reparam(0, 1)`. -/
def reparamUnitDir (o : Obj K) (i : ℕ) : PyM (Obj K) :=
  match Splipy.checkDirection (.int i) o.pardimB with
  | .error e => .error e
  | .ok d => o.reparamDir d 0 1

/-- `# make both have knot vectors in domain (0,1)`. -/
def stageReparam (s : Obj K × Obj K) (i : ℕ) : PyM (Obj K × Obj K) :=
  match s.1.reparamUnitDir i with
  | .error e => .error e
  | .ok s1 =>
    match s.2.reparamUnitDir i with
    | .error e => .error e
    | .ok s2 => .ok (s1, s2)

/-- `# settle on the lowest periodicity if different appear`. -/
def stagePeriodic (s : Obj K × Obj K) (i : ℕ) : PyM (Obj K × Obj K) :=
  let k1 := (s.1.basis i).periodic
  let k2 := (s.2.basis i).periodic
  if k1 < k2 then
    match s.2.lowerPeriodic k1 i with
    | .error e => .error e
    | .ok s2 => .ok (s.1, s2)
  else if k2 < k1 then
    match s.1.lowerPeriodic k2 i with
    | .error e => .error e
    | .ok s1 => .ok (s1, s.2)
  else .ok s

/-- `# make sure both have the same order`: `p = max(p1, p2)`, `raise_order(p - p_j, direction=i)`. -/
def stageOrder (tol : K) (curve1 curve2 : Bool) (s : Obj K × Obj K) (i : ℕ) : PyM (Obj K × Obj K) :=
  let p1 := (s.1.basis i).order
  let p2 := (s.2.basis i).order
  let p := max p1 p2
  match s.1.raiseOrderDispatch tol curve1 [(p : Int) - p1] (some (i : Int)) with
  | .error e => .error e
  | .ok r1 =>
    match s.2.raiseOrderDispatch tol curve2 [(p : Int) - p2] (some (i : Int)) with
    | .error e => .error e
    | .ok r2 => .ok (r1.2, r2.2)

/-- The values the first pass inserts into spline 2. -/
def firstInserts (tol : K) (p : ℕ) (s : Obj K × Obj K) (i : ℕ) : PyM (List K) :=
  mergeInserts tol p (s.1.basis i) (s.2.basis i) true
    ((s.1.basis i).knotSpans tol false).toList

/-- The values the second pass inserts into spline 1: iterates over `knot2` (taken from `s.2`, the
    state BEFORE the first pass) but asks the live `b2` (`s2'.basis i`, AFTER the first pass). -/
def secondInserts (tol : K) (p : ℕ) (s : Obj K × Obj K) (s2' : Obj K) (i : ℕ) : PyM (List K) :=
  mergeInserts tol p (s.1.basis i) (s2'.basis i) false
    ((s.2.basis i).knotSpans tol false).toList

/-- `# make sure both have the same knot vectors`: the two mutual insertion passes.
    `p` is the variable `p = max(p1, p2)` computed BEFORE the elevation (after it both orders are `p`). -/
def stageMerge (tol : K) (p : ℕ) (s : Obj K × Obj K) (i : ℕ) : PyM (Obj K × Obj K) :=
  match firstInserts tol p s i with
  | .error e => .error e
  | .ok ins2 =>
    match s.2.insertKnots ins2 i with
    | .error e => .error e
    | .ok s2' =>
      match secondInserts tol p s s2' i with
      | .error e => .error e
      | .ok ins1 =>
        match s.1.insertKnots ins1 i with
        | .error e => .error e
        | .ok s1' => .ok (s1', s2')

/-- The body of `make_splines_identical` for one checked direction `i` (after
    `make_splines_compatible` and `check_direction`). -/
def identicalDir (tol : K) (curve1 curve2 : Bool) (s : Obj K × Obj K) (i : ℕ) : PyM (Obj K × Obj K) :=
  match stageReparam s i with
  | .error e => .error e
  | .ok a =>
    match stagePeriodic a i with
    | .error e => .error e
    | .ok b =>
      match stageOrder tol curve1 curve2 b i with
      | .error e => .error e
      | .ok c => stageMerge tol (max (b.1.basis i).order (b.2.basis i).order) c i

/-- `make_splines_identical(spline1, spline2, direction=d)` with a direction given (any spelling). -/
def makeIdenticalDir (tol : K) (curve1 curve2 : Bool) (s : Obj K × Obj K) (d : DirTok) : PyM (Obj K × Obj K) :=
  let c := makeCompatible s.1 s.2
  match Splipy.checkDirection d c.1.pardimB with
  | .error e => .error e
  | .ok i => identicalDir tol curve1 curve2 c i

/-- The loop `for i in range(spline1.pardim): cls.make_splines_identical(spline1, spline2, direction=i)`
    (stops at the first exception). -/
def identicalLoop (tol : K) (curve1 curve2 : Bool) : List ℕ → Obj K × Obj K → PyM (Obj K × Obj K)
  | [], s => .ok s
  | i :: is, s =>
    match makeIdenticalDir tol curve1 curve2 s (.int i) with
    | .error e => .error e
    | .ok s' => identicalLoop tol curve1 curve2 is s'

/-- `make_splines_identical(spline1, spline2, direction)`; `none` = the default `direction=None`. -/
def makeIdentical (tol : K) (curve1 curve2 : Bool) (s1 s2 : Obj K) (direction : Option DirTok) :
    PyM (Obj K × Obj K) :=
  match direction with
  | some d => makeIdenticalDir tol curve1 curve2 (s1, s2) d
  | none =>
    let c := makeCompatible s1 s2
    identicalLoop tol curve1 curve2 (List.range c.1.pardimB) c

end Obj

end Splipy
