import Splipy.Model.Object

/-!
# Executable model of order elevation / reduction (property C05)

Mirrors, statement by statement,
* `BSplineBasis.lower_order`                       (`splipy/basis.py`)
* `SplineObject.raise_order`, `raise_order_implicit`, `lower_order`, `set_order`
                                                    (`splipy/splineobject.py`)
* `Curve.raise_order`                               (`splipy/curve.py`)

(`BSplineBasis.raise_order`, `knot_spans`, `continuity`, `greville` are in `Model/BasisOps.lean`.)

Return-value conventions are part of the model: `Ret.self` = the (mutated) receiver is returned,
`Ret.none` = Python `None` (no modelled method returns it any more; kept for the protocol), `Ret.new` = a freshly constructed object (receiver untouched).

`np.linalg.inv` / `scipy…spsolve` are modelled by *checked* exact linear algebra: the result of
the exact Gauss–Jordan elimination of `Model/LinAlg.lean` is accepted only after the model has
verified the certificate `Ai · A = I` (resp. `A · X = B`) entry by entry in exact arithmetic;
otherwise the model reports `LinAlgError`.  This makes "the returned matrix is a left inverse" a
theorem about the model (`Mat.invChecked_spec`, `Lemmas/C05LinAlg.lean`) without proving the
imperative elimination code correct; were the elimination wrong the correspondence run would show
`LinAlgError` against a numeric result.
-/

namespace Splipy

variable {K : Type} [Field K] [LinearOrder K]

/-- How a Python method hands back its result. -/
inductive Ret where
  | self | none | new
  deriving DecidableEq, Repr, Inhabited

def Ret.name : Ret → String
  | .self => "self" | .none => "none" | .new => "new"

namespace Mat

/-- `Σ_{l<n} f l`, accumulated left to right. -/
def dot (n : ℕ) (f : ℕ → K) : K := (List.range n).foldl (fun acc l => acc + f l) 0

/-- Certificate `Ai · A = I_n` (entry-wise, exact) and `Ai` has `n` rows. -/
def isLeftInv (Ai A : Mat K) (n : ℕ) : Bool :=
  decide (Ai.size = n) && (List.range n).all (fun i => (List.range n).all (fun j =>
    decide (dot n (fun l => Ai.get i l * A.get l j) = if i = j then 1 else 0)))

/-- Certificate `A · X = B` on the `n × m` block and `X` has `n` rows. -/
def isSolution (A X B : Mat K) (n m : ℕ) : Bool :=
  decide (X.size = n) && (List.range n).all (fun i => (List.range m).all (fun j =>
    decide (dot n (fun l => A.get i l * X.get l j) = B.get i j)))

/-- `np.linalg.inv(A)` for a square `n × n` matrix: exact Gauss–Jordan, then the certificate
    `Ai · A = I` is checked exactly. -/
def invChecked (A : Mat K) : PyM (Mat K) :=
  match Mat.inv A with
  | .error e => .error e
  | .ok Ai => if isLeftInv Ai A A.nrows then .ok Ai else .error .linalg

/-- `spsolve(A, B)`: exact solve with the certificate `A · X = B` checked. -/
def solveChecked (A B : Mat K) : PyM (Mat K) :=
  match Mat.solve A B with
  | .error e => .error e
  | .ok X => if isSolution A X B A.nrows B.ncols then .ok X else .error .linalg

end Mat

namespace Tensor

/-- `np.tensordot(M, t, axes=(1, pardim-1))`: contracts axis `pardim-1` of `t` with the columns of
    `M`; numpy puts the free axis of `M` FIRST and keeps the remaining axes of `t` in order, so
    shape `(s_0,…,s_{d-1}, c)` becomes `(m, s_0,…,s_{d-2}, c)`.  Flat (C-order) entry
    `((r·o + a)·c + i)` of the result is `Σ_j M[r][j] · t[((a·n + j)·c + i)]`. -/
def tensordotFront (M : Mat K) (t : Tensor K) (pardim : ℕ) : Tensor K :=
  let axis := pardim - 1
  let o := prod (t.shape.take axis)
  let n := t.shape.getD axis 1
  let inn := prod (t.shape.drop (axis + 1))
  let m := M.size
  { shape := m :: t.shape.eraseIdx axis,
    data := Array.ofFn (n := m * o * inn) (fun idx =>
      let i := idx.val % inn
      let a := (idx.val / inn) % o
      let r := idx.val / inn / o
      Mat.dot n (fun j => M.get r j * t.get ((a * n + j) * inn + i))) }

end Tensor

variable [FloorRing K]

namespace Basis

/-- New multiplicity `max(p-1-continuity, 1)`; `continuity = np.inf` gives `max(-inf, 1) = 1`. -/
def lowerMult (p : ℕ) (c : Option Int) : ℕ :=
  match c with
  | none => 1
  | some c => (max ((p : Int) - 1 - c) 1).toNat

/-- The list comprehension `[[k] * max(p-1-self.continuity(k), 1) for k in spans]`, flattened;
    `continuity` may raise (`ValueError` for a ghost knot of a non-periodic basis). -/
def lowerKnots (b : Basis K) (tol : K) (p : ℕ) : List K → PyM (List K)
  | [] => .ok []
  | k :: ks =>
    match b.continuity tol k with
    | .error e => .error e
    | .ok c =>
      match lowerKnots b tol p ks with
      | .error e => .error e
      | .ok rest => .ok (List.replicate (lowerMult p c) k ++ rest)

/-- `BSplineBasis.lower_order(amount)`.  On a periodic basis the code reads the undefined name
    `knot_spans` ⇒ `NameError` (after the comprehension has been evaluated). -/
def lowerOrder (b : Basis K) (tol : K) (amount : Int) : PyM (Basis K) :=
  if amount < 0 then .error .value
  else if (b.order : Int) - amount < 2 then .error .value
  else
    let p : ℕ := b.order - amount.toNat
    match lowerKnots b tol p (b.knotSpans tol true).toList with
    | .error e => .error e
    | .ok knots =>
      if b.periodic > -1 then .error .name
      else mk? p knots.toArray b.periodic tol

/-- `BSplineBasis.raise_order(amount)` with the argument checks in front
    (`BasisOps.raiseOrder` is the body for `amount ≥ 0`). -/
def raiseOrderInt (b : Basis K) (tol : K) (amount : Int) : PyM (Basis K) :=
  if amount < 0 then .error .value else b.raiseOrder tol amount.toNat

end Basis

namespace Obj

/-- `utils.check_direction` for integer directions. -/
def checkDirection (direction : Int) (pardim : ℕ) : PyM ℕ :=
  if direction = 0 ∧ 0 < pardim then .ok 0
  else if direction = 1 ∧ 1 < pardim then .ok 1
  else if direction = 2 ∧ 2 < pardim then .ok 2
  else .error .value

/-- Greville points of every basis, in order (the list comprehension `[b.greville() for b in …]`). -/
def grevilles : List (Basis K) → PyM (List (Array K))
  | [] => .ok []
  | b :: bs =>
    match b.greville with
    | .error e => .error e
    | .ok g => match grevilles bs with
      | .error e => .error e
      | .ok gs => .ok (g :: gs)

/-- `for n in N_new[::-1]: result = np.tensordot(np.linalg.inv(n), result, axes=(1, pardim-1))`
    (the list is passed already reversed). -/
def solveChain (pardim : ℕ) : List (Mat K) → Tensor K → PyM (Tensor K)
  | [], t => .ok t
  | N :: Ns, t =>
    match Mat.invChecked N with
    | .error e => .error e
    | .ok Ni => solveChain pardim Ns (Tensor.tensordotFront Ni t pardim)

/-- The interpolation shared by `raise_order_implicit` and `lower_order`:
    Greville points of the new bases, `N_old`, `N_new` there, contraction with every `N_old`
    (last direction first), then with every `inv(N_new)` (last direction first). -/
def reinterpolate (o : Obj K) (tol : K) (newBases : List (Basis K)) : PyM (Tensor K) :=
  match grevilles newBases with
  | .error e => .error e
  | .ok pts =>
    let Nold := (List.zip o.bases.toList pts).map (fun (b, p) => basisMat b tol p.toList 0 true)
    let Nnew := (List.zip newBases pts).map (fun (b, p) => basisMat b tol p.toList 0 true)
    let r1 := Nold.reverse.foldl (fun t N => Tensor.tensordotFront N t o.pardim) o.cps
    solveChain o.pardim Nnew.reverse r1

/-- `[b.raise_order(r) for b, r in zip(self.bases, raises)]`. -/
def raiseBases (tol : K) : List (Basis K) → List ℕ → PyM (List (Basis K))
  | b :: bs, r :: rs =>
    match b.raiseOrder tol r with
    | .error e => .error e
    | .ok b' => match raiseBases tol bs rs with
      | .error e => .error e
      | .ok l => .ok (b' :: l)
  | _, _ => .ok []

/-- `[b.lower_order(l) for b, l in zip(self.bases, lowers)]`. -/
def lowerBases (tol : K) : List (Basis K) → List Int → PyM (List (Basis K))
  | b :: bs, r :: rs =>
    match b.lowerOrder tol r with
    | .error e => .error e
    | .ok b' => match lowerBases tol bs rs with
      | .error e => .error e
      | .ok l => .ok (b' :: l)
  | _, _ => .ok []

/-- `SplineObject.raise_order_implicit(*raises)` (amounts already non-negative). -/
def raiseOrderImplicit (o : Obj K) (tol : K) (raises : List ℕ) : PyM (Obj K) :=
  match raiseBases tol o.bases.toList raises with
  | .error e => .error e
  | .ok newBases =>
    match o.reinterpolate tol newBases with
    | .error e => .error e
    | .ok cps => .ok { o with bases := newBases.toArray, cps := cps }

/-- The guard of `SplineObject.raise_order`:
    `any(b.continuity(b.knots[0]) < b.order or b.periodic > -1 for b in self.bases)`
    (left-to-right with short circuit; `continuity` may raise `ValueError`; `inf < order` is False). -/
def raiseGuard (tol : K) : List (Basis K) → PyM Bool
  | [] => .ok false
  | b :: bs =>
    match b.continuity tol (b.kn 0) with
    | .error e => .error e
    | .ok c =>
      if (match c with | none => false | some c => decide (c < (b.order : Int))) || decide (b.periodic > -1)
      then .ok true else raiseGuard tol bs

/-- Argument normalisation of `raise_order(*raises, direction=None)`. -/
def normRaises (pardim : ℕ) (raises : List Int) (direction : Option Int) : PyM (List Int) :=
  if raises.length = 1 then
    match direction with
    | none => .ok (List.replicate pardim (raises.headD 0))
    | some d =>
      match checkDirection d pardim with
      | .error e => .error e
      | .ok i => .ok ((List.replicate pardim 0).set i (raises.headD 0))
  else .ok raises

/-- `SplineObject.raise_order(*raises, direction=None)`.
    The explicit branch behind the guard (through `utils.raise_order_1D`) is unreachable for every
    object whose knot vectors are sorted (`C05_explicit_branch_dead`); the model reports
    `Exception` there instead of modelling dead code. -/
def raiseOrder (o : Obj K) (tol : K) (raises : List Int) (direction : Option Int) : PyM (Ret × Obj K) :=
  match normRaises o.pardim raises direction with
  | .error e => .error e
  | .ok rs =>
    if rs.any (fun r => decide (r < 0)) then .error .value
    else if rs.all (fun r => decide (r = 0)) then .ok (.self, o)
    else
      match raiseGuard tol o.bases.toList with
      | .error e => .error e
      | .ok true =>
        (match o.raiseOrderImplicit tol (rs.map Int.toNat) with
         | .error e => .error e
         | .ok o' => .ok (.self, o'))
      | .ok false => .error .other

/-- Shape `[n, nc]` tensor → matrix (rows = control points). -/
def cpsMat (t : Tensor K) : Mat K :=
  let n := t.shape.getD 0 0
  let nc := t.shape.getD 1 1
  Array.ofFn (n := n) (fun i => Array.ofFn (n := nc) (fun c => t.get (i.val * nc + c.val)))

def ofCpsMat (M : Mat K) (nc : ℕ) : Tensor K :=
  { shape := [M.size, nc],
    data := Array.ofFn (n := M.size * nc) (fun idx => M.get (idx.val / nc) (idx.val % nc)) }

/-- `Curve.raise_order(amount, direction=None)` (the `direction` argument is ignored by the code).
    `amount == 0` returns the receiver unchanged (since fix 6ca09d8; the pinned snapshot returned
    `None`); otherwise the receiver is returned after `spsolve(N_new, N_old @ controlpoints)`,
    reshaped to `(-1, ncomp)` (fix 2d51429: `spsolve` returns a 1-D array for one component). -/
def curveRaiseOrder (o : Obj K) (tol : K) (amount : Int) : PyM (Ret × Obj K) :=
  if amount < 0 then .error .value
  else if amount = 0 then .ok (.self, o)
  else
    let b := o.basis 0
    match b.raiseOrder tol amount.toNat with
    | .error e => .error e
    | .ok nb =>
      match nb.greville with
      | .error e => .error e
      | .ok pts =>
        let Nold := basisMat b tol pts.toList 0 true
        let Nnew := basisMat nb tol pts.toList 0 true
        let X := Mat.mul Nold (cpsMat o.cps)
        match Mat.solveChecked Nnew X with
        | .error e => .error e
        | .ok C => .ok (.self, { o with bases := #[nb], cps := ofCpsMat C (o.cps.shape.getD 1 1) })

/-- Dynamic dispatch of `obj.raise_order(...)`: `Curve` overrides the method. -/
def raiseOrderDispatch (o : Obj K) (tol : K) (isCurve : Bool) (raises : List Int) (direction : Option Int) :
    PyM (Ret × Obj K) :=
  if isCurve then
    match raises with
    | [a] => curveRaiseOrder o tol a
    | [a, _] => curveRaiseOrder o tol a   -- second positional argument is the ignored `direction`
    | _ => .error .type    -- Curve.raise_order(amount, direction=None): other arities are a TypeError
  else raiseOrder o tol raises direction

/-- `SplineObject.set_order(*order)`; calls `self.raise_order(*diff)` (dispatching on the class). -/
def setOrder (o : Obj K) (tol : K) (isCurve : Bool) (order : List Int) : PyM (Ret × Obj K) :=
  let ord := if order.length = 1 then List.replicate o.pardim (order.headD 0) else order
  let olds : List Int := o.bases.toList.map (fun b => (b.order : Int))
  if !((List.zip ord olds).all (fun (n, ol) => decide (n ≥ ol))) then .error .value
  else
    let diff := (List.zip ord olds).map (fun (n, ol) => n - ol)
    raiseOrderDispatch o tol isCurve diff none

/-- `SplineObject.lower_order(*lowers)`: returns a NEW object (`clone()` when all amounts are 0). -/
def lowerOrder (o : Obj K) (tol : K) (lowers : List Int) : PyM (Ret × Obj K) :=
  let ls := if lowers.length = 1 then List.replicate o.pardim (lowers.headD 0) else lowers
  if ls.all (fun l => decide (l = 0)) then .ok (.new, o)
  else
    match lowerBases tol o.bases.toList ls with
    | .error e => .error e
    | .ok newBases =>
      match o.reinterpolate tol newBases with
      | .error e => .error e
      | .ok cps => .ok (.new, { o with bases := newBases.toArray, cps := cps })

end Obj

end Splipy
