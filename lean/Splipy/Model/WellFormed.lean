import Splipy.Model.Object
import Splipy.Model.Valid

/-!
# Structural well-formedness of a spline object (property C10)

`Obj.WellFormed` is exactly the conjunction of property C10:

* one basis per parametric direction (`bases.size = pardim`, `pardim = len(controlpoints.shape) - 1`);
* the control-point array has shape `num_functions()` per direction followed by the number of
  components `dimension + (1 if rational)` (physical dimension ≥ 1), and its flat data has as many
  entries as the shape says;
* every basis is `Basis.Valid` (order ≥ 1, non-decreasing knots, at least `2p` of them, `start < end`,
  periodicity in range, periodic ghost knots repeating the interior spacing);
* a rational object has only positive weights (last homogeneous component of every control point).

`Obj.wfB` is the same predicate as an executable Boolean (`C10_wfB_iff`).

(The name `Obj.WF` is taken by the much weaker "the control array is a genuine `… × ncomp` array"
predicate of `Lemmas/C09.lean`, and `WF o m` by the C06 predicate; this one implies both.)
-/

namespace Splipy

variable {K : Type} [Field K] [LinearOrder K]

namespace Obj

/-- The per-direction function counts `tuple(b.num_functions() for b in self.bases)`. -/
def counts (o : Obj K) : List ℕ := o.bases.toList.map Basis.numFunctions

/-- Number of control points `len(self)` = product of the function counts. -/
def len (o : Obj K) : ℕ := Tensor.prod o.counts

/-- Number of components the property prescribes: `dimension + (1 if rational)`. -/
def ncompSpec (o : Obj K) : ℕ := o.dimension + (if o.rational then 1 else 0)

/-- Weight (last homogeneous component) of the control point with C-order flat index `pI`. -/
def wt (o : Obj K) (pI : ℕ) : K := o.cps.get (pI * o.ncomp + o.dimension)

/-- **Structural well-formedness** — the conjunction stated by property C10. -/
structure WellFormed (o : Obj K) : Prop where
  /-- one basis per parametric direction -/
  bases_size : o.bases.size = o.pardim
  /-- control-point array shape = function counts ++ [dimension + rational] -/
  shape : o.cps.shape = o.counts ++ [o.ncompSpec]
  /-- the flat array really has that many entries -/
  data_size : o.cps.data.size = Tensor.prod o.cps.shape
  /-- the object lives in a physical space of dimension at least one -/
  dim_pos : 1 ≤ o.dimension
  /-- every basis is valid -/
  valid : ∀ d, d < o.bases.size → (o.basis d).Valid
  /-- rational ⇒ every weight is positive -/
  weights : o.rational = true → ∀ pI, pI < o.len → 0 < o.wt pI

/-- Executable version of `WellFormed`. -/
def wfB (o : Obj K) : Bool :=
  decide (o.bases.size = o.pardim)
  && decide (o.cps.shape = o.counts ++ [o.ncompSpec])
  && decide (o.cps.data.size = Tensor.prod o.cps.shape)
  && decide (1 ≤ o.dimension)
  && (List.range o.bases.size).all (fun d => (o.basis d).validB)
  && (!o.rational || (List.range o.len).all (fun pI => decide (0 < o.wt pI)))

end Obj

end Splipy
