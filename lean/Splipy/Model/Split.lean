import Splipy.Model.Object

/-!
# Executable model of `SplineObject.split`, `Curve.append`, `utils.refinement.subdivide`

Mirrors `splipy/splineobject.py` (`split`), `splipy/curve.py` (`append`) and
`splipy/utils/refinement.py` (`_splitvector`, `subdivide`) statement by statement.
`tol` is `state.knot_tolerance`.
-/

namespace Splipy

variable {K : Type} [Field K] [LinearOrder K] [FloorRing K]

/-- What `split` returns: a list of pieces, or — periodic direction and a single split point —
the opened OBJECT itself (not a list). -/
inductive SplitRes (K : Type) where
  | single : Obj K → SplitRes K
  | many : List (Obj K) → SplitRes K

namespace Obj

/-- `insert_knot` one value at a time with an explicit guard for the collapsed periodic domain
(`start = end`: numpy's `% 0.0` is `nan`, `bisect_right(knots, nan) = len(knots)`, `IndexError`).
The same guard is part of `Basis.insertKnot` itself, so `split` calls `Obj.insertKnots` directly;
the function is kept for `Lemmas/C10Split.lean`. -/
def insertKnotsSeq (o : Obj K) (knots : List K) (dir : ℕ) : PyM (Obj K) :=
  knots.foldlM (fun (ob : Obj K) x =>
    let b := ob.basis dir
    if b.periodic ≥ 0 ∧ b.stop = b.start ∧ (x < b.start ∨ x > b.stop) then .error .index
    else ob.insertKnots [x] dir) o

/-- First loop of `split`: for every split value look up the continuity on the ORIGINAL basis
(`bases = self.bases`), `np.inf ↦ p-1`, and insert `[k] * (continuity + 1)` into the clone. -/
def splitInsert (o : Obj K) (tol : K) (knots : List K) (dir : ℕ) : PyM (Obj K) :=
  let p := (o.basis dir).order
  knots.foldlM (fun (so : Obj K) k => do
    let c ← (o.basis dir).continuity tol k
    let cont : Int := match c with
      | none => (p : Int) - 1
      | some c => c
    so.insertKnots (List.replicate (cont + 1).toNat k) dir) o

/-- Non-periodic branch of `split`: `self` is the object the method was called on (its
`start`/`end` are used by the filter), `so` the clone after the insertions. -/
def splitPieces (self so : Obj K) (tol : K) (knots : List K) (dir : ℕ) : PyM (List (Obj K)) := do
  let p := (self.basis dir).order
  let b := so.basis dir
  let s := (self.basis dir).start
  let e := (self.basis dir).stop
  let step (st : List (Obj K) × ℕ × ℕ) (k : K) : PyM (List (Obj K) × ℕ × ℕ) :=
    let (res, lastCp, lastKnot) := st
    if s < k ∧ k < e then do
      let mu := b.bisectL k
      let nCp := mu - lastKnot
      let cp := so.cps.sliceAxis dir lastCp (lastCp + nCp)
      -- `BSplineBasis(p, b.knots[last_knot_i : mu+p])`
      let nb ← Basis.mk? p (b.knots.extract lastKnot (mu + p)) (-1) tol
      pure (res ++ [{ bases := so.bases.set! dir nb, cps := cp, rational := so.rational }],
            lastCp + nCp, mu)
    else pure st
  let (res, lastCp, lastKnot) ← knots.foldlM step ([], 0, 0)
  let nb ← Basis.mk? p (b.knots.extract lastKnot b.knots.size) (-1) tol
  let n := so.cps.shape.getD dir 0
  pure (res ++ [{ bases := so.bases.set! dir nb, cps := so.cps.sliceAxis dir lastCp n,
                  rational := so.rational }])

/-- `SplineObject.split(knots, direction)` (`knots` already wrapped into a list by
`ensure_listlike`; `dir` already checked). -/
def split (o : Obj K) (tol : K) (knots : List K) (dir : ℕ) : PyM (SplitRes K) := do
  let so ← o.splitInsert tol knots dir
  let b := so.basis dir
  if b.periodic > -1 then
    match knots with
    | [] => throw .index          -- `knots[0]` on an empty list
    | k0 :: rest =>
      let mu := b.bisectL k0      -- the RAW value, not wrapped into the domain
      let p := b.order
      let r := b.periodic.toNat
      let n := b.knots.size
      -- `roll`: `self.knots[:len_left] = self.knots[left]` with a negative `len_left` cannot broadcast
      if mu > n - p - r - 1 then throw .value
      let b1 ← b.roll mu
      let cps := so.cps.rollAxisNeg dir mu
      let b2 : Basis K := { b1 with knots := b1.knots.extract 0 (b1.knots.size - r - 1), periodic := -1 }
      let so2 : Obj K := { so with bases := so.bases.set! dir b2, cps := cps }
      if rest.length ≥ 1 then do
        -- recursive call `splitting_obj.split(knots[1:], direction)`: now non-periodic in `dir`
        let so3 ← so2.splitInsert tol rest dir
        let ps ← splitPieces so2 so3 tol rest dir
        pure (.many ps)
      else pure (.single so2)
  else do
    let ps ← splitPieces o so tol knots dir
    pure (.many ps)

/-- `Curve.append(curve)`; `none` = outside the modelled family (the two orders differ, which
needs `raise_order`, modelled with property C05). -/
def appendCurve (a c : Obj K) (tol : K) : PyM (Option (Obj K)) := do
  if (a.basis 0).periodic > -1 ∨ (c.basis 0).periodic > -1 then throw .runtime
  -- make_splines_compatible(self, extending_curve)
  let (a1, c1) : Obj K × Obj K :=
    if a.rational then (a, c.forceRational)
    else if c.rational then (a.forceRational, c) else (a, c)
  let (a2, c2) : Obj K × Obj K :=
    if a1.dimension > c1.dimension then (a1, c1.setDimension a1.dimension)
    else (a1.setDimension c1.dimension, c1)
  let p1 := (a2.basis 0).order
  let p2 := (c2.basis 0).order
  if p1 ≠ p2 then return none
  let p := p1
  let old := (a2.basis 0).knots
  let add0 := (c2.basis 0).knots
  let first := add0.getD 0 0
  let last := old.getD (old.size - 1) 0
  let add := add0.map (fun x => x - first + last)
  let newKnot := old.extract 0 (old.size - 1) ++ add.extract p add.size
  let n1 := (a2.basis 0).numFunctions
  let n2 := (c2.basis 0).numFunctions
  let nc := a2.ncomp
  let nb ← Basis.mk? p newKnot (-1) tol
  let data := a2.cps.data.extract 0 (n1 * nc) ++ c2.cps.data.extract nc (n2 * nc)
  pure (some { bases := #[nb], cps := { shape := [n1 + n2 - 1, nc], data := data }, rational := a2.rational })

end Obj

/-- `_splitvector(len, parts)` of `utils/refinement.py` (`parts ≥ 1`). -/
def splitVectorSizes (len parts : ℕ) (i : ℕ) : ℕ :=
  let delta := len / parts
  let remainder := len - parts * delta
  if parts - remainder + 1 ≤ i ∧ i < parts then delta + 1 else delta

/-- `result[i]`: `result[0] = 0`, `result[i] = sizes[i] + result[i-1]`. -/
def splitVectorAt (len parts : ℕ) : ℕ → ℕ
  | 0 => 0
  | i+1 => splitVectorSizes len parts (i+1) + splitVectorAt len parts i

def splitVector (len parts : ℕ) : List ℕ := (List.range parts).map (splitVectorAt len parts)

/-- `subdivide(objs, n)` with `n` already expanded to one entry per direction; mirrors the code
statement by statement.

```
for obj in result:
    splitting_points = [obj.knots(d)[i] for i in _splitvector(len(obj.knots(d)), n[d]+1)]
    new_results += obj.split(splitting_points[1:], d)
```
A periodic direction with a single splitting point makes `split` return an OBJECT instead of a
list.  `new_results += <object>` is then not a list extension: CPython tries the number slots
before the sequence slots, so `SplineObject.__radd__(new_results)` runs, i.e.
`copy(obj).translate(new_results)`.  With `new_results == []` the loop
`translation_matrix[i, -1] = x[i]` raises `IndexError` (the dimension is at least 1); with a
non-empty list of objects numpy refuses to store an object in the matrix (`ValueError`).  Either
way the call fails (finding class `subdivide-periodic-direction-single-split`; the property would
want the opened object as the only piece). -/
def subdivide (objs : List (Obj K)) (tol : K) (n : List ℕ) : PyM (List (Obj K)) :=
  let pardim := (objs.headD default).pardim
  (List.range pardim).foldlM (fun (result : List (Obj K)) d =>
    result.foldlM (fun (acc : List (Obj K)) obj => do
      let ks := (obj.basis d).knotSpans tol false
      let idx := splitVector ks.size (n.getD d 0 + 1)
      let pts := idx.map (fun i => ks.getD i 0)
      let r ← obj.split tol (pts.drop 1) d
      match r with
      | .many ps => pure (acc ++ ps)
      | .single _ => if acc.isEmpty then throw .index else throw .value) []) objs

end Splipy
