import Mathlib.Algebra.Order.Field.Basic
import Splipy.Proto.Val

/-!
# Model of `splipy/io/stl.py` (tessellation, facet splitting, counter) and of the coordinate maps
of `splipy/io/svg.py` (`__exit__` layout, `write_curve`, the flip in `read`)

Number formatting (`.4f`, `float32`, `%f`) is abstract: everything is exact in a field `K`; the
harness rounds on its side.
-/

namespace Splipy.FileIO

variable {K : Type}

/-! ## STL -/

/-- `faces = [[x[i,j], x[i,j+1], x[i+1,j+1], x[i+1,j]] for i in range(nu-1) for j in range(nv-1)]`
    as grid indices. -/
def stlQuads (nu nv : ℕ) : List (List (ℕ × ℕ)) :=
  (List.range (nu - 1)).flatMap fun i =>
    (List.range (nv - 1)).map fun j => [(i, j), (i, j + 1), (i + 1, j + 1), (i + 1, j)]

/-- `ASCII_STL_Writer.add_face`: a quad is `_split` into `(p1,p2,p3), (p3,p4,p1)`, a triangle is
    written as it is (anything else raises `ValueError`; `write_surface` only produces quads). -/
def stlAddFace {α : Type} : List α → Except PyErr (List (List α))
  | [p1, p2, p3, p4] => .ok [[p1, p2, p3], [p3, p4, p1]]
  | [p1, p2, p3] => .ok [[p1, p2, p3]]
  | _ => .error .value

/-- The facets one face contributes to the file (nothing when `add_face` raises). -/
def stlFaceTris {α : Type} (q : List α) : List (List α) :=
  match stlAddFace q with
  | .ok ts => ts
  | .error _ => []

/-- The facets (index triples) `_write`n for one `nu × nv` grid, in file order
    (`add_faces`: every face goes through `add_face`). -/
def stlTriangles (nu nv : ℕ) : List (List (ℕ × ℕ)) :=
  (stlQuads nu nv).flatMap stlFaceTris

/-- The facets with their vertices taken from the evaluated grid `x`. -/
def stlFacets {V : Type} (x : ℕ → ℕ → V) (nu nv : ℕ) : List (List V) :=
  (stlTriangles nu nv).map fun t => t.map fun ij => x ij.1 ij.2

/-- `BINARY_STL_Writer.counter` after writing surfaces with the given grid sizes (one increment
    per `_write`); this is the count `close()` puts in the header. -/
def stlCounter (grids : List (ℕ × ℕ)) : ℕ :=
  (grids.map fun g => (stlTriangles g.1 g.2).length).sum

section Params
variable [Field K] [LinearOrder K]

/-- `np.linspace(a, b, n)` -/
def linspace (a b : K) (n : ℕ) : List K :=
  (List.range n).map fun (i : ℕ) => if n = 1 then a else a + (i : K) * ((b - a) / ((n : K) - 1))

/-- `np.linspace(a, b, m, endpoint=False)` -/
def linspaceOpen (a b : K) (m : ℕ) : List K :=
  (List.range m).map fun (i : ℕ) => a + (i : K) * ((b - a) / (m : K))

/-- Evaluation parameters of `STL.write_surface` in one direction.  `knots` = `surface.knots(d)`
    (distinct knots inside the domain).  `n = some k`: `linspace(start, end, k)`; order 2: the
    knots; otherwise `2p-3` equispaced points per span plus the knots, sorted.
    (`p = 1` without `n` asks `np.linspace` for `-1` samples: `ValueError`.) -/
def stlParams (order : ℕ) (knots : List K) (n : Option ℕ) : Except PyErr (List K) :=
  match n with
  | some k => .ok (linspace (knots.headD 0) (knots.getLastD 0) k)
  | none =>
    if order = 2 then .ok knots
    else if order < 2 then .error .value
    else
      let inner := (knots.zip knots.tail).flatMap fun kk => linspaceOpen kk.1 kk.2 (2 * order - 3)
      .ok ((inner ++ knots).mergeSort (fun a b => decide (a ≤ b)))

end Params

/-! ## SVG -/

/-- The attributes `SVG.__exit__` computes before writing. -/
structure SvgLayout (K : Type) where
  scale : K
  width : K
  height : K
  margin : K
  cx : K
  cy : K
  ox : K
  oy : K
  deriving Repr

section Svg
variable [Field K] [LinearOrder K]

/-- `SVG.__exit__`: scale keeping the aspect ratio, never exceeding `width`/`height` including
    margins.  `bb = (xmin, ymin, xmax, ymax)`. -/
def svgLayout (width height margin : K) (bb : K × K × K × K) : SvgLayout K :=
  let (x0, y0, x1, y1) := bb
  let geometryRatio := (y1 - y0) / (x1 - x0)
  let imageRatio := height / width
  if geometryRatio > imageRatio then
    let marginPixels := height * margin
    { scale := height * (1 - 2 * margin) / (y1 - y0),
      width := height / geometryRatio + 2 * marginPixels, height := height, margin := margin,
      cx := x0, cy := y0, ox := marginPixels, oy := marginPixels }
  else
    let marginPixels := width * margin
    { scale := width * (1 - 2 * margin) / (x1 - x0),
      width := width, height := width * geometryRatio + 2 * marginPixels, margin := margin,
      cx := x0, cy := y0, ox := marginPixels, oy := marginPixels }

/-- `write_curve`: `bezier -= center; bezier *= scale; bezier += offset`, then the printed pair
    `(x, self.height + 2*self.margin - y)`. -/
def svgWritePt (L : SvgLayout K) (p : K × K) : K × K :=
  let bx := (p.1 - L.cx) * L.scale + L.ox
  let by' := (p.2 - L.cy) * L.scale + L.oy
  (bx, L.height + 2 * L.margin - by')

/-- `read`: `crv *= [1,-1]; crv += [0, self.height]` with the height attribute of the file. -/
def svgReadPt (height : K) (q : K × K) : K × K := (q.1 * 1 + 0, q.2 * (-1) + height)

/-- Bounding box of all control points (`bounding_box()` of non-rational curves, folded as in
    `__exit__`). -/
def svgBBox : List (K × K) → Option (K × K × K × K)
  | [] => none
  | p :: ps => some (ps.foldl (fun (bb : K × K × K × K) q =>
      (min bb.1 q.1, min bb.2.1 q.2, max bb.2.2.1 q.1, max bb.2.2.2 q.2)) (p.1, p.2, p.1, p.2))

end Svg

end Splipy.FileIO
