import Splipy.Model.Split

/-!
# Executable model of `SplineObject.make_periodic` and `SplineObject.lower_periodic`

Mirrors `splipy/splineobject.py` statement by statement (`BSplineBasis.make_periodic`, `roll` and the
constructor validation are in `Model/BasisOps.lean`).  `tol` is `state.knot_tolerance`.
-/

namespace Splipy

variable {K : Type} [Field K] [LinearOrder K] [FloorRing K]

namespace Obj

/-- The merge weights: `np.linspace(0, 1, continuity + 1)` if `continuity > 0` else `[0.5]`. -/
def periodicWeight (continuity i : ℕ) : K :=
  if continuity = 0 then 1 / 2 else (i : K) / (continuity : K)

/-- Merge of the control points along `dir`: rows `i ≤ continuity` become
`t_i · cps[i] + (1 - t_i) · cps[-continuity-1+i]`, then the last `continuity + 1` rows are cut. -/
def mergeCps (cps : Tensor K) (dir continuity : ℕ) : Tensor K :=
  let nCp := cps.shape.getD dir 0
  Tensor.build3 cps.shape dir (nCp - (continuity + 1)) (fun a r i =>
    if r ≤ continuity then
      let t : K := periodicWeight continuity r
      t * cps.at3 dir a r i + (1 - t) * cps.at3 dir a (nCp - (continuity + 1) + r) i
    else cps.at3 dir a r i)

/-- `SplineObject.make_periodic(continuity, direction)`; `continuity = none` is the default `None`
(`order - 2`).  `dir` already checked. -/
def makePeriodic (o : Obj K) (tol : K) (continuity : Option Int) (dir : ℕ) : PyM (Obj K) := do
  let basis := o.basis dir
  let cont : Int := match continuity with
    | none => (basis.order : Int) - 2
    | some c => c
  if ¬ (-1 ≤ cont ∧ cont ≤ (basis.order : Int) - 2) then throw .value
  if cont = -1 then throw .value
  if basis.periodic ≥ 0 then throw .value
  let k := cont.toNat
  let nb ← basis.makePeriodic tol k
  let nCp := o.cps.shape.getD dir 0
  -- `cps[-continuity-1+i]` is out of bounds when there are fewer than `continuity + 1` rows
  if nCp < k + 1 then throw .index
  pure { o with bases := o.bases.set! dir nb, cps := mergeCps o.cps dir k }

/-- `SplineObject.lower_periodic(periodic, direction)`. -/
def lowerPeriodic (o : Obj K) (target : Int) (dir : ℕ) : PyM (Obj K) :=
  let rec loop (fuel : ℕ) (o : Obj K) : PyM (Obj K) :=
    let b := o.basis dir
    match fuel with
    | 0 => pure o
    | f + 1 =>
      if target < b.periodic then do
        let o1 ← o.insertKnots [b.start] dir
        let cps := o1.cps.rollAxisNeg dir 1
        let b1 ← (o1.basis dir).roll 1
        let b2 : Basis K := { b1 with periodic := b1.periodic - 1,
                                      knots := b1.knots.extract 0 (b1.knots.size - 1) }
        loop f { o1 with bases := o1.bases.set! dir b2, cps := cps }
      else if target > b.periodic then throw .value
      else pure o
  loop (((o.basis dir).periodic - target).toNat + 1) o

/-- `make_periodic(split(o, start), k)` — the round trip of property C08 (opening at the seam and
closing again). -/
def roundTrip (o : Obj K) (tol : K) (k : Int) (dir : ℕ) : PyM (Obj K) := do
  let r ← o.split tol [(o.basis dir).start] dir
  match r with
  | .single op => op.makePeriodic tol (some k) dir
  | .many _ => throw .type      -- `list` has no `make_periodic` (non-periodic direction)

end Obj

end Splipy
