import Mathlib.Algebra.Field.Defs

/-!
# Executable model of the rational-derivative closed forms

Mirrors, line by line,

* `SplineObject.derivative` (splipy/splineobject.py): the generic first-order quotient rule
  `result[..., i] / W - non_derivative[..., i] * Wd / W / W`;
* `Curve.derivative` (splipy/curve.py): closed forms for `d = 2` and `d = 3`;
* `Surface.derivative` (splipy/surface.py): closed forms for
  `derivs ∈ {(1,0),(0,1),(1,1),(2,0),(0,2),(3,0),(0,3),(2,1),(1,2)}`.

All functions act on ONE physical component `i`: the arguments are the jet of the homogeneous
numerator component (`d0[:, i]`, `d1[:, i]`, …) and the jet of the weight component
(`W`, `W1`, …, i.e. the last homogeneous coordinate).  Everything is computable over any field.

Dictionary for the surface code (`n W : SurfJet K`, field `fab` = ∂ᵃ/∂uᵃ ∂ᵇ/∂vᵇ):

| Python            | Lean     | Python   | Lean     |
|-------------------|----------|----------|----------|
| `d0ud0v[:,:,i]`   | `n.f00`  | `W`      | `W.f00`  |
| `d1ud0v[:,:,i]`   | `n.f10`  | `dWdu`   | `W.f10`  |
| `d0ud1v[:,:,i]`   | `n.f01`  | `dWdv`   | `W.f01`  |
| `d1ud1v[:,:,i]`   | `n.f11`  | `d2Wduv` | `W.f11`  |
| `d2ud0v[:,:,i]`   | `n.f20`  | `d2Wdu`  | `W.f20`  |
| `d0ud2v[:,:,i]`   | `n.f02`  | `d2Wdv`  | `W.f02`  |
| `d2ud1v[:,:,i]`   | `n.f21`  | `d3Wduuv`| `W.f21`  |
| `d1ud2v[:,:,i]`   | `n.f12`  | `d3Wduvv`| `W.f12`  |
| `d3ud0v[:,:,i]`   | `n.f30`  | `d3Wdu`  | `W.f30`  |
| `d0ud3v[:,:,i]`   | `n.f03`  | `d3Wdv`  | `W.f03`  |
-/

namespace Splipy.RatDeriv

variable {K : Type} [Field K]

/-! ## `SplineObject.derivative` – generic first order quotient rule -/

/-- `result[..., i] = result[..., i] / W - non_derivative[..., i] * Wd / W / W`
with `n1 = result[..., i]` (differentiated numerator), `n0 = non_derivative[..., i]`,
`W = non_derivative[..., -1]`, `W1 = Wd = result[..., -1]`. -/
def first (n0 n1 W W1 : K) : K := n1 / W - n0 * W1 / W / W

/-! ## `Curve.derivative` -/

/-- `d == 2`:
`result[:, i] = (d2[:, i] * W * W - 2 * W1 * (d1[:, i] * W - d0[:, i] * W1) - d0[:, i] * W2 * W) / W / W / W`. -/
def curveD2 (n0 n1 n2 W W1 W2 : K) : K :=
  (n2 * W * W - 2 * W1 * (n1 * W - n0 * W1) - n0 * W2 * W) / W / W / W

/-- `d == 3` (the unused local `W6` of the Python code is omitted). -/
def curveD3 (n0 n1 n2 n3 W W1 W2 W3 : K) : K :=
  let H  := n1 * W - n0 * W1
  let H1 := n2 * W - n0 * W2
  let H2 := n3 * W + n2 * W1 - n1 * W2 - n0 * W3
  let G  := H1 * W - 2 * H * W1
  let G1 := H2 * W - 2 * H * W2 - H1 * W1
  (G1 * W - 3 * G * W1) / W / W / W / W

/-! ## `Surface.derivative` -/

/-- Partial derivatives up to total order 3 of one scalar function of `(u,v)`;
`fab` is `∂ᵃ/∂uᵃ ∂ᵇ/∂vᵇ`. -/
structure SurfJet (K : Type) where
  f00 : K
  f10 : K
  f01 : K
  f11 : K
  f20 : K
  f02 : K
  f21 : K
  f12 : K
  f30 : K
  f03 : K
  deriving Repr

/-- Entry `(du,dv)` of a jet (`0` outside the stored range `du+dv ≤ 3`). -/
def SurfJet.get (x : SurfJet K) : ℕ → ℕ → K
  | 0, 0 => x.f00
  | 1, 0 => x.f10
  | 0, 1 => x.f01
  | 1, 1 => x.f11
  | 2, 0 => x.f20
  | 0, 2 => x.f02
  | 2, 1 => x.f21
  | 1, 2 => x.f12
  | 3, 0 => x.f30
  | 0, 3 => x.f03
  | _, _ => 0

/-! The intermediate quantities of the loop body of `Surface.derivative`, one definition per
Python assignment, same names (namespace `Splipy.RatDeriv.Surf`). -/
namespace Surf

/-- `H1 = d1ud0v[:,:,i] * W - d0ud0v[:,:,i] * dWdu` -/
def H1 (n W : SurfJet K) : K := n.f10 * W.f00 - n.f00 * W.f10
/-- `H2 = d0ud1v[:,:,i] * W - d0ud0v[:,:,i] * dWdv` -/
def H2 (n W : SurfJet K) : K := n.f01 * W.f00 - n.f00 * W.f01
/-- `dH1du = d2ud0v[:,:,i] * W - d0ud0v[:,:,i] * d2Wdu` -/
def dH1du (n W : SurfJet K) : K := n.f20 * W.f00 - n.f00 * W.f20
/-- `dH1dv = d1ud1v*W + d1ud0v*dWdv - d0ud1v*dWdu - d0ud0v*d2Wduv` -/
def dH1dv (n W : SurfJet K) : K :=
  n.f11 * W.f00 + n.f10 * W.f01 - n.f01 * W.f10 - n.f00 * W.f11
/-- `dH2du = d1ud1v*W + d0ud1v*dWdu - d1ud0v*dWdv - d0ud0v*d2Wduv` -/
def dH2du (n W : SurfJet K) : K :=
  n.f11 * W.f00 + n.f01 * W.f10 - n.f10 * W.f01 - n.f00 * W.f11
/-- `dH2dv = d0ud2v[:,:,i] * W - d0ud0v[:,:,i] * d2Wdv` -/
def dH2dv (n W : SurfJet K) : K := n.f02 * W.f00 - n.f00 * W.f02
/-- `G1 = dH1du*W - 2*H1*dWdu` -/
def G1 (n W : SurfJet K) : K := dH1du n W * W.f00 - 2 * H1 n W * W.f10
/-- `G2 = dH2dv*W - 2*H2*dWdv` -/
def G2 (n W : SurfJet K) : K := dH2dv n W * W.f00 - 2 * H2 n W * W.f01

/-- `d2H1du = d3ud0v*W + d2ud0v*dWdu - d1ud0v*d2Wdu - d0ud0v*d3Wdu` -/
def d2H1du (n W : SurfJet K) : K :=
  n.f30 * W.f00 + n.f20 * W.f10 - n.f10 * W.f20 - n.f00 * W.f30
/-- `d2H1duv = d2ud1v*W + d2ud0v*dWdv - d0ud1v*d2Wdu - d0ud0v*d3Wduuv` -/
def d2H1duv (n W : SurfJet K) : K :=
  n.f21 * W.f00 + n.f20 * W.f01 - n.f01 * W.f20 - n.f00 * W.f21
/-- `d2H2dv = d0ud3v*W + d0ud2v*dWdv - d0ud1v*d2Wdv - d0ud0v*d3Wdv` -/
def d2H2dv (n W : SurfJet K) : K :=
  n.f03 * W.f00 + n.f02 * W.f01 - n.f01 * W.f02 - n.f00 * W.f03
/-- `d2H2duv = d1ud2v*W + d0ud2v*dWdu - d1ud0v*d2Wdv - d0ud0v*d3Wduvv` -/
def d2H2duv (n W : SurfJet K) : K :=
  n.f12 * W.f00 + n.f02 * W.f10 - n.f10 * W.f02 - n.f00 * W.f12
/-- `dG1du = d2H1du*W + dH1du*dWdu - 2*dH1du*dWdu - 2*H1*d2Wdu` -/
def dG1du (n W : SurfJet K) : K :=
  d2H1du n W * W.f00 + dH1du n W * W.f10 - 2 * dH1du n W * W.f10 - 2 * H1 n W * W.f20
/-- `dG1dv = d2H1duv*W + dH1du*dWdv - 2*dH1dv*dWdu - 2*H1*d2Wduv` -/
def dG1dv (n W : SurfJet K) : K :=
  d2H1duv n W * W.f00 + dH1du n W * W.f01 - 2 * dH1dv n W * W.f10 - 2 * H1 n W * W.f11
/-- `dG2du = d2H2duv*W + dH2dv*dWdu - 2*dH2du*dWdv - 2*H2*d2Wduv` -/
def dG2du (n W : SurfJet K) : K :=
  d2H2duv n W * W.f00 + dH2dv n W * W.f10 - 2 * dH2du n W * W.f01 - 2 * H2 n W * W.f11
/-- `dG2dv = d2H2dv*W + dH2dv*dWdv - 2*dH2dv*dWdv - 2*H2*d2Wdv` -/
def dG2dv (n W : SurfJet K) : K :=
  d2H2dv n W * W.f00 + dH2dv n W * W.f01 - 2 * dH2dv n W * W.f01 - 2 * H2 n W * W.f02

end Surf

open Surf

/-- `derivs == (1,0)`: `result = H1 / W/W`.  (Dead code in Python: `sum(derivs) < 2` is delegated
to `SplineObject.derivative` before this branch can be reached; see `surfD`.) -/
def surfD10 (n W : SurfJet K) : K := H1 n W / W.f00 / W.f00
/-- `derivs == (0,1)`: `result = H2 / W/W`.  (Dead code in Python, as for `(1,0)`.) -/
def surfD01 (n W : SurfJet K) : K := H2 n W / W.f00 / W.f00
/-- `derivs == (1,1)`: `result = (dH1dv*W - 2*H1*dWdv) /W/W/W` -/
def surfD11 (n W : SurfJet K) : K :=
  (dH1dv n W * W.f00 - 2 * H1 n W * W.f01) / W.f00 / W.f00 / W.f00
/-- `derivs == (2,0)`: `result = G1 /W/W/W` -/
def surfD20 (n W : SurfJet K) : K := G1 n W / W.f00 / W.f00 / W.f00
/-- `derivs == (0,2)`: `result = G2 /W/W/W` -/
def surfD02 (n W : SurfJet K) : K := G2 n W / W.f00 / W.f00 / W.f00
/-- `derivs == (3,0)`: `result = (dG1du*W -3*G1*dWdu) /W/W/W/W` -/
def surfD30 (n W : SurfJet K) : K :=
  (dG1du n W * W.f00 - 3 * G1 n W * W.f10) / W.f00 / W.f00 / W.f00 / W.f00
/-- `derivs == (0,3)`: `result = (dG2dv*W -3*G2*dWdv) /W/W/W/W` -/
def surfD03 (n W : SurfJet K) : K :=
  (dG2dv n W * W.f00 - 3 * G2 n W * W.f01) / W.f00 / W.f00 / W.f00 / W.f00
/-- `derivs == (2,1)`: `result = (dG1dv*W -3*G1*dWdv) /W/W/W/W` -/
def surfD21 (n W : SurfJet K) : K :=
  (dG1dv n W * W.f00 - 3 * G1 n W * W.f01) / W.f00 / W.f00 / W.f00 / W.f00
/-- `derivs == (1,2)`: `result = (dG2du*W -3*G2*dWdu) /W/W/W/W` -/
def surfD12 (n W : SurfJet K) : K :=
  (dG2du n W * W.f00 - 3 * G2 n W * W.f10) / W.f00 / W.f00 / W.f00 / W.f00

/-- The value `Surface.derivative(u, v, d=(du,dv))` computes for one component of a RATIONAL
surface, following the live control flow: total order 1 is delegated to
`SplineObject.derivative` (`first`); total order 2 and 3 use the closed forms above;
every other multi-index gives `none` (Python: total order `> 3` raises `RuntimeError`;
total order `0` is outside the intended domain – the code then returns
`first n.f00 n.f00 W.f00 W.f00`, which is `0`, see `first_order_zero` in `Lemmas/QuotientRule.lean`). -/
def surfD (n W : SurfJet K) : ℕ → ℕ → Option K
  | 1, 0 => some (first n.f00 n.f10 W.f00 W.f10)
  | 0, 1 => some (first n.f00 n.f01 W.f00 W.f01)
  | 1, 1 => some (surfD11 n W)
  | 2, 0 => some (surfD20 n W)
  | 0, 2 => some (surfD02 n W)
  | 3, 0 => some (surfD30 n W)
  | 0, 3 => some (surfD03 n W)
  | 2, 1 => some (surfD21 n W)
  | 1, 2 => some (surfD12 n W)
  | _, _ => none

end Splipy.RatDeriv
