import Mathlib.Algebra.Order.Field.Basic
import Mathlib.Algebra.Order.Floor.Defs
import Splipy.Proto.Val
import Splipy.Model.Basis

/-!
# Executable model of the tolerance-dependent code (C20)

* `SplineObject._validate_domain`  (`splineobject.py`)
* `BSplineBasis.continuity`, `BSplineBasis.knot_spans`  (`basis.py`)
* `VertexDict`  (`splinemodel.py`): `_bounds`, the per-coordinate sorted look-up tables, the
  candidate intersection, `__setitem__/__getitem__/__delitem__`.

`snap` and the tolerance tests of `evalRow` live in `Model/Basis.lean`.  Every tolerance is a
parameter (the code reads it from `splipy.state` at call time).
-/

namespace Splipy

variable {K : Type} [Field K] [LinearOrder K]

/-! The basis-level functions live in `Splipy.Tol` (other work packages model the same methods
    inside larger object models under `Splipy.Basis` / `Splipy.Obj`). -/
namespace Tol

/-- `SplineObject._validate_domain` for one direction: `b.snap(p)` (in place), then for a
    non-periodic basis `min(p) < b.start() or b.end() < max(p)` raises `ValueError`.
    Returns the snapped parameters. -/
def validateDomain (b : Basis K) (tol : K) (ts : List K) : Except PyErr (List K) :=
  let ts' := ts.map (snap b tol)
  if b.periodic < 0 then
    -- `min`/`max` of an empty array raise ValueError as well
    if ts'.isEmpty ∨ ts'.any (fun t => t < b.start) ∨ ts'.any (fun t => b.stop < t) then
      throw .value
    else pure ts'
  else pure ts'

/-- `BSplineBasis.continuity(knot)`; `none` stands for `numpy.inf`. -/
def continuity [FloorRing K] (b : Basis K) (tol t0 : K) : Except PyErr (Option ℤ) :=
  let start := b.start
  let stop := b.stop
  -- the range test uses the knot tolerance as well (fix of findings C12 `periodic-rounded-ghost-knots-out-of-range`,
  -- C14 `loft-periodic-rounded-knots-out-of-range`)
  if b.periodic < 0 ∧ (t0 < start - tol ∨ stop + tol < t0) then throw .value
  else
    let t := if b.periodic ≥ 0 ∧ (t0 < start ∨ t0 > stop) then
               pmod (t0 - start) (stop - start) + start else t0
    -- first knot that is larger than the right tolerance point
    let hi := bisectLeft b.kn (t + tol) b.size
    -- last knot that is smaller than the left tolerance point
    let lo := bisectLeft b.kn (t - tol) b.size
    if hi = lo then pure none
    else pure (some ((b.order : ℤ) - ((hi : ℤ) - (lo : ℤ)) - 1))

/-- The loop `for k in ks: if abs(k - result[-1]) > tol: result.append(k)`; `acc` is `result`
    reversed (so that `result[-1]` is its head). -/
def spansLoop (tol : K) : List K → List K → List K
  | [], acc => acc.reverse
  | k :: ks, acc =>
      match acc with
      | [] => spansLoop tol ks [k]
      | last :: _ => if |k - last| > tol then spansLoop tol ks (k :: acc) else spansLoop tol ks acc

/-- `BSplineBasis.knot_spans(include_ghost_knots)`. -/
def knotSpans (b : Basis K) (tol : K) (ghost : Bool) : List K :=
  let p := b.order
  let n := b.knots.size
  if ghost then spansLoop tol b.knots.toList [b.kn 0]
  else
    -- `self.knots[p-1:-p+1]`: for `p = 1` the stop index is `0` (an empty slice)
    let stop := if p = 1 then 0 else n - p + 1
    spansLoop tol ((b.knots.toList.drop (p - 1)).take (stop - (p - 1))) [b.kn (p - 1)]

/-- `numpy.allclose(a, b, rtol, atol)` for two flat arrays of equal length (as used on control
    nets by `Orientation.compute`, with `rtol/atol = state.controlpoint_*_tolerance`, and on
    normalised knot vectors by `BSplineBasis.matches`): `|a − b| ≤ atol + rtol·|b|` entry-wise. -/
def allclose (rtol atol : K) (a b : List K) : Bool :=
  decide (a.length = b.length) &&
    (List.zip a b).all (fun p => decide (|p.1 - p.2| ≤ atol + rtol * |p.2|))

end Tol

/-! ## VertexDict -/

/-- `VertexDict`: keys are coordinate arrays of one fixed length.  `lut c` is the look-up table
    of coordinate `c`: pairs `(index, value)` sorted by value.  Deleted entries keep their table
    rows; `keys[i] = none` marks them (`_keys[i] = None`, `_values[i] = None`). -/
structure VertexDict (K V : Type) where
  rtol : K
  atol : K
  keys : Array (Option (Array K))
  values : Array (Option V)
  lut : ℕ → List (ℕ × K)

namespace VertexDict

variable {V : Type}

def empty (rtol atol : K) : VertexDict K V :=
  { rtol := rtol, atol := atol, keys := #[], values := #[], lut := fun _ => [] }

/-- `_bounds(key)` for one coordinate. -/
def bounds (d : VertexDict K V) (key : K) : K × K :=
  if key ≥ d.atol then ((key - d.atol) / (1 + d.rtol), (key + d.atol) / (1 - d.rtol))
  else if key ≤ -d.atol then ((key - d.atol) / (1 - d.rtol), (key + d.atol) / (1 + d.rtol))
  else ((key - d.atol) / (1 - d.rtol), (key + d.atol) / (1 - d.rtol))

/-- value accessor of a look-up table (`key=itemgetter(1)`) -/
def lutVal (l : List (ℕ × K)) (i : ℕ) : K := (l.getD i (0, 0)).2

/-- `{i for i, _ in lut[lo:hi]}` with `lo/hi = bisect_left(lut, minval/maxval, key=itemgetter(1))` -/
def slice (l : List (ℕ × K)) (minval maxval : K) : List ℕ :=
  let lo := bisectLeft (lutVal l) minval l.length
  let hi := bisectLeft (lutVal l) maxval l.length
  ((l.drop lo).take (hi - lo)).map Prod.fst

/-- indices that survive the intersection over coordinates `c, c+1, …` (`fuel` of them) -/
def inAll (d : VertexDict K V) (key : Array K) (i : ℕ) : ℕ → ℕ → Bool
  | _, 0 => true
  | c, fuel + 1 =>
      let bd := d.bounds (key.getD c 0)
      decide (i ∈ slice (d.lut c) bd.1 bd.2) && inAll d key i (c + 1) fuel

/-- The candidate set of `_candidate(key)` restricted to live keys, in ascending index order. -/
def liveCandidates (d : VertexDict K V) (key : Array K) : List ℕ :=
  (List.range d.keys.size).filter (fun i =>
    inAll d key i 0 key.size && (d.keys.getD i none).isSome)

/-- `_candidate(key)`.  The code returns the first live member of a Python `set` in hash
    order; the model returns the least index (the choice only matters when several stored keys
    match, which the theorems and the generators treat separately).  A key without coordinates
    makes the code iterate over `None` (`TypeError`). -/
def candidate (d : VertexDict K V) (key : Array K) : Except PyErr ℕ :=
  if key.size = 0 then throw .type
  else match liveCandidates d key with
    | c :: _ => pure c
    | [] => throw .key

/-- `bisect.insort(lut, (newindex, v), key=itemgetter(1))` (= `insort_right`). -/
def insort (l : List (ℕ × K)) (x : ℕ × K) : List (ℕ × K) :=
  let pos := bisectRight (lutVal l) x.2 l.length
  l.take pos ++ x :: l.drop pos

/-- `_insert(key, value)` -/
def insert (d : VertexDict K V) (key : Array K) (v : V) : VertexDict K V :=
  let idx := d.values.size
  { d with
    lut := fun c => if c < key.size then insort (d.lut c) (idx, key.getD c 0) else d.lut c
    keys := d.keys.push (some key)
    values := d.values.push (some v) }

/-- `__setitem__` -/
def setItem (d : VertexDict K V) (key : Array K) (v : V) : Except PyErr (VertexDict K V) :=
  match candidate d key with
  | .ok c => pure { d with values := d.values.setIfInBounds c (some v) }
  | .error .key => pure (insert d key v)
  | .error e => throw e

/-- `__getitem__` -/
def getItem (d : VertexDict K V) (key : Array K) : Except PyErr (Option V) := do
  let c ← candidate d key
  pure (d.values.getD c none)

/-- `__delitem__` -/
def delItem (d : VertexDict K V) (key : Array K) : Except PyErr (VertexDict K V) :=
  match candidate d key with
  | .ok c => pure { d with keys := d.keys.setIfInBounds c none, values := d.values.setIfInBounds c none }
  | .error .key => pure d
  | .error e => throw e

/-- `__len__` (counts deleted rows too: `len(self._values)`) -/
def len (d : VertexDict K V) : ℕ := d.values.size

end VertexDict

end Splipy
