/-
Line-protocol values.  No Mathlib here: core Lean only.

A protocol line is   `<op> <arg> <arg> ...`   (single spaces).  An argument is
  * a rational  `-3/4`  or an integer `12`
  * a list      `[a,b,[c,d]]`   (no spaces inside)
  * a bare word `left`, `ValueError`, ...
Responses use the same syntax.
-/

inductive Val where
  | num  : Rat → Val
  | list : List Val → Val
  | str  : String → Val
  deriving Inhabited, Repr

namespace Val

def ratToString (q : Rat) : String :=
  if q.den == 1 then toString q.num else toString q.num ++ "/" ++ toString q.den

partial def render : Val → String
  | .num q   => ratToString q
  | .str s   => s
  | .list xs => "[" ++ ",".intercalate (xs.map render) ++ "]"

instance : ToString Val := ⟨render⟩

def isWordChar (c : Char) : Bool :=
  c.isAlphanum || c == '_' || c == ':' || c == '.' || c == '-' || c == '/' || c == '+'

def parseInt? (s : String) : Option Int :=
  if s.startsWith "-" then (s.drop 1).toNat?.map (fun n => - (n : Int))
  else if s.startsWith "+" then (s.drop 1).toNat?.map (fun n => (n : Int))
  else s.toNat?.map (fun n => (n : Int))

def parseRat? (s : String) : Option Rat :=
  match s.splitOn "/" with
  | [a]    => (parseInt? a).map (fun n => (n : Rat))
  | [a, b] => do
      let n ← parseInt? a
      let d ← b.toNat?
      if d == 0 then none else some (mkRat n d)
  | _ => none

def atom (s : String) : Val :=
  match parseRat? s with
  | some q => .num q
  | none   => .str s

/-- Parse one value from a char list; returns the value and the rest. -/
partial def parseChars : List Char → Option (Val × List Char)
  | '[' :: rest =>
      let rec items (cs : List Char) (acc : List Val) : Option (Val × List Char) :=
        match cs with
        | ']' :: r => some (.list acc.reverse, r)
        | ',' :: r => items r acc
        | _ => match parseChars cs with
               | some (v, r) => items r (v :: acc)
               | none => none
      items rest []
  | cs =>
      let w := cs.takeWhile isWordChar
      if w.isEmpty then none else some (atom (String.ofList w), cs.drop w.length)

def parse (s : String) : Option Val :=
  match parseChars s.toList with
  | some (v, []) => some v
  | _ => none

/-! Accessors used by the drivers (all partial on ill-typed input: return `none`). -/

def toRat? : Val → Option Rat
  | .num q => some q
  | _ => none

def toInt? : Val → Option Int
  | .num q => if q.den == 1 then some q.num else none
  | _ => none

def toNat? : Val → Option Nat
  | .num q => if q.den == 1 && q.num ≥ 0 then some q.num.toNat else none
  | _ => none

def toBool? : Val → Option Bool
  | .num q => some (q != 0)
  | .str "true" => some true
  | .str "false" => some false
  | _ => none

def toList? : Val → Option (List Val)
  | .list xs => some xs
  | _ => none

def toStr? : Val → Option String
  | .str s => some s
  | _ => none

def toRats? (v : Val) : Option (List Rat) := do
  let xs ← v.toList?
  xs.mapM toRat?

def toNats? (v : Val) : Option (List Nat) := do
  let xs ← v.toList?
  xs.mapM toNat?

def toInts? (v : Val) : Option (List Int) := do
  let xs ← v.toList?
  xs.mapM toInt?

def ofRats (xs : List Rat) : Val := .list (xs.map .num)
def ofNats (xs : List Nat) : Val := .list (xs.map (fun (n : Nat) => Val.num (n : Rat)))
def ofInts (xs : List Int) : Val := .list (xs.map (fun (n : Int) => Val.num (n : Rat)))
def ofNat (n : Nat) : Val := .num (n : Rat)
def ofInt (n : Int) : Val := .num (n : Rat)
def ofBool (b : Bool) : Val := .str (if b then "true" else "false")
def ofMat (m : List (List Rat)) : Val := .list (m.map ofRats)

def err (kind : String) : Val := .str ("err:" ++ kind)

end Val

/-- Python exception classes the model can raise. -/
inductive PyErr where
  | value | runtime | index | type | key | name | attribute | notImplemented | zeroDiv | linalg | other
  deriving Repr, DecidableEq, Inhabited

def PyErr.pyName : PyErr → String
  | .value => "ValueError" | .runtime => "RuntimeError" | .index => "IndexError"
  | .type => "TypeError" | .key => "KeyError" | .name => "NameError"
  | .attribute => "AttributeError" | .notImplemented => "NotImplementedError"
  | .zeroDiv => "ZeroDivisionError" | .linalg => "LinAlgError" | .other => "Exception"

def PyErr.toVal (e : PyErr) : Val := Val.err e.pyName

abbrev PyM := Except PyErr
