import Mathlib.Algebra.Order.Field.Basic
import Mathlib.Algebra.BigOperators.Group.Finset.Defs

/-!
# Specification layer: the mathematically defined B-spline

This file is what a reader must agree says "B-spline".  It is deliberately short.

`τ : ℕ → K` is a knot sequence, `q` is the polynomial *degree* (Splipy's `order` is `q+1`).
`B side τ q i t` is the Cox–de Boor recursion; `side = right` gives the right-continuous
version (value at a knot = limit from above), `side = left` the left-continuous one.
Division by zero in Lean is zero, which coincides with the usual `0/0 := 0` convention
of the recursion.

`dB side τ q i d t` is the `d`-th derivative defined by the classical derivative recursion
(`Splipy/Lemmas/Deriv*.lean` relates it to `Polynomial.derivative` of the polynomial pieces).
-/

namespace Splipy

inductive Side where
  | right | left
  deriving DecidableEq, Repr, Inhabited

def Side.flip : Side → Side
  | .right => .left
  | .left => .right

variable {K : Type} [Field K] [LinearOrder K]

/-- Degree-zero indicator of the knot span `[a,b)` (right) resp. `(a,b]` (left). -/
def ind (s : Side) (a b t : K) : K :=
  match s with
  | .right => if a ≤ t ∧ t < b then 1 else 0
  | .left  => if a < t ∧ t ≤ b then 1 else 0

/-- Cox–de Boor.  `B s τ q i t` = the `i`-th B-spline of degree `q` on knots `τ` at `t`. -/
def B (s : Side) (τ : ℕ → K) : ℕ → ℕ → K → K
  | 0,     i, t => ind s (τ i) (τ (i+1)) t
  | q+1, i, t =>
      (t - τ i) / (τ (i+q+1) - τ i) * B s τ q i t
      + (τ (i+q+2) - t) / (τ (i+q+2) - τ (i+1)) * B s τ q (i+1) t

/-- `d`-th derivative of `B s τ q i` at `t` (one-sided according to `s`),
    by the classical recursion  `B' = q (B_{i,q-1}/Δ_i − B_{i+1,q-1}/Δ_{i+1})`. -/
def dB (s : Side) (τ : ℕ → K) : ℕ → ℕ → ℕ → K → K
  | q,     i, 0,     t => B s τ q i t
  | 0,     _, _+1,   _ => 0
  | q+1, i, d+1, t =>
      ((q : K) + 1) * (dB s τ q i d t / (τ (i+q+1) - τ i)
                        - dB s τ q (i+1) d t / (τ (i+q+2) - τ (i+1)))

/-- Value of the spline `Σ_{i<n} c i · B_i` (finite sum over the first `n` functions). -/
def splineVal (s : Side) (τ : ℕ → K) (q n : ℕ) (c : ℕ → K) (t : K) : K :=
  (Finset.range n).sum (fun i => c i * B s τ q i t)

/-- `d`-th derivative of the same spline. -/
def splineDeriv (s : Side) (τ : ℕ → K) (q n : ℕ) (c : ℕ → K) (d : ℕ) (t : K) : K :=
  (Finset.range n).sum (fun i => c i * dB s τ q i d t)

end Splipy
