import Mathlib.Data.Rat.Floor
import Mathlib.Tactic.NormNum
import Mathlib.Tactic.IntervalCases
import Splipy.Lemmas.C20State
import Splipy.Lemmas.C20Tol
import Splipy.Lemmas.C20Vertex

/-!
# Property C20 — tolerances are honoured and global settings never leak

Hand-modelled part (this file): `snap`, evaluation at snapped parameters, `_validate_domain`,
`continuity`, `VertexDict`; the generic theorems about the statement language of `state()`.

Source-derived part: `Splipy/Generated/C20Obligations.lean` (built separately by `./check C20`
against `Splipy/Generated/C20.lean`, which is regenerated from the current Python source):
`C20_state_translated`, `C20_state_settings_listed`, `C20_state_restores`, `C20_no_other_writes`.
-/

open Splipy Splipy.Tol Splipy.C20 Splipy.StateLang

section tolerance
variable {K : Type} [Field K] [LinearOrder K] [IsStrictOrderedRing K]

/-- **snap.**  For a sorted knot array whose knots are pairwise equal or at least `2·tol` apart:
    a parameter strictly within `tol` of a knot is snapped to that knot; a parameter with no knot
    strictly within `tol` is returned unchanged (this half needs no hypothesis on the knots). -/
theorem C20_snap (b : Basis K) (tol t : K) (_htol : 0 < tol) :
    (KnotsSorted b → KnotsSeparated b tol →
        ∀ j, j < b.size → |t - b.kn j| < tol → snap b tol t = b.kn j) ∧
    ((∀ i, i < b.size → tol ≤ |b.kn i - t|) → snap b tol t = t) :=
  ⟨fun hs hsep _ hj hn => snap_of_near b tol t hs hsep hj hn, snap_of_far b tol t⟩

/-- **Evaluation treats a parameter within `tol` of a knot exactly as that knot**: the dense row
    and the sparse triple (values *and* span indices) of `BSplineBasis.evaluate`, for every
    derivative order and either side, coincide with those at the knot. -/
theorem C20_eval_snap [FloorRing K] (b : Basis K) (tol t : K) (htol : 0 < tol)
    (hsorted : KnotsSorted b) (hsep : KnotsSeparated b tol) (j : ℕ) (hj : j < b.size)
    (hnear : |t - b.kn j| < tol) (d : ℕ) (fromRight : Bool) :
    b.evaluate tol t d fromRight = b.evaluate tol (b.kn j) d fromRight ∧
    b.evaluateSparse tol t d fromRight = b.evaluateSparse tol (b.kn j) d fromRight :=
  evaluate_of_near b tol t htol hsorted hsep hj hnear d fromRight

/-- **Rounding fuzz just outside the domain never fails**: `_validate_domain` accepts every
    parameter that is in `[start, end]` or strictly within `tol` of a knot lying in `[start, end]`
    (in particular within `tol` outside either end), and hands the snapped parameters on. -/
theorem C20_validate_domain_fuzz (b : Basis K) (tol : K) (hsorted : KnotsSorted b)
    (hsep : KnotsSeparated b tol) (hord : 0 < b.order) (hsz : b.order ≤ b.size)
    (ts : List K) (hne : ts ≠ [])
    (h : ∀ t ∈ ts, (b.start ≤ t ∧ t ≤ b.stop) ∨
        ∃ j, j < b.size ∧ |t - b.kn j| < tol ∧ b.start ≤ b.kn j ∧ b.kn j ≤ b.stop) :
    validateDomain b tol ts = .ok (ts.map (snap b tol)) :=
  validateDomain_of_near b tol hsorted hsep hord hsz ts hne h

/-- **continuity.**  Same hypotheses on the knots.  For an in-domain parameter: strictly within
    `tol` of a knot of multiplicity `m` the answer is `p − m − 1`; with no knot in the window
    `[t − tol, t + tol)` the answer is `inf` (`none`).  The boundary `|t − τ| = tol` is excluded on
    the near side; on the far side the window is the one the code uses. -/
theorem C20_continuity [FloorRing K] (b : Basis K) (tol t : K) (htol : 0 < tol)
    (hsorted : KnotsSorted b) (hdom : b.start ≤ t ∧ t ≤ b.stop) :
    (KnotsSeparated b tol → ∀ j, j < b.size → |t - b.kn j| < tol →
        continuity b tol t = .ok (some ((b.order : ℤ) - (mult b (b.kn j) : ℤ) - 1))) ∧
    ((∀ i, i < b.size → b.kn i < t - tol ∨ t + tol ≤ b.kn i) → continuity b tol t = .ok none) :=
  ⟨fun hsep _ hj hn => continuity_of_near b tol t hsorted hsep hdom hj hn,
   fun hfar => continuity_of_far b tol t (le_of_lt htol) hsorted hdom hfar⟩

/-- The far side in terms of distances: no knot within `tol` (`tol < |τ − t|` for every knot). -/
theorem C20_continuity_far [FloorRing K] (b : Basis K) (tol t : K) (htol : 0 < tol)
    (hsorted : KnotsSorted b) (hdom : b.start ≤ t ∧ t ≤ b.stop)
    (hfar : ∀ i, i < b.size → tol < |b.kn i - t|) : continuity b tol t = .ok none := by
  apply (C20_continuity b tol t htol hsorted hdom).2
  intro i hi
  have := hfar i hi
  by_cases hc : b.kn i < t - tol
  · exact Or.inl hc
  · right
    rcases lt_abs.1 this with h | h
    · linarith
    · exfalso; apply hc; linarith

end tolerance

section vertexdict
variable {K : Type} [Field K] [LinearOrder K] [IsStrictOrderedRing K] {V : Type}

omit [IsStrictOrderedRing K] in
/-- **VertexDict, any `rtol`**: for every reachable dictionary the candidate set of a look-up is
    exactly the set of live rows whose every coordinate lies in the window `_bounds(q[c])` of the
    query (the three cases of `_bounds` literally; half-open `[lo, hi)` as coded). -/
theorem C20_vertexdict_window (dim : ℕ) (rtol atol : K) (d : VertexDict K V)
    (hd : Reachable dim rtol atol d) (q : Array K) (hq : q.size = dim) (i : ℕ) :
    i ∈ d.liveCandidates q ↔
      ∃ k, d.keys.getD i none = some k ∧
        ∀ c, c < dim → (d.bounds (q.getD c 0)).1 ≤ k.getD c 0 ∧ k.getD c 0 < (d.bounds (q.getD c 0)).2 := by
  obtain ⟨⟨orig, hwf⟩, _, _⟩ := reachable_wf hd
  rw [mem_liveCandidates d dim orig hwf q hq i]
  constructor
  · rintro ⟨⟨k, hk⟩, hall⟩
    refine ⟨k, hk, fun c hc => ?_⟩
    rw [(hwf.keys i k hk).2 c hc]; exact hall c hc
  · rintro ⟨k, hk, hall⟩
    refine ⟨⟨k, hk⟩, fun c hc => ?_⟩
    rw [← (hwf.keys i k hk).2 c hc]; exact hall c hc

/-- Every member of the candidate set of a look-up (`rtol = 0`) is a live stored key all of
    whose coordinates are within `atol` (≤) of the query. -/
theorem C20_vertexdict_candidates (dim : ℕ) (atol : K) (d : VertexDict K V)
    (hd : Reachable dim 0 atol d) (q : Array K) (hq : q.size = dim) (i : ℕ)
    (hi : i ∈ d.liveCandidates q) :
    ∃ k, d.keys.getD i none = some k ∧ ∀ c, c < dim → |k.getD c 0 - q.getD c 0| ≤ atol := by
  obtain ⟨⟨orig, hwf⟩, hr, ha⟩ := reachable_wf hd
  obtain ⟨⟨k, hk⟩, hall⟩ := (mem_liveCandidates d dim orig hwf q hq i).1 hi
  refine ⟨k, hk, fun c hc => ?_⟩
  have := hall c hc
  rw [bounds_rtol_zero d hr, ha, ← (hwf.keys i k hk).2 c hc] at this
  exact abs_le.2 ⟨by linarith [this.1], by linarith [this.2]⟩

/-- **VertexDict, `rtol = 0`**, for every dictionary reachable by `__setitem__`/`__delitem__` with
    keys of `dim > 0` coordinates and every query `q`:
    1. if a live stored key `k` (row `i`) has every coordinate strictly within `atol` of `q`, the
       look-up succeeds and returns the value of a live stored key within `atol` of `q`; when `k`
       is the only stored key within `atol` (≤) of `q`, it returns the value stored with `k`;
    2. if every live stored key has some coordinate farther than `atol` from `q`, the look-up
       raises `KeyError` (the point is a different vertex). -/
theorem C20_vertexdict (dim : ℕ) (hdim : 0 < dim) (atol : K) (d : VertexDict K V)
    (hd : Reachable dim 0 atol d) (q : Array K) (hq : q.size = dim) :
    (∀ i k, d.keys.getD i none = some k →
        (∀ c, c < dim → |k.getD c 0 - q.getD c 0| < atol) →
        (∃ c k', d.getItem q = .ok (d.values.getD c none) ∧ d.keys.getD c none = some k' ∧
            ∀ x, x < dim → |k'.getD x 0 - q.getD x 0| ≤ atol) ∧
        ((∀ i' k', d.keys.getD i' none = some k' →
            (∀ c, c < dim → |k'.getD c 0 - q.getD c 0| ≤ atol) → i' = i) →
          d.getItem q = .ok (d.values.getD i none))) ∧
    ((∀ i k, d.keys.getD i none = some k → ∃ c, c < dim ∧ atol < |k.getD c 0 - q.getD c 0|) →
        d.getItem q = .error .key) := by
  obtain ⟨⟨orig, hwf⟩, hr, ha⟩ := reachable_wf hd
  have hq0 : q.size ≠ 0 := by omega
  constructor
  · intro i k hk hclose
    have hmem : i ∈ d.liveCandidates q := by
      apply (mem_liveCandidates d dim orig hwf q hq i).2
      refine ⟨⟨k, hk⟩, fun c hc => ?_⟩
      rw [bounds_rtol_zero d hr, ha, ← (hwf.keys i k hk).2 c hc]
      obtain ⟨h1, h2⟩ := abs_lt.1 (hclose c hc)
      exact ⟨by linarith, by linarith⟩
    obtain ⟨c, hc⟩ := candidate_some d q hq0 hmem
    have hcm := (candidate_ok d q c hc).1
    obtain ⟨k', hk', hall⟩ := C20_vertexdict_candidates dim atol d hd q hq c hcm
    have hget : d.getItem q = .ok (d.values.getD c none) := by
      unfold VertexDict.getItem; rw [hc]; rfl
    refine ⟨⟨c, k', hget, hk', hall⟩, ?_⟩
    intro huniq
    have : c = i := huniq c k' hk' hall
    rw [← this]; exact hget
  · intro hfar
    have hnil : d.liveCandidates q = [] := by
      apply List.eq_nil_iff_forall_not_mem.2
      intro i hi
      obtain ⟨k, hk, hall⟩ := C20_vertexdict_candidates dim atol d hd q hq i hi
      obtain ⟨c, hc, hlt⟩ := hfar i k hk
      exact absurd (hall c hc) (not_le.2 hlt)
    unfold VertexDict.getItem
    rw [candidate_none d q hq0 hnil]; rfl

end vertexdict

section state

/-- **Soundness of the check run on the translated `state()`**: if the abstract interpretation
    accepts a program, then for every keyword-argument list, every behaviour of the managed block
    (any change of the settings, normal or exceptional end) and every value type, each setting
    has its entry value after the context manager has run. -/
theorem C20_state_restores_sound (settings : List String) (prog : Stmt)
    (h : restoresB settings prog = true) : RestoresOnEveryExit settings prog :=
  restoresB_sound settings prog h

/-- The `try/finally`-protected shape `before = …; set kwargs; try: yield finally: restore`
    restores every setting that is among the saved keys. -/
theorem C20_state_fixed_shape (settings keys : List String)
    (hsub : settings.all (fun k => keys.contains k) = true) :
    RestoresOnEveryExit settings (fixedProg keys) := by
  apply restoresB_sound
  have hsub' : ∀ x ∈ settings, x ∈ keys := by simpa using hsub
  simpa [restoresB, fixedProg, absRun] using hsub'

/-- The unprotected shape (the pinned `state.py`) does **not** restore: a block that raises
    leaves a keyword setting at its inner value. -/
theorem C20_state_unprotected_fails (keys settings : List String) (k : String) (hk : k ∈ settings) :
    ¬ RestoresOnEveryExit settings (unprotectedProg keys) :=
  unprotected_fails keys k settings hk

/-- **Nesting** (induction over the block structure): if `state()` restores on every exit, then
    any code built from calls that leave the settings alone and `with state(...)` blocks — of
    arbitrary content and nesting depth, raising wherever they like — ends, normally or not,
    with every setting at its entry value. -/
theorem C20_state_nested {V : Type} (settings : List String) (prog : Stmt)
    (h : RestoresOnEveryExit settings prog) (havoc : St V → Outcome × St V) (b : Block V)
    (hb : Block.LeavesKeep settings b) (s : Store V) :
    ∀ k ∈ settings, (b.exec prog havoc s).2 k = s k :=
  nested_keeps h havoc b hb s

end state

/-! ## The hypotheses are satisfiable / the statements are not vacuous -/

/-- order 2, knots `[0,0,1,2,2]`, `tol = 1/10` -/
def C20_exampleBasis : Basis ℚ := { order := 2, knots := #[0, 0, 1, 2, 2], periodic := -1 }

example : KnotsSorted C20_exampleBasis := by
  intro i j hij hj
  have hj' : j < 5 := hj
  interval_cases j <;> interval_cases i <;> simp [C20_exampleBasis, Basis.kn]

example : KnotsSeparated C20_exampleBasis (1 / 10) := by
  intro i j hi hj
  have hi' : i < 5 := hi
  have hj' : j < 5 := hj
  interval_cases i <;> interval_cases j <;> norm_num [C20_exampleBasis, Basis.kn, abs_of_nonneg, abs_of_nonpos]

example : snap C20_exampleBasis (1 / 10) (1 + 1 / 20) = 1 := by decide +kernel
example : continuity C20_exampleBasis (1 / 10) (1 + 1 / 20) = .ok (some 0) := by decide +kernel
example : continuity C20_exampleBasis (1 / 10) (1 + 1 / 5) = .ok none := by decide +kernel
example : validateDomain C20_exampleBasis (1 / 10) [2 + 1 / 20] = .ok [2] := by decide +kernel
example : validateDomain C20_exampleBasis (1 / 10) [2 + 1 / 5] = .error .value := by decide +kernel

example : restoresB ["a", "b"] (fixedProg ["b", "a", "c"]) = true := by decide
example : restoresB ["a", "b"] (unprotectedProg ["b", "a", "c"]) = false := by decide
example : restoresB ["a", "b"] (fixedProg ["a"]) = false := by decide
