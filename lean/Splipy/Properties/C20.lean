import Mathlib.Data.Rat.Floor
import Mathlib.Tactic.NormNum
import Mathlib.Tactic.IntervalCases
import Splipy.Lemmas.C20State
import Splipy.Lemmas.C20Tol
import Splipy.Lemmas.C20Vertex
import Splipy.Lemmas.C20Shared
import Splipy.Lemmas.C20Obj
import Splipy.Lemmas.C20Greville
import Splipy.Lemmas.C20Orient

/-!
# Property C20 — tolerances are honoured and global settings never leak

Hand-modelled part (this file): `snap`, evaluation at snapped parameters, `_validate_domain`,
`continuity`, `VertexDict`; the generic theorems about the statement language of `state()`.

Source-derived part: `Splipy/Generated/C20Obligations.lean` (built separately by `./check C20`
against `Splipy/Generated/C20.lean`, which is regenerated from the current Python source):
`C20_state_translated`, `C20_state_settings_listed`, `C20_state_restores`, `C20_no_other_writes`.
-/

open Splipy Splipy.Tol Splipy.C20 Splipy.StateLang

section tolerance
variable {K : Type} [Field K] [LinearOrder K] [IsStrictOrderedRing K]

/-- **snap.**  For a sorted knot array whose knots are pairwise equal or at least `2·tol` apart:
    a parameter strictly within `tol` of a knot is snapped to that knot; a parameter with no knot
    strictly within `tol` is returned unchanged (this half needs no hypothesis on the knots). -/
theorem C20_snap (b : Basis K) (tol t : K) (_htol : 0 < tol) :
    (KnotsSorted b → KnotsSeparated b tol →
        ∀ j, j < b.size → |t - b.kn j| < tol → snap b tol t = b.kn j) ∧
    ((∀ i, i < b.size → tol ≤ |b.kn i - t|) → snap b tol t = t) :=
  ⟨fun hs hsep _ hj hn => snap_of_near b tol t hs hsep hj hn, snap_of_far b tol t⟩

/-- **Evaluation treats a parameter within `tol` of a knot exactly as that knot**: the dense row
    and the sparse triple (values *and* span indices) of `BSplineBasis.evaluate`, for every
    derivative order and either side, coincide with those at the knot. -/
theorem C20_eval_snap [FloorRing K] (b : Basis K) (tol t : K) (htol : 0 < tol)
    (hsorted : KnotsSorted b) (hsep : KnotsSeparated b tol) (j : ℕ) (hj : j < b.size)
    (hnear : |t - b.kn j| < tol) (d : ℕ) (fromRight : Bool) :
    b.evaluate tol t d fromRight = b.evaluate tol (b.kn j) d fromRight ∧
    b.evaluateSparse tol t d fromRight = b.evaluateSparse tol (b.kn j) d fromRight :=
  evaluate_of_near b tol t htol hsorted hsep hj hnear d fromRight

/-- **Rounding fuzz just outside the domain never fails**: `_validate_domain` accepts every
    parameter that is in `[start, end]` or strictly within `tol` of a knot lying in `[start, end]`
    (in particular within `tol` outside either end), and hands the snapped parameters on. -/
theorem C20_validate_domain_fuzz (b : Basis K) (tol : K) (hsorted : KnotsSorted b)
    (hsep : KnotsSeparated b tol) (hord : 0 < b.order) (hsz : b.order ≤ b.size)
    (ts : List K) (hne : ts ≠ [])
    (h : ∀ t ∈ ts, (b.start ≤ t ∧ t ≤ b.stop) ∨
        ∃ j, j < b.size ∧ |t - b.kn j| < tol ∧ b.start ≤ b.kn j ∧ b.kn j ≤ b.stop) :
    validateDomain b tol ts = .ok (ts.map (snap b tol)) :=
  validateDomain_of_near b tol hsorted hsep hord hsz ts hne h

/-- **continuity.**  Same hypotheses on the knots.  For an in-domain parameter: strictly within
    `tol` of a knot of multiplicity `m` the answer is `p − m − 1`; with no knot in the window
    `[t − tol, t + tol)` the answer is `inf` (`none`).  The boundary `|t − τ| = tol` is excluded on
    the near side; on the far side the window is the one the code uses. -/
theorem C20_continuity [FloorRing K] (b : Basis K) (tol t : K) (htol : 0 < tol)
    (hsorted : KnotsSorted b) (hdom : b.start ≤ t ∧ t ≤ b.stop) :
    (KnotsSeparated b tol → ∀ j, j < b.size → |t - b.kn j| < tol →
        continuity b tol t = .ok (some ((b.order : ℤ) - (mult b (b.kn j) : ℤ) - 1))) ∧
    ((∀ i, i < b.size → b.kn i < t - tol ∨ t + tol ≤ b.kn i) → continuity b tol t = .ok none) :=
  ⟨fun hsep _ hj hn => continuity_of_near b tol t hsorted hsep hdom hj hn,
   fun hfar => continuity_of_far b tol t (le_of_lt htol) hsorted hdom hfar⟩

/-- The far side in terms of distances: no knot within `tol` (`tol < |τ − t|` for every knot). -/
theorem C20_continuity_far [FloorRing K] (b : Basis K) (tol t : K) (htol : 0 < tol)
    (hsorted : KnotsSorted b) (hdom : b.start ≤ t ∧ t ≤ b.stop)
    (hfar : ∀ i, i < b.size → tol < |b.kn i - t|) : continuity b tol t = .ok none := by
  apply (C20_continuity b tol t htol hsorted hdom).2
  intro i hi
  have := hfar i hi
  by_cases hc : b.kn i < t - tol
  · exact Or.inl hc
  · right
    rcases lt_abs.1 this with h | h
    · linarith
    · exfalso; apply hc; linarith

/-- **continuity just outside a non-periodic end** (behaviour since the repair of findings C12
    `periodic-rounded-ghost-knots-out-of-range` / C14 `loft-periodic-rounded-knots-out-of-range`): the range
    test honours the tolerance like the multiplicity count — a parameter at most `tol` beyond an end is treated
    like an in-domain one (strictly within `tol` of a knot of multiplicity `m`: `p − m − 1`; no knot in the
    window: `inf`), more than `tol` beyond an end it is `ValueError`. -/
theorem C20_continuity_beyond_end [FloorRing K] (b : Basis K) (tol t : K) (htol : 0 < tol)
    (hsorted : KnotsSorted b) (hper : b.periodic < 0) :
    ((b.start - tol ≤ t ∧ t ≤ b.stop + tol) →
      (KnotsSeparated b tol → ∀ j, j < b.size → |t - b.kn j| < tol →
          continuity b tol t = .ok (some ((b.order : ℤ) - (mult b (b.kn j) : ℤ) - 1))) ∧
      ((∀ i, i < b.size → b.kn i < t - tol ∨ t + tol ≤ b.kn i) → continuity b tol t = .ok none)) ∧
    ((t < b.start - tol ∨ b.stop + tol < t) → continuity b tol t = .error .value) :=
  ⟨fun hd => ⟨fun hsep _ hj hn => continuity_of_near' b tol t hsorted hsep (Or.inr ⟨hper, hd⟩) hj hn,
     fun hfar => continuity_of_far' b tol t (le_of_lt htol) hsorted (Or.inr ⟨hper, hd⟩) hfar⟩,
   fun hout => continuity_out_of_range b tol t hper hout⟩

omit [IsStrictOrderedRing K] in
/-- The C20 model of `continuity` is the shared model `Basis.continuity` (used by C05/C07/C12). -/
theorem C20_continuity_shared [FloorRing K] (b : Basis K) (tol t : K) :
    Tol.continuity b tol t = b.continuity tol t :=
  continuity_eq_shared b tol t

omit [IsStrictOrderedRing K] in
/-- The C20 model of `knot_spans` is the shared model `Basis.knotSpans`. -/
theorem C20_knot_spans_shared (b : Basis K) (tol : K) (ghost : Bool) :
    (b.knotSpans tol ghost).toList = Tol.knotSpans b tol ghost :=
  knotSpans_eq_shared b tol ghost

/-- `C20_continuity` stated for the shared model `Basis.continuity`. -/
theorem C20_continuity_shared_model [FloorRing K] (b : Basis K) (tol t : K) (htol : 0 < tol)
    (hsorted : KnotsSorted b) (hdom : b.start ≤ t ∧ t ≤ b.stop) :
    (KnotsSeparated b tol → ∀ j, j < b.size → |t - b.kn j| < tol →
        b.continuity tol t = .ok (some ((b.order : ℤ) - (mult b (b.kn j) : ℤ) - 1))) ∧
    ((∀ i, i < b.size → b.kn i < t - tol ∨ t + tol ≤ b.kn i) → b.continuity tol t = .ok none) := by
  rw [← continuity_eq_shared]
  exact C20_continuity b tol t htol hsorted hdom

/-- **Object level, evaluation.**  For an object of any parametric dimension (rational or not,
    `tensor` or not): if two parameter tuples are, direction by direction and entry by entry, equal
    or "a knot and a parameter strictly within `tol` of it" (`NearAll`; the knots of every
    direction sorted and `2·tol`-separated), `SplineObject.evaluate` returns the same result —
    value or exception — for both. -/
theorem C20_obj_evaluate_snap [FloorRing K] (o : Obj K) (tol : K) (htol : 0 < tol)
    (ps qs : List (List K)) (h : NearAll tol o.bases.toList ps qs) (tensor : Bool) :
    o.evaluate tol ps tensor = o.evaluate tol qs tensor :=
  evaluate_congr o htol h tensor

/-- **Object level, derivatives** (generic path of `SplineObject.derivative`): the same, for every
    list of derivative orders and sides. -/
theorem C20_obj_derivative_snap [FloorRing K] (o : Obj K) (tol : K) (htol : 0 < tol)
    (ps qs : List (List K)) (h : NearAll tol o.bases.toList ps qs) (derivs : List ℕ)
    (above : List Bool) (tensor : Bool) :
    o.derivativeGeneric tol ps derivs above tensor = o.derivativeGeneric tol qs derivs above tensor :=
  derivativeGeneric_congr o htol h derivs above tensor

/-- **Fuzz never fails (object level).**  If the knot tuple `qs` is in the domain in every
    non-periodic direction (and no non-periodic direction has an EMPTY parameter list, for which the
    real code raises `ValueError` from `min()`), evaluation at the fuzzed tuple `ps` (which may lie just outside an
    end) succeeds and returns the value at `qs`. -/
theorem C20_obj_evaluate_fuzz_ok [FloorRing K] (o : Obj K) (tol : K) (htol : 0 < tol)
    (ps qs : List (List K)) (h : NearAll tol o.bases.toList ps qs)
    (hdom : ∀ bp ∈ List.zip o.bases.toList qs, bp.1.periodic < 0 →
        ∀ τ ∈ bp.2, bp.1.start ≤ snap bp.1 tol τ ∧ snap bp.1 tol τ ≤ bp.1.stop)
    (hne : ∀ bp ∈ List.zip o.bases.toList qs, bp.1.periodic < 0 → bp.2 ≠ [])
    (tensor : Bool) (hlen : tensor = true ∨ (qs.map List.length).eraseDups.length = 1) :
    ∃ r, o.evaluate tol ps tensor = .ok r ∧ o.evaluate tol qs tensor = .ok r :=
  evaluate_fuzz_ok o htol h hdom hne tensor hlen

/-- The same for the generic derivative path (non-rational, or total order `≤ 1`: the generic
    rational path raises `RuntimeError` above that by design). -/
theorem C20_obj_derivative_fuzz_ok [FloorRing K] (o : Obj K) (tol : K) (htol : 0 < tol)
    (ps qs : List (List K)) (h : NearAll tol o.bases.toList ps qs)
    (hdom : ∀ bp ∈ List.zip o.bases.toList qs, bp.1.periodic < 0 →
        ∀ τ ∈ bp.2, bp.1.start ≤ snap bp.1 tol τ ∧ snap bp.1 tol τ ≤ bp.1.stop)
    (hne : ∀ bp ∈ List.zip o.bases.toList qs, bp.1.periodic < 0 → bp.2 ≠ [])
    (derivs : List ℕ) (above : List Bool) (tensor : Bool)
    (hlen : tensor = true ∨ (qs.map List.length).eraseDups.length = 1)
    (hrat : o.rational = false ∨ derivs.sum ≤ 1) :
    ∃ r, o.derivativeGeneric tol ps derivs above tensor = .ok r ∧
      o.derivativeGeneric tol qs derivs above tensor = .ok r :=
  derivativeGeneric_fuzz_ok o htol h hdom hne derivs above tensor hlen hrat

/-- Concrete instance: a curve evaluated strictly within `tol` of the end of its (non-periodic or
    periodic) basis — inside or outside — does not raise and gives the end point. -/
theorem C20_curve_fuzz_at_end [FloorRing K] (o : Obj K) (b : Basis K) (hb : o.bases = #[b])
    (tol : K) (htol : 0 < tol) (hs : KnotsSorted b) (hsep : KnotsSeparated b tol)
    (hord : 0 < b.order) (hsz : 2 * b.order ≤ b.size) (t : K) (hnear : |t - b.stop| < tol) :
    ∃ r, o.evaluate tol [[t]] true = .ok r ∧ o.evaluate tol [[b.stop]] true = .ok r :=
  curve_fuzz_at_end o b hb htol hs hsep hord hsz t hnear

/-- **Greville points.**  `g = grevilleAt b i` (the value `BSplineBasis.greville` computes,
    `greville_getD`): (1) `τ_{i+1} ≤ g ≤ τ_{i+p-1}`; (2) snapping keeps it in that knot interval;
    (3) where `τ_{i+1} = τ_{i+p-1}` (always for `p = 2`; knots of multiplicity `≥ p-1`) `g` is that
    knot, is a fixed point of `snap`, and every `t` strictly within `tol` of it — e.g. its float
    version — is snapped onto it. -/
theorem C20_greville (b : Basis K) (tol : K) (htol : 0 < tol) (hs : KnotsSorted b)
    (hsep : KnotsSeparated b tol) (hp : 2 ≤ b.order) (i : ℕ) (hi : i + b.order - 1 < b.size) :
    (b.kn (i + 1) ≤ grevilleAt b i ∧ grevilleAt b i ≤ b.kn (i + b.order - 1)) ∧
    (b.kn (i + 1) ≤ snap b tol (grevilleAt b i) ∧
      snap b tol (grevilleAt b i) ≤ b.kn (i + b.order - 1)) ∧
    (b.kn (i + 1) = b.kn (i + b.order - 1) →
      grevilleAt b i = b.kn (i + 1) ∧ snap b tol (grevilleAt b i) = grevilleAt b i ∧
      ∀ t, |t - grevilleAt b i| < tol → snap b tol t = grevilleAt b i) :=
  greville_snap b tol htol hs hsep hp i hi

/-- **`np.allclose` with the configured tolerances** (entry-wise `|a − b| ≤ atol + rtol·|b|`):
    equal arrays are close for all non-negative tolerances; with zero tolerances closeness is
    equality; an entry farther apart than `atol + rtol·|b|` makes the arrays not close. -/
theorem C20_allclose (rtol atol : K) (a b : List K) :
    (0 ≤ rtol → 0 ≤ atol → Tol.allclose rtol atol a a = true) ∧
    (Tol.allclose 0 0 a b = true ↔ a = b) ∧
    (∀ i (h1 : i < a.length) (h2 : i < b.length), atol + rtol * |b[i]| < |a[i] - b[i]| →
        Tol.allclose rtol atol a b = false) :=
  ⟨fun hr ha => allclose_self rtol atol hr ha a, allclose_zero_iff a b,
   fun i h1 h2 hfar => allclose_false_of_far rtol atol a b i h1 h2 hfar⟩

end tolerance

section orientation
open Splipy.MP

/-- **`Orientation.compute` and the control-point tolerances.**  `computeTol rtol atol` is
    `Orientation.compute` with `np.allclose(cps_a, test_b, rtol, atol)` instead of the exact
    comparison of `Model/Orientation.lean`.
    (1) the exact model is the instance `rtol = atol = 0`;
    (2) a candidate orientation accepted by the exact comparison is accepted for all non-negative
        tolerances (exactly equal nets are `allclose`);
    (3) nets of which some coordinate of some control point differs by more than `atol + rtol·|b|`
        are not `allclose` (such a candidate is rejected);
    (4) a candidate accepted with tolerances has every coordinate within `atol + rtol·|b|`. -/
theorem C20_orientation_tolerance (rtol atol : ℚ) :
    (∀ a b : MP.Obj, computeTol 0 0 a b = Orientation.compute a b) ∧
    (0 ≤ rtol → 0 ≤ atol → ∀ na nb a b o, orientationFits na nb a b o = true →
        orientationFitsTol rtol atol na nb a b o = true) ∧
    (∀ (na nb : NdArr (List ℚ)) (i c : ℕ) (h1 : i < na.data.size) (h2 : i < nb.data.size)
        (c1 : c < na.data[i].length) (c2 : c < nb.data[i].length),
        atol + rtol * |nb.data[i][c]| < |na.data[i][c] - nb.data[i][c]| →
        netsAllclose rtol atol na nb = false) ∧
    (∀ na nb a b o, orientationFitsTol rtol atol na nb a b o = true →
      ∀ i (h1 : i < na.data.size) (h2 : i < (o.mapArray nb).data.size),
        na.data[i].length = (o.mapArray nb).data[i].length ∧
        ∀ c (c1 : c < na.data[i].length) (c2 : c < (o.mapArray nb).data[i].length),
          |na.data[i][c] - (o.mapArray nb).data[i][c]|
            ≤ atol + rtol * |(o.mapArray nb).data[i][c]|) :=
  ⟨computeTol_zero,
   fun hr ha na nb a b o h => orientationFitsTol_of_exact rtol atol hr ha na nb a b o h,
   fun na nb i c h1 h2 c1 c2 hfar => netsAllclose_false_of_far rtol atol na nb i c h1 h2 c1 c2 hfar,
   fun na nb a b o h => orientationFitsTol_close rtol atol na nb a b o h⟩

end orientation

section vertexdict
variable {K : Type} [Field K] [LinearOrder K] [IsStrictOrderedRing K] {V : Type}

omit [IsStrictOrderedRing K] in
/-- **VertexDict, any `rtol`**: for every reachable dictionary the candidate set of a look-up is
    exactly the set of live rows whose every coordinate lies in the window `_bounds(q[c])` of the
    query (the three cases of `_bounds` literally; half-open `[lo, hi)` as coded). -/
theorem C20_vertexdict_window (dim : ℕ) (rtol atol : K) (d : VertexDict K V)
    (hd : Reachable dim rtol atol d) (q : Array K) (hq : q.size = dim) (i : ℕ) :
    i ∈ d.liveCandidates q ↔
      ∃ k, d.keys.getD i none = some k ∧
        ∀ c, c < dim → (d.bounds (q.getD c 0)).1 ≤ k.getD c 0 ∧ k.getD c 0 < (d.bounds (q.getD c 0)).2 := by
  obtain ⟨⟨orig, hwf⟩, _, _⟩ := reachable_wf hd
  rw [mem_liveCandidates d dim orig hwf q hq i]
  constructor
  · rintro ⟨⟨k, hk⟩, hall⟩
    refine ⟨k, hk, fun c hc => ?_⟩
    rw [(hwf.keys i k hk).2 c hc]; exact hall c hc
  · rintro ⟨k, hk, hall⟩
    refine ⟨⟨k, hk⟩, fun c hc => ?_⟩
    rw [← (hwf.keys i k hk).2 c hc]; exact hall c hc

/-- **The `_bounds` window, semantically** (any `0 ≤ rtol < 1`, `0 ≤ atol`; all three sign cases of
    the code, for every sign of the query coordinate `x` and the stored coordinate `v`):
    `v ∈ [_bounds(x))  ↔  x − v ≤ atol + rtol·|v|  ∧  v − x < atol + rtol·|v|`
    (`Within rtol atol x v`: `isclose` with the *stored* value as reference, upper end excluded). -/
theorem C20_vertexdict_bounds (d : VertexDict K V) (hr0 : 0 ≤ d.rtol) (hr1 : d.rtol < 1)
    (ha : 0 ≤ d.atol) (x v : K) :
    ((d.bounds x).1 ≤ v ∧ v < (d.bounds x).2) ↔
      (x - v ≤ d.atol + d.rtol * |v| ∧ v - x < d.atol + d.rtol * |v|) :=
  bounds_within_iff d hr0 hr1 ha x v

/-- **VertexDict look-up, whatever tolerances are configured** (`0 ≤ rtol < 1`, `0 ≤ atol`): for
    every dictionary reachable by `__setitem__`/`__delitem__`, row `i` is a candidate of the look-up
    of `q` **iff** it holds a live key `k` with `Within rtol atol q[c] k[c]` in every coordinate. -/
theorem C20_vertexdict_lookup (dim : ℕ) (rtol atol : K) (hr0 : 0 ≤ rtol) (hr1 : rtol < 1)
    (ha : 0 ≤ atol) (d : VertexDict K V) (hd : Reachable dim rtol atol d) (q : Array K)
    (hq : q.size = dim) (i : ℕ) :
    i ∈ d.liveCandidates q ↔
      ∃ k, d.keys.getD i none = some k ∧
        ∀ c, c < dim → Within rtol atol (q.getD c 0) (k.getD c 0) := by
  obtain ⟨⟨orig, hwf⟩, hr, hat⟩ := reachable_wf hd
  have := mem_liveCandidates_within d dim orig hwf (by rw [hr]; exact hr0) (by rw [hr]; exact hr1)
    (by rw [hat]; exact ha) q hq i
  rw [hr, hat] at this
  exact this

/-- **VertexDict, any `0 ≤ rtol < 1`, `0 ≤ atol`.**  For every reachable dictionary and query `q`
    (`dim > 0` coordinates):
    1. if `_candidate(q)` returns row `c`, then `__getitem__` returns the value stored in row `c`,
       row `c` holds a live key within the tolerance of `q` in every coordinate, and `c` is the
       least such row, i.e. the earliest inserted matching key.  (The least-index choice is the
       model's: the code takes the first element of a Python `set` in hash order, which is *some*
       live candidate; the two agree whenever at most one stored key matches.)
    2. the look-up succeeds iff some live stored key is within the tolerance of `q`;
    3. otherwise it raises `KeyError`. -/
theorem C20_vertexdict (dim : ℕ) (hdim : 0 < dim) (rtol atol : K) (hr0 : 0 ≤ rtol) (hr1 : rtol < 1)
    (ha : 0 ≤ atol) (d : VertexDict K V) (hd : Reachable dim rtol atol d) (q : Array K)
    (hq : q.size = dim) :
    (∀ c, d.candidate q = .ok c →
        d.getItem q = .ok (d.values.getD c none) ∧
        (∃ k, d.keys.getD c none = some k ∧
          ∀ x, x < dim → Within rtol atol (q.getD x 0) (k.getD x 0)) ∧
        (∀ i k, d.keys.getD i none = some k →
          (∀ x, x < dim → Within rtol atol (q.getD x 0) (k.getD x 0)) → c ≤ i)) ∧
    ((∃ c, d.candidate q = .ok c) ↔
        ∃ i k, d.keys.getD i none = some k ∧
          ∀ x, x < dim → Within rtol atol (q.getD x 0) (k.getD x 0)) ∧
    ((∀ i k, d.keys.getD i none = some k →
          ∃ x, x < dim ∧ ¬ Within rtol atol (q.getD x 0) (k.getD x 0)) →
        d.candidate q = .error .key ∧ d.getItem q = .error .key) := by
  have hq0 : q.size ≠ 0 := by omega
  have hlook := C20_vertexdict_lookup dim rtol atol hr0 hr1 ha d hd q hq
  refine ⟨?_, ?_, ?_⟩
  · intro c hc
    obtain ⟨hcm, hmin⟩ := candidate_ok d q c hc
    refine ⟨by unfold VertexDict.getItem; rw [hc]; rfl, (hlook c).1 hcm, ?_⟩
    intro i k hk hall
    exact hmin i ((hlook i).2 ⟨k, hk, hall⟩)
  · constructor
    · rintro ⟨c, hc⟩
      obtain ⟨k, hk, hall⟩ := (hlook c).1 (candidate_ok d q c hc).1
      exact ⟨c, k, hk, hall⟩
    · rintro ⟨i, k, hk, hall⟩
      exact candidate_some d q hq0 ((hlook i).2 ⟨k, hk, hall⟩)
  · intro hfar
    have hnil : d.liveCandidates q = [] := by
      apply List.eq_nil_iff_forall_not_mem.2
      intro i hi
      obtain ⟨k, hk, hall⟩ := (hlook i).1 hi
      obtain ⟨x, hx, hnot⟩ := hfar i k hk
      exact hnot (hall x hx)
    have hc := candidate_none d q hq0 hnil
    exact ⟨hc, by unfold VertexDict.getItem; rw [hc]; rfl⟩

/-- **`__setitem__`, any `0 ≤ rtol < 1`, `0 ≤ atol`.**
    1. If a live stored key is within the tolerance of `q`, no key is added: the value of the
       (earliest) matching row is overwritten.
    2. If no live stored key is within the tolerance of `q`, a new row is appended: the number of
       rows grows by one, the new row holds the key `q`, all earlier rows keep their keys; and
       (`atol > 0`) a look-up of `q` afterwards returns the value just stored. -/
theorem C20_vertexdict_set (dim : ℕ) (hdim : 0 < dim) (rtol atol : K) (hr0 : 0 ≤ rtol)
    (hr1 : rtol < 1) (ha : 0 ≤ atol) (d : VertexDict K V) (hd : Reachable dim rtol atol d)
    (q : Array K) (hq : q.size = dim) (v : V) :
    (∀ c, d.candidate q = .ok c →
        d.setItem q v = .ok { d with values := d.values.setIfInBounds c (some v) }) ∧
    ((∀ i k, d.keys.getD i none = some k →
          ∃ x, x < dim ∧ ¬ Within rtol atol (q.getD x 0) (k.getD x 0)) →
        d.setItem q v = .ok (d.insert q v) ∧
        (d.insert q v).keys.size = d.keys.size + 1 ∧
        (d.insert q v).keys.getD d.keys.size none = some q ∧
        (∀ i, i < d.keys.size → (d.insert q v).keys.getD i none = d.keys.getD i none) ∧
        (0 < atol → (d.insert q v).getItem q = .ok (some v))) := by
  refine ⟨fun c hc => setItem_of_candidate d q v hc, ?_⟩
  intro hfar
  have hnone := ((C20_vertexdict dim hdim rtol atol hr0 hr1 ha d hd q hq).2.2 hfar).1
  have hset := setItem_of_none d q v hnone
  refine ⟨hset, insert_keys_size d q v, insert_keys_new d q v, fun i hi => insert_keys_old d q v hi, ?_⟩
  intro hapos
  have hd' : Reachable dim rtol atol (d.insert q v) := Reachable.set q v hd hq hset
  have hq0 : q.size ≠ 0 := by omega
  have hlook := C20_vertexdict_lookup dim rtol atol hr0 hr1 ha (d.insert q v) hd' q hq
  obtain ⟨⟨orig, hwf⟩, _, _⟩ := reachable_wf hd
  -- the new row matches `q` itself
  have hnew : d.keys.size ∈ (d.insert q v).liveCandidates q := by
    apply (hlook _).2
    refine ⟨q, insert_keys_new d q v, fun c _ => ?_⟩
    rw [within_self_iff]
    have : 0 ≤ rtol * |q.getD c 0| := mul_nonneg hr0 (abs_nonneg _)
    linarith
  obtain ⟨c, hc⟩ := candidate_some (d.insert q v) q hq0 hnew
  obtain ⟨hcm, hmin⟩ := candidate_ok (d.insert q v) q c hc
  -- no old row matches, so the candidate is the new row
  have hcn : c = d.keys.size := by
    have hle := hmin _ hnew
    rcases Nat.lt_or_eq_of_le hle with hlt | heq
    · exfalso
      obtain ⟨k, hk, hall⟩ := (hlook c).1 hcm
      rw [insert_keys_old d q v hlt] at hk
      obtain ⟨x, hx, hnot⟩ := hfar c k hk
      exact hnot (hall x hx)
    · exact heq
  unfold VertexDict.getItem
  rw [hc, hcn, ← hwf.sizes]
  show Except.ok ((d.insert q v).values.getD d.values.size none) = Except.ok (some v)
  rw [insert_values_new]

/-- For `rtol > 0` "within tolerance" is not symmetric (the stored value is the reference):
    with `rtol = 3/5`, `atol = 0` the stored `2` is within tolerance of the query `1`, the stored
    `1` is not within tolerance of the query `2`. -/
theorem C20_vertexdict_within_not_symmetric :
    Within (3 / 5 : ℚ) 0 1 2 ∧ ¬ Within (3 / 5 : ℚ) 0 2 1 := by
  unfold Within
  constructor
  · norm_num
  · norm_num

/-- Sub-family `rtol = 0` of `C20_vertexdict_lookup` (named `_partial` only because it fixes
    `rtol = 0`; nothing of the property is missing, the general statement is `C20_vertexdict_lookup`):
    every member of the candidate set is a live stored key all of whose coordinates are within
    `atol` (≤) of the query.  Only for `rtol = 0` is "within tolerance" the symmetric `|k − q|`. -/
theorem C20_vertexdict_candidates_rtol0_partial (dim : ℕ) (atol : K) (d : VertexDict K V)
    (hd : Reachable dim 0 atol d) (q : Array K) (hq : q.size = dim) (i : ℕ)
    (hi : i ∈ d.liveCandidates q) :
    ∃ k, d.keys.getD i none = some k ∧ ∀ c, c < dim → |k.getD c 0 - q.getD c 0| ≤ atol := by
  obtain ⟨⟨orig, hwf⟩, hr, ha⟩ := reachable_wf hd
  obtain ⟨⟨k, hk⟩, hall⟩ := (mem_liveCandidates d dim orig hwf q hq i).1 hi
  refine ⟨k, hk, fun c hc => ?_⟩
  have := hall c hc
  rw [bounds_rtol_zero d hr, ha, ← (hwf.keys i k hk).2 c hc] at this
  exact abs_le.2 ⟨by linarith [this.1], by linarith [this.2]⟩

/-- Sub-family `rtol = 0` of `C20_vertexdict` in the symmetric form `|k − q| < atol` / `> atol`
    (named `_partial` only because it fixes `rtol = 0`; the general statement is `C20_vertexdict`).
    **VertexDict, `rtol = 0`**, for every dictionary reachable by `__setitem__`/`__delitem__` with
    keys of `dim > 0` coordinates and every query `q`:
    1. if a live stored key `k` (row `i`) has every coordinate strictly within `atol` of `q`, the
       look-up succeeds and returns the value of a live stored key within `atol` of `q`; when `k`
       is the only stored key within `atol` (≤) of `q`, it returns the value stored with `k`;
    2. if every live stored key has some coordinate farther than `atol` from `q`, the look-up
       raises `KeyError` (the point is a different vertex). -/
theorem C20_vertexdict_rtol0_partial (dim : ℕ) (hdim : 0 < dim) (atol : K) (d : VertexDict K V)
    (hd : Reachable dim 0 atol d) (q : Array K) (hq : q.size = dim) :
    (∀ i k, d.keys.getD i none = some k →
        (∀ c, c < dim → |k.getD c 0 - q.getD c 0| < atol) →
        (∃ c k', d.getItem q = .ok (d.values.getD c none) ∧ d.keys.getD c none = some k' ∧
            ∀ x, x < dim → |k'.getD x 0 - q.getD x 0| ≤ atol) ∧
        ((∀ i' k', d.keys.getD i' none = some k' →
            (∀ c, c < dim → |k'.getD c 0 - q.getD c 0| ≤ atol) → i' = i) →
          d.getItem q = .ok (d.values.getD i none))) ∧
    ((∀ i k, d.keys.getD i none = some k → ∃ c, c < dim ∧ atol < |k.getD c 0 - q.getD c 0|) →
        d.getItem q = .error .key) := by
  obtain ⟨⟨orig, hwf⟩, hr, ha⟩ := reachable_wf hd
  have hq0 : q.size ≠ 0 := by omega
  constructor
  · intro i k hk hclose
    have hmem : i ∈ d.liveCandidates q := by
      apply (mem_liveCandidates d dim orig hwf q hq i).2
      refine ⟨⟨k, hk⟩, fun c hc => ?_⟩
      rw [bounds_rtol_zero d hr, ha, ← (hwf.keys i k hk).2 c hc]
      obtain ⟨h1, h2⟩ := abs_lt.1 (hclose c hc)
      exact ⟨by linarith, by linarith⟩
    obtain ⟨c, hc⟩ := candidate_some d q hq0 hmem
    have hcm := (candidate_ok d q c hc).1
    obtain ⟨k', hk', hall⟩ := C20_vertexdict_candidates_rtol0_partial dim atol d hd q hq c hcm
    have hget : d.getItem q = .ok (d.values.getD c none) := by
      unfold VertexDict.getItem; rw [hc]; rfl
    refine ⟨⟨c, k', hget, hk', hall⟩, ?_⟩
    intro huniq
    have : c = i := huniq c k' hk' hall
    rw [← this]; exact hget
  · intro hfar
    have hnil : d.liveCandidates q = [] := by
      apply List.eq_nil_iff_forall_not_mem.2
      intro i hi
      obtain ⟨k, hk, hall⟩ := C20_vertexdict_candidates_rtol0_partial dim atol d hd q hq i hi
      obtain ⟨c, hc, hlt⟩ := hfar i k hk
      exact absurd (hall c hc) (not_le.2 hlt)
    unfold VertexDict.getItem
    rw [candidate_none d q hq0 hnil]; rfl

end vertexdict

section state

/-- **Soundness of the check run on the translated `state()`**: if the abstract interpretation
    accepts a program, then for every keyword-argument list, every behaviour of the managed block
    (any change of the settings, normal or exceptional end) and every value type, each setting
    has its entry value after the context manager has run. -/
theorem C20_state_restores_sound (settings : List String) (prog : Stmt)
    (h : restoresB settings prog = true) : RestoresOnEveryExit settings prog :=
  restoresB_sound settings prog h

/-- The `try/finally`-protected shape `before = …; set kwargs; try: yield finally: restore`
    restores every setting that is among the saved keys. -/
theorem C20_state_fixed_shape (settings keys : List String)
    (hsub : settings.all (fun k => keys.contains k) = true) :
    RestoresOnEveryExit settings (fixedProg keys) := by
  apply restoresB_sound
  have hsub' : ∀ x ∈ settings, x ∈ keys := by simpa using hsub
  simpa [restoresB, fixedProg, absRun] using hsub'

/-- The unprotected shape (the pinned `state.py`) does **not** restore: a block that raises
    leaves a keyword setting at its inner value. -/
theorem C20_state_unprotected_fails (keys settings : List String) (k : String) (hk : k ∈ settings) :
    ¬ RestoresOnEveryExit settings (unprotectedProg keys) :=
  unprotected_fails keys k settings hk

/-- **Nesting** (induction over the block structure): if `state()` restores on every exit, then
    any code built from calls that leave the settings alone and `with state(...)` blocks — of
    arbitrary content and nesting depth, raising wherever they like — ends, normally or not,
    with every setting at its entry value. -/
theorem C20_state_nested {V : Type} (settings : List String) (prog : Stmt)
    (h : RestoresOnEveryExit settings prog) (havoc : St V → Outcome × St V) (b : Block V)
    (hb : Block.LeavesKeep settings b) (s : Store V) :
    ∀ k ∈ settings, (b.exec prog havoc s).2 k = s k :=
  nested_keeps h havoc b hb s

end state

/-! ## The hypotheses are satisfiable / the statements are not vacuous -/

/-- order 2, knots `[0,0,1,2,2]`, `tol = 1/10` -/
def C20_exampleBasis : Basis ℚ := { order := 2, knots := #[0, 0, 1, 2, 2], periodic := -1 }

example : KnotsSorted C20_exampleBasis := by
  intro i j hij hj
  have hj' : j < 5 := hj
  interval_cases j <;> interval_cases i <;> simp [C20_exampleBasis, Basis.kn]

example : KnotsSeparated C20_exampleBasis (1 / 10) := by
  intro i j hi hj
  have hi' : i < 5 := hi
  have hj' : j < 5 := hj
  interval_cases i <;> interval_cases j <;> norm_num [C20_exampleBasis, Basis.kn, abs_of_nonneg, abs_of_nonpos]

example : snap C20_exampleBasis (1 / 10) (1 + 1 / 20) = 1 := by decide +kernel
example : continuity C20_exampleBasis (1 / 10) (1 + 1 / 20) = .ok (some 0) := by decide +kernel
example : continuity C20_exampleBasis (1 / 10) (1 + 1 / 5) = .ok none := by decide +kernel
/-- just beyond the end `2` of the non-periodic example: within the tolerance it is the end knot (multiplicity 2,
    order 2: continuity `-1`), beyond the tolerance `ValueError`. -/
example : continuity C20_exampleBasis (1 / 10) (2 + 1 / 20) = .ok (some (-1)) := by decide +kernel
example : continuity C20_exampleBasis (1 / 10) (2 + 1 / 5) = .error .value := by decide +kernel
example : validateDomain C20_exampleBasis (1 / 10) [2 + 1 / 20] = .ok [2] := by decide +kernel
example : validateDomain C20_exampleBasis (1 / 10) [2 + 1 / 5] = .error .value := by decide +kernel

example : restoresB ["a", "b"] (fixedProg ["b", "a", "c"]) = true := by decide
example : restoresB ["a", "b"] (unprotectedProg ["b", "a", "c"]) = false := by decide
example : restoresB ["a", "b"] (fixedProg ["a"]) = false := by decide

/-- a curve on `C20_exampleBasis` -/
def C20_exampleCurve : Obj ℚ :=
  { bases := #[C20_exampleBasis], cps := { shape := [3, 1], data := #[0, 1, 4] }, rational := false }

example : NearAll (1 / 10 : ℚ) C20_exampleCurve.bases.toList [[2 + 1 / 20, 1 / 2]] [[2, 1 / 2]] := by
  have hs : KnotsSorted C20_exampleBasis := by
    intro i j hij hj
    have hj' : j < 5 := hj
    interval_cases j <;> interval_cases i <;> simp [C20_exampleBasis, Basis.kn]
  have hsep : KnotsSeparated C20_exampleBasis (1 / 10) := by
    intro i j hi hj
    have hi' : i < 5 := hi
    have hj' : j < 5 := hj
    interval_cases i <;> interval_cases j <;>
      norm_num [C20_exampleBasis, Basis.kn, abs_of_nonneg, abs_of_nonpos]
  refine ⟨⟨hs, hsep, ?_⟩, trivial⟩
  refine List.Forall₂.cons (Or.inr ⟨4, by decide, by simp [C20_exampleBasis, Basis.kn], ?_⟩)
    (List.Forall₂.cons (Or.inl rfl) List.Forall₂.nil)
  norm_num [C20_exampleBasis, Basis.kn, abs_of_nonneg]

example : (C20_exampleCurve.evaluate (1 / 10) [[2 + 1 / 20]] true).isOk = true := by decide +kernel
example : (C20_exampleCurve.evaluate (1 / 10) [[2 + 1 / 5]] true).isOk = false := by decide +kernel
example : grevilleAt C20_exampleBasis 1 = 1 := by decide +kernel
example : Tol.allclose (0 : ℚ) (1 / 10) [1, 2] [1 + 1 / 20, 2] = true := by decide +kernel
example : Tol.allclose (0 : ℚ) (1 / 10) [1, 2] [1 + 1 / 5, 2] = false := by decide +kernel
