import Splipy.Lemmas.C09Algebra

/-!
# C09 — affine transformations commute with evaluation, weights untouched

Reading guide.

* An evaluated point of a spline object is `(Σ_i w_i P_i) / (Σ_i w_i W_i)` where `i` runs over the
  control points, `w_i` is the product of the basis-function values at the parameter, `P_i` the
  (weight-premultiplied, zero-padded) physical coordinates and `W_i` the weight (`1` for
  non-rational objects): `C09.evalPt s w P W` (`Lemmas/C09.lean`).  The theorems hold for EVERY
  finite family `w`, in particular for B-spline products of any parametric dimension, any
  parameter, periodic or not; the only hypothesis is that the weight sum `Σ w_i W_i` is not zero
  (`= Σ w_i = 1` for non-rational objects – `C09_partition_of_unity` –, positive for positive
  weights).
* `Obj.cpPhys o pI`, `Obj.cpWt o pI` read `P`, `W` off the model object; `Obj.Acts o o' A` says that
  `o'` has the bases of `o` and control points `P' = A.lin P + W • A.tr`, `W' = W`.
* `AffOp` (Model/AffineOps.lean) is one call (`translate`, `scale`, `rotate`, `mirror`, `project`,
  `set_dimension`, `force_rational`, `+=`, `-=`, `*=`, `/=`, `+`, `x +`, `-`, `*`, `x *`, `/`);
  `AffOp.sem dim op` the affine map of space it stands for, `AffOp.run` a sequence.  The
  correspondence run drives exactly these functions.
-/

open Splipy Splipy.C09 Splipy.Obj

section abstract
variable {K : Type} [Field K] {ι : Type}

/-- **Linear control-point maps commute with evaluation.**  `Σ w_i (L P_i) = L (Σ w_i P_i)` and,
    because the weights are unchanged, the same after the projective division – no hypothesis on
    the weights at all.  Scale, rotate, mirror, project are of this form (`C09_model_is_affineCp`,
    `C09_affine_commutes`). -/
theorem C09_linear_commutes (s : Finset ι) (w : ι → K) (P : ι → ℕ → K) (W : ι → K)
    (L : (ℕ → K) →ₗ[K] (ℕ → K)) :
    homPhys s w (fun i => L (P i)) = L (homPhys s w P)
      ∧ evalPt s w (fun i => L (P i)) W = L (evalPt s w P W) :=
  ⟨homPhys_linear s w P L, evalPt_linear s w P W L⟩

/-- Matrix form of `C09_linear_commutes`: for `P ↦ P · M` on the first `dim` coordinates,
    `Σ_i w_i (Σ_j P_ij M_jc) = Σ_j (Σ_i w_i P_ij) M_jc`. -/
theorem C09_linear_commutes_matrix (s : Finset ι) (w : ι → K) (P : ι → ℕ → K) (dim : ℕ)
    (M : ℕ → ℕ → K) (c : ℕ) (hc : c < dim) :
    ∑ i ∈ s, w i * (∑ j ∈ Finset.range dim, P i j * M j c)
      = ∑ j ∈ Finset.range dim, (∑ i ∈ s, w i * P i j) * M j c := by
  have h := congrFun (homPhys_linear s w P (linMat dim M)) c
  simp only [homPhys_apply, linMat_apply, if_pos hc] at h
  exact h

/-- **Translation commutes with evaluation.**  Non-rational: `Σ w_i (P_i + x) = (Σ w_i P_i) + x`
    when `Σ w_i = 1`.  Rational: the homogeneous translation `P ↦ P + W • x` (weights unchanged)
    commutes with the projective division when the weight sum does not vanish. -/
theorem C09_translate_commutes (s : Finset ι) (w : ι → K) (P : ι → ℕ → K) (W : ι → K) (x : ℕ → K) :
    (∑ i ∈ s, w i = 1 → homPhys s w (fun i => P i + x) = homPhys s w P + x)
      ∧ (homW s w W ≠ 0 → evalPt s w (fun i => P i + W i • x) W = evalPt s w P W + x) := by
  constructor
  · intro hw
    have h := homPhys_affine s w P (fun _ => 1) LinearMap.id x
    simp only [LinearMap.id_apply, one_smul] at h
    rw [h]
    simp [homW, hw]
  · intro hW
    have h := evalPt_affine s w P W LinearMap.id x hW
    simpa using h

end abstract

section partition
variable {K : Type} [Field K] [LinearOrder K]

/-- **The hypothesis `Σ w = 1` holds for B-spline products on the domain** (curves, surfaces,
    volumes; C-order flat control-point index): with every direction's parameter inside a knot
    span `μ_k` (`q_k ≤ μ_k < n_k`, either side convention), the tensor-product weights
    `Π_k B_{i_k}(u_k)` sum to one.  (Periodic directions: the wrapped rows of `Basis.evaluate` are
    column sums of these, C01.) -/
theorem C09_partition_of_unity (sd : Side) (τ1 τ2 τ3 : ℕ → K) (h1 : Monotone τ1) (h2 : Monotone τ2)
    (h3 : Monotone τ3) (q1 q2 q3 μ1 μ2 μ3 n1 n2 n3 : ℕ) (hq1 : q1 ≤ μ1) (hq2 : q2 ≤ μ2)
    (hq3 : q3 ≤ μ3) (hn1 : μ1 < n1) (hn2 : μ2 < n2) (hn3 : μ3 < n3) (u v t : K)
    (hu : sd.mem (τ1 μ1) (τ1 (μ1 + 1)) u) (hv : sd.mem (τ2 μ2) (τ2 (μ2 + 1)) v)
    (ht : sd.mem (τ3 μ3) (τ3 (μ3 + 1)) t) :
    ∑ i ∈ Finset.range n1, B sd τ1 q1 i u = 1
    ∧ ∑ k ∈ Finset.range (n1 * n2), B sd τ1 q1 (k / n2) u * B sd τ2 q2 (k % n2) v = 1
    ∧ ∑ k ∈ Finset.range (n1 * (n2 * n3)),
        B sd τ1 q1 (k / (n2 * n3)) u
          * (B sd τ2 q2 (k % (n2 * n3) / n3) v * B sd τ3 q3 (k % (n2 * n3) % n3) t) = 1 := by
  have e1 := B_sum_range_eq_one sd τ1 h1 q1 μ1 n1 hq1 hn1 u hu
  have e2 := B_sum_range_eq_one sd τ2 h2 q2 μ2 n2 hq2 hn2 v hv
  have e3 := B_sum_range_eq_one sd τ3 h3 q3 μ3 n3 hq3 hn3 t ht
  exact ⟨e1, tensor_weights_sum_one₂ n1 n2 _ _ e1 e2, tensor_weights_sum_one₃ n1 n2 n3 _ _ _ e1 e2 e3⟩

end partition

section model
variable {K : Type} [Field K]

/-- **The model's `translate`, `scale`, `mirror` are `affineCp`** with the stated matrices
    (`rotate`: `C09_model_rotate_is_affineCp`): definitional unfolding. -/
theorem C09_model_is_affineCp (o : Obj K) :
    (∀ x : List K, o.translate x =
        (if x.length > o.dimension then o.setDimension x.length else o).affineCp
          (fun j i => if i = j then 1 else 0) (fun i => x.getD i 0))
    ∧ (∀ s : List K, o.scale s =
        if (scalePad s).length < o.dimension then .error .index else
          .ok (o.affineCp (fun j i => if i = j then (scalePad s).getD i 1 else 0) (fun _ => 0)))
    ∧ (∀ n : List K, o.mirror n =
        if o.dimension ≠ 3 then .error .runtime else .ok (o.affineCp (mirrorMat n) (fun _ => 0))) :=
  ⟨fun _ => rfl, fun _ => rfl, fun _ => rfl⟩

/-- `rotate`: promote to 3-D unless the axis is `±e_z`, then `affineCp` with the 2-D or the
    Euler–Rodrigues matrix; `RuntimeError` in any other dimension. -/
theorem C09_model_rotate_is_affineCp [LinearOrder K] (o : Obj K) (ch sh : K) (normal axisUnit : List K) :
    o.rotate ch sh normal axisUnit =
      if (rotatePromoted o normal).dimension = 2 then
        .ok ((rotatePromoted o normal).affineCp (rot2Mat ch sh) (fun _ => 0))
      else if (rotatePromoted o normal).dimension = 3 then
        .ok ((rotatePromoted o normal).affineCp (rot3Mat ch sh axisUnit) (fun _ => 0))
      else .error .runtime := rfl

/-- **Weights untouched** (`affineCp`, any matrix, any translation): same bases, same number of
    control points, and the last component of every control point of a rational object is
    literally the same field element; dimension and rationality do not change. -/
theorem C09_weights_untouched {o : Obj K} (h : o.WF) (M : ℕ → ℕ → K) (tr : ℕ → K) :
    (o.affineCp M tr).bases = o.bases ∧ (o.affineCp M tr).npts = o.npts
      ∧ (o.affineCp M tr).dimension = o.dimension ∧ (o.affineCp M tr).rational = o.rational
      ∧ (o.rational = true → ∀ pI < o.npts,
          (o.affineCp M tr).cp pI o.dimension = o.cp pI o.dimension) := by
  have hA := affineCp_acts h M tr
  refine ⟨hA.bases, hA.npts, affineCp_dimension o M tr, rfl, ?_⟩
  intro hr pI hp
  rw [affineCp_cp h M tr pI _ hp (h.dim_lt_of_rational hr), if_neg (by omega)]

end model

section ops
variable {K : Type} [Field K] [LinearOrder K]

/-- **Weights untouched, every operation and operator form**: bases (knots, orders, periodicity)
    are the same objects, the number of control points is the same, and every weight is literally
    unchanged (for `force_rational` on a non-rational object: the new weights are the `1` the
    object had implicitly). -/
theorem C09_weights_untouched_ops {o o' : Obj K} (h : o.WF) (op : AffOp K) (hadm : op.Admissible)
    (hs : op.inplace o = .ok o') :
    o'.bases = o.bases ∧ o'.npts = o.npts ∧ (∀ pI < o.npts, o'.cpWt pI = o.cpWt pI)
      ∧ (o.rational = true → o'.rational = true ∧
          ∀ pI < o.npts, o'.cp pI o'.dimension = o.cp pI o.dimension) := by
  obtain ⟨hA, _, hr⟩ := AffOp.inplace_acts h op hadm hs
  refine ⟨hA.bases, hA.npts, hA.wt, ?_⟩
  intro hrat
  have hr' : o'.rational = true := by
    rw [hr]; cases op <;> simp [AffOp.newRational, hrat]
  refine ⟨hr', fun pI hp => ?_⟩
  have := hA.wt pI hp
  unfold cpWt at this
  rwa [if_pos hr', if_pos hrat] at this

/-- **Affine transformations commute with evaluation** (one operation): for every family of
    basis-function weights `w` over the control points whose weight sum does not vanish, the
    evaluated point of the result is the affine map `AffOp.sem` of the evaluated point of the
    original – non-rational and rational objects alike. -/
theorem C09_affine_commutes {o o' : Obj K} (h : o.WF) (op : AffOp K) (hadm : op.Admissible)
    (hs : op.inplace o = .ok o') (s : Finset ℕ) (hsub : ∀ i ∈ s, i < o.npts) (w : ℕ → K)
    (hW : homW s w o.cpWt ≠ 0) :
    evalPt s w o'.cpPhys o'.cpWt = (op.sem o.dimension).apply (evalPt s w o.cpPhys o.cpWt) :=
  (AffOp.inplace_acts h op hadm hs).1.evalPt s hsub w hW

/-- **Compositions**: a sequence of operations that runs without exception acts on every
    evaluated point by the composite of the individual affine maps (each taken in the dimension
    its predecessors left), with bases and weights untouched. -/
theorem C09_compositions (ops : List (AffOp K)) {o o' : Obj K} (h : o.WF)
    (hadm : ∀ op ∈ ops, op.Admissible) (hs : AffOp.run o ops = .ok o') (s : Finset ℕ)
    (hsub : ∀ i ∈ s, i < o.npts) (w : ℕ → K) (hW : homW s w o.cpWt ≠ 0) :
    o'.bases = o.bases ∧ (∀ pI < o.npts, o'.cpWt pI = o.cpWt pI)
      ∧ o'.dimension = AffOp.newDimList o.dimension ops
      ∧ evalPt s w o'.cpPhys o'.cpWt
          = (AffOp.semList o.dimension ops).apply (evalPt s w o.cpPhys o.cpWt) := by
  obtain ⟨hA, hd, _⟩ := AffOp.run_acts ops h hadm hs
  exact ⟨hA.bases, hA.wt, hd, hA.evalPt s hsub w hW⟩

/-- The composite map is the maps applied one after the other. -/
theorem C09_compositions_unfold (dim : ℕ) (op : AffOp K) (rest : List (AffOp K)) (p : ℕ → K) :
    (AffOp.semList dim (op :: rest)).apply p
      = (AffOp.semList (op.newDim dim) rest).apply ((op.sem dim).apply p)
    ∧ (AffOp.semList dim ([] : List (AffOp K))).apply p = p :=
  ⟨HomAffine.comp_apply _ _ p, HomAffine.id_apply p⟩

/-- **Operator forms.**  `o -= x` is `translate(-x)`; `o /= s` is `scale(1/s)`; every infix /
    reflected form computes the same object as its in-place form but on a deep copy (the step
    reports "not the receiver", the receiver value `o` is not consumed); in-place forms and
    methods return the receiver. -/
theorem C09_operators (o : Obj K) (x : List K) (a : ScaleArg K) (s : K) (hs : s ≠ 0) :
    (AffOp.isub x).inplace o = (AffOp.translate (x.map (- ·))).inplace o
    ∧ (AffOp.iadd x).inplace o = (AffOp.translate x).inplace o
    ∧ (AffOp.imul a).inplace o = (AffOp.scale [a]).inplace o
    ∧ (AffOp.itruediv (.scalar s)).inplace o = (AffOp.scale [.scalar (1 / s)]).inplace o
    ∧ (AffOp.add x).inplace o = (AffOp.iadd x).inplace o
    ∧ (AffOp.radd x).inplace o = (AffOp.iadd x).inplace o
    ∧ (AffOp.sub x).inplace o = (AffOp.isub x).inplace o
    ∧ (AffOp.mul a).inplace o = (AffOp.imul a).inplace o
    ∧ (AffOp.rmul a).inplace o = (AffOp.imul a).inplace o
    ∧ (AffOp.div a).inplace o = (AffOp.itruediv a).inplace o
    ∧ (∀ op : AffOp K, ∀ r, op.step o = .ok r →
        op.inplace o = .ok r.obj ∧ r.returnsSelf = !op.isInfix)
    ∧ (∀ p : ℕ → K, ∀ dim, ((AffOp.isub x).sem dim).apply p = fun i => p i - x.getD i 0)
    ∧ (∀ p : ℕ → K, ∀ dim, ((AffOp.iadd x).sem dim).apply p = fun i => p i + x.getD i 0) := by
  refine ⟨rfl, rfl, rfl, ?_, rfl, rfl, rfl, rfl, rfl, rfl, ?_, ?_, ?_⟩
  · simp only [AffOp.inplace, AffOp.recip, if_neg hs]
    rfl
  · intro op r hr
    unfold AffOp.step at hr
    cases hi : op.inplace o with
    | error e => rw [hi] at hr; cases hr
    | ok o1 =>
      rw [hi] at hr
      injection hr with hr
      subst hr
      exact ⟨rfl, rfl⟩
  · intro p dim; funext i; simp [AffOp.sem, HomAffine.apply, sub_eq_add_neg]
  · intro p dim; funext i; simp [AffOp.sem, HomAffine.apply]

end ops

section embedding
variable {K : Type} [Field K]

/-- **Embedding changes** (`set_dimension`, `force_rational`, translation by a longer vector).
    * `set_dimension(n)`: component `c < n` of every control point is the old one (`c < dim`) or
      a zero inserted BEFORE the weight; the weight stays the last component; coordinates `≥ n`
      are dropped – never the weight.  On evaluated points: coordinates `< n` unchanged (padded
      ones zero), for any weights `w`.
    * `force_rational`: appended weight `1`, evaluation unchanged.
    * `translate(x)` with `len(x) > dim` is `set_dimension(len(x))` followed by `translate(x)`. -/
theorem C09_embedding {o : Obj K} (h : o.WF) :
    (∀ n, 0 < n →
        (o.setDimension n).dimension = n ∧ (o.setDimension n).rational = o.rational
        ∧ (∀ pI < o.npts, ∀ c, c < n + (if o.rational then 1 else 0) →
            (o.setDimension n).cp pI c =
              if c < n then (if c < o.dimension then o.cp pI c else 0) else o.cp pI o.dimension)
        ∧ (∀ (s : Finset ℕ), (∀ i ∈ s, i < o.npts) → ∀ (w : ℕ → K), homW s w o.cpWt ≠ 0 → ∀ c,
            evalPt s w (o.setDimension n).cpPhys (o.setDimension n).cpWt c
              = if c < n then evalPt s w o.cpPhys o.cpWt c else 0))
    ∧ (o.forceRational.rational = true ∧ o.forceRational.dimension = o.dimension
        ∧ (o.rational = false → ∀ pI < o.npts,
            o.forceRational.cp pI o.dimension = 1 ∧ ∀ c < o.dimension, o.forceRational.cp pI c = o.cp pI c)
        ∧ (∀ (s : Finset ℕ), (∀ i ∈ s, i < o.npts) → ∀ (w : ℕ → K), homW s w o.cpWt ≠ 0 →
            evalPt s w o.forceRational.cpPhys o.forceRational.cpWt = evalPt s w o.cpPhys o.cpWt))
    ∧ (∀ x : List K, o.dimension < x.length →
        o.translate x = (o.setDimension x.length).translate x
        ∧ (o.translate x).dimension = x.length) := by
  refine ⟨?_, ?_, ?_⟩
  · intro n hn
    have hA := setDimension_acts h n (Or.inl hn)
    refine ⟨setDimension_dimension h n, rfl, fun pI hp c hc => setDimension_cp h n pI c hp hc, ?_⟩
    intro s hsub w hW c
    have := congrFun (hA.evalPt s hsub w hW) c
    rw [this]
    simp [HomAffine.apply, linTrunc_apply]
  · have hA := forceRational_acts h
    refine ⟨forceRational_rational o, forceRational_dimension o, ?_, ?_⟩
    · intro hr pI hp
      have hwt := hA.wt pI hp
      have hph := hA.phys pI hp
      unfold cpWt at hwt
      rw [forceRational_rational, if_pos rfl, forceRational_dimension, hr] at hwt
      refine ⟨by simpa using hwt, fun c hc => ?_⟩
      have := congrFun hph c
      unfold cpPhys at this
      rw [forceRational_dimension, if_pos hc] at this
      simpa [HomAffine.id, hc] using this
    · intro s hsub w hW
      rw [hA.evalPt s hsub w hW, HomAffine.id_apply]
  · intro x hx
    have hd : (o.setDimension x.length).dimension = x.length := setDimension_dimension h _
    refine ⟨?_, by rw [translate_dimension h]; omega⟩
    rw [translate_eq, translate_eq, if_pos hx, hd, if_neg (lt_irrefl _)]

end embedding

section rotation
variable {K : Type} [Field K]

/-- Evaluate `linMat` with one of the literal rotation matrices at a literal index. -/
local macro "lm_simp" : tactic =>
  `(tactic| simp (config := {decide := true}) only [linMat_apply, Finset.sum_range_succ,
      Finset.sum_range_zero, rot2Mat, rot3Mat, zero_add, List.getD_cons_zero, List.getD_cons_succ,
      List.getD_nil, if_true, if_false, ↓reduceIte, Nat.reduceLT, Nat.reduceEqDiff, Nat.reduceAdd,
      Nat.lt_irrefl, OfNat.ofNat_ne_zero, one_ne_zero])

/-- **The 3-D rotation matrix of `rotate`.**  With `ch² + sh² = 1` (`ch, sh = cos θ/2, sin θ/2`)
    and a unit axis `k`, the matrix `R = rotation_matrix(θ, k)` the model multiplies every control
    point with (`p ↦ p @ R`) is `Affine.rotationMatrixAxis`, is orthogonal with determinant `1`,
    fixes the axis, and the point map is Rodrigues' formula for the right-handed (counter-clockwise
    seen from the tip of `k`) rotation by `+θ`, `cos θ = ch² - sh²`, `sin θ = 2 ch sh`:
    `p cos θ + (k × p) sin θ + k (k·p)(1 - cos θ)`; coordinates beyond the third stay zero. -/
theorem C09_rotation (ch sh : K) (u : List K) (hc : ch * ch + sh * sh = 1)
    (hu : u.getD 0 0 * u.getD 0 0 + u.getD 1 0 * u.getD 1 0 + u.getD 2 0 * u.getD 2 0 = 1) :
    mat3 (rot3Mat ch sh u) = Affine.rotationMatrixAxis ch sh (fun j => u.getD j.val 0)
    ∧ Affine.matMul (mat3 (rot3Mat ch sh u)) (Affine.transpose (mat3 (rot3Mat ch sh u))) = Affine.identity
    ∧ Affine.matMul (Affine.transpose (mat3 (rot3Mat ch sh u))) (mat3 (rot3Mat ch sh u)) = Affine.identity
    ∧ Affine.det3 (mat3 (rot3Mat ch sh u)) = 1
    ∧ Affine.vecMul (fun j => u.getD j.val 0) (mat3 (rot3Mat ch sh u)) = (fun j => u.getD j.val 0)
    ∧ (∀ p : ℕ → K, (fun i : Fin 3 => linMat 3 (rot3Mat ch sh u) p i.val) =
        ![p 0 * (ch * ch - sh * sh) + (u.getD 1 0 * p 2 - u.getD 2 0 * p 1) * (2 * ch * sh)
            + u.getD 0 0 * (u.getD 0 0 * p 0 + u.getD 1 0 * p 1 + u.getD 2 0 * p 2) * (1 - (ch * ch - sh * sh)),
          p 1 * (ch * ch - sh * sh) + (u.getD 2 0 * p 0 - u.getD 0 0 * p 2) * (2 * ch * sh)
            + u.getD 1 0 * (u.getD 0 0 * p 0 + u.getD 1 0 * p 1 + u.getD 2 0 * p 2) * (1 - (ch * ch - sh * sh)),
          p 2 * (ch * ch - sh * sh) + (u.getD 0 0 * p 1 - u.getD 1 0 * p 0) * (2 * ch * sh)
            + u.getD 2 0 * (u.getD 0 0 * p 0 + u.getD 1 0 * p 1 + u.getD 2 0 * p 2) * (1 - (ch * ch - sh * sh))])
    ∧ (∀ (p : ℕ → K) (i : ℕ), 3 ≤ i → linMat 3 (rot3Mat ch sh u) p i = 0) := by
  have hk : (fun j : Fin 3 => u.getD j.val 0) 0 * (fun j : Fin 3 => u.getD j.val 0) 0
      + (fun j : Fin 3 => u.getD j.val 0) 1 * (fun j : Fin 3 => u.getD j.val 0) 1
      + (fun j : Fin 3 => u.getD j.val 0) 2 * (fun j : Fin 3 => u.getD j.val 0) 2 = 1 := by
    simpa using hu
  have hR := mat3_rot3Mat ch sh u
  have hn : ch * ch + (-u.getD 0 0 * sh) * (-u.getD 0 0 * sh) + (-u.getD 1 0 * sh) * (-u.getD 1 0 * sh)
      + (-u.getD 2 0 * sh) * (-u.getD 2 0 * sh) = 1 := by
    linear_combination hc + sh * sh * hu
  have hrod := Affine.vecMul_rotation_rodrigues (k := fun j : Fin 3 => u.getD j.val 0) hc hk
  refine ⟨hR, ?_, ?_, ?_, ?_, ?_, fun p i hi => linMat3_zero_beyond _ p i hi⟩
  · rw [hR]; exact Affine.rotation_mul_transpose hn
  · rw [hR]; exact Affine.rotation_transpose_mul hn
  · rw [hR]; exact Affine.rotation_det hn
  · rw [hR, hrod]
    apply Affine.ext3 <;>
      simp only [Affine.dot, Matrix.cons_val, Fin.isValue, Fin.val_zero, Fin.val_one, Fin.val_two]
    · linear_combination (u.getD 0 0 * (1 - (ch * ch - sh * sh))) * hu
    · linear_combination (u.getD 1 0 * (1 - (ch * ch - sh * sh))) * hu
    · linear_combination (u.getD 2 0 * (1 - (ch * ch - sh * sh))) * hu
  · intro p
    have h1 : (fun i : Fin 3 => linMat 3 (rot3Mat ch sh u) p i.val)
        = Affine.vecMul (fin3 p) (mat3 (rot3Mat ch sh u)) := by
      funext i; exact linMat3_eq_vecMul _ p i
    rw [h1, hR, hrod]
    simp [fin3, Affine.dot]

/-- **The 2-D branch of `rotate`** is `(x, y) ↦ (x cos θ - y sin θ, x sin θ + y cos θ)` – the
    counter-clockwise rotation by `+θ` – and agrees with the 3-D branch about `+e_z` (which leaves
    `z` alone).

    PARTIAL with respect to the property: the 2-D branch is taken whenever `normal[0] == 0 and
    normal[1] == 0`, i.e. for `normal = -e_z` as well, and does not look at the sign of
    `normal[2]` (third conjunct), whereas the rotation about `-e_z` by `+θ` – which the 3-D
    branch computes for the same arguments (fourth conjunct) – is the plane rotation by `-θ`.
    So for 2-D objects and `normal = (0,0,-1)` model and code rotate the wrong way
    (finding `rotate-2d-ignores-axis-sign`). -/
theorem C09_rotation_2d_partial [LinearOrder K] (ch sh : K) (hc : ch * ch + sh * sh = 1) :
    (∀ p : ℕ → K, linMat 2 (rot2Mat ch sh) p = fun i =>
        if i = 0 then p 0 * (ch * ch - sh * sh) - p 1 * (2 * ch * sh)
        else if i = 1 then p 0 * (2 * ch * sh) + p 1 * (ch * ch - sh * sh) else 0)
    ∧ (∀ p : ℕ → K, linMat 3 (rot3Mat ch sh [0, 0, 1]) p = fun i =>
        if i < 2 then linMat 2 (rot2Mat ch sh) p i else if i = 2 then p 2 else 0)
    ∧ (∀ n u u' : List K, axisIsZ n →
        (AffOp.rotate ch sh n u).sem 2 = (AffOp.rotate ch sh [0, 0, 1] u').sem 2)
    ∧ (∀ p : ℕ → K, linMat 3 (rot3Mat ch sh [0, 0, -1]) p = fun i =>
        if i < 2 then linMat 2 (rot2Mat ch (-sh)) p i else if i = 2 then p 2 else 0) := by
  refine ⟨?_, ?_, ?_, ?_⟩
  · intro p
    funext i
    rcases i with _ | _ | i
    · lm_simp; ring
    · lm_simp
    · simp [linMat_apply]
  · intro p
    funext i
    rcases i with _ | _ | _ | i
    · lm_simp; ring
    · lm_simp; ring
    · lm_simp; linear_combination (p 2) * hc
    · simp [linMat_apply]
  · intro n u u' hz
    have hz' : axisIsZ ([0, 0, 1] : List K) := by simp [axisIsZ]
    simp [AffOp.sem, rotateDim, hz, hz']
  · intro p
    funext i
    rcases i with _ | _ | _ | i
    · lm_simp; ring
    · lm_simp; ring
    · lm_simp; linear_combination (p 2) * hc
    · simp [linMat_apply]

/-- **`mirror`**: for a unit normal `n` the matrix is `I - 2 n nᵀ`, symmetric, an involution, of
    determinant `-1`; it fixes every vector of the plane `n^⊥` through the origin and sends `n` to
    `-n`; the point map is `p ↦ p - 2 (n·p) n`. -/
theorem C09_mirror (n : List K)
    (hn : n.getD 0 0 * n.getD 0 0 + n.getD 1 0 * n.getD 1 0 + n.getD 2 0 * n.getD 2 0 = 1) :
    mat3 (mirrorMat n) = Affine.mirrorMatrix (fun j => n.getD j.val 0)
    ∧ Affine.matMul (mat3 (mirrorMat n)) (mat3 (mirrorMat n)) = Affine.identity
    ∧ Affine.transpose (mat3 (mirrorMat n)) = mat3 (mirrorMat n)
    ∧ Affine.det3 (mat3 (mirrorMat n)) = -1
    ∧ (∀ v : Fin 3 → K, Affine.dot (fun j => n.getD j.val 0) v = 0 →
        Affine.vecMul v (mat3 (mirrorMat n)) = v)
    ∧ Affine.vecMul (fun j => n.getD j.val 0) (mat3 (mirrorMat n)) = (fun j => - n.getD j.val 0)
    ∧ (∀ (p : ℕ → K) (i : Fin 3), linMat 3 (mirrorMat n) p i.val =
        p i.val - 2 * (n.getD 0 0 * p 0 + n.getD 1 0 * p 1 + n.getD 2 0 * p 2) * n.getD i.val 0) := by
  have hM := mat3_mirrorMat n
  have hd : Affine.dot (fun j : Fin 3 => n.getD j.val 0) (fun j : Fin 3 => n.getD j.val 0) = 1 := by
    simpa [Affine.dot] using hn
  have hvm : ∀ v : Fin 3 → K, Affine.vecMul v (Affine.mirrorMatrix (fun j => n.getD j.val 0))
      = Affine.mulVec (Affine.mirrorMatrix (fun j => n.getD j.val 0)) v :=
    fun v => Affine.mirrorPoint_eq_mulVec _ v
  refine ⟨hM, ?_, ?_, ?_, ?_, ?_, ?_⟩
  · rw [hM]; exact Affine.mirror_involution hd
  · rw [hM]; exact Affine.mirror_symmetric _
  · rw [hM]; exact Affine.mirror_det hd
  · intro v hv; rw [hM, hvm]; exact Affine.mirror_fixes_orthogonal _ hv
  · rw [hM, hvm]; exact Affine.mirror_normal hd
  · intro p i
    rw [linMat3_eq_vecMul, hM, hvm, Affine.mirror_mulVec]
    simp [fin3, Affine.dot]

end rotation

/-! ## Non-vacuity: the hypotheses are satisfiable and the operations really run -/

section examples

example : C09.exCurve.WF := C09.exCurve_WF

/-- A long mixed sequence (promotion by a long translation, out-of-plane rotation with rational
    half-angle, per-axis scale of a rational object, mirror, projection, embedding changes, operator
    forms) runs without exception on the example object, and every op is admissible. -/
example : ∃ o', AffOp.run C09.exCurve
    [.translate [1, 2, 3], .rotate (3/5) (4/5) [1, 2, 2] [1/3, 2/3, 2/3],
     .scale [.scalar 2, .scalar 3, .scalar (-1)], .mirror [2/3, -1/3, 2/3], .project [true, true, false],
     .setDimension 2, .forceRational, .isub [1, 1], .div (.scalar 4), .rmul (.vec [2, 5]),
     .rotate (4/5) (3/5) [0, 0, 1] [0, 0, 1]] = .ok o'
    ∧ ∀ op ∈ ([.translate [1, 2, 3], .setDimension 2, .forceRational] : List (AffOp ℚ)), op.Admissible :=
  ⟨_, rfl, by simp [AffOp.Admissible]⟩

/-- The weight sum of the example does not vanish for the weights `(1/2, 1/2)`. -/
example : homW (Finset.range 2) (fun _ => (1 / 2 : ℚ)) C09.exCurve.cpWt ≠ 0 := by
  simp [homW, Finset.sum_range_succ, Obj.cpWt, Obj.cp, Obj.ncomp, Obj.dimension, Tensor.get, C09.exCurve]
  norm_num

/-- Rational half-angle and unit axis as used by the correspondence run. -/
example : ((3 : ℚ) / 5) * (3 / 5) + (4 / 5) * (4 / 5) = 1
    ∧ ([1/3, 2/3, 2/3] : List ℚ).getD 0 0 * ([1/3, 2/3, 2/3] : List ℚ).getD 0 0
      + ([1/3, 2/3, 2/3] : List ℚ).getD 1 0 * ([1/3, 2/3, 2/3] : List ℚ).getD 1 0
      + ([1/3, 2/3, 2/3] : List ℚ).getD 2 0 * ([1/3, 2/3, 2/3] : List ℚ).getD 2 0 = 1 := by
  constructor <;> norm_num

/-- The span hypotheses of `C09_partition_of_unity`: integer knots, degree 1, span 1, `u = 3/2`. -/
example : Monotone (fun i : ℕ => (i : ℚ)) ∧ (1 : ℕ) ≤ 1 ∧ (1 : ℕ) < 3
    ∧ Side.right.mem ((fun i : ℕ => (i : ℚ)) 1) ((fun i : ℕ => (i : ℚ)) (1 + 1)) (3 / 2) := by
  refine ⟨fun a b h => by simpa using h, le_refl _, by norm_num, ?_⟩
  simp only [Side.mem]
  constructor <;> norm_num

end examples
