import Mathlib.Tactic.NormNum
import Mathlib.Data.Rat.Floor
import Splipy.Lemmas.C05Knots
import Splipy.Lemmas.C05Geometry
import Splipy.Lemmas.Elevation
import Splipy.Lemmas.SchoenbergWhitney
import Splipy.Lemmas.C05Clamped
import Splipy.Lemmas.C05Volume
import Splipy.Lemmas.C05Periodic
import Splipy.Lemmas.C05Lower
import Splipy.Lemmas.C05PerGeom
import Splipy.Lemmas.C05PerDir
import Splipy.Lemmas.C05Examples
import Splipy.Lemmas.C05PerUniform

/-!
# Property C05 — order elevation preserves geometry and continuity; lowering undoes it

Model: `Splipy/Model/Order.lean` (+ `Basis.raiseOrder`, `knotSpans`, `continuity` in
`Model/BasisOps.lean`).  Helper lemmas: `Lemmas/C05Knots.lean`, `C05LinAlg.lean`, `C05Geometry.lean`.

Status: for clamped non-periodic continuous bases C05 is a full proof, with both analytic facts
(degree-elevation inclusion `Lemmas/Elevation.lean`, Schoenberg–Whitney at the Greville points
`Lemmas/SchoenbergWhitney.lean`) proved:
* one direction: `C05_knots` + `C05_geometry_clamped_full` + `C05_lower_left_inverse_clamped` + `C05_api`;
* surfaces: `C05_geometry_clamped_surface` (raise, both directions re-interpolated at once, any
  amounts incl. 0 in one direction) and `C05_lower_left_inverse_clamped_surface`;
* volumes: `C05_geometry_clamped_volume` and `C05_lower_left_inverse_clamped_volume`.
Periodic bases: the knot bookkeeping incl. the ghost-knot trimming is proved (`C05_knots_periodic`,
standard periodic vectors whose ghost regions fit into one period).
`H_incl` for periodic bases is proved (`C05_elevation_periodic`: shift-invariant elevation matrix on
the unrolled sequence, folded onto the periodic basis), so periodic curves are proved relative to
`H_sw` only (`C05_geometry_periodic_partial`).
A periodic direction of a surface / volume is covered the same way (`C05_periodic_direction_partial`:
a standard periodic direction is `DirOKw` relative to `H_sw`; `C05_geometry_periodic_surface_partial`;
`Obj.evaluate` forms for surfaces and volumes in `Properties/Bridge.lean`).  Order-1 (constant)
objects raised by `a ≥ 1` are the case `q = 0` of the clamped theorems (`C05_geometry_order1`).
`H_sw` and admissibility are discharged for one family — uniform periodic quadratics raised to cubics,
any number of knots, `tol ≤ h/3` (`C05_geometry_periodic_uniform_cubic`, diagonal dominance).
Still partial: `H_sw` for the folded periodic Greville collocation matrix in general; periodic vectors whose
ghost regions span more than one period; `lower_order` on periodic bases (the pinned code raises
`NameError`); an order-1 basis in the RESULT (amount 0 in an order-1 direction: no Greville points;
`lower_order` refuses order 1 — listed findings).

Notation: a clamped (open) knot vector of order `p` is `expand (clampedU x0 xl umid) (clampedM p mmid)`
— end knots `x0`, `xl` with multiplicity `p`, interior distinct knots `umid` with multiplicities
`mmid`.  `Separated tol u` is the *separation hypothesis*: consecutive distinct knots differ by more
than the knot tolerance (so the tolerance-based `knot_spans` / `continuity` see exactly the
distinct knots); equal knots are exactly equal by construction of `expand`.
-/

open Splipy

variable {K : Type} [Field K] [LinearOrder K] [IsStrictOrderedRing K] [FloorRing K]

/-- **C05, knot vectors (non-periodic bases).**  For a clamped basis `b` of order `p ≥ 1` whose
distinct knots are separated by more than `tol > 0`, with interior multiplicities `≥ 1`
(no upper bound is needed for the bookkeeping), `raise_order(a)`:
* succeeds and returns the basis `b'` of order `p + a` with the same distinct knots, every
  multiplicity increased by `a` (in particular sorted and accepted by the constructor `mk?`);
* keeps `periodic`, `start()`, `end()` and `knot_spans(True)`;
* keeps `continuity(k)` at every distinct knot `k` (value `p - 1 - multiplicity`);
and, if `p ≥ 2`, `lower_order(a)` of `b'` returns exactly `b`.
Periodic bases (ghost-knot trimming of `raise_order`) are `C05_knots_periodic`; on them
`BSplineBasis.lower_order` raises `NameError` in the pinned code (listed finding, also proved there). -/
theorem C05_knots (tol : K) (htol : 0 < tol) (p a : ℕ) (hp : 1 ≤ p) (x0 xl : K) (umid : List K)
    (mmid : List ℕ) (hlen : umid.length = mmid.length)
    (hsep : Separated tol (clampedU x0 xl umid)) (hm : ∀ j ∈ mmid, 1 ≤ j) :
    let b := openBasis p (clampedU x0 xl umid) (clampedM p mmid)
    let b' := openBasis (p + a) (clampedU x0 xl umid) (clampedM (p + a) (mmid.map (· + a)))
    b.raiseOrder tol a = .ok b' ∧
    b'.order = p + a ∧ b'.periodic = b.periodic ∧ b'.start = b.start ∧ b'.stop = b.stop ∧
    b'.knots.toList.Pairwise (· ≤ ·) ∧
    Basis.mk? b'.order b'.knots b'.periodic tol = .ok b' ∧
    b'.knotSpans tol true = b.knotSpans tol true ∧
    (∀ i (hi : i < (clampedU x0 xl umid).length) (hi' : i < (clampedM p mmid).length),
      b'.continuity tol (clampedU x0 xl umid)[i] = b.continuity tol (clampedU x0 xl umid)[i] ∧
      b.continuity tol (clampedU x0 xl umid)[i] = .ok (some ((p : Int) - 1 - ((clampedM p mmid)[i] : Int)))) ∧
    (2 ≤ p → b'.lowerOrder tol (a : Int) = .ok b) := by
  intro b b'
  have h0 : 0 ≤ tol := le_of_lt htol
  have hlen' : umid.length = (mmid.map (· + a)).length := by simpa using hlen
  have hm' : ∀ j ∈ mmid.map (· + a), 1 ≤ j := by
    intro j hj; rw [List.mem_map] at hj; obtain ⟨j0, hj0, rfl⟩ := hj; have := hm j0 hj0; omega
  have hsize : 2 * p ≤ (expand (clampedU x0 xl umid) (clampedM p mmid)).length := by
    rw [expand_clamped p x0 xl umid mmid hlen]; simp; omega
  have hsize' : 2 * (p + a) ≤ (expand (clampedU x0 xl umid) (clampedM (p + a) (mmid.map (· + a)))).length := by
    rw [expand_clamped (p + a) x0 xl umid _ hlen']; simp; omega
  have hraise : b.raiseOrder tol a = .ok b' := by
    have := raiseOrder_open tol h0 p a hp x0 (umid ++ [xl]) p (mmid ++ [p]) hp (by simp [hlen]) (by simp)
      hsep (by
        intro j hj
        rcases List.mem_append.mp hj with h | h
        · exact hm j h
        · simp at h; omega) hsize
    rw [show ((p :: (mmid ++ [p])).map (· + a)) = clampedM (p + a) (mmid.map (· + a)) from
      clampedM_map p a mmid] at this
    exact this
  have hsorted : (expand (clampedU x0 xl umid) (clampedM (p + a) (mmid.map (· + a)))).Pairwise (· ≤ ·) :=
    expand_sorted tol h0 _ _ hsep
  have hspans : ∀ q (mm : List ℕ), 1 ≤ q → umid.length = mm.length → (∀ j ∈ mm, 1 ≤ j) →
      (openBasis q (clampedU x0 xl umid) (clampedM q mm)).knotSpans tol true = (clampedU x0 xl umid).toArray := by
    intro q mm hq hl hmm
    refine knotSpans_expand tol h0 q (-1) x0 (umid ++ [xl]) q (mm ++ [q]) hq (by simp [hl]) hsep ?_
    intro j hj
    rcases List.mem_append.mp hj with h | h
    · exact hmm j h
    · simp at h; omega
  refine ⟨hraise, rfl, rfl, ?_, ?_, ?_, ?_, ?_, ?_, ?_⟩
  · rw [clamped_start (p + a) (by omega), clamped_start p hp]
  · rw [clamped_stop (p + a) (by omega) x0 xl umid _ hlen', clamped_stop p hp x0 xl umid mmid hlen]
  · simpa [b', openBasis] using hsorted
  · exact mk?_ok_of_sorted (p + a) _ tol h0 (by omega) hsize' hsorted
  · rw [hspans (p + a) _ (by omega) hlen' hm', hspans p mmid hp hlen hm]
  · intro i hi hi'
    have hi2 : i < (clampedM (p + a) (mmid.map (· + a))).length := by
      rw [← clamped_lengths (p + a) x0 xl umid _ hlen']; exact hi
    have c1 := continuity_clamped tol htol (p + a) (by omega) x0 xl umid _ hlen' hsep hm' i hi hi2
    have c2 := continuity_clamped tol htol p hp x0 xl umid mmid hlen hsep hm i hi hi'
    have hget : (clampedM (p + a) (mmid.map (· + a)))[i] = (clampedM p mmid)[i] + a := by
      have := clampedM_map p a mmid
      simp only [← this, List.getElem_map]
    refine ⟨?_, ?_⟩
    · rw [c1, c2, hget]; congr 2; push_cast; ring
    · rw [c2]; congr 2; ring
  · intro hp2
    exact lowerOrder_raised tol htol p a hp2 x0 xl umid mmid hlen hsep hm

omit [FloorRing K] in
/-- **C05, generality of the `expand` form.**  Every knot list whose neighbours are either exactly
equal or more than `tol` apart (the separation hypothesis, stated on the raw list) is
`expand u m` with separated distinct knots `u` and positive multiplicities `m`; `C05_knots` applies
to those whose first and last multiplicity equal the order (clamped bases). -/
theorem C05_knots_form (tol : K) (h0 : 0 ≤ tol) (l : List K)
    (h : ∀ i (h : i + 1 < l.length), l[i] = l[i+1] ∨ l[i] + tol < l[i+1]) :
    ∃ (u : List K) (m : List ℕ), l = expand u m ∧ u.length = m.length ∧ Separated tol u ∧
      (∀ j ∈ m, 1 ≤ j) := by
  obtain ⟨u, m, h1, h2, h3, h4, _⟩ := exists_expand tol h0 l h
  exact ⟨u, m, h1, h2, h3, h4⟩

/-- **C05: the two forms of `H_sw` coincide, and the model's certificates never fail.**  The
Greville collocation matrix of the model is a well-shaped square matrix; if it has a left inverse
`L` (Schoenberg–Whitney in its mathematical form) then the model's certified inverse exists
(`Mat.invChecked = .ok Ni`: Gauss–Jordan completeness `Mat.inv_complete` and soundness
`Mat.inv_left` from `Lemmas/SolveSound.lean`), and `invChecked` coincides with the plain `Mat.inv`
on it — the certificate check of the model is redundant, never a source of `LinAlgError`. -/
theorem C05_hsw_forms (b' : Basis K) (tol : K) (pts : Array K) (hg : b'.greville = .ok pts) :
    Mat.invChecked (Obj.basisMat b' tol pts.toList 0 true) = Mat.inv (Obj.basisMat b' tol pts.toList 0 true) ∧
    ∀ (L : ℕ → ℕ → K),
      (∀ i j, i < pts.size → j < pts.size →
        ∑ l ∈ Finset.range pts.size, L i l * (Obj.basisMat b' tol pts.toList 0 true).get l j
          = if i = j then 1 else 0) →
      ∃ Ni, Mat.invChecked (Obj.basisMat b' tol pts.toList 0 true) = .ok Ni := by
  have hsz := greville_size b' pts hg
  have hshape := basisMat_shape b' tol pts.toList (by simpa using hsz)
  have hlen : pts.toList.length = pts.size := by simp
  rw [hlen] at hshape
  exact ⟨Mat.invChecked_eq_inv _ pts.size hshape,
    fun L hL => Mat.invChecked_complete _ pts.size hshape L hL⟩

/-- **C05, knot vectors of PERIODIC bases (ghost-knot trimming `knots[n0·a : −n1·a]`).**
A standard periodic basis of order `p` and continuity `k` is given by one period: distinct knots
`w0 :: wr` (`w0 = start`), multiplicities `μ0 :: μr`, period `T`;
`perKnots = last (k+1) knots of (P − T) ++ P ++ first p knots of (P + T)`, `P = expand w μ`.
Hypotheses `PerData`: distinct knots more than `tol > 0` apart, also across the seam; positive
multiplicities; both ghost regions fit into one period (`k+1 ≤ n`, `p ≤ n`, `n = Σμ =
num_functions`); `k + 2 ≤ p ≤ k + 1 + μ0` (so `start = w0`) and `μ0 < p` (a distinct knot beyond
`end`; otherwise the Python slice `[: -0]` empties the vector).  Then `raise_order(a)`, any `a`:
* succeeds and returns the standard periodic basis of order `p + a`, the SAME `k`, period and
  distinct knots, every multiplicity raised by `a` — the two trimmed ghost regions are again exactly
  the last `k+1` / first `p+a` knots of the shifted raised period;
* both bases are `Valid` (sorted, ghost knots repeat with the period); `start`, `end`, `periodic`
  unchanged; `num_functions` grows by `a` per distinct knot of the period;
* `continuity` is unchanged (`p − 1 − multiplicity`) at every distinct knot of the period and at `end`;
* the unfixed `lower_order` raises `NameError` on the result (listed finding), for every amount
  that passes the argument checks.
Not covered: periodic bases whose ghost regions span more than one period (`n < p`).  The geometry
part for these bases: `H_incl` is `C05_elevation_periodic` (proved), the evaluated map is
`C05_geometry_periodic_partial` / `C05_geometry_periodic_surface_partial` (relative to `H_sw`). -/
theorem C05_knots_periodic {tol : K} {p k : ℕ} {w0 : K} {wr : List K} {μ0 : ℕ} {μr : List ℕ} {T : K}
    (h : PerData tol p k w0 wr μ0 μr T) (htol : 0 < tol) (a : ℕ) :
    let b := perBasis p k (w0 :: wr) (μ0 :: μr) T
    let b' := perBasis (p + a) k (w0 :: wr) ((μ0 :: μr).map (· + a)) T
    b.raiseOrder tol a = .ok b' ∧
    b'.order = p + a ∧ b'.periodic = b.periodic ∧ b'.start = b.start ∧ b'.stop = b.stop ∧
    b.Valid ∧ b'.Valid ∧ b'.numFunctions = b.numFunctions + a * (wr.length + 1) ∧
    (∀ (w1 w2 : List K) (x : K) (m1 m2 : List ℕ) (c : ℕ), w0 :: wr = w1 ++ x :: w2 →
      μ0 :: μr = m1 ++ c :: m2 → w1.length = m1.length →
      b'.continuity tol x = b.continuity tol x ∧ b.continuity tol x = .ok (some ((p : Int) - 1 - (c : Int)))) ∧
    (b'.continuity tol b.stop = b.continuity tol b.stop ∧
      b.continuity tol b.stop = .ok (some ((p : Int) - 1 - (μ0 : Int)))) ∧
    (∀ l : Int, 0 ≤ l → 2 ≤ ((p + a : ℕ) : Int) - l → b'.lowerOrder tol l = .error .name) := by
  intro b b'
  have h' := h.raise a
  have hmap : (μ0 :: μr).map (· + a) = (μ0 + a) :: μr.map (· + a) := by simp
  obtain ⟨s1, e1, n1⟩ := h.start_stop
  obtain ⟨s2, e2, n2⟩ := h'.start_stop
  rw [← hmap] at s2 e2 n2
  obtain ⟨c1, c1e⟩ := h.continuity htol
  obtain ⟨c2, c2e⟩ := h'.continuity htol
  rw [← hmap] at c2 c2e
  refine ⟨raiseOrder_periodic h htol a, rfl, rfl, by rw [s1, s2], by rw [e1, e2], h.valid htol.le,
    by have := h'.valid htol.le; rw [← hmap] at this; exact this, ?_, ?_, ?_, ?_⟩
  · rw [n1, n2, sum_map_add]
    have := h.len
    rw [Nat.mul_succ, this]; omega
  · intro w1 w2 x m1 m2 c hw hμ hl
    have hμ' : (μ0 :: μr).map (· + a) = m1.map (· + a) ++ (c + a) :: m2.map (· + a) := by rw [hμ]; simp
    have r2 := c2 w1 w2 x (m1.map (· + a)) (m2.map (· + a)) (c + a) hw hμ' (by simpa using hl)
    have r1 := c1 w1 w2 x m1 m2 c hw hμ hl
    refine ⟨?_, ?_⟩
    · rw [r2, r1]; congr 2; push_cast; ring
    · rw [r1]; congr 2; ring
  · rw [e1]
    refine ⟨?_, ?_⟩
    · rw [c2e, c1e]; congr 2; push_cast; ring
    · rw [c1e]; congr 2; ring
  · intro l hl0 hl2
    exact lowerOrder_periodic_nameError b' tol (by show (0 : Int) ≤ (k : Int); omega) l hl0 hl2

/-- **C05, degree-elevation inclusion for PERIODIC bases (`H_incl`, proved).**  `b`, `b'` the
standard periodic bases of `C05_knots_periodic` (orders `p`, `p + a`, same `k`, period and distinct
knots, multiplicities `μ`, `μ + a`).  There is a NON-NEGATIVE matrix `E` such that for every
coefficient vector `f` of `b` and EVERY parameter `u` (inside or outside the domain — the
specification row `Basis.specRow` wraps `u` into the period and takes the limit from inside at the
end; both only depend on `start`, `end`)
`Σ_r N'_r(u) · (Σ_j f_j E_{j,r}) = Σ_j N_j(u) · f_j`, `N_j` the periodic basis functions (sum of the
wrapped images of the Cox–de Boor B-splines).  Proof (`Lemmas/C05PerElev`, `C05PerFold`,
`C05PerIncl`): on the unrolled periodic knot sequence one elevation step is
`Elevation.elevation_incl` with the index map `j ↦ j + #w·(j / n) + block(j % n)`; `a` steps compose;
the matrix is made SHIFT-INVARIANT (`A (i+n) (j+n') = A i j`) by repeating the rows of one period
(legitimate because the B-splines themselves are shift-invariant), and the invariant matrix folds
onto the `n' + k + 1` B-splines of the periodic basis (supports in knot values cut the sums). -/
theorem C05_elevation_periodic {tol : K} {p k : ℕ} {w0 : K} {wr : List K} {μ0 : ℕ} {μr : List ℕ} {T : K}
    (h : PerData tol p k w0 wr μ0 μr T) (h0 : 0 ≤ tol) (a : ℕ) :
    ∃ E : ℕ → ℕ → K, (∀ j r, 0 ≤ E j r) ∧ ∀ (f : ℕ → K) (u : K),
      ∑ r ∈ Finset.range (perBasis (p + a) k (w0 :: wr) ((μ0 :: μr).map (· + a)) T).numFunctions,
          (perBasis (p + a) k (w0 :: wr) ((μ0 :: μr).map (· + a)) T).specRow u r
            * (∑ j ∈ Finset.range (perBasis p k (w0 :: wr) (μ0 :: μr) T).numFunctions, f j * E j r)
        = ∑ j ∈ Finset.range (perBasis p k (w0 :: wr) (μ0 :: μr) T).numFunctions,
            (perBasis p k (w0 :: wr) (μ0 :: μr) T).specRow u j * f j :=
  h.H_incl_specRow h0 a

/-- **C05, geometry for PERIODIC curves (partial: relative to `H_sw` only).**  `o` a curve
(`nc` homogeneous components, rational included) on the standard periodic basis `b` of
`C05_knots_periodic`, `a ≥ 1`, `b'` the basis `raise_order(a)` returns.  `H_incl` is PROVED
(`C05_elevation_periodic`); the remaining hypotheses are
* `H_sw` — the periodic Greville collocation matrix of `b'` has the model's certified inverse (the
  code does not raise `LinAlgError`); Schoenberg–Whitney for the FOLDED periodic collocation matrix
  is not proved in general — it is proved for the family of uniform periodic quadratics raised to
  cubics, `C05_geometry_periodic_uniform_cubic`, which has no hypothesis left;
* the Greville points of `b'` are admissible for `b` and `b'` (`Basis.Admissible`: each is exactly a
  knot or at least `tol` from every knot, also after wrapping — so that the tolerance snapping of
  `evaluate` does not move them).
Then `raise_order_implicit(a)`, the public `SplineObject.raise_order(a)` and `Curve.raise_order(a)`
succeed, the public methods return the receiver, and the result is `ElevatedOn` the parameters
admissible for both bases: single basis `b'` (periodicity `k`, domain and continuity at the knots
unchanged by `C05_knots_periodic`), matching net shape, same rationality, the homogeneous evaluated
map `Σ_r N'_r(u) P'_r = Σ_j N_j(u) P_j` at every such `u` (rows of the executable `evaluate`), and
non-negative components stay non-negative. -/
theorem C05_geometry_periodic_partial {tol : K} {p k : ℕ} {w0 : K} {wr : List K} {μ0 : ℕ} {μr : List ℕ} {T : K}
    (h : PerData tol p k w0 wr μ0 μr T) (htol : 0 < tol) (a : ℕ) (ha : 1 ≤ a)
    (o : Obj K) (nc : ℕ)
    (hb : o.bases = #[perBasis p k (w0 :: wr) (μ0 :: μr) T])
    (hs : o.cps.shape = [(perBasis p k (w0 :: wr) (μ0 :: μr) T).numFunctions, nc])
    (pts : Array K) (hg : (perBasis (p + a) k (w0 :: wr) ((μ0 :: μr).map (· + a)) T).greville = .ok pts)
    (hadm : ∀ t ∈ pts.toList, (perBasis p k (w0 :: wr) (μ0 :: μr) T).Admissible tol t ∧
      (perBasis (p + a) k (w0 :: wr) ((μ0 :: μr).map (· + a)) T).Admissible tol t)
    (Ni : Mat K)
    (H_sw : Mat.invChecked (Obj.basisMat (perBasis (p + a) k (w0 :: wr) ((μ0 :: μr).map (· + a)) T) tol
      pts.toList 0 true) = .ok Ni) :
    let b := perBasis p k (w0 :: wr) (μ0 :: μr) T
    let b' := perBasis (p + a) k (w0 :: wr) ((μ0 :: μr).map (· + a)) T
    let S : K → Prop := fun u => b.Admissible tol u ∧ b'.Admissible tol u
    (∃ o', o.raiseOrderImplicit tol [a] = .ok o' ∧ ElevatedOn S tol b b' nc o o') ∧
    (∃ o', o.raiseOrder tol [(a : Int)] none = .ok (.self, o') ∧ ElevatedOn S tol b b' nc o o') ∧
    (∃ o', o.curveRaiseOrder tol (a : Int) = .ok (.self, o') ∧ ElevatedOn S tol b b' nc o o') :=
  raise_periodic_curve h htol a ha o nc hb hs pts hg hadm Ni H_sw

/-- **C05, geometry for periodic curves — a hypothesis-free family: uniform periodic quadratics raised to
cubics.**  `b` is the periodic quadratic basis (order 3, continuity `k = 1`) on `m + 1 ≥ 3` uniform simple
knots per period, spacing `h`: knot vector `s0 + h·(−2, −1, 0, 1, …, m+3)`, i.e.
`BSplineBasis(3, s0 + h*arange(-2, m+4), periodic=1)`; `a = 1`; `b'` is the periodic cubic basis on
the same knots doubled.  For every `0 < tol ≤ h/3` BOTH remaining hypotheses of
`C05_geometry_periodic_partial` are PROVED (`uniform_quadratic_raise_hsw`, `Lemmas/C05PerUniform.lean`):
* `H_sw`: the Greville points of `b'` are the thirds `s0 + h·(j ± 1/3)`; every cubic B-spline on uniform
  double knots takes the value `16/27 > 1/2` at its own Greville point, the folded periodic collocation
  matrix is row-stochastic (C01), hence strictly diagonally dominant, hence injective
  (Levy–Desplanques, `stochastic_diag_injective_c14`), and the model's certified inverse exists;
* admissibility: a third is at least `h/3 ≥ tol` from every knot of the lattice `s0 + h·ℤ`, also after
  wrapping.
So `raise_order_implicit(1)`, `SplineObject.raise_order(1)` and `Curve.raise_order(1)` succeed (no
`LinAlgError`), the public methods return the receiver, and the result is `ElevatedOn` the parameters
admissible for both bases — no analytic hypothesis left.  (The diagonal argument does not extend to
the other small cases: raising uniform periodic linears gives diagonal entries `1/2` resp. `12/27`.) -/
theorem C05_geometry_periodic_uniform_cubic (tol s0 h : K) (htol : 0 < tol) (htolh : tol ≤ h / 3)
    (m : ℕ) (hm : 2 ≤ m) (o : Obj K) (nc : ℕ)
    (hb : o.bases = #[perBasis 3 1 (s0 :: uwr s0 h m) (1 :: List.replicate m 1) (h * ((m : K) + 1))])
    (hs : o.cps.shape
      = [(perBasis 3 1 (s0 :: uwr s0 h m) (1 :: List.replicate m 1) (h * ((m : K) + 1))).numFunctions, nc]) :
    let b := perBasis 3 1 (s0 :: uwr s0 h m) (1 :: List.replicate m 1) (h * ((m : K) + 1))
    let b' := perBasis (3 + 1) 1 (s0 :: uwr s0 h m) ((1 :: List.replicate m 1).map (· + 1)) (h * ((m : K) + 1))
    let S : K → Prop := fun u => b.Admissible tol u ∧ b'.Admissible tol u
    (∃ o', o.raiseOrderImplicit tol [1] = .ok o' ∧ ElevatedOn S tol b b' nc o o') ∧
    (∃ o', o.raiseOrder tol [((1 : ℕ) : Int)] none = .ok (.self, o') ∧ ElevatedOn S tol b b' nc o o') ∧
    (∃ o', o.curveRaiseOrder tol ((1 : ℕ) : Int) = .ok (.self, o') ∧ ElevatedOn S tol b b' nc o o') := by
  obtain ⟨hd, pts, Ni, hg, hadm, hNi⟩ := uniform_quadratic_raise_hsw tol s0 h htol htolh m hm
  exact C05_geometry_periodic_partial hd htol 1 le_rfl o nc hb hs pts hg hadm Ni hNi

/-- **C05, a standard periodic direction is a good direction of a multi-directional `raise_order`
(partial: relative to `H_sw` for that direction).**  `DirOKw tol b a b' E` packages what the
tensor-product re-interpolation needs from one direction: the basis raise succeeds and is valid, the
certified inverse of the Greville collocation matrix of `b'` exists and projects the old collocation
rows through `E`, and the executable rows of `b` are reproduced through `E` at every parameter
admissible for `b` and `b'` (`RowsOn`).  Every direction covered by the clamped theorems is `DirOKw`
with no hypothesis (`dirOK_clamped` + `DirOK.weak`; unchanged directions `dirOK_unchanged`).  For a
standard periodic basis (`PerData`) it holds with a non-negative `E` ASSUMING only `H_sw` and the
admissibility of the Greville points, as in `C05_geometry_periodic_partial`. -/
theorem C05_periodic_direction_partial {tol : K} {p k : ℕ} {w0 : K} {wr : List K} {μ0 : ℕ} {μr : List ℕ} {T : K}
    (h : PerData tol p k w0 wr μ0 μr T) (htol : 0 < tol) (a : ℕ)
    (pts : Array K) (hg : (perBasis (p + a) k (w0 :: wr) ((μ0 :: μr).map (· + a)) T).greville = .ok pts)
    (hadm : ∀ t ∈ pts.toList, (perBasis p k (w0 :: wr) (μ0 :: μr) T).Admissible tol t ∧
      (perBasis (p + a) k (w0 :: wr) ((μ0 :: μr).map (· + a)) T).Admissible tol t)
    (Ni : Mat K)
    (H_sw : Mat.invChecked (Obj.basisMat (perBasis (p + a) k (w0 :: wr) ((μ0 :: μr).map (· + a)) T) tol
      pts.toList 0 true) = .ok Ni) :
    ∃ E : ℕ → ℕ → K, (∀ i j, 0 ≤ E i j) ∧
      DirOKw tol (perBasis p k (w0 :: wr) (μ0 :: μr) T) a
        (perBasis (p + a) k (w0 :: wr) ((μ0 :: μr).map (· + a)) T) E :=
  h.dirOKw htol a pts hg hadm Ni H_sw

/-- **C05, geometry for surfaces with periodic directions (partial: relative to `DirOKw`, i.e. to
`H_sw` of the periodic directions).**  `o` is a well-formed surface whose two directions are `DirOKw`
(clamped continuous, unchanged, or standard periodic by `C05_periodic_direction_partial` — a tube
periodic in `u`, a torus periodic in both) and the guard of `raise_order` evaluates (`hguard`:
`raiseGuard_periodic'` when the first basis is periodic, `raiseGuard_clamped` when it is clamped).
Then the public `raise_order(a_u, a_v)` (amounts not both `0`) succeeds and returns the receiver, equal
to the result of `raise_order_implicit`; the result is well formed with bases `b_u'`, `b_v'` (for a
periodic direction: periodicity, domain and continuity at the knots unchanged by `C05_knots_periodic`),
the same rationality and number of components, and the homogeneous evaluated map
`Σ_{k0,k1} N'_{k0}(u) M'_{k1}(v) P'_{k0,k1} = Σ_{a,j} N_a(u) M_j(v) P_{a,j}` (rows of the executable
`evaluate`) agrees at every `(u, v)` admissible for the old and new bases.  The `Obj.evaluate` form,
and the volume case, are `Bridge_C05_weak_surface_partial` / `Bridge_C05_weak_volume_partial`.
All hypotheses are instantiated on the tube `c05Tube` in the non-vacuity section.
Missing for full strength: `H_sw` for the folded periodic Greville collocation matrix. -/
theorem C05_geometry_periodic_surface_partial (o : Obj K) (tol : K) (hw : C06.WF o 2) (au av : ℕ)
    (bu' bv' : Basis K) (Eu Ev : ℕ → ℕ → K) (hu : DirOKw tol (o.basis 0) au bu' Eu)
    (hv : DirOKw tol (o.basis 1) av bv' Ev) (hnz : au ≠ 0 ∨ av ≠ 0)
    (hguard : Obj.raiseGuard tol o.bases.toList = .ok true) :
    ∃ o', o.raiseOrder tol [(au : Int), (av : Int)] none = .ok (.self, o')
      ∧ o.raiseOrderImplicit tol [au, av] = .ok o'
      ∧ C06.WF o' 2 ∧ o'.basis 0 = bu' ∧ o'.basis 1 = bv'
      ∧ o'.ncomp = o.ncomp ∧ o'.rational = o.rational
      ∧ (∀ u v, (o.basis 0).Admissible tol u → bu'.Admissible tol u →
          (o.basis 1).Admissible tol v → bv'.Admissible tol v → ∀ i, i < o.ncomp →
          ∑ k0 ∈ Finset.range bu'.numFunctions, (bu'.evaluate tol u 0 true).getD k0 0 *
              ∑ k1 ∈ Finset.range bv'.numFunctions, (bv'.evaluate tol v 0 true).getD k1 0 *
                o'.cps.get ((k0 * bv'.numFunctions + k1) * o.ncomp + i)
            = ∑ a ∈ Finset.range (o.basis 0).numFunctions, ((o.basis 0).evaluate tol u 0 true).getD a 0 *
                ∑ j ∈ Finset.range (o.basis 1).numFunctions, ((o.basis 1).evaluate tol v 0 true).getD j 0 *
                  o.cps.get ((a * (o.basis 1).numFunctions + j) * o.ncomp + i)) := by
  obtain ⟨o', himp, _, w', b0, b1, n', r', _, hmap⟩ := raiseImplicit_surface_w o tol hw au av bu' bv' Eu Ev hu hv
  refine ⟨o', ?_, himp, w', b0, b1, n', r', hmap⟩
  apply raiseOrder_of_implicit o tol _ none [(au : Int), (av : Int)] o' (by
    have hpd : o.pardim = 2 := by rw [Obj.pardim, shape_of_wf2 hw]; rfl
    simp [Obj.normRaises, hpd]) ?_ ?_ hguard (by simpa using himp)
  · intro r hr; simp at hr; rcases hr with rfl | rfl <;> omega
  · rcases hnz with h | h
    · exact ⟨(au : Int), by simp, by omega⟩
    · exact ⟨(av : Int), by simp, by omega⟩

/-- **C05, geometry (partial).**  One parametric direction (curves; and every per-direction step
of the tensor-product interpolation).  `o` has the single basis `b` and control net of shape
`[n, nc]` (`nc` homogeneous components: rational objects included, the interpolation is done in
projective space).  ASSUMING
* `H_incl` — degree-elevation inclusion: some coefficient net `c'` on the elevated basis `b'`
  represents the same (homogeneous) spline, `Σ_k N'_k(t) c'_k = Σ_j N_j(t) c_j` for every `t`
  (a hypothesis of THIS general statement; it is PROVED for clamped bases, `Lemmas/Elevation.lean`,
  used in `C05_geometry_clamped`, and for standard periodic bases, `C05_elevation_periodic`);
* `H_sw` — Schoenberg–Whitney for the Greville points of `b'`: the collocation matrix is
  invertible, in the form "the model's certified exact inverse exists" (`Mat.invChecked = ok Ni`)
  resp. "a left inverse `L` exists" for the `Curve` override which solves instead of inverting;
the model's `raise_order_implicit` returns exactly the net `c'`, so the evaluated map
(`Σ_k N'_k(t) c'_k` for every `t`, every component) is unchanged; and whenever the model's
`Curve.raise_order(a)`, `a ≥ 1`, succeeds it returns the receiver with the same net `c'`.
The left-inverse property of the returned inverse is a theorem (`Mat.invChecked_spec`: the model
checks the certificate `Ai·A = I` exactly; by `C05_hsw_forms` the check never fails and the two
forms of `H_sw` are equivalent), not an assumption.
This is the GENERAL one-directional statement (any pair of bases) from which the others are derived;
it is `_partial` because both analytic facts are hypotheses here.  Where they are discharged:
* clamped continuous bases: `H_incl` in `C05_geometry_clamped`, `H_incl` and `H_sw` in
  `C05_geometry_clamped_full` (no analytic hypothesis; knot-spacing guard);
* standard periodic bases: `H_incl` in `C05_elevation_periodic` (for every parameter at the Cox–de Boor
  level; for the executable rows at admissible parameters — `∀ t` is false there because of the
  snapping near trimmed ghost knots, so the periodic theorems use the `S`-restricted variant
  `raiseImplicit_curve_on`), `H_sw` remains a hypothesis (`C05_geometry_periodic_partial`);
* pardim 2–3: the composition of the per-direction steps (commuting contractions of different axes) is
  formalised in `C05_geometry_clamped_surface` / `_volume` and `C05_geometry_periodic_surface_partial`.
The link from the model's basis rows to the Cox–de Boor specification is property C01 (used in the
surface / volume theorems through `C12.SameMap`, and in `Properties/Bridge.lean`). -/
theorem C05_geometry_partial (o : Obj K) (tol : K) (b b' : Basis K) (a : ℕ) (pts : Array K)
    (n nc : ℕ) (hb : o.bases = #[b]) (hs : o.cps.shape = [n, nc])
    (hb' : b.raiseOrder tol a = .ok b') (hg : b'.greville = .ok pts)
    (c' : ℕ → ℕ → K)
    (H_incl : ∀ t, ∀ c, c < nc →
      ∑ k ∈ Finset.range pts.size, (b'.evaluate tol t 0 true).getD k 0 * c' k c
        = ∑ j ∈ Finset.range n, (b.evaluate tol t 0 true).getD j 0 * o.cps.get (j * nc + c)) :
    -- SplineObject.raise_order_implicit
    (∀ Ni, (H_sw : Mat.invChecked (Obj.basisMat b' tol pts.toList 0 true) = .ok Ni) →
      ∃ o', o.raiseOrderImplicit tol [a] = .ok o' ∧ o'.bases = #[b'] ∧ o'.rational = o.rational ∧
        o'.cps.shape = [pts.size, nc] ∧
        (∀ i, i < pts.size → ∀ c, c < nc → o'.cps.get (i * nc + c) = c' i c) ∧
        (∀ t, ∀ c, c < nc →
          ∑ k ∈ Finset.range pts.size, (b'.evaluate tol t 0 true).getD k 0 * o'.cps.get (k * nc + c)
            = ∑ j ∈ Finset.range n, (b.evaluate tol t 0 true).getD j 0 * o.cps.get (j * nc + c))) ∧
    -- Curve.raise_order
    (∀ (L : ℕ → ℕ → K), 1 ≤ a → 0 < n → 0 < pts.size →
      (H_sw : ∀ i, i < pts.size → ∀ j, j < pts.size →
        ∑ l ∈ Finset.range pts.size, L i l * (Obj.basisMat b' tol pts.toList 0 true).get l j
          = if i = j then 1 else 0) →
      ∀ r o', o.curveRaiseOrder tol (a : Int) = .ok (r, o') →
        r = .self ∧ o'.bases = #[b'] ∧ o'.rational = o.rational ∧ o'.cps.shape = [pts.size, nc] ∧
        (∀ i, i < pts.size → ∀ c, c < nc → o'.cps.get (i * nc + c) = c' i c) ∧
        (∀ t, ∀ c, c < nc →
          ∑ k ∈ Finset.range pts.size, (b'.evaluate tol t 0 true).getD k 0 * o'.cps.get (k * nc + c)
            = ∑ j ∈ Finset.range n, (b.evaluate tol t 0 true).getD j 0 * o.cps.get (j * nc + c))) := by
  refine ⟨fun Ni H_sw => raiseOrderImplicit_pardim1 o tol b b' a pts n nc Ni hb hs hb' hg H_sw c' H_incl, ?_⟩
  intro L ha hn hpts H_sw r o' hcall
  exact curveRaiseOrder_spec o tol b b' a ha pts n nc hn hb hs hb' hg hpts L H_sw c' H_incl r o' hcall

/-- **C05, geometry for clamped non-periodic bases — `H_incl` discharged.**  One parametric
direction, `nc` homogeneous components (rational objects included: the interpolation and the
statement are in projective space, so the projected map is unchanged as well).  `b` is ANY clamped
basis of order `q+1` in the form of `C05_knots` (end knots of multiplicity `q+1`, interior distinct
knots `umid` with multiplicities `mmid ≥ 1`, distinct knots more than `tol` apart), `b'` the basis
`b.raise_order(a)` returns, any amount `a` with `q + a ≥ 1` (an order-1 result has no Greville
points: `ZeroDivisionError`, a listed finding).  Degree-elevation inclusion is PROVED
(`elevation_H_incl_net`, `Lemmas/Elevation.lean`), so the only remaining analytic hypothesis is
* `H_sw` — Schoenberg–Whitney at the Greville points of `b'`: the collocation matrix is invertible,
  i.e. the model's (certified, `C05_hsw_forms`) inverse exists — the code does not raise `LinAlgError`.
Under `H_sw` alone: `raise_order_implicit(a)` succeeds; the public `SplineObject.raise_order(a)`
(`a ≥ 1`) returns the receiver; `Curve.raise_order(a)` (`a ≥ 1`, exact solve) succeeds and returns
the receiver; and in each case the result is `ElevatedFrom tol b b' nc o ·`: single basis `b'`, same
rationality, the homogeneous evaluated map `Σ_k N'_k(t) P'_k = Σ_j N_j(t) P_j` for EVERY `t` and
every component, and (weights) a component that is `≥ 0` on all old control points is `≥ 0` on all
new ones (the elevation matrix is non-negative; strict positivity is not proved).
`H_sw` is in turn PROVED for continuous clamped bases under a knot-spacing (or exact-Greville-point)
hypothesis: see `C05_geometry_clamped_full`, which has no analytic hypothesis left.  Surfaces and
volumes: `C05_geometry_clamped_surface` / `_volume`; periodic bases: `C05_geometry_periodic_partial`. -/
theorem C05_geometry_clamped (tol : K) (htol : 0 < tol) (q a : ℕ) (hqa : 1 ≤ q + a) (x0 xl : K)
    (umid : List K) (mmid : List ℕ) (hlen : umid.length = mmid.length)
    (hsep : Separated tol (clampedU x0 xl umid)) (hm : ∀ j ∈ mmid, 1 ≤ j)
    (o : Obj K) (nc : ℕ)
    (hb : o.bases = #[openBasis (q+1) (clampedU x0 xl umid) (clampedM (q+1) mmid)])
    (hs : o.cps.shape = [(openBasis (q+1) (clampedU x0 xl umid) (clampedM (q+1) mmid)).numFunctions, nc]) :
    let b := openBasis (q+1) (clampedU x0 xl umid) (clampedM (q+1) mmid)
    let b' := openBasis (q+1+a) (clampedU x0 xl umid) (clampedM (q+1+a) (mmid.map (· + a)))
    b.raiseOrder tol a = .ok b' ∧
    ∃ pts, b'.greville = .ok pts ∧
      ∀ Ni, (H_sw : Mat.invChecked (Obj.basisMat b' tol pts.toList 0 true) = .ok Ni) →
        (∃ o', o.raiseOrderImplicit tol [a] = .ok o' ∧ ElevatedFrom tol b b' nc o o') ∧
        (1 ≤ a → ∃ o', o.raiseOrder tol [(a : Int)] none = .ok (.self, o') ∧ ElevatedFrom tol b b' nc o o') ∧
        (1 ≤ a → ∃ o', o.curveRaiseOrder tol (a : Int) = .ok (.self, o') ∧ ElevatedFrom tol b b' nc o o') := by
  intro b b'
  have hraise : b.raiseOrder tol a = .ok b' :=
    (C05_knots tol htol (q+1) a (by omega) x0 xl umid mmid hlen hsep hm).1
  obtain ⟨pts, hg⟩ := greville_ok b' (show q + 1 + a ≠ 1 by omega)
  have hP := greville_size b' pts hg
  obtain ⟨A, hA, hincl⟩ := elevation_H_incl_net tol htol q a x0 xl umid mmid hlen hsep hm
    b.numFunctions pts.size rfl hP
  set c' : ℕ → ℕ → K := fun k c => ∑ j ∈ Finset.range b.numFunctions, o.cps.get (j * nc + c) * A j k
    with hc'
  have H_incl : ∀ t, ∀ c, c < nc →
      ∑ k ∈ Finset.range pts.size, (b'.evaluate tol t 0 true).getD k 0 * c' k c
        = ∑ j ∈ Finset.range b.numFunctions, (b.evaluate tol t 0 true).getD j 0 * o.cps.get (j * nc + c) :=
    fun t c hc => hincl nc (fun i => o.cps.get i) t c hc
  have hgeo := C05_geometry_partial o tol b b' a pts b.numFunctions nc hb hs hraise hg c' H_incl
  have hn0 : 0 < b.numFunctions := by
    rw [numFunctions_clamped (q+1) x0 xl umid mmid hlen]; omega
  have hpts0 : 0 < pts.size := by
    rw [hP, numFunctions_clamped (q+1+a) x0 xl umid _ (by simpa using hlen)]; omega
  -- packaging of the conclusions
  have pack : ∀ o' : Obj K, o'.bases = #[b'] → o'.rational = o.rational →
      o'.cps.shape = [pts.size, nc] →
      (∀ i, i < pts.size → ∀ c, c < nc → o'.cps.get (i * nc + c) = c' i c) →
      (∀ t, ∀ c, c < nc →
        ∑ k ∈ Finset.range pts.size, (b'.evaluate tol t 0 true).getD k 0 * o'.cps.get (k * nc + c)
          = ∑ j ∈ Finset.range b.numFunctions, (b.evaluate tol t 0 true).getD j 0 * o.cps.get (j * nc + c)) →
      ElevatedFrom tol b b' nc o o' := by
    intro o' h1 h2 hsh h3 h4
    refine ⟨h1, h2, by rw [hsh, hP], ?_, ?_⟩
    · intro t c hc; rw [← hP]; exact h4 t c hc
    · intro c hc hpos k hk
      rw [h3 k (by omega) c hc]
      exact Finset.sum_nonneg (fun j hj => mul_nonneg (hpos j (Finset.mem_range.mp hj)) (hA j k))
  refine ⟨hraise, pts, hg, fun Ni H_sw => ?_⟩
  obtain ⟨o', ho', h1, h2, h3, h4, h5⟩ := hgeo.1 Ni H_sw
  obtain ⟨_, hinv⟩ := Mat.invChecked_spec _ Ni H_sw
  have hrows : (Obj.basisMat b' tol pts.toList 0 true).nrows = pts.size := by
    simp [Mat.nrows, basisMat_size]
  rw [hrows] at hinv
  refine ⟨⟨o', ho', pack o' h1 h2 h3 h4 h5⟩, fun ha => ?_, fun ha => ?_⟩
  · refine ⟨o', ?_, pack o' h1 h2 h3 h4 h5⟩
    unfold Obj.raiseOrder
    have hpd : o.pardim = 1 := by simp [Obj.pardim, hs]
    have hguard : Obj.raiseGuard tol o.bases.toList = .ok true := by
      rw [hb]; exact raiseGuard_clamped tol htol (q+1) (by omega) x0 xl umid mmid hlen hsep hm []
    have ha0 : ¬ (a = 0) := by omega
    simp [Obj.normRaises, hpd, ha0, hguard, ho']
  · obtain ⟨o2, ho2⟩ := curveRaiseOrder_succeeds o tol b b' a ha pts b.numFunctions nc hn0 hb hs hraise hg
      hpts0 (fun i j => Ni.get i j) hinv
    obtain ⟨_, g1, g2, g3, g4, g5⟩ := hgeo.2 (fun i j => Ni.get i j) ha hn0 hpts0 hinv .self o2 ho2
    exact ⟨o2, ho2, pack o2 g1 g2 g3 g4 g5⟩

/-- **C05, geometry for clamped non-periodic bases — FULL (no analytic hypothesis).**  One
parametric direction, `nc` homogeneous components (rational objects included).  `b` is any clamped
CONTINUOUS basis of order `p = q+1` (end knots of multiplicity `p`, interior distinct knots `umid`
with multiplicities `1 ≤ mmid ≤ q`), `b'` the basis `b.raise_order(a)` returns, any amount `a ≥ 1`,
any control net.
GUARD (a hypothesis beyond validity of the basis, `hknots`), one of
* spacing: distinct knots more than `2·(q+a)·tol = 2·(p'−1)·tol` apart, `p' = q+1+a` the new order
  (then every Greville point keeps a margin `> tol` inside the support of its B-spline,
  `greville_margins`, and the tolerance-snapped Greville points stay nested), or
* distinct knots more than `tol` apart and the Greville points of `b'` are `ExactAt tol` (each is
  exactly a knot or farther than `tol` from every knot, so `snap` does not move it).
`Basis.Valid` (sorted knots, `start < end`) and even `Separated tol` are NOT enough — see "Sharpness"
below for the counterexample.
Then, with both `H_incl` (degree-elevation inclusion, `Lemmas/Elevation.lean`) and `H_sw`
(Schoenberg–Whitney at the Greville points, `Lemmas/SchoenbergWhitney.lean`) PROVED:
`raise_order_implicit(a)`, the public `SplineObject.raise_order(a)` and `Curve.raise_order(a)` all
SUCCEED (no `LinAlgError`), the public methods return the receiver, and the result is
`ElevatedFrom tol b b' nc o ·`: basis `b'`, matching net shape, same rationality, the homogeneous
evaluated map unchanged for EVERY `t` and component, non-negative components (weights) stay
non-negative.  Together with `C05_knots` (orders, domain, periodicity, continuity at every knot)
this is the full raise-part of property C05 for clamped bases in one parametric direction.
Sharpness: some hypothesis beyond `Separated tol` is necessary — with `tol = 1` on knots
`0,0,0,3/2,3,3,3` snapping collapses two Greville points and the model (like the code) raises
`LinAlgError` (kernel-checked counterexample at the end of `Lemmas/SchoenbergWhitney.lean`: the
Greville points `3/4, 9/4` are snapped to the knots `3/2, 3`); with the default `tol = 1e-10` the
spacing hypothesis excludes only distinct knots closer than `2(p'−1)·1e-10` and is satisfied by every
generated case.  The guard is sufficient, not claimed sharp.
Elsewhere: surfaces / volumes `C05_geometry_clamped_surface` / `_volume`; periodic bases
`C05_geometry_periodic_partial`; order-1 originals `C05_geometry_order1`.  Not supported by the code:
an order-1 RESULT (`q + a = 0`: no Greville points, listed finding). -/
theorem C05_geometry_clamped_full (tol : K) (htol : 0 < tol) (q a : ℕ) (ha : 1 ≤ a) (x0 xl : K)
    (umid : List K) (mmid : List ℕ) (hlen : umid.length = mmid.length)
    (hm : ∀ j ∈ mmid, 1 ≤ j ∧ j ≤ q)
    (hknots : Separated (2 * ((q + a : ℕ) : K) * tol) (clampedU x0 xl umid) ∨
      (Separated tol (clampedU x0 xl umid) ∧
        ∀ pts, (openBasis (q+1+a) (clampedU x0 xl umid) (clampedM (q+1+a) (mmid.map (· + a)))).greville = .ok pts →
          ∀ t ∈ pts.toList, (openBasis (q+1+a) (clampedU x0 xl umid)
            (clampedM (q+1+a) (mmid.map (· + a)))).ExactAt tol t))
    (o : Obj K) (nc : ℕ)
    (hb : o.bases = #[openBasis (q+1) (clampedU x0 xl umid) (clampedM (q+1) mmid)])
    (hs : o.cps.shape = [(openBasis (q+1) (clampedU x0 xl umid) (clampedM (q+1) mmid)).numFunctions, nc]) :
    let b := openBasis (q+1) (clampedU x0 xl umid) (clampedM (q+1) mmid)
    let b' := openBasis (q+1+a) (clampedU x0 xl umid) (clampedM (q+1+a) (mmid.map (· + a)))
    (∃ o', o.raiseOrderImplicit tol [a] = .ok o' ∧ ElevatedFrom tol b b' nc o o') ∧
    (∃ o', o.raiseOrder tol [(a : Int)] none = .ok (.self, o') ∧ ElevatedFrom tol b b' nc o o') ∧
    (∃ o', o.curveRaiseOrder tol (a : Int) = .ok (.self, o') ∧ ElevatedFrom tol b b' nc o o') := by
  intro b b'
  have hfac : tol ≤ 2 * ((q + a : ℕ) : K) * tol := by
    have h1 : (1 : K) ≤ ((q + a : ℕ) : K) := by exact_mod_cast (by omega : 1 ≤ q + a)
    nlinarith
  have hsep : Separated tol (clampedU x0 xl umid) := by
    rcases hknots with h | h
    · exact separated_mono hfac h
    · exact h.1
  have hm1 : ∀ j ∈ mmid, 1 ≤ j := fun j hj => (hm j hj).1
  have hmq : ∀ j ∈ mmid, j ≤ q := fun j hj => (hm j hj).2
  obtain ⟨_, pts, hg, h⟩ := C05_geometry_clamped tol htol q a (by omega) x0 xl umid mmid hlen hsep hm1 o nc hb hs
  obtain ⟨Ni, hNi⟩ : ∃ Ni, Mat.invChecked (Obj.basisMat b' tol pts.toList 0 true) = .ok Ni := by
    rcases hknots with hgap | ⟨_, hex⟩
    · exact H_sw_clamped_gap tol htol q a (by omega) x0 xl umid mmid hlen hgap hm1 hmq pts hg
    · exact H_sw_clamped_exact tol htol q a (by omega) x0 xl umid mmid hlen hsep hm1 hmq pts hg (hex pts hg)
  obtain ⟨h1, h2, h3⟩ := h Ni hNi
  exact ⟨h1, h2 ha, h3 ha⟩

/-- **C05, order-1 objects (piecewise constants).**  A continuous order-1 basis has a single span
`[x0, xl]` (an interior knot of an order-1 basis has multiplicity `1 = p`, i.e. a discontinuity; such
bases are outside the property and their Greville collocation matrix after a raise is singular —
finding `curve-raise-order-singular-nan`).  This is the case `q = 0` of `C05_geometry_clamped_full`:
raising the constant object by any `a ≥ 1` succeeds on all three paths, returns the receiver on the
basis of order `1 + a` on `x0^{1+a}, xl^{1+a}`, and the evaluated map is unchanged for every `t`.  The
same holds for an order-1 direction of a surface or volume raised by `a ≥ 1`
(`C05_geometry_clamped_surface` / `_volume` with `q = 0`).  What the code does NOT support is an
order-1 basis in the RESULT: amount `0` in an order-1 direction of a multi-directional raise
(`ZeroDivisionError` in `greville`, finding `order1-direction-greville-zerodivision`) and lowering back
to order 1 (refused, finding `lower-order-to-constants-rejected`). -/
theorem C05_geometry_order1 (tol : K) (htol : 0 < tol) (a : ℕ) (ha : 1 ≤ a) (x0 xl : K)
    (hknots : Separated (2 * ((0 + a : ℕ) : K) * tol) (clampedU x0 xl []))
    (o : Obj K) (nc : ℕ)
    (hb : o.bases = #[openBasis 1 (clampedU x0 xl []) (clampedM 1 [])])
    (hs : o.cps.shape = [(openBasis 1 (clampedU x0 xl []) (clampedM 1 [])).numFunctions, nc]) :
    let b := openBasis 1 (clampedU x0 xl []) (clampedM 1 [])
    let b' := openBasis (1 + a) (clampedU x0 xl []) (clampedM (1 + a) [])
    b.order = 1 ∧ b.numFunctions = 1 ∧
    (∃ o', o.raiseOrderImplicit tol [a] = .ok o' ∧ ElevatedFrom tol b b' nc o o') ∧
    (∃ o', o.raiseOrder tol [(a : Int)] none = .ok (.self, o') ∧ ElevatedFrom tol b b' nc o o') ∧
    (∃ o', o.curveRaiseOrder tol (a : Int) = .ok (.self, o') ∧ ElevatedFrom tol b b' nc o o') := by
  intro b b'
  have h := C05_geometry_clamped_full tol htol 0 a ha x0 xl [] [] rfl (by simp) (Or.inl hknots) o nc hb hs
  refine ⟨rfl, ?_, ?_⟩
  · simp [b, openBasis, clampedU, clampedM, expand, Basis.numFunctions]
  · simpa using h

/-- **C05, `lower_order` undoes `raise_order` on clamped bases — FULL (no analytic hypothesis).**
Same bases as `C05_geometry_clamped_full` with `q ≥ 1` (the original order is at least 2:
`lower_order` refuses to return to order 1, a listed finding).
GUARD beyond validity: distinct knots more than `2·(q+a)·tol = 2·(p'−1)·tol` apart (`hgap`, `p'` the
RAISED order) — the spacing guard of `C05_geometry_clamped_full`, under which the object to be lowered
exists; it implies the guard `2·q·tol` needed for `H_sw` of the LOWER basis (whose Greville points are
snapped by `evaluate` in the same way; counterexample without a guard: see
`C05_geometry_clamped_full`, "Sharpness").
For ANY object `o'` that is `ElevatedFrom tol b b' nc o ·` — in particular the result of each of
the three `raise_order` paths of `C05_geometry_clamped_full` — `o'.lower_order(a)` succeeds and
returns a NEW object with the original basis `b` (original knot vector, `C05_knots`), the original
net shape and exactly the original control points of `o`, hence the original map.  `H_sw` for the
lower basis is `H_sw_clamped_gap` at amount `0`.  So `lower_order` is a left inverse of
`raise_order` on every clamped continuous one-directional object of order ≥ 2. -/
theorem C05_lower_left_inverse_clamped (tol : K) (htol : 0 < tol) (q a : ℕ) (hq : 1 ≤ q) (ha : 1 ≤ a)
    (x0 xl : K) (umid : List K) (mmid : List ℕ) (hlen : umid.length = mmid.length)
    (hm : ∀ j ∈ mmid, 1 ≤ j ∧ j ≤ q)
    (hgap : Separated (2 * ((q + a : ℕ) : K) * tol) (clampedU x0 xl umid))
    (o o' : Obj K) (nc : ℕ)
    (hel : ElevatedFrom tol (openBasis (q+1) (clampedU x0 xl umid) (clampedM (q+1) mmid))
      (openBasis (q+1+a) (clampedU x0 xl umid) (clampedM (q+1+a) (mmid.map (· + a)))) nc o o') :
    let b := openBasis (q+1) (clampedU x0 xl umid) (clampedM (q+1) mmid)
    ∃ o'', o'.lowerOrder tol [(a : Int)] = .ok (.new, o'') ∧ o''.bases = #[b] ∧
      o''.rational = o'.rational ∧ o''.cps.shape = [b.numFunctions, nc] ∧
      ∀ j, j < b.numFunctions → ∀ c, c < nc → o''.cps.get (j * nc + c) = o.cps.get (j * nc + c) := by
  intro b
  have hq1 : (1 : K) ≤ ((q + a : ℕ) : K) := by exact_mod_cast (by omega : 1 ≤ q + a)
  have hq0 : (1 : K) ≤ ((q + 0 : ℕ) : K) := by exact_mod_cast (by omega : 1 ≤ q + 0)
  have hqa : ((q + 0 : ℕ) : K) ≤ ((q + a : ℕ) : K) := by exact_mod_cast (by omega : q + 0 ≤ q + a)
  have hsep : Separated tol (clampedU x0 xl umid) := separated_mono (by nlinarith) hgap
  have hgap0 : Separated (2 * ((q + 0 : ℕ) : K) * tol) (clampedU x0 xl umid) :=
    separated_mono (by nlinarith) hgap
  have hm1 : ∀ j ∈ mmid, 1 ≤ j := fun j hj => (hm j hj).1
  have hmq : ∀ j ∈ mmid, j ≤ q := fun j hj => (hm j hj).2
  obtain ⟨e1, _, e3, e4, _⟩ := hel
  have hlow := (C05_knots tol htol (q+1) a (by omega) x0 xl umid mmid hlen hsep hm1).2.2.2.2.2.2.2.2.2 (by omega)
  obtain ⟨pts2, hg2⟩ := greville_ok b (show q + 1 ≠ 1 by omega)
  have hb0 : openBasis (q+1+0) (clampedU x0 xl umid) (clampedM (q+1+0) (mmid.map (· + 0))) = b := by
    simp [b]
  obtain ⟨Ni2, hNi2⟩ := H_sw_clamped_gap tol htol q 0 (by omega) x0 xl umid mmid hlen hgap0 hm1 hmq pts2
    (by rw [hb0]; exact hg2)
  rw [hb0] at hNi2
  exact lowerOrder_pardim1 o o' tol b _ a ha pts2 b.numFunctions _ nc Ni2 e1 e3 rfl hlow hg2 hNi2 e4

/-- **C05, `lower_order` is a left inverse (partial).**  One parametric direction.  Let `o'` be an
elevated object (basis `b'`, net of shape `[n', nc]`) that evaluates to the same homogeneous map as
`o` (basis `b`, `n = b.num_functions()` control points) — the conclusion of
`C05_geometry_partial` — and let `b'.lower_order(a) = b` (`C05_knots`).  ASSUMING `H_sw` for the
LOWER basis (the Greville collocation matrix of `b` has the model's certified inverse),
`o'.lower_order(a)` returns a NEW object with basis `b` whose control points are exactly those of
`o`.  This is the GENERAL one-directional statement, `_partial` because `H_sw` of the lower basis and
the same-map property of `o'` are hypotheses; they are discharged for clamped continuous bases in
`C05_lower_left_inverse_clamped` (no analytic hypothesis left) and, for pardim 2–3, in
`C05_lower_left_inverse_clamped_surface` / `_volume`.  It cannot be instantiated for periodic bases:
the pinned `BSplineBasis.lower_order` raises `NameError` there (`C05_knots_periodic`, listed finding). -/
theorem C05_lower_left_inverse_partial (o o' : Obj K) (tol : K) (b b' : Basis K) (a : ℕ) (ha : 1 ≤ a)
    (pts2 : Array K) (n n' nc : ℕ) (Ni2 : Mat K)
    (hb : o'.bases = #[b']) (hs : o'.cps.shape = [n', nc]) (hn : n = b.numFunctions)
    (hlow : b'.lowerOrder tol (a : Int) = .ok b) (hg2 : b.greville = .ok pts2)
    (H_sw : Mat.invChecked (Obj.basisMat b tol pts2.toList 0 true) = .ok Ni2)
    (hsame : ∀ t, ∀ c, c < nc →
        ∑ k ∈ Finset.range n', (b'.evaluate tol t 0 true).getD k 0 * o'.cps.get (k * nc + c)
          = ∑ j ∈ Finset.range n, (b.evaluate tol t 0 true).getD j 0 * o.cps.get (j * nc + c)) :
    ∃ o'', o'.lowerOrder tol [(a : Int)] = .ok (.new, o'') ∧ o''.bases = #[b] ∧
      o''.rational = o'.rational ∧ o''.cps.shape = [n, nc] ∧
      ∀ j, j < n → ∀ c, c < nc → o''.cps.get (j * nc + c) = o.cps.get (j * nc + c) :=
  lowerOrder_pardim1 o o' tol b b' a ha pts2 n n' nc Ni2 hb hs hn hlow hg2 H_sw hsame

/-- **C05, geometry for SURFACES on clamped continuous bases — FULL (no analytic hypothesis).**
`o` is a well-formed object with two parametric directions (`C06.WF o 2`: two valid bases, control
array `n_u × n_v × ncomp`, rational or not) whose bases are clamped continuous of orders `q_u+1`,
`q_v+1` in the form of `C05_knots` (interior multiplicities `1 ≤ m ≤ q`).
GUARD (a hypothesis beyond validity of the bases).  `Basis.Valid` only asks for sorted knots and
`start < end`, and the knot bookkeeping (`C05_knots`) needs `Separated tol` (distinct knots more than
`tol` apart).  This theorem asks for MORE: in every direction the distinct knots are more than
`2·(q+a)·tol = 2·(p'−1)·tol` apart, `p'` the NEW order of that direction (`hgap…`).  Reason: the
collocation matrix is assembled by `evaluate`, which snaps a parameter to any knot closer than `tol`.
With the spacing every Greville point of `b'` keeps a margin `> tol` inside the support of its B-spline
(`greville_margins`), so the snapped points still satisfy the Schoenberg–Whitney nesting condition and
the matrix is invertible.  Without it the statement is FALSE: order 3 on `0,0,0,3/2,3,3,3` with
`tol = 1` is valid and `Separated tol`, but its Greville points `3/4, 9/4` are snapped to the knots
`3/2, 3`, two collocation rows coincide and the model (like the code) raises `LinAlgError`
(kernel-checked at the end of `Lemmas/SchoenbergWhitney.lean`).  The guard is sufficient, not sharp;
with the default `tol = 1e-10` it excludes only knot vectors with distinct knots closer than
`2(p'−1)·1e-10`.
For raise amounts `a_u, a_v ≥ 0`,
not both `0`, with `q_u + a_u ≥ 1`, `q_v + a_v ≥ 1` (no order-1 result):
`raise_order_implicit(a_u, a_v)` — which re-interpolates BOTH directions at once through the
`tensordot` chain `N_old` (v, u) then `inv(N_new)` (v, u), also in a direction whose amount is `0` —
and the public `SplineObject.raise_order(a_u, a_v)` SUCCEED, the public method returns the receiver,
and the result `o'` is well formed with the elevated bases of `C05_knots` in both directions, the
same rationality and number of components, and the SAME EVALUATED MAP: `C12.SameMap 2 o o'`, i.e.
the defining tensor-product Cox–de Boor sum of every homogeneous component agrees at every
parameter pair and every choice of sides.  Non-negative components (weights) stay non-negative.
Proof: the four-step chain is the composition of two per-direction projections (`chain2_proj`), each
of which is the one-directional problem (`H_incl` from `Lemmas/Elevation.lean`, `H_sw` from
`Lemmas/SchoenbergWhitney.lean`, also at amount `0`); the result is the control net re-netted in
direction 0 and then 1 (`raiseImplicit_surface_eq`), and re-netting keeps the map
(`C12.sameMap_of_fibres`).  All hypotheses are instantiated on `c05Surf` in the non-vacuity section. -/
theorem C05_geometry_clamped_surface (tol : K) (htol : 0 < tol)
    (qu au : ℕ) (hqu : 1 ≤ qu + au) (x0u xlu : K) (umidu : List K) (mmidu : List ℕ)
    (hlenu : umidu.length = mmidu.length) (hmu : ∀ j ∈ mmidu, 1 ≤ j ∧ j ≤ qu)
    (hgapu : Separated (2 * ((qu + au : ℕ) : K) * tol) (clampedU x0u xlu umidu))
    (qv av : ℕ) (hqv : 1 ≤ qv + av) (x0v xlv : K) (umidv : List K) (mmidv : List ℕ)
    (hlenv : umidv.length = mmidv.length) (hmv : ∀ j ∈ mmidv, 1 ≤ j ∧ j ≤ qv)
    (hgapv : Separated (2 * ((qv + av : ℕ) : K) * tol) (clampedU x0v xlv umidv))
    (hnz : au ≠ 0 ∨ av ≠ 0)
    (o : Obj K) (hw : C06.WF o 2)
    (hb0 : o.basis 0 = openBasis (qu+1) (clampedU x0u xlu umidu) (clampedM (qu+1) mmidu))
    (hb1 : o.basis 1 = openBasis (qv+1) (clampedU x0v xlv umidv) (clampedM (qv+1) mmidv)) :
    ∃ o', o.raiseOrderImplicit tol [au, av] = .ok o'
      ∧ o.raiseOrder tol [(au : Int), (av : Int)] none = .ok (.self, o')
      ∧ C06.WF o' 2
      ∧ o'.basis 0 = openBasis (qu+1+au) (clampedU x0u xlu umidu) (clampedM (qu+1+au) (mmidu.map (· + au)))
      ∧ o'.basis 1 = openBasis (qv+1+av) (clampedU x0v xlv umidv) (clampedM (qv+1+av) (mmidv.map (· + av)))
      ∧ C12.SameMap 2 o o' ∧ o'.ncomp = o.ncomp ∧ o'.rational = o.rational
      ∧ (∀ i, i < o.ncomp →
          (∀ a, a < (o.basis 0).numFunctions → ∀ j, j < (o.basis 1).numFunctions →
            0 ≤ o.cps.get ((a * (o.basis 1).numFunctions + j) * o.ncomp + i)) →
          ∀ k0, k0 < (o'.basis 0).numFunctions → ∀ k1, k1 < (o'.basis 1).numFunctions →
            0 ≤ o'.cps.get ((k0 * (o'.basis 1).numFunctions + k1) * o.ncomp + i)) := by
  obtain ⟨Eu, hEu0, hdu⟩ := dirOK_clamped tol htol qu au hqu x0u xlu umidu mmidu hlenu hmu hgapu
  obtain ⟨Ev, hEv0, hdv⟩ := dirOK_clamped tol htol qv av hqv x0v xlv umidv mmidv hlenv hmv hgapv
  rw [← hb0] at hdu
  rw [← hb1] at hdv
  obtain ⟨o', himp, hwf, h0, h1, hsm, hnc, hrat, hent⟩ := raiseImplicit_surface o tol hw au av _ _ Eu Ev hdu hdv
  refine ⟨o', himp, ?_, hwf, h0, h1, hsm, hnc, hrat, ?_⟩
  · have hpd : o.pardim = 2 := by rw [Obj.pardim, shape_of_wf2 hw]; rfl
    have hfacu : tol ≤ 2 * ((qu + au : ℕ) : K) * tol := by
      have h1 : (1 : K) ≤ ((qu + au : ℕ) : K) := by exact_mod_cast hqu
      nlinarith
    have hguard : Obj.raiseGuard tol o.bases.toList = .ok true := by
      rw [bases_of_wf2 hw, hb0]
      exact raiseGuard_clamped tol htol (qu+1) (by omega) x0u xlu umidu mmidu hlenu
        (separated_mono hfacu hgapu) (fun j hj => (hmu j hj).1) _
    apply raiseOrder_of_implicit o tol _ none [(au : Int), (av : Int)] o' (by simp [Obj.normRaises]) ?_ ?_ hguard
      (by simpa using himp)
    · intro r hr; simp at hr; rcases hr with rfl | rfl <;> omega
    · rcases hnz with h | h
      · exact ⟨(au : Int), by simp, by omega⟩
      · exact ⟨(av : Int), by simp, by omega⟩
  · intro i hi hpos k0 hk0 k1 hk1
    rw [h0] at hk0
    rw [h1] at hk1 ⊢
    rw [hent k0 hk0 k1 hk1 i hi]
    apply Finset.sum_nonneg
    intro a ha
    apply mul_nonneg _ (hEu0 a k0)
    apply Finset.sum_nonneg
    intro j hj
    exact mul_nonneg (hpos a (Finset.mem_range.mp ha) j (Finset.mem_range.mp hj)) (hEv0 j k1)

/-- **C05, `lower_order` undoes `raise_order` on SURFACES — FULL (no analytic hypothesis).**
Hypotheses of `C05_geometry_clamped_surface` — INCLUDING its guard beyond validity: distinct knots of
each direction more than `2·(q+a)·tol` apart, `hgapu`, `hgapv`; it is needed for the raise (see there
for the counterexample) and implies the guard `2·q·tol` for `H_sw` of the lower bases — with both
original orders at least 2 (`q_u, q_v ≥ 1`: `lower_order` refuses to return to order 1).  Let `o'` be the surface `raise_order(a_u, a_v)` returns.
Then `o'.lower_order(a_u, a_v)` succeeds and returns a NEW object with the original bases (hence the
original knot vectors), the original control-array shape and rationality, and exactly the original
control points — so it evaluates to the original map.  (Per direction the lowering interpolation is
the linear map `(inv N_b · N_{b'})ᵀ`, a left inverse of the elevation matrix: `elev_lower_id`.) -/
theorem C05_lower_left_inverse_clamped_surface (tol : K) (htol : 0 < tol)
    (qu au : ℕ) (hqu : 1 ≤ qu) (x0u xlu : K) (umidu : List K) (mmidu : List ℕ)
    (hlenu : umidu.length = mmidu.length) (hmu : ∀ j ∈ mmidu, 1 ≤ j ∧ j ≤ qu)
    (hgapu : Separated (2 * ((qu + au : ℕ) : K) * tol) (clampedU x0u xlu umidu))
    (qv av : ℕ) (hqv : 1 ≤ qv) (x0v xlv : K) (umidv : List K) (mmidv : List ℕ)
    (hlenv : umidv.length = mmidv.length) (hmv : ∀ j ∈ mmidv, 1 ≤ j ∧ j ≤ qv)
    (hgapv : Separated (2 * ((qv + av : ℕ) : K) * tol) (clampedU x0v xlv umidv))
    (hnz : au ≠ 0 ∨ av ≠ 0)
    (o : Obj K) (hw : C06.WF o 2)
    (hb0 : o.basis 0 = openBasis (qu+1) (clampedU x0u xlu umidu) (clampedM (qu+1) mmidu))
    (hb1 : o.basis 1 = openBasis (qv+1) (clampedU x0v xlv umidv) (clampedM (qv+1) mmidv)) :
    ∃ o' o'', o.raiseOrder tol [(au : Int), (av : Int)] none = .ok (.self, o')
      ∧ o'.lowerOrder tol [(au : Int), (av : Int)] = .ok (.new, o'') ∧ o''.bases = o.bases
      ∧ o''.cps.shape = o.cps.shape ∧ o''.rational = o.rational
      ∧ ∀ a, a < (o.basis 0).numFunctions → ∀ j, j < (o.basis 1).numFunctions → ∀ i, i < o.ncomp →
          o''.cps.get ((a * (o.basis 1).numFunctions + j) * o.ncomp + i)
            = o.cps.get ((a * (o.basis 1).numFunctions + j) * o.ncomp + i) := by
  obtain ⟨o', himp, hpub, _⟩ := C05_geometry_clamped_surface tol htol qu au (by omega) x0u xlu umidu mmidu hlenu hmu hgapu
    qv av (by omega) x0v xlv umidv mmidv hlenv hmv hgapv hnz o hw hb0 hb1
  obtain ⟨Eu, _, hdu⟩ := dirOK_clamped tol htol qu au (by omega) x0u xlu umidu mmidu hlenu hmu hgapu
  obtain ⟨Ev, _, hdv⟩ := dirOK_clamped tol htol qv av (by omega) x0v xlv umidv mmidv hlenv hmv hgapv
  have mono : ∀ (q a : ℕ), 1 ≤ q → tol ≤ 2 * ((q + a : ℕ) : K) * tol ∧ 2 * ((q + 0 : ℕ) : K) * tol ≤ 2 * ((q + a : ℕ) : K) * tol := by
    intro q a hq
    have h1 : (1 : K) ≤ ((q + a : ℕ) : K) := by exact_mod_cast (by omega : 1 ≤ q + a)
    have h2 : ((q + 0 : ℕ) : K) ≤ ((q + a : ℕ) : K) := by exact_mod_cast (by omega : q + 0 ≤ q + a)
    constructor <;> nlinarith
  have hsepu : Separated tol (clampedU x0u xlu umidu) := separated_mono (mono qu au hqu).1 hgapu
  have hsepv : Separated tol (clampedU x0v xlv umidv) := separated_mono (mono qv av hqv).1 hgapv
  have hlu := lowerOrder_raised tol htol (qu+1) au (by omega) x0u xlu umidu mmidu hlenu hsepu (fun j hj => (hmu j hj).1)
  have hlv := lowerOrder_raised tol htol (qv+1) av (by omega) x0v xlv umidv mmidv hlenv hsepv (fun j hj => (hmv j hj).1)
  obtain ⟨_, _, hd0u⟩ := dirOK_clamped tol htol qu 0 (by omega) x0u xlu umidu mmidu hlenu hmu
    (separated_mono (mono qu au hqu).2 hgapu)
  obtain ⟨_, _, hd0v⟩ := dirOK_clamped tol htol qv 0 (by omega) x0v xlv umidv mmidv hlenv hmv
    (separated_mono (mono qv av hqv).2 hgapv)
  have e0u : openBasis (qu+1+0) (clampedU x0u xlu umidu) (clampedM (qu+1+0) (mmidu.map (· + 0)))
      = openBasis (qu+1) (clampedU x0u xlu umidu) (clampedM (qu+1) mmidu) := by simp
  have e0v : openBasis (qv+1+0) (clampedU x0v xlv umidv) (clampedM (qv+1+0) (mmidv.map (· + 0)))
      = openBasis (qv+1) (clampedU x0v xlv umidv) (clampedM (qv+1) mmidv) := by simp
  have hsu := hd0u.hsw
  have hsv := hd0v.hsw
  rw [e0u] at hsu
  rw [e0v] at hsv
  rw [← hb0] at hdu hlu hsu
  rw [← hb1] at hdv hlv hsv
  obtain ⟨o'', h1, h2, h3, h4, h5⟩ := lower_after_raise_surface o tol hw au av hnz _ _ Eu Ev hdu hdv hlu hlv hsu hsv o' himp
  exact ⟨o', o'', hpub, h1, h2, h3, h4, h5⟩

/-- **C05, geometry for VOLUMES on clamped continuous bases — FULL (no analytic hypothesis).**
The three-directional analogue of `C05_geometry_clamped_surface`: `o` well formed with three
parametric directions, every basis clamped continuous (form of `C05_knots`, interior multiplicities
`1 ≤ m ≤ q`).
GUARD (a hypothesis beyond validity of the bases).  `Basis.Valid` only asks for sorted knots and
`start < end`, and the knot bookkeeping (`C05_knots`) needs `Separated tol` (distinct knots more than
`tol` apart).  This theorem asks for MORE: in every direction the distinct knots are more than
`2·(q+a)·tol = 2·(p'−1)·tol` apart, `p'` the NEW order of that direction (`hgap…`).  Reason: the
collocation matrix is assembled by `evaluate`, which snaps a parameter to any knot closer than `tol`.
With the spacing every Greville point of `b'` keeps a margin `> tol` inside the support of its B-spline
(`greville_margins`), so the snapped points still satisfy the Schoenberg–Whitney nesting condition and
the matrix is invertible.  Without it the statement is FALSE: order 3 on `0,0,0,3/2,3,3,3` with
`tol = 1` is valid and `Separated tol`, but its Greville points `3/4, 9/4` are snapped to the knots
`3/2, 3`, two collocation rows coincide and the model (like the code) raises `LinAlgError`
(kernel-checked at the end of `Lemmas/SchoenbergWhitney.lean`).  The guard is sufficient, not sharp;
with the default `tol = 1e-10` it excludes only knot vectors with distinct knots closer than
`2(p'−1)·1e-10`.
Raise amounts `a_u, a_v, a_w ≥ 0` not all `0`, no order-1 result.  `raise_order_implicit` (six
`tensordot` steps) and the public `raise_order(a_u, a_v, a_w)` succeed, the public method returns the
receiver, the result is well formed with the elevated bases, same rationality and components, and
`C12.SameMap 3 o o'`: the defining tensor-product sum of every homogeneous component agrees at every
parameter triple and every choice of sides.  Non-negative components stay non-negative.  All
hypotheses are instantiated on the rational volume `c05Vol` in the non-vacuity section. -/
theorem C05_geometry_clamped_volume (tol : K) (htol : 0 < tol)
    (qu au : ℕ) (hqu : 1 ≤ qu + au) (x0u xlu : K) (umidu : List K) (mmidu : List ℕ)
    (hlenu : umidu.length = mmidu.length) (hmu : ∀ j ∈ mmidu, 1 ≤ j ∧ j ≤ qu)
    (hgapu : Separated (2 * ((qu + au : ℕ) : K) * tol) (clampedU x0u xlu umidu))
    (qv av : ℕ) (hqv : 1 ≤ qv + av) (x0v xlv : K) (umidv : List K) (mmidv : List ℕ)
    (hlenv : umidv.length = mmidv.length) (hmv : ∀ j ∈ mmidv, 1 ≤ j ∧ j ≤ qv)
    (hgapv : Separated (2 * ((qv + av : ℕ) : K) * tol) (clampedU x0v xlv umidv))
    (qw aw : ℕ) (hqw : 1 ≤ qw + aw) (x0w xlw : K) (umidw : List K) (mmidw : List ℕ)
    (hlenw : umidw.length = mmidw.length) (hmw : ∀ j ∈ mmidw, 1 ≤ j ∧ j ≤ qw)
    (hgapw : Separated (2 * ((qw + aw : ℕ) : K) * tol) (clampedU x0w xlw umidw))
    (hnz : au ≠ 0 ∨ av ≠ 0 ∨ aw ≠ 0)
    (o : Obj K) (hw : C06.WF o 3)
    (hb0 : o.basis 0 = openBasis (qu+1) (clampedU x0u xlu umidu) (clampedM (qu+1) mmidu))
    (hb1 : o.basis 1 = openBasis (qv+1) (clampedU x0v xlv umidv) (clampedM (qv+1) mmidv))
    (hb2 : o.basis 2 = openBasis (qw+1) (clampedU x0w xlw umidw) (clampedM (qw+1) mmidw)) :
    ∃ o', o.raiseOrderImplicit tol [au, av, aw] = .ok o'
      ∧ o.raiseOrder tol [(au : Int), (av : Int), (aw : Int)] none = .ok (.self, o')
      ∧ C06.WF o' 3
      ∧ o'.basis 0 = openBasis (qu+1+au) (clampedU x0u xlu umidu) (clampedM (qu+1+au) (mmidu.map (· + au)))
      ∧ o'.basis 1 = openBasis (qv+1+av) (clampedU x0v xlv umidv) (clampedM (qv+1+av) (mmidv.map (· + av)))
      ∧ o'.basis 2 = openBasis (qw+1+aw) (clampedU x0w xlw umidw) (clampedM (qw+1+aw) (mmidw.map (· + aw)))
      ∧ C12.SameMap 3 o o' ∧ o'.ncomp = o.ncomp ∧ o'.rational = o.rational
      ∧ (∀ i, i < o.ncomp →
          (∀ a0, a0 < (o.basis 0).numFunctions → ∀ a1, a1 < (o.basis 1).numFunctions →
            ∀ j, j < (o.basis 2).numFunctions →
            0 ≤ o.cps.entry4 (o.basis 1).numFunctions (o.basis 2).numFunctions o.ncomp a0 a1 j i) →
          ∀ k0, k0 < (o'.basis 0).numFunctions → ∀ k1, k1 < (o'.basis 1).numFunctions →
            ∀ k2, k2 < (o'.basis 2).numFunctions →
            0 ≤ o'.cps.entry4 (o'.basis 1).numFunctions (o'.basis 2).numFunctions o.ncomp k0 k1 k2 i) := by
  obtain ⟨Eu, hEu0, hdu⟩ := dirOK_clamped tol htol qu au hqu x0u xlu umidu mmidu hlenu hmu hgapu
  obtain ⟨Ev, hEv0, hdv⟩ := dirOK_clamped tol htol qv av hqv x0v xlv umidv mmidv hlenv hmv hgapv
  obtain ⟨Ew, hEw0, hdw⟩ := dirOK_clamped tol htol qw aw hqw x0w xlw umidw mmidw hlenw hmw hgapw
  rw [← hb0] at hdu
  rw [← hb1] at hdv
  rw [← hb2] at hdw
  obtain ⟨o', himp, hwf, h0, h1, h2, hsm, hnc, hrat, hent⟩ :=
    raiseImplicit_volume o tol hw au av aw _ _ _ Eu Ev Ew hdu hdv hdw
  refine ⟨o', himp, ?_, hwf, h0, h1, h2, hsm, hnc, hrat, ?_⟩
  · have hpd : o.pardim = 3 := by rw [Obj.pardim, shape_of_wf3 hw]; rfl
    have hfacu : tol ≤ 2 * ((qu + au : ℕ) : K) * tol := by
      have h1 : (1 : K) ≤ ((qu + au : ℕ) : K) := by exact_mod_cast hqu
      nlinarith
    have hguard : Obj.raiseGuard tol o.bases.toList = .ok true := by
      rw [bases_of_wf3 hw, hb0]
      exact raiseGuard_clamped tol htol (qu+1) (by omega) x0u xlu umidu mmidu hlenu
        (separated_mono hfacu hgapu) (fun j hj => (hmu j hj).1) _
    apply raiseOrder_of_implicit o tol _ none [(au : Int), (av : Int), (aw : Int)] o' (by simp [Obj.normRaises])
      ?_ ?_ hguard (by simpa using himp)
    · intro r hr; simp at hr; rcases hr with rfl | rfl | rfl <;> omega
    · rcases hnz with h | h | h
      · exact ⟨(au : Int), by simp, by omega⟩
      · exact ⟨(av : Int), by simp, by omega⟩
      · exact ⟨(aw : Int), by simp, by omega⟩
  · intro i hi hpos k0 hk0 k1 hk1 k2 hk2
    rw [h0] at hk0
    rw [h1] at hk1 ⊢
    rw [h2] at hk2 ⊢
    rw [hent k0 hk0 k1 hk1 k2 hk2 i hi]
    apply Finset.sum_nonneg
    intro a0 ha0
    apply mul_nonneg _ (hEu0 a0 k0)
    apply Finset.sum_nonneg
    intro a1 ha1
    apply mul_nonneg _ (hEv0 a1 k1)
    apply Finset.sum_nonneg
    intro j hj
    exact mul_nonneg (hpos a0 (Finset.mem_range.mp ha0) a1 (Finset.mem_range.mp ha1) j (Finset.mem_range.mp hj))
      (hEw0 j k2)

/-- **C05, `lower_order` undoes `raise_order` on VOLUMES — FULL (no analytic hypothesis).**
The three-directional analogue of `C05_lower_left_inverse_clamped_surface`: hypotheses of
`C05_geometry_clamped_volume` — including its guard beyond validity, distinct knots of each direction
more than `2·(q+a)·tol` apart (needed for the raise, see `C05_geometry_clamped_surface` for the
counterexample; it implies the guard for the lower bases) — with all original orders at least 2; `lower_order(a_u, a_v, a_w)` of the
volume `raise_order(a_u, a_v, a_w)` returns succeeds and gives a NEW object with the original bases,
shape, rationality and exactly the original control points. -/
theorem C05_lower_left_inverse_clamped_volume (tol : K) (htol : 0 < tol)
    (qu au : ℕ) (hqu : 1 ≤ qu) (x0u xlu : K) (umidu : List K) (mmidu : List ℕ)
    (hlenu : umidu.length = mmidu.length) (hmu : ∀ j ∈ mmidu, 1 ≤ j ∧ j ≤ qu)
    (hgapu : Separated (2 * ((qu + au : ℕ) : K) * tol) (clampedU x0u xlu umidu))
    (qv av : ℕ) (hqv : 1 ≤ qv) (x0v xlv : K) (umidv : List K) (mmidv : List ℕ)
    (hlenv : umidv.length = mmidv.length) (hmv : ∀ j ∈ mmidv, 1 ≤ j ∧ j ≤ qv)
    (hgapv : Separated (2 * ((qv + av : ℕ) : K) * tol) (clampedU x0v xlv umidv))
    (qw aw : ℕ) (hqw : 1 ≤ qw) (x0w xlw : K) (umidw : List K) (mmidw : List ℕ)
    (hlenw : umidw.length = mmidw.length) (hmw : ∀ j ∈ mmidw, 1 ≤ j ∧ j ≤ qw)
    (hgapw : Separated (2 * ((qw + aw : ℕ) : K) * tol) (clampedU x0w xlw umidw))
    (hnz : au ≠ 0 ∨ av ≠ 0 ∨ aw ≠ 0)
    (o : Obj K) (hw : C06.WF o 3)
    (hb0 : o.basis 0 = openBasis (qu+1) (clampedU x0u xlu umidu) (clampedM (qu+1) mmidu))
    (hb1 : o.basis 1 = openBasis (qv+1) (clampedU x0v xlv umidv) (clampedM (qv+1) mmidv))
    (hb2 : o.basis 2 = openBasis (qw+1) (clampedU x0w xlw umidw) (clampedM (qw+1) mmidw)) :
    ∃ o' o'', o.raiseOrder tol [(au : Int), (av : Int), (aw : Int)] none = .ok (.self, o')
      ∧ o'.lowerOrder tol [(au : Int), (av : Int), (aw : Int)] = .ok (.new, o'') ∧ o''.bases = o.bases
      ∧ o''.cps.shape = o.cps.shape ∧ o''.rational = o.rational
      ∧ ∀ a0, a0 < (o.basis 0).numFunctions → ∀ a1, a1 < (o.basis 1).numFunctions →
          ∀ j, j < (o.basis 2).numFunctions → ∀ i, i < o.ncomp →
          o''.cps.entry4 (o.basis 1).numFunctions (o.basis 2).numFunctions o.ncomp a0 a1 j i
            = o.cps.entry4 (o.basis 1).numFunctions (o.basis 2).numFunctions o.ncomp a0 a1 j i := by
  obtain ⟨o', himp, hpub, _⟩ := C05_geometry_clamped_volume tol htol qu au (by omega) x0u xlu umidu mmidu hlenu hmu hgapu
    qv av (by omega) x0v xlv umidv mmidv hlenv hmv hgapv qw aw (by omega) x0w xlw umidw mmidw hlenw hmw hgapw
    hnz o hw hb0 hb1 hb2
  obtain ⟨Eu, _, hdu⟩ := dirOK_clamped tol htol qu au (by omega) x0u xlu umidu mmidu hlenu hmu hgapu
  obtain ⟨Ev, _, hdv⟩ := dirOK_clamped tol htol qv av (by omega) x0v xlv umidv mmidv hlenv hmv hgapv
  obtain ⟨Ew, _, hdw⟩ := dirOK_clamped tol htol qw aw (by omega) x0w xlw umidw mmidw hlenw hmw hgapw
  have mono : ∀ (q a : ℕ), 1 ≤ q → tol ≤ 2 * ((q + a : ℕ) : K) * tol ∧ 2 * ((q + 0 : ℕ) : K) * tol ≤ 2 * ((q + a : ℕ) : K) * tol := by
    intro q a hq
    have h1 : (1 : K) ≤ ((q + a : ℕ) : K) := by exact_mod_cast (by omega : 1 ≤ q + a)
    have h2 : ((q + 0 : ℕ) : K) ≤ ((q + a : ℕ) : K) := by exact_mod_cast (by omega : q + 0 ≤ q + a)
    constructor <;> nlinarith
  have hlu := lowerOrder_raised tol htol (qu+1) au (by omega) x0u xlu umidu mmidu hlenu
    (separated_mono (mono qu au hqu).1 hgapu) (fun j hj => (hmu j hj).1)
  have hlv := lowerOrder_raised tol htol (qv+1) av (by omega) x0v xlv umidv mmidv hlenv
    (separated_mono (mono qv av hqv).1 hgapv) (fun j hj => (hmv j hj).1)
  have hlw := lowerOrder_raised tol htol (qw+1) aw (by omega) x0w xlw umidw mmidw hlenw
    (separated_mono (mono qw aw hqw).1 hgapw) (fun j hj => (hmw j hj).1)
  obtain ⟨_, _, hd0u⟩ := dirOK_clamped tol htol qu 0 (by omega) x0u xlu umidu mmidu hlenu hmu
    (separated_mono (mono qu au hqu).2 hgapu)
  obtain ⟨_, _, hd0v⟩ := dirOK_clamped tol htol qv 0 (by omega) x0v xlv umidv mmidv hlenv hmv
    (separated_mono (mono qv av hqv).2 hgapv)
  obtain ⟨_, _, hd0w⟩ := dirOK_clamped tol htol qw 0 (by omega) x0w xlw umidw mmidw hlenw hmw
    (separated_mono (mono qw aw hqw).2 hgapw)
  have e0 : ∀ (q : ℕ) (x0 xl : K) (um : List K) (mm : List ℕ),
      openBasis (q+1+0) (clampedU x0 xl um) (clampedM (q+1+0) (mm.map (· + 0)))
        = openBasis (q+1) (clampedU x0 xl um) (clampedM (q+1) mm) := by
    intro q x0 xl um mm; simp
  have hsu := hd0u.hsw
  have hsv := hd0v.hsw
  have hsw := hd0w.hsw
  rw [e0] at hsu hsv hsw
  rw [← hb0] at hdu hlu hsu
  rw [← hb1] at hdv hlv hsv
  rw [← hb2] at hdw hlw hsw
  obtain ⟨o'', h1, h2, h3, h4, h5⟩ := lower_after_raise_volume o tol hw au av aw hnz _ _ _ Eu Ev Ew hdu hdv hdw
    hlu hlv hlw hsu hsv hsw o' himp
  exact ⟨o', o'', hpub, h1, h2, h3, h4, h5⟩

omit [IsStrictOrderedRing K] in
/-- **C05, API contract of `SplineObject.raise_order` / `set_order`** (any pardim).
With `rs` the normalised per-direction amounts (`*raises, direction=` handling):
all amounts `0` ⇒ the receiver itself is returned, unchanged; any negative amount ⇒ `ValueError`;
`set_order` = `raise_order` by the differences to the current orders, and `ValueError` when any
target is below the current order.  The `Curve.raise_order` override obeys the same contract
(amount `0` ⇒ the receiver, amount `< 0` ⇒ `ValueError`; clauses 5–6).  In the pinned snapshot the
override returned `None` for amount `0`; fixed upstream in 6ca09d8, the correspondence oracle
reports it again if that shape returns. -/
theorem C05_api (o : Obj K) (tol : K) :
    (∀ raises dir rs, Obj.normRaises o.pardim raises dir = .ok rs → (∀ r ∈ rs, r = 0) →
      o.raiseOrder tol raises dir = .ok (.self, o)) ∧
    (∀ raises dir rs, Obj.normRaises o.pardim raises dir = .ok rs → (∃ r ∈ rs, r < 0) →
      o.raiseOrder tol raises dir = .error .value) ∧
    (∀ isCurve (order : List Int),
      (∃ p ∈ List.zip (if order.length = 1 then List.replicate o.pardim (order.headD 0) else order)
          (o.bases.toList.map (fun b => (b.order : Int))), p.1 < p.2) →
      o.setOrder tol isCurve order = .error .value) ∧
    (∀ isCurve (order : List Int),
      (∀ p ∈ List.zip (if order.length = 1 then List.replicate o.pardim (order.headD 0) else order)
          (o.bases.toList.map (fun b => (b.order : Int))), p.2 ≤ p.1) →
      o.setOrder tol isCurve order = o.raiseOrderDispatch tol isCurve
        ((List.zip (if order.length = 1 then List.replicate o.pardim (order.headD 0) else order)
          (o.bases.toList.map (fun b => (b.order : Int)))).map (fun p => p.1 - p.2)) none) ∧
    o.curveRaiseOrder tol 0 = .ok (.self, o) ∧
    (∀ a : Int, a < 0 → o.curveRaiseOrder tol a = .error .value) := by
  refine ⟨?_, ?_, ?_, ?_, by simp [Obj.curveRaiseOrder], fun a ha => by simp [Obj.curveRaiseOrder, ha]⟩
  · intro raises dir rs hn hz
    unfold Obj.raiseOrder
    rw [hn]
    have h1 : rs.any (fun r => decide (r < 0)) = false := by
      rw [List.any_eq_false]; intro r hr; rw [hz r hr]; simp
    have h2 : rs.all (fun r => decide (r = 0)) = true := by
      rw [List.all_eq_true]; intro r hr; simp [hz r hr]
    simp [h1, h2]
  · intro raises dir rs hn ⟨r, hr, hneg⟩
    unfold Obj.raiseOrder
    rw [hn]
    have h1 : rs.any (fun r => decide (r < 0)) = true := by
      rw [List.any_eq_true]; exact ⟨r, hr, by simpa using hneg⟩
    simp [h1]
  · intro isCurve order ⟨q, hq, hlt⟩
    unfold Obj.setOrder
    have : (List.zip (if order.length = 1 then List.replicate o.pardim (order.headD 0) else order)
        (o.bases.toList.map (fun b => (b.order : Int)))).all (fun x => decide (x.1 ≥ x.2)) = false := by
      rw [List.all_eq_false]; exact ⟨q, hq, by simpa using hlt⟩
    simp only [this]
    simp
  · intro isCurve order hall
    unfold Obj.setOrder
    have : (List.zip (if order.length = 1 then List.replicate o.pardim (order.headD 0) else order)
        (o.bases.toList.map (fun b => (b.order : Int)))).all (fun x => decide (x.1 ≥ x.2)) = true := by
      rw [List.all_eq_true]; intro q hq; simpa using hall q hq
    simp only [this]
    simp

/-- **C05: the explicit branch of `SplineObject.raise_order` is dead code.**  The guard
`any(b.continuity(b.knots[0]) < b.order or b.periodic > -1 for b in self.bases)` never evaluates to
`False` when the first basis has a sorted non-empty knot vector (it is `True`, or `continuity`
raises `ValueError` for a non-open non-periodic basis), so `raise_order` never reaches the
`utils.raise_order_1D` path — the only place where the model returns its placeholder `Exception`. -/
theorem C05_explicit_branch_dead (o : Obj K) (tol : K) (htol : 0 < tol) (b : Basis K)
    (rest : List (Basis K)) (hb : o.bases.toList = b :: rest) (hmono : Monotone b.kn)
    (hsz : 0 < b.knots.size) :
    Obj.raiseGuard tol o.bases.toList ≠ .ok false := by
  rw [hb]; exact raiseGuard_ne_false tol htol b rest hmono hsz

/-! ## Non-vacuity -/

/-- The hypotheses of `C05_knots` are satisfiable (order 3, knots `0,0,0,1,1,2,2,2`, raise by 2). -/
example : ∃ b', (openBasis 3 (clampedU (0 : ℚ) 2 [1]) (clampedM 3 [2])).raiseOrder (1/100) 2 = .ok b'
    ∧ b'.order = 5 ∧ b'.knots = #[0,0,0,0,0,1,1,1,1,2,2,2,2,2]
    ∧ b'.lowerOrder (1/100) 2 = .ok (openBasis 3 (clampedU (0 : ℚ) 2 [1]) (clampedM 3 [2])) := by
  have h := C05_knots (K := ℚ) (1/100) (by norm_num) 3 2 (by norm_num) 0 2 [1] [2] rfl
    (by simp [Separated, clampedU]; norm_num) (by simp)
  exact ⟨_, h.1, rfl, by simp [openBasis, clampedU, clampedM, expand, List.replicate], h.2.2.2.2.2.2.2.2.2 (by norm_num)⟩

/-- `C05_knots_periodic` on the basis of the listed finding: order 3, continuity 0, knots
    `-1,0,0,1,2,2,3` (period `[0,0,1]`, `T = 2`), raised by 1: knots `-1,0,0,0,1,1,2,2,2,3`. -/
example : ∃ b', ({ order := 3, knots := #[-1,0,0,1,2,2,3], periodic := 0 } : Basis ℚ).raiseOrder (1/100) 1 = .ok b'
    ∧ b'.knots = #[-1,0,0,0,1,1,2,2,2,3] ∧ b'.order = 4 ∧ b'.periodic = 0
    ∧ b'.lowerOrder (1/100) 1 = .error .name := by
  have hd : PerData (1/100 : ℚ) 3 0 0 [1] 2 [1] 2 :=
    ⟨rfl, by norm_num, by simp, by simp [Separated]; norm_num, by simp, by simp, by norm_num, by norm_num,
      by norm_num⟩
  have h := C05_knots_periodic hd (by norm_num) 1
  have hb : perBasis 3 0 ((0 : ℚ) :: [1]) (2 :: [1]) 2 = { order := 3, knots := #[-1,0,0,1,2,2,3], periodic := 0 } := by
    simp [perBasis, perKnots, expand]; norm_num
  have hb' : (perBasis (3 + 1) 0 ((0 : ℚ) :: [1]) ((2 :: [1]).map (· + 1)) 2).knots = #[-1,0,0,0,1,1,2,2,2,3] := by
    simp [perBasis, perKnots, expand]; norm_num
  rw [hb] at h
  exact ⟨_, h.1, hb', rfl, rfl, h.2.2.2.2.2.2.2.2.2.2 1 (by norm_num) (by norm_num)⟩

attribute [local instance] c05AdmissibleDec in
/-- The hypotheses of `C05_geometry_periodic_partial` are jointly satisfiable: the closed quadratic
    curve on the periodic basis `-1,0,0,1,2,2,3` (order 3, `k = 0`), control points `(0,0),(2,0),(1,3)`,
    raised by 1.  `H_sw` (the certified inverse of the 5×5 periodic Greville collocation matrix), the
    Greville points `0, 1/3, 2/3, 4/3, 5/3` and their admissibility are evaluated by the kernel. -/
example : ∃ o', c05PerCurve.raiseOrder (1/100) [1] none = .ok (.self, o')
    ∧ o'.bases = #[perBasis (3 + 1) 0 ((0 : ℚ) :: [1]) ((2 :: [1]).map (· + 1)) 2] := by
  have hd : PerData (1/100 : ℚ) 3 0 0 [1] 2 [1] 2 :=
    ⟨rfl, by norm_num, by simp, by simp [Separated]; norm_num, by simp, by simp, by norm_num, by norm_num,
      by norm_num⟩
  obtain ⟨_, ⟨o', h1, h2, _⟩, _⟩ := C05_geometry_periodic_partial hd (by norm_num) 1 (by norm_num)
    c05PerCurve 2 rfl (by decide +kernel)
    #[0, 1/3, 2/3, 4/3, 5/3] (by decide +kernel) (by decide +kernel)
    #[#[1, 0, 0, 0, 0], #[-17/22, 63/22, -27/22, 3/11, -3/22], #[2/11, -51/44, 51/22, -15/22, 15/44],
      #[2/11, 15/44, -15/22, 51/22, -51/44], #[-17/22, -3/22, 3/11, -27/22, 63/22]] (by decide +kernel)
  exact ⟨o', h1, h2⟩

/-- `C05_geometry_clamped_surface` + `C05_lower_left_inverse_clamped_surface` with ALL hypotheses
    instantiated: the surface `c05Surf` (order 2 on `0,0,1,1` × order 3 on `0,0,0,1,2,2,2`, `2 × 4` net),
    `tol = 1/100`, raised by `(1, 1)`.  The spacing guards `2·(q+a)·tol = 1/25` resp. `3/50` are below the
    knot spacing `1`; well-formedness is `c05Surf_wf`. -/
example : ∃ o' o'', c05Surf.raiseOrder (1/100) [1, 1] none = .ok (.self, o')
    ∧ C06.WF o' 2 ∧ C12.SameMap 2 c05Surf o'
    ∧ o'.lowerOrder (1/100) [1, 1] = .ok (.new, o'') ∧ o''.bases = c05Surf.bases
    ∧ o''.cps.shape = c05Surf.cps.shape := by
  have hgu : Separated (2 * ((1 + 1 : ℕ) : ℚ) * (1/100)) (clampedU (0 : ℚ) 1 []) := by
    simp [Separated, clampedU]; norm_num
  have hgv : Separated (2 * ((2 + 1 : ℕ) : ℚ) * (1/100)) (clampedU (0 : ℚ) 2 [1]) := by
    simp [Separated, clampedU]; norm_num
  obtain ⟨o', _, h1, hwf, _, _, hsm, _⟩ := C05_geometry_clamped_surface (K := ℚ) (1/100) (by norm_num)
    1 1 (by norm_num) 0 1 [] [] rfl (by simp) hgu 2 1 (by norm_num) 0 2 [1] [1] rfl (by simp) hgv
    (Or.inl (by norm_num)) c05Surf c05Surf_wf rfl rfl
  obtain ⟨o2, o'', g1, g2, g3, g4, _⟩ := C05_lower_left_inverse_clamped_surface (K := ℚ) (1/100) (by norm_num)
    1 1 (by norm_num) 0 1 [] [] rfl (by simp) hgu 2 1 (by norm_num) 0 2 [1] [1] rfl (by simp) hgv
    (Or.inl (by norm_num)) c05Surf c05Surf_wf rfl rfl
  have e : o2 = o' := by
    have := g1.symm.trans h1
    injection this with this
    injection this
  subst e
  exact ⟨o2, o'', h1, hwf, hsm, g2, g3, g4⟩

/-- The model's tensor-product Greville interpolation of that run, evaluated by the kernel (the
    elevated bases are written out because `List.mergeSort` inside `Basis.raiseOrder` does not reduce in
    the kernel): the `3 × 6` elevated net of `c05Surf`; re-interpolating it on the original bases
    (`lower_order(1, 1)`) returns exactly the original `2 × 4` net. -/
example : ((c05Surf.reinterpolate (1/100) c05SurfUp.bases.toList).toOption.map (fun t => (t.shape, t.data)))
    = some (c05SurfUp.cps.shape, c05SurfUp.cps.data) := by decide +kernel

example : ((c05SurfUp.reinterpolate (1/100) c05Surf.bases.toList).toOption.map (fun t => (t.shape, t.data)))
    = some (c05Surf.cps.shape, c05Surf.cps.data) := by decide +kernel

/-- `C05_geometry_clamped_volume` + `C05_lower_left_inverse_clamped_volume` with ALL hypotheses
    instantiated: the RATIONAL volume `c05Vol` (orders 2, 2, 2; `w` with the interior knot `1`;
    `2 × 2 × 3` net of 2 homogeneous components), `tol = 1/100`, raised by `(1, 0, 1)` — one direction is
    re-interpolated with amount `0`. -/
example : ∃ o' o'', c05Vol.raiseOrder (1/100) [1, 0, 1] none = .ok (.self, o')
    ∧ C06.WF o' 3 ∧ C12.SameMap 3 c05Vol o' ∧ o'.rational = true
    ∧ o'.lowerOrder (1/100) [1, 0, 1] = .ok (.new, o'') ∧ o''.bases = c05Vol.bases
    ∧ o''.cps.shape = c05Vol.cps.shape := by
  have hg1 : Separated (2 * ((1 + 1 : ℕ) : ℚ) * (1/100)) (clampedU (0 : ℚ) 1 []) := by
    simp [Separated, clampedU]; norm_num
  have hg0 : Separated (2 * ((1 + 0 : ℕ) : ℚ) * (1/100)) (clampedU (0 : ℚ) 1 []) := by
    simp [Separated, clampedU]; norm_num
  have hgw : Separated (2 * ((1 + 1 : ℕ) : ℚ) * (1/100)) (clampedU (0 : ℚ) 2 [1]) := by
    simp [Separated, clampedU]; norm_num
  obtain ⟨o', _, h1, hwf, _, _, _, hsm, _, hrat, _⟩ := C05_geometry_clamped_volume (K := ℚ) (1/100) (by norm_num)
    1 1 (by norm_num) 0 1 [] [] rfl (by simp) hg1 1 0 (by norm_num) 0 1 [] [] rfl (by simp) hg0
    1 1 (by norm_num) 0 2 [1] [1] rfl (by simp) hgw (Or.inl (by norm_num)) c05Vol c05Vol_wf rfl rfl rfl
  obtain ⟨o2, o'', g1, g2, g3, g4, _⟩ := C05_lower_left_inverse_clamped_volume (K := ℚ) (1/100) (by norm_num)
    1 1 (by norm_num) 0 1 [] [] rfl (by simp) hg1 1 0 (by norm_num) 0 1 [] [] rfl (by simp) hg0
    1 1 (by norm_num) 0 2 [1] [1] rfl (by simp) hgw (Or.inl (by norm_num)) c05Vol c05Vol_wf rfl rfl rfl
  have e : o2 = o' := by
    have := g1.symm.trans h1
    injection this with this
    injection this
  subst e
  exact ⟨o2, o'', h1, hwf, hsm, hrat, g2, g3, g4⟩

/-- The model's three-directional Greville interpolation of that run, evaluated by the kernel: the
    elevated net has shape `3 × 2 × 5 × 2`, and re-interpolating it on the original bases returns exactly
    the original net. -/
example : ((c05Vol.reinterpolate (1/100) c05VolUpBases).toOption.bind
      (fun t => ((c05VolUp t).reinterpolate (1/100) c05Vol.bases.toList).toOption.map
        (fun t' => (t.shape, t'.shape, t'.data))))
    = some ([3, 2, 5, 2], c05Vol.cps.shape, c05Vol.cps.data) := by decide +kernel

attribute [local instance] c05AdmissibleDec in
/-- `C05_periodic_direction_partial` + `C05_geometry_periodic_surface_partial` with ALL hypotheses
    instantiated: the tube `c05Tube` (periodic order 3, `k = 0`, knots `-1,0,0,1,2,2,3` in `u`; order 2 on
    `0,0,1,1` in `v`; `3 × 2` net), raised by `(1, 1)`.  `H_sw` of the periodic direction (the certified
    inverse of the 5×5 folded Greville collocation matrix), its Greville points and their admissibility
    are evaluated by the kernel; the clamped direction needs no hypothesis. -/
example : ∃ o', c05Tube.raiseOrder (1/100) [1, 1] none = .ok (.self, o') ∧ C06.WF o' 2
    ∧ o'.basis 0 = perBasis (3 + 1) 0 ((0 : ℚ) :: [1]) ((2 :: [1]).map (· + 1)) 2 := by
  obtain ⟨Eu, _, hdu⟩ := C05_periodic_direction_partial c05PerData (by norm_num) 1
    #[0, 1/3, 2/3, 4/3, 5/3] (by decide +kernel) (by decide +kernel)
    #[#[1, 0, 0, 0, 0], #[-17/22, 63/22, -27/22, 3/11, -3/22], #[2/11, -51/44, 51/22, -15/22, 15/44],
      #[2/11, 15/44, -15/22, 51/22, -51/44], #[-17/22, -3/22, 3/11, -27/22, 63/22]] (by decide +kernel)
  obtain ⟨Ev, _, hdv⟩ := dirOK_clamped (K := ℚ) (1/100) (by norm_num) 1 1 (by norm_num) 0 1 [] [] rfl (by simp)
    (by simp [Separated, clampedU]; norm_num)
  obtain ⟨o', h1, _, hwf, hb0, _⟩ := C05_geometry_periodic_surface_partial c05Tube (1/100) c05Tube_wf 1 1 _ _ Eu Ev
    hdu hdv.weak (Or.inl (by norm_num))
    (raiseGuard_periodic' (1/100) _ (by decide) _)
  exact ⟨o', h1, hwf, hb0⟩

/-- The model's Greville interpolation of that run, evaluated by the kernel: the `5 × 3` elevated
    net of the tube. -/
example : ((c05Tube.reinterpolate (1/100) [perBasis 4 0 ((0 : ℚ) :: [1]) (3 :: [2]) 2,
      openBasis 3 (clampedU 0 1 []) (clampedM 3 [])]).toOption.map (fun t => (t.shape, t.data)))
    = some ([5, 3, 2], #[0, 0, 0, 1/2, 0, 1, 4/3, 0, 4/3, 7/6, 4/3, 7/3, 11/6, 1/2, 11/6, 23/12, 11/6, 10/3, 7/6,
      5/2, 7/6, 43/12, 7/6, 14/3, 2/3, 2, 2/3, 17/6, 2/3, 11/3]) := by decide +kernel

/-- Closed quadratic curve on `BSplineBasis(3, [-2,-1,0,1,2,3,4,5], periodic=1)` (`s0 = 0`, `h = 1`,
    `m = 2`: three control points). -/
def c05UniCurve : Obj ℚ :=
  { bases := #[perBasis 3 1 ((0 : ℚ) :: uwr 0 1 2) (1 :: List.replicate 2 1) (1 * (((2 : ℕ) : ℚ) + 1))],
    cps := ⟨[3, 2], #[0, 0, 2, 0, 1, 3]⟩, rational := false }

/-- `C05_geometry_periodic_uniform_cubic` with all hypotheses instantiated on `c05UniCurve`,
    `tol = 1/100 ≤ 1/3`; nothing is left to the kernel but the shape of the net. -/
example : ∃ o', c05UniCurve.raiseOrder (1/100) [((1 : ℕ) : Int)] none = .ok (.self, o')
    ∧ o'.bases = #[perBasis (3 + 1) 1 ((0 : ℚ) :: uwr 0 1 2) ((1 :: List.replicate 2 1).map (· + 1))
        (1 * (((2 : ℕ) : ℚ) + 1))] := by
  obtain ⟨_, ⟨o', h1, h2, _⟩, _⟩ := C05_geometry_periodic_uniform_cubic (K := ℚ) (1/100) 0 1 (by norm_num)
    (by norm_num) 2 le_rfl c05UniCurve 2 rfl (by decide +kernel)
  exact ⟨o', h1, h2⟩

attribute [local instance] c05BasisDecEq

/-- `raise_order(1)` of order 2 on `[0,0,1,1]` is order 3 on `[0,0,0,1,1,1]` (instance of `C05_knots`). -/
example : c05B2.raiseOrder (1/100) 1 = .ok c05B3 :=
  (C05_knots (K := ℚ) (1/100) (by norm_num) 2 1 (by norm_num) 0 1 [] [] rfl
    (by simp [Separated, clampedU]; norm_num) (by simp)).1

/-- The hypotheses of `C05_geometry_partial` are jointly satisfiable for a genuine elevation
    (order 2 → 3; the zero map, for which `H_incl` is immediate).  `H_sw` (the certified inverse of
    the 3×3 Greville collocation matrix) and the Greville points are evaluated by the kernel. -/
example : ∃ o', (c05Zero 2 c05B2).raiseOrderImplicit (1/100) [1] = .ok o' ∧ o'.bases = #[c05B3] ∧
    ∀ i, i < 3 → ∀ c, c < 2 → o'.cps.get (i * 2 + c) = 0 := by
  have hr : c05B2.raiseOrder (1/100) 1 = .ok c05B3 :=
    (C05_knots (K := ℚ) (1/100) (by norm_num) 2 1 (by norm_num) 0 1 [] [] rfl
      (by simp [Separated, clampedU]; norm_num) (by simp)).1
  have h := (C05_geometry_partial (c05Zero 2 c05B2) (1/100) c05B2 c05B3 1 #[0, 1/2, 1] 2 2 rfl rfl
    hr (by decide +kernel) (fun _ _ => 0)
    (by intro t c _; simp [c05Zero_get])).1 #[#[1,0,0],#[-1/2,2,-1/2],#[0,0,1]] (by decide +kernel)
  obtain ⟨o', h1, h2, _, _, h5, _⟩ := h
  exact ⟨o', h1, h2, h5⟩

/-- … and those of `C05_lower_left_inverse_partial` (order 3 → 2; `lower_order`, Greville points and
    `H_sw` evaluated by the kernel). -/
example : ∃ o'', (c05Zero 3 c05B3).lowerOrder (1/100) [1] = .ok (.new, o'') ∧ o''.bases = #[c05B2] := by
  have h := C05_lower_left_inverse_partial (c05Zero 2 c05B2) (c05Zero 3 c05B3) (1/100) c05B2 c05B3 1
    (by norm_num) #[0, 1] 2 3 2 #[#[1,0],#[0,1]] rfl rfl (by decide +kernel) (by decide +kernel)
    (by decide +kernel) (by decide +kernel) (by intro t c _; simp [c05Zero_get])
  obtain ⟨o'', h1, h2, _⟩ := h
  exact ⟨o'', h1, h2⟩

/-- `C05_geometry_clamped` applies to a non-trivial curve (the segment `(0,0) → (2,4)`, order 2 → 3):
    its only analytic hypothesis `H_sw` is evaluated by the kernel for the 3×3 collocation matrix. -/
example : ∃ o', ({ bases := #[c05B2], cps := { shape := [2, 2], data := #[0,0,2,4] }, rational := false } :
      Obj ℚ).raiseOrderImplicit (1/100) [1] = .ok o' ∧
    ElevatedFrom (1/100) c05B2 c05B3 2
      { bases := #[c05B2], cps := { shape := [2, 2], data := #[0,0,2,4] }, rational := false } o' := by
  obtain ⟨_, pts, hg, h⟩ := C05_geometry_clamped (K := ℚ) (1/100) (by norm_num) 1 1 (by norm_num) 0 1 [] [] rfl
    (by simp [Separated, clampedU]; norm_num) (by simp)
    { bases := #[c05B2], cps := { shape := [2, 2], data := #[0,0,2,4] }, rational := false } 2 rfl
    (by decide +kernel)
  have hpts : pts = #[0, 1/2, 1] := by
    have h2 : c05B3.greville = .ok #[0, 1/2, 1] := by decide +kernel
    have : Except.ok pts = (Except.ok #[0, 1/2, 1] : PyM (Array ℚ)) := hg.symm.trans h2
    injection this
  subst hpts
  exact (h #[#[1,0,0],#[-1/2,2,-1/2],#[0,0,1]] (by decide +kernel)).1

/-- `C05_geometry_clamped_full` + `C05_lower_left_inverse_clamped` on a non-trivial curve (the
    segment `(0,0) → (2,4)`, order 2 → 3 → 2) with NO analytic hypothesis: all knot hypotheses are
    discharged by `simp`/`norm_num`. -/
example : ∃ o' o'', ({ bases := #[c05B2], cps := { shape := [2, 2], data := #[0,0,2,4] }, rational := false } :
      Obj ℚ).raiseOrder (1/100) [1] none = .ok (.self, o') ∧
    o'.lowerOrder (1/100) [1] = .ok (.new, o'') ∧ o''.bases = #[c05B2] ∧
    ∀ j, j < 2 → ∀ c, c < 2 → o''.cps.get (j * 2 + c) = (#[0,0,2,4] : Array ℚ).getD (j * 2 + c) 0 := by
  have hgap : Separated (2 * ((1 + 1 : ℕ) : ℚ) * (1/100)) (clampedU (0 : ℚ) 1 []) := by
    simp [Separated, clampedU]; norm_num
  obtain ⟨_, ⟨o', h1, hel⟩, _⟩ := C05_geometry_clamped_full (K := ℚ) (1/100) (by norm_num) 1 1 (by norm_num)
    0 1 [] [] rfl (by simp) (Or.inl hgap)
    { bases := #[c05B2], cps := { shape := [2, 2], data := #[0,0,2,4] }, rational := false } 2 rfl
    (by decide +kernel)
  obtain ⟨o'', h2, h3, _, _, h5⟩ := C05_lower_left_inverse_clamped (K := ℚ) (1/100) (by norm_num) 1 1
    (by norm_num) (by norm_num) 0 1 [] [] rfl (by simp) hgap _ o' 2 hel
  refine ⟨o', o'', h1, h2, h3, fun j hj c hc => ?_⟩
  have hn : (openBasis (1+1) (clampedU (0:ℚ) 1 []) (clampedM (1+1) [])).numFunctions = 2 := by decide +kernel
  rw [h5 j (by rw [hn]; exact hj) c hc]
  rfl

/-- A concrete run of the model's Greville interpolation, evaluated by the kernel: the segment with
    control points `(0,0), (2,4)` re-interpolated on the order-3 basis gives the classical elevated
    net `(0,0), (1,2), (2,4)`. -/
example : ((({ bases := #[c05B2], cps := { shape := [2, 2], data := #[0,0,2,4] }, rational := false } :
      Obj ℚ).reinterpolate (1/100) [c05B3]).toOption.map (fun t => (t.shape, t.data)))
    = some ([3, 2], #[0,0,1,2,2,4]) := by decide +kernel

/-- `Curve.raise_order(0)` and `Curve.set_order(current order)` return the receiver (the unfixed
    shape of the code returned `None` here: `Ret.none`). -/
example (o : Obj ℚ) (tol : ℚ) :
    o.curveRaiseOrder tol 0 = .ok (.self, o) ∧ o.raiseOrderDispatch tol true [0] none = .ok (.self, o) := by
  simp [Obj.curveRaiseOrder, Obj.raiseOrderDispatch]

/-- `BSplineBasis.lower_order` on a periodic basis: `NameError` (whenever the argument checks and the
    `continuity` calls pass). -/
example (b : Basis ℚ) (tol : ℚ) (a : Int) (ks : List ℚ) (h0 : 0 ≤ a) (h2 : 2 ≤ (b.order : Int) - a)
    (hper : b.periodic > -1)
    (hk : Basis.lowerKnots b tol (b.order - a.toNat) (b.knotSpans tol true).toList = .ok ks) :
    b.lowerOrder tol a = .error .name := by
  unfold Basis.lowerOrder
  have h1 : ¬ a < 0 := by omega
  have h3 : ¬ ((b.order : Int) - a < 2) := by omega
  simp [h1, h3, hk, hper]
