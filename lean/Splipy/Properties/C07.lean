import Splipy.Lemmas.C07Piece
import Splipy.Lemmas.C07Append
import Splipy.Lemmas.C07Periodic
import Splipy.Lemmas.C07Subdivide
import Splipy.Lemmas.C07SplitPer
import Splipy.Lemmas.C07Mult
import Splipy.Lemmas.C07OpenEval
import Splipy.Lemmas.C07SplitAppend
import Splipy.Lemmas.C10Ctor
import Mathlib.Data.Rat.Floor
import Mathlib.Tactic.NormNum
import Mathlib.Tactic.IntervalCases

/-!
# Property C07: splitting yields exact restrictions tiling the object; appending re-joins them

Two layers.

* **Model level** — statements about the functions the driver runs (`Model/Split.lean`):
  `C07_split_open_obj` (`Obj.split`, non-periodic direction, any number of split values, curves /
  surfaces / volumes: number of pieces, well-formedness, domains, values and all derivatives),
  `C07_piece_evaluate_curve` (the pieces under `Obj.evaluate`), `C07_append_obj`
  (`Obj.appendCurve` is the concatenation), `C07_split_append_curve` (split, then append, is the
  original map), `C07_split_periodic_partial` (`Obj.split` of a periodic direction at one value).
  Multiplicities, insertion legality, slice indices and constructor acceptance are all derived from
  the model's loops there, not assumed.
* **Specification level** — statements about knot sequences and coefficient functions, used by the
  model-level proofs and kept as theorems of their own: `C07_split_open`, `C07_split_tiles`,
  `C07_split_periodic_pieces`, `C07_append_partial`, and the index arithmetic `C07_subdivide`.
  In these, `b` is the basis of the clone after the insertion loop of `split`, `c` one fibre of its
  control points; `b.piece lo hi` is the basis `BSplineBasis(p, b.knots[lo : hi+p])` the code builds
  for the control points `lo .. hi-1` (`Basis.mk?` is the model of the constructor); the spline
  before the insertions is `D0` and the insertion loop a sequence of Boehm insertions
  (`SplineData.Legal`, lemma L6).

An object is split fibre-wise: the same knot slice and the same slice of the control net along the
split direction for every fibre (`Tensor.sliceAxis`).  Every theorem has a concrete instance of its
hypotheses in the section "Non-vacuity" (kernel-evaluated where a model function is involved).
-/

open Splipy

variable {K : Type} [Field K] [LinearOrder K] [IsStrictOrderedRing K]

/-- **Split, non-periodic direction, one piece.**  Let the refined knots/control points `(b, c)`
come from the original spline `D0` by legal knot insertions.  For any index range `lo + p ≤ hi`
with a non-empty parameter interval the constructor accepts the knot slice, the piece is a valid
non-periodic basis with `hi - lo` functions and domain `[kn (lo+p-1), kn hi]`, and on this domain
(right-continuous version on `[·,·)`, left-continuous on `(·,·]`: the inward side at both ends) the
piece with the control points `c lo … c (hi-1)` has the value and all derivatives of the ORIGINAL
spline.  (Specification level: `hlegal`, `hins` and the index conditions are hypotheses here; for the
model's `Obj.split` they are proved in `C07_split_open_obj`.) -/
theorem C07_split_open {b : Basis K} (hv : b.Valid) (c : ℕ → K)
    (D0 : SplineData K) (hD0 : Monotone D0.τ) (steps : List (ℕ × K))
    (hlegal : SplineData.Legal (b.order - 1) D0 steps)
    (hins : SplineData.insertAll (b.order - 1) D0 steps = ⟨b.kn, b.nAll, c⟩)
    (lo hi : ℕ) (h1 : lo + b.order ≤ hi) (h2 : hi ≤ b.nAll)
    (hlt : b.kn (lo + b.order - 1) < b.kn hi) (tol : K) (htol : 0 ≤ tol) :
    Basis.mk? b.order (b.knots.extract lo (hi + b.order)) (-1) tol = .ok (b.piece lo hi) ∧
    (b.piece lo hi).Valid ∧ (b.piece lo hi).periodic = -1 ∧
    (b.piece lo hi).numFunctions = hi - lo ∧
    (b.piece lo hi).start = b.kn (lo + b.order - 1) ∧ (b.piece lo hi).stop = b.kn hi ∧
    ∀ (s : Side) (d : ℕ) (t : K), s.mem (b.piece lo hi).start (b.piece lo hi).stop t →
      splineDeriv s (b.piece lo hi).kn (b.order - 1) (hi - lo) (fun j => c (lo + j)) d t
        = splineDeriv s D0.τ (b.order - 1) D0.n D0.c d t := by
  have hsz : hi + b.order ≤ b.knots.size := by have := hv.nAll_add; omega
  have hst := b.piece_start lo hi hv.order_pos hsz (by omega)
  have hsp := b.piece_stop lo hi hv.order_pos hsz (by omega)
  refine ⟨Basis.mk?_piece hv lo hi tol htol h1 hsz, Basis.piece_valid hv lo hi h1 hsz hlt, rfl,
    b.piece_numFunctions lo hi hsz (by omega), hst, hsp, ?_⟩
  intro s d t ht
  rw [hst, hsp] at ht
  rw [Basis.piece_splineDeriv hv lo hi b.nAll c (by omega) hsz h2 s d t ht]
  have := splineDeriv_insertAll s (b.order - 1) D0 steps hD0 hlegal d t
  rw [hins] at this
  exact this

/-- **The pieces tile the domain.**  The first piece starts at `start`, the last one ends at `end`,
and two consecutive pieces `[lo, mid)`, `[mid, hi)` share the end point `kn mid` as soon as the
split value has multiplicity `p` there (`kn mid = kn (mid+p-1)`: what the insertion of
`continuity + 1` copies establishes). -/
theorem C07_split_tiles {b : Basis K} (hv : b.Valid) (lo mid hi : ℕ)
    (h1 : lo ≤ mid) (h2 : mid ≤ hi) (h3 : hi ≤ b.nAll)
    (hmult : b.kn mid = b.kn (mid + b.order - 1)) :
    (b.piece lo mid).stop = (b.piece mid hi).start ∧
    (b.piece 0 mid).start = b.start ∧ (b.piece mid b.nAll).stop = b.stop := by
  have hsz : hi + b.order ≤ b.knots.size := by have := hv.nAll_add; omega
  have hp := hv.order_pos
  refine ⟨?_, ?_, ?_⟩
  · rw [b.piece_stop lo mid hp (by omega) h1, b.piece_start mid hi hp hsz h2, hmult]
  · rw [b.piece_start 0 mid hp (by omega) (Nat.zero_le _), Nat.zero_add]; rfl
  · rw [b.piece_stop mid b.nAll hp (by have := hv.nAll_add; omega) (by omega)]; rfl

/-- **Split, non-periodic direction — the model's `Obj.split`** (the function the driver runs;
curves, surfaces, volumes).  `o` well formed, `dir` a non-periodic direction, `tol > 0`, the split
values `ks` strictly increasing, strictly inside the domain and exact for the tolerance
(`SplitOK`: no knot other than copies of the value lies within `tol` of it).  Then
`o.split tol ks dir = .ok (.many ps)` with `ps.length = ks.length + 1`, and the pieces correspond
one-to-one (`List.Forall₂`) to the consecutive sub-intervals
`[start, k₁], [k₁, k₂], …, [k_m, end]` (`ivalsAll`): each piece `pc` (`PieceOK`)
* is well formed, has the same number of bases, the same bases in the other directions, the same
  `rational` flag, and along `dir` a non-periodic basis of the same order with domain exactly its
  sub-interval `[lv, hv]` — the domains tile the original domain;
* evaluates exactly to the original: every control-net fibre of `pc` along `dir` is, for BOTH
  one-sided versions, ALL derivative orders and every `t` of `[lv, hv]`, the spline of the
  corresponding fibre of `o`.
Everything is derived from the model's own loops (`Lemmas/C07OpenInsert.lean`: insertion loop —
legality, geometry via `C04.insertKnots_fibres`, multiplicity `≥ p` of every split value from
`continuity` and the permutation of the knots; `Lemmas/C07OpenSplit.lean`: slicing loop —
`bisect_left` indices, constructor acceptance, `last_cp_i = last_knot_i`). -/
theorem C07_split_open_obj [FloorRing K] {o : Obj K} (h : o.WellFormed) (dir : ℕ)
    (hd : dir < o.bases.size) (hper : (o.basis dir).periodic = -1) {tol : K} (htol : 0 < tol)
    (ks : List K) (hks : SplitOK (o.basis dir) tol ks) (hsorted : ks.Pairwise (· < ·)) :
    ∃ ps, o.split tol ks dir = .ok (.many ps) ∧ ps.length = ks.length + 1 ∧
      List.Forall₂ (fun pc iv => PieceOK o dir pc iv.1 iv.2) ps
        (ivalsAll (o.basis dir).start ks (o.basis dir).stop) := by
  obtain ⟨ps, h1, h2⟩ := split_open_obj h dir hd hper htol ks hks hsorted
  exact ⟨ps, h1, by rw [h2.length_eq, ivalsAll_length], h2⟩

/-- **Pieces of a curve and the real evaluator.**  A piece `pc` of a curve `o` on `[lv, hv]`
(`PieceOK`, as delivered by `C07_split_open_obj`) evaluates with `Obj.evaluate` — the model of
`SplineObject.evaluate` — to the same tensor as `o` at all admissible parameters of `[lv, hv)`, and
at `hv` itself when that is the end of the whole domain (at an inner right end the piece returns its
left limit, the original its right limit). -/
theorem C07_piece_evaluate_curve [FloorRing K] {o pc : Obj K} {b1 : Basis K} {lv hv : K}
    (hb : o.bases = #[b1]) (hv1 : b1.Valid) (hper1 : b1.periodic = -1) {nc : ℕ}
    (hs : o.cps.shape = [b1.numFunctions, nc]) (hnc : o.rational = true → 1 ≤ nc)
    (hP : PieceOK o 0 pc lv hv) (hhv : hv ≤ b1.stop) {tol : K} (htol : 0 < tol) {us : List K}
    (hus : ∀ u ∈ us, b1.Admissible tol u) (hus' : ∀ u ∈ us, (pc.basis 0).Admissible tol u)
    (hin : ∀ u ∈ us, lv ≤ u ∧ (u < hv ∨ (u = hv ∧ hv = b1.stop)))
    (hneA1 : b1.periodic < 0 → us ≠ [] := by (first | assumption | (simp; done) | skip))
    (hneA2 : (pc.basis 0).periodic < 0 → us ≠ [] := by (first | assumption | (simp; done) | skip)) :
    pc.evaluate tol [us] true = o.evaluate tol [us] true :=
  hP.evaluate_curve hb hv1 hper1 hs hnc hhv htol hus hus' hin

/-- **Split, periodic direction — the model's `Obj.split` at one value** (curves, surfaces,
volumes; fibre-wise).  `dir` is ANY valid periodic direction (continuity `k`, `n ≥ 1` functions, order
`p`; no lower bound `n ≥ p + k`: below it `insert_knot` refines through the cover of the basis,
`C04_periodic`), the control net has `n` rows along `dir`, and the split value lies in the base
period, `start ≤ x0 < end`.  Then `split(x0, dir)` returns a SINGLE OBJECT `op` (not a list) whose
basis along `dir` is a valid non-periodic basis of the same order on `[x0, x0 + T]` — ONE FULL PERIOD
STARTING AT THE SPLIT POINT — the other bases and `rational` are untouched, and every control-net
fibre of `op` evaluates, at every `t` of `[x0, x0+T]` (inward sides at the ends), to the wrapped-image
sum `wsum` of the original periodic object: at `t` before the seam `end`, at `t - T` from the seam on.
Proof: the insertion loop is a `PerRefines` sequence (`C04.insertKnots_fibres_periodic_all`),
`Basis.roll` / `Tensor.rollAxisNeg` produce the shifted periodic sequences `ext (μ+·)`, `(·+μ) % n`
(`Lemmas/C07Roll.lean`), and `splineVal_open_periodic` cuts one period out of the periodic family.

The multiplicity `≥ p` of the split value after the insertion loop (needed for the cut) is PROVED
(`Lemmas/C07Mult.lean`: every periodic insertion raises `bisect_right - bisect_left` of the inserted
value by one — from the description of the new knot array around the insertion index,
`Lemmas/C07PerWindow.lean`, valid for the direct algorithm and for the cover branch alike;
`continuity` reports `p - mult - 1` when the tolerance comparisons are exact).

`_partial`: split values of the base period only (outside it — `x0 = end` included — the pinned code
uses the un-wrapped value in `bisect_left`: known finding), and `hexR`/`hexL`: no knot other than
copies of `x0` lies within the tolerance of `x0` (the tolerance comparison of `continuity` is exact).
Later split values: the result is an open object, see `C07_split_periodic_pieces` and
`C07_split_open_obj`. -/
theorem C07_split_periodic_partial [FloorRing K] (o : Obj K) (dir : ℕ) (hdir : dir < o.bases.size)
    (hax : dir < o.cps.shape.length) (hv : (o.basis dir).Valid) (k : ℕ)
    (hk : (o.basis dir).periodic = (k : Int))
    (hshape : o.cps.shape.getD dir 0 = (o.basis dir).numFunctions) {tol x0 : K} (htol : 0 < tol)
    (hx : (o.basis dir).start ≤ x0 ∧ x0 < (o.basis dir).stop)
    (hexR : ∀ i, i < (o.basis dir).knots.size →
      (o.basis dir).kn i ≤ x0 ∨ x0 + tol ≤ (o.basis dir).kn i)
    (hexL : ∀ i, i < (o.basis dir).knots.size →
      (o.basis dir).kn i < x0 - tol ∨ x0 ≤ (o.basis dir).kn i) :
    ∃ op m, o.split tol [x0] dir = .ok (.single op) ∧
      (op.basis dir).Valid ∧ (op.basis dir).periodic = -1 ∧
      (op.basis dir).order = (o.basis dir).order ∧
      (op.basis dir).numFunctions = (o.basis dir).numFunctions + m ∧
      (op.basis dir).start = x0 ∧
      (op.basis dir).stop = x0 + ((o.basis dir).stop - (o.basis dir).start) ∧
      (∀ d, d ≠ dir → op.basis d = o.basis d) ∧ op.rational = o.rational ∧
      op.cps.shape = o.cps.shape.set dir ((o.basis dir).numFunctions + m) ∧
      ∀ a i, a < C04.outerN o dir → i < C04.innerN o dir → ∀ (s : Side) (t : K),
        s.mem x0 (x0 + ((o.basis dir).stop - (o.basis dir).start)) t →
        (s.before t (o.basis dir).stop →
          splineVal s (op.basis dir).kn ((o.basis dir).order - 1) ((o.basis dir).numFunctions + m)
              (C04.fibre op dir a i) t
            = C04.wsum s (o.basis dir).kn ((o.basis dir).order - 1) (o.basis dir).nAll
                (o.basis dir).numFunctions (C04.fibre o dir a i) 0 t) ∧
        (s.after (o.basis dir).stop t →
          splineVal s (op.basis dir).kn ((o.basis dir).order - 1) ((o.basis dir).numFunctions + m)
              (C04.fibre op dir a i) t
            = C04.wsum s (o.basis dir).kn ((o.basis dir).order - 1) (o.basis dir).nAll
                (o.basis dir).numFunctions (C04.fibre o dir a i) 0
                (t - ((o.basis dir).stop - (o.basis dir).start))) :=
  split_periodic_single_all o dir hdir hax hv k hk hshape tol x0 hx
    (hMult_of_exact_all o dir hdir hv k hk hshape htol hx hexR hexL)

/-- **Later split values of a periodic direction.**  The object `op` opened at the first split
value is an ordinary open object; the remaining values are split by the non-periodic branch, i.e.
`C07_split_open` applies to the refinement `(b, c)` of any fibre `(bo, n', co)` of `op`: every piece
is an exact restriction of the opened curve, which by `C07_split_periodic_partial` is the periodic
map on `[x0, x0+T]`.  Stated for values (`d = 0`). -/
theorem C07_split_periodic_pieces {b : Basis K} (hv : b.Valid) (c : ℕ → K)
    (τo : ℕ → K) (no : ℕ) (co : ℕ → K) (hτo : Monotone τo) (steps : List (ℕ × K))
    (hlegal : SplineData.Legal (b.order - 1) ⟨τo, no, co⟩ steps)
    (hins : SplineData.insertAll (b.order - 1) ⟨τo, no, co⟩ steps = ⟨b.kn, b.nAll, c⟩)
    (per : Side → K → K)
    (hopen : ∀ s t, s.mem (b.kn (b.order - 1)) (b.kn b.nAll) t → splineVal s τo (b.order - 1) no co t = per s t)
    (lo hi : ℕ) (h1 : lo + b.order ≤ hi) (h2 : hi ≤ b.nAll)
    (hlt : b.kn (lo + b.order - 1) < b.kn hi) (s : Side) (t : K)
    (ht : s.mem (b.piece lo hi).start (b.piece lo hi).stop t) :
    splineVal s (b.piece lo hi).kn (b.order - 1) (hi - lo) (fun j => c (lo + j)) t = per s t := by
  obtain ⟨_, _, _, _, hst, hsp, heval⟩ :=
    C07_split_open hv c ⟨τo, no, co⟩ hτo steps hlegal hins lo hi h1 h2 hlt (0 : K) (le_refl _)
  have := heval s 0 t ht
  have e1 : ∀ (τ : ℕ → K) (n : ℕ) (cc : ℕ → K), splineDeriv s τ (b.order - 1) n cc 0 t
      = splineVal s τ (b.order - 1) n cc t := by
    intro τ n cc
    unfold splineDeriv splineVal
    exact Finset.sum_congr rfl (fun i _ => by rw [dB_zero])
  rw [e1, e1] at this
  rw [this]
  apply hopen
  rw [hst, hsp] at ht
  rw [Side.mem_iff] at ht ⊢
  have hp := hv.order_pos
  exact ⟨Side.after_of_le s (hv.kn_mono (by omega)) ht.1, Side.before_of_le s (hv.kn_mono h2) ht.2⟩

/-- **Append** of two clamped curves of the same order `p = q+1 ≥ 2` whose end points coincide
(`c1 (n1-1) = c2 0`): the merged knot vector `old[:-1] ++ (add - add[0] + old[-1])[p:]` with the
control points `cps1 ++ cps2[1:]` is the first curve before the joint and the second curve
(shifted by `δ = old[-1] - add[0]`) from the joint on — so appending consecutive pieces of a split
reproduces the map.

`_partial`: equal orders only (differing orders go through `raise_order`, property C05), order
`≥ 2` (for order 1 the code drops a control point that is not shared: the pinned code does not
reproduce piecewise constants), clamped ends at the joint.  Specification level (knot sequences and
coefficient functions); `C07_append_obj` proves that the model's `Obj.appendCurve` builds exactly
this merged knot vector and coefficient list. -/
theorem C07_append_partial (τ1 τ2 : ℕ → K) (h1 : Monotone τ1) (h2 : Monotone τ2) (q n1 n2 : ℕ)
    (hq : 1 ≤ q) (hn1 : 1 ≤ n1) (hn2 : 1 ≤ n2)
    (hc1 : τ1 n1 = τ1 (n1 + q)) (hc2 : τ2 0 = τ2 q) (c1 c2 : ℕ → K) (hc : c1 (n1 - 1) = c2 0)
    (s : Side) (t : K) :
    (s.before t (τ1 n1) →
      splineVal s (appendKnots τ1 τ2 q n1) q (n1 + n2 - 1) (appendCoef c1 c2 n1) t
        = splineVal s τ1 q n1 c1 t) ∧
    (s.after (τ1 n1) t →
      splineVal s (appendKnots τ1 τ2 q n1) q (n1 + n2 - 1) (appendCoef c1 c2 n1) t
        = splineVal s τ2 q n2 c2 (t - (τ1 (n1 + q) - τ2 0))) := by
  constructor
  · intro hb
    exact splineVal_append_left τ1 τ2 h1 h2 q n1 hq hn1 hc1 hc2 n2 hn2 c1 c2 s t hb
  · intro ha
    rw [hc1] at ha
    exact splineVal_append_right τ1 τ2 h1 h2 q n1 hq hn1 hc1 hc2 n2 hn2 c1 c2 hc s t ha

/-- **`Curve.append` — the model function `Obj.appendCurve` the driver runs** (equal orders).
Two well-formed non-periodic curves `a`, `c` with the same rationality, dimension and order
`p = q+1 ≥ 2`, `a` clamped at its end and `c` at its start (the last resp. first `p` knots equal),
and the end point of `a` equal to the start point of `c` in every homogeneous component.  Then
`a.appendCurve c tol = .ok (some r)` (`tol ≥ 0`) with `r` well formed, non-periodic, of order `p`,
`n₁ + n₂ - 1` functions, domain `[a.start, a.end + (c.end - c.start)]`, and — component by component —
`r` IS THE CONCATENATION: the spline of `a` before the joint `a.end`, the spline of `c`
re-parametrised by the shift `a.end - c.start` from the joint on (both one-sided versions).
This ties the specification-level `appendKnots`/`appendCoef` of `C07_append_partial` to the model:
`Lemmas/C07AppendObj.lean` (`mergedBasis`, `mergedData_getD`, `make_splines_compatible` is the identity
here: `setDimension_self`).  Differing orders go through `raise_order` (C05) and return `none` in
this model function. -/
theorem C07_append_obj [FloorRing K] {a c : Obj K} (ha : a.WellFormed) (hc : c.WellFormed)
    (ha1 : a.bases.size = 1) (hc1 : c.bases.size = 1)
    (hpa : (a.basis 0).periodic = -1) (hpc : (c.basis 0).periodic = -1)
    (hrat : c.rational = a.rational) (hdim : c.dimension = a.dimension)
    (hord : (c.basis 0).order = (a.basis 0).order) (hq : 2 ≤ (a.basis 0).order)
    (hcl1 : (a.basis 0).kn (a.basis 0).numFunctions
      = (a.basis 0).kn ((a.basis 0).numFunctions + ((a.basis 0).order - 1)))
    (hcl2 : (c.basis 0).kn 0 = (c.basis 0).kn ((a.basis 0).order - 1))
    (hjoint : ∀ i, i < a.ncomp →
      C04.fibre a 0 0 i ((a.basis 0).numFunctions - 1) = C04.fibre c 0 0 i 0)
    {tol : K} (htol : 0 ≤ tol) :
    ∃ r, a.appendCurve c tol = .ok (some r) ∧ r.WellFormed ∧ r.bases.size = 1 ∧
      (r.basis 0).periodic = -1 ∧ (r.basis 0).order = (a.basis 0).order ∧
      (r.basis 0).numFunctions = (a.basis 0).numFunctions + (c.basis 0).numFunctions - 1 ∧
      (r.basis 0).start = (a.basis 0).start ∧
      (r.basis 0).stop = (a.basis 0).stop + ((c.basis 0).stop - (c.basis 0).start) ∧
      r.rational = a.rational ∧ r.ncomp = a.ncomp ∧
      ∀ i, i < a.ncomp → ∀ (s : Side) (t : K),
        (s.before t (a.basis 0).stop →
          splineVal s (r.basis 0).kn ((a.basis 0).order - 1) (r.basis 0).numFunctions
              (C04.fibre r 0 0 i) t
            = splineVal s (a.basis 0).kn ((a.basis 0).order - 1) (a.basis 0).numFunctions
                (C04.fibre a 0 0 i) t) ∧
        (s.after (a.basis 0).stop t →
          splineVal s (r.basis 0).kn ((a.basis 0).order - 1) (r.basis 0).numFunctions
              (C04.fibre r 0 0 i) t
            = splineVal s (c.basis 0).kn ((a.basis 0).order - 1) (c.basis 0).numFunctions
                (C04.fibre c 0 0 i) (t - ((a.basis 0).stop - (c.basis 0).start))) :=
  appendCurve_obj ha hc ha1 hc1 hpa hpc hrat hdim hord hq hcl1 hcl2 hjoint htol

/-- **`split` then `append` gives back the original map** (the model functions `Obj.split` and
`Obj.appendCurve`).  A well-formed non-periodic curve of order `p ≥ 2`, one split value `k` strictly
inside the domain, exact for the tolerance, and not a `C⁻¹` knot of the original (multiplicity
`≤ p - 1`: the curve is continuous there).  Then `split` returns two pieces, `append` of the second to
the first succeeds, and the result is a well-formed curve on the ORIGINAL domain whose spline equals
the original's in every homogeneous component, at every `t` of the domain, both one-sided versions.
All side conditions of `C07_append_obj` (clamped ends at the joint, equal end points) are derived:
the former from the multiplicity `p` the insertion loop establishes, the latter from the continuity
of the original (kernel lemma L9). -/
theorem C07_split_append_curve [FloorRing K] {o : Obj K} (h : o.WellFormed)
    (h1 : o.bases.size = 1) (hper : (o.basis 0).periodic = -1) (hq : 2 ≤ (o.basis 0).order)
    {tol : K} (htol : 0 < tol) (k : K) (hk : SplitOK (o.basis 0) tol [k])
    (hcont : (o.basis 0).mult k ≤ (o.basis 0).order - 1) :
    ∃ p0 p1 r, o.split tol [k] 0 = .ok (.many [p0, p1]) ∧
      p0.appendCurve p1 tol = .ok (some r) ∧ r.WellFormed ∧ r.bases.size = 1 ∧
      (r.basis 0).periodic = -1 ∧ (r.basis 0).order = (o.basis 0).order ∧
      (r.basis 0).start = (o.basis 0).start ∧ (r.basis 0).stop = (o.basis 0).stop ∧
      r.rational = o.rational ∧ r.ncomp = o.ncomp ∧
      ∀ i, i < o.ncomp → ∀ (s : Side) (t : K), s.mem (o.basis 0).start (o.basis 0).stop t →
        splineVal s (r.basis 0).kn ((o.basis 0).order - 1) (r.basis 0).numFunctions
            (C04.fibre r 0 0 i) t
          = splineVal s (o.basis 0).kn ((o.basis 0).order - 1) (o.basis 0).numFunctions
              (C04.fibre o 0 0 i) t :=
  split_append_curve h h1 hper hq htol k hk hcont

/-- **Subdivide**: the indices `_splitvector(len, parts)` picks from the `len ≥ 1` distinct knots
are valid indices, non-decreasing, and strictly increasing except for leading repetitions of `0`
(the start of the domain, which `split` skips) — so `subdivide` hands `split` a non-decreasing list
of knot values of the direction.  This is the index arithmetic of `_splitvector` only: the model
function `subdivide` mirrors the code (including its failure for a periodic direction with a single
split point, where `split` returns an object and `new_results += <object>` raises) and is compared
with the code by the C07 check; there is no theorem about `subdivide` as a whole. -/
theorem C07_subdivide (len parts : ℕ) (hlen : 1 ≤ len) :
    (splitVector len parts).length = parts ∧
    (∀ i (hi : i < (splitVector len parts).length),
      (splitVector len parts)[i] = splitVectorAt len parts i) ∧
    (∀ i, i < parts → splitVectorAt len parts i < len) ∧
    (∀ i, i + 1 < parts →
      splitVectorAt len parts i < splitVectorAt len parts (i+1) ∨ splitVectorAt len parts (i+1) = 0) ∧
    splitVectorAt len parts 0 = 0 :=
  ⟨splitVector_length len parts, fun i hi => splitVector_getElem len parts i hi,
    fun i hi => splitVectorAt_lt len parts i hlen hi,
    fun i hi => splitVectorAt_strict_or_zero len parts i hi, rfl⟩

/-! ## Non-vacuity -/

/-- Quadratic on `[0,2]` before the split … -/
def C07_ex0 : Basis ℚ := ⟨3, #[0, 0, 0, 2, 2, 2], -1⟩
/-- … and after inserting the split value `1` three times. -/
def C07_ex1 : Basis ℚ := ⟨3, #[0, 0, 0, 1, 1, 1, 2, 2, 2], -1⟩

theorem C07_ex1_valid : C07_ex1.Valid where
  order_pos := by decide
  size_ge := by decide
  sorted := by
    intro i hi
    have hi' : i + 1 < 9 := hi
    have hi'' : i < 8 := by omega
    interval_cases i <;> norm_num [Basis.kn, C07_ex1]
  periodic_ge := by decide
  periodic_le := by decide
  start_lt_stop := by norm_num [Basis.start, Basis.stop, Basis.kn, C07_ex1]
  ghosts := fun h => absurd h (by decide)

/-- The index hypotheses of `C07_split_open` / `C07_split_tiles` hold for both pieces of the example. -/
example : (0 + C07_ex1.order ≤ 3 ∧ 3 ≤ C07_ex1.nAll ∧ C07_ex1.kn (0 + C07_ex1.order - 1) < C07_ex1.kn 3)
    ∧ (3 + C07_ex1.order ≤ 6 ∧ 6 ≤ C07_ex1.nAll ∧ C07_ex1.kn (3 + C07_ex1.order - 1) < C07_ex1.kn 6)
    ∧ C07_ex1.kn 3 = C07_ex1.kn (3 + C07_ex1.order - 1) := by
  norm_num [Basis.kn, Basis.nAll, C07_ex1]

/-- Three insertions of `1` (positions `bisect_right` = 3, 4, 5) are legal for the knots of `C07_ex0`. -/
example (c : ℕ → ℚ) : SplineData.Legal 2 ⟨C07_ex0.kn, 3, c⟩ [(3, 1), (4, 1), (5, 1)] := by
  simp only [SplineData.Legal, SplineData.insert, insertSeq]
  norm_num [Basis.kn, C07_ex0]

/-- A periodic knot sequence with double knots (`q = 1`, `n = 4`, `T = 2`) meeting every hypothesis
of the specification lemma `splineVal_open_periodic` behind `C07_split_periodic_partial` (`μ = 2`, `N = 4`). -/
example : ∃ (τ : ℕ → ℚ) (c : ℕ → ℚ), Monotone τ ∧ (∀ i, τ (i + 4) = τ i + 2) ∧ (∀ i, c (i + 4) = c i)
    ∧ τ 2 = τ (2 + 1) ∧ τ 1 + 2 ≤ τ 4 ∧ τ (2 + 1) ≤ τ 1 + 2 := by
  refine ⟨fun j => ((j / 2 : ℕ) : ℚ), fun i => ((i % 4 : ℕ) : ℚ), ?_, ?_, ?_, ?_, ?_, ?_⟩
  · intro a b hab
    show (((a / 2 : ℕ)) : ℚ) ≤ ((b / 2 : ℕ) : ℚ)
    exact_mod_cast Nat.div_le_div_right hab
  · intro i
    show (((i + 4) / 2 : ℕ) : ℚ) = ((i / 2 : ℕ) : ℚ) + 2
    have : (i + 4) / 2 = i / 2 + 2 := by omega
    rw [this]; push_cast; ring
  · intro i
    show (((i + 4) % 4 : ℕ) : ℚ) = ((i % 4 : ℕ) : ℚ)
    have : (i + 4) % 4 = i % 4 := by omega
    rw [this]
  · norm_num
  · norm_num
  · norm_num

/-- Two clamped linear curves meeting the hypotheses of `C07_append_partial`. -/
example : ∃ (τ1 τ2 : ℕ → ℚ), Monotone τ1 ∧ Monotone τ2 ∧ τ1 2 = τ1 (2 + 1) ∧ τ2 0 = τ2 1 := by
  refine ⟨fun j => if j < 2 then 0 else 1, fun j => if j < 2 then 5 else 7, ?_, ?_, ?_, ?_⟩
  · intro a b hab
    show (if a < 2 then (0:ℚ) else 1) ≤ (if b < 2 then (0:ℚ) else 1)
    split_ifs
    all_goals first | (norm_num; done) | (exfalso; omega)
  · intro a b hab
    show (if a < 2 then (5:ℚ) else 7) ≤ (if b < 2 then (5:ℚ) else 7)
    split_ifs
    all_goals first | (norm_num; done) | (exfalso; omega)
  · norm_num
  · norm_num

/-- Periodic quadratic curve (`p = 3`, `k = 0`, `n = 4 ≥ p + k`) for `C07_split_periodic_partial`. -/
def C07_exPer : Obj ℚ :=
  { bases := #[⟨3, #[-1, 0, 0, 1, 2, 3, 3, 4], 0⟩],
    cps := { shape := [4, 2], data := #[0, 0, 1, 2, 3, 1, 2, -1] }, rational := false }

/-- The multiplicity condition for the split value `1/2` (between knots: three copies are inserted),
re-checked by kernel evaluation of the model's insertion loop. -/
theorem C07_exPer_hMult : ∀ so, C07_exPer.splitInsert (1 / 10 ^ 10) [1/2] 0 = .ok so →
    (so.basis 0).kn ((so.basis 0).bisectL (1/2)) = 1/2 ∧
    (so.basis 0).kn ((so.basis 0).bisectL (1/2) + (C07_exPer.basis 0).order - 1) = 1/2 := by
  intro so h
  have hd : (match C07_exPer.splitInsert (1 / 10 ^ 10) [1/2] 0 with
      | .ok so => decide ((so.basis 0).kn ((so.basis 0).bisectL (1/2)) = 1/2 ∧
          (so.basis 0).kn ((so.basis 0).bisectL (1/2) + (C07_exPer.basis 0).order - 1) = 1/2)
      | .error _ => false) = true := by decide +kernel
  rw [h] at hd
  exact of_decide_eq_true hd

/-- … and what the model returns for it: one open quadratic on `[1/2, 7/2]`. -/
theorem C07_exPer_split :
    (match C07_exPer.split (1 / 10 ^ 10) [1/2] 0 with
      | .ok (.single o) => ((o.basis 0).knots.toList, (o.basis 0).periodic, o.cps.shape)
      | _ => ([], 0, []))
    = ([1/2, 1/2, 1/2, 1, 2, 3, 3, 7/2, 7/2, 7/2], -1, [7, 2]) := by
  decide +kernel

/-- The exactness hypotheses `hexR`, `hexL` of `C07_split_periodic_partial` for `x0 = 1/2`,
`tol = 10⁻¹⁰` on `C07_exPer` (which also satisfies `n ≥ p + k`: `3 + 0 ≤ 4`, the direct algorithm). -/
example : (C07_exPer.basis 0).order + 0 ≤ (C07_exPer.basis 0).numFunctions ∧
    (∀ i, i < (C07_exPer.basis 0).knots.size →
      (C07_exPer.basis 0).kn i ≤ 1/2 ∨ (1/2 : ℚ) + 1 / 10 ^ 10 ≤ (C07_exPer.basis 0).kn i) ∧
    (∀ i, i < (C07_exPer.basis 0).knots.size →
      (C07_exPer.basis 0).kn i < 1/2 - 1 / 10 ^ 10 ∨ (1/2 : ℚ) ≤ (C07_exPer.basis 0).kn i) := by
  refine ⟨by decide, ?_, ?_⟩
  · intro i hi
    have hi' : i < 8 := hi
    interval_cases i <;> norm_num [Obj.basis, C07_exPer, Basis.kn]
  · intro i hi
    have hi' : i < 8 := hi
    interval_cases i <;> norm_num [Obj.basis, C07_exPer, Basis.kn]

/-- A SMALL periodic quadratic curve: `p = 3`, `k = 1`, `n = 2 < p + k = 4` functions (the cover
branch of `insert_knot`), for the guard-free `C07_split_periodic_partial`. -/
def C07_exPerSmall : Obj ℚ :=
  { bases := #[⟨3, #[-2, -1, 0, 1, 2, 3, 4], 1⟩],
    cps := { shape := [2, 2], data := #[1, 2, 3, -1] }, rational := false }

/-- Every hypothesis of `C07_split_periodic_partial` for `C07_exPerSmall`, `x0 = 1/2`, `tol = 10⁻¹⁰`;
the theorem applies. -/
example : ∃ op, C07_exPerSmall.split (1 / 10 ^ 10) [1/2] 0 = .ok (.single op) ∧
    (op.basis 0).Valid ∧ (op.basis 0).start = 1/2 := by
  obtain ⟨op, m, h1, h2, _, _, _, h6, _⟩ := C07_split_periodic_partial C07_exPerSmall 0 (by decide)
    (by decide) ((Basis.validB_iff _).1 (by decide +kernel)) 1 (by decide) (by decide)
    (tol := 1 / 10 ^ 10) (x0 := 1/2) (by norm_num)
    (by norm_num [Obj.basis, C07_exPerSmall, Basis.start, Basis.stop, Basis.kn])
    (by
      intro i hi
      have hi' : i < 7 := hi
      interval_cases i <;> norm_num [Obj.basis, C07_exPerSmall, Basis.kn])
    (by
      intro i hi
      have hi' : i < 7 := hi
      interval_cases i <;> norm_num [Obj.basis, C07_exPerSmall, Basis.kn])
  exact ⟨op, h1, h2, h6⟩

/-- … and what the model returns, by kernel evaluation: one open quadratic on `[1/2, 5/2]`. -/
theorem C07_exPerSmall_split :
    (match C07_exPerSmall.split (1 / 10 ^ 10) [1/2] 0 with
      | .ok (.single o) => ((o.basis 0).knots.toList, o.cps.shape, o.cps.data.toList)
      | _ => ([], [], []))
    = ([1/2, 1/2, 1/2, 1, 2, 5/2, 5/2, 5/2], [5, 2],
        [5/2, -1/4, 5/2, -1/4, 1, 2, 5/2, -1/4, 5/2, -1/4]) := by
  decide +kernel

/-- Quadratic curve with an interior knot, for `C07_split_open_obj`. -/
def C07_exOpenCurve : Obj ℚ :=
  { bases := #[⟨3, #[0, 0, 0, 1, 2, 2, 2], -1⟩],
    cps := { shape := [4, 2], data := #[0, 0, 1, 2, 3, 1, 4, -1] }, rational := false }

theorem C07_exOpenCurve_wf : C07_exOpenCurve.WellFormed := (Obj.wfB_iff _).1 (by decide +kernel)

/-- Every hypothesis of `C07_split_open_obj` for the split values `[1/2, 1]` (between knots and at
a knot), `tol = 10⁻¹⁰`. -/
theorem C07_exOpenCurve_splitOK :
    SplitOK (C07_exOpenCurve.basis 0) (1 / 10 ^ 10) [1/2, 1] ∧ [(1/2 : ℚ), 1].Pairwise (· < ·) := by
  constructor
  · intro x hx
    simp only [List.mem_cons, List.not_mem_nil, or_false] at hx
    rcases hx with rfl | rfl
    · refine ⟨by norm_num [Obj.basis, C07_exOpenCurve, Basis.start, Basis.stop, Basis.kn], ?_, ?_⟩
      · intro i hi
        have hi' : i < 7 := hi
        interval_cases i <;> norm_num [Obj.basis, C07_exOpenCurve, Basis.kn]
      · intro i hi
        have hi' : i < 7 := hi
        interval_cases i <;> norm_num [Obj.basis, C07_exOpenCurve, Basis.kn]
    · refine ⟨by norm_num [Obj.basis, C07_exOpenCurve, Basis.start, Basis.stop, Basis.kn], ?_, ?_⟩
      · intro i hi
        have hi' : i < 7 := hi
        interval_cases i <;> norm_num [Obj.basis, C07_exOpenCurve, Basis.kn]
      · intro i hi
        have hi' : i < 7 := hi
        interval_cases i <;> norm_num [Obj.basis, C07_exOpenCurve, Basis.kn]
  · refine List.Pairwise.cons ?_ (List.Pairwise.cons (by simp) List.Pairwise.nil)
    intro a ha
    simp only [List.mem_cons, List.not_mem_nil, or_false] at ha
    rw [ha]; norm_num

/-- `C07_split_open_obj` applied to the example: three pieces on `[0,1/2]`, `[1/2,1]`, `[1,2]`. -/
example : ∃ ps, C07_exOpenCurve.split (1 / 10 ^ 10) [1/2, 1] 0 = .ok (.many ps) ∧ ps.length = 3 := by
  obtain ⟨ps, h1, h2, _⟩ := C07_split_open_obj C07_exOpenCurve_wf 0 (by decide) (by decide)
    (by norm_num) [1/2, 1] C07_exOpenCurve_splitOK.1 C07_exOpenCurve_splitOK.2
  exact ⟨ps, h1, h2⟩

/-- … and what the model returns, by kernel evaluation. -/
theorem C07_exOpenCurve_split :
    (match C07_exOpenCurve.split (1 / 10 ^ 10) [1/2, 1] 0 with
      | .ok (.many ps) => ps.map (fun (o : Obj ℚ) => ((o.basis 0).knots.toList, o.cps.data.toList))
      | _ => [])
    = [([0, 0, 0, 1/2, 1/2, 1/2], [0, 0, 1/2, 1, 1, 11/8]),
       ([1/2, 1/2, 1/2, 1, 1, 1], [1, 11/8, 3/2, 7/4, 2, 3/2]),
       ([1, 1, 1, 2, 2, 2], [2, 3/2, 3, 1, 4, -1])] := by
  decide +kernel

/-- The pieces the model returns for `C07_exOpenCurve` split at `[1/2, 1]`. -/
def C07_exPieces : List (Obj ℚ) :=
  match C07_exOpenCurve.split (1 / 10 ^ 10) [1/2, 1] 0 with
  | .ok (.many ps) => ps
  | _ => []

/-- Every hypothesis of `C07_piece_evaluate_curve` for the first piece (on `[0, 1/2]`) and the
parameters `[0, 1/4]`: `PieceOK` from `C07_split_open_obj`, admissibility of the parameters for both
bases by kernel evaluation. -/
example : (C07_exPieces.getD 0 default).evaluate (1 / 10 ^ 10) [[0, 1/4]] true
    = C07_exOpenCurve.evaluate (1 / 10 ^ 10) [[0, 1/4]] true := by
  obtain ⟨ps, h1, _, h3⟩ := C07_split_open_obj C07_exOpenCurve_wf 0 (by decide) (by decide)
    (by norm_num) [1/2, 1] C07_exOpenCurve_splitOK.1 C07_exOpenCurve_splitOK.2
  have hps : C07_exPieces = ps := by unfold C07_exPieces; rw [h1]
  cases ps with
  | nil => cases h3
  | cons pc rest =>
    have hP := (List.forall₂_cons.1 h3).1
    have hpc : C07_exPieces.getD 0 default = pc := by rw [hps]; rfl
    have hadm : ∀ u ∈ [(0 : ℚ), 1/4], (C07_exOpenCurve.basis 0).Admissible (1 / 10 ^ 10) u ∧
        ((C07_exPieces.getD 0 default).basis 0).Admissible (1 / 10 ^ 10) u := by
      unfold Basis.Admissible Basis.ExactAt
      decide +kernel
    rw [hpc] at hadm ⊢
    refine C07_piece_evaluate_curve (b1 := C07_exOpenCurve.basis 0) (nc := 2) rfl
      ((Basis.validB_iff _).1 (by decide +kernel)) (by decide) (by decide) (by decide) hP
      ?_ (by norm_num) (fun u hu => (hadm u hu).1) (fun u hu => (hadm u hu).2) ?_
    · norm_num [Obj.basis, C07_exOpenCurve, Basis.stop, Basis.kn]
    · intro u hu
      simp only [List.mem_cons, List.not_mem_nil, or_false] at hu
      rcases hu with rfl | rfl <;>
        norm_num [Obj.basis, C07_exOpenCurve, Basis.start, Basis.stop, Basis.kn]

/-- Every hypothesis of `C07_split_append_curve` for `C07_exOpenCurve` and the split value `1` (a
simple knot of the quadratic: multiplicity `1 ≤ 2`). -/
theorem C07_exOpenCurve_split_append :
    SplitOK (C07_exOpenCurve.basis 0) (1 / 10 ^ 10) [1] ∧
    (C07_exOpenCurve.basis 0).mult 1 ≤ (C07_exOpenCurve.basis 0).order - 1 := by
  constructor
  · intro x hx
    exact C07_exOpenCurve_splitOK.1 x (by simp only [List.mem_singleton] at hx; rw [hx]; simp)
  · decide +kernel

example : ∃ p0 p1 r, C07_exOpenCurve.split (1 / 10 ^ 10) [1] 0 = .ok (.many [p0, p1]) ∧
    p0.appendCurve p1 (1 / 10 ^ 10) = .ok (some r) ∧ r.WellFormed := by
  obtain ⟨p0, p1, r, h1, h2, h3, _⟩ := C07_split_append_curve C07_exOpenCurve_wf (by decide)
    (by decide) (by decide) (by norm_num) 1 C07_exOpenCurve_split_append.1
    C07_exOpenCurve_split_append.2
  exact ⟨p0, p1, r, h1, h2, h3⟩

/-- The two pieces of `C07_exOpenCurve` at `1`, as literal objects, for `C07_append_obj`. -/
def C07_exPiece0 : Obj ℚ :=
  { bases := #[⟨3, #[0, 0, 0, 1, 1, 1], -1⟩],
    cps := { shape := [3, 2], data := #[0, 0, 1, 2, 2, 3/2] }, rational := false }
def C07_exPiece1 : Obj ℚ :=
  { bases := #[⟨3, #[1, 1, 1, 2, 2, 2], -1⟩],
    cps := { shape := [3, 2], data := #[2, 3/2, 3, 1, 4, -1] }, rational := false }

/-- Every hypothesis of `C07_append_obj` for these two curves, and the model's result. -/
example : ∃ r, C07_exPiece0.appendCurve C07_exPiece1 (1 / 10 ^ 10) = .ok (some r) ∧ r.WellFormed := by
  obtain ⟨r, h1, h2, _⟩ := C07_append_obj (a := C07_exPiece0) (c := C07_exPiece1)
    ((Obj.wfB_iff _).1 (by decide +kernel)) ((Obj.wfB_iff _).1 (by decide +kernel))
    (by decide) (by decide) (by decide) (by decide) (by decide) (by decide +kernel) (by decide)
    (by decide) (by decide +kernel) (by decide +kernel)
    (by
      intro i hi
      have hi' : i < 2 := hi
      interval_cases i <;> decide +kernel)
    (tol := 1 / 10 ^ 10) (by norm_num)
  exact ⟨r, h1, h2⟩

theorem C07_exPiece_append :
    (match C07_exPiece0.appendCurve C07_exPiece1 (1 / 10 ^ 10) with
      | .ok (some r) => ((r.basis 0).knots.toList, r.cps.shape, r.cps.data.toList)
      | _ => ([], [], []))
    = ([0, 0, 0, 1, 1, 2, 2, 2], [5, 2], [0, 0, 1, 2, 2, 3/2, 3, 1, 4, -1]) := by
  decide +kernel
