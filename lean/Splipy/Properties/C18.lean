import Splipy.Lemmas.C18Cells
import Splipy.Lemmas.C18Sort
import Splipy.Lemmas.C18Ifem
import Splipy.Lemmas.C18IfemB
import Splipy.Lemmas.C18Faces
import Splipy.Lemmas.C18FacesB
import Splipy.Lemmas.C18FacesC
import Splipy.Lemmas.C18FacesD
import Splipy.Lemmas.C18NumberingE
import Splipy.Lemmas.C18Example
import Splipy.Lemmas.C18Star
import Splipy.Lemmas.C18Partition
import Splipy.Lemmas.C18Cps
import Splipy.Lemmas.C18Plans
import Splipy.Lemmas.C18PlansInv
import Splipy.Lemmas.C18Witness

/-!
# Property C18 — global numbering and mesh export are consistent for any patch order/orientation

Theorems about the executable model `Splipy/Model/Numbering.lean` (on top of the catalogue model of
C17), which the correspondence run ties to `splipy/splinemodel.py` and `splipy/io/ofoam.py`.

The numbering algorithm is a pure function `numberPlans` of one `PatchPlan` per top-level node
(shape; per codimension-1 section: owned?, where the face node's numbers live, the orientation
`Orientation.compute(self.obj.section(*section), node.obj)`).  The plans are read off the
catalogue (`planOf`), or — equivalently for histories in which every added patch becomes a new
top node, which the correspondence run checks case by case — straight off the list of patches
(`plansOfObjs`: a face belongs to the first patch that has it).  The theorems are about
`numberPlans`; the statement of the property and its refutation use `plansOfObjs`, which the
kernel can evaluate (the catalogue uses hash maps, which it cannot).
-/

open Splipy Splipy.MP Splipy.MP.C18L

/-! ## numbering -/

/-- The numbering clause of the property for ONE history `objs` (patches in insertion order):
    the modelled algorithm succeeds and
    * two control points anywhere in the model carry the same number iff they are the same
      geometric point,
    * the numbers used are exactly `0 … ncps-1`,
    * `cps()` succeeds and returns at every number the coordinates of the points numbered so. -/
def C18_NumberingCorrect (dimension : ℕ) (objs : List Obj) : Prop :=
  ∃ (N : Array (NdArr ℤ)) (ncps : ℕ), numberPlans (plansOfObjs objs) = .ok (N, ncps) ∧
    (∀ k k' j j', k < objs.length → k' < objs.length →
      j < (objs.getD k default).cps.data.size → j' < (objs.getD k' default).cps.data.size →
      ((N.getD k default).data.getD j 0 = (N.getD k' default).data.getD j' 0 ↔
        (ptsOf (objs.getD k default)).getD j [] = (ptsOf (objs.getD k' default)).getD j' [])) ∧
    (∀ n : ℤ, (0 ≤ n ∧ n < ncps) ↔ ∃ k j, k < objs.length ∧ j < (objs.getD k default).cps.data.size ∧
      (N.getD k default).data.getD j 0 = n) ∧
    (∃ tbl, cpsTable dimension objs N ncps = .ok tbl ∧
      ∀ k j, k < objs.length → j < (objs.getD k default).cps.data.size →
        tbl.getD ((N.getD k default).data.getD j 0).toNat [] = (ptsOf (objs.getD k default)).getD j [])

/-- **The FULL numbering statement of C18**: for every history of patches whose control nets are
    conforming (`conformingNets`: control points of the history coincide only along common
    lower-dimensional entities of the patches concerned), the numbering is correct.
    It is FALSE for the modelled algorithm (and for the pinned code): `C18_numbering_counterexample`. -/
def C18_numbering : Prop :=
  ∀ (dimension : ℕ) (objs : List Obj), conformingNets objs = true → C18_NumberingCorrect dimension objs

/-- **Refutation of the full statement** by the two-cube witnesses, evaluated by the kernel on the
    executable model: two trilinear unit cubes with conforming nets
    * in FACE contact get 12 numbers for their 12 distinct points (the algorithm is right there),
    * in EDGE-only contact get 16 numbers for 14 distinct points,
    * in CORNER-only contact get 16 numbers for 15 distinct points
    (`read_cp_numbers` consults only codimension-1 sections): the shared corner `(1,1,0)` is
    number 6 in the first cube and number 8 in the second.  Hence `C18_numbering` is false.
    The harness replays these witnesses on the real code (specs `witness:*`). -/
theorem C18_numbering_counterexample :
    C18W.numbersOf C18W.faceContact = some ([[0, 1, 2, 3, 4, 5, 6, 7], [4, 5, 6, 7, 8, 9, 10, 11]], 12) ∧
    C18W.numbersOf C18W.edgeContact = some ([[0, 1, 2, 3, 4, 5, 6, 7], [8, 9, 10, 11, 12, 13, 14, 15]], 16) ∧
    C18W.numbersOf C18W.cornerContact = some ([[0, 1, 2, 3, 4, 5, 6, 7], [8, 9, 10, 11, 12, 13, 14, 15]], 16) ∧
    (C18W.allPoints C18W.faceContact).dedup.length = 12 ∧ (C18W.allPoints C18W.edgeContact).dedup.length = 14 ∧
    (C18W.allPoints C18W.cornerContact).dedup.length = 15 ∧
    conformingNets C18W.edgeContact = true ∧ conformingNets C18W.cornerContact = true ∧
    ¬ C18_NumberingCorrect 3 C18W.edgeContact ∧ ¬ C18_NumberingCorrect 3 C18W.cornerContact ∧
    ¬ C18_numbering := by
  have hedge : ¬ C18_NumberingCorrect 3 C18W.edgeContact := by
    rintro ⟨N, ncps, hnum, hiff, -, -⟩
    have hn := C18W.edge_numbers
    simp only [C18W.numbersOf, hnum, Option.some.injEq, Prod.mk.injEq] at hn
    have h := (hiff 0 1 6 0 (by decide) (by decide) (by decide) (by decide)).2 C18W.edge_coincidence
    rw [C18W.getD_toList, C18W.getD_toList, hn.1] at h
    exact absurd h (by decide)
  have hcorner : ¬ C18_NumberingCorrect 3 C18W.cornerContact := by
    rintro ⟨N, ncps, hnum, hiff, -, -⟩
    have hn := C18W.corner_numbers
    simp only [C18W.numbersOf, hnum, Option.some.injEq, Prod.mk.injEq] at hn
    have h := (hiff 0 1 7 0 (by decide) (by decide) (by decide) (by decide)).2 C18W.corner_coincidence
    rw [C18W.getD_toList, C18W.getD_toList, hn.1] at h
    exact absurd h (by decide)
  exact ⟨C18W.face_numbers, C18W.edge_numbers, C18W.corner_numbers, C18W.point_counts.1, C18W.point_counts.2.1,
    C18W.point_counts.2.2, C18W.conforming.2.1, C18W.conforming.2.2, hedge, hcorner,
    fun h => hedge (h 3 _ C18W.conforming.2.1)⟩

/-- **Correctness of the numbering algorithm, with the precise hypothesis** (on the plans of
    `numberPlans`; positions `q` are flat C-order positions of the patch at position `k` of
    `top_nodes()`).

    Data: `plans` the plans of the model, `P` arrays attached to the patches (their control nets, as
    points of any type `γ` with a junk value `default` that no control point equals), `N`, `ncps` the
    result of `generate_cp_numbers`.  Structural hypotheses (all three hold for the plans the
    catalogue of a history of top-dimensional patches produces; they are the catalogue invariants of
    C17 and are checked on every generated case through the `plans` observable of the
    correspondence run):
    * `hcompat`: `P` has the shapes of the number arrays;
    * `hG1`: transporting `P` through the face links reproduces `P` — the orientation stored in a
      link maps the owner's section net onto the reader's section net (soundness of
      `Orientation.compute`, `C17_compute_sound`);
    * `hord`: a face that is read belongs to an EARLIER top node (ownership is first come).

    Conclusions, for EVERY such history:
    1. every number is one of `0 … ncps-1` (no `-1` left, nothing else),
    2. every one of `0 … ncps-1` is used,
    3. same number ⇒ same point;
    and under the STAR hypothesis
    * `hstar`: whenever a control point of the patch at position `k` occurs in an earlier patch, it
      lies on a codimension-1 section of `k` that `k` does not own, i.e. on a FACE shared with an
      earlier patch (every pair of patches sharing a vertex or an edge is connected through shared
      faces among the patches present when the later one is added),
    * `hinj`: no patch contains the same point twice (no self-connected patch),
    4. same number ⇔ same point.

    PARTIAL with respect to the numbering clause of C18: the star hypothesis cannot be dropped
    (`C18_numbering_counterexample`: it fails for edge-only / corner-only contact; the harness also
    shows it failing for an L-shape whose corner patch is added last, and for self-connected
    patches); the statement is about `numberPlans` on plans with the hypotheses above rather than
    about the catalogue (the tie is `C18_plans_of_catalogue`: the ownership invariant `PlansInv`
    holds after every add-history of new top-level patches, pardim 2 and 3); the `cps()` clause is
    `C18_cps_partial`. -/
theorem C18_numbering_partial {γ : Type} [Inhabited γ] (plans : List PatchPlan) (P : List (NdArr γ))
    (hcompat : Compat (generateAll plans 0).1 P)
    (hG1 : readAllG plans P.toArray = .ok P.toArray)
    (hpts : ∀ p ∈ allData P, p ≠ default) (hord : WellOrdered plans)
    (N : Array (NdArr ℤ)) (ncps : ℕ) (hnum : numberPlans plans = .ok (N, ncps)) :
    (∀ k q, ValidPos plans k q → ∃ m : ℕ, m < ncps ∧ numAt N k q = m) ∧
    (∀ m : ℕ, m < ncps → ∃ k q, ValidPos plans k q ∧ numAt N k q = m) ∧
    (∀ k k' q q', ValidPos plans k q → ValidPos plans k' q' →
      numAt N k q = numAt N k' q' → ptAt P k q = ptAt P k' q') ∧
    ((∀ k k' q q', ValidPos plans k q → ValidPos plans k' q' → k' < k → ptAt P k q = ptAt P k' q' →
        ∃ p, plans[k]? = some p ∧ Flagged p q) →
     (∀ k q q', ValidPos plans k q → ValidPos plans k q' → ptAt P k q = ptAt P k q' → q = q') →
     ∀ k k' q q', ValidPos plans k q → ValidPos plans k' q' →
      (numAt N k q = numAt N k' q' ↔ ptAt P k q = ptAt P k' q')) := by
  obtain ⟨F⟩ := runFacts plans P hcompat hG1 hpts hord N ncps hnum
  have hdet : ∀ k k' q q', ValidPos plans k q → ValidPos plans k' q' →
      numAt N k q = numAt N k' q' → ptAt P k q = ptAt P k' q' := by
    intro k k' q q' hv hv' heq
    refine F.det k k' q q' hv hv' heq ?_
    obtain ⟨m, -, hm⟩ := F.range k q hv
    rw [hm]; omega
  exact ⟨F.range, F.onto, hdet,
    fun hstar hinj k k' q q' hv hv' => ⟨hdet k k' q q' hv hv', F.same_point hstar hinj k k' q q' hv hv'⟩⟩

/-- all hypotheses of `C18_numbering_partial`, including the star hypothesis, are satisfiable and
    the conclusion is not vacuous: two segments `A—B`, `B—C` get the 3 numbers `0,1 / 1,2`. -/
example : ∃ (plans : List PatchPlan) (P : List (NdArr ℕ)) (N : Array (NdArr ℤ)) (ncps : ℕ),
    Compat (generateAll plans 0).1 P ∧ readAllG plans P.toArray = .ok P.toArray ∧
    (∀ p ∈ allData P, p ≠ default) ∧ WellOrdered plans ∧ numberPlans plans = .ok (N, ncps) ∧
    (∀ k k' q q', ValidPos plans k q → ValidPos plans k' q' → k' < k → ptAt P k q = ptAt P k' q' →
        ∃ p, plans[k]? = some p ∧ Flagged p q) ∧
    (∀ k q q', ValidPos plans k q → ValidPos plans k q' → ptAt P k q = ptAt P k q' → q = q') ∧
    ncps = 3 ∧ ValidPos plans 1 0 :=
  ⟨C18X.plans, C18X.pts, C18X.nums, 3, C18X.facts.1, C18X.facts.2.1, C18X.facts.2.2.1, C18X.facts.2.2.2.1,
   C18X.facts.2.2.2.2, C18X.star, C18X.inj, rfl, ⟨_, rfl, by decide⟩⟩

/-- the structural hypotheses also hold for the plans of a real history (two trilinear cubes in
    face contact, control nets as points): 12 numbers. -/
example : ∃ (plans : List PatchPlan) (P : List (NdArr (List ℚ))) (N : Array (NdArr ℤ)) (ncps : ℕ),
    Compat (generateAll plans 0).1 P ∧ readAllG plans P.toArray = .ok P.toArray ∧
    (∀ p ∈ allData P, p ≠ default) ∧ numberPlans plans = .ok (N, ncps) ∧ ncps = 12 := by
  refine ⟨plansOfObjs C18W.faceContact, C18W.faceContact.map (·.cps), C18W.faceN, 12, ?_, ?_, ?_,
    (C18W.face_plan_run).2.2, rfl⟩
  · exact C18W.face_plan_run.1
  · exact C18W.face_plan_run.2.1
  · exact C18W.face_points_nonjunk

/-- **The numbering clause under the decidable guard `starOK`.**  `starOK plans P` (a `Bool`, defined in
    `Model/Numbering.lean` next to the algorithm) checks: the points `P` have the shapes of the number
    arrays; the face links transport `P` onto itself; no point is the junk value; a face that is
    read belongs to an earlier patch; the STAR condition — a point of a patch that occurs in an
    earlier patch lies on a codimension-1 section the patch does not own (a face shared with an
    earlier patch); no patch contains a point twice.  When it holds and `generate_cp_numbers`
    returns `(N, ncps)`:
    * every (patch, local index) carries a number in `0 … ncps-1`, every such number is used,
    * two local nodes anywhere in the model carry the same number **iff** they are the same point.
    The harness evaluates `starOK (plansOfObjs objs) (geomArrays objs)` on every generated
    history and compares it with its own geometric classification of the history (tag
    `cells:star-fails` when it is false); it is exactly the predicate that separates the witnesses:
    true for the face-contact cubes, false for edge-only and corner-only contact (examples below).
    So the numbering clause of C18 holds for the modelled algorithm precisely on the inputs where
    `starOK` holds (here), and is refuted where the star condition fails
    (`C18_numbering_counterexample`). -/
theorem C18_numbering_star {γ : Type} [Inhabited γ] [DecidableEq γ] (plans : List PatchPlan) (P : List (NdArr γ))
    (hok : starOK plans P = true)
    (N : Array (NdArr ℤ)) (ncps : ℕ) (hnum : numberPlans plans = .ok (N, ncps)) :
    (∀ k q, ValidPos plans k q → ∃ m : ℕ, m < ncps ∧ numAt N k q = m) ∧
    (∀ m : ℕ, m < ncps → ∃ k q, ValidPos plans k q ∧ numAt N k q = m) ∧
    (∀ k k' q q', ValidPos plans k q → ValidPos plans k' q' →
      (numAt N k q = numAt N k' q' ↔ ptAt P k q = ptAt P k' q')) := by
  obtain ⟨h1, h2, h3, h4, h5, h6⟩ := starOK_sound plans P hok
  obtain ⟨r1, r2, -, r4⟩ := C18_numbering_partial plans P h1 h2 h3 h4 N ncps hnum
  exact ⟨r1, r2, r4 h5 h6⟩

/-- the guard on the witnesses, evaluated by the kernel on the histories themselves (plans of
    `plansOfObjs`, points = geometric control points): it holds for the face-contact cubes and
    fails for the edge-only and corner-only contact. -/
example : starOK (plansOfObjs C18W.faceContact) (geomArrays C18W.faceContact) = true ∧
    starOK (plansOfObjs C18W.edgeContact) (geomArrays C18W.edgeContact) = false ∧
    starOK (plansOfObjs C18W.cornerContact) (geomArrays C18W.cornerContact) = false := C18W.star_witnesses

/-- **The global numbering is a partition, and it is the one the interface maps generate.**
    Guards (both `Bool`s defined next to the algorithm and evaluated by the harness on every
    generated complex): `wellOrderedB` — a face that is read belongs to an earlier patch (first-come
    ownership); `noJunkB` — transporting the all-`true` arrays through the face links yields the
    all-`true` arrays, i.e. no index outside an array is ever read.  Then, for plan lists of ANY
    size (induction over the plan list and the faces of each plan), after `generate_cp_numbers`
    returned `(N, ncps)`:
    * every (patch, local index) carries exactly one global number (`numAt` is a function) and it
      lies in `0 … ncps-1`; every number of `0 … ncps-1` is carried by some local node;
    * two local nodes carry the same number **iff** they are identified by the interface maps:
      `Forced plans k q k' q'` — they receive the same label under EVERY labelling of all control
      points (of any type) that the face links, as `read_cp_numbers` applies them, transport onto
      itself, i.e. they lie in the same class of the equivalence closure of the identifications
      made by the links.  (`⇐` uses that the final numbers themselves are such a labelling: the
      read phase is idempotent, `readAllG_idem`, and commutes with every relabelling when no junk is
      read, `readAllG_map_any`.)
    No star hypothesis is needed for this statement; the star condition (`starOK`,
    `C18_numbering_star`) is exactly what makes `Forced` coincide with "same geometric point". -/
theorem C18_numbering_partition (plans : List PatchPlan) (hord : wellOrderedB plans = true)
    (hnj : noJunkB plans = true) (N : Array (NdArr ℤ)) (ncps : ℕ) (hnum : numberPlans plans = .ok (N, ncps)) :
    (∀ k q, ValidPos plans k q → ∃ m : ℕ, m < ncps ∧ numAt N k q = m) ∧
    (∀ m : ℕ, m < ncps → ∃ k q, ValidPos plans k q ∧ numAt N k q = m) ∧
    (∀ k k' q q', ValidPos plans k q → ValidPos plans k' q' →
      (numAt N k q = numAt N k' q' ↔ Forced plans k q k' q')) :=
  ⟨(numbering_range plans (wellOrdered_of_B _ hord) hnj N ncps hnum).1,
   (numbering_range plans (wellOrdered_of_B _ hord) hnj N ncps hnum).2,
   numbering_partition plans (wellOrdered_of_B _ hord) hnj N ncps hnum⟩

/-- the guards hold on the witnesses (also on the edge-contact pair, where the star condition
    fails): kernel evaluation. -/
example : wellOrderedB (plansOfObjs C18W.edgeContact) = true ∧ noJunkB (plansOfObjs C18W.edgeContact) = true ∧
    wellOrderedB (plansOfObjs C18W.faceContact) = true ∧ noJunkB (plansOfObjs C18W.faceContact) = true :=
  C18W.guards_witnesses

/-- **What the driver runs is what the theorems are about, under a decidable check.**
    `sm.generateCpNumbers` (the model of `SplineModel.generate_cp_numbers`, run by the driver on the
    catalogue) is `numberPlans` applied to the plans read off the catalogue (`sm.plans`).  If these
    agree with the plans of the history (`plansAgreeB sm.plans (plansOfObjs objs)`, a `Bool` the
    driver evaluates and the harness requires to be `true` on EVERY generated model — together with
    the comparison of the real nodes' ownership and orientations against `plansOfObjs`), then
    `generate_cp_numbers()` returns exactly what `numberPlans (plansOfObjs objs)` returns, the
    function of `C18_numbering_star` / `C18_numbering_partition` / `C18_numbering_counterexample`.
    (For add-histories of parametric dimension 2 and 3 in which every patch is a new top node the
    check is PROVED to succeed: `C18_plans_of_catalogue`, `C18_generate_eq_plans_of_add`.) -/
theorem C18_generate_eq_plans (sm : SplineModel) (objs : List Obj)
    (h : plansAgreeB sm.plans (plansOfObjs objs) = true) :
    sm.plans = plansOfObjs objs ∧
    ∀ r, sm.generateCpNumbers = .ok r → numberPlans (plansOfObjs objs) = .ok (r.cp, r.ncps) := by
  have hp := plans_eq_of_agree h
  refine ⟨hp, fun r hr => ?_⟩
  unfold SplineModel.generateCpNumbers at hr
  have hp' : sm.tops.map (planOf sm (allViews sm)) = plansOfObjs objs := hp
  simp only [hp', bind, Except.bind, pure, Except.pure] at hr
  split at hr
  · cases hr
  · rename_i v hv
    simp only [Except.ok.injEq] at hr
    subst hr
    exact hv

/-- **State of a `SplineModel` after the patches `objs` were added** (in this order, over any
    number of `add` calls), each of them a NEW top node: `Hist` (`Lemmas/C18History.lean`) =
    C17's catalogue invariant `Inv` + well-formed key tables + `top_nodes()` is `objs` in insertion
    order, every top node owner-less + the PROVENANCE of every node of dimension `pardim - 1`: it
    stores the section object of the lexicographically first face occurrence `(patch, section)` of
    its `≈`-class in the history, and is owned by the top node of that patch. -/
def C18_History (nc : ℕ) (sm : SplineModel) (objs : List Obj) : Prop :=
  Hist nc sm.pardim (fun _ => True) objs sm.cat

/-- the fresh model has the empty history -/
theorem C18_history_new (nc P D : ℕ) (frh : Bool) (sm0 : SplineModel) (hP : 1 ≤ P)
    (h : SplineModel.new P D frh = .ok sm0) : C18_History nc sm0 [] := by
  unfold SplineModel.new at h
  split at h
  · simp at h
  · simp only [Except.ok.injEq] at h
    subst h
    exact Hist.empty nc P _ (by omega)

/-- **`SplineModel.add` preserves the history invariant** — (a) ownership frame through
    `lookup` / `resolve` / `_add` / `newNode` / `transferOwnership` (`Lemmas/C17Owner.lean`),
    (b) creation order of `top_nodes()` through the ordered key lists of the levels
    (`Lemmas/C18TopOrder.lean`).  Hypotheses: the new patches are well-formed (`GU`) of the model's
    parametric dimension, twins are rejected at that dimension (`raise_on_twins` contains `pardim`;
    the default `True` does), and no patch is `≈` (equal up to re-parametrisation) to another patch
    of the history — otherwise `lookup` silently returns the EXISTING node and `top_nodes()` has
    fewer entries than the history. -/
theorem C18_history_add (nc : ℕ) (ktol : ℚ) (sm sm' : SplineModel) (objs news : List Obj) (tw : List ℕ)
    (H : C18_History nc sm objs) (hP : 1 ≤ sm.pardim)
    (hgu : ∀ p ∈ news, GU nc p ∧ p.pardim = sm.pardim)
    (htw : tw.contains sm.pardim = true)
    (hdist : (objs ++ news).Pairwise (fun a b => ¬ Equiv a b))
    (hadd : sm.add ktol news tw = .ok sm') : C18_History nc sm' (objs ++ news) := by
  obtain ⟨hp, hfold⟩ := SplineModel.add_ok hadd
  unfold C18_History
  rw [hp]
  exact Hist.fold (fun _ _ _ _ _ => trivial) tw htw hP news objs sm.cat sm'.cat H
    (fun p hp' => ⟨(hgu p hp').1, (hgu p hp').2, trivial⟩) hdist hfold

/-- **The catalogue's numbering IS the history's numbering** (parametric dimension 2 and 3).
    After any add-history (`C18_History`, established by `C18_history_new` / `C18_history_add`) the
    ownership invariant `PlansInv sm objs` holds: one top node per patch in insertion order storing
    the patch; one codimension-1 node per section; the node of the face `(k, i)` stores the object of
    the FIRST occurrence `firstOcc objs k i` of that face in the history, is OWNED by the top node of
    that patch, and — (c), the `assign_cp_numbers` recursion `assignViews` — views that node's number
    array through the last section of it showing the face.  Hence the plans read off the catalogue
    are `plansOfObjs objs`, and `generate_cp_numbers()` on the catalogue returns exactly what
    `numberPlans (plansOfObjs objs)` returns — the function of `C18_numbering_star` /
    `C18_numbering_partition` / `C18_numbering_counterexample`; no `plansAgreeB` check is needed.

    Not covered (there the decidable check of `C18_generate_eq_plans` remains the link): parametric
    dimension 1 (the faces are points; the model's `assignViews` does not hand views to points),
    histories with twins tolerated at the top level, histories in which a patch is `≈` to an earlier
    one (no new top node), and patches of lower parametric dimension than the model. -/
theorem C18_plans_of_catalogue (nc : ℕ) (sm : SplineModel) (objs : List Obj)
    (H : C18_History nc sm objs) (hP : 2 ≤ sm.pardim) :
    PlansInv sm objs ∧ sm.plans = plansOfObjs objs ∧
    ∀ r, sm.generateCpNumbers = .ok r → numberPlans (plansOfObjs objs) = .ok (r.cp, r.ncps) := by
  have hinv := plansInv_of_hist sm objs H hP
  have hp := plans_eq_of_inv sm objs hinv
  refine ⟨hinv, hp, fun r hr => ?_⟩
  unfold SplineModel.generateCpNumbers at hr
  have hp' : sm.tops.map (planOf sm (allViews sm)) = plansOfObjs objs := hp
  simp only [hp', bind, Except.bind, pure, Except.pure] at hr
  split at hr
  · cases hr
  · rename_i v hv
    simp only [Except.ok.injEq] at hr
    subst hr
    exact hv

/-- **`generate_cp_numbers()` after `SplineModel(pardim, dimension).add(patches)`** — the closed form
    of `C18_history_new` + `C18_history_add` + `C18_plans_of_catalogue` for one `add` call:
    for `pardim ∈ {2, 3}`, well-formed patches of that parametric dimension, pairwise not `≈`, twins
    rejected at the top level, the driver's function `sm.generateCpNumbers` is
    `numberPlans (plansOfObjs patches)` — unconditionally, no run-time check. -/
theorem C18_generate_eq_plans_of_add (nc P D : ℕ) (frh : Bool) (ktol : ℚ) (patches : List Obj)
    (tw : List ℕ) (sm0 sm : SplineModel) (hP : 2 ≤ P)
    (hnew : SplineModel.new P D frh = .ok sm0)
    (hgu : ∀ p ∈ patches, GU nc p ∧ p.pardim = P)
    (htw : tw.contains P = true)
    (hdist : patches.Pairwise (fun a b => ¬ Equiv a b))
    (hadd : sm0.add ktol patches tw = .ok sm) :
    sm.plans = plansOfObjs patches ∧
    ∀ r, sm.generateCpNumbers = .ok r → numberPlans (plansOfObjs patches) = .ok (r.cp, r.ncps) := by
  have h0 := C18_history_new nc P D frh sm0 (by omega) hnew
  have hp0 : sm0.pardim = P := by
    unfold SplineModel.new at hnew
    split at hnew
    · simp at hnew
    · simp only [Except.ok.injEq] at hnew
      subst hnew; rfl
  have h1 := C18_history_add nc ktol sm0 sm [] patches tw h0 (by omega)
    (fun p hp => by rw [hp0]; exact hgu p hp) (by rw [hp0]; exact htw) (by simpa using hdist) hadd
  have hp1 : sm.pardim = P := by rw [(SplineModel.add_ok hadd).1, hp0]
  simp only [List.nil_append] at h1
  exact (C18_plans_of_catalogue nc sm patches h1 (by omega)).2

/-- **`cps()` indexes consistently**: if `cps()` succeeds, all numbers are non-negative and a number
    determines the control point (conclusions 1 and 3 of `C18_numbering_partial`), then the returned
    table has `ncps` rows and holds at the number of EVERY control point of EVERY patch that control
    point (`cps()[N_k[j]] = controlpoints_k[j]`; "last write wins" is harmless because all writes to
    one row carry the same point).

    PARTIAL: `cps()` does not always succeed — `controlpoints.reshape(-1, dimension)` raises
    `ValueError` for rational patches (modelled; known finding `cps-rational-valueerror`), so for
    rational models the clause "cps() returns each point's coordinates" fails outright. -/
theorem C18_cps_partial (dimension : ℕ) (objs : List Obj) (cp : Array (NdArr ℤ)) (ncps : ℕ) (tbl : Array (List ℚ))
    (h : cpsTable dimension objs cp ncps = .ok tbl)
    (hnn : ∀ k j, k < objs.length → j < (cp.getD k default).data.size → 0 ≤ cpNum cp k j)
    (hdet : ∀ k' j' k j, k' < objs.length → j' < (cp.getD k' default).data.size →
      k < objs.length → j < (cp.getD k default).data.size → cpNum cp k' j' = cpNum cp k j →
      (objs.getD k' default).cps.data.getD j' [] = (objs.getD k default).cps.data.getD j []) :
    tbl.size = ncps ∧ ∀ k j, k < objs.length → j < (cp.getD k default).data.size →
      tbl.getD (cpNum cp k j).toNat [] = (objs.getD k default).cps.data.getD j [] :=
  cpsTable_spec dimension objs cp ncps tbl h hnn hdet

/-- `cps()` of the face-contact cubes succeeds (12 rows): the hypothesis `h` is satisfiable. -/
example : ∃ tbl, cpsTable 3 C18W.faceContact C18W.faceN 12 = .ok tbl ∧ tbl.size = 12 := by
  refine ⟨_, C18W.face_cps.2, C18W.face_cps.1⟩

/-! ## cells -/

/-- **Cell numbers enumerate every knot-span cell exactly once.**  After
    `generate_cell_numbers()` the top node at position `k` holds an array of the shape
    `[len(knots_d) - 1]_d` (one entry per knot-span cell, C order), and the entries of all arrays,
    node by node, are `0, 1, …, ncells-1` in this order: every cell has a number, no number is
    used twice, the numbers used are exactly `0 … ncells-1`. -/
theorem C18_cells (ktol : ℚ) (r : Numbered) :
    let r' := r.generateCellNumbers ktol
    let shapes := r.tops.map fun t => cellShape ktol (r.sm.cat.node t).obj
    r'.cells.toList.map (·.shape) = shapes ∧
    (∀ a ∈ r'.cells.toList, a.data.size = shapeSize a.shape) ∧
    r'.ncells = totalCells shapes ∧
    r'.cells.toList.flatMap (·.data.toList) = (List.range r'.ncells).map (fun (n : ℕ) => (n : ℤ)) ∧
    (r'.cells.toList.flatMap (·.data.toList)).Nodup ∧
    (∀ n : ℕ, n < r'.ncells ↔ (n : ℤ) ∈ r'.cells.toList.flatMap (·.data.toList)) := by
  intro r' shapes
  have h1 : r'.cells.toList = (cellArrays shapes 0).1 := by simp [r', shapes, Numbered.generateCellNumbers]
  have h2 : r'.ncells = (cellArrays shapes 0).2 := by simp [r', shapes, Numbered.generateCellNumbers]
  have hflat : r'.cells.toList.flatMap (·.data.toList) = (List.range r'.ncells).map (fun (n : ℕ) => (n : ℤ)) := by
    rw [h1, h2, cellArrays_flatten, cellArrays_snd, Nat.zero_add, List.range_eq_range']
  refine ⟨by rw [h1, cellArrays_shapes], by rw [h1]; exact cellArrays_sizes _ _,
    by rw [h2, cellArrays_snd, Nat.zero_add], hflat, ?_, ?_⟩
  · rw [hflat]
    exact (List.nodup_range).map (fun a b h => by exact_mod_cast h)
  · intro n
    rw [hflat]
    simp

/-! ## IFEM -/

/-- **`ifem_format` is a bijection** from the 8 orientations of a surface (interface of two volumes)
    onto the codes `0..7`, and from the 2 orientations of a curve onto `0, 1`: the code determines
    the relative orientation and vice versa. -/
theorem C18_ifem_format_bijective :
    (∀ a b : Orientation, a.WF 2 → b.WF 2 → a.ifemFormat = b.ifemFormat → a = b) ∧
    (∀ o : Orientation, o.WF 2 → ∃ c < 8, o.ifemFormat = some c) ∧
    (∀ c < 8, ∃ o : Orientation, o.WF 2 ∧ o.ifemFormat = some c) ∧
    (∀ a b : Orientation, a.WF 1 → b.WF 1 → a.ifemFormat = b.ifemFormat → a = b) ∧
    (∀ o : Orientation, o.WF 1 → o.ifemFormat = some (if o.flip = [true] then 1 else 0)) := by
  refine ⟨?_, ?_, ?_, ?_, ?_⟩
  · intro a b ha hb
    exact ifemFormat_injective2 a ((Orientation.mem_all 2 a).2 ha) b ((Orientation.mem_all 2 b).2 hb)
  · intro o ho
    have hmem : o.ifemFormat ∈ (Orientation.all 2).map (·.ifemFormat) :=
      List.mem_map_of_mem ((Orientation.mem_all 2 o).2 ho)
    rw [ifemFormat_range2.mem_iff] at hmem
    obtain ⟨c, hc, hco⟩ := List.mem_map.1 hmem
    exact ⟨c, List.mem_range.1 hc, hco.symm⟩
  · intro c hc
    have hmem : some c ∈ (List.range 8).map some := List.mem_map_of_mem (List.mem_range.2 hc)
    rw [← ifemFormat_range2.mem_iff] at hmem
    obtain ⟨o, ho, hoc⟩ := List.mem_map.1 hmem
    exact ⟨o, (Orientation.mem_all 2 o).1 ho, hoc⟩
  · intro a b ha hb
    exact ifemFormat_injective1 a ((Orientation.mem_all 1 a).2 ha) b ((Orientation.mem_all 1 b).2 hb)
  · intro o ho
    have hall : ∀ o ∈ Orientation.all 1, o.ifemFormat = some (if o.flip = [true] then 1 else 0) := by decide
    exact hall o ((Orientation.mem_all 1 o).2 ho)

/-- **The connection list names every interface exactly once, with the geometrically coincident
    face indices and their relative orientation.**  Let a fresh `SplineModel(P, D, frh)`,
    `1 ≤ P ≤ 3`, receive any list of patches of the universe of C17 (`GU nc`: well-formed) — any insertion order, any orientation of every patch, any twins policy.  Then
    `connections()` does not raise; let `cs` be its result.  With `≈` = "`Orientation.compute` does not raise" (`Equiv`;
    by `C17_compute_sound` an orientation mapping net and bases of one object onto the other):
    * `cs`, read as quadruples `(master, midx, slave, sidx)` (0-based), is the list `connPairs`,
      which has no repetition;
    * `(a, i, b, j)` is listed **iff** face `i` of the patch at position `a` and face `j` of the
      patch at position `b` (positions in `top_nodes()`, the order of the `.g2` file; faces in
      `sections(P, P-1)` order = IFEM numbering) are the same entity, `section_a,i ≈ section_b,j`,
      and `a < b`, or `a = b` and `i < j` (self-connection): every interface exactly once, master
      never above slave;
    * every entry is `connOf` of its quadruple: `orient = ifem_format(Orientation.compute(master
      section, slave section))`, a code that determines the relative orientation
      (`C18_ifem_format_bijective`).
    The catalogue facts used are `C17_catalogue_counts` (`higher_nodes` = incidences, a lower link
    IS the node `F` iff the section is `≈` to `F`'s object, `nodes(P)` duplicate free).

    The universe `GU D` of C17 comprises all well-formed patches with `D` physical components,
    rational (positive weights) or not, of parametric dimension ≤ 3: the surface and volume models
    of the property. -/
theorem C18_ifem_connections {nc : ℕ} (P D : ℕ) (frh : Bool) (ktol : ℚ)
    (patches : List Obj) (tw : List ℕ) (sm0 sm : SplineModel)
    (hnew : SplineModel.new P D frh = .ok sm0)
    (hgu : ∀ p ∈ patches, GU nc p ∧ p.pardim ≤ P)
    (hadd : sm0.add ktol patches tw = .ok sm) (hP : 1 ≤ P) (hP3 : P ≤ 3) :
    ∃ cs : List Conn, sm.connections = .ok cs ∧
    cs.map (fun c => (c.master - 1, c.midx - 1, c.slave - 1, c.sidx - 1)) = connPairs sm.topLowers sm.topNbrs ∧
    (connPairs sm.topLowers sm.topNbrs).Nodup ∧
    (∀ a i b j, (a, i, b, j) ∈ connPairs sm.topLowers sm.topNbrs ↔
      a < sm.tops.length ∧ b < sm.tops.length ∧ i < sm.faceSecs.length ∧ j < sm.faceSecs.length ∧
      Equiv ((sm.topObj a).sect (sm.faceSecs.getD i [])) ((sm.topObj b).sect (sm.faceSecs.getD j [])) ∧
      (a < b ∨ (a = b ∧ i < j))) ∧
    (∀ c ∈ cs, c.master ≤ c.slave ∧ (c.master = c.slave → c.midx < c.sidx) ∧ 1 ≤ c.master ∧ 1 ≤ c.midx ∧
      sm.connOf (c.master - 1, c.midx - 1, c.slave - 1, c.sidx - 1) = .ok c) := by
  obtain ⟨hI, hsp, -, -⟩ := fresh_add_inv (nc := nc) P D frh ktol patches tw sm0 sm hnew hgu hadd
  have hP' : 1 ≤ sm.pardim := by rw [hsp]; exact hP
  have hP3' : sm.pardim ≤ 3 := by rw [hsp]; exact hP3
  obtain ⟨cs, h⟩ := connections_total sm hI hP' hP3'
  have hpairs := connections_pairs sm cs h
  have hmemiff := mem_connPairs_catalogue sm hI hP' hP3'
  refine ⟨cs, h, hpairs, nodup_connPairs _ _ (topNbrs_nodup sm (tops_idxOf_inj sm) (fun sub t ht => higher_mem_tops sm hI sub t ht)),
    hmemiff, ?_⟩
  intro c hc
  have hq : (c.master - 1, c.midx - 1, c.slave - 1, c.sidx - 1) ∈ connPairs sm.topLowers sm.topNbrs := by
    rw [← hpairs]; exact List.mem_map_of_mem hc
  obtain ⟨q, hq', hcq⟩ := List.mem_mapM_ok h c hc
  have hcq' := connOf_ok sm q c hcq
  obtain ⟨-, -, -, -, -, hord⟩ := (hmemiff _ _ _ _).1 hq
  have hshape := connOf_shape sm q c hcq
  rw [hcq']
  refine ⟨?_, ?_, hshape.1, hshape.2.1, hcq⟩
  · omega
  · intro hms
    omega

/-! ## OpenFOAM -/

/-- **Order of the OpenFOAM files** (`faces`, `owner`, `neighbour`, `boundary`): the three
    stable sorts (by neighbour, then owner, then `(name is not None, name)`) yield
    * a permutation of the face list,
    * in lexicographic order of (name key, owner, neighbour): internal faces (name `None`) first,
      boundary faces grouped by name in increasing name order, owner-then-neighbour order within,
    * every internal face before every boundary face,
    and the `boundary` entries `(name, nFaces, startFace)` written from the `groupby` runs
    partition the boundary part of the list: the faces `startFace … startFace+nFaces-1` are exactly
    named by the entry and lie inside the list, every named face lies in the block of the entry
    with its name, no name has two entries, and the patch count declared at the head of the
    `boundary` file (`len(set(names) - {None})`) is the number of entries. -/
theorem C18_openfoam_order (faces : List Face) :
    let o := ofoamWrite faces
    o.faces.Perm faces ∧ o.faces.Pairwise FoamLe ∧
    (∀ pre f post, o.faces = pre ++ f :: post → f.name = none → ∀ g ∈ pre, g.name = none) ∧
    (∀ e ∈ o.entries, ((o.faces.map (·.name)).drop e.2.2).take e.2.1 = List.replicate e.2.1 (some e.1) ∧
      0 < e.2.1 ∧ e.2.2 + e.2.1 ≤ o.faces.length) ∧
    (∀ i nm, (o.faces.map (·.name))[i]? = some (some nm) →
      ∃ e ∈ o.entries, e.1 = nm ∧ e.2.2 ≤ i ∧ i < e.2.2 + e.2.1) ∧
    (o.entries.map (·.1)).Nodup ∧ o.declared = o.entries.length := by
  intro o
  have hsorted : (o.faces.map (·.name)).Pairwise nameKeyLe := by
    rw [List.pairwise_map]
    exact (ofoamOrder_sorted faces).imp (fun h => h.1)
  exact ⟨ofoamOrder_perm faces, ofoamOrder_sorted faces,
    fun pre f post hl hf => internal_first o.faces pre post f hsorted hl hf,
    fun e he => ofoam_entry_block o.faces e he,
    fun i nm h => ofoam_entry_cover o.faces i nm h,
    ofoam_entries_distinct o.faces hsorted, ofoam_declared o.faces hsorted⟩

/-- **Cells per face, and the rows of the OpenFOAM files, for models of any size.**
    Whenever `SplineModel.faces()` returns (any number of patches, any cell counts — induction over
    the top nodes), every face record has either two cells with `owner < neighbour` or one cell
    (`neighbour = -1`) — this first clause only re-reads the final `assert` of `faces()`; that the
    `assert` does NOT fire is `C18_faces_assembly_partial`.  If moreover the faces without a name are exactly the faces with a
    neighbour (every boundary face named — what `OpenFOAM.write` presupposes: it takes
    `name is None` for "internal"), then the rows the writer emits are
    `two-cell faces ++ one-cell faces`: the first `nInternalFaces` rows are the faces with two
    cells, `owner < neighbour`, in lexicographic (owner, neighbour) order; the remaining rows have
    one cell, and within one boundary name the owner column is non-decreasing (with
    `C18_openfoam_order`: each name one contiguous block `startFace … startFace+nFaces-1`).

    PARTIAL: the guard `hnamed` remains (an unnamed boundary face is written among the internal
    faces with neighbour `-1`; interface nodes carry no name in the histories the harness builds);
    that every geometric cell face of a multi-patch model occurs exactly once is proved for one
    structured patch (`C18_faces_partial`) and checked by the oracle for multi-patch models. -/
theorem C18_openfoam_cells_partial (ktol : ℚ) (r : Numbered) (fs : List Face) (h : r.faces ktol = .ok fs) :
    (∀ f ∈ fs, f.owner < f.neighbor ∨ f.neighbor = -1) ∧
    ((∀ f ∈ fs, (f.name = none ↔ f.neighbor ≠ -1)) →
      let o := ofoamWrite fs
      o.faces = o.faces.take o.ninternal ++ o.faces.drop o.ninternal ∧
      (∀ f ∈ o.faces.take o.ninternal, f.name = none ∧ f.neighbor ≠ -1 ∧ f.owner < f.neighbor) ∧
      (∀ f ∈ o.faces.drop o.ninternal, f.name ≠ none ∧ f.neighbor = -1) ∧
      (o.faces.take o.ninternal).Pairwise
        (fun a b => a.owner < b.owner ∨ (a.owner = b.owner ∧ a.neighbor ≤ b.neighbor)) ∧
      (o.faces.drop o.ninternal).Pairwise (fun a b => a.name = b.name → a.owner ≤ b.owner)) :=
  ⟨faces_two_or_one ktol r fs h, fun hnamed => ofoam_blocks fs hnamed (faces_two_or_one ktol r fs h)⟩

/-- **Assembly of `faces()` over the patches: the final `assert` does not fire, and every listed
    face is adjacent to the cells it names** — under the decidable guard `facesGuardB` (defined next
    to the algorithm; the harness evaluates it on every generated trilinear model and compares it
    with the same certificate recomputed on the real nodes).  The guard says: volumes; every patch
    has cells in each direction; everything before the final `assert` can be formed
    (`facesTagged`: orders, shapes, `nhigher ∈ {1,2}`, the neighbour exists, `Orientation.compute`
    succeeds, sizes fit); every interface a node lists leads to a LATER top node; and the owner cell
    — and the neighbour cell found through `Orientation.compute(bdnode.obj, nb_obj).map_array` —
    of every listed face has the face's four vertex numbers among its eight corner numbers.
    With the cell numbers of `generate_cell_numbers()` (`CellsOK`; `cellsOK_generate`), for models
    with ANY number of patches and cells:
    * `faces()` returns (`r.faces ktol = .ok fs`), `fs` being the concatenation over the top nodes
      of their lists; for every top node `facesOf` returns its `facesTagged` list — the
      `assert ((owner < neighbor) | (neighbor == -1)).all()` holds, PROVED from: internal faces
      have consecutive cells of one patch; the cell numbers of an earlier top node are below those
      of a later one; boundary faces have `neighbor = -1`;
    * every listed face: its owner cell (of the listing node) contains its four vertices; an
      internal face has a second cell of the same patch containing them, `owner < neighbour`; a
      boundary face has `neighbor = -1`; an interface face has as neighbour a cell of the LATER
      top node `nb` that contains its four vertices (the geometrically adjacent cell — what a
      wrong interface orientation breaks), `owner < neighbour`;
    * `cellHas` means what it says (`cellHas_spec`).

    PARTIAL: the adjacency clauses are the guard's certificate (validated per generated model, not
    derived from the catalogue invariant: that needs the numbering to be transported by the INVERSE
    of the orientation `faces()` recomputes, i.e. uniqueness of the orientation of an embedded face
    net); that every geometric cell face of a multi-patch model is listed exactly once is proved
    for one structured patch (`C18_faces_partial`) and checked by the oracle otherwise. -/
theorem C18_faces_assembly_partial (ktol : ℚ) (r : Numbered) (hc : CellsOK ktol r)
    (hg : r.facesGuardB ktol = true) :
    (∃ fs, r.faces ktol = .ok fs ∧
      fs = (List.range r.tops.length).flatMap (fun k => ((r.facesTagged ktol k).toOption.getD []).map (·.1))) ∧
    (∀ k, k < r.tops.length → ∃ l, r.facesTagged ktol k = .ok l ∧ r.facesOf ktol k = .ok (l.map (·.1)) ∧
      ∀ fk ∈ l, r.cellHas k fk.1.owner fk.1.nodes = true ∧
        (fk.2 = FaceKind.internal → r.cellHas k fk.1.neighbor fk.1.nodes = true ∧ fk.1.owner < fk.1.neighbor) ∧
        (fk.2 = FaceKind.boundary → fk.1.neighbor = -1) ∧
        (∀ nb, fk.2 = FaceKind.iface nb → k < nb ∧ nb < r.tops.length ∧
          r.cellHas nb fk.1.neighbor fk.1.nodes = true ∧ fk.1.owner < fk.1.neighbor)) ∧
    (∀ pos c nodes, r.cellHas pos c nodes = true →
      c ∈ (r.cells.getD pos default).data.toList ∧
      ∃ q, q < (r.cells.getD pos default).data.size ∧ (r.cells.getD pos default).data.getD q default = c ∧
        ∀ v ∈ nodes, v ∈ cellCorners (r.cp.getD pos default) (unravel (r.cells.getD pos default).shape q)) :=
  ⟨faces_ok ktol r hc hg, fun k hk => faces_assert ktol r hc hg k hk, fun pos c nodes h => cellHas_spec r pos c nodes h⟩

/-- `CellsOK` holds after `generate_cell_numbers()`. -/
example (ktol : ℚ) (r : Numbered) : CellsOK ktol (r.generateCellNumbers ktol) := cellsOK_generate ktol r

/-! ## faces -/

/-- **Faces of a structured trilinear patch** (what is proved of the face clause of C18).
    `internalFaces` / `sideFaces` are the lists `TopologicalNode.faces` concatenates, `patchFaces`
    their concatenation for a patch that owns its six sides (a one-patch model); cells `a × b × c`,
    cell numbers `start + C-order rank`, ANY array `cp` of control-point numbers.
    1. **Single cell**: no internal face, six boundary faces with the listed vertex cycles (corner
       `(i,j,k)` numbered `4i+2j+k`).
    2. **Outward normals**: for a cell whose trilinear map has positive Jacobian at its 8 corners
       (right-handed) each of the six cycles turns counter-clockwise seen from outside (24
       determinant cases, any ordered field).
    3. **Translates**: in a multi-cell patch the quad on the high side of the cell `[x,y,z]` in
       direction `d` (listed for the internal face the cell owns, or its boundary face of index
       `-1`) and the quad on its low side with columns 1, 3 exchanged (boundary face of index `0`)
       are these very cycles read at the cell's corners — so 2. applies to every cell.
    4. **Every internal face once, owner below neighbour**: the internal faces of direction `d` are
       listed as the image of the duplicate-free list `intOwners` of owner cells, which consists
       exactly of the cells `[i,j,k]` whose successor in direction `d` is a cell, too; owner =
       that cell, neighbour = the successor, `owner < neighbour`, no name.
    5. **Every boundary face once**: the faces of index `0` / `-1` of direction `d` are the images
       of the duplicate-free lists of the cells with `d`-th index `0` / maximal; `neighbour = -1`
       and the name is the one handed in (`bdnode.name`).
    6. **Six faces per cell**: the number of every cell occurs exactly six times in the owner and
       neighbour columns of `patchFaces` together.
    7. Cells of an earlier top node have smaller numbers than cells of a later one (interface faces
       are listed by the owning, earlier, node: `owner < neighbour`).

    PARTIAL — not proved: the multi-patch part.  That `facesOf` assembles exactly these lists for
    the sides a node owns (it does, by its definition, given `nhigher ∈ {1,2}`), that an interface
    face is listed once (by the owner, none by the other node), that the neighbour cell found
    through `Orientation.compute(bdnode.obj, neighbour section).map_array(cell numbers)` is the
    geometrically adjacent one, and the link of 2. to `cps()` through the numbering.  These are
    covered by the correspondence run and the geometric oracle. -/
theorem C18_faces_partial :
    (∀ d < 3, internalFaces [1, 1, 1] oneCellCp oneCell d = []) ∧
    (∀ nm : Option String,
      [sideFaces [1, 1, 1] oneCellCp oneCell 0 false nm, sideFaces [1, 1, 1] oneCellCp oneCell 0 true nm,
       sideFaces [1, 1, 1] oneCellCp oneCell 1 false nm, sideFaces [1, 1, 1] oneCellCp oneCell 1 true nm,
       sideFaces [1, 1, 1] oneCellCp oneCell 2 false nm, sideFaces [1, 1, 1] oneCellCp oneCell 2 true nm] =
      [[⟨[0, 1, 3, 2], 0, -1, nm⟩], [⟨[4, 6, 7, 5], 0, -1, nm⟩], [⟨[0, 4, 5, 1], 0, -1, nm⟩],
       [⟨[2, 3, 7, 6], 0, -1, nm⟩], [⟨[0, 2, 6, 4], 0, -1, nm⟩], [⟨[1, 5, 7, 3], 0, -1, nm⟩]]) ∧
    (∀ {K : Type} [Field K] [LinearOrder K] (P : ℕ → P3 K), (∀ n < 8, 0 < cornerJac P n) →
      CycleOutward P 0 1 3 2 4 ∧ CycleOutward P 4 6 7 5 4 ∧ CycleOutward P 0 4 5 1 2 ∧
      CycleOutward P 2 3 7 6 2 ∧ CycleOutward P 0 2 6 4 1 ∧ CycleOutward P 1 5 7 3 1) ∧
    (∀ (cp : NdArr ℤ) (x y z : ℕ),
      quadNodes cp 0 (bumpIdx [x, y, z] 0) = [4, 6, 7, 5].map (fun n => cp.get (cornerOf x y z n)) ∧
      quadNodes cp 1 (bumpIdx [x, y, z] 1) = [2, 3, 7, 6].map (fun n => cp.get (cornerOf x y z n)) ∧
      quadNodes cp 2 (bumpIdx [x, y, z] 2) = [1, 5, 7, 3].map (fun n => cp.get (cornerOf x y z n)) ∧
      swap13 (quadNodes cp 0 [x, y, z]) = [0, 1, 3, 2].map (fun n => cp.get (cornerOf x y z n)) ∧
      swap13 (quadNodes cp 1 [x, y, z]) = [0, 4, 5, 1].map (fun n => cp.get (cornerOf x y z n)) ∧
      swap13 (quadNodes cp 2 [x, y, z]) = [0, 2, 6, 4].map (fun n => cp.get (cornerOf x y z n))) ∧
    (∀ (a b c : ℕ) (cp cell : NdArr ℤ) (d : ℕ), d < 3 →
      internalFaces [a, b, c] cp cell d = (intOwners [a, b, c] d).map (fun idx =>
        { nodes := quadNodes cp d (bumpIdx idx d), owner := cell.get idx, neighbor := cell.get (bumpIdx idx d),
          name := none }) ∧
      (intOwners [a, b, c] d).Nodup ∧
      ∀ i j k, [i, j, k] ∈ intOwners [a, b, c] d ↔
        i < a ∧ j < b ∧ k < c ∧ [i, j, k].getD d 0 + 1 < [a, b, c].getD d 0) ∧
    (∀ (cs : List ℕ) (cp : NdArr ℤ) (start d : ℕ), d < cs.length → (∀ n ∈ cs, 0 < n) →
      ∀ f ∈ internalFaces cs cp (arangeArr start cs) d, f.owner < f.neighbor ∧ f.name = none) ∧
    (∀ (a b c : ℕ) (cp cell : NdArr ℤ) (d : ℕ) (nm : Option String), d < 3 → 0 < a → 0 < b → 0 < c →
      sideFaces [a, b, c] cp cell d false nm = (allIdx ([a, b, c].eraseIdx d)).map (fun i2 =>
        { nodes := swap13 (quadNodes cp d (insertAt i2 d 0)), owner := cell.get (insertAt i2 d 0), neighbor := -1,
          name := nm }) ∧
      sideFaces [a, b, c] cp cell d true nm = (allIdx ([a, b, c].eraseIdx d)).map (fun i2 =>
        { nodes := quadNodes cp d (insertAt i2 d (cp.shape.getD d 0 - 1)),
          owner := cell.get (insertAt i2 d ([a, b, c].getD d 0 - 1)), neighbor := -1, name := nm }) ∧
      (firstCells [a, b, c] d).Nodup ∧ (lastCells [a, b, c] d).Nodup ∧
      (∀ i j k, [i, j, k] ∈ firstCells [a, b, c] d ↔ i < a ∧ j < b ∧ k < c ∧ [i, j, k].getD d 0 = 0) ∧
      (∀ i j k, [i, j, k] ∈ lastCells [a, b, c] d ↔
        i < a ∧ j < b ∧ k < c ∧ [i, j, k].getD d 0 + 1 = [a, b, c].getD d 0)) ∧
    (∀ (a b c start : ℕ) (cp : NdArr ℤ) (nm : ℕ → Option String) (i j k : ℕ), i < a → j < b → k < c →
      ((patchFaces [a, b, c] cp (arangeArr start [a, b, c]) nm).map (·.owner)).count
          ((arangeArr start [a, b, c]).get [i, j, k]) +
        ((patchFaces [a, b, c] cp (arangeArr start [a, b, c]) nm).map (·.neighbor)).count
          ((arangeArr start [a, b, c]).get [i, j, k]) = 6) ∧
    (∀ (shapes : List (List ℕ)) (start i j : ℕ), i < j → j < (cellArrays shapes start).1.length →
      ∀ a ∈ ((cellArrays shapes start).1.getD i default).data.toList,
      ∀ b ∈ ((cellArrays shapes start).1.getD j default).data.toList, a < b) :=
  ⟨oneCell_internal, oneCell_sides, fun P hJ => outward_normals P hJ, quad_translate,
   fun a b c cp cell d hd => ⟨internalFaces_eq _ cp cell d, intOwners_nodup _ _, fun i j k => mem_intOwners a b c d i j k hd⟩,
   internal_owner_lt,
   fun a b c cp cell d nm hd ha hb hc => ⟨sideFaces_first_eq _ cp cell d nm, sideFaces_last_eq _ cp cell d nm,
     firstCells_nodup a b c d hd, lastCells_nodup a b c d hd,
     fun i j k => mem_firstCells a b c d i j k hd ha hb hc, fun i j k => mem_lastCells a b c d i j k hd ha hb hc⟩,
   fun a b c start cp nm i j k hi hj hk => six_faces_per_cell a b c start cp nm i j k hi hj hk,
   fun shapes start i j hij hj a ha b hb => cellArrays_blocks shapes start i j hij a ha b hb hj⟩

/-- the hypothesis of the normal statement is satisfiable: the unit cube. -/
example : ∃ P : ℕ → P3 ℚ, ∀ n < 8, 0 < cornerJac P n := by
  refine ⟨fun n => ⟨(n / 4 % 2 : ℕ), (n / 2 % 2 : ℕ), (n % 2 : ℕ)⟩, ?_⟩
  intro n hn
  interval_cases n <;> simp [cornerJac, flipBit, tripleAt]

/-- `PlansInv` is consistent (trivially: the empty history on the empty catalogue; a non-trivial
    instance cannot be exhibited by evaluation because the kernel cannot run the catalogue's hash
    maps — the non-trivial instances are the generated cases of the correspondence run). -/
example : PlansInv ⟨1, 2, false, Model.empty 1⟩ [] := by
  have ht : (⟨1, 2, false, Model.empty 1⟩ : SplineModel).tops = [] := by
    simp [SplineModel.tops, Model.nodesOf, Model.empty, Model.level, uniquify, Level.get]
  refine ⟨by rw [ht]; rfl, by rw [ht]; exact List.nodup_nil, ?_, ?_, ?_, ?_, ?_, ?_, ?_⟩ <;>
    intro k <;> intros <;> simp at *
